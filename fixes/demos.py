#!/venv/bin/python
"""Demonstrations of the genuine defects repaired by `fix:` commits in /repo.

Each `dNN()` returns None when the property holds and a string describing the
failure otherwise.  `python demos.py [REPO]` prints one line per demo.  They
were run before and after each fix commit (see known_findings.txt); the reverse
patch of each fix commit is also kept under seeded/ as a regression mutant.
"""
import sys, os, warnings
REPO = sys.argv[1] if len(sys.argv) > 1 else os.environ.get('DK_REPO', '/repo')
sys.path.insert(0, REPO)
warnings.simplefilter('ignore')
import numpy as np
import device_kit
from device_kit import *
from device_kit.functions import *
assert os.path.realpath(device_kit.__file__).startswith(os.path.realpath(REPO)), device_kit.__file__


def fd(f, x, h=1e-6):
  x = np.array(x, dtype=float)
  g = np.zeros(x.size)
  for i in range(x.size):
    e = np.zeros(x.size); e[i] = h
    g[i] = (f(x + e) - f(x - e))/(2*h)
  return g


def close(a, b, tol=1e-5):
  a = np.array(a, dtype=float).reshape(-1); b = np.array(b, dtype=float).reshape(-1)
  return a.shape == b.shape and np.all(np.abs(a - b) <= tol*np.maximum(1, np.abs(b)))


def d01():
  d = IDevice('i', 3, (0, 2), a=0.5, b=3, c=1)
  s = np.array([0.5, 1.0, 1.5])
  g = d.deriv(s, 0); n = fd(lambda x: d.cost(x, 0), s)
  return None if close(g, n) else 'IDevice deriv %s != fd %s' % (g, n)


def d02():
  d = IDevice('i', 3, (0, 2))
  s = np.array([0.5, 1.0, 1.5])
  H = d.hess(s, 0)
  h = 1e-3
  N = np.array([(d.cost(s + h*np.eye(3)[i], 0) - 2*d.cost(s, 0) + d.cost(s - h*np.eye(3)[i], 0))/h**2 for i in range(3)])
  return None if close(np.diag(H), N, 1e-4) else 'IDevice hess diag %s != second difference of cost %s' % (np.diag(H), N.round(5))


def d03():
  try:
    d = IDevice2('i', 3, (0, 2), p_l=-1, p_h=-1)
    c = d.cost(np.array([0.5, 1., 1.5]), 0)
  except ZeroDivisionError as e:
    return 'IDevice2 p_l == p_h: ZeroDivisionError'
  return None if np.isfinite(c) else 'IDevice2 p_l == p_h: cost %s' % c


def d04():
  d = CDevice2('c', 3, (0, 2), (1, 5), p_l=-2, p_h=-1)
  s = np.array([0.5, 1.0, 1.5])
  H = d.hess(s, 0)
  N = np.array([fd(lambda x, i=i: d.deriv(x, 0)[i], s) for i in range(3)])
  return None if close(H, N, 1e-4) else 'CDevice2 hess %s != fd of deriv %s' % (H.tolist(), N.round(4).tolist())


def d05():
  d = GDevice('g', 3, (-5, 0), cost_coeffs=[[1, 1, 0], [2, 1, 0], [3, 0, 0]])
  H = np.array(d.hess(np.array([-1., -2., -3.])))
  return None if H.shape == (3, 3) else 'GDevice 2-D coeffs hess shape %s' % (H.shape,)


def d06():
  d = SDevice('s', 4, (-3, 3), c1=1.0, c2=0.5, capacity=100, start=0.5)
  s = np.array([1., -2., 0.5, 1.5])
  g = d.deriv(s, 0); n = fd(lambda x: d.cost(x, 0), s)
  return None if close(g, n) else 'SDevice flip-flop deriv %s != fd %s' % (g, n)


def d07():
  d = SDevice('s', 4, (-3, 3), c1=0.0, c2=0.0, c3=1.0, capacity=10, start=0.2, damage_depth=0.9, sustainment=0.9, efficiency=0.8)
  s = np.array([1., -2., 0.5, 1.5])
  g = d.deriv(s, 0); n = fd(lambda x: d.cost(x, 0), s)
  return None if close(g, n) else 'SDevice deep-damage deriv %s != fd %s' % (g, n)


def d08():
  d = Device('d', 4, (0, 2), [(1, 2, 0, 2), (3, 4, 2, 4)])
  s = np.array([1., 0.5, 2., 1.5])  # sums 1.5 in [1,2], 3.5 in [3,4] -> feasible
  vals = [c['fun'](s) for c in d.constraints]
  return None if min(vals) >= 0 else 'feasible flow rejected by cbound constraints: %s' % vals


def d09():
  d = IDevice2('i', 3, (0, 2), p_l=-2, p_h=-1)
  s = np.array([[0.5, 0.5, 0.5]]); p = np.array([0.5, 0.5, 0.5])
  try:
    (s1, o) = device_kit.step(d, p, s, 1.0)
  except Exception as e:
    return 'step raised %s' % type(e).__name__
  c0, c1 = d.cost(s, p), d.cost(s1, p)
  return None if c1 < c0 - 1e-3 else 'step made no progress: %f -> %f' % (c0, c1)


def d10():
  ds = DeviceSet('root', [IDevice2('a', 3, (0, 2), p_l=-2, p_h=-1), IDevice2('b', 3, (0, 2), p_l=-3, p_h=-1)], (0, 3))
  try:
    (s, o) = device_kit.solve(ds, 1.5)
  except Exception as e:
    return 'solve on a 2-row tree raised %s: %s' % (type(e).__name__, str(e)[:40])
  return None


def d11():
  cons = [{'type': 'ineq', 'fun': lambda s: 3 - s[0], 'jac': lambda s: np.array([-1., 0, 0])}]
  a = ADevice('a', 3, (0, 2), None, constraints=cons)
  m = MFDeviceSet(a, ['e', 'h'])
  v0 = a.constraints[0]['fun'](np.array([1., 1., 1.]))
  m.constraints
  try:
    v1 = a.constraints[0]['fun'](np.array([1., 1., 1.]))
  except Exception as e:
    return 'wrapped device constraint raises after MFDeviceSet.constraints was read: %s' % type(e).__name__
  S = np.array([1., 2, 3, 4, 5, 6])
  J = np.array(m.constraints[-1]['jac'](S)).reshape(-1)
  n = fd(lambda x: m.constraints[-1]['fun'](x), S)
  if not close(J, n):
    return 'MF constraint jac %s != fd %s' % (J, n)
  return None if v0 == v1 else 'wrapped constraint changed value %s -> %s' % (v0, v1)


def d12():
  out = []
  for cls, kw in [(IDevice, {}), (IDevice2, {}), (SDevice, {})]:
    d = cls('x', 3, (0, 2), (1, 4), **kw)
    if not d.cbounds:
      out.append(cls.__name__)
  return None if not out else 'cbounds accepted then dropped by %s' % out


def d13():
  try:
    d = Device('d', 3, [0, 1, 2])
  except ValueError:
    return None
  return '3-element bounds list accepted as %s' % d.bounds.tolist()


def d14a():
  te = np.array([10., 12., 9., 8., 11.])
  d = TDevice('t', 5, (0, 2), sustainment=0.9, efficiency=1.5, t_init=15, t_optimal=20, t_range=4, t_external=te, c=1)
  s = np.array([0.5, 1., 1.5, 0.2, 0.7])
  try:
    g = d.deriv(s, 0)
  except Exception as e:
    return 'TDevice.deriv with length 5 raised %s' % type(e).__name__
  return None


def d14b():
  te = np.array([10., 12., 9., 8., 11.])
  d = TDevice('t', 5, (0, 2), sustainment=0.9, efficiency=1.5, t_init=15, t_optimal=20, t_range=4, t_external=te, c=1)
  s = np.array([0.5, 1., 1.5, 0.2, 0.7])
  # gradient computed with the documented chain rule; avoids d.deriv (hard-coded 24)
  dt = d.deriv_t(d.r2t(s))
  g = (d.sustainment_matrix*dt.reshape(5, 1)).sum(axis=0)*d.efficiency
  n = fd(lambda x: d.cost(x, 0), s)
  return None if close(g, n) else 'TDevice cost is not the integral of its marginal cost: fd/deriv ratio %s' % (n/g).round(3)


def d15a():
  d = WindowDevice('w', 4, (0, 2), 2, None, 1)
  try:
    WindowDevice.from_dict(d.to_dict())
  except TypeError as e:
    return 'WindowDevice round trip: %s' % str(e)[:60]
  return None


def d15b():
  te = np.zeros(3) + 10
  d = TDevice('t', 3, (0, 2), 0.9, 1.5, 15, 20, 4, te, c=3)
  e = TDevice.from_dict(d.to_dict())
  return None if np.all(np.array(e.c) == 3) else 'TDevice round trip loses c: %s' % e.c


def d16():
  te = np.array([-4., 0., 5.])
  d = TDevice('t', 3, (0, 2), 0.5, 1.5, 15, 20, 4, te)
  T = []; prev = 15.
  for i in range(3):
    prev = 0.5*prev + 0.5*te[i]; T.append(prev)
  return None if close(d.t_base, T) else 'TDevice t_base %s != recurrence %s' % (d.t_base, T)


def d17():
  te = np.array([10., 10., 10.])
  d = TDevice('t', 3, (-2, 2), 0.5, 2.0, 15, 20, 4, te)
  r = np.array([-1., 1., -1.])
  T = []; prev = 15.
  for i in range(3):
    prev = 0.5*prev + 0.5*te[i] + 2.0*r[i]; T.append(prev)
  return None if close(d.r2t(r), T) else 'TDevice r2t %s != recurrence %s' % (d.r2t(r), T)


def d21():
  try:
    m = MFDeviceSet(Device('d', 2, (0, 2)), ['e', 'h'])
  except ValueError as e:
    return 'MFDeviceSet of a length-2 device fails to construct: %s' % str(e)[:50]
  b = m.devices[0].bounds.tolist()
  return None if b == [[0, 2], [0, 2]] else 'MFDeviceSet of a length-2 device: conduit bounds %s, expected [[0,2],[0,2]]' % b


def d22():
  ds = DeviceSet('root', [Device('a', 2, [(1, 1), (2, 2)]), Device('b', 2, [(0, 0), (3, 3)])])
  (s, o) = device_kit.solve(ds, 0)
  return None if np.array(s).shape == (2, 2) else 'solve shortcut returns shape %s for a (2,2) device' % (np.array(s).shape,)


def d23():
  ds = DeviceSet('root', [Device('a', 2, (0, 1)), Device('b', 2, (0, 1))])
  try:
    r = ds.project(np.array([2., 2., -1., .5]))
  except Exception as e:
    return 'DeviceSet.project(flat) raised %s' % type(e).__name__
  return None if r.shape == (2, 2) else 'shape %s' % (r.shape,)


def d24():
  from device_kit.loaders.builder_loader import run_to_array
  a = run_to_array({'basis': 4, 'runs': {'0': 1, '2': 5}})
  b = run_to_array({'basis': 4, 'runs': {'2': 5, '0': 1}})
  return None if (a == b).all() and (a == [1, 1, 5, 5]).all() else 'run_to_array depends on key order: %s vs %s' % (a, b)


def d26():
  a = ADevice('a', 3, (0, 2))
  g = np.array(a.deriv(np.array([1., 1., 1.]), 0)); h = np.array(a.hess(np.array([1., 1., 1.])))
  return None if g.size == 3 and h.shape == (3, 3) else 'ADevice default f: deriv size %d, hess shape %s' % (g.size, h.shape)


def d31():
  m = MFDeviceSet(IDevice('d', 3, (0, 2), a=0.2, b=3), ['e', 'h'])
  try:
    h = m.hess(np.arange(6.)/4, 0)
  except Exception as e:
    return 'MFDeviceSet.hess(flat) raised %s' % type(e).__name__
  h2 = m.hess((np.arange(6.)/4).reshape(2, 3), 0)
  return None if np.array(h).shape == (3, 3) and close(h, h2) else 'MFDeviceSet.hess(flat) %s != hess(shaped) %s' % (np.diag(h), np.diag(h2))


def d33():
  ds = SubBalancedDeviceSet('root', [Device('a1', 2, (-5, 5)), Device('b1', 2, (-5, 5)), Device('a2', 2, (-5, 5)), Device('b2', 2, (-5, 5))],
                            None, labels=['a1', 'b1'])
  S = np.array([[1., 1.], [0., 0.], [3., 3.], [0., 0.]])   # rows labelled a1 sum to 1 (not balanced); rows labelled b1 sum to 0
  vals = [c['fun'](S.flatten()) for c in ds.constraints]
  return None if any(abs(v) > 1e-12 for v in vals) else 'SubBalancedDeviceSet: unbalanced label a1 accepted, all constraint values %s' % vals


def d34():
  from device_kit.loaders.builder_loader import load_supply_device
  out = []
  for basis, runs, want in [(2, {'0': [1, 5], '1': [0, 2]}, [[-5, -1], [-2, 0]]), (3, {'0': [1, 5], '2': [0, 2]}, [[-5, -1], [-5, -1], [-2, 0]])]:
    try:
      d = load_supply_device({'type': 'supply', 'bounds': {'basis': basis, 'runs': runs}, 'costs': {}}, basis)
      if d.bounds.tolist() != want: out.append('basis %d: bounds %s, expected %s' % (basis, d.bounds.tolist(), want))
    except Exception as e:
      out.append('basis %d: %s' % (basis, type(e).__name__))
  try:
    d = load_supply_device({'type': 'supply', 'bounds': {'basis': 3, 'runs': {'0': [1, 5]}}, 'costs': {'flow_bounds_relative': {'basis': 3, 'runs': {'0': [-2, -1]}}}}, 3)
  except Exception as e:
    out.append('supply with flow_bounds_relative: %s' % type(e).__name__)
  return None if not out else 'load_supply_device: ' + '; '.join(out)


def d35():
  c = {'type': 'ineq', 'fun': lambda s: 3 - s[0], 'jac': lambda s: np.array([-1., 0])}
  a = ADevice('a', 2, (0, 2), (1, 3), constraints=[c])
  b = ADevice.from_dict(a.to_dict())
  return None if len(b.constraints) == len(a.constraints) else 'ADevice round trip: %d constraints become %d' % (len(a.constraints), len(b.constraints))


def d36():
  ds = DeviceSet('root', [Device('a', 2, [(1, 1), (2, 2)]), Device('b', 2, [(0, 0), (3, 3)])], sbounds=[(2, 3), (6, 7)])
  try:
    (s, o) = device_kit.solve(ds, 0)
  except device_kit.OptimizationException:
    return None
  return 'solve returned %s for an infeasible all-fixed model (aggregate bound (2,3) violated by the only flow)' % np.array(s).tolist()


def d37():
  d = IDevice('i', 2, (0, 2), a=0, b=1, c=1)
  try:
    h = d.hess(np.array([2., 1.]), 0)
  except ZeroDivisionError:
    return 'IDevice(b=1, a=0).hess at the upper bound raises ZeroDivisionError (second derivative of a linear curve is 0)'
  return None if np.allclose(h, 0) else 'hess %s' % h


def d38():
  try:
    TwoRatioMFDeviceSet(Device('d', 3, (0, 2)), ['e', 'h'], None)
  except ValueError:
    return None
  return 'TwoRatioMFDeviceSet(ratios=None) is accepted; its constraints then raise TypeError'


def d39():
  out = []
  for cb in [(1, 4, 0, 5), (1, 4, -1, 2), (1, 4, 2, 1)]:
    try:
      d = Device('d', 3, (0, 2), [cb])
      try:
        [c['jac'](np.ones(3)) for c in d.constraints]
      except Exception as e:
        out.append('%s accepted, jac raises %s' % (cb, type(e).__name__))
    except ValueError:
      pass
  return None if not out else 'cumulative bound with a range outside the horizon: ' + '; '.join(out)


def d40():
  try:
    g = GDevice('g', 3, (-5, 0), cost_coeffs=[[1, 1, 0], [2, 1, 0]])
  except ValueError:
    return None
  try:
    g.cost(np.array([-1., -1., -1.]), 0)
  except Exception as e:
    return 'GDevice with 2 coefficient rows for 3 slots is accepted; cost raises %s' % type(e).__name__
  return None


def d41():
  g = GDevice('g', 3, (-5, 0))
  try:
    c = g.cost(np.array([-1., -1., -1.]), 1.0); d = g.deriv(np.array([-1., -1., -1.]), 1.0); h = g.hess(np.array([-1., -1., -1.]))
  except TypeError as e:
    return 'GDevice without cost_coeffs is accepted; cost/deriv/hess raise TypeError'
  return None if (c == -3.0 and np.array(d).size == 3 and np.array(h).shape == (3, 3)) else 'unexpected %s %s' % (c, d)


def d42():
  try:
    d = CDevice2('c', 4, (0, 2), [(1, 3, 0, 2), (1, 3, 2, 4)], p_l=[-2, -3, -1.5, -2], p_h=-1)
  except ValueError:
    return None
  try:
    d.deriv(np.ones(4), 0)
  except Exception as e:
    return 'CDevice2 with vector slopes is accepted; deriv raises %s' % type(e).__name__
  return None


def d43():
  try:
    d = CDevice2('c', 4, (0, 2), [(1, 3, 0, 1), (1, 3, 1, 3)])
  except ValueError:
    return None
  try:
    d.cost(np.ones(4), 0)
  except Exception as e:
    return 'CDevice2 whose cumulative ranges stop before the horizon is accepted; cost raises %s' % type(e).__name__
  return None


def d44():
  from device_kit.projection import List, HyperCube
  r = List([HyperCube([[0.5, 1.5], [0.5, 1.5]])]).project([[0, 2]])
  return None if np.allclose(r, [[0.5, 1.5]]) else 'List.project of an integer-typed point truncates: %s, expected [[0.5, 1.5]]' % np.array(r).tolist()


def d45():
  from device_kit.projection import Intersection, Slice, HalfSpace
  I = Intersection(Slice([-3.75, -2], 3.75, 7.25), HalfSpace([4, 3], 4, 1))
  x = I.project([-2.5, -1])
  return None if I.is_in(x) else 'Intersection.project returned a point its own is_in rejects (Dykstra tests the a-side iterate but returns the b-side one)'


def d45b():
  from device_kit.projection import Intersection, HyperCube, HalfSpace
  x = Intersection(HyperCube([[0, 1], [0, 1]]), HalfSpace([1, 1], 1, -1)).project([2, 0.5])
  return None if np.allclose(x, [1, 0], atol=1e-6) else 'Intersection.project([2, .5]) = %s, the nearest member is (1, 0)' % np.array(x).round(6).tolist()


def d46():
  d = Device('d', 3, (0, 2), [(1, 4, 0, 3)])
  try:
    d.cbounds = [(5, 4, 0, 3)]
  except ValueError:
    pass
  return None if d.cbounds == [(1, 4, 0, 3)] else 'a rejected cbounds assignment replaced the accepted value by %s' % (d.cbounds,)


def d47():
  g = PVDevice('g', 2, (-1, 0))
  try:
    g.bounds = (0, 1)
  except ValueError:
    pass
  return None if g.bounds.tolist() == [[-1, 0], [-1, 0]] else 'a rejected bounds assignment on a producer was stored: %s' % g.bounds.tolist()


def d48():
  g = GDevice('g', 2, (-1, 0), None, cost_coeffs=[1, 0])
  try:
    g.cost_coeffs = [[1, 0]]*3
  except ValueError:
    pass
  return None if list(g.cost_coeffs) == [1, 0] else 'a rejected cost_coeffs assignment was stored: %s' % (g.cost_coeffs,)


def d49():
  try:
    d = TDevice('t', 2, (0, 2), 0.5, 1.0, 10, 20, 2, [-4, 3])
    r = d.r2t(np.array([-1, 1]))
  except ValueError as e:
    return 'TDevice with integer-typed negative external temperatures / flows raises ValueError: %s' % str(e)[:60]
  return None if close(d.t_base, [3., 3.]) else 't_base %s' % d.t_base


def d50():
  ds = SubBalancedDeviceSet('root', [Device('he', 2, (-5, 5)), MFDeviceSet(Device('m', 2, (0, 5)), ['e', 'h']), Device('x_e', 2, (-5, 5))], None, labels=['.e'])
  return None if ds.labelled_sets == [[1]] else "label '.e' is treated as a regular expression: rows %s are balanced, only row 1 ('root.m.e') ends with '.e'" % ds.labelled_sets


def d51():
  out = []
  x = np.array([1., 2., 3.])
  for name, f in [('CobbDouglas', CobbDouglas(np.array([1., 2., 3.]))), ('InformationEntropy', InformationEntropy()), ('TemporalVariance', TemporalVariance())]:
    if np.array(f.deriv(x)).shape != (3,):
      out.append('%s.deriv has shape %s' % (name, np.array(f.deriv(x)).shape))
  try:
    SumFunction([CobbDouglas(np.array([1., 2., 3.])), Poly2D([[1, 0]]*3)]).deriv(x)
  except ValueError:
    out.append('SumFunction([CobbDouglas, Poly2D]).deriv raises ValueError')
  for name, f in [('X2D([Poly1D])', X2D([Poly1D(np.poly1d([1, 2, 3]))]*3)), ('InnerSumFunction(Poly1D)', InnerSumFunction(Poly1D(np.poly1d([1, 2, 3]))))]:
    try:
      h = np.array(f.hess(x))
      if h.shape != (3, 3): out.append('%s.hess shape %s' % (name, h.shape))
    except ValueError:
      out.append('%s.hess raises ValueError' % name)
  return None if not out else '; '.join(out)


def d52():
  from device_kit.projection import Intersection, Slice, HalfSpace, HyperCube
  R = Intersection(Intersection(Slice([1, -.5, -1, -2.75, 0], -31/8, 1/8), HalfSpace([0, -4, 0, -7, -4], 2.5, +2)),
                   HyperCube(np.stack(([39/16, -95/32, 11/32, 17/16, -87/32], [51/16, 25/32, 51/32, 73/16, 1/32]), axis=1)))
  x = R.project([-5.5, -.25, 3.5, -.5, -1.25])
  best = np.array([2.4375, -0.7421875, 1.59375, 1.0625, -1.7421875])
  return None if np.allclose(x, best, atol=1e-6) else 'nested Intersection.project is feasible but not nearest: returned %s, nearest %s' % (np.array(x).round(6).tolist(), best.tolist())


def d53():
  d = SDevice('s', 3, (-2, 2), efficiency=1, start=1, capacity=6, c3=1, damage_depth=0.5)
  r = np.array([1, -2, 1])
  try:
    [c['fun'](r) for c in d.constraints]; [c['jac'](r) for c in d.constraints if 'jac' in c]; d.deriv(r, 0)
  except ValueError as e:
    return 'SDevice(efficiency=1) with an integer-typed flow: constraints / deriv raise ValueError (%s) while charge_at accepts it' % str(e)[:50]
  return None


def d54():
  f = X2D([Poly1D(np.poly1d([1, 2, 3])), HLQuadraticCost(-2, -1, 0, 3)])
  try:
    g = f.deriv(np.array([1., 2.]))
  except ValueError:
    return 'X2D mixing Poly1D with HLQuadraticCost: deriv raises ValueError (inhomogeneous shapes)'
  return None if np.allclose(g, [4., -2 + 1*(2/3)]) else 'deriv %s' % g


def d55():
  out = []
  c = np.array([1., 2., 0.5]); d = IDevice('i', 3, (0, 2), a=0.5, b=2, c=c)
  x = np.array([0.5, 1.0, 1.5]); c0 = d.cost(x, 0); c *= -1
  if abs(d.cost(x, 0) - c0) > 1e-12: out.append('IDevice c (cost %.4g -> %.4g)' % (c0, d.cost(x, 0)))
  b = np.array([2., 2., 2.]); d = IDevice('i', 3, (0, 2), a=0.5, b=b, c=1); c0 = d.cost(x, 0); b += 1
  if abs(d.cost(x, 0) - c0) > 1e-12: out.append('IDevice b')
  k = np.array([1., 2., 0.]); g = GDevice('g', 3, (-2, 0), cost_coeffs=k); y = -x; c0 = g.cost(y, 0); k *= -1
  if abs(g.cost(y, 0) - c0) > 1e-12: out.append('GDevice 1-D cost_coeffs (cost %.4g -> %.4g, deriv unchanged)' % (c0, g.cost(y, 0)))
  k2 = [[1., 2., 0.]]*3; k2 = [list(r) for r in k2]; g = GDevice('g', 3, (-2, 0), cost_coeffs=k2); c0 = g.cost(y, 0); k2[0][0] = -5.
  if abs(g.cost(y, 0) - c0) > 1e-12: out.append('GDevice 2-D cost_coeffs')
  tc = np.array([1., 2., 3.]); t = TDevice('t', 3, (0, 2), 0.9, 1, 20, 20, 3, [10., 12., 8.], c=tc); c0 = t.cost(x, 0); tc *= -1
  if abs(t.cost(x, 0) - c0) > 1e-12: out.append('TDevice c')
  return ('parameters given as arrays/lists are kept by reference; editing the caller\'s object afterwards changes the accepted device with no validation: ' + '; '.join(out)) if out else None


def d56():
  try:
    d = Device('d', 3, np.array([[2, 1]]*3, dtype=np.uint8))
  except ValueError:
    return None
  return 'Device bounds given as an unsigned-integer array with low 2 > high 1 are accepted (hbounds - lbounds wraps around): lbounds %s hbounds %s' % (d.lbounds, d.hbounds)


def d57():
  a = ADevice('a', 2, (0, 4), constraints=[{'type': 'ineq', 'fun': lambda x: x[0] - 0.5}])
  s = DeviceSet('root', [a, Device('b', 2, (0, 4))])
  x = np.array([[1., 4.], [2., 2.]])
  alone = np.atleast_1d(a.constraints[-1]['fun'](x[0]))
  intree = np.atleast_1d(s.constraints[0]['fun'](x.flatten()))
  if alone.shape != intree.shape or not np.allclose(alone, intree):
    return 'an ADevice user constraint x[0] - 0.5 is %s on the device alone but %s inside a DeviceSet (it is handed the raw (1, n) row slice)' % (alone, intree)
  return None


def d58():
  d = Device('d', 2, (0, 4))
  m = TwoRatioMFDeviceSet(d, ['e', 'h'], np.array([1, 2], dtype=np.uint8))
  c = m.constraints[-1]
  x = np.array([1., 1., 1., 1.])
  jac = np.array(c['jac'](x), dtype=float).reshape(-1)
  fd = np.array([(c['fun'](x + 1e-6*np.eye(4)[i]) - c['fun'](x - 1e-6*np.eye(4)[i]))/2e-6 for i in range(4)]).reshape(-1)
  return None if np.allclose(jac, fd, atol=1e-6) else 'TwoRatioMFDeviceSet with unsigned-integer ratios: jac %s but finite differences of fun %s (-r[1] wraps around)' % (jac, fd)


if __name__ == '__main__':
  names = [a for a in sys.argv[2:]] or sorted(k for k in globals() if k[0] == 'd' and k[1:3].isdigit())
  bad = 0
  for k in names:
    try:
      r = globals()[k]()
    except Exception as e:
      r = 'demo raised %s: %s' % (type(e).__name__, str(e)[:80])
    print('%-5s %s' % (k, 'ok' if r is None else 'FAIL ' + r))
    bad += r is not None
  sys.exit(1 if bad else 0)
