#!/usr/bin/env python3
# kept for the record: how each `fix:` commit in /repo was made (spec files in fixes/specs/): edit, run the baseline suite, run the demos, commit.
# usage: fix.py "msg" "demos" file::old::new [file::old::new ...]   (read from a spec file instead)
import sys, subprocess, re, json
spec=json.load(open(sys.argv[1]))
def sh(c): return subprocess.run(c,shell=True,capture_output=True,text=True)
for f,old,new in spec['edits']:
    p='/repo/'+f; t=open(p).read()
    assert t.count(old)==1,(f,old,t.count(old))
    open(p,'w').write(t.replace(old,new))
ok=True
for k in range(spec.get('runs',1)):
    r=sh('cd /repo && /venv/bin/python -m pytest -q -p no:cacheprovider --timeout=900 --continue-on-collection-errors 2>&1 | tail -6')
    m=re.search(r'(\d+) passed',r.stdout); n=int(m.group(1)) if m else 0
    fails=re.findall(r'^(?:FAILED|ERROR) (\S+)',r.stdout,re.M)
    print('suite:',n,'passed; not passing:',fails)
    allowed={'tests/test_deviceset.py::TestMFDeviceSet::test_single_device_soln_equivalence','tests/test_deviceset.py::TestSubBalancedDeviceSet::test_basic_sub_balancing','tests/test_all.py'}
    if n<53 or not set(fails)<=allowed: ok=False
if not ok:
    print('REGRESSION -> reverting'); sh('cd /repo && git checkout -- .'); sys.exit(1)
r=sh('/venv/bin/python /verif/fixes/demos.py /repo '+spec['demos']); print(r.stdout.strip())
if r.returncode!=0: print('DEMO STILL FAILING -> reverting'); sh('cd /repo && git checkout -- .'); sys.exit(1)
r=sh('cd /repo && git add -A device_kit && git commit -q -m %s && git log --oneline | head -1'%json.dumps(spec['msg'])); print(r.stdout,r.stderr)
