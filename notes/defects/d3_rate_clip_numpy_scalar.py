import sys, warnings; sys.path.insert(0, sys.argv[1] if len(sys.argv) > 1 else '/repo'); warnings.simplefilter('ignore')
import numpy as np
from device_kit import *
# a scalar rate clip is documented ("None or >= 1"); a Python float works, the same value as a numpy scalar raises IndexError
SDevice('s', 2, (-1, 1), rate_clip=2.0)
try:
  SDevice('s', 2, (-1, 1), rate_clip=np.float64(2.0)); print('accepted')
except Exception as e:
  print('rate_clip=np.float64(2.0) ->', type(e).__name__, e); sys.exit(1)
