import sys, warnings; sys.path.insert(0, sys.argv[1] if len(sys.argv) > 1 else '/repo'); warnings.simplefilter('ignore')
import numpy as np
from device_kit import *
# C02 on the UNCHANGED tree: a user constraint written for the device's flow vector ("first slot >= 0.5") gets the (n,) vector when
# the ADevice stands alone and a (1, n) matrix inside a DeviceSet, where x[0] is the whole row
a = ADevice('a', 2, (0, 1), constraints=[{'type': 'ineq', 'fun': lambda x: x[0] - 0.5}])
t = DeviceSet('t', [a, Device('b', 2, (0, 1))])
alone = a.constraints[0]['fun'](np.array([1., 0.]))
intree = t.constraints[0]['fun'](np.array([1., 0., 0., 0.]))
print('alone', alone, 'inside a set', intree)
sys.exit(1 if np.size(intree) != 1 or float(np.asarray(intree).reshape(-1)[0]) != float(alone) else 0)
