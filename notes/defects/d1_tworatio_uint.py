import sys, warnings; sys.path.insert(0, sys.argv[1] if len(sys.argv) > 1 else '/repo'); warnings.simplefilter('ignore')
import numpy as np
from device_kit import *
# C06 on the UNCHANGED tree: ratios handed over as an unsigned-integer array (e.g. np.array([1, 8], dtype=np.uint8))
m = TwoRatioMFDeviceSet(Device('d', 2, (0, 4)), ['e', 'h'], np.array([1, 2], dtype=np.uint8))
c = m.constraints[-1]
x = np.ones(4); h = 1e-6
fd = np.array([(c['fun'](x + h*e) - c['fun'](x - h*e))/(2*h) for e in np.eye(4)])
print('jac', c['jac'](x), 'finite differences of fun', fd.round(6))      # jac [0, 1, 0, 254] vs gradient [0, 1, 0, -2]
sys.exit(1 if np.abs(fd - c['jac'](x)).max() > 1e-5 else 0)
