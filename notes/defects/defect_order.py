import sys; sys.path.insert(0, sys.argv[1] if len(sys.argv) > 1 else '/repo')
import numpy as np, warnings; warnings.filterwarnings('ignore')
from device_kit import IDevice2, SDevice, CDevice2
bad = 0
def t(label, f):
  global bad
  try: f(); print('accepted:', label)
  except ValueError as e: print('REJECTED:', label, '->', e); bad += 1
t('IDevice2(p_l=-3, p_h=-2)', lambda: IDevice2('i', 2, (0, 2), None, p_l=-3, p_h=-2))
t('IDevice2(p_h=-2, p_l=-3)  (same values, other keyword order)', lambda: IDevice2('i', 2, (0, 2), None, p_h=-2, p_l=-3))
t('SDevice(c1=3, c2=2)', lambda: SDevice('s', 2, (-1, 1), None, c1=3, c2=2))
t('SDevice(c2=2, c1=3)  (same values, other keyword order)', lambda: SDevice('s', 2, (-1, 1), None, c2=2, c1=3))
t('SDevice(c1=.5, c2=.5)', lambda: SDevice('s', 2, (-1, 1), None, c1=.5, c2=.5))
t('SDevice(c2=.5, c1=.5)  (same values, other keyword order)', lambda: SDevice('s', 2, (-1, 1), None, c2=.5, c1=.5))
sys.exit(1 if bad else 0)
