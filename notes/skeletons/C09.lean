import DK.Model.Constraints
import DK.Lemmas.Sum
/-!
# C09 — storage and thermal state follow the documented first-order recurrences
-/
namespace DK.C09
open DK

/-! ## `utils.soc` -/
theorem soc_zero (sus eff : ℝ) (r : ℕ → ℝ) : soc sus eff r 0 = r 0 * effPow eff (r 0) := by sorry

theorem soc_succ (sus eff : ℝ) (r : ℕ → ℝ) (i : ℕ) :
    soc sus eff r (i + 1) = sus * soc sus eff r i + r (i + 1) * effPow eff (r (i + 1)) := by sorry

/-- `effPow e r` is `e` when charging, `1/e` when discharging, `1` at rest — the documented scaling. -/
theorem effPow_charge (e r : ℝ) (h : 0 < r) : effPow e r = e := by sorry
theorem effPow_discharge (e r : ℝ) (h : r < 0) : effPow e r = 1 / e := by sorry
theorem flow_zero (e : ℝ) : (0:ℝ) * effPow e 0 = 0 := by sorry

/-! ## `SDevice.charge_at` : starts from `start·capacity` -/
theorem chargeAt_zero (q : SParams ℝ) (r : ℕ → ℝ) :
    chargeAt q r 0 = q.sustainment * (q.start * q.capacity) + r 0 * effPow q.efficiency (r 0) := by sorry

theorem chargeAt_succ (q : SParams ℝ) (r : ℕ → ℝ) (i : ℕ) :
    chargeAt q r (i + 1) = q.sustainment * chargeAt q r i + r (i + 1) * effPow q.efficiency (r (i + 1)) := by sorry

/-- the state the storage constraints bound is the reported state. -/
theorem socDot_eq_chargeAt (n : ℕ) (q : SParams ℝ) (r : ℕ → ℝ) (i : ℕ) (hi : i < n) :
    socDot n q r i = chargeAt q r i := by sorry

/-! ## thermal: for ANY real external temperatures (zero and negative included) and any real flow -/
theorem r2t_zero (q : TParams ℝ) (r : ℕ → ℝ) :
    r2t q r 0 = q.sustainment * q.tInit + (1 - q.sustainment) * q.tExternal 0 + q.efficiency * r 0 := by sorry

theorem r2t_succ (q : TParams ℝ) (r : ℕ → ℝ) (i : ℕ) :
    r2t q r (i + 1) = q.sustainment * r2t q r i + (1 - q.sustainment) * q.tExternal (i + 1)
      + q.efficiency * r (i + 1) := by sorry

/-- `t_base` is the temperature with no consumption. -/
theorem tBase_eq_r2t_zero_flow (q : TParams ℝ) (i : ℕ) : tBase q i = r2t q (fun _ => 0) i := by sorry

end DK.C09
