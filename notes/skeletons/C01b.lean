import DK.Props.Defs
/-!
# C01 (storage and thermal): gradients through the state-of-charge / temperature recurrences
-/
namespace DK.C01b
open DK

/-- storage: away from the charge/discharge kink of a lossy device (`efficiency = 1`, or no slot
flow exactly zero). The deep-discharge term `min(·,0)²` is C¹, so it needs no hypothesis.
`0 < q.efficiency` is what the constructor enforces. -/
theorem sdevice_grad (n : ℕ) (q : SParams ℝ) (s p : ℕ → ℝ) (he : 0 < q.efficiency)
    (hk : q.efficiency = 1 ∨ ∀ k < n, s k ≠ 0) :
    IsGradAt n (fun x => sdevCost n q x p) (sdevDeriv n q s p) s := by sorry

/-- thermal: no hypothesis (temperature is affine in the flow after the r2t repair; the slot cost
is `c·((t_opt − t)/t_range)²`, or 0 when `t_range = 0`). -/
theorem tdevice_grad (n : ℕ) (q : TParams ℝ) (s p : ℕ → ℝ) :
    IsGradAt n (fun x => tdevCost n q x p) (tdevDeriv n q s p) s := by sorry

end DK.C01b
