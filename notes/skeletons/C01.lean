import DK.Props.Defs
/-!
# C01 — the reported marginal cost is the exact gradient of the cost

`IsGradAt n f g s`: along *every* direction `d`, the derivative of `τ ↦ f (s + τ·d)` at `τ = 0` is
`Σ_{k<n} g k · d k`.  This is the Gateaux-derivative form of "g is the gradient of f at s"; the
`i`-th partial derivative is the case `d = e_i` (`partial_of_isGradAt`).
-/
namespace DK.C01
open DK

/-- the `i`-th partial derivative (all other coordinates frozen) is `g i`. -/
theorem partial_of_isGradAt {n : ℕ} {f : (ℕ → ℝ) → ℝ} {g s : ℕ → ℝ} (h : IsGradAt n f g s)
    {i : ℕ} (hi : i < n) : HasDerivAt (fun x => f (Function.update s i x)) (g i) (s i) := by
  sorry

/-! ## per class -/
theorem device_grad (n : ℕ) (s p : ℕ → ℝ) :
    IsGradAt n (fun x => deviceCost n x p) (deviceDeriv p) s := by sorry

theorem cdevice_grad (n : ℕ) (a b : ℝ) (s p : ℕ → ℝ) :
    IsGradAt n (fun x => cdevCost n a b x p) (cdevDeriv a p) s := by sorry

/-- no hypothesis at all: zero-width slots, any `p_l p_h`, any flow (in or out of bounds). -/
theorem idevice2_grad (n : ℕ) (pl ph lb hb s p : ℕ → ℝ) :
    IsGradAt n (fun x => idev2Cost n pl ph lb hb x p) (idev2Deriv pl ph lb hb s p) s := by sorry

/-- real exponents (`Real.rpow`); away from the kink `q = 0` of a non-integer power. -/
theorem idevice_grad (n : ℕ) (a b c lb hb s p : ℕ → ℝ)
    (hq : ∀ k < n, lb k = hb k ∨ 0 < abcQ (s k) (lb k) (hb k) (a k)) :
    IsGradAt n (fun x => idevCost Real.rpow n a b c lb hb x p) (idevDeriv Real.rpow id a b c lb hb s p) s := by sorry

/-- integer exponents `b ≥ 1` as the executable model runs them (`ipow`): no positivity needed. -/
theorem idevice_grad_int (n : ℕ) (a : ℕ → ℝ) (b : ℕ → ℤ) (c lb hb s p : ℕ → ℝ) (hb1 : ∀ k < n, 1 ≤ b k) :
    IsGradAt n (fun x => idevCost ipow n a b c lb hb x p) (idevDeriv ipow intCast' a b c lb hb s p) s := by sorry

theorem gdevice_grad (n : ℕ) (cs : ℕ → List ℝ) (s p : ℕ → ℝ) :
    IsGradAt n (fun x => gdevCost n cs x p) (gdevDeriv cs s p) s := by sorry

/-- any list of cumulative ranges inside the horizon (contiguous, overlapping, single, none). -/
theorem cdevice2_grad (n : ℕ) (pl ph : ℝ) (cbs : List (CBound ℝ)) (hcb : ∀ c ∈ cbs, c.e ≤ n) (s p : ℕ → ℝ) :
    IsGradAt n (fun x => cdev2Cost n pl ph cbs x p) (cdev2Deriv n pl ph cbs s p) s := by sorry

end DK.C01
