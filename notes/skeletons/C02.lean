import DK.Props.Defs
/-!
# C02 / C13 — a device tree composes its blocks row-wise; labels pair each row with its owner

`Block` is abstract (arbitrary functions), so everything here holds for every leaf behaviour,
every depth, every fan-out and children with different row counts, by mutual induction on
`Tree` / `List Tree`.  `t.blocks pre off` enumerates (id-prefix, absolute row offset, block).
You will need generalised versions (arbitrary `pre`, `off`, shifted matrices) for the induction;
state the final theorems as below.
-/
namespace DK.C02
open DK

abbrev BlockAt := String × ℕ × Block ℝ
def BlockAt.pre (x : BlockAt) : String := x.1
def BlockAt.off (x : BlockAt) : ℕ := x.2.1
def BlockAt.b (x : BlockAt) : Block ℝ := x.2.2

/-- the blocks tile the rows `[0, t.rows)` in order: each offset is the sum of the rows before it. -/
theorem blocks_offsets (t : Tree ℝ) (pre : String) (l1 l2 : List BlockAt) (x : BlockAt)
    (h : t.blocks pre 0 = l1 ++ x :: l2) : x.off = (l1.map (fun y => y.b.rows)).sum := by sorry

theorem blocks_rows_sum (t : Tree ℝ) (pre : String) :
    ((t.blocks pre 0).map (fun y => y.b.rows)).sum = t.rows := by sorry

/-- tree cost = Σ over blocks of the block cost on *its own* rows of `S` and `P`. -/
theorem cost_eq_sum_blocks (t : Tree ℝ) (pre : String) (S P : Mat ℝ) :
    t.cost S P = ((t.blocks pre 0).map (fun x => x.b.cost (shiftRows x.off S) (shiftRows x.off P))).sum := by sorry

/-- row `off + r` of the tree's marginal cost is row `r` of the owning block's marginal cost. -/
theorem deriv_block (t : Tree ℝ) (pre : String) (S P : Mat ℝ) (x : BlockAt) (hx : x ∈ t.blocks pre 0)
    (r i : ℕ) (hr : r < x.b.rows) :
    t.deriv S P (x.off + r) i = x.b.deriv (shiftRows x.off S) (shiftRows x.off P) r i := by sorry

/-- flat bounds list = block bounds in row-major order. -/
theorem bounds_block (t : Tree ℝ) (pre : String) (x : BlockAt) (hx : x ∈ t.blocks pre 0)
    (r i : ℕ) (hr : r < x.b.rows) : t.bounds (x.off + r) i = x.b.bounds r i := by sorry

/-- every row belongs to exactly one block. -/
theorem row_owner (t : Tree ℝ) (pre : String) (r : ℕ) (hr : r < t.rows) :
    ∃ x ∈ t.blocks pre 0, x.off ≤ r ∧ r < x.off + x.b.rows := by sorry

/-- the whole constraint list of a tree is satisfied iff every block's constraints hold on its own
rows and every internal node's own constraints hold on its own row range (no constraint dropped,
none applied to other rows). -/
theorem cons_sat_iff (t : Tree ℝ) (n : ℕ) (S : Mat ℝ) :
    (∀ c ∈ t.cons n, c.Sat S) ↔
      (∀ x ∈ t.blocks "" 0, ∀ c ∈ x.b.cons, c.Sat (shiftRows x.off S)) ∧
      (∀ nd ∈ t.nodes 0, ∀ c ∈ ownCons n nd.rows nd.own nd.labels, c.Sat (shiftRows nd.off S)) := by sorry

/-- re-wrapped Jacobians (zmm zero padding): zero outside the child's rows … -/
theorem lift_jac_support (off rows : ℕ) (c : MCon ℝ) (j : Mat ℝ → ℕ → ℕ → ℝ) (hj : c.jac = some j)
    (S : Mat ℝ) (r i : ℕ) (hr : r < off ∨ off + rows ≤ r) :
    ∃ j', (c.lift off rows).jac = some j' ∧ j' S r i = 0 := by sorry

/-- … and still the gradient of the re-wrapped function, if the child's Jacobian was one
(`R` = rows of the parent, the child occupying `[off, off+rows) ⊆ [0, R)`). -/
theorem lift_isMGrad (R n off rows : ℕ) (hR : off + rows ≤ R) (c : MCon ℝ) (j : Mat ℝ → ℕ → ℕ → ℝ)
    (hj : c.jac = some j) (S : Mat ℝ) (hg : IsMGradAt rows n c.fn (j (shiftRows off S)) (shiftRows off S)) :
    ∃ j', (c.lift off rows).jac = some j' ∧ IsMGradAt R n (c.lift off rows).fn (j' S) S := by sorry

/-- flat and matrix-shaped flows are interchangeable (row-major index arithmetic). -/
theorem unflat_flat (n : ℕ) (hn : 0 < n) (S : Mat ℝ) (r i : ℕ) (hi : i < n) : unflat n (flat n S) r i = S r i := by sorry
theorem flat_unflat (n : ℕ) (hn : 0 < n) (x : ℕ → ℝ) (k : ℕ) : flat n (unflat n x) k = x k := by sorry

/-! ## C13 labels -/

/-- well-formed blocks carry one label per row. -/
def WF (t : Tree ℝ) : Prop := ∀ x ∈ t.blocks "" 0, x.b.labels.length = x.b.rows

theorem labels_length (t : Tree ℝ) (h : WF t) : (t.labels "").length = t.rows := by sorry

/-- the label of row `off + r` is the dot-joined ancestor ids followed by the block's own label. -/
theorem label_get (t : Tree ℝ) (h : WF t) (x : BlockAt) (hx : x ∈ t.blocks "" 0) (r : ℕ) (hr : r < x.b.rows) :
    (t.labels "")[x.off + r]? = some (x.pre ++ x.b.labels.getD r "") := by sorry

/-- `map` pairs that label with exactly the row the owning block's cost / bounds / constraints read. -/
theorem mapRows_get (t : Tree ℝ) (h : WF t) (S : Mat ℝ) (x : BlockAt) (hx : x ∈ t.blocks "" 0) (r : ℕ) (hr : r < x.b.rows) :
    (t.mapRows S)[x.off + r]? = some (x.pre ++ x.b.labels.getD r "", shiftRows x.off S r) := by sorry

/-- shipped blocks: an atomic device is labelled by its id, an adaptor by `id.flow` per conduit. -/
theorem ofLeaf_labels (id : String) (d : Leaf ℝ) (cs : List (Con ℝ)) :
    (Block.ofLeaf id d cs).labels = [id] ∧ (Block.ofLeaf id d cs).rows = 1 := by sorry
theorem ofMF_labels (id : String) (d : Leaf ℝ) (cs : List (Con ℝ)) (flows : List String) (ra : Option (Bool × ℝ × ℝ)) :
    (Block.ofMF id d cs flows ra).labels = flows.map (fun f => id ++ "." ++ f) ∧
    (Block.ofMF id d cs flows ra).rows = flows.length := by sorry

end DK.C02
