import DK.Props.Defs
import Mathlib.Analysis.Convex.Function
/-!
# C07 — shipped device costs are convex over their bounds box

Elementary chord form: `ConvexOnBox n lb hb f` says `f (θ•x + (1-θ)•y) ≤ θ f x + (1-θ) f y` for all
in-box `x y` and `θ ∈ [0,1]`.  `convexOnBox_iff` relates it to Mathlib's `ConvexOn` on the box as
a subset of `ℕ → ℝ` (optional bridge; prove it if it is cheap, otherwise leave it out and say so).
-/
namespace DK.C07
open DK

theorem device_convex (n : ℕ) (lb hb p : ℕ → ℝ) : ConvexOnBox n lb hb (fun x => deviceCost n x p) := by sorry

theorem cdevice_convex (n : ℕ) (a b : ℝ) (lb hb p : ℕ → ℝ) : ConvexOnBox n lb hb (fun x => cdevCost n a b x p) := by sorry

/-- acceptance: `p_l ≤ p_h` per slot (idevice2.py validators) and `lb ≤ hb` (validate_bounds). -/
theorem idevice2_convex (n : ℕ) (pl ph lb hb p : ℕ → ℝ) (hp : ∀ k < n, pl k ≤ ph k) (hb' : ∀ k < n, lb k ≤ hb k) :
    ConvexOnBox n lb hb (fun x => idev2Cost n pl ph lb hb x p) := by sorry

/-- `c ≥ 0`, `a ≥ 0`, real exponent `b ≥ 1`.  (The validator admits `0 < b < 1`, where this is FALSE:
see `idevice_not_convex_small_b`.) -/
theorem idevice_convex (n : ℕ) (a b c lb hb p : ℕ → ℝ) (ha : ∀ k < n, 0 ≤ a k) (hb1 : ∀ k < n, 1 ≤ b k)
    (hc : ∀ k < n, 0 ≤ c k) (hb' : ∀ k < n, lb k ≤ hb k) :
    ConvexOnBox n lb hb (fun x => idevCost Real.rpow n a b c lb hb x p) := by sorry

/-- the accepted corner `b = 1/2` is not convex: a concrete witness (n = 1, bounds (0,1), a = 0, c = 1). -/
theorem idevice_not_convex_small_b :
    ¬ ConvexOnBox 1 (fun _ => 0) (fun _ => 1)
        (fun x => idevCost Real.rpow 1 (fun _ => 0) (fun _ => (1/2 : ℝ)) (fun _ => 1) (fun _ => 0) (fun _ => 1) x (fun _ => 0)) := by sorry

/-- generator: restricted (as the property says) to polynomials convex on the generated range. -/
theorem gdevice_convex (n : ℕ) (cs : ℕ → List ℝ) (lb hb p : ℕ → ℝ)
    (hcv : ∀ k < n, ∀ u v : ℝ, -hb k ≤ u → u ≤ -lb k → -hb k ≤ v → v ≤ -lb k → ∀ θ : ℝ, 0 ≤ θ → θ ≤ 1 →
      polyEval (cs k) (θ * u + (1 - θ) * v) ≤ θ * polyEval (cs k) u + (1 - θ) * polyEval (cs k) v) :
    ConvexOnBox n lb hb (fun x => gdevCost n cs x p) := by sorry

/-- cumulative high/low quadratic: `p_l ≤ p_h`, every range has `l ≤ h` and lies inside the horizon. -/
theorem cdevice2_convex (n : ℕ) (pl ph : ℝ) (cbs : List (CBound ℝ)) (lb hb p : ℕ → ℝ) (hp : pl ≤ ph)
    (hcb : ∀ c ∈ cbs, c.l ≤ c.h ∧ c.e ≤ n) :
    ConvexOnBox n lb hb (fun x => cdev2Cost n pl ph cbs x p) := by sorry

/-- thermal: `c ≥ 0`, `t_range ≥ 0`; any efficiency sign (heating or cooling). -/
theorem tdevice_convex (n : ℕ) (q : TParams ℝ) (lb hb p : ℕ → ℝ) (hc : ∀ k < n, 0 ≤ q.c k) (hr : 0 ≤ q.tRange) :
    ConvexOnBox n lb hb (fun x => tdevCost n q x p) := by sorry

/-- storage, rate + flip-flop terms: `c1 ≥ c2 ≥ 0` makes `c1 Σ r² − c2 Σ r_i r_{i+1}` convex
(identity: `(c1−c2) Σ r² + (c2/2)(Σ (r_i − r_{i+1})² + r_0² + r_{n−1}²)`). -/
theorem sdevice_quadratic_convex (n : ℕ) (c1 c2 : ℝ) (lb hb : ℕ → ℝ) (h2 : 0 ≤ c2) (h12 : c2 ≤ c1) :
    ConvexOnBox n lb hb (fun r => sumTo n (fun i => c1 * (r i * r i) + (if i + 1 < n then c2 * (-1 : ℝ) * (r i * r (i + 1)) else 0))) := by sorry

/-- the accepted corner `c1 = 0, c2 > 0` (sdevice.py setters) is not convex: witness n = 2, c2 = 1. -/
theorem sdevice_quadratic_not_convex :
    ¬ ConvexOnBox 2 (fun _ => -1) (fun _ => 1)
        (fun r => sumTo 2 (fun i => (0:ℝ) * (r i * r i) + (if i + 1 < 2 then (1:ℝ) * (-1 : ℝ) * (r i * r (i + 1)) else 0))) := by sorry

/-- storage, full cost: `c1 ≥ c2 ≥ 0`, `c3 ≥ 0`, `0 < efficiency ≤ 1`, `0 ≤ sustainment`.
The deep-discharge term is (convex, non-increasing) ∘ (concave state of charge). -/
theorem sdevice_convex (n : ℕ) (q : SParams ℝ) (lb hb p : ℕ → ℝ) (h2 : 0 ≤ q.c2) (h12 : q.c2 ≤ q.c1) (h3 : 0 ≤ q.c3)
    (he0 : 0 < q.efficiency) (he1 : q.efficiency ≤ 1) (hs : 0 ≤ q.sustainment) :
    ConvexOnBox n lb hb (fun x => sdevCost n q x p) := by sorry

/-- consequence used by C05/C19: on a convex cost, a point whose directional derivatives towards every
in-box point are ≥ −ε is ε-optimal (first-order certificate). -/
theorem first_order_certificate (n : ℕ) (lb hb : ℕ → ℝ) (f : (ℕ → ℝ) → ℝ) (g : ℕ → ℝ) (x : ℕ → ℝ) (ε : ℝ)
    (hf : ConvexOnBox n lb hb f) (hx : InBox n lb hb x)
    (hg : ∀ y, InBox n lb hb y → HasDerivAt (fun τ => f (fun k => x k + τ * (y k - x k))) (sumTo n (fun k => g k * (y k - x k))) 0)
    (hopt : ∀ y, InBox n lb hb y → -ε ≤ sumTo n (fun k => g k * (y k - x k))) :
    ∀ y, InBox n lb hb y → f x - ε ≤ f y := by sorry

end DK.C07
