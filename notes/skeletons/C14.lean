import DK.Props.Defs
/-!
# C14 — the reported Hessian is the Jacobian of the marginal cost (closed-form classes),
symmetric, independent of price, and positive semidefinite for the convex models
-/
namespace DK.C14
open DK

def Symm (n : ℕ) (H : ℕ → ℕ → ℝ) : Prop := ∀ i < n, ∀ j < n, H i j = H j i

/-- `vᵀ H v ≥ 0`. -/
def PSD (n : ℕ) (H : ℕ → ℕ → ℝ) : Prop :=
  ∀ v : ℕ → ℝ, 0 ≤ sumTo n (fun i => sumTo n (fun j => v i * H i j * v j))

theorem device_hess (n : ℕ) (s p : ℕ → ℝ) : IsHessAt n (fun _ => deviceDeriv p) (fun _ _ => 0) s := by sorry
theorem cdevice_hess (n : ℕ) (a : ℝ) (s p : ℕ → ℝ) : IsHessAt n (fun _ => cdevDeriv a p) (fun _ _ => 0) s := by sorry

theorem idevice2_hess (n : ℕ) (pl ph lb hb s p : ℕ → ℝ) :
    IsHessAt n (fun x => idev2Deriv pl ph lb hb x p) (idev2Hess pl ph lb hb) s := by sorry
theorem idevice2_hess_symm (n : ℕ) (pl ph lb hb : ℕ → ℝ) : Symm n (idev2Hess pl ph lb hb) := by sorry
theorem idevice2_hess_psd (n : ℕ) (pl ph lb hb : ℕ → ℝ) (hp : ∀ k < n, pl k ≤ ph k) (hb' : ∀ k < n, lb k ≤ hb k) :
    PSD n (idev2Hess pl ph lb hb) := by sorry

/-- real exponents, away from `q = 0`. -/
theorem idevice_hess (n : ℕ) (a b c lb hb s p : ℕ → ℝ)
    (hq : ∀ k < n, lb k = hb k ∨ 0 < abcQ (s k) (lb k) (hb k) (a k)) :
    IsHessAt n (fun x => idevDeriv Real.rpow id a b c lb hb x p) (idevHess Real.rpow id a b c lb hb s) s := by sorry
/-- integer exponents `b ≥ 1` (executable model). -/
theorem idevice_hess_int (n : ℕ) (a : ℕ → ℝ) (b : ℕ → ℤ) (c lb hb s p : ℕ → ℝ) (hb1 : ∀ k < n, 1 ≤ b k) :
    IsHessAt n (fun x => idevDeriv ipow intCast' a b c lb hb x p) (idevHess ipow intCast' a b c lb hb s) s := by sorry
theorem idevice_hess_symm (n : ℕ) (a b c lb hb s : ℕ → ℝ) : Symm n (idevHess Real.rpow id a b c lb hb s) := by sorry
theorem idevice_hess_psd (n : ℕ) (a b c lb hb s : ℕ → ℝ) (hb1 : ∀ k < n, 1 ≤ b k) (hc : ∀ k < n, 0 ≤ c k)
    (hq : ∀ k < n, 0 ≤ abcQ (s k) (lb k) (hb k) (a k)) :
    PSD n (idevHess Real.rpow id a b c lb hb s) := by sorry

theorem gdevice_hess (n : ℕ) (cs : ℕ → List ℝ) (s p : ℕ → ℝ) :
    IsHessAt n (fun x => gdevDeriv cs x p) (gdevHess cs s) s := by sorry
theorem gdevice_hess_symm (n : ℕ) (cs : ℕ → List ℝ) (s : ℕ → ℝ) : Symm n (gdevHess cs s) := by sorry

/-- rank-one block per cumulative range (not a diagonal!). -/
theorem cdevice2_hess (n : ℕ) (pl ph : ℝ) (cbs : List (CBound ℝ)) (hcb : ∀ c ∈ cbs, c.e ≤ n) (s p : ℕ → ℝ) :
    IsHessAt n (fun x => cdev2Deriv n pl ph cbs x p) (cdev2Hess pl ph cbs) s := by sorry
theorem cdevice2_hess_symm (n : ℕ) (pl ph : ℝ) (cbs : List (CBound ℝ)) : Symm n (cdev2Hess pl ph cbs) := by sorry
theorem cdevice2_hess_psd (n : ℕ) (pl ph : ℝ) (cbs : List (CBound ℝ)) (hp : pl ≤ ph)
    (hcb : ∀ c ∈ cbs, c.l ≤ c.h ∧ c.e ≤ n) (hne : cbs.length ≠ 1 ∨ True) :
    PSD n (cdev2Hess pl ph cbs) := by sorry

/-- all combinators, by structural induction (same `NoKink` as C01). -/
theorem fn_hess (f : Fn ℝ) (n : ℕ) (x : ℕ → ℝ) (hk : NoKink f n x) :
    IsHessAt n (fun y => f.deriv n y) (f.hess n x) x := by sorry
theorem fn_hess_symm (f : Fn ℝ) (n : ℕ) (x : ℕ → ℝ) : Symm n (f.hess n x) := by sorry

end DK.C14
