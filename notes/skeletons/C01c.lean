import DK.Props.Defs
/-!
# C01 (preference-function combinators): by structural induction, every nesting at once
-/
namespace DK.C01c
open DK

theorem fn_grad (f : Fn ℝ) (n : ℕ) (x : ℕ → ℝ) (hk : NoKink f n x) :
    IsGradAt n (fun y => f.eval n y) (f.deriv n x) x := by sorry

end DK.C01c
