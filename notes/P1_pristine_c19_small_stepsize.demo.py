# PRISTINE tree (no edit): C19 is false for small step sizes - step is a silent no-op although the start is clearly sub-optimal.
import sys, warnings; sys.path.insert(0, sys.argv[1]); warnings.simplefilter('ignore')
import numpy as np, logging; logging.disable(logging.CRITICAL)
from device_kit import *
from device_kit.solve import step
d = Device('a', 3, (0., 4.))
s = np.array([2., 2., 2.]); p = np.array([1., 1., 1.])      # marginal cost 1 in every slot, optimum 0 (cost 6 -> 0)
bad = []
for stepsize in (1e-3, 3e-4, 1e-4, 1e-5):
  s1, o = step(d, p, s, stepsize)
  print('stepsize', stepsize, 'cost', d.cost(s, p), '->', d.cost(s1.flatten(), p), 'line x =', o.x, 'status', o.status)
  if not d.cost(s1.flatten(), p) < d.cost(s, p):
    bad.append(stepsize)
sys.exit(1 if bad else 0)
