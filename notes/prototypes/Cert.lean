import Mathlib.Analysis.Convex.Deriv

/-- 1-D core of the first-order optimality certificate (C05 d / C19). -/
theorem first_order_1d (φ : ℝ → ℝ) (g : ℝ) (hc : ConvexOn ℝ (Set.Icc 0 1) φ)
    (hd : HasDerivAt φ g 0) : φ 0 + g ≤ φ 1 := by
  have h := hc.le_slope_of_hasDerivAt (x := 0) (y := 1) (by simp) (by simp) (by norm_num) hd
  simp [slope_def_field] at h
  linarith

/-- if the directional derivative at x towards every feasible y is ≥ -ε, x is ε-optimal. -/
theorem certificate {V : Type} (F : Set V) (f : V → ℝ) (seg : V → V → ℝ → V)
    (x : V) (dir : V → ℝ) (ε : ℝ)
    (hseg0 : ∀ y, seg x y 0 = x) (hseg1 : ∀ y, seg x y 1 = y)
    (hconv : ∀ y ∈ F, ConvexOn ℝ (Set.Icc 0 1) (fun t => f (seg x y t)))
    (hder : ∀ y ∈ F, HasDerivAt (fun t => f (seg x y t)) (dir y) 0)
    (hcert : ∀ y ∈ F, -ε ≤ dir y) :
    ∀ y ∈ F, f x - ε ≤ f y := by
  intro y hy
  have := first_order_1d _ _ (hconv y hy) (hder y hy)
  simp only [hseg0, hseg1] at this
  linarith [hcert y hy]
#print axioms certificate
