/-! core-only generic scalar model sketch -/
namespace DK
section
variable {α : Type} [Add α] [Sub α] [Mul α] [Div α] [Neg α] [OfNat α 0] [OfNat α 1] [OfNat α 2]
  [LT α] [LE α] [DecidableEq α] [DecidableLT α] [DecidableLE α]

def sumTo : Nat → (Nat → α) → α
  | 0, _ => 0
  | n+1, f => sumTo n f + f n

def hlqCost (pl ph xl xh x : α) : α :=
  if xl = xh then 0 else
    let b := pl
    let a := (ph - pl) / 2
    let c := a * ((-b) / (2 * a)) * ((-b) / (2 * a)) + b * ((-b) / (2 * a))
    let t := (x - xl) / (xh - xl)
    (xh - xl) * (a * t * t + b * t) - c * (xh - xl)

def hlqDeriv (pl ph xl xh x : α) : α :=
  if xl = xh then 0 else (ph - pl) * ((x - xl) / (xh - xl)) + pl

def idev2Cost (n : Nat) (pl ph : α) (lb hb s p : Nat → α) : α :=
  sumTo n (fun i => hlqCost pl ph (lb i) (hb i) (s i)) + sumTo n (fun i => s i * p i)

def idev2Deriv (pl ph : α) (lb hb s p : Nat → α) (i : Nat) : α :=
  hlqDeriv pl ph (lb i) (hb i) (s i) + p i
end
end DK
