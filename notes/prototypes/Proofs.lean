import Lk.Model
import Mathlib.Analysis.Calculus.Deriv.Basic
import Mathlib.Analysis.Calculus.Deriv.Mul
import Mathlib.Analysis.Calculus.Deriv.Add
import Mathlib.Analysis.Calculus.Deriv.Pow
import Mathlib.Tactic.Ring
import Mathlib.Tactic.FieldSimp
import Mathlib.Logic.Function.Basic

open DK

theorem sumTo_eq_sum (n : ℕ) (f : ℕ → ℝ) : sumTo n f = ∑ i ∈ Finset.range n, f i := by
  induction n with
  | zero => simp [sumTo]
  | succ n ih => simp [sumTo, Finset.sum_range_succ, ih]

theorem hlq_hasDerivAt (pl ph xl xh x : ℝ) :
    HasDerivAt (fun x => hlqCost pl ph xl xh x) (hlqDeriv pl ph xl xh x) x := by
  unfold hlqCost hlqDeriv
  by_cases h : xl = xh
  · simp [h, hasDerivAt_const]
  · simp only [h, if_false]
    have hd : xh - xl ≠ 0 := sub_ne_zero.mpr (Ne.symm h)
    have h1 : HasDerivAt (fun x : ℝ => (x - xl) / (xh - xl)) (1 / (xh - xl)) x := by
      simpa using ((hasDerivAt_id x).sub_const xl).div_const (xh - xl)
    have h2 := ((((h1.const_mul ((ph - pl) / 2)).mul h1).add (h1.const_mul pl)).const_mul (xh - xl)).sub_const
      ((((ph - pl) / 2) * ((-pl) / (2 * ((ph - pl) / 2))) * ((-pl) / (2 * ((ph - pl) / 2))) + pl * ((-pl) / (2 * ((ph - pl) / 2)))) * (xh - xl))
    refine HasDerivAt.congr_deriv h2 ?_
    field_simp
    ring

theorem sumTo_hasDerivAt (n : ℕ) (f : ℕ → ℝ → ℝ) (f' : ℕ → ℝ) (t : ℝ)
    (h : ∀ i < n, HasDerivAt (f i) (f' i) t) :
    HasDerivAt (fun τ => sumTo n (fun i => f i τ)) (sumTo n f') t := by
  induction n with
  | zero => simpa [sumTo] using hasDerivAt_const t (0:ℝ)
  | succ n ih =>
    simp only [sumTo]
    exact (ih (fun i hi => h i (Nat.lt_succ_of_lt hi))).add (h n (Nat.lt_succ_self n))

theorem sumTo_single (n : ℕ) (i : ℕ) (hi : i < n) (v : ℝ) :
    sumTo n (fun k => if k = i then v else 0) = v := by
  induction n with
  | zero => omega
  | succ n ih =>
    simp only [sumTo]
    by_cases h : i = n
    · subst h
      have : sumTo i (fun k => if k = i then v else 0) = 0 := by
        clear ih hi
        have : ∀ m ≤ i, sumTo m (fun k => if k = i then v else 0) = 0 := by
          intro m hm
          induction m with
          | zero => rfl
          | succ m ihm =>
            simp only [sumTo]
            rw [ihm (by omega)]
            simp; omega
        exact this i le_rfl
      simp [this]
    · have hlt : i < n := by omega
      rw [ih hlt]
      simp [Ne.symm h]

/-- partial derivative of IDevice2 cost w.r.t. slot i, any horizon n, any parameters -/
theorem idev2_partial (n : ℕ) (pl ph : ℝ) (lb hb s p : ℕ → ℝ) (i : ℕ) (hi : i < n) :
    HasDerivAt (fun t => idev2Cost n pl ph lb hb (Function.update s i t) p)
      (idev2Deriv pl ph lb hb s p i) (s i) := by
  unfold idev2Cost idev2Deriv
  have key : ∀ k < n, HasDerivAt (fun t => hlqCost pl ph (lb k) (hb k) (Function.update s i t k))
      (if k = i then hlqDeriv pl ph (lb i) (hb i) (s i) else 0) (s i) := by
    intro k _
    by_cases hk : k = i
    · subst hk; simpa using hlq_hasDerivAt pl ph (lb k) (hb k) (s k)
    · simp [Function.update_of_ne hk, hk, hasDerivAt_const]
  have key2 : ∀ k < n, HasDerivAt (fun t => Function.update s i t k * p k)
      (if k = i then p i else 0) (s i) := by
    intro k _
    by_cases hk : k = i
    · subst hk; simpa using (hasDerivAt_id (s k)).mul_const (p k)
    · simp [Function.update_of_ne hk, hk, hasDerivAt_const]
  have := (sumTo_hasDerivAt n _ _ (s i) key).add (sumTo_hasDerivAt n _ _ (s i) key2)
  rw [sumTo_single n i hi, sumTo_single n i hi] at this
  exact this

#print axioms idev2_partial
