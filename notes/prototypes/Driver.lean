import Lk.Model
open DK

def parseRat (s : String) : Option Rat :=
  match s.splitOn "/" with
  | [a] => a.toInt?.map (fun i => (i : Rat))
  | [a, b] => do
      let n ← a.toInt?
      let d ← b.toNat?
      if d = 0 then none else some ((n : Rat) / (d : Rat))
  | _ => none

def vecOf (xs : Array Rat) : Nat → Rat := fun i => xs.getD i 0

def handle (line : String) : String :=
  match (line.trimAscii.toString.splitOn " ").filter (· ≠ "") with
  | "idev2cost" :: n :: pl :: ph :: rest =>
    match n.toNat?, parseRat pl, parseRat ph with
    | some n, some pl, some ph =>
      match rest.mapM parseRat with
      | some xs =>
        let a := xs.toArray
        let lb := vecOf (a.extract 0 n)
        let hb := vecOf (a.extract n (2*n))
        let s := vecOf (a.extract (2*n) (3*n))
        let p := vecOf (a.extract (3*n) (4*n))
        let c := idev2Cost n pl ph lb hb s p
        let d := (List.range n).map (idev2Deriv pl ph lb hb s p)
        s!"{c} {d}"
      | none => "bad-op"
    | _, _, _ => "bad-op"
  | _ => "bad-op"

partial def loop (h : IO.FS.Stream) : IO Unit := do
  let line ← h.getLine
  if line.isEmpty then return ()
  IO.println (handle line)
  loop h

def main : IO Unit := do loop (← IO.getStdin)
