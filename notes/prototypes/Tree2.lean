import Lk.Model
namespace DK
section
variable {α : Type} [Add α] [Sub α] [Mul α] [Div α] [Neg α] [OfNat α 0] [OfNat α 1] [OfNat α 2]
  [LT α] [LE α] [DecidableEq α] [DecidableLT α] [DecidableLE α]

abbrev Mat (α : Type) := Nat → Nat → α

/-- A leaf block: arbitrary behaviour on its own `rows` rows. -/
structure Block (α : Type) where
  id : String
  rows : Nat
  cost : Mat α → Mat α → α
  deriv : Mat α → Mat α → Mat α

inductive Tree (α : Type) where
  | leaf (b : Block α)
  | node (id : String) (cs : List (Tree α))

def shift (off : Nat) (S : Mat α) : Mat α := fun r c => S (off + r) c

mutual
def Tree.rows : Tree α → Nat
  | .leaf b => b.rows
  | .node _ cs => rowsL cs
def rowsL : List (Tree α) → Nat
  | [] => 0
  | t :: ts => t.rows + rowsL ts
end

-- DeviceSet.cost: slice rows by partition and delegate.
mutual
def Tree.cost : Tree α → Mat α → Mat α → α
  | .leaf b, S, P => b.cost S P
  | .node _ cs, S, P => costL cs S P
def costL : List (Tree α) → Mat α → Mat α → α
  | [], _, _ => 0
  | t :: ts, S, P => t.cost S P + costL ts (shift t.rows S) (shift t.rows P)
end

-- flat list of (row offset, block) in depth-first order
mutual
def Tree.blocks (off : Nat) : Tree α → List (Nat × Block α)
  | .leaf b => [(off, b)]
  | .node _ cs => blocksL off cs
def blocksL (off : Nat) : List (Tree α) → List (Nat × Block α)
  | [] => []
  | t :: ts => t.blocks off ++ blocksL (off + t.rows) ts
end

def sumBlocks (bs : List (Nat × Block α)) (S P : Mat α) : α :=
  bs.foldr (fun ob acc => ob.2.cost (shift ob.1 S) (shift ob.1 P) + acc) 0
end
end DK

