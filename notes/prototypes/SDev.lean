import Lk.Model
import Mathlib.Analysis.Calculus.Deriv.Basic
import Mathlib.Analysis.Calculus.Deriv.Mul
import Mathlib.Analysis.Calculus.Deriv.Add
import Mathlib.Analysis.Calculus.Deriv.Comp
import Mathlib.Tactic.Ring
import Mathlib.Tactic.Linarith
open DK

namespace DK
section
variable {α : Type} [Add α] [Sub α] [Mul α] [Div α] [Neg α] [OfNat α 0] [OfNat α 1] [OfNat α 2]
  [LT α] [LE α] [DecidableEq α] [DecidableLT α] [DecidableLE α]
def minA (a b : α) : α := if a ≤ b then a else b
/-- state of charge after slot i: base_i + Σ_{j ≤ i} w i j · g_j·r_j  (g = efficiency factor, frozen sign pattern) -/
def socW (base : Nat → α) (w : Nat → Nat → α) (g : Nat → α) (r : Nat → α) (i : Nat) : α :=
  base i + sumTo (i+1) (fun j => w i j * (g j * r j))
/-- deep-discharge cost term  c3 · Σ_i min(soc_i − dd, 0)² -/
def deepCost (n : Nat) (c3 dd : α) (base : Nat → α) (w : Nat → Nat → α) (g r : Nat → α) : α :=
  sumTo n (fun i => c3 * (minA (socW base w g r i - dd) 0 * minA (socW base w g r i - dd) 0))
/-- its reported gradient (repaired code): Σ_i 2 c3 m_i · w i k · g_k  for k ≤ i -/
def deepDeriv (n : Nat) (c3 dd : α) (base : Nat → α) (w : Nat → Nat → α) (g r : Nat → α) (k : Nat) : α :=
  sumTo n (fun i => if k ≤ i then c3 * (2 * minA (socW base w g r i - dd) 0) * (w i k * g k) else 0)
end
end DK

/-- (min x 0)^2 is C¹ with derivative 2·min x 0, including at the kink. -/
theorem hasDerivAt_minsq (x : ℝ) : HasDerivAt (fun x : ℝ => (min x 0) * (min x 0)) (2 * min x 0) x := by
  rcases lt_trichotomy x 0 with h | h | h
  · -- x < 0 : locally x*x
    have h1 : HasDerivAt (fun x : ℝ => x * x) (2 * x) x := by
      have := (hasDerivAt_id' x).mul (hasDerivAt_id' x)
      refine this.congr_deriv ?_
      ring
    have : (fun x : ℝ => (min x 0) * (min x 0)) =ᶠ[nhds x] (fun x => x * x) := by
      filter_upwards [Iio_mem_nhds h] with y hy
      have hy' : y < 0 := hy
      simp [min_eq_left (le_of_lt hy')]
    rw [min_eq_left (le_of_lt h)]
    exact h1.congr_of_eventuallyEq this
  · subst h
    simp only [min_self, mul_zero]
    rw [hasDerivAt_iff_isLittleO_nhds_zero]
    simp only [zero_add, min_self, mul_zero, sub_zero, smul_zero]
    rw [Asymptotics.isLittleO_iff]
    intro c hc
    filter_upwards [Metric.ball_mem_nhds (0:ℝ) hc] with h hh
    simp only [Metric.mem_ball, dist_zero_right, Real.norm_eq_abs] at hh
    simp only [Real.norm_eq_abs, abs_mul]
    have : |min h 0| ≤ |h| := by
      rcases le_total h 0 with h0 | h0
      · simp [min_eq_left h0]
      · simp [min_eq_right h0]
    calc |min h 0| * |min h 0| ≤ |h| * |h| := mul_le_mul this this (abs_nonneg _) (abs_nonneg _)
      _ ≤ c * |h| := by nlinarith [abs_nonneg h]
  · have : (fun x : ℝ => (min x 0) * (min x 0)) =ᶠ[nhds x] (fun _ => (0:ℝ)) := by
      filter_upwards [Ioi_mem_nhds h] with y hy
      have hy' : 0 < y := hy
      simp [min_eq_right (le_of_lt hy')]
    rw [min_eq_right (le_of_lt h)]
    simpa using (hasDerivAt_const x (0:ℝ)).congr_of_eventuallyEq this


theorem minA_eq_min (a b : ℝ) : minA a b = min a b := by
  unfold minA; rw [min_def]

theorem hasDerivAt_minsq' (x : ℝ) : HasDerivAt (fun x : ℝ => (minA x 0) * (minA x 0)) (2 * minA x 0) x := by
  simp only [minA_eq_min]; exact hasDerivAt_minsq x

theorem sumTo_hasDerivAt (n : ℕ) (f : ℕ → ℝ → ℝ) (f' : ℕ → ℝ) (t : ℝ)
    (h : ∀ i < n, HasDerivAt (f i) (f' i) t) :
    HasDerivAt (fun τ => sumTo n (fun i => f i τ)) (sumTo n f') t := by
  induction n with
  | zero => simpa [sumTo] using hasDerivAt_const t (0:ℝ)
  | succ n ih =>
    simp only [sumTo]
    exact (ih (fun i hi => h i (Nat.lt_succ_of_lt hi))).add (h n (Nat.lt_succ_self n))

theorem sumTo_congr (n : ℕ) (f g : ℕ → ℝ) (h : ∀ i < n, f i = g i) : sumTo n f = sumTo n g := by
  induction n with
  | zero => rfl
  | succ n ih => simp only [sumTo]; rw [ih (fun i hi => h i (Nat.lt_succ_of_lt hi)), h n (Nat.lt_succ_self n)]

theorem sumTo_mul_left (n : ℕ) (f : ℕ → ℝ) (c : ℝ) : sumTo n (fun i => c * f i) = c * sumTo n f := by
  induction n with
  | zero => simp [sumTo]
  | succ n ih => simp only [sumTo, ih]; ring

/-- Σ_{k<n} [k ≤ i] f k = Σ_{k<i+1} f k  for i < n -/
theorem sumTo_indicator_le (n i : ℕ) (hi : i < n) (f : ℕ → ℝ) :
    sumTo n (fun k => if k ≤ i then f k else 0) = sumTo (i+1) f := by
  induction n with
  | zero => omega
  | succ n ih =>
    simp only [sumTo]
    by_cases h : i = n
    · subst h
      simp only [le_refl, if_true]
      congr 1
      exact sumTo_congr _ _ _ (fun k hk => by simp [Nat.le_of_lt hk])
    · have : i < n := by omega
      rw [ih this]; simp [show ¬ n ≤ i by omega]; rfl

theorem sumTo_zero' (m : ℕ) : sumTo m (fun _ => (0:ℝ)) = 0 := by
  induction m with
  | zero => rfl
  | succ m ih => simp only [sumTo, ih]; ring

theorem sumTo_add' (n : ℕ) (f g : ℕ → ℝ) : sumTo n (fun i => f i + g i) = sumTo n f + sumTo n g := by
  induction n with
  | zero => simp [sumTo]
  | succ n ih => simp only [sumTo, ih]; ring

theorem sumTo_comm (n m : ℕ) (F : ℕ → ℕ → ℝ) :
    sumTo n (fun i => sumTo m (fun k => F i k)) = sumTo m (fun k => sumTo n (fun i => F i k)) := by
  induction n with
  | zero => simp only [sumTo]; exact (sumTo_zero' m).symm
  | succ n ih => simp only [sumTo]; rw [ih, ← sumTo_add']

/-- line derivative of one SoC entry -/
theorem socW_line (base : ℕ → ℝ) (w : ℕ → ℕ → ℝ) (g s d : ℕ → ℝ) (i : ℕ) (t : ℝ) :
    HasDerivAt (fun τ => socW base w g (fun k => s k + τ * d k) i)
      (sumTo (i+1) (fun j => w i j * (g j * d j))) t := by
  unfold socW
  have hj : ∀ j < i+1, HasDerivAt (fun τ => w i j * (g j * (s j + τ * d j))) (w i j * (g j * d j)) t := by
    intro j _
    have h0 : HasDerivAt (fun τ : ℝ => s j + τ * d j) (d j) t := by
      simpa using ((hasDerivAt_id' t).mul_const (d j)).const_add (s j)
    exact (h0.const_mul (g j)).const_mul (w i j)
  exact (sumTo_hasDerivAt (i+1) _ _ t hj).const_add (base i)

/-- C01 for the deep-discharge term: for every horizon, weights, sign pattern and line. -/
theorem deepCost_line (n : ℕ) (c3 dd : ℝ) (base : ℕ → ℝ) (w : ℕ → ℕ → ℝ) (g s d : ℕ → ℝ) (t : ℝ) :
    HasDerivAt (fun τ => deepCost n c3 dd base w g (fun k => s k + τ * d k))
      (sumTo n (fun k => deepDeriv n c3 dd base w g (fun k => s k + t * d k) k * d k)) t := by
  unfold deepCost deepDeriv
  -- derivative summand-wise
  have hi : ∀ i < n, HasDerivAt
      (fun τ => c3 * (minA (socW base w g (fun k => s k + τ * d k) i - dd) 0 * minA (socW base w g (fun k => s k + τ * d k) i - dd) 0))
      (c3 * (2 * minA (socW base w g (fun k => s k + t * d k) i - dd) 0 * sumTo (i+1) (fun j => w i j * (g j * d j)))) t := by
    intro i _
    have h1 := (socW_line base w g s d i t).sub_const dd
    have h2 := (hasDerivAt_minsq' (socW base w g (fun k => s k + t * d k) i - dd)).comp t h1
    exact h2.const_mul c3
  refine (sumTo_hasDerivAt n _ _ t hi).congr_deriv ?_
  -- exchange the order of summation
  have key : ∀ i < n, c3 * (2 * minA (socW base w g (fun k => s k + t * d k) i - dd) 0 * sumTo (i+1) (fun j => w i j * (g j * d j)))
      = sumTo n (fun k => (if k ≤ i then c3 * (2 * minA (socW base w g (fun k => s k + t * d k) i - dd) 0) * (w i k * g k) else 0) * d k) := by
    intro i hi'
    have : (fun k => (if k ≤ i then c3 * (2 * minA (socW base w g (fun k => s k + t * d k) i - dd) 0) * (w i k * g k) else 0) * d k)
        = (fun k => if k ≤ i then (c3 * (2 * minA (socW base w g (fun k => s k + t * d k) i - dd) 0)) * (w i k * (g k * d k)) else 0) := by
      funext k; split_ifs <;> ring
    rw [this, sumTo_indicator_le n i hi', sumTo_mul_left]; ring
  rw [sumTo_congr n _ _ key, sumTo_comm]
  refine sumTo_congr n _ _ (fun k _ => ?_)
  -- pull d k out of the inner sum
  have : (fun i => (if k ≤ i then c3 * (2 * minA (socW base w g (fun k => s k + t * d k) i - dd) 0) * (w i k * g k) else 0) * d k)
      = (fun i => d k * (if k ≤ i then c3 * (2 * minA (socW base w g (fun k => s k + t * d k) i - dd) 0) * (w i k * g k) else 0)) := by
    funext i; ring
  rw [this, sumTo_mul_left]; ring
#print axioms deepCost_line
