import Lk.Tree2
import Mathlib.Data.Real.Basic
import Mathlib.Tactic.Ring
open DK

theorem shift_shift (a b : ℕ) (S : Mat ℝ) : shift a (shift b S) = shift (b + a) S := by
  funext r c; simp [shift, Nat.add_assoc]

theorem sumBlocks_append (xs ys : List (ℕ × Block ℝ)) (S P : Mat ℝ) :
    sumBlocks (xs ++ ys) S P = sumBlocks xs S P + sumBlocks ys S P := by
  induction xs with
  | nil => simp [sumBlocks]
  | cons x xs ih => simp only [sumBlocks, List.cons_append, List.foldr_cons] at *; rw [ih]; ring

mutual
theorem Tree.cost_eq_blocks (off : ℕ) (S P : Mat ℝ) :
    (t : Tree ℝ) → t.cost (shift off S) (shift off P) = sumBlocks (t.blocks off) S P
  | .leaf b => by simp [Tree.cost, Tree.blocks, sumBlocks]
  | .node id cs => by simp only [Tree.cost, Tree.blocks]; exact costL_eq_blocks off S P cs
theorem costL_eq_blocks (off : ℕ) (S P : Mat ℝ) :
    (ts : List (Tree ℝ)) → costL ts (shift off S) (shift off P) = sumBlocks (blocksL off ts) S P
  | [] => by simp [costL, blocksL, sumBlocks]
  | t :: ts => by
    simp only [costL, blocksL, sumBlocks_append, shift_shift]
    rw [Tree.cost_eq_blocks off S P t, costL_eq_blocks (off + t.rows) S P ts]
end

/-- C02 headline: the tree cost is the sum over leaf blocks of the block's cost on its own rows. -/
theorem tree_cost (t : Tree ℝ) (S P : Mat ℝ) : t.cost S P = sumBlocks (t.blocks 0) S P := by
  have := Tree.cost_eq_blocks 0 S P t
  have h0 : ∀ M : Mat ℝ, shift 0 M = M := fun M => by funext r c; simp [shift]
  simpa [h0] using this
#print axioms tree_cost
