import Lk.Model
import Mathlib.Analysis.Convex.Function
import Mathlib.Analysis.Convex.Mul
import Mathlib.Data.Real.Basic
import Mathlib.Algebra.Module.Pi
import Mathlib.LinearAlgebra.Pi
import Mathlib.Tactic.Ring
import Mathlib.Tactic.Linarith
import Mathlib.Tactic.Positivity

open DK

/-- elementary, model-faithful convexity notion on a box-like set `S` of vectors -/
theorem sumTo_convexOn (n : ℕ) (S : Set (ℕ → ℝ)) (hS : Convex ℝ S) (g : ℕ → (ℕ → ℝ) → ℝ)
    (h : ∀ i < n, ConvexOn ℝ S (g i)) :
    ConvexOn ℝ S (fun s => sumTo n (fun i => g i s)) := by
  induction n with
  | zero => simpa [sumTo] using convexOn_const (0:ℝ) hS
  | succ n ih =>
    simp only [sumTo]
    exact (ih (fun i hi => h i (Nat.lt_succ_of_lt hi))).add (h n (Nat.lt_succ_self n))

theorem quad_convex (a b c : ℝ) (ha : 0 ≤ a) : ConvexOn ℝ Set.univ (fun x : ℝ => a * x * x + b * x + c) := by
  refine ⟨convex_univ, ?_⟩
  intro x _ y _ θ μ hθ hμ hsum
  have : μ = 1 - θ := by linarith
  subst this
  simp only [smul_eq_mul]
  nlinarith [mul_nonneg ha (mul_nonneg hθ hμ), sq_nonneg (x - y), mul_nonneg (mul_nonneg ha (mul_nonneg hθ hμ)) (sq_nonneg (x - y))]

#print axioms quad_convex
