import Lk.Model
import Mathlib.Data.Real.Basic
import Mathlib.Tactic.Ring
import Mathlib.Tactic.Linarith
import Mathlib.Tactic.Positivity
import Mathlib.Tactic.FieldSimp

open DK
namespace DK
section
variable {α : Type} [Add α] [Sub α] [Mul α] [Div α] [Neg α] [OfNat α 0] [OfNat α 1] [OfNat α 2]
  [LT α] [LE α] [DecidableEq α] [DecidableLT α] [DecidableLE α]
/-- HyperCube.project, slot-wise: max lo (min hi p) -/
def clamp (lo hi p : α) : α := if hi < p then (if hi < lo then lo else hi) else (if p < lo then lo else p)
def dot (n : Nat) (u v : Nat → α) : α := sumTo n (fun i => u i * v i)
/-- HalfSpace.project with sign>0 (n·x ≥ o), sqrt-free form -/
def halfProj (n : Nat) (nrm : Nat → α) (o : α) (p : Nat → α) : Nat → α :=
  if dot n nrm p < o then fun i => p i + nrm i * ((o - dot n nrm p) / dot n nrm nrm) else p
end
end DK

theorem sumTo_le (n : ℕ) (f g : ℕ → ℝ) (h : ∀ i < n, f i ≤ g i) : sumTo n f ≤ sumTo n g := by
  induction n with
  | zero => simp [sumTo]
  | succ n ih =>
    simp only [sumTo]
    exact add_le_add (ih fun i hi => h i (Nat.lt_succ_of_lt hi)) (h n (Nat.lt_succ_self n))

theorem clamp_mem (lo hi p : ℝ) (h : lo ≤ hi) : lo ≤ clamp lo hi p ∧ clamp lo hi p ≤ hi := by
  unfold clamp; split_ifs <;> constructor <;> linarith

theorem clamp_nearest1 (lo hi p y : ℝ) (h : lo ≤ hi) (hy : lo ≤ y ∧ y ≤ hi) :
    (p - clamp lo hi p) * (p - clamp lo hi p) ≤ (p - y) * (p - y) := by
  unfold clamp; split_ifs <;> nlinarith [hy.1, hy.2]

/-- box projection is the nearest point of the box, any dimension n -/
theorem box_nearest (n : ℕ) (lo hi p y : ℕ → ℝ) (h : ∀ i < n, lo i ≤ hi i)
    (hy : ∀ i < n, lo i ≤ y i ∧ y i ≤ hi i) :
    sumTo n (fun i => (p i - clamp (lo i) (hi i) (p i)) * (p i - clamp (lo i) (hi i) (p i)))
      ≤ sumTo n (fun i => (p i - y i) * (p i - y i)) :=
  sumTo_le n _ _ fun i hi' => clamp_nearest1 _ _ _ _ (h i hi') (hy i hi')

theorem sumTo_add' (n : ℕ) (f g : ℕ → ℝ) : sumTo n (fun i => f i + g i) = sumTo n f + sumTo n g := by
  induction n with
  | zero => simp [sumTo]
  | succ n ih => simp only [sumTo, ih]; ring
theorem sumTo_mul_const (n : ℕ) (f : ℕ → ℝ) (c : ℝ) : sumTo n (fun i => f i * c) = sumTo n f * c := by
  induction n with
  | zero => simp [sumTo]
  | succ n ih => simp only [sumTo, ih]; ring

/-- half-space projection lands on the boundary when outside -/
theorem halfProj_mem (n : ℕ) (nrm p : ℕ → ℝ) (o : ℝ) (hn : 0 < dot n nrm nrm) :
    o ≤ dot n nrm (halfProj n nrm o p) := by
  unfold halfProj
  split_ifs with h
  · have : dot n nrm (fun i => p i + nrm i * ((o - dot n nrm p) / dot n nrm nrm))
        = dot n nrm p + dot n nrm nrm * ((o - dot n nrm p) / dot n nrm nrm) := by
      unfold dot
      rw [← sumTo_mul_const, ← sumTo_add']
      congr 1; funext i; ring
    rw [this]; field_simp; linarith
  · linarith [not_lt.mp h]
#print axioms box_nearest
#print axioms halfProj_mem
