import Mathlib.Analysis.Calculus.Deriv.Basic
import Mathlib.Analysis.Calculus.Deriv.Mul
import Mathlib.Analysis.Calculus.Deriv.Add
import Mathlib.Analysis.Calculus.Deriv.Pow
import Mathlib.Analysis.Calculus.Deriv.Comp
import Mathlib.Analysis.SpecialFunctions.Pow.Deriv
import Mathlib.Tactic.Ring
import Mathlib.Tactic.Linarith

/-- (min x 0)^2 is C¹ with derivative 2·min x 0, including at the kink. -/
theorem hasDerivAt_minsq (x : ℝ) : HasDerivAt (fun x : ℝ => (min x 0) * (min x 0)) (2 * min x 0) x := by
  rcases lt_trichotomy x 0 with h | h | h
  · -- x < 0 : locally x*x
    have h1 : HasDerivAt (fun x : ℝ => x * x) (2 * x) x := by
      have := (hasDerivAt_id' x).mul (hasDerivAt_id' x)
      refine this.congr_deriv ?_
      ring
    have : (fun x : ℝ => (min x 0) * (min x 0)) =ᶠ[nhds x] (fun x => x * x) := by
      filter_upwards [Iio_mem_nhds h] with y hy
      have hy' : y < 0 := hy
      simp [min_eq_left (le_of_lt hy')]
    rw [min_eq_left (le_of_lt h)]
    exact h1.congr_of_eventuallyEq this
  · subst h
    simp only [min_self, mul_zero]
    rw [hasDerivAt_iff_isLittleO_nhds_zero]
    simp only [zero_add, min_self, mul_zero, sub_zero, smul_zero]
    rw [Asymptotics.isLittleO_iff]
    intro c hc
    filter_upwards [Metric.ball_mem_nhds (0:ℝ) hc] with h hh
    simp only [Metric.mem_ball, dist_zero_right, Real.norm_eq_abs] at hh
    simp only [Real.norm_eq_abs, abs_mul]
    have : |min h 0| ≤ |h| := by
      rcases le_total h 0 with h0 | h0
      · simp [min_eq_left h0]
      · simp [min_eq_right h0]
    calc |min h 0| * |min h 0| ≤ |h| * |h| := mul_le_mul this this (abs_nonneg _) (abs_nonneg _)
      _ ≤ c * |h| := by nlinarith [abs_nonneg h]
  · have : (fun x : ℝ => (min x 0) * (min x 0)) =ᶠ[nhds x] (fun _ => (0:ℝ)) := by
      filter_upwards [Ioi_mem_nhds h] with y hy
      have hy' : 0 < y := hy
      simp [min_eq_right (le_of_lt hy')]
    rw [min_eq_right (le_of_lt h)]
    simpa using (hasDerivAt_const x (0:ℝ)).congr_of_eventuallyEq this

/-- real exponent power of an affine map, for the ABC kernel -/
theorem hasDerivAt_rpow_affine (k m b x : ℝ) (hq : 0 < k * x + m) :
    HasDerivAt (fun x => (k * x + m) ^ b) (b * (k * x + m) ^ (b - 1) * k) x := by
  have h1 : HasDerivAt (fun x : ℝ => k * x + m) k x := by
    simpa using ((hasDerivAt_id x).const_mul k).add_const m
  have := h1.rpow_const (p := b) (Or.inl (ne_of_gt hq))
  refine this.congr_deriv ?_
  ring

#print axioms hasDerivAt_minsq
#print axioms hasDerivAt_rpow_affine
