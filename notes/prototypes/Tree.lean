namespace DK
/-- leaf devices are opaque row-blocks: `rows` rows each -/
structure LeafInfo where
  id : String
  rows : Nat
deriving Repr

inductive Tree where
  | leaf (l : LeafInfo)
  | node (id : String) (cs : List Tree)
deriving Repr

mutual
def Tree.rows : Tree → Nat
  | .leaf l => l.rows
  | .node _ cs => rowsList cs
def rowsList : List Tree → Nat
  | [] => 0
  | t :: ts => t.rows + rowsList ts
end

mutual
def Tree.labels (pfx : String) : Tree → List String
  | .leaf l => List.replicate l.rows (pfx ++ l.id)
  | .node id cs => labelsList (pfx ++ id ++ ".") cs
def labelsList (pfx : String) : List Tree → List String
  | [] => []
  | t :: ts => t.labels pfx ++ labelsList pfx ts
end

mutual
theorem Tree.labels_length (pfx : String) : (t : Tree) → (t.labels pfx).length = t.rows
  | .leaf l => by simp [Tree.labels, Tree.rows]
  | .node id cs => by simp [Tree.labels, Tree.rows, labelsList_length]
theorem labelsList_length (pfx : String) : (ts : List Tree) → (labelsList pfx ts).length = rowsList ts
  | [] => by simp [labelsList, rowsList]
  | t :: ts => by simp [labelsList, rowsList, Tree.labels_length, labelsList_length]
end

#eval (Tree.node "root" [.leaf ⟨"a",1⟩, .node "in" [.leaf ⟨"b",1⟩, .leaf ⟨"c",2⟩], .leaf ⟨"g",1⟩]).labels ""
#print axioms Tree.labels_length
end DK
