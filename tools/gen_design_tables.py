#!/usr/bin/env python3
"""tools/gen_design_tables.py — regenerate the machine-generated blocks of DESIGN.md (between
<!-- BEGIN name --> / <!-- END name --> markers): summary table, fix list, open findings, selftest table."""
import os, re, json, subprocess
VERIF = os.path.dirname(os.path.dirname(os.path.abspath(__file__)))
def block(text, name, content):
  pat = re.compile(r'(<!-- BEGIN %s -->\n).*?(<!-- END %s -->)' % (name, name), re.S)
  assert pat.search(text), name
  return pat.sub(lambda m: m.group(1) + content.rstrip('\n') + '\n' + m.group(2), text)
t = open(os.path.join(VERIF, 'DESIGN.md')).read()
summ = subprocess.run(['/venv/bin/python', os.path.join(VERIF, 'tools', 'summarize.py')], capture_output=True, text=True).stdout
total = sum(int(l.split('|')[2]) for l in summ.split('\n')[2:] if l.startswith('| C') and l.split('|')[2].strip().isdigit())
t = block(t, 'summary', summ + '\nTotal: %d machine-checked obligations.' % total)
fixed, opened = [], []
for l in open(os.path.join(VERIF, 'known_findings.txt')):
  m = re.match(r'fixed: property=(\S+) (\S+) (.*)', l)
  if m: fixed.append('| %s | `%s` | %s |' % m.groups())
  m = re.match(r'open: property=(\S+) match=(\{.*?\}) (.*)', l)
  if m: opened.append('| %s | `%s` | %s |' % (m.group(1), m.group(2).replace('|', '/'), m.group(3).replace('|', '/')))
t = block(t, 'fixed', '| property | fix commit in /repo | what failed |\n|---|---|---|\n' + '\n'.join(fixed) + '\n\n%d fix commits.' % len(fixed))
t = block(t, 'open', '| property | match (over the oracle failure key) | what fails |\n|---|---|---|\n' + '\n'.join(opened) + '\n\n%d open findings.' % len(opened))
p = os.path.join(VERIF, 'notes', 'selftest-results.json')
if os.path.exists(p):
  rs = json.load(open(p))
  rows = []
  for r in rs:
    res = r.get('status') or ('caught — concrete replay' if r.get('concrete') else ('caught — no-failing-input-found' if r.get('violation') else 'MISSED'))
    rows.append('| %s | %s | %s | %s |' % (r['seeded'], r.get('check', ''), res, (r.get('detail') or '')[:110].replace('|', '/')))
  n = len(rs); c = sum(1 for r in rs if r.get('concrete')); nf = sum(1 for r in rs if r.get('violation') and not r.get('concrete')); miss = sum(1 for r in rs if 'rc' in r and not r.get('violation'))
  t = block(t, 'selftest', '| seeded change | check | result | first line of the report |\n|---|---|---|---|\n' + '\n'.join(rows) +
            '\n\n%d seeded changes run: %d caught with a concrete replay, %d caught as no-failing-input-found, %d missed.' % (n, c, nf, miss))
open(os.path.join(VERIF, 'DESIGN.md'), 'w').write(t)
print('tables regenerated; total obligations', total)
