#!/venv/bin/python
"""tools/summarize.py — per-property summary table (theorem counts, ties, sizes) from the Prop objects."""
import sys, os, json
sys.path.insert(0, os.path.dirname(os.path.dirname(os.path.abspath(__file__))))
from vk.check import load_prop
rows = []
for i in range(1, 21):
  pid = 'C%02d' % i
  try:
    p = load_prop(pid)
  except Exception as e:
    rows.append('| %s | (not built: %s) | | | | |' % (pid, type(e).__name__)); continue
  th = p.theorems
  groups = th if isinstance(th, dict) else {p.lean_module: th}
  n = sum(len(v) for v in groups.values()) + len(p.bridge)
  t1 = bool(p.uses_t1)
  rows.append('| %s | %d | %s | %s | %s / %s | %s |' % (pid, n, ', '.join(sorted(m.replace('DK.Props.', '') for m in groups)), 'yes' if t1 else 'no',
              p.sizes.get('quick'), p.sizes.get('thorough'), (p.rule or '').replace('|', '/')[:160]))
print('| id | obligations | Lean modules (DK.Props.*) | T1 | T2 cases quick / thorough | generator / non-triviality rule (abridged) |\n|---|---|---|---|---|---|')
print('\n'.join(rows))
