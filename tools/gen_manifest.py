#!/usr/bin/env python3
"""tools/gen_manifest.py — write MANIFEST.json from the table below (only properties whose
vk/props/cNN.py exists are claimed; the others are listed under not_applicable with the reason
'check not built yet')."""
import json, os
VERIF = os.path.dirname(os.path.dirname(os.path.abspath(__file__)))

T = 'Lean 4 theorems over an executable model; model tied to /repo by regenerated translation (T1) and/or differential correspondence (T2); failing-input search by a property oracle'
P = {
 'C01': ('proof', 'For every shipped class and every nesting of preference-function combinators, for all horizons n, all parameters, flows and prices: the modelled marginal cost is the Gateaux gradient of the modelled cost (IsGradAt: derivative along every direction), hence every partial derivative and, for kink-free classes, the line-integral form. Proved in Lean over the same definitions the driver executes; scalar kernels and the vector cost/deriv bodies of every closed-form class are re-translated from the Python source on every run and bridged to the model (a changed body breaks a bridge lemma); all classes are tied by correspondence on random configurations, including integer-typed and row-shaped flows and built-then-reassigned parameters.',
         'Kink hypotheses are explicit (integer ABC exponent >= 1 or q > 0; lossy storage away from zero flow; unique arg-max for DemandFunction). The numdifftools-based function classes (InformationEntropy, TemporalVariance, CobbDouglas) have an analytic model with proved gradients (DK.C01nd); that numdifftools output approximates them is observed (TemporalVariance by correspondence at 1e-6, the other two against a Python transcription of the Lean formulas). WindowDevice is excluded by the property itself. IEEE rounding / numpy glue covered by correspondence only.'),
 'C02': ('proof', 'For all trees (any depth, fan-out, children with different row counts) over arbitrary block behaviours, by mutual induction: tree cost = sum of block costs on their own rows, marginal-cost rows and bounds rows belong to the owning block, the constraint list holds iff every block constraint holds on its own rows and every node constraint on its own range; zero-padded Jacobians stay gradients; flat/matrix index arithmetic round-trips.',
         'Blocks are abstract in the theorems; the set-level glue of DeviceSet / MFDeviceSet (partition, costv/deriv/hess comprehensions, price explosion, bounds, project, constraints re-wrapping) is re-translated from the current source on every run and bridged to the tree model for every list of children (T1s); shipped leaves/adaptors are also tied by correspondence, on several memory layouts and price forms. numpy slicing/reshape itself is denoted by the translator, not proved.'),
 'C03': ('proof', 'For every list of cumulative bounds and every storage parameterisation, all horizons: the exported constraint list is satisfied exactly by the flows meeting the documented semantics (own limits on own slot range; state of charge from the reported recurrence within [0, capacity], reserve at the end, rate clipping).',
         'User constraints of ADevice are opaque predicates in the theorem; Python closures are tied by correspondence and the oracle.'),
 'C04': ('proof', 'Own constraints of every set hold iff per-slot column sums lie in the aggregate bounds (equality when low = high); label balancing, ratio and multi-flow adaptor variants; combined with C02 for every depth simultaneously.',
         'The constraint lists of DeviceSet, MFDeviceSet, TwoRatioMFDeviceSet and SubBalancedDeviceSet are re-translated from the current source on every run and bridged (T1s); label matching (re) is outside the translated subset: labels are matched as escaped qualified-id suffixes in the model and tied by correspondence.'),
 'C05': ('proof', 'PARTIAL. Proved: for every optimiser result with success = false solve raises (universal fault injection), an ok outcome is the shortcut or the reshaped successful result, the assembled proximal objective/Jacobian are cost + quadratic and its gradient, first-order certificates are sound on convex feasible sets, closed-form optima minimise the model. SLSQP convergence and the honesty of its success flag are runtime behaviour observed by the oracle only.',
         'SciPy minimize is a parameter of the model.'),
 'C06': ('proof', 'Every Jacobian the model supplies (cumulative bounds, state of charge, reserve, aggregate bounds, ratio, adaptor tiling, tree re-wrapping) is the gradient of its function and vanishes on variables the function does not read, for all sizes.',
         'Lossy storage away from the charge/discharge kink.'),
 'C07': ('proof', 'Chord-form convexity over the bounds box for every convex-documented class under explicit acceptance hypotheses, all horizons; gradient monotonicity (the first-order face of convexity) is proved from the chord form for the model gradients; three accepted non-convex corners (IDevice exponent in (0,1); SDevice c1 = 0 < c2; the lossy-storage feasible set) are proved non-convex by witnesses and carried as known findings.',
         'GDevice/ADevice polynomials restricted to convex ones as the property says.'),
 'C08': ('proof', 'cost(s,p) = cost(s,0) + sum s*p and deriv(s,p) = deriv(s,0) + p for every class and, by induction, every tree; model Hessians have no price argument.',
         'The four price shapes (matrix, per-slot vector, scalar, (1,n) row) of the set-level code are re-translated from the source and bridged to the broadcast price matrices (T1s); numpy broadcasting itself is denoted by the translator and observed by correspondence.'),
 'C09': ('proof', 'soc, charge_at and the state bounded by the storage constraints satisfy the documented first-order recurrence from start*capacity; thermal temperature satisfies T_i = s T_{i-1} + (1-s) TE_i + e r_i for any real external temperatures and flows; all horizons. Conversely (DK.Props.C09b) the recurrence has exactly one solution and charge_at / r2t report it, the state after slot i reads only flows of slots <= i, is monotone in them for efficiency > 0 and sustainment >= 0, integrates the flow when lossless, and the temperature is affine in consumption and shifts with the external temperature.',
         ''),
 'C10': ('proof', 'PARTIAL. Proved: the definedness side-conditions generated from the current kernel source (every division and general power) hold under the acceptance conditions for in-bounds flows. Shape contracts and absence of exceptions are numpy glue: observed for the listed horizon lengths and boundary grid, not proved.',
         ''),
 'C11': ('proof', 'validate_bounds is sound and complete w.r.t. the documented grammar on a model of Python values; cumulative bounds accepted iff well-formed and attainable; validator thresholds; invariants over arbitrary setter histories; reported = supplied. Bounded-exhaustive correspondence over the small alphabet.',
         'Python duck typing is abstracted by PyVal.'),
 'C12': ('proof', 'PARTIAL. Over a hand abstraction of the mutable state (constraint cells, lazy caches, lru_cache, caller cells): every finite history of read-only operations leaves every later observation equal to a fresh twin. The abstraction itself is validated by correspondence and the fresh-twin oracle only.',
         ''),
 'C13': ('proof', 'labels has one entry per row in row order, each the dot-joined ids from the root followed by the block label; map pairs label k with row k, which is the row the owning block reads; map is total over the rows, in row order, entry k reads row k only, and re-rooting a subtree only prepends the path to its labels (DK.Props.C13b).',
         'regex lookup abstracted.'),
 'C14': ('proof', 'PARTIAL for storage/thermal. Closed-form Hessians are the Jacobian of the marginal cost, symmetric, PSD under acceptance, for all classes and combinators; numerically differentiated Hessians (storage, thermal) are compared with finite differences and with the analytic second derivative of the model (DK.C14b) within the documented accuracy only.',
         'TemporalVariance has a proved analytic Hessian (negative semidefinite: no PSD claim) tied by correspondence at 1e-4; CobbDouglas / InformationEntropy Hessians are observed by second differences only.'),
 'C15': ('proof', 'Model costs equal the documented closed forms restated independently in Lean; end-point marginal costs p_l / p_h, q(x_l) = 1, q(x_h) = a, zero-width slots contribute nothing.',
         ''),
 'C16': ('proof', 'Over the class table extracted from the current source: every dumped key is accepted by the constructor and every constructor argument is dumped (decide); per-class settings round-trip.',
         'The extraction of the table is part of the trusted translator.'),
 'C17': ('proof', 'Adaptor cost at zero price = wrapped cost of the column sum; marginal cost rows; feasibility iff conduit directions and wrapped feasibility of the sum; equal split of a feasible total is feasible; any number of conduits.',
         ''),
 'C18': ('proof', 'PARTIAL for the iterative intersection and the SLSQP helper. Box, half-space, slab and list projections return a member, the nearest one, fix members, are idempotent; intersection shortcuts are sound; Dykstra only partial correctness.',
         'sqrt normalisation proved equal to the sqrt-free rational form.'),
 'C19': ('proof', 'PARTIAL. Under oracle specifications of the two SLSQP sub-problems: step stays feasible, does not raise cost, and the projected negative-gradient direction is a strict descent direction unless first-order optimal; repeated steps by induction.',
         'SciPy minimize is a parameter of the model.'),
 'C20': ('proof', 'run_to_array / run_to_cbounds / care / on / supply helpers equal the piecewise-constant expansion denoted, for any number of runs in any key order, all horizons.',
         'The helpers and the bounds slice of every per-kind loader are re-translated from the current source on every run and bridged to the model for every run dictionary with distinct keys (T1l); cost-function construction and constructors of the per-kind loaders are tied by correspondence.'),
}

def main():
  checks, na = [], []
  for pid in sorted(P):
    cat, text, note = P[pid]
    if os.path.exists(os.path.join(VERIF, 'vk', 'props', pid.lower() + '.py')):
      checks.append({'property_id': pid, 'quick_cmd': './check %s --tier quick' % pid, 'thorough_cmd': './check %s --tier thorough' % pid,
                     'evidence_file': 'evidence/%s.json' % pid, 'replay_cmd_template': './check %s --replay {path}' % pid,
                     'engine': 'lean-model+correspondence',
                     'level_claimed': {'category': cat, 'text': text, 'design_ref': 'DESIGN.md §4 %s' % pid},
                     'level_note': ('Trusted base: Lean kernel + axioms propext/Classical.choice/Quot.sound (audited per theorem on every run); Mathlib definitions in statements; vk translators (scalar kernels, validators, class table, vector method bodies T1v, set-level glue T1s: their numpy/Python denotation is trusted and cross-checked by correspondence) and the correspondence harness; ' + note).strip(),
                     'technique': 'machine-checked proof (Lean 4) over a model tied by translation + correspondence'})
    else:
      na.append({'property_id': pid, 'reason': 'check not built yet (work in progress; the technique applies, see DESIGN.md §4 %s)' % pid})
  m = {'version': 1, 'setup_cmd': '/venv/bin/python vk/translate.py /repo && cd lean && lake build DK.Props.All DK.Driver.Main && cd .. && /venv/bin/python -m vk.warmup',
       'hooks': {'guard': 'DEVICE_KIT_VERIF', 'enable': 'none needed: the harness imports /repo in-process (DK_REPO overrides the path) and stubs SciPy from outside the repository',
                 'baseline_off_cmd': 'cd /repo && /venv/bin/python -m pytest -ra -q -p no:cacheprovider --timeout=900 --continue-on-collection-errors',
                 'source_commits': [], 'add_only': True},
       'engines': [{'name': 'lean-model+correspondence', 'path': 'check', 'serves_properties': [c['property_id'] for c in checks], 'kind_free_text': T}],
       'checks': checks, 'not_applicable': na,
       'notes': 'Genuine defects repaired by fix: commits in /repo and open findings are listed in known_findings.txt; seeded changes and which checks catch them in notes/selftest-results.md.'}
  json.dump(m, open(os.path.join(VERIF, 'MANIFEST.json'), 'w'), indent=1)
  print('claimed:', [c['property_id'] for c in checks], 'not yet:', [n['property_id'] for n in na])

if __name__ == '__main__':
  main()
