#!/bin/bash
# tools/mutate.sh <patch.diff> <CNN> [CNN...] — apply a seeded change to /repo, run the checks, undo it.
# (development aid; not a registered check)
patch="$(realpath "$1")"; shift
cd /repo || exit 2
if [ -n "$(git status --short -- device_kit)" ]; then echo "repo not clean"; exit 2; fi
git apply "$patch" || { echo "patch does not apply"; exit 2; }
trap 'git -C /repo checkout -- . ; /venv/bin/python /verif/vk/translate.py /repo >/dev/null' EXIT
cd /verif
for c in "$@"; do
  out=$(VERIF_EVIDENCE_DIR=/tmp/mut_evidence VERIF_REPLAY_DIR=/tmp/mut_evidence ./check "$c" --tier quick 2>&1); rc=$?
  echo "[$c rc=$rc] $(echo "$out" | grep -E 'VIOLATION|OK property|KNOWN|TOOL' | head -3)"
  echo "$out" | grep -A2 VIOLATION | sed -n '2,3p'
done
