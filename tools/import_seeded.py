#!/usr/bin/env python3
"""tools/import_seeded.py CNN [CNN…] — validate sub-agent mutants from /tmp/mut and keep the good ones
under seeded/<id>/ (patch.diff, demo.py, meta.json).  Validation, in a scratch worktree of /repo HEAD:
patch applies; existing suite still gives >= 55 passed with only tests/test_all.py erroring; the demo
exits 1 with the patch and 0 without it."""
import sys, os, subprocess, json, re, shutil
def sh(c, **k): return subprocess.run(c, shell=True, capture_output=True, text=True, **k)
import os as _os
SRC = _os.environ.get('MUT_DIR', '/tmp/mut')
VARIANTS = _os.environ.get('MUT_VARIANTS', 'AB')
W = SRC + '/val'
sh('git -C /repo worktree remove --force %s' % W); sh('git -C /repo worktree prune')
r = sh('git -C /repo worktree add --detach %s HEAD' % W); assert r.returncode == 0, r.stderr
try:
  for pid in sys.argv[1:]:
    for v in VARIANTS:
      base = SRC + '/%s.%s' % (pid, v)
      if not os.path.exists(base + '.diff'):
        print(pid, v, 'missing'); continue
      ran = []
      r0 = sh('/venv/bin/python %s.demo.py %s' % (base, W)); ran.append('demo on HEAD: exit %d' % r0.returncode)
      a = sh('git -C %s apply %s.diff' % (W, base))
      if a.returncode != 0:
        print(pid, v, 'PATCH DOES NOT APPLY', a.stderr[:200]); sh('git -C %s checkout -- .' % W); continue
      t = sh('cd %s && /venv/bin/python -m pytest -q -p no:cacheprovider --timeout=900 --continue-on-collection-errors 2>&1 | tail -5' % W)
      m = re.search(r'(\d+) passed', t.stdout); npass = int(m.group(1)) if m else 0
      fails = re.findall(r'^(?:FAILED|ERROR) (\S+)', t.stdout, re.M)
      ran.append('suite with patch: %d passed, not passing %s' % (npass, fails))
      r1 = sh('/venv/bin/python %s.demo.py %s' % (base, W)); ran.append('demo with patch: exit %d' % r1.returncode)
      sh('git -C %s checkout -- .' % W)
      ok = r0.returncode == 0 and r1.returncode == 1 and npass >= 55 and set(fails) <= {'tests/test_all.py'}
      print(pid, v, 'OK' if ok else 'REJECTED', ran)
      if ok:
        d = '/verif/seeded/%s-%s' % (pid, v); os.makedirs(d, exist_ok=True)
        shutil.copy(base + '.diff', d + '/patch.diff'); shutil.copy(base + '.demo.py', d + '/demo.py')
        meta = json.load(open(base + '.meta.json')) if os.path.exists(base + '.meta.json') else {}
        meta.update({'property': pid, 'validated': ran, 'demo': '/venv/bin/python seeded/%s-%s/demo.py <repo root>  (exit 1 with the patch, 0 without)' % (pid, v)})
        json.dump(meta, open(d + '/meta.json', 'w'), indent=1)
finally:
  sh('git -C /repo worktree remove --force %s' % W)
