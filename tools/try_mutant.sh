#!/bin/bash
# tools/try_mutant.sh <CNN> <suffix> — validate a sub-agent's seeded change in its scratch worktree /tmp/mut/<CNN>
# (tree == patch.diff, suite unchanged, demo fails with / passes without), copy it to seeded/<CNN>-<suffix>/ and run the
# owning check against it with tools/mutate.sh.  Development aid; not a registered check.
p="$1"; sfx="$2"; w=/tmp/mut/$p
cd "$w" || exit 2
git diff -- device_kit | diff -q - patch.diff >/dev/null && echo "tree == patch" || echo "TREE != PATCH"
DK_REPO=$w /venv/bin/python demo.py >/dev/null 2>&1; echo "demo with change: rc=$?"
DK_REPO=/repo /venv/bin/python demo.py >/dev/null 2>&1; echo "demo on /repo: rc=$?"
/venv/bin/python -m pytest -q -p no:cacheprovider --timeout=900 tests/test_device.py tests/test_device_utils.py tests/test_deviceset.py tests/test_functions.py tests/test_projection.py 2>&1 | tail -1
d=/verif/seeded/$p-$sfx; mkdir -p "$d"; cp patch.diff demo.py note.txt "$d"/
git -C /repo apply --check "$d/patch.diff" && echo applies
cd /verif && tools/mutate.sh "$d/patch.diff" "$p" 2>&1 | grep -v KNOWN-FINDING | tail -4 | cut -c1-600
