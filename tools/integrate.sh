#!/bin/bash
# tools/integrate.sh <agent scratch verif dir> — list (and with --apply copy) files the agent added/changed
src="$1"; apply="$2"
cd "$src" || exit 1
find . -type f \( -name '*.lean' -o -name '*.py' -o -name '*.txt' -o -name '*.md' -o -name '*.json' -o -name '*.sh' \) \
  -not -path './lean/.lake/*' -not -path './evidence/*' -not -path './replays/*' -not -path '*/__pycache__/*' -not -path './lean/.audit*' | sort | while read f; do
  if [ ! -e "/verif/$f" ]; then echo "NEW     $f"; [ "$apply" = "--apply" ] && mkdir -p "/verif/$(dirname $f)" && cp "$f" "/verif/$f"
  elif ! cmp -s "$f" "/verif/$f"; then echo "CHANGED $f"; fi
done
