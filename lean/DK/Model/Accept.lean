import DK.Model.Constraints
/-!
# Acceptance conditions of the leaf constructors (the part the usability property C10 relies on)

What the constructors / setters enforce on the *scalar* parameters that occur in a division or a
power of the cost kernels and constraint closures (file:line refers to `/repo/device_kit`):

| class | enforced | where |
|---|---|---|
| every `Device` | `lb_k ≤ hb_k` per slot | basedevice.py:217 (`validate_bounds`) |
| `PVDevice`, `GDevice` | `hb_k ≤ 0` | pvdevice.py:33, gdevice.py:59 |
| `CDevice` | `a ≤ 0` | cdevice.py:31 |
| `IDevice2`, `CDevice2` | `p_l ≤ p_h`, `p_l ≤ 0`, `p_h ≤ 0` | idevice2.py:48-65, cdevice2.py:38-57 |
| `IDevice` | `a ≥ 0`, `b > 0`, `c ≥ 0` (per slot when vectors) | idevice.py:41-61 |
| `SDevice` | `c1,c2,c3 ≥ 0`, `¬(c2 > c1 > 0)`, `capacity > 0`, `start, reserve, damage_depth ∈ [0,1]`, `efficiency, sustainment ∈ (0,1]` | sdevice.py:215-270 |
| `TDevice` | `sustainment ∈ [0,1]`, `efficiency ≠ 0`, `t_range ≥ 0`, `c ≥ 0` | tdevice.py:48-60 |

| every `Device` | each cumulative bound `(l, h, s, e)`: `0 ≤ s < e ≤ len`, `l < h`, `Σ lb[s:e] ≤ h`, `l ≤ Σ hb[s:e]` | device.py:150-161 (`set_cbound`) |
| `CDevice2` | with several cumulative bounds: ranges start at 0, are contiguous and end at `len` | functions.py:218-222 (`_validate_ranges`), cdevice2.py:19 |

The form of the bounds / cbounds arguments and non-scalar shape checks (vector slopes of `CDevice2`, the
row count of a `GDevice` coefficient table, `TwoRatioMFDeviceSet(ratios=None)`) cannot be expressed in
a `Leaf` description; they are the subject of C11 and are probed on the implementation only.  The predicates are decidable, so the driver evaluates them at exact
rationals against the real constructors (`accept.leaf`), and the C10 theorems use the very same
definitions at `ℝ` as their hypotheses.
-/
namespace DK
section
variable {α : Type} [Add α] [Sub α] [Mul α] [Div α] [Neg α]
  [OfNat α 0] [OfNat α 1] [OfNat α 2]
  [LT α] [LE α] [DecidableEq α] [DecidableLT α] [DecidableLE α]

/-- `validate_bounds`: every slot has `low ≤ high`. -/
def accBounds (n : Nat) (lb hb : Nat → α) : Prop := ∀ k, k < n → lb k ≤ hb k

/-- `PVDevice` / `GDevice` bounds setter: never consumes. -/
def accProducer (n : Nat) (hb : Nat → α) : Prop := ∀ k, k < n → hb k ≤ 0

/-- `IDevice2._validate_param` + the two setters (also `CDevice2`): `p_l ≤ p_h ≤ 0` per slot. -/
def accHLQ (n : Nat) (pl ph : Nat → α) : Prop := ∀ k, k < n → pl k ≤ ph k ∧ pl k ≤ 0 ∧ ph k ≤ 0

/-- `IDevice` setters: `a ≥ 0`, `b > 0`, `c ≥ 0` per slot (integer exponents in the executable model). -/
def accABC (n : Nat) (a : Nat → α) (b : Nat → Int) (c : Nat → α) : Prop :=
  ∀ k, k < n → (0 : α) ≤ a k ∧ 0 < b k ∧ (0 : α) ≤ c k

/-- the nine `SDevice` setters, in the order the keyword arguments are applied (`c1` before `c2`). -/
def accSParams (q : SParams α) : Prop :=
  (0 : α) ≤ q.c1 ∧ (0 : α) ≤ q.c2 ∧ ¬ (q.c1 < q.c2 ∧ (0 : α) < q.c1) ∧ (0 : α) ≤ q.c3
  ∧ (0 : α) < q.capacity
  ∧ ((0 : α) ≤ q.damageDepth ∧ q.damageDepth ≤ 1)
  ∧ ((0 : α) ≤ q.start ∧ q.start ≤ 1)
  ∧ ((0 : α) ≤ q.reserve ∧ q.reserve ≤ 1)
  ∧ ((0 : α) < q.efficiency ∧ q.efficiency ≤ 1)
  ∧ ((0 : α) < q.sustainment ∧ q.sustainment ≤ 1)

/-- the scalar checks of `TDevice.__init__`. -/
def accTParams (n : Nat) (q : TParams α) : Prop :=
  ((0 : α) ≤ q.sustainment ∧ q.sustainment ≤ 1) ∧ ¬ (q.efficiency = 0) ∧ (0 : α) ≤ q.tRange
  ∧ ∀ k, k < n → (0 : α) ≤ q.c k

/-- `Device.cbounds` setter (`set_cbound`): a non-empty slot range inside the horizon, `low < high`, and
feasibility with respect to the per-slot bounds. -/
def accCBound (n : Nat) (lb hb : Nat → α) (cb : CBound α) : Prop :=
  cb.s < cb.e ∧ cb.e ≤ n ∧ cb.l < cb.h ∧ sliceSum n cb.s cb.e lb ≤ cb.h ∧ cb.l ≤ sliceSum n cb.s cb.e hb

def accCBounds (n : Nat) (lb hb : Nat → α) (cbs : List (CBound α)) : Prop :=
  ∀ cb ∈ cbs, accCBound n lb hb cb

/-- consecutive ranges are contiguous (`RangesFunction._validate_ranges`). -/
def contiguous : List (CBound α) → Bool
  | a :: b :: rest => a.e == b.s && contiguous (b :: rest)
  | _ => true

/-- `CDevice2.__init__`: a single cumulative bound takes the whole-vector branch; several must tile `[0, len)`. -/
def accRanges (n : Nat) (cbs : List (CBound α)) : Prop :=
  match cbs with
  | [] => True
  | [_] => True
  | c :: rest => c.s = 0 ∧ contiguous (c :: rest) = true ∧ ((c :: rest).getLast?.map (·.e)) = some n

instance (n : Nat) (lb hb : Nat → α) (cb : CBound α) : Decidable (accCBound n lb hb cb) := by
  unfold accCBound; infer_instance
instance (n : Nat) (lb hb : Nat → α) (cbs : List (CBound α)) : Decidable (accCBounds n lb hb cbs) := by
  unfold accCBounds; infer_instance
instance (n : Nat) (cbs : List (CBound α)) : Decidable (accRanges n cbs) := by
  unfold accRanges; split <;> infer_instance

instance (n : Nat) (lb hb : Nat → α) : Decidable (accBounds n lb hb) := by unfold accBounds; infer_instance
instance (n : Nat) (hb : Nat → α) : Decidable (accProducer n hb) := by unfold accProducer; infer_instance
instance (n : Nat) (pl ph : Nat → α) : Decidable (accHLQ n pl ph) := by unfold accHLQ; infer_instance
instance (n : Nat) (a : Nat → α) (b : Nat → Int) (c : Nat → α) : Decidable (accABC n a b c) := by
  unfold accABC; infer_instance
instance (q : SParams α) : Decidable (accSParams q) := by unfold accSParams; infer_instance
instance (n : Nat) (q : TParams α) : Decidable (accTParams n q) := by unfold accTParams; infer_instance

namespace Leaf

/-- the scalar acceptance conditions of a shipped leaf (`isProducer`: `PVDevice`, `GDevice`). -/
def Accepted (d : Leaf α) (isProducer : Bool) : Prop :=
  accBounds d.n d.lb d.hb ∧ (isProducer = true → accProducer d.n d.hb) ∧ accCBounds d.n d.lb d.hb d.cbs ∧
  (match d.kind with
   | .device => True
   | .cdevice a _ => a ≤ 0
   | .cdevice2 pl ph => accHLQ 1 (fun _ => pl) (fun _ => ph) ∧ accRanges d.n d.cbs
   | .idevice a b c => accABC d.n a b c
   | .idevice2 pl ph => accHLQ d.n pl ph
   | .gdevice _ => True
   | .sdevice q => accSParams q
   | .tdevice q => accTParams d.n q
   | .adevice _ => True)

instance (d : Leaf α) (p : Bool) : Decidable (d.Accepted p) := by
  unfold Accepted
  cases d.kind <;> infer_instance

end Leaf
end
end DK
