import DK.Model.Leaf
/-!
# Analytic second derivatives of the storage and thermal device costs

The source differentiates these two classes *numerically*
(`SDevice.hess = nd.Hessian(cost(·, 0))`, sdevice.py:61-63;
`TDevice.hess = np.diag(nd.Hessdiag(cost(·, 0)))`, tdevice.py:86-90), so `Leaf.hess` answers
`none` for them.  This file gives what those numeric Hessians approximate: the closed-form Jacobian
of the modelled marginal costs `sdevDeriv` / `tdevDeriv` (`DK/Model/Leaf.lean`), written over the same
generic scalar so that the driver can evaluate it exactly (`hess2.leaf`) and `DK.Props.C14b` can prove
it is the derivative.
-/
namespace DK
section
variable {α : Type} [Add α] [Sub α] [Mul α] [Div α] [Neg α]
  [OfNat α 0] [OfNat α 1] [OfNat α 2]
  [LT α] [LE α] [DecidableEq α] [DecidableLT α] [DecidableLE α]

/-! ## Storage -/

/-- `1` when slot `k` is charged strictly below the damage depth (the shortfall is active), else `0`:
the derivative of `min(u, 0)` at `u = charge_at_k − capacity·depth ≠ 0`. -/
def shortfallActive (q : SParams α) (r : Nat → α) (k : Nat) : α :=
  if chargeAt q r k - q.capacity * q.damageDepth < 0 then 1 else 0

/-- sensitivity of the state of charge of slot `k` to the flow of slot `i`:
`∂ charge_at_k / ∂ r_i = s^{k-i} · e^{sign r_i}` (for `i ≤ k`, else `0`). -/
def chargeSens (q : SParams α) (r : Nat → α) (k i : Nat) : α :=
  susW q.sustainment k i * effPow q.efficiency (r i)

/-- second derivative of `sdevCost` (= Jacobian of `sdevDeriv`), entry `(i, j)`:
* rate term `c1·r_i²`: `2·c1` on the diagonal;
* flip-flop term `−c2·r_i·r_{i+1}`: `−c2` on the two off-diagonals `j = i ± 1`
  (entries are only ever read for `i, j < n`, so "inside the horizon" is implicit);
* deep-discharge term `c3·min(u_k, 0)²`: `Σ_k 2·c3·[u_k < 0]·(∂u_k/∂r_i)·(∂u_k/∂r_j)`.
Valid away from `u_k = 0` and (for lossy storage) `r_i = 0`: see `DK.C14b.NoKink2`. -/
def sdevHess (n : Nat) (q : SParams α) (s : Nat → α) (i j : Nat) : α :=
  (if i = j then q.c1 * 2 else 0)
  + ((if i + 1 = j then q.c2 * (-1 : α) else 0) + (if j + 1 = i then q.c2 * (-1 : α) else 0))
  + sumTo n (fun k => q.c3 * 2 * shortfallActive q s k * chargeSens q s k i * chargeSens q s k j)

/-! ## Thermal -/

/-- second derivative of the slot temperature cost `ABCCost(0, 2, c, t_min, t_optimal)` with respect to
the temperature: `ABCCost._hess` at `a = 0, b = 2`; in closed form `2·c_i / t_range²`, and `0` for
`t_range = 0` (`DK.tSlotHess_eq`).  It does not depend on the temperature `t`. -/
def tSlotHess (q : TParams α) (t : α) (i : Nat) : α :=
  abcHess ipow intCast' t 0 2 (q.c i) (q.tOptimal - q.tRange) q.tOptimal

/-- second derivative of `tdevCost` (= Jacobian of `tdevDeriv`), entry `(i, j)`:
`Σ_k cost_k'' · (∂t_k/∂r_i)·(∂t_k/∂r_j)` with `∂t_k/∂r_i = efficiency · s^{k-i}`. -/
def tdevHess (n : Nat) (q : TParams α) (s : Nat → α) (i j : Nat) : α :=
  sumTo n (fun k => tSlotHess q (r2t q s k) k
    * (q.efficiency * susW q.sustainment k i) * (q.efficiency * susW q.sustainment k j))

/-- the diagonal of `tdevHess`: what `TDevice.hess` (a documented *diagonal* approximation) reports. -/
def tdevHessDiag (n : Nat) (q : TParams α) (s : Nat → α) (i : Nat) : α := tdevHess n q s i i

/-! ## Leaves -/

/-- the analytic Hessian of every leaf class: `Leaf.hess` where the source has a closed form, the
analytic second derivative above where the source differentiates numerically. -/
def Leaf.hess2 (d : Leaf α) (s : Nat → α) (i j : Nat) : Option α :=
  match d.kind with
  | .sdevice q => some (sdevHess d.n q s i j)
  | .tdevice q => some (tdevHess d.n q s i j)
  | _ => d.hess s i j

end
end DK
