import DK.Model.Basic
/-!
# Scalar kernels of `device_kit/functions.py`

`HLQuadraticCost._cost/_deriv/_hess` and `ABCCost.s/q/_cost/_deriv/_hess`,
written by hand in the algebraic form the proofs use.  `DK/Gen/Kernels.lean` is the
mechanical translation of the *current* Python source; `DK/Lemmas/Bridge.lean`
proves the two equal, so every theorem about these definitions is re-checked
against what the code says now.

Exponents: the power operation and the embedding of an exponent into the scalars
are parameters (`pow : α → ε → α`, `cast : ε → α`).  The driver runs `ε = Int`
with exact rational powers; the theorems use `ε = ℝ` with `Real.rpow`.
-/
namespace DK
section
variable {α : Type} [Add α] [Sub α] [Mul α] [Div α] [Neg α]
  [OfNat α 0] [OfNat α 1] [OfNat α 2]
  [LT α] [LE α] [DecidableEq α] [DecidableLT α] [DecidableLE α]

/-! ## High/low quadratic: marginal cost `p_l` at `x_l`, `p_h` at `x_h`, linear between -/

/-- `HLQuadraticCost._cost` (after the `p_l = p_h` repair: offset `0` when the curve is linear). -/
def hlqCost (pl ph xl xh x : α) : α :=
  if xl = xh then 0 else
    let a := (ph - pl) / 2
    let t := (x - xl) / (xh - xl)
    let c := if a = 0 then 0 else a * ((-pl) / (2 * a)) * ((-pl) / (2 * a)) + pl * ((-pl) / (2 * a))
    (xh - xl) * (a * t * t + pl * t) - c * (xh - xl)

/-- `HLQuadraticCost._deriv`. -/
def hlqDeriv (pl ph xl xh x : α) : α :=
  if xl = xh then 0 else (ph - pl) * ((x - xl) / (xh - xl)) + pl

/-- `HLQuadraticCost._hess`. -/
def hlqHess (pl ph xl xh : α) : α :=
  if xl = xh then 0 else (ph - pl) / (xh - xl)

/-! ## ABC cost: `c · q^b`, `q` falling linearly from `1` at `x_l` to `a` at `x_h` -/

/-- `ABCCost.s`. -/
def abcS (x xl xh : α) : α := (xh - x) / (xh - xl)

/-- `ABCCost.q`. -/
def abcQ (x xl xh a : α) : α := (1 - abcS x xl xh) * a + abcS x xl xh

variable {ε : Type} [Sub ε] [OfNat ε 1] [OfNat ε 2]

/-- `ABCCost._cost`. -/
def abcCost (pow : α → ε → α) (x a : α) (b : ε) (c xl xh : α) : α :=
  if xl = xh then 0 else c * pow (abcQ x xl xh a) b

/-- `ABCCost._deriv` (with the chain-rule factor `dq/dx = -(1-a)/(x_h-x_l)`). -/
def abcDeriv (pow : α → ε → α) (cast : ε → α) (x a : α) (b : ε) (c xl xh : α) : α :=
  if xl = xh then 0 else -c * cast b * pow (abcQ x xl xh a) (b - 1) * (1 - a) / (xh - xl)

/-- `ABCCost._hess` (zero for a zero-width slot and for the linear curve `b = 1`). -/
def abcHess (pow : α → ε → α) (cast : ε → α) (x a : α) (b : ε) (c xl xh : α) : α :=
  if xl = xh ∨ cast b = 1 then 0 else
    c * cast b * (cast b - 1) * pow (abcQ x xl xh a) (b - 2) * (((1 - a) / (xh - xl)) * ((1 - a) / (xh - xl)))

end
end DK
