import DK.Model.Leaf
/-!
# Analytic model of the numerically differentiated preference functions of `device_kit/functions.py`

`InformationEntropy`, `TemporalVariance` and `CobbDouglas` (functions.py:249-318) compute their value in
closed form but return `nd.Jacobian(...)` / `nd.Hessian(...)` of that value as `deriv` / `hess`.  This file
gives what those numeric derivatives approximate.

* `TemporalVariance` is rational, so it is written over the generic scalar like every other model file:
  executable at `XRat` by the driver (`fnnd.*` ops; a zero total flow makes the centre of mass — and
  everything computed from it — `undef`, which is the open finding "TemporalVariance raises
  ZeroDivisionError on a zero-sum flow"), and the subject of `DK.C01nd.tvar_grad` / `tvar_hess` at `ℝ`.
* `CobbDouglas` / `InformationEntropy` need real powers / logarithms: their model (`cobbCost`,
  `entropyCost`, with gradients) is stated at `ℝ` only, in `DK/Lemmas/FnNd.lean`.  Only `prodTo`, the
  structural product they use, lives here.

Python (functions.py:290-298):
```
inertia(r) = (((t - com(r))**2)*r).sum()         t = np.arange(len(r))
com(r)     = np.average(np.arange(len(r)), weights=r) = (t*r).sum() / r.sum()
```
-/
namespace DK

section
variable {α : Type} [Add α] [Sub α] [Mul α] [Div α] [Neg α]
  [OfNat α 0] [OfNat α 1] [OfNat α 2]
  [LT α] [LE α] [DecidableEq α] [DecidableLT α] [DecidableLE α]

/-- `prodTo n f = f 0 * … * f (n-1)` (numpy `.prod()` over a length-`n` vector). -/
def prodTo : Nat → (Nat → α) → α
  | 0, _ => 1
  | n+1, f => prodTo n f * f n

/-- total flow `r.sum()` (the "mass"). -/
def tvarMass (n : Nat) (r : Nat → α) : α := sumTo n r

/-- centre of mass `np.average(arange(n), weights=r) = (Σ i·r_i) / (Σ r_i)`; undefined for a zero total. -/
def tvarCom (n : Nat) (r : Nat → α) : α := sumTo n (fun i => natCast' i * r i) / tvarMass n r

/-- `TemporalVariance(c)(r) = c · Σ_i (i − com r)² · r_i`. -/
def tvarCost (c : α) (n : Nat) (r : Nat → α) : α :=
  c * sumTo n (fun i => (natCast' i - tvarCom n r) * (natCast' i - tvarCom n r) * r i)

/-- analytic gradient: `∂/∂r_k = c · (k − com r)²`.  (The term through `com` is
`−2·(∂com/∂r_k)·Σ_i (i − com)·r_i`, and `Σ_i (i − com)·r_i = Σ i·r_i − com·Σ r_i = 0`.) -/
def tvarGrad (c : α) (n : Nat) (r : Nat → α) (k : Nat) : α :=
  c * ((natCast' k - tvarCom n r) * (natCast' k - tvarCom n r))

/-- analytic Hessian: `∂²/∂r_k∂r_l = −2c · (k − com)(l − com) / Σ r`
(from `∂com/∂r_l = (l − com)/Σ r`). Rank one, negative semidefinite for `c, Σ r > 0`. -/
def tvarHess (c : α) (n : Nat) (r : Nat → α) (k l : Nat) : α :=
  (-(2 : α)) * c * ((natCast' k - tvarCom n r) * (natCast' l - tvarCom n r)) / tvarMass n r

/-! ## `ADevice(f = TemporalVariance(c))` (adevice.py:11-21: `f(s) + (s*p).sum()`, `f.deriv(s) + p`, `f.hess(s)`) -/

def adevTvarCost (c : α) (n : Nat) (s p : Nat → α) : α := tvarCost c n s + priceTerm n s p
def adevTvarDeriv (c : α) (n : Nat) (s p : Nat → α) (k : Nat) : α := tvarGrad c n s k + p k

end
end DK
