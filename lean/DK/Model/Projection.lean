import DK.Model.Tree
/-!
# Projection onto convex regions (projection/projection.py) and device-level projection
(device.py:178-192, deviceset.py:184-186, mfdeviceset.py:88-95)

Core Lean only, generic over the scalar type (run at `XRat` by the driver, proved about at `ℝ`).
A point of a vector region is `Nat → α` read at indices `< n`; a point of a `List` region is a
matrix `Mat α` (row, column).  What the code *raises* is modelled with `Except PErr`:
`ValueError` (length / shape / constructor checks) and the bare `Exception` of
`dykstra_project` at `maxiter`.

The building blocks (`cubeProj`, `halfspaceProj`, `sliceProj`, `listProj`, `interProj`, `isIn`)
are plain functions; the deep embeddings `VRegion` / `MRegion` compose them exactly as the classes
delegate to each other (which `is_in` override is used where, where lengths are checked).
-/
namespace DK
section
variable {α : Type} [Add α] [Sub α] [Mul α] [Div α] [Neg α]
  [OfNat α 0] [OfNat α 1] [OfNat α 2]
  [LT α] [LE α] [DecidableEq α] [DecidableLT α] [DecidableLE α]

/-- what `project` / `is_in` / the constructors raise. -/
inductive PErr where
  | valueError   -- `raise ValueError(...)`
  | maxiter      -- `raise Exception("Dykstra's reached maxiter ...")`
deriving DecidableEq, Repr, Inhabited

/-- squared Euclidean distance of two length-`n` vectors. -/
def dist2 (n : Nat) (p q : Nat → α) : α := sumTo n (fun i => (p i - q i) * (p i - q i))

/-- squared Frobenius distance of two `R × C` matrices. -/
def mdist2 (R C : Nat) (P Q : Mat α) : α := sumTo R (fun r => dist2 C (P r) (Q r))

/-- `np.abs`. -/
def absv (x : α) : α := if x < 0 then -x else x

/-- `(np.abs(a - b) <= tol).all()` over a length-`n` vector. -/
def closeTo (n : Nat) (tol : α) (a b : Nat → α) : Bool :=
  (List.range n).all (fun i => absv (a i - b i) ≤ tol)

/-- the same over an `R × C` matrix. -/
def mcloseTo (R C : Nat) (tol : α) (A B : Mat α) : Bool :=
  (List.range R).all (fun r => closeTo C tol (A r) (B r))

/-- `ConvexRegion.is_in` (projection.py:15-16): the point moves by at most `tol` in every
coordinate when projected. -/
def isIn (n : Nat) (tol : α) (proj : (Nat → α) → Nat → α) (p : Nat → α) : Bool :=
  closeTo n tol (proj p) p

/-! ## HyperCube (projection.py:22-40) -/

/-- `[max(lo_i, min(hi_i, p_i)) for i]`. -/
def cubeProj (lo hi p : Nat → α) : Nat → α := fun i => clamp (lo i) (hi i) (p i)

/-! ## HalfSpace (projection.py:43-86)

The constructor stores `n̂ = normal/‖normal‖` and `ô = offset/‖normal‖` and `project` computes
`p + n̂·(ô − n̂·p)` when `sign > 0 ∧ n̂·p < ô` or `sign < 0 ∧ n̂·p > ô`.  The model uses the
algebraically equal square-root-free form `p + normal·(o − normal·p)/‖normal‖²` with the test on
`normal·p` vs `o` (equivalent because `‖normal‖ > 0`); `DK.C18.halfspace_sqrt_form` proves the
two equal over `ℝ`.  For a zero normal the code's `n̂`, `ô` are NaN / ±inf, every comparison is
`False` and the point is returned unchanged: the guard `nn = 0`. -/
def halfspaceProj (n : Nat) (nrm : Nat → α) (o sign : α) (p : Nat → α) : Nat → α :=
  let nn := dot n nrm nrm
  let d := dot n nrm p
  if nn = 0 then p
  else if ((0 : α) < sign ∧ d < o) ∨ (sign < (0 : α) ∧ o < d) then
    fun i => p i + nrm i * ((o - d) / nn)
  else p

/-! ## Slice (projection.py:89-113): `low ≤ normal·x ≤ high` -/

/-- `Slice.project`: `if low.is_in(p): return high.project(p) else: return low.project(p)` with
`low = HalfSpace(normal, lo, 1)`, `high = HalfSpace(normal, hi, -1)`. -/
def sliceProj (n : Nat) (tol : α) (nrm : Nat → α) (lo hi : α) (p : Nat → α) : Nat → α :=
  if isIn n tol (halfspaceProj n nrm lo 1) p then halfspaceProj n nrm hi (-1) p
  else halfspaceProj n nrm lo 1 p

/-- `Slice.is_in`: `low.is_in(p) and high.is_in(p)`. -/
def sliceIsIn (n : Nat) (tol : α) (nrm : Nat → α) (lo hi : α) (p : Nat → α) : Bool :=
  isIn n tol (halfspaceProj n nrm lo 1) p && isIn n tol (halfspaceProj n nrm hi (-1)) p

/-! ## List (projection.py:165-200): one region per row (axis 0) or per column (axis 1) -/

/-- region `k` of the list acts on row `k` (axis 0) or on column `k` (axis 1) of the matrix.
`projs k` is the projection of region `k`.  The code assigns into a copy of the point
(`np.array(point)`), row by row; the rows/columns are disjoint, so the order is immaterial. -/
def listProj (axis : Nat) (projs : Nat → (Nat → α) → Nat → α) (P : Mat α) : Mat α :=
  if axis = 0 then fun r c => projs r (P r) c
  else fun r c => projs c (fun r' => P r' c) r

/-! ## Intersection (projection.py:116-163), generic in the carrier `X` (vectors or matrices) -/
section inter
variable {X : Type} (add sub : X → X → X) (close : X → X → Bool)
  (Pa Pb : X → Except PErr X) (inA inB : X → Except PErr Bool)

/-- the loop test `not ((np.abs(x - y) <= self.tol).all() and a.is_in(x))` (short-circuiting);
`close x y` is the carrier's `(np.abs(x - y) <= tol).all()`. -/
def dykTest (y x : X) : Except PErr Bool := do
  if close x y then
    if (← inA x) then pure false else pure true
  else pure true

/-- the `while` loop of `dykstra_project`, entered before an iteration with counter `c`.
One iteration is `y = a.project(x+p); p = x+p-y; x = b.project(y+q); q = y+q-x; c += 1`; the loop
continues while `c < maxiter and not ((np.abs(x - y) <= tol).all() and a.is_in(x))`: it stops
when the two iterates *agree* within `tol` (Dykstra's invariant makes a common value of the two
iterates the nearest point of `a ∩ b`: `DK.C18.dykstra_fixed_point_optimal`; both iterates
merely being feasible is not enough) and the b-side iterate `x`, the value that is returned, is
(tolerance-)in `a` (it is in `b` by construction).  The first iteration is unconditional
(`isinstance(y, int)` short-circuits the `or`).  After the loop `c == maxiter` raises, otherwise
`x` is returned.  `fuel` only makes the recursion structural: `maxiter + 1` is always enough. -/
def dykLoop (M : Nat) : Nat → Nat → X → X → X → Except PErr X
  | 0, _, _, _, _ => throw .maxiter
  | fuel + 1, c, x, p, q => do
    let y ← Pa (add x p)
    let p' := sub (add x p) y
    let x' ← Pb (add y q)
    let q' := sub (add y q) x'
    let c' := c + 1
    let cont ← (if c' < M then dykTest close inA y x' else pure false)
    if cont then dykLoop M fuel c' x' p' q'
    else if c' = M then throw .maxiter
    else pure x'

/-- `Intersection.dykstra_project` (`y = p = q = c = 0`: `zero` is the additive zero of `X`). -/
def dykstraProj (M : Nat) (zero : X) (point : X) : Except PErr X :=
  dykLoop add sub close Pa Pb inA M (M + 1) 0 point zero zero

/-- `Intersection.project`: two shortcuts, then Dykstra. -/
def interProj (M : Nat) (zero : X) (p : X) : Except PErr X := do
  let pa ← Pa p
  if (← inB pa) then pure pa
  else
    let pb ← Pb p
    if (← inA pb) then pure pb
    else dykstraProj add sub close Pa Pb inA M zero p

/-- `Intersection.is_in`: `a.is_in(p) and b.is_in(p)`. -/
def interIsIn (p : X) : Except PErr Bool := do
  if (← inA p) then inB p else pure false
end inter

/-! Carriers.  The loop state of Dykstra's algorithm is kept as *data* (`List α`, `List (List α)`)
rather than as closures `Nat → α`: a closure would be re-evaluated at every read, which is
exponential in the number of iterations when the model is executed. -/
def toL (m : Nat) (f : Nat → α) : List α := (List.range m).map f
def ofL (l : List α) : Nat → α := fun i => l.getD i 0
def ladd (a b : List α) : List α := List.zipWith (· + ·) a b
def lsub (a b : List α) : List α := List.zipWith (· - ·) a b
def toLL (r c : Nat) (F : Mat α) : List (List α) := (List.range r).map (fun i => toL c (F i))
def ofLL (l : List (List α)) : Mat α := fun r c => (l.getD r []).getD c 0
/-- `(np.abs(a - b) <= tol).all()` on the list carriers. -/
def lclose (tol : α) (a b : List α) : Bool := (List.zipWith (fun u v => decide (absv (u - v) ≤ tol)) a b).all id
def llclose (tol : α) (a b : List (List α)) : Bool := (List.zipWith (lclose tol) a b).all id
def lladd (a b : List (List α)) : List (List α) := List.zipWith ladd a b
def llsub (a b : List (List α)) : List (List α) := List.zipWith lsub a b

/-! ## the classes, composed -/

/-- regions whose points are vectors. -/
inductive VRegion (α : Type) where
  | cube (n : Nat) (lo hi : Nat → α)
  | half (n : Nat) (nrm : Nat → α) (o sign : α)
  | slice (n : Nat) (nrm : Nat → α) (lo hi : α)
  | inter (a b : VRegion α)

/-- `__len__`. -/
def VRegion.len : VRegion α → Nat
  | .cube n _ _ => n
  | .half n _ _ _ => n
  | .slice n _ _ _ => n
  | .inter a _ => a.len

/-- what the constructors reject with `ValueError`: `sign == 0`, `low > high`, intersections of
regions of different lengths. -/
def VRegion.ctorOk : VRegion α → Bool
  | .cube _ _ _ => true
  | .half _ _ _ sign => !(sign = 0)
  | .slice _ _ lo hi => !(hi < lo)
  | .inter a b => a.ctorOk && b.ctorOk && a.len = b.len

/- `region.project(point)` and `region.is_in(point)` for a point of length `m`; `tol` is
`ConvexRegion.tol`, `M` is `Intersection._maxiter`.  `HyperCube` / `HalfSpace` use the inherited
`is_in` (`|project(p) − p| ≤ tol` everywhere), `Slice` and `Intersection` override it with the
conjunction of their two parts.  Every `project` first checks `len(point)`. -/
mutual
def VRegion.project (tol : α) (M : Nat) : VRegion α → Nat → (Nat → α) → Except PErr (Nat → α)
  | .cube n lo hi, m, p => if m ≠ n then throw .valueError else pure (cubeProj lo hi p)
  | .half n nrm o sign, m, p => if m ≠ n then throw .valueError else pure (halfspaceProj n nrm o sign p)
  | .slice n nrm lo hi, m, p => if m ≠ n then throw .valueError else pure (sliceProj n tol nrm lo hi p)
  | .inter a b, m, p =>
      (interProj ladd lsub (lclose tol)
        (fun x => (VRegion.project tol M a m (ofL x)).map (toL m))
        (fun x => (VRegion.project tol M b m (ofL x)).map (toL m))
        (fun x => VRegion.isIn tol M a m (ofL x)) (fun x => VRegion.isIn tol M b m (ofL x))
        M (List.replicate m 0) (toL m p)).map ofL
def VRegion.isIn (tol : α) (M : Nat) : VRegion α → Nat → (Nat → α) → Except PErr Bool
  | .cube n lo hi, m, p => if m ≠ n then throw .valueError else pure (DK.isIn n tol (cubeProj lo hi) p)
  | .half n nrm o sign, m, p => if m ≠ n then throw .valueError else pure (DK.isIn n tol (halfspaceProj n nrm o sign) p)
  | .slice n nrm lo hi, m, p => if m ≠ n then throw .valueError else pure (sliceIsIn n tol nrm lo hi p)
  | .inter a b, m, p => interIsIn (fun x => VRegion.isIn tol M a m x) (fun x => VRegion.isIn tol M b m x) p
end

/-- regions whose points are matrices: `List` and intersections of such. -/
inductive MRegion (α : Type) where
  | list (axis : Nat) (rs : List (VRegion α))
  | inter (a b : MRegion α)

/-- `List._shape`: `(r, l) if axis == 0 else (l, r)` with `l = len(regions[0])`, `r = len(regions)`. -/
def listShape (axis : Nat) (rs : List (VRegion α)) : Nat × Nat :=
  let l := match rs with | [] => 0 | r :: _ => r.len
  if axis = 0 then (rs.length, l) else (l, rs.length)

def MRegion.len : MRegion α → Nat
  | .list axis rs => (listShape axis rs).1 * (listShape axis rs).2
  | .inter a _ => a.len

/-- `axis not in (0, 1)` raises `ValueError`; an empty list of regions fails too (`regions[0]`). -/
def MRegion.ctorOk : MRegion α → Bool
  | .list axis rs => decide (axis < 2) && !rs.isEmpty && rs.all VRegion.ctorOk
  | .inter a b => a.ctorOk && b.ctorOk && a.len = b.len

/-- the loop of `List.project`: region `k`, `k+1`, … each project their row / column (of length
`l`); the first failure is what is raised. -/
def projLines (tol : α) (M : Nat) (axis l : Nat) : List (VRegion α) → Nat → Mat α → Except PErr (List (Nat → α))
  | [], _, _ => pure []
  | r :: rs, k, P => do
      let v ← r.project tol M l (if axis = 0 then P k else fun r' => P r' k)
      let vs ← projLines tol M axis l rs (k + 1) P
      pure (v :: vs)

/-- the projected lines written back as rows (axis 0) or columns (axis 1). -/
def linesToMat (axis : Nat) (vs : List (Nat → α)) : Mat α :=
  listProj axis (fun k _ => vs.getD k (fun _ => 0)) (fun _ _ => 0)

mutual
def MRegion.project (tol : α) (M : Nat) : MRegion α → Nat → Nat → Mat α → Except PErr (Mat α)
  | .list axis rs, m1, m2, P =>
      if (m1, m2) ≠ listShape axis rs then throw .valueError
      else do
        let vs ← projLines tol M axis (if axis = 0 then m2 else m1) rs 0 P
        pure (linesToMat axis vs)
  | .inter a b, m1, m2, P =>
      (interProj lladd llsub (llclose tol)
        (fun x => (MRegion.project tol M a m1 m2 (ofLL x)).map (toLL m1 m2))
        (fun x => (MRegion.project tol M b m1 m2 (ofLL x)).map (toLL m1 m2))
        (fun x => MRegion.isIn tol M a m1 m2 (ofLL x)) (fun x => MRegion.isIn tol M b m1 m2 (ofLL x))
        M (List.replicate m1 (List.replicate m2 0)) (toLL m1 m2 P)).map ofLL
def MRegion.isIn (tol : α) (M : Nat) : MRegion α → Nat → Nat → Mat α → Except PErr Bool
  | .list axis rs, m1, m2, P => do
      let Q ← (if (m1, m2) ≠ listShape axis rs then throw .valueError
               else do
                 let vs ← projLines tol M axis (if axis = 0 then m2 else m1) rs 0 P
                 pure (linesToMat axis vs) : Except PErr (Mat α))
      pure (mcloseTo m1 m2 tol Q P)
  | .inter a b, m1, m2, P => interIsIn (fun x => MRegion.isIn tol M a m1 m2 x) (fun x => MRegion.isIn tol M b m1 m2 x) P
end

/-! ## device level -/

/-- `Device.project` (device.py:178-192): `HyperCube(self.bounds).project(s.reshape(len(self)))`
reshaped to `(1, n)`; `size` is the number of entries of the input (flat or shaped), a wrong
size makes `reshape` raise `ValueError`.  Cumulative bounds are *not* used (the code has the
`Intersection(region, Slice(...))` lines commented out). -/
def deviceProject (n : Nat) (lb hb : Nat → α) (size : Nat) (s : Nat → α) : Except PErr (Nat → α) :=
  if size ≠ n then throw .valueError else pure (cubeProj lb hb s)

/-- `MFDeviceSet.project` (mfdeviceset.py:88-95): the wrapped device projects the column sums,
the result is split equally over the `k` conduits (`np.repeat(s/k, k, axis=0)`). -/
def mfProject (k : Nat) (lb hb : Nat → α) (S : Mat α) : Mat α :=
  fun _ i => cubeProj lb hb (colSum k S) i / natCast' k

/-- what the `project` method of a block computes. -/
inductive BlockProj (α : Type) where
  | device (lb hb : Nat → α)
  | mf (k : Nat) (lb hb : Nat → α)

def BlockProj.run : BlockProj α → Mat α → Mat α
  | .device lb hb, S => fun _ i => cubeProj lb hb (S 0) i
  | .mf k lb hb, S => mfProject k lb hb S

/- `DeviceSet.project` (deviceset.py:184-186): `np.vstack([d.project(s[off:off+rows, :]) …])`,
recursively.  `bp off b` is the projection of the block `b` whose first row is the absolute row
`off` of the root (blocks are abstract in `Tree`, so their projection is a parameter; the
absolute offset identifies the block). -/
mutual
def Tree.project (bp : Nat → Block α → Mat α → Mat α) : Tree α → Nat → Mat α → Mat α
  | .block b, off, S => bp off b S
  | .node _ _ cs, off, S => projectL bp cs off S
def projectL (bp : Nat → Block α → Mat α → Mat α) : List (Tree α) → Nat → Mat α → Mat α
  | [], _, _ => fun _ _ => 0
  | t :: ts, off, S => fun r i =>
      if r < t.rows then t.project bp off S r i
      else projectL bp ts (off + t.rows) (shiftRows t.rows S) (r - t.rows) i
end

/-- the root call: `s.reshape(self.shape)` raises `ValueError` unless the input has `rows·n`
entries. -/
def setProject (bp : Nat → Block α → Mat α → Mat α) (t : Tree α) (n size : Nat) (S : Mat α) :
    Except PErr (Mat α) :=
  if size ≠ t.rows * n then throw .valueError else pure (t.project bp 0 S)

end
end DK
