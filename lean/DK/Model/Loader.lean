import DK.Model.Leaf
/-!
# DK.Model.Loader — the scenario helpers (C20)

Model of `device_kit/loaders/builder_loader.py` (`run_to_array`, `run_to_cbounds_array`, the
per-kind `load_*_device`, `load_cbounds`, `load_cost_function`, `_reshape_offset_quad_coeffs`,
`load_data`) and of `device_kit/utils.py` `care2bounds` / `on2bounds`, following the code as it is
(file:line in the doc-strings refers to `/repo/device_kit`).  Core Lean only.

A *run dictionary* `{'basis': n, 'runs': {'<start>': value, …}}` is a list of `(start, value)` in the
dictionary's insertion order.  Two layers:

* a **generic layer** over an arbitrary value type `V` (`sortRuns`, `fillRuns`, `runToArray`,
  `cboundsOf`): the loop of `run_to_array` read as "assign the value to the slice `[start, next)`";
  this is what the theorems of `DK/Props/C20.lean` are about;
* a **numpy layer** over `RunVal α` (a scalar or a list): the shape decided by the template
  `runs['0']` and numpy's broadcasting in `_array[s:e] = value` (`runToArrayNp`); for homogeneous
  runs it coincides with the generic layer (`DK.Loader.runToArrayNp_homogeneous`).

Domain restrictions (stated, not hidden): keys are canonical non-negative decimal integers (so
starts are `Nat`, distinct in a well-formed dictionary, and "the key `'0'`" is "a run starting at 0");
a device's runs carry the same `basis` as the export (otherwise `LoadErr.unmodelled`); device
`bounds` runs are 2-vectors (otherwise `unmodelled`); storage parameter *validators* are C11's
subject and not repeated here (the generator stays inside them).
-/
namespace DK.Loader
open DK

/-- the exception *types* the loader raises (compared by type only). `unmodelled` marks inputs
outside the modelled domain: the driver turns it into a protocol error, never into an answer. -/
inductive LoadErr where
  | keyError | valueError | typeError | indexError | exception | unmodelled
  deriving DecidableEq, Repr, Inhabited

/-! ## Generic layer -/
section generic
variable {V : Type}

/-- insert a run into a list sorted by start, *before* the first run whose start is not smaller
(so that folding from the right is a stable sort, as Python's `sorted`). -/
def insertRun (r : Nat × V) : List (Nat × V) → List (Nat × V)
  | [] => [r]
  | x :: xs => if r.1 ≤ x.1 then r :: x :: xs else x :: insertRun r xs

/-- `sorted(run['runs'].keys(), key=int)` (builder_loader.py:156,165) as a stable insertion sort. -/
def sortRuns : List (Nat × V) → List (Nat × V)
  | [] => []
  | r :: rs => insertRun r (sortRuns rs)

/-- `_array[s:e] = v` on a length-`basis` array (Python slices clip at the array length). -/
def assignSlice (basis : Nat) (a : Nat → V) (s e : Nat) (v : V) : Nat → V :=
  fun t => if s ≤ t ∧ t < e ∧ t < basis then v else a t

/-- the loop of `run_to_array` (builder_loader.py:157-159) over the sorted points:
`e = int(points[i+1]) if i < len(points) - 1 else basis; _array[int(v):e] = runs[v]`. -/
def fillRuns (basis : Nat) : List (Nat × V) → (Nat → V) → Nat → V
  | [], a => a
  | [r], a => assignSlice basis a r.1 basis r.2
  | r :: r' :: rest, a => fillRuns basis (r' :: rest) (assignSlice basis a r.1 r'.1 r.2)

/-- is there a run starting at 0 (`run['runs']['0']`, builder_loader.py:153)? -/
def hasZero (runs : List (Nat × V)) : Bool := runs.any (fun r => r.1 == 0)

/-- `run_to_array` (builder_loader.py:152-160), value-generic: `KeyError` without the template
`runs['0']`, otherwise the zero array overwritten slice by slice. -/
def runToArray (basis : Nat) (zero : V) (runs : List (Nat × V)) : Except LoadErr (Nat → V) :=
  if hasZero runs then .ok (fillRuns basis (sortRuns runs) (fun _ => zero)) else .error .keyError

end generic

section
variable {α : Type}

/-- the loop of `run_to_cbounds_array` (builder_loader.py:166-169): `[l, h, int(v), e]`. -/
def cboundsOf (basis : Nat) : List (Nat × (α × α)) → List (CBound α)
  | [] => []
  | [r] => [⟨r.2.1, r.2.2, r.1, basis⟩]
  | r :: r' :: rest => ⟨r.2.1, r.2.2, r.1, r'.1⟩ :: cboundsOf basis (r' :: rest)

/-- `run_to_cbounds_array` on `(start, (l, h))` runs: note there is no `runs['0']` template here. -/
def runToCbounds (basis : Nat) (runs : List (Nat × (α × α))) : List (CBound α) :=
  cboundsOf basis (sortRuns runs)

/-- a run value as it comes out of JSON: a number or a list of numbers. -/
inductive RunVal (α : Type) where
  | num (x : α)
  | vec (xs : List α)

/-- a run dictionary. -/
structure Run (α : Type) where
  basis : Nat
  runs : List (Nat × RunVal α)

end

section
variable {α : Type} [Add α] [Sub α] [Mul α] [Div α] [Neg α]
  [OfNat α 0] [OfNat α 1] [OfNat α 2]
  [LT α] [LE α] [DecidableEq α] [DecidableLT α] [DecidableLE α]

/-! ## numpy layer: shape from the template, broadcasting on assignment -/

namespace RunVal
/-- `v[i]` with a default (callers guard the length). -/
def get (v : RunVal α) (i : Nat) : α :=
  match v with
  | .num x => x
  | .vec xs => xs.getD i 0

/-- `np.zeros(shape)` row for the template's shape (builder_loader.py:154-155). -/
def zeroLike : RunVal α → RunVal α
  | .num _ => .num 0
  | .vec ts => .vec (ts.map fun _ => 0)

/-- same shape as the template: scalar with scalar, or lists of equal length. -/
def sameShape : RunVal α → RunVal α → Bool
  | .num _, .num _ => true
  | .vec ts, .vec xs => ts.length == xs.length
  | _, _ => false
end RunVal

/-- can numpy broadcast `v` into a slice of `L` rows of the template's shape? -/
def npCheck (tmpl : RunVal α) (L : Nat) (v : RunVal α) : Bool :=
  match tmpl, v with
  | .num _, .num _ => true
  | .num _, .vec xs => xs.length == 1 || xs.length == L
  | .vec _, .num _ => true
  | .vec ts, .vec xs => xs.length == 1 || xs.length == ts.length

/-- the row stored at offset `j` of the slice by `_array[s:e] = v` (when `npCheck` holds):
a list assigned into a 1-D slice of the same length goes in *element-wise*. -/
def npAt (tmpl : RunVal α) (j : Nat) (v : RunVal α) : RunVal α :=
  match tmpl, v with
  | .num _, .num x => .num x
  | .num _, .vec [x] => .num x
  | .num _, .vec xs => .num (xs.getD j 0)
  | .vec ts, .num x => .vec (ts.map fun _ => x)
  | .vec ts, .vec [x] => .vec (ts.map fun _ => x)
  | .vec _, .vec xs => .vec xs

/-- the loop of `run_to_array` with numpy's assignment semantics. -/
def fillRunsNp (basis : Nat) (tmpl : RunVal α) :
    List (Nat × RunVal α) → (Nat → RunVal α) → Except LoadErr (Nat → RunVal α)
  | [], a => .ok a
  | r :: rest, a =>
    let e := match rest with | [] => basis | r' :: _ => r'.1
    let L := min e basis - min r.1 basis
    if npCheck tmpl L r.2 then
      fillRunsNp basis tmpl rest
        (fun t => if r.1 ≤ t ∧ t < e ∧ t < basis then npAt tmpl (t - r.1) r.2 else a t)
    else .error .valueError

/-- the template `run['runs']['0']`. -/
def template (runs : List (Nat × RunVal α)) : Option (RunVal α) :=
  (runs.find? (fun r => r.1 == 0)).map (·.2)

/-- `run_to_array(run)` (builder_loader.py:152-160): the template (shape) and the rows. -/
def runToArrayNp (run : Run α) : Except LoadErr (RunVal α × (Nat → RunVal α)) :=
  match template run.runs with
  | none => .error .keyError
  | some tmpl =>
    match fillRunsNp run.basis tmpl (sortRuns run.runs) (fun _ => tmpl.zeroLike) with
    | .ok a => .ok (tmpl, a)
    | .error e => .error e

/-- `[l, h] = run['runs'][v]` (builder_loader.py:167). -/
def cbPair : RunVal α → Except LoadErr (α × α)
  | .num _ => .error .typeError
  | .vec [l, h] => .ok (l, h)
  | .vec _ => .error .valueError

/-- `run_to_cbounds_array(run)` (builder_loader.py:163-170) on JSON values: unpacking errors come in
sorted order. -/
def runToCboundsNp (run : Run α) : Except LoadErr (List (CBound α)) := do
  let ps ← (sortRuns run.runs).mapM (fun r => do let p ← cbPair r.2; pure (r.1, p))
  pure (cboundsOf run.basis ps)

/-! ## `care2bounds` / `on2bounds` (utils.py:40-68) -/

/-- the `bounds` entry of the helper's input: a 2-tuple of scalars, a 2-tuple of vectors, or a
single vector ("assume bounds is a vector", utils.py:50,66). -/
inductive BoundsArg (α : Type) where
  | pair (lo hi : α)
  | pairVec (lo hi : Nat → α)
  | vector (v : Nat → α)

/-- `np.stack((m*bounds[0], m*bounds[1]), axis=1)` if `len(bounds) == 2` else
`np.stack((m*bounds, m*bounds), axis=1)` (utils.py:48-51, 64-67) for a mask `m` of length `n`.
A *vector* of length 2 (that is `n = 2`) takes the first branch — the code cannot tell it from a
2-tuple. -/
def maskBounds (n : Nat) (m : Nat → α) (b : BoundsArg α) : (Nat → α) × (Nat → α) :=
  match b with
  | .pair lo hi => (fun t => m t * lo, fun t => m t * hi)
  | .pairVec lo hi => (fun t => m t * lo t, fun t => m t * hi t)
  | .vector v =>
    if n = 2 then (fun t => m t * v 0, fun t => m t * v 1)
    else (fun t => m t * v t, fun t => m t * v t)

/-- `care2bounds(device)['bounds']`. -/
def care2bounds (n : Nat) (care : Nat → α) (b : BoundsArg α) : (Nat → α) × (Nat → α) :=
  maskBounds n care b

/-- the loop `for i in range(0, len(on), 2): on_vector[on[i]:on[i+1]+1] = 1` (utils.py:62-63);
an odd number of entries ends in `IndexError`. -/
def onVector (l : Nat) : List Nat → (Nat → α) → Except LoadErr (Nat → α)
  | [], a => .ok a
  | [_], _ => .error .indexError
  | s :: e :: rest, a => onVector l rest (fun t => if s ≤ t ∧ t < e + 1 ∧ t < l then 1 else a t)

/-- `on2bounds(device, l)['bounds']`. -/
def on2bounds (l : Nat) (on : List Nat) (b : BoundsArg α) : Except LoadErr ((Nat → α) × (Nat → α)) :=
  match onVector l on (fun _ => (0 : α)) with
  | .ok m => .ok (maskBounds l m b)
  | .error e => .error e

/-! ## bounds of a loaded device -/

/-- `(hbounds - lbounds >= 0).all()` of `validate_bounds` (basedevice.py:214). -/
def boundsOrdered (n : Nat) (lo hi : Nat → α) : Bool :=
  (List.range n).all (fun t => decide (lo t ≤ hi t))

/-- the `(basis, 2)` table of a `bounds` run after `Device.bounds = …`: only 2-vector runs of the
export's basis are modelled. -/
def tableBounds (basis : Nat) (run : Run α) : Except LoadErr ((Nat → α) × (Nat → α)) := do
  if run.basis ≠ basis then throw .unmodelled
  let (tmpl, rows) ← runToArrayNp run
  match tmpl with
  | .vec [_, _] => pure (fun t => (rows t).get 0, fun t => (rows t).get 1)
  | _ => throw .unmodelled

/-- `bounds = -1*run_to_array(d['bounds']); bounds = np.stack((bounds[:,1], bounds[:,0]), axis=1)`
(builder_loader.py:91-92): the `(basis, 2)` table whose row `t` is `(-1*hi t, -1*lo t)`, as the pair
(lower column, upper column).  Being of shape `(len, 2)` it is read by `validate_bounds`
(basedevice.py:192) as the per-slot table it is, for every `basis`. -/
def supplyPair (lo hi : Nat → α) : (Nat → α) × (Nat → α) :=
  (fun t => -1 * hi t, fun t => -1 * lo t)

/-- the bounds a supply device ends up with: the negated-and-swapped table, accepted by
`validate_bounds` when every row is ordered (`ValueError` otherwise). -/
def supplyBounds (basis : Nat) (lo hi : Nat → α) : Except LoadErr ((Nat → α) × (Nat → α)) :=
  let q := supplyPair lo hi
  if boundsOrdered basis q.1 q.2 then .ok q else .error .valueError

/-- `lbounds[s:e].sum()` with Python's clipping. -/
def sliceSum (n s e : Nat) (f : Nat → α) : α := sumRange (min s n) (min e n) f

/-- `Device.cbounds` setter (device.py:150-160) on a list of 4-entry bounds: the range must be a
non-empty sub-range of `[0, n)` (`0 <= s < e <= len`, since 77b3fee), `h > l`, and the bound must be
reachable from the per-slot bounds. -/
def validCBounds (n : Nat) (lo hi : Nat → α) (cbs : List (CBound α)) : Bool :=
  cbs.all (fun c => decide (c.s < c.e ∧ c.e ≤ n) && !(decide (c.h ≤ c.l))
    && !(decide (c.h < sliceSum n c.s c.e lo)) && !(decide (sliceSum n c.s c.e hi < c.l)))

/-- `load_cbounds(d)` (builder_loader.py:116-119): `None` without the key. -/
def loadCbounds (basis : Nat) (cb : Option (Run α)) : Except LoadErr (Option (List (CBound α))) :=
  match cb with
  | none => pure none
  | some run => do
    if run.basis ≠ basis then throw .unmodelled
    pure (some (← runToCboundsNp run))

/-! ## `load_cost_function` (builder_loader.py:122-143) -/

/-- the `costs` entry of a device. -/
structure Costs (α : Type) where
  flow : Option (Run α) := none
  cumulativeFlow : Bool := false
  fbr : Option (Run α) := none
  cfbr : Option (α × α) := none
  peak : Option (List α) := none

/-- the raw array handed to `load_cost_function` as `bounds` (before any validation): a
`(rows, cols)` array; `bounds[i, c]` raises `IndexError` out of range. -/
structure RawBounds (α : Type) where
  rows : Nat
  cols : Nat
  get : Nat → Nat → α

def sumFn : List (Fn α) → Fn α
  | [] => .null
  | [f] => f
  | f :: fs => .add f (sumFn fs)

/-- `RangesFunction([((s, e), InnerSumFunction(HLQuadraticCost(p_l, p_h, l, h))) …])`; the caller
has checked the list is non-empty and starts at 0 (contiguity holds by construction). -/
def rangesFn (pl ph : α) : List (CBound α) → Fn α
  | [] => .null
  | [c] => .innerHlq pl ph c.l c.h
  | c :: cs => .append (c.e - c.s) (.innerHlq pl ph c.l c.h) (rangesFn pl ph cs)

/-- `_reshape_offset_quad_coeffs(run_to_array(costs['flow']))` (builder_loader.py:146-149):
columns 0,1 and a zero column are the quadratic, column 2 the offset. -/
def flowTerm (basis : Nat) (run : Run α) : Except LoadErr (Fn α) := do
  if run.basis ≠ basis then throw .unmodelled
  let (tmpl, rows) ← runToArrayNp run
  match tmpl with
  | .num _ => throw .indexError
  | .vec ts =>
    if ts.length < 3 then throw .indexError
    pure (.poly (fun k => [(rows k).get 0, (rows k).get 1, 0]) (fun k => (rows k).get 2))

/-- `X2D([HLQuadraticCost(v[0], v[1], bounds[i,0], bounds[i,1]) for i, v in enumerate(run_to_array(…))])`. -/
def fbrTerm (basis : Nat) (raw : RawBounds α) (run : Run α) : Except LoadErr (Fn α) := do
  if run.basis ≠ basis then throw .unmodelled
  let (tmpl, rows) ← runToArrayNp run
  match tmpl with
  | .num _ => throw .indexError
  | .vec ts =>
    if ts.length < 2 then throw .indexError
    if raw.rows < basis ∨ raw.cols < 2 then throw .indexError
    pure (.hlq (fun k => (rows k).get 0) (fun k => (rows k).get 1) (fun k => raw.get k 0) (fun k => raw.get k 1))

def loadCostFunction (basis : Nat) (costs : Option (Costs α)) (raw : RawBounds α)
    (cbs : Option (List (CBound α))) : Except LoadErr (Option (Fn α)) := do
  match costs with
  | none => throw .keyError                         -- `d['costs']`
  | some c =>
    let t1 ← match c.flow with
      | some run => do pure [← flowTerm basis run]
      | none => pure []
    if c.cumulativeFlow then throw .exception       -- 'Not implemented: costs.cumulative_flow'
    let t2 ← match c.fbr with
      | some run => do pure [← fbrTerm basis raw run]
      | none => pure []
    let t3 ← match c.cfbr with
      | some (pl, ph) =>
        match cbs with
        | none => throw .typeError                  -- `for c in None`
        | some [] => throw .indexError              -- `ranges[0]` of an empty list
        | some (c0 :: rest) =>
          if c0.s ≠ 0 then throw .valueError        -- 'ranges must start at zero'
          else pure [rangesFn pl ph (c0 :: rest)]
      | none => pure []
    let t4 := match c.peak with
      | some cs => [Fn.demand cs]
      | none => []
    let ts := t1 ++ t2 ++ t3 ++ t4
    pure (if ts.isEmpty then none else some (sumFn ts))

/-! ## per-kind loaders (builder_loader.py:44-113) -/

/-- `SDevice`'s class defaults (sdevice.py:36-44). -/
def sDefaults : SParams α :=
  { c1 := 1, c2 := 0, c3 := 0, capacity := 2 * (2 * 2 + 1), damageDepth := 0, start := 0, reserve := 0,
    efficiency := 1, sustainment := 1 }

/-- `parameter_map[k]` of `load_storage_device` (builder_loader.py:65-76) applied to one entry.
The two clipping-factor keys are *commented out* of the map, so the comprehension on line 79 raises
`KeyError` for them — the `rate_clip` item assignments on lines 81-84 are never reached. -/
def storageSet (q : SParams α) (k : String) (v : α) : Except LoadErr (SParams α) :=
  match k with
  | "capacity" => pure { q with capacity := v }
  | "efficiencyFactor" => pure { q with efficiency := v }
  | "reserveRatio" => pure { q with reserve := v }
  | "startingRatio" => pure { q with start := v }
  | "fastChargeCostFactor" => pure { q with c1 := v }
  | "flipFlopCostFactor" => pure { q with c2 := v }
  | "deepDischargeCostFactor" => pure { q with c3 := v }
  | "deepDepthRatio" => pure { q with damageDepth := v }
  | _ => throw .keyError

def storageParams : List (String × α) → SParams α → Except LoadErr (SParams α)
  | [], q => pure q
  | (k, v) :: rest, q => do storageParams rest (← storageSet q k v)

/-- the `parameters` of a thermal load; `unknownKey` = some key outside `parameter_map`. -/
structure ThermalSpec (α : Type) where
  desired : Option α := none
  initial : Option α := none
  sustainment : Option α := none
  efficiency : Option α := none
  external : Option (List α) := none
  care : Option (Run α) := none
  unknownKey : Bool := false

/-- one exported device. -/
inductive DevSpec (α : Type) where
  | load (bounds : Run α) (cb : Option (Run α)) (costs : Option (Costs α))
  | fixedLoad (bounds : Run α)
  | storage (bounds : Run α) (params : Option (List (String × α)))
  | supply (bounds : Run α) (cb : Option (Run α)) (costs : Option (Costs α))
  | thermal (bounds : Run α) (params : Option (ThermalSpec α))
  | unknown

def mkLeaf (basis : Nat) (b : (Nat → α) × (Nat → α)) (cbs : List (CBound α)) (k : Kind α) : Leaf α :=
  { n := basis, lb := b.1, hb := b.2, cbs := cbs, kind := k }

/-- `Device.__init__`'s two validations, in order: bounds, then cbounds. -/
def checkDevice (basis : Nat) (b : (Nat → α) × (Nat → α)) (cbs : Option (List (CBound α))) :
    Except LoadErr Unit := do
  if !(boundsOrdered basis b.1 b.2) then throw .valueError
  if !(validCBounds basis b.1 b.2 (cbs.getD [])) then throw .valueError

def loadDevice (basis : Nat) : DevSpec α → Except LoadErr (Leaf α)
  | .load bounds cb costs => do                                   -- load_load_device
    let b ← tableBounds basis bounds
    let cbs ← loadCbounds basis cb
    let raw : RawBounds α := ⟨basis, 2, fun t c => if c = 0 then b.1 t else b.2 t⟩
    let f ← loadCostFunction basis costs raw cbs
    checkDevice basis b cbs
    pure (mkLeaf basis b (cbs.getD []) (.adevice (f.getD .null)))
  | .fixedLoad bounds => do                                       -- load_fixed_load_device
    let b ← tableBounds basis bounds
    -- `(bounds[:,0] != bounds[:,1]).all()`: raises only when EVERY slot differs
    if (List.range basis).all (fun t => decide (b.1 t ≠ b.2 t)) then throw .exception
    checkDevice basis b none
    pure (mkLeaf basis b [] (.adevice .null))
  | .storage bounds params => do                                  -- load_storage_device
    let b ← tableBounds basis bounds
    match params with
    | none => throw .keyError
    | some ps =>
      let q ← storageParams ps sDefaults
      checkDevice basis b none
      pure (mkLeaf basis b [] (.sdevice q))
  | .supply bounds cb costs => do                                 -- load_supply_device
    let b ← tableBounds basis bounds
    let p := supplyPair b.1 b.2
    let cbs ← loadCbounds basis cb
    let raw : RawBounds α := ⟨basis, 2, fun t c => if c = 0 then p.1 t else p.2 t⟩
    let f ← loadCostFunction basis costs raw cbs
    let q ← supplyBounds basis b.1 b.2
    checkDevice basis q cbs
    pure (mkLeaf basis q (cbs.getD []) (.adevice (match f with | some g => .reflect g | none => .null)))
  | .thermal bounds params => do                                  -- load_thermal_load_device
    let b ← tableBounds basis bounds
    match params with
    | none => throw .keyError
    | some ps =>
      if ps.unknownKey then throw .keyError
      match ps.care with
      | none => throw .keyError
      | some care =>
        if care.basis ≠ basis then throw .unmodelled
        let (tmpl, rows) ← runToArrayNp care
        match tmpl with
        | .vec _ => throw .unmodelled
        | .num _ =>
          match ps.sustainment, ps.efficiency, ps.initial, ps.desired, ps.external with
          | some sus, some eff, some ti, some topt, some ext =>
            checkDevice basis b none
            if !(decide ((0 : α) ≤ sus) && decide (sus ≤ (1 : α))) then throw .valueError
            if eff = 0 then throw .valueError
            -- `if t_range < 0` on the ARRAY `run_to_array(care)`: ambiguous truth value unless basis = 1
            if basis ≠ 1 then throw .valueError
            if (rows 0).get 0 < 0 then throw .valueError
            if ext.length ≠ basis then throw .valueError
            pure (mkLeaf basis b [] (.tdevice
              { sustainment := sus, efficiency := eff, tInit := ti, tOptimal := topt,
                tRange := (rows 0).get 0, tExternal := fun i => ext.getD i 0, c := fun _ => 1 }))
          | _, _, _, _, _ => throw .typeError                      -- missing constructor argument
  | .unknown => throw .keyError                                   -- `globals()['load_%s_device']`

/-- `load_data(data).devices` (builder_loader.py:33-41): one leaf per exported device, the first
failing device's exception otherwise. (The set's id is always `'site'`: `data` is rebound to the
device *list* before `'name' in data` is evaluated.) -/
def loadData (basis : Nat) (devs : List (DevSpec α)) : Except LoadErr (List (Leaf α)) :=
  devs.mapM (loadDevice basis)

end
end DK.Loader
