import DK.Model.Tree
/-!
# Lookup of rows by label (basedevice.py `get` / `find`)

`get(name)` and `find(regexp)` filter the leaf labels by a predicate (`str.endswith(name)` for
`get`, a regular expression for `find`) and return the leaf objects of the matching rows, in row
order.  The model keeps the predicate abstract (`p : String → Bool`) and returns (row, label).
-/
namespace DK
section
variable {α : Type}

/-- rows whose label satisfies `p`, in row order, with their labels. -/
def Tree.findLabels (t : Tree α) (p : String → Bool) : List (Nat × String) :=
  ((t.labels "").zipIdx.filter (fun lk => p lk.1)).map (fun lk => (lk.2, lk.1))

/-- `get(name)`'s candidate list: rows whose qualified id ends with `name` (plain string suffix). -/
def Tree.getCandidates (t : Tree α) (name : String) : List (Nat × String) :=
  t.findLabels (fun l => l.endsWith name)

end
end DK
