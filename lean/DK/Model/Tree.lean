import DK.Model.Constraints
/-!
# Device trees (deviceset.py, subbalanceddeviceset.py, mfdeviceset.py, tworatiomfdeviceset.py)

A tree is `block b` (an atomic device or a multi-flow adaptor: anything that owns a contiguous
block of `b.rows` rows and whose behaviour the set does not look into) or `node id own children`.
`Block` is *abstract* (arbitrary functions), so every theorem about the tree glue holds for all
leaf behaviours at once; `Block.ofLeaf` / `Block.ofMF` give the shipped ones.

A flow / price matrix is `Nat → Nat → α` (row, slot).  A child sees the parent's matrix shifted
by its row offset (`shiftRows`), exactly the `s[i[0]:i[0]+i[1], :]` slices of the code.
-/
namespace DK
section
variable {α : Type} [Add α] [Sub α] [Mul α] [Div α] [Neg α]
  [OfNat α 0] [OfNat α 1] [OfNat α 2]
  [LT α] [LE α] [DecidableEq α] [DecidableLT α] [DecidableLE α]

abbrev Mat (α : Type) := Nat → Nat → α

/-- rows `off, off+1, …` of `S` (numpy `S[off:, :]`). -/
def shiftRows (off : Nat) (S : Mat α) : Mat α := fun r => S (off + r)

/-- a constraint over a flow matrix; the Jacobian is indexed (row, slot) — the code's flat
index is `row·n + slot` (`flatIdx`). -/
structure MCon (α : Type) where
  isEq : Bool
  fn : Mat α → α
  jac : Option (Mat α → Nat → Nat → α)

def MCon.Sat (c : MCon α) (S : Mat α) : Prop := if c.isEq then c.fn S = 0 else (0 : α) ≤ c.fn S
instance (c : MCon α) (S : Mat α) : Decidable (c.Sat S) := by unfold MCon.Sat; infer_instance

/-- re-wrap a child's constraint at row offset `off` with `rows` rows (deviceset.py:155-162):
the function reads the child's rows, the Jacobian is zero-padded (`zmm`) outside them. -/
def MCon.lift (off rows : Nat) (c : MCon α) : MCon α :=
  { isEq := c.isEq,
    fn := fun S => c.fn (shiftRows off S),
    jac := c.jac.map (fun j S r i => if off ≤ r ∧ r < off + rows then j (shiftRows off S) (r - off) i else 0) }

structure Block (α : Type) where
  rows : Nat
  labels : List String
  cost : Mat α → Mat α → α
  deriv : Mat α → Mat α → Nat → Nat → α
  bounds : Nat → Nat → α × α
  cons : List (MCon α)

/-- what a set adds on top of its children: aggregate bounds and label balancing. -/
structure NodeSpec (α : Type) where
  sbounds : Option (Nat → α × α)
  labels : List String
  balEq : Bool
  sign : α
  applyToRemaining : Bool

inductive Tree (α : Type) where
  | block (b : Block α)
  | node (id : String) (own : NodeSpec α) (cs : List (Tree α))

/-! ## shape -/
mutual
def Tree.rows : Tree α → Nat
  | .block b => b.rows
  | .node _ _ cs => rowsL cs
def rowsL : List (Tree α) → Nat
  | [] => 0
  | t :: ts => t.rows + rowsL ts
end

/-- `DeviceSet.partition`: (offset, rows) per child. -/
def partitionFrom (off : Nat) : List (Tree α) → List (Nat × Nat)
  | [] => []
  | t :: ts => (off, t.rows) :: partitionFrom (off + t.rows) ts

/-! ## cost, marginal cost, bounds -/
mutual
def Tree.cost : Tree α → Mat α → Mat α → α
  | .block b, S, P => b.cost S P
  | .node _ _ cs, S, P => costL cs S P
def costL : List (Tree α) → Mat α → Mat α → α
  | [], _, _ => 0
  | t :: ts, S, P => t.cost S P + costL ts (shiftRows t.rows S) (shiftRows t.rows P)
end

mutual
def Tree.deriv : Tree α → Mat α → Mat α → Nat → Nat → α
  | .block b, S, P, r, i => b.deriv S P r i
  | .node _ _ cs, S, P, r, i => derivL cs S P r i
def derivL : List (Tree α) → Mat α → Mat α → Nat → Nat → α
  | [], _, _, _, _ => 0
  | t :: ts, S, P, r, i =>
      if r < t.rows then t.deriv S P r i
      else derivL ts (shiftRows t.rows S) (shiftRows t.rows P) (r - t.rows) i
end

mutual
def Tree.bounds : Tree α → Nat → Nat → α × α
  | .block b, r, i => b.bounds r i
  | .node _ _ cs, r, i => boundsL cs r i
def boundsL : List (Tree α) → Nat → Nat → α × α
  | [], _, _ => (0, 0)
  | t :: ts, r, i => if r < t.rows then t.bounds r i else boundsL ts (r - t.rows) i
end

/-! ## labels (basedevice.py:128-145): dot-joined ids from the root -/
mutual
def Tree.labels : Tree α → String → List String
  | .block b, pre => b.labels.map (pre ++ ·)
  | .node id _ cs, pre => labelsL cs (pre ++ id ++ ".")
def labelsL : List (Tree α) → String → List String
  | [], _ => []
  | t :: ts, pre => t.labels pre ++ labelsL ts pre
end

/-! ## enumerations used by the statements: every block / internal node with its absolute row
offset and the dot-joined id prefix of its ancestors -/
mutual
def Tree.blocks : Tree α → String → Nat → List (String × Nat × Block α)
  | .block b, pre, off => [(pre, off, b)]
  | .node id _ cs, pre, off => blocksL cs (pre ++ id ++ ".") off
def blocksL : List (Tree α) → String → Nat → List (String × Nat × Block α)
  | [], _, _ => []
  | t :: ts, pre, off => t.blocks pre off ++ blocksL ts pre (off + t.rows)
end

/-- internal nodes: (absolute row offset, number of rows, own spec, leaf labels relative to the node). -/
structure NodeAt (α : Type) where
  off : Nat
  rows : Nat
  own : NodeSpec α
  labels : List String

mutual
def Tree.nodes : Tree α → Nat → List (NodeAt α)
  | .block _, _ => []
  | .node id own cs, off =>
      { off := off, rows := rowsL cs, own := own, labels := labelsL cs (id ++ ".") } :: nodesL cs off
def nodesL : List (Tree α) → Nat → List (NodeAt α)
  | [], _ => []
  | t :: ts, off => t.nodes off ++ nodesL ts (off + t.rows)
end

/-- `BaseDevice.map`: label `k` paired with row `k` of the flow matrix. -/
def Tree.mapRows (t : Tree α) (S : Mat α) : List (String × (Nat → α)) :=
  (t.labels "").zipIdx.map (fun lk => (lk.1, S lk.2))

/-- row-major flattening used by SciPy: flat index of (row, slot) and back. -/
def flatIdx (n r i : Nat) : Nat := r * n + i
def unflat (n : Nat) (x : Nat → α) : Mat α := fun r i => x (flatIdx n r i)
def flat (n : Nat) (S : Mat α) : Nat → α := fun k => S (k / n) (k % n)

/-! ## a set's own constraints -/

/-- per-slot aggregate bound closures (deviceset.py:163-181) over `R` rows. -/
def sboundCons (R : Nat) (sb : Nat → α × α) (i : Nat) : List (MCon α) :=
  if (sb i).1 = (sb i).2 then
    [ { isEq := true, fn := fun S => colSum R S i - (sb i).1,
        jac := some (fun _ r k => if r < R ∧ k = i then 1 else 0) } ]
  else
    [ { isEq := false, fn := fun S => colSum R S i - (sb i).1,
        jac := some (fun _ r k => if r < R ∧ k = i then 1 else 0) },
      { isEq := false, fn := fun S => (sb i).2 - colSum R S i,
        jac := some (fun _ r k => if r < R ∧ k = i then -1 else 0) } ]

/-- rows (indices into `labels`) whose label ends with `l`. -/
def labelledRows (labels : List String) (l : String) : List Nat :=
  (List.range labels.length).filter (fun k => (labels.getD k "").endsWith l)

/-- rows matched by none of the labels. -/
def unlabelledRows (labels : List String) (ls : List String) : List Nat :=
  (List.range labels.length).filter (fun k => ls.all (fun l => !((labels.getD k "").endsWith l)))

/-- sum of slot `i` over a set of rows. -/
def rowSetSum (rows : List Nat) (S : Mat α) (i : Nat) : α := (rows.map (fun r => S r i)).foldl (· + ·) 0

/-- balancing closure for one row set and slot (subbalanceddeviceset.py:29-38); no Jacobian. -/
def balanceCon (isEq : Bool) (sign : α) (rows : List Nat) (i : Nat) : MCon α :=
  { isEq := isEq, fn := fun S => sign * rowSetSum rows S i, jac := none }

/-- all constraints a node adds itself, in the code's order. `labels` are the node's leaf labels
relative to the node itself (as `_labelled_sets` computes them at construction). -/
def ownCons (n R : Nat) (own : NodeSpec α) (labels : List String) : List (MCon α) :=
  (match own.sbounds with
   | some sb => (List.range n).flatMap (sboundCons R sb)
   | none => [])
  ++ ((own.labels.map (labelledRows labels)) ++
      (if own.applyToRemaining then [unlabelledRows labels own.labels] else [])).flatMap
        (fun rows => (List.range n).map (balanceCon own.balEq own.sign rows))

/-! ## the whole constraint list of a tree (deviceset.py:145-182), horizon `n` -/
mutual
def Tree.cons (n : Nat) : Tree α → List (MCon α)
  | .block b => b.cons
  | .node id own cs => consL n 0 cs ++ ownCons n (rowsL cs) own (labelsL cs (id ++ "."))
def consL (n : Nat) (off : Nat) : List (Tree α) → List (MCon α)
  | [] => []
  | t :: ts => (t.cons n).map (MCon.lift off t.rows) ++ consL n (off + t.rows) ts
end

/-! ## shipped blocks -/

/-- a leaf constraint seen as a one-row matrix constraint. -/
def Con.toM (c : Con α) : MCon α :=
  { isEq := c.isEq, fn := fun S => c.fn (S 0),
    jac := c.jac.map (fun j S r i => if r = 0 then j (S 0) i else 0) }

/-- constraint list of a shipped leaf. `extra` are user constraints (ADevice). -/
def Leaf.cons (d : Leaf α) (clipLo clipHi : Option α) (extra : List (Con α)) : List (Con α) :=
  match d.kind with
  | .sdevice q => sdeviceCons d.n d.cbs q d.lb d.hb clipLo clipHi
  | .adevice _ => deviceCons d.n d.cbs ++ extra
  | _ => deviceCons d.n d.cbs

def Block.ofLeaf (id : String) (d : Leaf α) (cons : List (Con α)) : Block α :=
  { rows := 1, labels := [id],
    cost := fun S P => d.cost (S 0) (P 0),
    deriv := fun S P _ i => d.deriv (S 0) (P 0) i,
    bounds := fun _ i => (d.lb i, d.hb i),
    cons := cons.map Con.toM }

/-- the wrapped device has some strictly negative lower bound (`(device.lbounds < 0).any()`). -/
def anyNeg (n : Nat) (lb : Nat → α) : Bool := (List.range n).any (fun i => lb i < 0)

/-- a wrapped device's constraint applied to the column sum, Jacobian tiled over the conduits
(mfdeviceset.py:76-86). -/
def Con.overConduits (k : Nat) (c : Con α) : MCon α :=
  { isEq := c.isEq, fn := fun S => c.fn (colSum k S),
    jac := c.jac.map (fun j S r i => if r < k then j (colSum k S) i else 0) }

/-- two-ratio closure (tworatiomfdeviceset.py:27-34). -/
def ratioCon (isEq : Bool) (r0 r1 : α) (i : Nat) : MCon α :=
  { isEq := isEq, fn := fun S => S 0 i * r0 - S 1 i * r1,
    jac := some (fun _ r k => if k = i then (if r = 0 then r0 else if r = 1 then -r1 else 0) else 0) }

/-- `MFDeviceSet(device, flows)` / `TwoRatioMFDeviceSet` as a block of `flows.length` rows. -/
def Block.ofMF (id : String) (d : Leaf α) (cons : List (Con α)) (flows : List String)
    (ratio : Option (Bool × α × α)) : Block α :=
  let k := flows.length
  { rows := k, labels := flows.map (fun f => id ++ "." ++ f),
    cost := fun S P => d.cost (colSum k S) (fun _ => 0) + sumTo k (fun r => sumTo d.n (fun i => S r i * P r i)),
    deriv := fun S P r i => d.deriv (colSum k S) (fun _ => 0) i + P r i,
    bounds := fun _ i => if anyNeg d.n d.lb then (d.lb i, 0) else (0, d.hb i),
    cons := (List.range d.n).flatMap (sboundCons k (fun i => (d.lb i, d.hb i)))
            ++ cons.map (Con.overConduits k)
            ++ (match ratio with
                | some (e, r0, r1) => (List.range d.n).map (ratioCon e r0 r1)
                | none => []) }

end
end DK
