import DK.Model.Leaf
/-!
# Constraint lists of the atomic devices (device.py:110-129, sdevice.py:149-213, adevice.py:23-29)

A SciPy-style constraint is `fn x ≥ 0` (`ineq`) or `fn x = 0` (`eq`), optionally with a Jacobian.
-/
namespace DK
section
variable {α : Type} [Add α] [Sub α] [Mul α] [Div α] [Neg α]
  [OfNat α 0] [OfNat α 1] [OfNat α 2]
  [LT α] [LE α] [DecidableEq α] [DecidableLT α] [DecidableLE α]

/-- a constraint over a length-`n` flow vector. -/
structure Con (α : Type) where
  isEq : Bool
  fn : (Nat → α) → α
  jac : Option ((Nat → α) → Nat → α)

/-- the constraint holds at `x`. -/
def Con.Sat (c : Con α) (x : Nat → α) : Prop := if c.isEq then c.fn x = 0 else (0 : α) ≤ c.fn x

instance (c : Con α) (x : Nat → α) : Decidable (c.Sat x) := by unfold Con.Sat; infer_instance

/-- Python slice `x[s:e].sum()` on a length-`n` vector (the slice end is clipped to `n`). -/
def sliceSum (n s e : Nat) (x : Nat → α) : α := sumRange s (min e n) x

/-- indicator of `s ≤ k < e`. -/
def inRange (s e k : Nat) : α := if s ≤ k ∧ k < e then 1 else 0

/-- the two inequality closures `Device.constraints` builds for one cumulative bound. -/
def cboundCons (n : Nat) (cb : CBound α) : List (Con α) :=
  [ { isEq := false, fn := fun x => sliceSum n cb.s cb.e x - cb.l,
      jac := some (fun _ k => inRange cb.s cb.e k) },
    { isEq := false, fn := fun x => cb.h - sliceSum n cb.s cb.e x,
      jac := some (fun _ k => (-1 : α) * inRange cb.s cb.e k) } ]

/-- `Device.constraints`. -/
def deviceCons (n : Nat) (cbs : List (CBound α)) : List (Con α) :=
  cbs.flatMap (cboundCons n)

/-- the state of charge the storage constraints compute (sdevice.py:162-164):
`base·s^(i+1) + ((e**sign r)·r)·W[i]`, a dot product over *all* `n` slots. -/
def socDot (n : Nat) (q : SParams α) (r : Nat → α) (i : Nat) : α :=
  (q.start * q.capacity) * npow q.sustainment (i + 1)
    + sumTo n (fun j => effPow q.efficiency (r j) * r j * susW q.sustainment i j)

/-- Jacobian row the code supplies for `socDot … i`: `(e**sign r)·W[i]`. -/
def socJac (q : SParams α) (r : Nat → α) (i j : Nat) : α :=
  effPow q.efficiency (r j) * susW q.sustainment i j

/-- per-slot state-of-charge constraints: `soc ≥ 0`, `capacity − soc ≥ 0`. -/
def socCons (n : Nat) (q : SParams α) (i : Nat) : List (Con α) :=
  [ { isEq := false, fn := fun r => socDot n q r i, jac := some (fun r j => socJac q r i j) },
    { isEq := false, fn := fun r => q.capacity - socDot n q r i,
      jac := some (fun r j => (-1 : α) * socJac q r i j) } ]

/-- discharge-rate clipping (no Jacobian supplied): `r_i − clip·lb_i·soc_i/capacity ≥ 0`. -/
def clipLoCon (n : Nat) (q : SParams α) (lb : Nat → α) (clip : α) (i : Nat) : Con α :=
  { isEq := false, fn := fun r => r i - clip * lb i * (socDot n q r i / q.capacity), jac := none }

/-- charge-rate clipping: `clip·hb_i·(1 − soc_i/capacity) − r_i ≥ 0`. -/
def clipHiCon (n : Nat) (q : SParams α) (hb : Nat → α) (clip : α) (i : Nat) : Con α :=
  { isEq := false, fn := fun r => clip * hb i * (1 - socDot n q r i / q.capacity) - r i, jac := none }

/-- end-of-window reserve: `soc_{n-1} − reserve·capacity ≥ 0`. -/
def reserveCon (n : Nat) (q : SParams α) : Con α :=
  { isEq := false, fn := fun r => socDot n q r (n - 1) - q.capacity * q.reserve,
    jac := some (fun r j => socJac q r (n - 1) j) }

/-- `SDevice.constraints` in the order the code emits them. -/
def sdeviceCons (n : Nat) (cbs : List (CBound α)) (q : SParams α) (lb hb : Nat → α)
    (clipLo clipHi : Option α) : List (Con α) :=
  deviceCons n cbs
  ++ (List.range n).flatMap (socCons n q)
  ++ (match clipLo with | some c => (List.range n).map (clipLoCon n q lb c) | none => [])
  ++ (match clipHi with | some c => (List.range n).map (clipHiCon n q hb c) | none => [])
  ++ [reserveCon n q]

end
end DK
