import DK.Model.Fn
/-!
# Atomic device models: cost, marginal cost (`deriv`) and Hessian per class

One definition per shipped class, following the Python line by line (file:line in
the doc-strings refers to `/repo/device_kit`).  All take the horizon `n`, the per-slot
bounds `lb hb`, the flow `s` and the price `p` as functions `Nat → α`.
-/
namespace DK
section
variable {α : Type} [Add α] [Sub α] [Mul α] [Div α] [Neg α]
  [OfNat α 0] [OfNat α 1] [OfNat α 2]
  [LT α] [LE α] [DecidableEq α] [DecidableLT α] [DecidableLE α]

/-- the numeraire term `(s*p).sum()` every class adds. -/
def priceTerm (n : Nat) (s p : Nat → α) : α := sumTo n (fun k => s k * p k)

/-! ## Device / PVDevice (device.py:54-63, pvdevice.py) -/
def deviceCost (n : Nat) (s p : Nat → α) : α := priceTerm n s p
def deviceDeriv (p : Nat → α) (i : Nat) : α := p i

/-! ## CDevice (cdevice.py:13-20): `a·Σs + b` -/
def cdevCost (n : Nat) (a b : α) (s p : Nat → α) : α := (a * sumTo n s + b) + priceTerm n s p
def cdevDeriv (a : α) (p : Nat → α) (i : Nat) : α := a + p i

/-! ## IDevice2 (idevice2.py:28-38): per-slot high/low quadratic -/
def idev2Cost (n : Nat) (pl ph lb hb s p : Nat → α) : α :=
  sumTo n (fun k => hlqCost (pl k) (ph k) (lb k) (hb k) (s k)) + priceTerm n s p
def idev2Deriv (pl ph lb hb s p : Nat → α) (i : Nat) : α :=
  hlqDeriv (pl i) (ph i) (lb i) (hb i) (s i) + p i
def idev2Hess (pl ph lb hb : Nat → α) (i j : Nat) : α :=
  if i = j then hlqHess (pl i) (ph i) (lb i) (hb i) else 0

/-! ## IDevice (idevice.py:16-26): per-slot `c·q^b` -/
section
variable {ε : Type} [Sub ε] [OfNat ε 1] [OfNat ε 2]
def idevCost (pow : α → ε → α) (n : Nat) (a : Nat → α) (b : Nat → ε) (c lb hb s p : Nat → α) : α :=
  sumTo n (fun k => abcCost pow (s k) (a k) (b k) (c k) (lb k) (hb k)) + priceTerm n s p
def idevDeriv (pow : α → ε → α) (cast : ε → α) (a : Nat → α) (b : Nat → ε) (c lb hb s p : Nat → α) (i : Nat) : α :=
  abcDeriv pow cast (s i) (a i) (b i) (c i) (lb i) (hb i) + p i
def idevHess (pow : α → ε → α) (cast : ε → α) (a : Nat → α) (b : Nat → ε) (c lb hb s : Nat → α) (i j : Nat) : α :=
  if i = j then abcHess pow cast (s i) (a i) (b i) (c i) (lb i) (hb i) else 0
end

/-! ## GDevice (gdevice.py:28-44): per-slot polynomial of the generated quantity `-s` -/
def gdevCost (n : Nat) (cs : Nat → List α) (s p : Nat → α) : α :=
  sumTo n (fun k => s k * p k + polyEval (cs k) (- s k))
def gdevDeriv (cs : Nat → List α) (s p : Nat → α) (i : Nat) : α :=
  p i - polyEval (polyDer (cs i)) (- s i)
def gdevHess (cs : Nat → List α) (s : Nat → α) (i j : Nat) : α :=
  if i = j then polyEval (polyDer (polyDer (cs i))) (- s i) else 0

/-! ## CDevice2 (cdevice2.py:12-28): high/low quadratic of the flow sum per cumulative range -/
/-- a cumulative bound `(low, high, start, end)`; the range is `[start, end)`. -/
structure CBound (α : Type) where
  l : α
  h : α
  s : Nat
  e : Nat

/-- the code's choice (cdevice2.py:16-19): with exactly one cumulative bound the curve is applied to
the sum of the *whole* flow vector; with several, to the sum over each bound's own range. -/
def cdev2Fn (n : Nat) (pl ph : α) (cbs : List (CBound α)) (x : Nat → α) : α :=
  match cbs with
  | [c] => hlqCost pl ph c.l c.h (sumTo n x)
  | cs => (cs.map (fun c => hlqCost pl ph c.l c.h (sumRange c.s c.e x))).foldl (· + ·) 0

def cdev2Cost (n : Nat) (pl ph : α) (cbs : List (CBound α)) (s p : Nat → α) : α :=
  cdev2Fn n pl ph cbs s + priceTerm n s p

/-- marginal cost: the curve's slope at the sum of the range that contains slot `i`. -/
def cdev2Slope (n : Nat) (pl ph : α) (cbs : List (CBound α)) (x : Nat → α) (i : Nat) : α :=
  match cbs with
  | [c] => hlqDeriv pl ph c.l c.h (sumTo n x)
  | cs => (cs.map (fun c => if c.s ≤ i ∧ i < c.e then hlqDeriv pl ph c.l c.h (sumRange c.s c.e x) else 0)).foldl (· + ·) 0

def cdev2Deriv (n : Nat) (pl ph : α) (cbs : List (CBound α)) (s p : Nat → α) (i : Nat) : α :=
  cdev2Slope n pl ph cbs s i + p i

def cdev2Hess (pl ph : α) (cbs : List (CBound α)) (i j : Nat) : α :=
  match cbs with
  | [c] => hlqHess pl ph c.l c.h
  | cs => (cs.map (fun c => if c.s ≤ i ∧ i < c.e ∧ c.s ≤ j ∧ j < c.e then hlqHess pl ph c.l c.h else 0)).foldl (· + ·) 0

/-! ## Storage (sdevice.py, utils.py:8-37) -/

/-- `sustainment_matrix(s, n)[i][j]`: `s^(i-j)` on and below the diagonal, `0` above. -/
def susW (sus : α) (i j : Nat) : α := if j ≤ i then npow sus (i - j) else 0

/-- `utils.soc(r, s, e)[i] = Σ_{j ≤ i} r_j · e^{sign r_j} · s^{i-j}`. -/
def soc (sus eff : α) (r : Nat → α) (i : Nat) : α :=
  sumTo (i + 1) (fun j => r j * effPow eff (r j) * susW sus i j)

/-- `utils.base_soc(b, s, n)[i] = b · s^{i+1}`. -/
def baseSoc (b sus : α) (i : Nat) : α := b * npow sus (i + 1)

structure SParams (α : Type) where
  c1 : α
  c2 : α
  c3 : α
  capacity : α
  damageDepth : α
  start : α
  reserve : α
  efficiency : α
  sustainment : α

/-- `SDevice.charge_at(r)[i]` (sdevice.py:98-100). -/
def chargeAt (q : SParams α) (r : Nat → α) (i : Nat) : α :=
  baseSoc (q.start * q.capacity) q.sustainment i + soc q.sustainment q.efficiency r i

/-- `min(x, 0)`. -/
def minZero (x : α) : α := if x < 0 then x else 0

/-- shortfall below the damage depth, `min(charge_at − capacity·depth, 0)`. -/
def shortfall (q : SParams α) (r : Nat → α) (i : Nat) : α :=
  minZero (chargeAt q r i - q.capacity * q.damageDepth)

/-- `SDevice.charge_costs(r)[i]` (sdevice.py:65-71). -/
def chargeCost (n : Nat) (q : SParams α) (r : Nat → α) (i : Nat) : α :=
  q.c1 * (r i * r i)
  + (if i + 1 < n then q.c2 * (-1 : α) * (r i * r (i + 1)) else 0)
  + q.c3 * (shortfall q r i * shortfall q r i)

def sdevCost (n : Nat) (q : SParams α) (s p : Nat → α) : α :=
  sumTo n (fun i => chargeCost n q s i + s i * p i)

/-- `SDevice.charge_costs_deriv(r)[j] + p[j]` (sdevice.py:73-96). -/
def sdevDeriv (n : Nat) (q : SParams α) (s p : Nat → α) (j : Nat) : α :=
  q.c1 * 2 * s j
  + q.c2 * (-1 : α) * ((if j + 1 < n then s (j + 1) else 0) + (if 0 < j then s (j - 1) else 0))
  + sumTo n (fun i => q.c3 * 2 * shortfall q s i * susW q.sustainment i j * effPow q.efficiency (s j))
  + p j

/-! ## Thermal (tdevice.py) -/
structure TParams (α : Type) where
  sustainment : α
  efficiency : α
  tInit : α
  tOptimal : α
  tRange : α
  tExternal : Nat → α
  c : Nat → α

/-- `TDevice._make_t_base`: temperature with no consumption. -/
def tBase (q : TParams α) (i : Nat) : α :=
  baseSoc q.tInit q.sustainment i + (1 - q.sustainment) * soc q.sustainment 1 q.tExternal i

/-- `TDevice.r2t(r)[i]`. -/
def r2t (q : TParams α) (r : Nat → α) (i : Nat) : α :=
  tBase q i + q.efficiency * soc q.sustainment 1 r i

/-- the temperature cost of slot `i`: `ABCCost(0, 2, c, t_min, t_optimal)` at the slot temperature. -/
def tSlotCost (q : TParams α) (t : α) (i : Nat) : α :=
  abcCost ipow t 0 2 (q.c i) (q.tOptimal - q.tRange) q.tOptimal

def tSlotDeriv (q : TParams α) (t : α) (i : Nat) : α :=
  abcDeriv ipow intCast' t 0 2 (q.c i) (q.tOptimal - q.tRange) q.tOptimal

def tdevCost (n : Nat) (q : TParams α) (s p : Nat → α) : α :=
  sumTo n (fun i => tSlotCost q (r2t q s i) i) + priceTerm n s p

/-- `TDevice.deriv(s, p)[j]` (tdevice.py:81-84): chain rule through `r2t`. -/
def tdevDeriv (n : Nat) (q : TParams α) (s p : Nat → α) (j : Nat) : α :=
  sumTo n (fun i => susW q.sustainment i j * tSlotDeriv q (r2t q s i) i) * q.efficiency + p j

/-! ## A closed sum of the shipped leaves, for trees and the driver -/
inductive Kind (α : Type) where
  | device
  | cdevice (a b : α)
  | cdevice2 (pl ph : α)
  | idevice (a : Nat → α) (b : Nat → Int) (c : Nat → α)
  | idevice2 (pl ph : Nat → α)
  | gdevice (cs : Nat → List α)
  | sdevice (q : SParams α)
  | tdevice (q : TParams α)
  | adevice (f : Fn α)

structure Leaf (α : Type) where
  n : Nat
  lb : Nat → α
  hb : Nat → α
  cbs : List (CBound α)
  kind : Kind α

namespace Leaf

def cost (d : Leaf α) (s p : Nat → α) : α :=
  match d.kind with
  | .device => deviceCost d.n s p
  | .cdevice a b => cdevCost d.n a b s p
  | .cdevice2 pl ph => cdev2Cost d.n pl ph d.cbs s p
  | .idevice a b c => idevCost ipow d.n a b c d.lb d.hb s p
  | .idevice2 pl ph => idev2Cost d.n pl ph d.lb d.hb s p
  | .gdevice cs => gdevCost d.n cs s p
  | .sdevice q => sdevCost d.n q s p
  | .tdevice q => tdevCost d.n q s p
  | .adevice f => f.eval d.n s + priceTerm d.n s p

def deriv (d : Leaf α) (s p : Nat → α) (i : Nat) : α :=
  match d.kind with
  | .device => deviceDeriv p i
  | .cdevice a _ => cdevDeriv a p i
  | .cdevice2 pl ph => cdev2Deriv d.n pl ph d.cbs s p i
  | .idevice a b c => idevDeriv ipow intCast' a b c d.lb d.hb s p i
  | .idevice2 pl ph => idev2Deriv pl ph d.lb d.hb s p i
  | .gdevice cs => gdevDeriv cs s p i
  | .sdevice q => sdevDeriv d.n q s p i
  | .tdevice q => tdevDeriv d.n q s p i
  | .adevice f => f.deriv d.n s i + p i

/-- closed-form Hessians only (storage / thermal differentiate numerically: `none`). -/
def hess (d : Leaf α) (s : Nat → α) (i j : Nat) : Option α :=
  match d.kind with
  | .device => some 0
  | .cdevice _ _ => some 0
  | .cdevice2 pl ph => some (cdev2Hess pl ph d.cbs i j)
  | .idevice a b c => some (idevHess ipow intCast' a b c d.lb d.hb s i j)
  | .idevice2 pl ph => some (idev2Hess pl ph d.lb d.hb i j)
  | .gdevice cs => some (gdevHess cs s i j)
  | .sdevice _ => none
  | .tdevice _ => none
  | .adevice f => some (f.hess d.n s i j)

end Leaf
end
end DK
