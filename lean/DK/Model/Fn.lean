import DK.Model.Kernels
/-!
# Preference-function combinators of `device_kit/functions.py` (deep embedding)

`Fn α` describes a function of a length-`n` vector built from the shipped classes:

| constructor | Python |
|---|---|
| `null` | `NullFunction` |
| `add f g` | `SumFunction([f, g])` (longer lists are folded by the driver; `[]` is `null`) |
| `reflect f` | `ReflectedFunction(f)` |
| `poly cs off` | `Poly2D(cs)` (`off = 0`) and `Poly2DOffset` : `Σ_k poly_k (x_k + off_k)` |
| `hlq pl ph xl xh` | `HLQuadraticCost` with vector parameters, and `X2D([HLQuadraticCost …])` |
| `abc a b c xl xh` | `ABCCost` with vector parameters (integer exponents in the executable model) |
| `innerHlq pl ph xl xh` | `InnerSumFunction(HLQuadraticCost(pl, ph, xl, xh))` |
| `append k f g` | `RangesFunction([((0,k), f), ((k,n), g)])` (longer lists folded) |
| `demand cs` | `DemandFunction(np.poly1d(cs))` |
-/
namespace DK

section
variable {α : Type} [Add α] [Sub α] [Mul α] [Div α] [Neg α]
  [OfNat α 0] [OfNat α 1] [OfNat α 2]
  [LT α] [LE α] [DecidableEq α] [DecidableLT α] [DecidableLE α]

/-- integer power through `npow` and one division (Python `q ** k` on floats for integer `k`). -/
def ipow (x : α) (k : Int) : α :=
  if 0 ≤ k then npow x k.toNat else 1 / npow x (-k).toNat

/-- embedding of an integer exponent into the scalars. -/
def intCast' (k : Int) : α := if 0 ≤ k then natCast' k.toNat else - natCast' (-k).toNat

/-- index of the first maximum among `x 0 … x (n-1)` (numpy `argmax`); `0` when `n = 0`. -/
def argmax : Nat → (Nat → α) → Nat
  | 0, _ => 0
  | 1, _ => 0
  | n+2, x => let m := argmax (n+1) x; if x m < x (n+1) then n+1 else m

inductive Fn (α : Type) where
  | null
  | add (f g : Fn α)
  | reflect (f : Fn α)
  | poly (cs : Nat → List α) (off : Nat → α)
  | hlq (pl ph xl xh : Nat → α)
  | abc (a : Nat → α) (b : Nat → Int) (c xl xh : Nat → α)
  | innerHlq (pl ph xl xh : α)
  | append (k : Nat) (f g : Fn α)
  | demand (cs : List α)

namespace Fn

/-- `f(x)` for a length-`n` vector `x`. -/
def eval : Fn α → Nat → (Nat → α) → α
  | null, _, _ => 0
  | add f g, n, x => f.eval n x + g.eval n x
  | reflect f, n, x => f.eval n (fun i => - x i)
  | poly cs off, n, x => sumTo n (fun k => polyEval (cs k) (x k + off k))
  | hlq pl ph xl xh, n, x => sumTo n (fun k => hlqCost (pl k) (ph k) (xl k) (xh k) (x k))
  | abc a b c xl xh, n, x => sumTo n (fun k => abcCost ipow (x k) (a k) (b k) (c k) (xl k) (xh k))
  | innerHlq pl ph xl xh, n, x => hlqCost pl ph xl xh (sumTo n x)
  | append k f g, n, x => f.eval k x + g.eval (n - k) (fun i => x (k + i))
  | demand cs, n, x => polyEval cs (x (argmax n x))

/-- `f.deriv(x)[i]`. -/
def deriv : Fn α → Nat → (Nat → α) → Nat → α
  | null, _, _, _ => 0
  | add f g, n, x, i => f.deriv n x i + g.deriv n x i
  | reflect f, n, x, i => - f.deriv n (fun k => - x k) i
  | poly cs off, _, x, i => polyEval (polyDer (cs i)) (x i + off i)
  | hlq pl ph xl xh, _, x, i => hlqDeriv (pl i) (ph i) (xl i) (xh i) (x i)
  | abc a b c xl xh, _, x, i => abcDeriv ipow intCast' (x i) (a i) (b i) (c i) (xl i) (xh i)
  | innerHlq pl ph xl xh, n, x, _ => hlqDeriv pl ph xl xh (sumTo n x)
  | append k f g, n, x, i =>
      if i < k then f.deriv k x i else g.deriv (n - k) (fun j => x (k + j)) (i - k)
  | demand cs, n, x, i => if i = argmax n x then polyEval (polyDer cs) (x i) else 0

/-- `f.hess(x)[i][j]`. -/
def hess : Fn α → Nat → (Nat → α) → Nat → Nat → α
  | null, _, _, _, _ => 0
  | add f g, n, x, i, j => f.hess n x i j + g.hess n x i j
  | reflect f, n, x, i, j => f.hess n (fun k => - x k) i j
  | poly cs off, _, x, i, j => if i = j then polyEval (polyDer (polyDer (cs i))) (x i + off i) else 0
  | hlq pl ph xl xh, _, _, i, j => if i = j then hlqHess (pl i) (ph i) (xl i) (xh i) else 0
  | abc a b c xl xh, _, x, i, j =>
      if i = j then abcHess ipow intCast' (x i) (a i) (b i) (c i) (xl i) (xh i) else 0
  | innerHlq pl ph xl xh, _, _, _, _ => hlqHess pl ph xl xh
  | append k f g, n, x, i, j =>
      if i < k then (if j < k then f.hess k x i j else 0)
      else (if j < k then 0 else g.hess (n - k) (fun l => x (k + l)) (i - k) (j - k))
  | demand cs, n, x, i, j =>
      if i = j then (if i = argmax n x then polyEval (polyDer (polyDer cs)) (x i) else 0) else 0

end Fn
end
end DK
