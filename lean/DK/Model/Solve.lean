import DK.Model.Tree
/-!
# `solve` and `step` (solve.py), `utils.project` (utils.py:85-101)

SciPy's `minimize(method='SLSQP')` is an *external numeric routine*: it is a PARAMETER of the model
(`minimize : Problem α → Result α`).  Everything else — which keyword arguments are assembled, when
the optimiser is called at all, what is done with its answer — is mirrored line by line.

Conventions.  SciPy works on flat vectors (`Nat → α`, first `rows·n` entries); the device works on
matrices.  `unflat n` / `flat n` (Model/Tree) are `reshape(shape)` / `.flatten()`.  A price is a
matrix (the driver broadcasts scalars / vectors as numpy does).

Python facts that are modelled, not derived: `reshape`/`flatten` are index arithmetic; `if prox:` and
`if cb:` are Python truthiness (`None` and `0` alike are false); a start point given by the caller
must be an ndarray (`s0.flatten()`); of `solver_options` only `ftol` is read by `solve` itself (the
shortcut's tolerance), the rest only reach the optimiser (a parameter here).
-/
namespace DK
section
variable {α : Type} [Add α] [Sub α] [Mul α] [Div α] [Neg α]
  [OfNat α 0] [OfNat α 1] [OfNat α 2]
  [LT α] [LE α] [DecidableEq α] [DecidableLT α] [DecidableLE α]

/-- what `solve` / `step` read of a SciPy `OptimizeResult`. `x` is flat. -/
structure Result (α : Type) where
  x : Nat → α
  success : Bool
  status : Nat

/-- a device or device tree as `solve` / `step` see it (only these members are touched). -/
structure SDev (α : Type) where
  rows : Nat
  n : Nat
  cost : Mat α → Mat α → α
  deriv : Mat α → Mat α → Nat → Nat → α
  bounds : Nat → Nat → α × α
  cons : List (MCon α)
  project : Mat α → Mat α

/-- number of optimisation variables, `shape[0]*shape[1]`. -/
def SDev.dim (d : SDev α) : Nat := d.rows * d.n

/-- `device.bounds`: the flat `(rows·n, 2)` table, row-major. -/
def SDev.flatBounds (d : SDev α) (k : Nat) : α × α := d.bounds (k / d.n) (k % d.n)

/-- a matrix constraint as SciPy calls it: on the flat vector. -/
def MCon.toFlat (n : Nat) (c : MCon α) : Con α :=
  { isEq := c.isEq, fn := fun x => c.fn (unflat n x),
    jac := c.jac.map (fun j x k => j (unflat n x) (k / n) (k % n)) }

/-- the keyword arguments of one `scipy.optimize.minimize(..., method='SLSQP')` call. -/
structure Problem (α : Type) where
  dim : Nat
  fn : (Nat → α) → α
  x0 : Nat → α
  jac : Option ((Nat → α) → Nat → α)
  bounds : Nat → α × α
  cons : List (Con α)
  callback : Bool
  /-- `options['ftol']` / `options['maxiter']`; `none` = not passed (SciPy's default). -/
  ftol : Option α := none
  maxiter : Option Nat := none

/-- the `options` entry of the keyword arguments (`ftol`, `maxiter`; `disp` is always `False`). -/
def Problem.withOpts (pb : Problem α) (ftol : α) (maxiter : Nat) : Problem α :=
  { pb with ftol := some ftol, maxiter := some maxiter }

/-- `(device.bounds[:, 0] == device.bounds[:, 1]).all()` (solve.py:61); true on an empty table. -/
def allFixed (N : Nat) (b : Nat → α × α) : Bool :=
  (List.range N).all (fun k => decide ((b k).1 = (b k).2))

/-- Python truthiness of the `prox` argument (solve.py:80): `None` and `0` are both false. -/
def proxWeight (prox : Option α) : Option α :=
  match prox with
  | none => none
  | some q => if q = 0 then none else some q

/-- `device.cost(s, p)` on a flat `s`. -/
def SDev.flatCost (d : SDev α) (P : Mat α) (s : Nat → α) : α := d.cost (unflat d.n s) P

/-- `np.array(device.deriv(s, p)).flatten()` on a flat `s`. -/
def SDev.flatDeriv (d : SDev α) (P : Mat α) (s : Nat → α) : Nat → α := flat d.n (d.deriv (unflat d.n s) P)

/-- `((s-s0)**2).sum()` over the `N` variables. -/
def sqDist (N : Nat) (s s0 : Nat → α) : α := sumTo N (fun k => (s k - s0 k) * (s k - s0 k))

/-- the `args` dictionary of solve.py:67-84. -/
def solveProblem (d : SDev α) (P : Mat α) (s0 : Nat → α) (prox : Option α) (cb : Bool) : Problem α :=
  let base : Problem α :=
    { dim := d.dim,
      fn := fun s => d.flatCost P s,
      x0 := s0,
      jac := some (fun s => d.flatDeriv P s),
      bounds := d.flatBounds,
      cons := d.cons.map (MCon.toFlat d.n),
      callback := cb }
  match proxWeight prox with
  | none => base
  | some q =>
    { base with
      fn := fun s => d.flatCost P s + (1 / (2 * q)) * sqDist d.dim s s0,
      jac := some (fun s k => d.flatDeriv P s k + (1 / q) * (s k - s0 k)) }

/-- the start point (solve.py:65): the caller's, or `device.project(zeros)`, flattened. -/
def startPoint (d : SDev α) (s0? : Option (Nat → α)) : Nat → α :=
  match s0? with
  | some s => s
  | none => flat d.n (d.project (fun _ _ => 0))

/-- what `OptimizationException` carries: the optimiser's result, or (the all-fixed shortcut) just a
message. -/
inductive OptExc (α : Type) where
  | result (o : Result α)
  | fixedInfeasible

/-- the shortcut's test of one constraint at the only in-bounds flow (solve.py:64-66): it fails when
`v < -ftol`, or, for an `eq` constraint, also when `v > ftol`. -/
def Con.withinTol (tol : α) (c : Con α) (x : Nat → α) : Bool :=
  !(decide (c.fn x < -tol) || (c.isEq && decide (tol < c.fn x)))

/-- `solve(device, p, s0, solver_options, prox, cb)` (solve.py:42-93).  `tol` is
`_solver_options['ftol']` (default `1e-6`), `maxiter` is `_solver_options['maxiter']` (default `1000`),
both overridable through `solver_options`; they are handed to the optimiser as `options` (`disp` is
always `False`), and `ftol` is also the shortcut's tolerance.  `.error e` is `raise OptimizationException(...)`.
The all-slots-fixed shortcut does not call the optimiser: it evaluates every constraint of
`device.constraints` at the flattened lower bounds and raises when one fails `withinTol`, else returns
the lower bounds reshaped. -/
def solve (d : SDev α) (P : Mat α) (s0? : Option (Nat → α)) (prox : Option α) (cb : Bool) (tol : α) (maxiter : Nat)
    (minimize : Problem α → Result α) : Except (OptExc α) (Mat α × Option (Result α)) :=
  if allFixed d.dim d.flatBounds then
    if (d.cons.map (MCon.toFlat d.n)).all (fun c => c.withinTol tol (fun k => (d.flatBounds k).1)) then
      .ok (unflat d.n (fun k => (d.flatBounds k).1), none)
    else .error .fixedInfeasible
  else
    let o := minimize ((solveProblem d P (startPoint d s0?) prox cb).withOpts tol maxiter)
    if o.success then .ok (unflat d.n o.x, some o) else .error (.result o)

/-! ## step -/

/-- `if not o.success: if o.status == 8: warn else: raise` — the result is used iff this holds. -/
def Result.accepted (o : Result α) : Bool := o.success || o.status == 8

/-- `1e-9`, the `ftol` of `utils.project` (written with the core numerals only). -/
def projFtol : α := 1 / npow ((2 : α) * (2 * 2 + 1)) 9

/-- the `minimize` call of `utils.project(p, x0, bounds, constraints)` (utils.py:85-101), with its fixed
options `ftol = 1e-9`, `maxiter = 200` (`step` passes it no `solver_options`). -/
def projProblem (N : Nat) (p x0 : Nat → α) (bounds : Nat → α × α) (cons : List (Con α)) : Problem α :=
  { ftol := some projFtol, maxiter := some 200,
    dim := N,
    fn := fun s => sqDist N s p,
    x0 := x0,
    jac := some (fun s k => 2 * (s k - p k)),
    bounds := bounds,
    cons := cons,
    callback := false }

/-- `s + x*(s_next - s)`. -/
def stepPoint (s q : Nat → α) (x : α) : Nat → α := fun k => s k + x * (q k - s k)

/-- the limited minimisation (solve.py:26-32): one variable on `[0, 1]`, start `0`, no Jacobian;
`options = solver_options` (empty by default: SciPy's own `ftol` / `maxiter`). -/
def lineProblem (d : SDev α) (P : Mat α) (s q : Nat → α) : Problem α :=
  { dim := 1,
    fn := fun x => d.flatCost P (stepPoint s q (x 0)),
    x0 := fun _ => 0,
    jac := none,
    bounds := fun _ => (0, 1),
    cons := [],
    callback := false }

/-- the gradient step before projection, `s - stepsize * deriv(s, p)` flattened (solve.py:17-18). -/
def gradStep (d : SDev α) (P : Mat α) (s : Nat → α) (stepsize : α) : Nat → α :=
  fun k => s k - stepsize * d.flatDeriv P s k

/-- `step(device, p, s, stepsize)` (solve.py:11-39); `s` is the flattened input
(`np.array(s).flatten()`, so flat and device-shaped inputs are the same thing here). -/
def step (d : SDev α) (P : Mat α) (s : Nat → α) (stepsize : α)
    (proj lineMin : Problem α → Result α) : Except (Result α) (Mat α × Result α) :=
  let o := proj (projProblem d.dim (gradStep d P s stepsize) s d.flatBounds (d.cons.map (MCon.toFlat d.n)))
  if o.accepted then
    let ol := lineMin (lineProblem d P s o.x)
    if ol.accepted then .ok (unflat d.n (stepPoint s o.x (ol.x 0)), ol) else .error ol
  else .error o

/-- repeated steps, each from the flattened result of the previous one. -/
def steps (d : SDev α) (P : Mat α) (stepsize : α) (proj lineMin : Problem α → Result α) :
    Nat → (Nat → α) → Except (Result α) (Nat → α)
  | 0, s => .ok s
  | m + 1, s =>
    match step d P s stepsize proj lineMin with
    | .error e => .error e
    | .ok (S', _) => steps d P stepsize proj lineMin m (flat d.n S')

/-! ## `device.project` (start point only; the projection property itself is C18)

`Device.project` is the per-slot clamp of `HyperCube.project`; `DeviceSet.project` stacks the
children's; `MFDeviceSet.project` clamps the conduit sum with the wrapped device's bounds and
splits it equally over the `k` conduits. -/
inductive PShape (α : Type) where
  | leaf (lb hb : Nat → α)
  | mf (k : Nat) (lb hb : Nat → α)
  | node (cs : List (PShape α))

mutual
def PShape.rows : PShape α → Nat
  | .leaf _ _ => 1
  | .mf k _ _ => k
  | .node cs => PShape.rowsL cs
def PShape.rowsL : List (PShape α) → Nat
  | [] => 0
  | t :: ts => t.rows + PShape.rowsL ts
end

mutual
def PShape.project : PShape α → Mat α → Mat α
  | .leaf lb hb, S => fun _ i => clamp (lb i) (hb i) (S 0 i)
  | .mf k lb hb, S => fun _ i => clamp (lb i) (hb i) (colSum k S i) / natCast' k
  | .node cs, S => PShape.projectL cs S
def PShape.projectL : List (PShape α) → Mat α → Mat α
  | [], _ => fun _ _ => 0
  | t :: ts, S => fun r i =>
      if r < t.rows then t.project S r i else PShape.projectL ts (shiftRows t.rows S) (r - t.rows) i
end

/-- a model tree with horizon `n` as `solve` sees it. -/
def SDev.ofTree (t : Tree α) (n : Nat) (sh : PShape α) : SDev α :=
  { rows := t.rows, n := n, cost := t.cost, deriv := t.deriv, bounds := t.bounds, cons := t.cons n,
    project := sh.project }

/-! ## closed-form optima (used by C05(e) and by the driver) -/

/-- minimiser over `[xl, xh]` of `hlqCost pl ph xl xh x + x·p` when `pl ≤ ph`: the stationary point
of `hlqDeriv + p = 0`, clamped; on a linear curve (`pl = ph`) the lower bound when the slope is
positive, else the upper. -/
def hlqArgmin (pl ph xl xh p : α) : α :=
  if xl = xh then xl
  else if pl = ph then (if 0 < pl + p then xl else xh)
  else clamp xl xh (xl + (xh - xl) * ((-p - pl) / (ph - pl)))

/-- minimiser of the linear cost `x·p` over `[xl, xh]`. -/
def linArgmin (xl xh p : α) : α := if 0 < p then xl else xh

end
end DK
