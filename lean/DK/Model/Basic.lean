/-!
# DK.Model.Basic — scalar-generic foundations of the executable model

Every model definition is written once over an arbitrary scalar type `α` that
carries only *core* operations.  Instantiated at `Rat` the definitions are run by
the driver (`Main.lean`) against the Python implementation; instantiated at `ℝ`
(in `DK/Lemmas`, `DK/Props`, which import single Mathlib modules) the very same
definitions are the subject of the theorems.  No Mathlib import here.

Conventions: a flow / price / parameter vector is a function `Nat → α` read only
at indices `< n`; a matrix is `Nat → Nat → α` (row, slot).
-/
namespace DK

section
variable {α : Type} [Add α] [Sub α] [Mul α] [Div α] [Neg α]
  [OfNat α 0] [OfNat α 1] [OfNat α 2]
  [LT α] [LE α] [DecidableEq α] [DecidableLT α] [DecidableLE α]

/-- `sumTo n f = f 0 + … + f (n-1)` (numpy `.sum()` over a length-`n` vector). -/
def sumTo : Nat → (Nat → α) → α
  | 0, _ => 0
  | n+1, f => sumTo n f + f n

/-- `sumRange a b f = Σ_{a ≤ k < b} f k`; empty when `b ≤ a` (Python slice `[a:b]`). -/
def sumRange (a b : Nat) (f : Nat → α) : α := sumTo (b - a) (fun k => f (a + k))

/-- dot product of two length-`n` vectors. -/
def dot (n : Nat) (f g : Nat → α) : α := sumTo n (fun k => f k * g k)

/-- column sum over `R` rows of a matrix at slot `i` (numpy `s.sum(axis=0)[i]`). -/
def colSum (R : Nat) (S : Nat → Nat → α) (i : Nat) : α := sumTo R (fun r => S r i)

/-- `max lo (min hi p)` exactly as `HyperCube.project` writes it. -/
def clamp (lo hi p : α) : α :=
  let m := if hi ≤ p then hi else p      -- min hi p  (Python `min` returns the first on ties)
  if lo < m then m else lo               -- max lo m

/-- numpy `sign`. -/
def sgn (x : α) : Int := if (0 : α) < x then 1 else if x < (0 : α) then -1 else 0

/-- `e ** sign(r)` as numpy evaluates it on floats: `e`, `1` or `1/e`. -/
def effPow (e r : α) : α := if (0 : α) < r then e else if r < (0 : α) then 1 / e else 1

/-- Horner evaluation of a numpy `poly1d` coefficient list (highest degree first). -/
def polyEval (cs : List α) (x : α) : α := cs.foldl (fun acc c => acc * x + c) 0

end

/-- natural-number scalar embedding by repeated addition (core only). -/
def natCast' {α : Type} [Add α] [OfNat α 0] [OfNat α 1] : Nat → α
  | 0 => 0
  | n+1 => natCast' n + 1

section
variable {α : Type} [Add α] [Sub α] [Mul α] [OfNat α 0] [OfNat α 1]

/-- coefficients of the derivative of a numpy `poly1d` (highest degree first):
`[c_d, …, c_1, c_0] ↦ [d·c_d, …, 1·c_1]`. -/
def polyDer : List α → List α
  | [] => []
  | [_] => []
  | c :: cs => (natCast' cs.length * c) :: polyDer cs

/-- `x ^ k` for a natural exponent. -/
def npow (x : α) : Nat → α
  | 0 => 1
  | k+1 => npow x k * x
end

end DK
