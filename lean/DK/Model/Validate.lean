import DK.Model.Basic
/-!
# DK.Model.Validate — validation of settings (property C11)

Executable model (core Lean only) of what the constructors and setters of `device_kit` accept,
reject (and with which Python exception type), and store:

* `PyVal` — the Python values a caller can pass as `bounds`: numbers, `None`, and (possibly ragged)
  nested sequences of kind `list | tuple | ndarray`; `npShape` re-states what `np.array(v).shape` is
  (`none` = numpy raises `ValueError: inhomogeneous shape`, the code's `except ValueError: pass` path).
* `validateBoundsW` follows `BaseDevice.validate_bounds` (basedevice.py:172-215) branch by branch and
  returns the *width* of the array the code returns together with the per-slot `(low, high)` table that
  `lbounds = bounds[:,0]`, `hbounds = bounds[:,1]` read from it.  `validateBounds` (what
  `DeviceSet.sbounds` stores), `deviceBounds` (the `Device.bounds` setter: + `HyperCube`'s shape check),
  `genBounds` (`GDevice`/`PVDevice`: + `hbounds <= 0`).
* `setCbounds` — the `Device.cbounds` setter (device.py:143-170) including Python slice clipping and the
  state it leaves behind when it raises.
* the scalar validators of every class, written in the shape of the Python (`if … raise`), the setter
  state machine `setField` and the constructors as folds of `setField` over the keyword arguments in
  caller order, starting from the class defaults.

The modelled fragment: nesting depth ≤ 2 for bounds (deeper input that the code would turn into a 3-D
array answers `Err.unmodelled`, never a value), numeric parameters of the documented kinds (a scalar
parameter given a vector answers `Err.unmodelled`).  `Err.other` stands for any exception type that is
not `ValueError | TypeError | IndexError`.
-/
namespace DK.Validate

/-- the exception *type* Python raises (messages are never modelled). -/
inductive Err where
  | valueError | typeError | indexError | other | unmodelled
deriving DecidableEq, Repr, Inhabited

inductive SeqKind where
  | list | tuple | ndarray
deriving DecidableEq, Repr, Inhabited

/-- a Python value passed as a bounds specification. -/
inductive PyVal (α : Type) where
  | num (q : α)
  | none
  | seq (k : SeqKind) (xs : List (PyVal α))
deriving Inhabited

/-- the normalised per-slot `(low, high)` table; `none` = Python `None` (the code tolerates an all-`None` table). -/
abbrev Table (α : Type) := List (Option α × Option α)

/-- a row of the array the code ends up with: columns 0 and 1 and whatever follows them. -/
abbrev Row (α : Type) := Option α × Option α × List (Option α)

section shape
variable {α : Type}

mutual
/-- `np.array(v).shape`, or `none` when numpy raises `ValueError` (ragged nesting). -/
def npShape : PyVal α → Option (List Nat)
  | .num _ => some []
  | .none => some []
  | .seq _ xs =>
    match commonShape xs with
    | some sh => some (xs.length :: sh)
    | none => none
/-- the shape shared by all elements of a sequence (`[]` for the empty sequence). -/
def commonShape : List (PyVal α) → Option (List Nat)
  | [] => some []
  | [x] => npShape x
  | x :: y :: ys =>
    match npShape x, commonShape (y :: ys) with
    | some a, some b => if a = b then some a else none
    | _, _ => none
end

/-- a scalar entry: a number or `None`. -/
def scalar? : PyVal α → Option (Option α)
  | .num q => some (some q)
  | .none => some Option.none
  | .seq _ _ => Option.none

/-- a list of scalar entries (`none` when some entry is itself a sequence). -/
def scalars : List (PyVal α) → Option (List (Option α))
  | [] => some []
  | x :: xs =>
    match scalar? x, scalars xs with
    | some a, some as => some (a :: as)
    | _, _ => Option.none

/-- all entries of a sequence as scalars (`none` for a scalar or when some entry is itself a sequence). -/
def entries : PyVal α → Option (List (Option α))
  | .seq _ xs => scalars xs
  | _ => Option.none

/-- Python `len(v)`; `none` = `TypeError: object of type … has no len()`. -/
def pyLen : PyVal α → Option Nat
  | .seq _ xs => some xs.length
  | _ => Option.none

/-- `if isinstance(x, numbers.Number): x = np.repeat(x, len(self))`. -/
def normElem (n : Nat) : PyVal α → PyVal α
  | .num q => .seq .ndarray (List.replicate n (.num q))
  | v => v

/-- rows of an `(n, 2)` table. -/
def tableRows : List (PyVal α) → Option (List (Row α))
  | [] => some []
  | .seq _ [a, b] :: rest =>
    match scalar? a, scalar? b, tableRows rest with
    | some x, some y, some rs => some ((x, y, []) :: rs)
    | _, _, _ => Option.none
  | _ :: _ => Option.none

def zipRows : List (Option α) → List (Option α) → List (Row α)
  | x :: xs, y :: ys => (x, y, []) :: zipRows xs ys
  | _, _ => []

def rowAllNone (r : Row α) : Bool := r.1.isNone && r.2.1.isNone && r.2.2.all Option.isNone
def rowHasNone (r : Row α) : Bool := r.1.isNone || r.2.1.isNone
def rowPair (r : Row α) : Option α × Option α := (r.1, r.2.1)
end shape

section
variable {α : Type} [Add α] [Sub α] [Mul α] [Div α] [Neg α]
  [OfNat α 0] [OfNat α 1] [OfNat α 2]
  [LT α] [LE α] [DecidableEq α] [DecidableLT α] [DecidableLE α]

/-- `hbounds - lbounds >= 0` for one row without `None`. -/
def rowOrdered (r : Row α) : Bool :=
  match r.1, r.2.1 with
  | some l, some h => decide ((0 : α) ≤ h - l)
  | _, _ => false

/-- the tail of `validate_bounds`:
`if not np.vectorize(lambda v: v is None)(bounds).all() and not (hbounds - lbounds >= 0).all(): raise ValueError`
(`np.vectorize` refuses a size-0 array with `ValueError`; `None - x` is a `TypeError`). -/
def finish (w : Nat) (rows : List (Row α)) : Except Err (Nat × Table α) :=
  if rows.isEmpty then .error .valueError
  else if rows.all rowAllNone then .ok (w, rows.map rowPair)
  else if rows.any rowHasNone then .error .typeError
  else if rows.all rowOrdered then .ok (w, rows.map rowPair)
  else .error .valueError

/-- the `len(bounds) == 2` / `== 1` path after `bounds = [b0, b1]`. -/
def pairPath (n : Nat) (a b : PyVal α) : Except Err (Nat × Table α) :=
  let a' := normElem n a
  let b' := normElem n b
  match pyLen a', pyLen b' with
  | some la, some lb =>
    if la = lb ∧ lb = n then
      -- bounds = np.stack((b0, b1), axis=1)
      match entries a', entries b' with
      | some xs, some ys => finish 2 (zipRows xs ys)
      | _, _ =>
        match npShape a', npShape b' with
        | some sa, some sb => if sa = sb then .error .unmodelled else .error .valueError
        | _, _ => .error .valueError
    else if 2 ≠ n then .error .valueError          -- 'bounds has wrong length'
    else
      -- n = 2: `np.array([b0, b1])` is indexed as if it were a table
      match entries a', entries b' with
      | some xs, some ys =>
        if xs.length ≠ ys.length then .error .valueError     -- ragged: np.array raises
        else match xs, ys with
          | x0 :: x1 :: xr, y0 :: y1 :: yr => finish xs.length [(x0, x1, xr), (y0, y1, yr)]
          | _, _ => .error .indexError                          -- bounds[:, 0] / bounds[:, 1]
      | _, _ =>
        match npShape (.seq .list [a', b']) with
        | some _ => .error .unmodelled
        | Option.none => .error .valueError
  | _, _ => .error .typeError                        -- len(None)

/-- `BaseDevice.validate_bounds(bounds)` with `len(self) = n`: width of the returned array and the table
its columns 0 / 1 hold. -/
def validateBoundsW (v : PyVal α) (n : Nat) : Except Err (Nat × Table α) :=
  match v with
  | .num _ => .error .valueError                     -- not hasattr(bounds, '__len__')
  | .none => .error .valueError
  | .seq _ xs =>
    if npShape v = some [n, 2] then
      match tableRows xs with
      | some rows => finish 2 rows
      | Option.none => .error .unmodelled            -- unreachable (`tableRows_of_shape`)
    else
      match xs with
      | [a, b] => pairPath n a b
      | [a] => pairPath n a a
      | _ => .error .valueError                      -- 'bounds must have length 1, 2 or be a (n, 2) table'

/-- what `validate_bounds` hands to a caller that reads `[:,0]` / `[:,1]` (`DeviceSet.sbounds`). -/
def validateBounds (v : PyVal α) (n : Nat) : Except Err (Table α) :=
  match validateBoundsW v n with
  | .ok (_, t) => .ok t
  | .error e => .error e

/-- the `Device.bounds` setter: `validate_bounds`, then `HyperCube(bounds)` rejects any shape but `(·, 2)`. -/
def deviceBounds (v : PyVal α) (n : Nat) : Except Err (Table α) :=
  match validateBoundsW v n with
  | .ok (w, t) => if w = 2 then .ok t else .error .valueError
  | .error e => .error e

/-- `(self.hbounds <= 0).all()` of `GDevice` / `PVDevice` (`None <= 0` is a `TypeError`). -/
def hbNonpos (t : Table α) : Except Err Unit :=
  if t.any (fun r => r.2.isNone) then .error .typeError
  else if t.all (fun r => match r.2 with | some h => decide (h ≤ (0 : α)) | Option.none => false) then .ok ()
  else .error .valueError

/-- the `bounds` setter of `GDevice` / `PVDevice`: `validate_bounds`, the sign check on column 1 of what it returned,
and only then the base setter (which stores, and lets `HyperCube` refuse a width other than 2). -/
def genBounds (v : PyVal α) (n : Nat) : Except Err (Table α) :=
  match validateBoundsW v n with
  | .ok (w, t) =>
    match hbNonpos t with
    | .ok _ => if w = 2 then .ok t else .error .valueError
    | .error e => .error e
  | .error e => .error e

/-! ## cumulative bounds -/

/-- a stored cumulative bound `(low, high, start, end)`. -/
structure CBound4 (α : Type) where
  l : α
  h : α
  s : Int
  e : Int
deriving DecidableEq

/-- one element of a `cbounds` list: a 4-sequence, or anything else (`arity = none`: not a sequence). -/
inductive CbItem (α : Type) where
  | four (c : CBound4 α)
  | bad (arity : Option Nat)

/-- a `cbounds` argument. -/
inductive CbSpec (α : Type) where
  | pyNone
  | notSeq
  | pair (l h : α)
  | items (xs : List (CbItem α))

/-- one index of a Python slice over a length-`n` vector. -/
def clipIdx (n : Nat) (i : Int) : Nat :=
  if i < 0 then (i + (n : Int)).toNat else if (n : Int) < i then n else i.toNat

/-- `v[s:e].sum()` over a length-`n` vector (empty when the clipped stop is not after the clipped start). -/
def sliceSum (n : Nat) (v : Nat → α) (s e : Int) : α := sumRange (clipIdx n s) (clipIdx n e) v

/-- `0 <= start < end <= len(self)`: the slot range is a non-empty range inside the horizon. -/
def cbRangeOk (n : Nat) (c : CBound4 α) : Bool := decide (0 ≤ c.s ∧ c.s < c.e ∧ c.e ≤ (n : Int))

/-- the checks of `set_cbound` after the arity test, in the code's order. -/
def cb4Ok (n : Nat) (lb hb : Nat → α) (c : CBound4 α) : Bool :=
  if ¬ cbRangeOk n c then false
  else if c.h ≤ c.l then false
  else if sliceSum n lb c.s c.e > c.h then false
  else if sliceSum n hb c.s c.e < c.l then false
  else true

def cbItemOk (n : Nat) (lb hb : Nat → α) : CbItem α → Option (CBound4 α)
  | .four c => if cb4Ok n lb hb c then some c else Option.none
  | .bad _ => Option.none

/-- the `for cbound in cbounds: set_cbound(cbound)` loop: what has been appended, and whether it raised. -/
def cbLoop (n : Nat) (lb hb : Nat → α) : List (CbItem α) → List (CBound4 α) × Option Err
  | [] => ([], Option.none)
  | it :: rest =>
    match cbItemOk n lb hb it with
    | some c => let r := cbLoop n lb hb rest; (c :: r.1, r.2)
    | Option.none => ([], some .valueError)

/-- the `cbounds` setter: the 4-tuples accepted so far and the exception raised, if any (`_cbounds` is assigned
only when there is none).
(`len(cbounds) == 2 and not hasattr(cbounds[0], '__len__')` also catches a 2-list whose first element is a
number and whose second is a sequence: it is read as a 2-tuple and `seq <= number` is a `TypeError`.) -/
def setCbounds (n : Nat) (lb hb : Nat → α) : CbSpec α → Option (List (CBound4 α)) × Option Err
  | .pyNone => (Option.none, Option.none)
  | .notSeq => (some [], some .valueError)
  | .pair l h =>
    let c : CBound4 α := ⟨l, h, 0, (n : Int)⟩
    if cb4Ok n lb hb c then (some [c], Option.none) else (some [], some .valueError)
  | .items [.bad Option.none, _] => (some [], some .typeError)
  | .items xs => let r := cbLoop n lb hb xs; (some r.1, r.2)

/-- the checks of `set_cbound` when the bounds table is entirely `None`: `lbounds[s:e].sum()` is `0` for an empty
slice and anything else ends in a `TypeError` (`None + None`, `None > h`). `none` = accepted. -/
def cb4None (n : Nat) (c : CBound4 α) : Option Err :=
  if ¬ cbRangeOk n c then some .valueError
  else if c.h ≤ c.l then some .valueError
  else if clipIdx n c.e ≤ clipIdx n c.s then
    (if (0 : α) > c.h then some .valueError else if (0 : α) < c.l then some .valueError else Option.none)
  else some .typeError

def cbLoopNone (n : Nat) : List (CbItem α) → List (CBound4 α) × Option Err
  | [] => ([], Option.none)
  | .bad _ :: _ => ([], some .valueError)
  | .four c :: rest =>
    match cb4None n c with
    | some e => ([], some e)
    | Option.none => let r := cbLoopNone n rest; (c :: r.1, r.2)

/-- the `cbounds` setter on a device whose bounds table is entirely `None`. -/
def setCboundsNone (n : Nat) : CbSpec α → Option (List (CBound4 α)) × Option Err
  | .pyNone => (Option.none, Option.none)
  | .notSeq => (some [], some .valueError)
  | .pair l h =>
    match cb4None n ⟨l, h, 0, (n : Int)⟩ with
    | some e => (some [], some e)
    | Option.none => (some [⟨l, h, 0, (n : Int)⟩], Option.none)
  | .items [.bad Option.none, _] => (some [], some .typeError)
  | .items xs => let r := cbLoopNone n xs; (some r.1, r.2)

/-! ## scalar validators (written as the Python is: `if … : raise`) -/

def sC1Ok (c1 c2 : α) : Bool :=
  if c1 < 0 then false else if c1 ≤ c2 ∧ c2 > 0 then false else true
def sC2Ok (c2 c1 : α) : Bool :=
  if c2 < 0 then false else if c2 > c1 ∧ c1 > 0 then false else true
def sC3Ok (c3 : α) : Bool := if c3 < 0 then false else true
def sCapacityOk (c : α) : Bool := if c ≤ 0 then false else true
def sUnitOk (x : α) : Bool := if ¬ (0 ≤ x ∧ x ≤ 1) then false else true      -- start, reserve, damage_depth
def sRateOk (x : α) : Bool := if ¬ (0 < x ∧ x ≤ 1) then false else true       -- efficiency, sustainment
def sClipOk : Option α → Bool
  | Option.none => true
  | some x => if ¬ (x ≥ 1) then false else true
def cAOk (a : α) : Bool := if a > 0 then false else true
def tSustainmentOk (s : α) : Bool := if ¬ (0 ≤ s ∧ s ≤ 1) then false else true
def tEfficiencyOk (e : α) : Bool := if e = 0 then false else true
def tRangeOk (r : α) : Bool := if r < 0 then false else true

/-- a curve parameter: a scalar or a per-slot vector. -/
inductive PVal (α : Type) where
  | scalar (x : α)
  | vec (xs : List α)

def PVal.all (p : PVal α) (f : α → Bool) : Bool :=
  match p with
  | .scalar x => f x
  | .vec xs => xs.all f

/-- `v.ndim == 0 or len(v) == n`. -/
def PVal.lenOk (p : PVal α) (n : Nat) : Bool :=
  match p with
  | .scalar _ => true
  | .vec xs => xs.length = n

/-- `(xs <= ys).all()` for two vectors of the same length. -/
def allLe2 : List α → List α → Bool
  | x :: xs, y :: ys => decide (x ≤ y) && allLe2 xs ys
  | _, _ => true

/-- numpy broadcasting of `(p <= q).all()` for validated parameters (vectors have the device's length). -/
def PVal.allLe (p q : PVal α) : Bool :=
  match p, q with
  | .scalar x, .scalar y => decide (x ≤ y)
  | .scalar x, .vec ys => ys.all (fun y => decide (x ≤ y))
  | .vec xs, .scalar y => xs.all (fun x => decide (x ≤ y))
  | .vec xs, .vec ys => allLe2 xs ys

/-- `IDevice._validate_param(p, n)`. -/
def iParamOk (p : PVal α) (n : Nat) : Bool :=
  if ¬ p.lenOk n then false else if ¬ p.all (fun x => decide (x ≥ 0)) then false else true
/-- the `IDevice.b` setter. -/
def iBOk (p : PVal α) (n : Nat) : Bool :=
  if ¬ iParamOk p n then false else if ¬ p.all (fun x => decide (x > 0)) then false else true
/-- `IDevice2._validate_param(p)` / `CDevice2._validate_param(p)`. -/
def hlParamOk (p : PVal α) (n : Nat) : Bool :=
  if ¬ p.lenOk n then false else if ¬ p.all (fun x => decide (x ≤ 0)) then false else true
/-- the `p_h` setter against the current `p_l`. -/
def pHOk (v pl : PVal α) (n : Nat) : Bool :=
  if ¬ hlParamOk v n then false else if ¬ pl.allLe v then false else true
/-- the `p_l` setter against the current `p_h`. -/
def pLOk (v ph : PVal α) (n : Nat) : Bool :=
  if ¬ hlParamOk v n then false else if ¬ v.allLe ph then false else true

/-! ## set-level checks -/

/-- `DeviceSet.__init__` before `sbounds`: equal lengths (an empty list dies in `np.vectorize`),
then the id regex (`idOk = none`: `id` is not a string — `re.match` raises `TypeError`). -/
def deviceSetCheck (lens : List Nat) (idOk : Option Bool) : Except Err Nat :=
  match lens with
  | [] => .error .valueError
  | l0 :: rest =>
    if ¬ rest.all (fun l => l = l0) then .error .valueError
    else match idOk with
      | Option.none => .error .typeError
      | some false => .error .valueError
      | some true => .ok l0

/-- `DeviceSet(id, devices, sbounds)`: stored `sbounds`. -/
def deviceSetCtor (lens : List Nat) (idOk : Option Bool) (sb : Option (PyVal α)) : Except Err (Option (Table α)) :=
  match deviceSetCheck lens idOk with
  | .error e => .error e
  | .ok n =>
    match sb with
    | Option.none => .ok Option.none
    | some v => match validateBounds v n with
      | .ok t => .ok (some t)
      | .error e => .error e

/-- `MFDeviceSet.__init__`: non-empty flows, one-directional wrapped device. -/
def mfCheck (nFlows : Nat) (n : Nat) (lb hb : Nat → α) : Bool :=
  if nFlows = 0 then false
  else if (List.range n).any (fun i => decide (lb i < 0)) ∧ (List.range n).any (fun i => decide (hb i > 0)) then false
  else true

/-- `TwoRatioMFDeviceSet.__init__` after `super().__init__`. -/
def twoRatioCheck (nFlows : Nat) (ratiosLen : Option Nat) (ctypeOk : Bool) : Bool :=
  if nFlows ≠ 2 then false
  else if (match ratiosLen with | some k => decide (k ≠ nFlows) | Option.none => true) then false
  else if ¬ ctypeOk then false
  else true

/-! ## settings, setters, constructors -/

inductive Cls where
  | device | cdevice | cdevice2 | idevice | idevice2 | gdevice | pvdevice | sdevice | adevice
deriving DecidableEq, Repr, Inhabited

inductive Field where
  | bounds | cbounds
  | c1 | c2 | c3 | capacity | damageDepth | start | reserve | efficiency | sustainment | rateClip
  | a | b | c | pL | pH | costCoeffs
deriving DecidableEq, Repr, Inhabited

/-- a value assigned to a field. -/
inductive Val (α : Type) where
  | scalar (x : α)
  | vec (xs : List α)
  | pyNone
  | optPair (a b : Option α)
  | ndim (k rows : Nat)            -- an array argument of which only `np.array(·).ndim` and `len(·)` matter (`cost_coeffs`)
  | bounds (v : PyVal α)
  | cbounds (c : CbSpec α)

/-- what a device stores (and reports through its properties / `to_dict`). -/
structure Dev (α : Type) where
  cls : Cls
  n : Nat
  table : Table α                            -- `_bounds` as read by `lbounds` / `hbounds`
  cbounds : Option (List (CBound4 α))
  c1 : α
  c2 : α
  c3 : α
  capacity : α
  damageDepth : α
  start : α
  reserve : α
  efficiency : α
  sustainment : α
  rateClip : Option α × Option α
  ia : PVal α
  ib : PVal α
  ic : PVal α
  pl : PVal α
  ph : PVal α
  ca : α
  cb : α
  coeffNdim : Option (Nat × Nat)             -- (ndim, number of rows) of the stored `cost_coeffs`
  extra : List (Field × Val α)               -- plain attributes (keys the class has no property for)

/-- class defaults (`_c1 = 1.0`, `_p_l = -1`, …) before `__init__` runs. -/
def Dev.default (cls : Cls) (n : Nat) : Dev α :=
  { cls := cls, n := n, table := [], cbounds := Option.none,
    c1 := 1, c2 := 0, c3 := 0, capacity := natCast' 10, damageDepth := 0, start := 0, reserve := 0,
    efficiency := 1, sustainment := 1, rateClip := (Option.none, Option.none),
    ia := .scalar 0, ib := .scalar 2, ic := .scalar 1, pl := .scalar (-1), ph := .scalar 0,
    ca := 0, cb := 0, coeffNdim := Option.none, extra := [] }

/-- does the class define a property (with a setter) of that name? Other keys become plain attributes. -/
def owns : Cls → Field → Bool
  | _, .bounds => true
  | _, .cbounds => true
  | .sdevice, .c1 | .sdevice, .c2 | .sdevice, .c3 | .sdevice, .capacity | .sdevice, .damageDepth
  | .sdevice, .start | .sdevice, .reserve | .sdevice, .efficiency | .sdevice, .sustainment | .sdevice, .rateClip => true
  | .idevice, .a | .idevice, .b | .idevice, .c => true
  | .idevice2, .pL | .idevice2, .pH | .cdevice2, .pL | .cdevice2, .pH => true
  | .cdevice, .a | .cdevice, .b => true
  | .gdevice, .costCoeffs => true
  | _, _ => false

def lbOf (t : Table α) : Nat → α := fun i => match t[i]? with | some (some l, _) => l | _ => 0
def hbOf (t : Table α) : Nat → α := fun i => match t[i]? with | some (_, some h) => h | _ => 0
def tableNumeric (t : Table α) : Bool := t.all (fun r => r.1.isSome && r.2.isSome)

def asPVal : Val α → Option (PVal α)
  | .scalar x => some (.scalar x)
  | .vec xs => some (.vec xs)
  | _ => Option.none

/-- `CDevice2._validate_param`: `if v.ndim != 0: raise` — its curve applies to the scalar flow sum. -/
def scalarIfC2 (cls : Cls) (p : PVal α) : Bool :=
  match cls, p with
  | .cdevice2, .vec _ => false
  | _, _ => true

/-- accept `d'` when `ok`, else `ValueError` with the state unchanged. -/
def guardSet (d d' : Dev α) (ok : Bool) : Dev α × Option Err :=
  if ok then (d', Option.none) else (d, some .valueError)

/-- a scalar-valued setter. -/
def scalarSet (d : Dev α) (v : Val α) (ok : α → Bool) (store : α → Dev α) : Dev α × Option Err :=
  match v with
  | .scalar x => guardSet d (store x) (ok x)
  | _ => (d, some .unmodelled)

/-- a scalar-or-vector-valued setter. -/
def pvalSet (d : Dev α) (v : Val α) (ok : PVal α → Bool) (store : PVal α → Dev α) : Dev α × Option Err :=
  match asPVal v with
  | some p => guardSet d (store p) (ok p)
  | Option.none => (d, some .unmodelled)

/-- `setattr(device, field, value)`: the state afterwards and the exception raised (if any).
Every setter validates before it stores, with one exception: `bounds` on a length-2 device when `validate_bounds`
mis-reads the argument (`Misread`): `_bounds` is assigned before `HyperCube` refuses the shape. -/
def setField (d : Dev α) (f : Field) (v : Val α) : Dev α × Option Err :=
  if ¬ owns d.cls f then ({ d with extra := d.extra ++ [(f, v)] }, Option.none) else
  match f with
  | .bounds =>
    match v with
    | .bounds bv =>
      match validateBoundsW bv d.n with
      | .error e => (d, some e)
      | .ok (w, t) =>
        let d' := { d with table := t }
        -- generators check the sign of the upper bounds *before* anything is stored
        match (if d.cls = .gdevice ∨ d.cls = .pvdevice then hbNonpos t else .ok ()) with
        | .error e => (d, some e)
        | .ok _ =>
          -- `self._bounds = bounds` comes before `HyperCube(bounds)` refuses the shape: on a mis-read (only at n = 2)
          -- the rejected table is retained
          if w ≠ 2 then (d', some .valueError) else (d', Option.none)
    | _ => (d, some .unmodelled)
  | .cbounds =>
    match v with
    | .cbounds spec =>
      match spec with
      | .pyNone => ({ d with cbounds := Option.none }, Option.none)
      | _ =>
        let r := if tableNumeric d.table then setCbounds d.n (lbOf d.table) (hbOf d.table) spec
                 else setCboundsNone d.n spec
        -- the accepted 4-tuples are collected aside and assigned only when every one passed
        match r.2 with
        | Option.none => ({ d with cbounds := r.1 }, Option.none)
        | some e => (d, some e)
    | _ => (d, some .unmodelled)
  | .c1 => scalarSet d v (fun x => sC1Ok x d.c2) (fun x => { d with c1 := x })
  | .c2 => scalarSet d v (fun x => sC2Ok x d.c1) (fun x => { d with c2 := x })
  | .c3 => scalarSet d v sC3Ok (fun x => { d with c3 := x })
  | .capacity => scalarSet d v sCapacityOk (fun x => { d with capacity := x })
  | .damageDepth => scalarSet d v sUnitOk (fun x => { d with damageDepth := x })
  | .start => scalarSet d v sUnitOk (fun x => { d with start := x })
  | .reserve => scalarSet d v sUnitOk (fun x => { d with reserve := x })
  | .efficiency => scalarSet d v sRateOk (fun x => { d with efficiency := x })
  | .sustainment => scalarSet d v sRateOk (fun x => { d with sustainment := x })
  | .rateClip =>
    match v with
    | .scalar x => guardSet d { d with rateClip := (some x, some x) } (sClipOk (some x))
    | .pyNone => ({ d with rateClip := (Option.none, Option.none) }, Option.none)
    | .optPair a b => guardSet d { d with rateClip := (a, b) } (sClipOk a && sClipOk b)
    | _ => (d, some .unmodelled)
  | .a =>
    if d.cls = .cdevice then scalarSet d v cAOk (fun x => { d with ca := x })
    else pvalSet d v (fun p => iParamOk p d.n) (fun p => { d with ia := p })
  | .b =>
    if d.cls = .cdevice then scalarSet d v (fun _ => true) (fun x => { d with cb := x })
    else pvalSet d v (fun p => iBOk p d.n) (fun p => { d with ib := p })
  | .c => pvalSet d v (fun p => iParamOk p d.n) (fun p => { d with ic := p })
  | .pL => pvalSet d v (fun p => scalarIfC2 d.cls p && pLOk p d.ph d.n) (fun p => { d with pl := p })
  | .pH => pvalSet d v (fun p => scalarIfC2 d.cls p && pHOk p d.pl d.n) (fun p => { d with ph := p })
  | .costCoeffs =>
    match v with
    | .ndim k rows =>
      -- one polynomial, or a per-slot table with one row per slot; checked before anything is stored
      guardSet d { d with coeffNdim := some (k, rows) } (decide (k = 1 ∨ (k = 2 ∧ rows = d.n)))
    | _ => (d, some .unmodelled)

/-- apply assignments in order, stopping at the first exception (a constructor, or a caller that does not catch). -/
def setAll (d : Dev α) : List (Field × Val α) → Except Err (Dev α)
  | [] => .ok d
  | (f, v) :: rest =>
    match setField d f v with
    | (d', Option.none) => setAll d' rest
    | (_, some e) => .error e

/-- apply assignments in order, *catching* every exception and carrying on with whatever state it left. -/
def runAll (d : Dev α) : List (Field × Val α) → Dev α
  | [] => d
  | (f, v) :: rest => runAll (setField d f v).1 rest

/-- `RangesFunction._validate_ranges` on the stored cumulative bounds (CDevice2 with ≥ 2 of them). -/
def rangesOk : Int → List (CBound4 α) → Bool
  | _, [] => true
  | prev, c :: rest => decide (c.s - prev = 0) && rangesOk c.e rest

/-- `if not self.cbounds: self.cbounds = [self.lbounds.sum(), self.hbounds.sum()]` (CDevice2.__init__). -/
def cdevice2Fill (d : Dev α) : Except Err (Dev α) :=
  match d.cbounds with
  | some (_ :: _) => .ok d
  | _ =>
    if ¬ tableNumeric d.table then .error .typeError else     -- `None + None` / `None <= None`
    match setField d .cbounds (.cbounds (.pair (sumTo d.n (lbOf d.table)) (sumTo d.n (hbOf d.table)))) with
    | (d', Option.none) => .ok d'
    | (_, some e) => .error e

/-- building the cost function: with two or more cumulative bounds `RangesFunction` wants contiguous ranges from 0. -/
def cdevice2Ranges (d : Dev α) : Except Err (Dev α) :=
  match d.cbounds with
  | some (c :: c2 :: cs) =>
    if ((c :: c2 :: cs).getLast?.map (·.e)) ≠ some (d.n : Int) then .error .valueError    -- 'must cover the whole horizon'
    else if rangesOk 0 (c :: c2 :: cs) then .ok d else .error .valueError
  | _ => .ok d

/-- the part of `CDevice2.__init__` after `super().__init__`: default cumulative bounds, cost-function ranges. -/
def cdevice2Post (d : Dev α) : Except Err (Dev α) :=
  match cdevice2Fill d with
  | .error e => .error e
  | .ok d' => cdevice2Ranges d'

/-- `Cls(id, n, bounds, cbounds, **kwargs)`: `bounds`, `cbounds`, then the keyword arguments in caller order. -/
def construct (cls : Cls) (n : Nat) (bv : PyVal α) (cb : CbSpec α) (kw : List (Field × Val α)) : Except Err (Dev α) :=
  match setAll (Dev.default cls n) ((.bounds, .bounds bv) :: (.cbounds, .cbounds cb) :: kw) with
  | .error e => .error e
  | .ok d => if cls = .cdevice2 then cdevice2Post d else .ok d

/-- what a `TDevice` stores and reports. -/
structure TDev (α : Type) where
  table : Table α
  cbounds : Option (List (CBound4 α))
  sustainment : α
  efficiency : α
  tInit : α
  tOptimal : α
  tRange : α
  tExternal : List α
  c : PVal α

/-- `TDevice.__init__` after `super().__init__`, in the code's order. -/
def tdeviceCheck (n : Nat) (sustainment efficiency tRange : α) (lenTExternal : Nat) (c : PVal α) : Bool :=
  if ¬ tSustainmentOk sustainment then false
  else if ¬ tEfficiencyOk efficiency then false
  else if ¬ tRangeOk tRange then false
  else if lenTExternal ≠ n then false
  else iParamOk c n

/-- `TDevice(id, n, bounds, sustainment, efficiency, t_init, t_optimal, t_range, t_external, c, cbounds)`. -/
def tdeviceCtor (n : Nat) (bv : PyVal α) (cb : CbSpec α) (sustainment efficiency tInit tOptimal tRange : α)
    (tExternal : List α) (c : PVal α) : Except Err (TDev α) :=
  match construct .device n bv cb [] with
  | .error e => .error e
  | .ok d =>
    if tdeviceCheck n sustainment efficiency tRange tExternal.length c then
      .ok { table := d.table, cbounds := d.cbounds, sustainment := sustainment, efficiency := efficiency, tInit := tInit,
            tOptimal := tOptimal, tRange := tRange, tExternal := tExternal, c := c }
    else .error .valueError

end
end DK.Validate
