import DK.Model.Tree
/-!
# Serialisation: `to_dict` / `from_dict` (device.py:31-36, 181-186; basedevice.py:216-219; the
`to_dict` overrides of tdevice.py, windowdevice.py, deviceset.py, mfdeviceset.py,
tworatiomfdeviceset.py, subbalanceddeviceset.py)

Two layers, core Lean only.

**Part A — the class table.**  `ClassInfo` is what `vk/translate_classes.py` (tie T1) extracts from the
CURRENT source of every shipped class: constructor parameters, the statements of `__init__` that
touch `_keys` / forward to `super().__init__`, the shape of `to_dict`, properties and setters, the
base-class chain, and (independently, through `inspect.signature`) the run-time signature.
`runInit` / `runDump` replay those statements symbolically: given the keyword names of a call
`cls(**kw)` they say whether the call *binds* (every required parameter supplied, no unexpected
keyword, every `**kwargs` key settable) and which keys `to_dict()` then dumps.  The table theorems of
`DK/Props/C16.lean` are `decide`d over the generated table `DK.Gen.classes`.

**Part B — values.**  A dictionary is an ordered list of (key, value); `construct` is the
constructor seen through `from_dict(d) = cls(**d)`; `toDict` is the dump.  Validators are an
*arbitrary* predicate `acc` of the constructed state (C11 is the property about what they accept;
C16 only needs that the same code validates the same values twice).  Child devices, preference
functions and user constraints are live Python objects that `to_dict` stores *by reference*:
the model keeps them as opaque values (`δ`, `Fn α`, `List (Con α)`) and the round trip is the
identity on them.
-/
namespace DK.Serial

/-! # Part A — structural class table -/

structure Param where
  name : String
  hasDefault : Bool
deriving DecidableEq, Repr, Inhabited

/-- one statement of an `__init__` body that matters for serialisation, in source order. -/
inductive InitOp where
  /-- `super().__init__(p0, p1, …, k0=…, k1=…, **kwargs)`: the own-parameter names passed
  positionally (`""` for any other expression), the keyword names, whether the own `**` dict is forwarded. -/
  | callSuper (pos : List String) (kw : List String) (star : Bool)
  /-- `self._keys = ['a', 'b', …]` -/
  | setKeys (ks : List String)
  /-- `self._keys += ['a', …]` / `.append('a')` / `.extend([...])` -/
  | addKeys (ks : List String)
  /-- `self._keys += list(<**name>.keys())` -/
  | addVarkwKeys
  /-- `self._keys.remove('a')` -/
  | removeKey (k : String)
  /-- `for k, v in <**name>.items(): setattr(self, k, v)` -/
  | setattrVarkw
  /-- a statement that mentions `_keys` / `super().__init__` in a form the extractor does not understand -/
  | unknown (what : String)
deriving DecidableEq, Repr

structure InitInfo where
  params : List Param
  varkw : Option String
  ops : List InitOp
deriving DecidableEq, Repr

/-- one step of a `to_dict` body. -/
inductive DumpOp where
  /-- `{k: getattr(self, k) for k in self._keys}` -/
  | fromKeys
  /-- `super().to_dict()` -/
  | fromSuper
  /-- `{'a': …, 'b': …}` -/
  | literal (ks : List String)
  /-- `d.update({'a': …})` / `d['a'] = …` -/
  | update (ks : List String)
  /-- `del d['a']` / `d.pop('a')` -/
  | remove (ks : List String)
  /-- `if 'a' in d: d['a'] = …` — replaces a value, never changes the key set -/
  | overwrite (ks : List String)
  | unknown (what : String)
deriving DecidableEq, Repr

/-- own `from_dict`: the classmethod `return cls(**d)` (basedevice.py:216-219), or anything else. -/
inductive FromDict where
  | ctorOfDict
  | other (what : String)
deriving DecidableEq, Repr

structure ClassInfo where
  name : String
  /-- `cls.__mro__[1:]` without `object` / `ABC`, nearest first -/
  bases : List String
  abstract : Bool
  /-- own `__init__` (AST), `none` when inherited -/
  init : Option InitInfo
  /-- own `to_dict` (AST), `none` when inherited -/
  dump : Option (List DumpOp)
  /-- own `from_dict` (AST), `none` when inherited -/
  fromDict : Option FromDict
  /-- own `@property` names -/
  props : List String
  /-- own `@x.setter` names -/
  setters : List String
  /-- `inspect.signature(cls)`: named parameters and the `**` name -/
  sigParams : List Param
  sigVarkw : Option String
deriving DecidableEq, Repr

abbrev Table := List ClassInfo

def find (tbl : Table) (n : String) : Option ClassInfo := tbl.find? (fun c => c.name == n)

/-- the class followed by its bases, looked up in the table. -/
def mro (tbl : Table) (c : ClassInfo) : List ClassInfo := c :: c.bases.filterMap (find tbl)

/-- every base of the class is in the table (nothing is silently dropped by `mro`). -/
def mroResolved (tbl : Table) (c : ClassInfo) : Bool := c.bases.all (fun b => (find tbl b).isSome)

/-- first class of a chain that defines `__init__`, with the rest of the chain after it. -/
def firstInit : List ClassInfo → Option (InitInfo × List ClassInfo)
  | [] => none
  | c :: rest => match c.init with
    | some ii => some (ii, rest)
    | none => firstInit rest

def firstDump : List ClassInfo → Option (List DumpOp × List ClassInfo)
  | [] => none
  | c :: rest => match c.dump with
    | some ops => some (ops, rest)
    | none => firstDump rest

/-- the constructor that runs for `c`: AST parameters of the first `__init__` along the MRO. -/
def ctorParams (tbl : Table) (c : ClassInfo) : List Param :=
  match firstInit (mro tbl c) with | some (ii, _) => ii.params | none => []
def ctorVarkw (tbl : Table) (c : ClassInfo) : Option String :=
  match firstInit (mro tbl c) with | some (ii, _) => ii.varkw | none => none
def reqKeys (tbl : Table) (c : ClassInfo) : List String :=
  ((ctorParams tbl c).filter (fun p => !p.hasDefault)).map (·.name)
def allKeys (tbl : Table) (c : ClassInfo) : List String := (ctorParams tbl c).map (·.name)

/-- `setattr(self, k, v)` works on an instance of `c`: the first class along the MRO that defines a
property `k` also defines its setter, or no class defines a property `k` (plain attribute). -/
def settable (tbl : Table) (c : ClassInfo) (k : String) : Bool :=
  match (mro tbl c).find? (fun b => b.props.contains k) with
  | some b => b.setters.contains k
  | none => true

/-- parameters with their position. -/
def indexed : List Param → Nat → List (Param × Nat)
  | [], _ => []
  | p :: ps, i => (p, i) :: indexed ps (i + 1)

/-- Python call binding for `f(a_0, …, a_{npos-1}, k_0=…, …)` against named parameters `ps`
(+ `**` if `varkw`): not too many positionals, every required parameter bound, none bound
twice, no unexpected keyword. -/
def bindOk (ps : List Param) (varkw : Bool) (npos : Nat) (kws : List String) : Bool :=
  decide (npos ≤ ps.length)
  && (indexed ps 0).all (fun pi => pi.1.hasDefault || decide (pi.2 < npos) || kws.contains pi.1.name)
  && (indexed ps 0).all (fun pi => !(decide (pi.2 < npos) && kws.contains pi.1.name))
  && (varkw || kws.all (fun k => (ps.map (·.name)).contains k))

/-- symbolic state of `__init__`: the `_keys` list (`none` = still the class attribute `None`), the
names assigned by the `setattr` loop, and whether everything so far was well-formed. -/
structure KState where
  keys : Option (List String) := none
  attrs : List String := []
  ok : Bool := true
deriving DecidableEq, Repr

def KState.fail (st : KState) : KState := { st with ok := false }

/-- replay the recognised statements of one `__init__` body. `super npos kws` runs the next
`__init__` along the MRO; `extra` are the keyword names that landed in the own `**` dict. -/
def runOps (super : Nat → List String → KState → KState) (canSet : String → Bool)
    (extra : List String) : List InitOp → KState → KState
  | [], st => st
  | op :: ops, st =>
    let st' : KState := match op with
      | .callSuper pos kw star => super pos.length (kw ++ (if star then extra else [])) st
      | .setKeys ks => { st with keys := some ks }
      | .addKeys ks => match st.keys with
          | some l => { st with keys := some (l ++ ks) }
          | none => st.fail
      | .addVarkwKeys => match st.keys with
          | some l => { st with keys := some (l ++ extra) }
          | none => st.fail
      | .removeKey k => match st.keys with
          | some l => if l.contains k then { st with keys := some (l.erase k) } else st.fail
          | none => st.fail
      | .setattrVarkw => { st with attrs := st.attrs ++ extra, ok := st.ok && extra.all canSet }
      | .unknown _ => st.fail
    runOps super canSet extra ops st'

/-- run the constructor chain for an instance of `self`: `chain` is the part of the MRO still to
search for an `__init__`, called with `npos` positional arguments and keyword names `kws`. -/
def runInit (tbl : Table) (self : ClassInfo) : Nat → List ClassInfo → Nat → List String → KState → KState
  | 0, _, _, _, st => st.fail
  | fuel + 1, chain, npos, kws, st =>
    match firstInit chain with
    | none => { st with ok := st.ok && npos == 0 && kws.isEmpty }      -- `object.__init__()`
    | some (ii, rest) =>
      let named := ii.params.map (·.name)
      let extra := kws.filter (fun k => !named.contains k)
      let st := { st with ok := st.ok && bindOk ii.params ii.varkw.isSome npos kws }
      runOps (fun np ks s => runInit tbl self fuel rest np ks s) (settable tbl self) extra ii.ops st

def hasUnknown (ops : List DumpOp) : Bool := ops.any (fun o => match o with | .unknown _ => true | _ => false)

/-- replay one `to_dict` body; `sup` is what `super().to_dict()` returns, `keys` the `_keys` list. -/
def dumpOps (sup keys : Option (List String)) : List DumpOp → Option (List String) → Option (List String)
  | [], cur => cur
  | op :: ops, cur =>
    let cur' : Option (List String) := match op with
      | .fromKeys => keys
      | .fromSuper => sup
      | .literal ks => some ks
      | .update ks => cur.map (fun l => l ++ ks.filter (fun k => !l.contains k))
      | .remove ks => cur.map (fun l => l.filter (fun k => !ks.contains k))
      | .overwrite _ => cur
      | .unknown _ => none
    dumpOps sup keys ops cur'

def runDump : Nat → List ClassInfo → Option (List String) → Option (List String)
  | 0, _, _ => none
  | fuel + 1, chain, keys =>
    match firstDump chain with
    | none => none                                                     -- abstract `to_dict`
    | some (ops, rest) =>
      if hasUnknown ops then none else dumpOps (runDump fuel rest keys) keys ops none

/-- the constructor state after `cls(**{k: … for k in kws})`. -/
def construct (tbl : Table) (c : ClassInfo) (kws : List String) : KState :=
  runInit tbl c (tbl.length + 1) (mro tbl c) 0 kws {}

/-- `cls(**{k: … for k in kws})` binds along the whole `__init__` chain. -/
def callOk (tbl : Table) (c : ClassInfo) (kws : List String) : Bool := (construct tbl c kws).ok

/-- keys of `cls(**kw).to_dict()` for a call with keyword names `kws`; `none` when the call does not
bind or a body is not understood. -/
def dumped (tbl : Table) (c : ClassInfo) (kws : List String) : Option (List String) :=
  let st := construct tbl c kws
  if st.ok then runDump (tbl.length + 1) (mro tbl c) st.keys else none

/-- a keyword name no class uses: stands for "some extra `**kwargs` key". -/
def probeKey : String := "§kw"

/-- the calls the table theorems examine for a class: only the required arguments; every named
argument; and (when `**kwargs` is accepted) every named argument plus an extra key. -/
def probeCalls (tbl : Table) (c : ClassInfo) : List (List String) :=
  [reqKeys tbl c, allKeys tbl c] ++
  (if (ctorVarkw tbl c).isSome then [allKeys tbl c ++ [probeKey]] else [])

def concrete (tbl : Table) : List ClassInfo := tbl.filter (fun c => !c.abstract)

/-! ## the checks, as Booleans over a table (stated as theorems over `Gen.classes` in Props/C16) -/

/-- AST and `inspect.signature` agree on the constructor. -/
def sigAgrees (tbl : Table) (c : ClassInfo) : Bool :=
  ctorParams tbl c == c.sigParams && ctorVarkw tbl c == c.sigVarkw

/-- every probe call binds and `to_dict` is understood. -/
def dumpDefined (tbl : Table) (c : ClassInfo) : Bool :=
  (probeCalls tbl c).all (fun kws => (dumped tbl c kws).isSome)

/-- key `k` is an accepted constructor argument of `c`: a named parameter, or absorbed by
`**kwargs` and settable on the instance. -/
def acceptsKey (tbl : Table) (c : ClassInfo) (k : String) : Bool :=
  (allKeys tbl c).contains k || ((ctorVarkw tbl c).isSome && settable tbl c k)

/-- every dumped key is an accepted constructor argument. -/
def dumpedKeysAccepted (tbl : Table) (c : ClassInfo) : Bool :=
  (probeCalls tbl c).all (fun kws => match dumped tbl c kws with
    | some ks => ks.all (acceptsKey tbl c)
    | none => false)

/-- every required constructor argument is dumped. -/
def requiredDumped (tbl : Table) (c : ClassInfo) : Bool :=
  (probeCalls tbl c).all (fun kws => match dumped tbl c kws with
    | some ks => (reqKeys tbl c).all ks.contains
    | none => false)

/-- every constructor argument whose value can differ from its default is dumped: every named
argument (passed or not), and every key that was passed through `**kwargs` — which must also have
been assigned on the instance. -/
def dumpCoversCtor (tbl : Table) (c : ClassInfo) : Bool :=
  (probeCalls tbl c).all (fun kws => match dumped tbl c kws with
    | some ks => (allKeys tbl c).all ks.contains && kws.all ks.contains
    | none => false)
  && ((ctorVarkw tbl c).isNone || (construct tbl c (allKeys tbl c ++ [probeKey])).attrs.contains probeKey)

/-- `cls(**obj.to_dict())` binds, and the twin dumps the same keys in the same order. -/
def fromDictBinds (tbl : Table) (c : ClassInfo) : Bool :=
  (probeCalls tbl c).all (fun kws => match dumped tbl c kws with
    | some ks => callOk tbl c ks && dumped tbl c ks == some ks
    | none => false)

/-- `cls.from_dict(d)` IS `cls(**d)`: the first `from_dict` along the MRO is the plain classmethod — nothing is
dropped from, added to, reordered in or edited in the dictionary on its way to the constructor.  (The table theorems
above describe `cls(**dump)`; this is what makes them statements about `from_dict(dump)`.) -/
def fromDictIsCtor (tbl : Table) (c : ClassInfo) : Bool :=
  match (mro tbl c).find? (fun b => b.fromDict.isSome) with
  | some b => b.fromDict == some .ctorOfDict
  | none => false

def tableOk (tbl : Table) : Bool :=
  (concrete tbl).all (fun c => mroResolved tbl c && sigAgrees tbl c && dumpDefined tbl c && dumpedKeysAccepted tbl c
    && requiredDumped tbl c && dumpCoversCtor tbl c && fromDictBinds tbl c && fromDictIsCtor tbl c)

/-- keys `to_dict()` dumps for the class called `name` constructed with every named argument plus
the extra `**kwargs` keys `extra` (T2 and the model bridge use this). -/
def dumpedFor (tbl : Table) (name : String) (extra : List String) : Option (List String) :=
  match find tbl name with
  | some c => dumped tbl c (allKeys tbl c ++ extra)
  | none => none


/-! # Part B — values, dictionaries, constructors and dumps -/

section Values
variable {α δ : Type}

/-- a Python value as it travels through `to_dict` / `cls(**d)`.  `δ` is the type of live device
objects (children of a set, the device wrapped by a multi-flow adaptor): they are stored and passed
BY REFERENCE, so the model treats them as opaque. -/
inductive Val (α δ : Type) where
  | none
  | str (s : String)
  | nat (k : Nat)
  | int (k : Int)
  | bool (b : Bool)
  | num (x : α)
  | vec (v : List α)
  | ivec (v : List Int)
  | mat (m : List (List α))
  /-- `(lo, hi)` of scalars: the broadcast form of bounds, the 2-tuple form of cbounds -/
  | pairNum (lo hi : α)
  /-- `(lows, highs)` of vectors -/
  | pairVec (lo hi : List α)
  /-- a `(len, 2)` array: the STORED form of `bounds` / `sbounds` -/
  | table (rows : List (α × α))
  /-- a list of 4-tuples `(low, high, start, end)`: the STORED form of `cbounds` -/
  | cbs (l : List (CBound α))
  | strs (l : List String)
  /-- `SDevice.rate_clip` as stored: a pair of optional factors -/
  | clip (a b : Option α)
  /-- a live preference `Function` object (ADevice `f`) -/
  | fn (f : Fn α)
  /-- a live list of SciPy constraint dicts (ADevice `constraints`) -/
  | cons (l : List (Con α))
  | obj (o : δ)
  | objs (l : List δ)

abbrev Dict (α δ : Type) := List (String × Val α δ)

def Dict.get : Dict α δ → String → Option (Val α δ)
  | [], _ => Option.none
  | (k', v) :: t, k => if k' = k then some v else Dict.get t k

def Dict.keys (d : Dict α δ) : List String := d.map (·.1)

/-- the entries whose key is not in `ks`. -/
def Dict.without (d : Dict α δ) (ks : List String) : Dict α δ := d.filter (fun e => !ks.contains e.1)

inductive Err where
  /-- `TypeError: missing required argument` -/
  | missing (k : String)
  /-- `TypeError: unexpected keyword argument` -/
  | unexpected (k : String)
  /-- the value has a form the constructor does not take -/
  | badValue (k : String)
  /-- a validator raised -/
  | rejected
deriving DecidableEq, Repr

/-- `validate_bounds` (basedevice.py:171-213) on the argument forms the model distinguishes, for a
device of length `n`; the result is the stored `(n, 2)` table.  A table with `n` rows is returned
as is; a pair of scalars is broadcast; a pair of length-`n` vectors is stacked — except that at
`n = 2` a pair of length-2 vectors *is* a `(2, 2)` table and is read row-wise (documented precedence). -/
def normBounds (n : Nat) : Val α δ → Option (List (α × α))
  | .table rows => if rows.length = n then some rows else Option.none
  | .pairNum lo hi => some (List.replicate n (lo, hi))
  | .pairVec lo hi =>
      match n, lo, hi with
      | 2, [a, b], [c, d] => some [(a, b), (c, d)]
      | _, _, _ => if lo.length = n ∧ hi.length = n then some (lo.zip hi) else Option.none
  | _ => Option.none

/-- the `cbounds` setter (device.py:146-170): `None` stays `None`; a 2-tuple becomes one 4-tuple over
the whole horizon; a list of 4-tuples is stored as a fresh list of the same tuples. -/
def normCBounds (n : Nat) : Val α δ → Option (Option (List (CBound α)))
  | .none => some Option.none
  | .pairNum l h => some (some [{ l := l, h := h, s := 0, e := n }])
  | .cbs l => some (some l)
  | _ => Option.none

def optCbsVal : Option (List (CBound α)) → Val α δ
  | Option.none => .none
  | some l => .cbs l

/-! ## the `Device` family: `cls(id, length, bounds, cbounds=None, **meta)` dumping `_keys`

Device, PVDevice, CDevice, CDevice2, IDevice, IDevice2, GDevice, SDevice, ADevice share the
constructor shape and `Device.to_dict`.  Every class parameter (`a`, `p_l`, `capacity`, `f`, …)
travels through `**meta`: it is assigned with `setattr` (the class's property setter validates and
stores it) and its NAME is appended to `_keys`, so exactly the parameters that were passed are dumped,
in call order. -/

structure DevSettings (α δ : Type) where
  id : String
  n : Nat
  /-- stored `(n, 2)` table -/
  bounds : List (α × α)
  /-- stored `None` / list of 4-tuples -/
  cbounds : Option (List (CBound α))
  /-- the `**meta` entries in call order, values in STORED form -/
  extra : Dict α δ

def devNamed : List String := ["id", "length", "bounds", "cbounds"]

/-- what differs between the classes of the family. -/
structure DevSem (α δ : Type) where
  /-- the stored form a property setter keeps for a value passed under key `k` -/
  norm : String → Val α δ → Val α δ
  /-- what `getattr(self, k)` returns at dump time, given the stored value -/
  dumpVal : DevSettings α δ → String → Val α δ → Val α δ
  /-- the tail of a subclass `__init__` that changes dumped state (CDevice2 defaults `cbounds`) -/
  post : DevSettings α δ → DevSettings α δ
  /-- `cbounds` has no default in the subclass signature (CDevice2) -/
  cbRequired : Bool

/-- `cls(**kw)`.  `acc` is the conjunction of all validators, an arbitrary predicate of the
constructed state. -/
def Dev.construct (sem : DevSem α δ) (acc : DevSettings α δ → Bool) (kw : Dict α δ) :
    Except Err (DevSettings α δ) :=
  match kw.get "id", kw.get "length", kw.get "bounds" with
  | Option.none, _, _ => .error (.missing "id")
  | _, Option.none, _ => .error (.missing "length")
  | _, _, Option.none => .error (.missing "bounds")
  | some (.str id), some (.nat n), some bv =>
    match normBounds n bv with
    | Option.none => .error (.badValue "bounds")
    | some b =>
      match (match kw.get "cbounds" with
             | Option.none => if sem.cbRequired then Except.error (Err.missing "cbounds") else .ok Option.none
             | some cv => match normCBounds n cv with
                | Option.none => .error (.badValue "cbounds")
                | some cb => .ok cb) with
      | .error e => .error e
      | .ok cb =>
        let d := sem.post { id := id, n := n, bounds := b, cbounds := cb,
                            extra := (kw.without devNamed).map (fun e => (e.1, sem.norm e.1 e.2)) }
        if acc d then .ok d else .error .rejected
  | some (.str _), _, _ => .error (.badValue "length")
  | _, _, _ => .error (.badValue "id")

/-- `obj.to_dict()`: `{k: getattr(self, k) for k in self._keys}`. -/
def Dev.toDict (sem : DevSem α δ) (d : DevSettings α δ) : Dict α δ :=
  [("id", .str d.id), ("length", .nat d.n), ("bounds", .table d.bounds), ("cbounds", optCbsVal d.cbounds)]
  ++ d.extra.map (fun e => (e.1, sem.dumpVal d e.1 e.2))

/-- `cls.from_dict(d)` is `cls(**d)` (basedevice.py:216-219). -/
def Dev.fromDict (sem : DevSem α δ) (acc : DevSettings α δ → Bool) (dict : Dict α δ) :=
  Dev.construct sem acc dict

/-- setters that keep what they are given (value-wise; `np.array(p)` of a scalar or list is the same
numbers), getters that return it, no `__init__` tail. -/
def semPlain : DevSem α δ :=
  { norm := fun _ v => v, dumpVal := fun _ _ v => v, post := fun d => d, cbRequired := false }

section
variable [Add α] [OfNat α 0]
/-- `CDevice2.__init__` (cdevice2.py:12-15): `if not self.cbounds: self.cbounds = [Σ lbounds, Σ hbounds]`
(both `None` and `[]` are falsy); `cbounds` is a required argument. -/
def semCDevice2 : DevSem α δ :=
  { norm := fun _ v => v, dumpVal := fun _ _ v => v, cbRequired := true,
    post := fun d => match d.cbounds with
      | Option.none | some [] =>
          { d with cbounds := some [{ l := (d.bounds.map (·.1)).foldl (· + ·) 0,
                                      h := (d.bounds.map (·.2)).foldl (· + ·) 0, s := 0, e := d.n }] }
      | some (_ :: _) => d }
end

/-- `SDevice.rate_clip` setter (sdevice.py:270-280): a scalar (or `None`, whose indexing raises the
`TypeError` the setter catches) is duplicated into a pair; a pair is kept. -/
def normRateClip : Val α δ → Val α δ
  | .num c => .clip (some c) (some c)
  | .none => .clip Option.none Option.none
  | v => v

def semSDevice : DevSem α δ :=
  { norm := fun k v => if k = "rate_clip" then normRateClip v else v,
    dumpVal := fun _ _ v => v, post := fun d => d, cbRequired := false }

section
variable [Add α] [Sub α] [Mul α] [Div α] [Neg α] [OfNat α 0] [OfNat α 1] [OfNat α 2]
  [LT α] [LE α] [DecidableEq α] [DecidableLT α] [DecidableLE α]
/-- ADevice (adevice.py:23-37): the `constraints` setter stores a copy of the user's list; the `constraints`
GETTER returns `Device.constraints + self._constraints`, but `ADevice.to_dict` overwrites the dumped value
with `self._constraints` — the user's own list — so what is dumped is what was stored (the cumulative-bound
closures are rebuilt by the twin's constructor).  `f` is stored and returned as given. -/
def semADevice : DevSem α δ :=
  { norm := fun _ v => v, dumpVal := fun _ _ v => v, post := fun d => d, cbRequired := false }

/-- HISTORICAL (before `/repo` commit 31f4c67): `to_dict` dumped the getter's value, i.e. the
cumulative-bound closures of the original in front of the user's constraints.  Kept only so that
`DK.C16.old_ADevice_dump_counterexample` can say why that dump function broke the round trip. -/
def semADeviceOld : DevSem α δ :=
  { norm := fun _ v => v, post := fun d => d, cbRequired := false,
    dumpVal := fun d k v => match k, v with
      | "constraints", .cons l => .cons (deviceCons d.n (d.cbounds.getD []) ++ l)
      | _, v => v }
end

/-! ## TDevice: named thermal parameters + `**meta` (tdevice.py:45-70, 160-172) -/

/-- scalar-or-vector parameter, stored as given. -/
inductive SV (α : Type) where
  | s (x : α)
  | v (l : List α)

def SV.toVal : SV α → Val α δ
  | .s x => .num x
  | .v l => .vec l

structure TSettings (α δ : Type) where
  dev : DevSettings α δ
  sustainment : α
  efficiency : α
  tInit : α
  tOptimal : α
  tRange : α
  tExternal : List α
  c : SV α

def tNamed : List String := ["sustainment", "efficiency", "t_init", "t_optimal", "t_range", "t_external", "c"]

def getNum (kw : Dict α δ) (k : String) : Except Err α :=
  match kw.get k with
  | some (.num x) => .ok x
  | some _ => .error (.badValue k)
  | Option.none => .error (.missing k)

def TDev.construct [OfNat α 1] (acc : TSettings α δ → Bool) (kw : Dict α δ) : Except Err (TSettings α δ) := do
  let dev ← Dev.construct semPlain (fun _ => true) (kw.without tNamed)
  let sus ← getNum kw "sustainment"
  let eff ← getNum kw "efficiency"
  let ti ← getNum kw "t_init"
  let topt ← getNum kw "t_optimal"
  let tr ← getNum kw "t_range"
  let te ← match kw.get "t_external" with
    | some (.vec l) => pure l
    | some _ => throw (.badValue "t_external")
    | Option.none => throw (.missing "t_external")
  let c ← match kw.get "c" with
    | some (.num x) => pure (SV.s x)
    | some (.vec l) => pure (SV.v l)
    | some _ => throw (.badValue "c")
    | Option.none => pure (SV.s 1)
  let t : TSettings α δ := { dev := dev, sustainment := sus, efficiency := eff, tInit := ti, tOptimal := topt,
                             tRange := tr, tExternal := te, c := c }
  if acc t then pure t else throw .rejected

def TDev.toDict (t : TSettings α δ) : Dict α δ :=
  Dev.toDict semPlain t.dev ++
  [("sustainment", .num t.sustainment), ("efficiency", .num t.efficiency), ("t_init", .num t.tInit),
   ("t_optimal", .num t.tOptimal), ("t_range", .num t.tRange), ("t_external", .vec t.tExternal), ("c", t.c.toVal)]

/-! ## WindowDevice: `(id, length, bounds, w, cbounds=None, c=1)`, no `**kwargs` (windowdevice.py:18-20)
`f = WindowPenalty(w, c)` is rebuilt by the constructor and removed from `_keys`. -/

structure WSettings (α : Type) where
  id : String
  n : Nat
  bounds : List (α × α)
  cbounds : Option (List (CBound α))
  w : α
  c : α

def wNamed : List String := ["id", "length", "bounds", "w", "cbounds", "c"]

/-- first key of the dictionary that is not an accepted keyword. -/
def firstUnexpected (kw : Dict α δ) (named : List String) : Option String :=
  (kw.keys.find? (fun k => !named.contains k))

def WDev.construct [OfNat α 1] (acc : WSettings α → Bool) (kw : Dict α δ) : Except Err (WSettings α) := do
  match firstUnexpected kw wNamed with
  | some k => throw (.unexpected k)
  | Option.none => pure ()
  let base ← Dev.construct (semPlain : DevSem α δ) (fun _ => true) (kw.without ["w", "c"])
  let w ← getNum kw "w"
  let c ← match kw.get "c" with
    | some (.num x) => pure x
    | some _ => throw (.badValue "c")
    | Option.none => pure 1
  let t : WSettings α := { id := base.id, n := base.n, bounds := base.bounds, cbounds := base.cbounds, w := w, c := c }
  if acc t then pure t else throw .rejected

def WDev.toDict (t : WSettings α) : Dict α δ :=
  [("id", .str t.id), ("length", .nat t.n), ("bounds", .table t.bounds), ("cbounds", optCbsVal t.cbounds),
   ("w", .num t.w), ("c", .num t.c)]

/-! ## sets: children are live objects held by reference

`DeviceSet.to_dict` returns `{'id', 'sbounds', 'devices': self.devices}` — the list of child OBJECTS,
not their dictionaries — and `DeviceSet.from_dict(d) = DeviceSet(**d)` takes objects.  The round trip
is therefore the identity on children (the twin SHARES them with the original).  `len : δ → Nat` is
the child's horizon length. -/

structure SetSettings (α δ : Type) where
  id : String
  devices : List δ
  sbounds : Option (List (α × α))

def setNamed : List String := ["id", "devices", "sbounds"]

def SetDev.bind (len : δ → Nat) (kw : Dict α δ) : Except Err (SetSettings α δ) :=
  match kw.get "id", kw.get "devices" with
  | Option.none, _ => .error (.missing "id")
  | _, Option.none => .error (.missing "devices")
  | some (.str id), some (.objs (d0 :: ds)) =>
    match kw.get "sbounds" with
    | Option.none | some .none => .ok { id := id, devices := d0 :: ds, sbounds := Option.none }
    | some sv => match normBounds (len d0) sv with
      | some sb => .ok { id := id, devices := d0 :: ds, sbounds := some sb }
      | Option.none => .error (.badValue "sbounds")
  | some (.str _), _ => .error (.badValue "devices")
  | _, _ => .error (.badValue "id")

def SetDev.construct (len : δ → Nat) (acc : SetSettings α δ → Bool) (kw : Dict α δ) : Except Err (SetSettings α δ) := do
  match firstUnexpected kw setNamed with
  | some k => throw (.unexpected k)
  | Option.none => pure ()
  let s ← SetDev.bind len kw
  if acc s then pure s else throw .rejected

def SetDev.toDict (s : SetSettings α δ) : Dict α δ :=
  [("id", .str s.id), ("sbounds", match s.sbounds with | Option.none => .none | some t => .table t), ("devices", .objs s.devices)]

/-- SubBalancedDeviceSet(id, devices, sbounds=None, labels=[], constraint_type='eq', sign=1, apply_to_remaining=False) -/
structure SubSettings (α δ : Type) where
  set : SetSettings α δ
  labels : List String
  ctype : String
  sign : α
  rem : Bool

def subNamed : List String := setNamed ++ ["labels", "constraint_type", "sign", "apply_to_remaining"]

def SubDev.construct [OfNat α 1] (len : δ → Nat) (acc : SubSettings α δ → Bool) (kw : Dict α δ) : Except Err (SubSettings α δ) := do
  match firstUnexpected kw subNamed with
  | some k => throw (.unexpected k)
  | Option.none => pure ()
  let s ← SetDev.bind len kw
  let labels ← match kw.get "labels" with
    | some (.strs l) => pure l
    | some _ => throw (.badValue "labels")
    | Option.none => pure []
  let ctype ← match kw.get "constraint_type" with
    | some (.str t) => pure t
    | some _ => throw (.badValue "constraint_type")
    | Option.none => pure "eq"
  let sign ← match kw.get "sign" with
    | some (.num x) => pure x
    | some _ => throw (.badValue "sign")
    | Option.none => pure 1
  let rem ← match kw.get "apply_to_remaining" with
    | some (.bool b) => pure b
    | some _ => throw (.badValue "apply_to_remaining")
    | Option.none => pure false
  let t : SubSettings α δ := { set := s, labels := labels, ctype := ctype, sign := sign, rem := rem }
  if acc t then pure t else throw .rejected

def SubDev.toDict (t : SubSettings α δ) : Dict α δ :=
  SetDev.toDict t.set ++
  [("labels", .strs t.labels), ("constraint_type", .str t.ctype), ("sign", .num t.sign), ("apply_to_remaining", .bool t.rem)]

/-- MFDeviceSet(device, flows): the wrapped device is a live object. -/
structure MFSettings (δ : Type) where
  device : δ
  flows : List String

def mfNamed : List String := ["device", "flows"]

def MFDev.bind (kw : Dict α δ) : Except Err (MFSettings δ) :=
  match kw.get "device", kw.get "flows" with
  | Option.none, _ => .error (.missing "device")
  | _, Option.none => .error (.missing "flows")
  | some (.obj o), some (.strs fl) => .ok { device := o, flows := fl }
  | some (.obj _), _ => .error (.badValue "flows")
  | _, _ => .error (.badValue "device")

def MFDev.construct (acc : MFSettings δ → Bool) (kw : Dict α δ) : Except Err (MFSettings δ) := do
  match firstUnexpected kw mfNamed with
  | some k => throw (.unexpected k)
  | Option.none => pure ()
  let m ← MFDev.bind kw
  if acc m then pure m else throw .rejected

def MFDev.toDict (m : MFSettings δ) : Dict α δ := [("flows", .strs m.flows), ("device", .obj m.device)]

/-- TwoRatioMFDeviceSet(device, flows, ratios, constraint_type='eq'); `ratios` is required and `ratios=None`
is rejected (tworatiomfdeviceset.py:16-17, since /repo daf94a5). -/
structure TRSettings (α δ : Type) where
  mf : MFSettings δ
  ratios : List α
  ctype : String

def trNamed : List String := mfNamed ++ ["ratios", "constraint_type"]

def TRDev.construct (acc : TRSettings α δ → Bool) (kw : Dict α δ) : Except Err (TRSettings α δ) := do
  match firstUnexpected kw trNamed with
  | some k => throw (.unexpected k)
  | Option.none => pure ()
  let m ← MFDev.bind kw
  let ratios ← match kw.get "ratios" with
    | some (.vec l) => pure l
    | some .none => throw .rejected            -- `ratios is None` raises ValueError
    | some _ => throw (.badValue "ratios")
    | Option.none => throw (.missing "ratios")
  let ctype ← match kw.get "constraint_type" with
    | some (.str t) => pure t
    | some _ => throw (.badValue "constraint_type")
    | Option.none => pure "eq"
  let t : TRSettings α δ := { mf := m, ratios := ratios, ctype := ctype }
  if acc t then pure t else throw .rejected

def TRDev.toDict (t : TRSettings α δ) : Dict α δ :=
  MFDev.toDict t.mf ++
  [("ratios", .vec t.ratios), ("constraint_type", .str t.ctype)]

/-! ## key lists of the model's dumps, per shipped class (compared with the generated table and
with the real `to_dict().keys()`) -/

/-- keys of the model's `toDict` for class `cls` constructed with extra `**kwargs` keys `extra`
(`none` for a class that takes no `**kwargs` but is given some, or an unknown class). -/
def modelKeys (cls : String) (extra : List String) : Option (List String) :=
  if ["Device", "PVDevice", "CDevice", "CDevice2", "IDevice", "IDevice2", "GDevice", "SDevice", "ADevice"].contains cls then
    some (devNamed ++ extra)
  else if cls = "TDevice" then some (devNamed ++ extra ++ tNamed)
  else if !extra.isEmpty then Option.none
  else if cls = "WindowDevice" then some ["id", "length", "bounds", "cbounds", "w", "c"]
  else if cls = "DeviceSet" then some ["id", "sbounds", "devices"]
  else if cls = "SubBalancedDeviceSet" then some ["id", "sbounds", "devices", "labels", "constraint_type", "sign", "apply_to_remaining"]
  else if cls = "MFDeviceSet" then some ["flows", "device"]
  else if cls = "TwoRatioMFDeviceSet" then some ["flows", "device", "ratios", "constraint_type"]
  else Option.none

def shipped : List String :=
  ["Device", "CDevice", "CDevice2", "IDevice", "IDevice2", "GDevice", "PVDevice", "SDevice", "TDevice", "ADevice",
   "WindowDevice", "DeviceSet", "SubBalancedDeviceSet", "MFDeviceSet", "TwoRatioMFDeviceSet"]

end Values

/-! ## behaviour as a function of the settings (for the same-behaviour corollaries) -/
section Behaviour
variable {α δ : Type} [Add α] [Sub α] [Mul α] [Div α] [Neg α]
  [OfNat α 0] [OfNat α 1] [OfNat α 2]
  [LT α] [LE α] [DecidableEq α] [DecidableLT α] [DecidableLE α]

def DevSettings.lb (d : DevSettings α δ) (i : Nat) : α := (d.bounds.getD i (0, 0)).1
def DevSettings.hb (d : DevSettings α δ) (i : Nat) : α := (d.bounds.getD i (0, 0)).2

/-- a scalar class parameter with its class default. -/
def DevSettings.num (d : DevSettings α δ) (k : String) (dflt : α) : α :=
  match d.extra.get k with | some (.num x) => x | _ => dflt

/-- a scalar-or-vector class parameter (numpy broadcasting) with its class default. -/
def DevSettings.vec (d : DevSettings α δ) (k : String) (dflt : α) : Nat → α :=
  match d.extra.get k with
  | some (.num x) => fun _ => x
  | some (.vec l) => fun i => l.getD i dflt
  | _ => fun _ => dflt

def DevSettings.ivec (d : DevSettings α δ) (k : String) (dflt : Int) : Nat → Int :=
  match d.extra.get k with
  | some (.int x) => fun _ => x
  | some (.ivec l) => fun i => l.getD i dflt
  | _ => fun _ => dflt

inductive LeafClass where
  | device | pvdevice | cdevice | cdevice2 | idevice | idevice2 | gdevice | sdevice | adevice
deriving DecidableEq, Repr

/-- the behavioural model (`DK.Leaf`, the subject of C01/C03/C07/…) of a device of class `cls` with
the given settings; class defaults as in the class bodies (cdevice.py:10-11, cdevice2.py:8-9,
idevice.py:7-9, idevice2.py:22-23, sdevice.py:38-48, adevice.py:8-9). -/
def toLeaf (cls : LeafClass) (d : DevSettings α δ) : Leaf α :=
  { n := d.n, lb := d.lb, hb := d.hb, cbs := d.cbounds.getD [],
    kind := match cls with
      | .device | .pvdevice => .device
      | .cdevice => .cdevice (d.num "a" 0) (d.num "b" 0)
      | .cdevice2 => .cdevice2 (d.num "p_l" (-1)) (d.num "p_h" 0)
      | .idevice => .idevice (d.vec "a" 0) (d.ivec "b" 2) (d.vec "c" 1)
      | .idevice2 => .idevice2 (d.vec "p_l" (-1)) (d.vec "p_h" 0)
      | .gdevice => .gdevice (match d.extra.get "cost_coeffs" with
          | some (.vec l) => fun _ => l
          | some (.mat m) => fun i => m.getD i []
          | _ => fun _ => [])
      | .sdevice => .sdevice
          { c1 := d.num "c1" 1, c2 := d.num "c2" 0, c3 := d.num "c3" 0, capacity := d.num "capacity" (2 * (2 * 2) + 2),
            damageDepth := d.num "damage_depth" 0, start := d.num "start" 0, reserve := d.num "reserve" 0,
            efficiency := d.num "efficiency" 1, sustainment := d.num "sustainment" 1 }
      | .adevice => .adevice (match d.extra.get "f" with | some (.fn f) => f | _ => .null) }

/-- the constraint list of the device (`DK.Leaf.cons`): cumulative bounds, storage constraints with
the stored rate clip, the ADevice's stored user constraints. -/
def leafCons (cls : LeafClass) (d : DevSettings α δ) : List (Con α) :=
  let clip : Option α × Option α := match d.extra.get "rate_clip" with | some (.clip a b) => (a, b) | _ => (Option.none, Option.none)
  let user : List (Con α) := match d.extra.get "constraints" with | some (.cons l) => l | _ => []
  (toLeaf cls d).cons clip.1 clip.2 user

def SV.at (x : SV α) (i : Nat) : α := match x with | .s a => a | .v l => l.getD i 0

def TSettings.toLeaf (t : TSettings α δ) : Leaf α :=
  { n := t.dev.n, lb := t.dev.lb, hb := t.dev.hb, cbs := t.dev.cbounds.getD [],
    kind := .tdevice { sustainment := t.sustainment, efficiency := t.efficiency, tInit := t.tInit, tOptimal := t.tOptimal,
                       tRange := t.tRange, tExternal := fun i => t.tExternal.getD i 0, c := t.c.at } }

/-- a set as a node of the tree model (`DK.Tree`), given how each child object behaves. -/
def SubSettings.toTree (t : SubSettings α δ) (child : δ → Tree α) : Tree α :=
  .node t.set.id
    { sbounds := t.set.sbounds.map (fun tb i => tb.getD i (0, 0)), labels := t.labels, balEq := t.ctype == "eq",
      sign := t.sign, applyToRemaining := t.rem }
    (t.set.devices.map child)

def SetSettings.toTree (s : SetSettings α δ) (child : δ → Tree α) : Tree α :=
  .node s.id { sbounds := s.sbounds.map (fun tb i => tb.getD i (0, 0)), labels := [], balEq := true, sign := 1,
               applyToRemaining := false }
    (s.devices.map child)

end Behaviour

end DK.Serial
