import DK.Props.Defs
import DK.Lemmas.Soc
import DK.Lemmas.Calc
import Mathlib.Analysis.Calculus.Deriv.Basic
import Mathlib.Analysis.Calculus.Deriv.Add
import Mathlib.Analysis.Calculus.Deriv.Mul
import Mathlib.Analysis.Calculus.Deriv.Comp
import Mathlib.Tactic.Ring
import Mathlib.Tactic.Linarith
import Mathlib.Tactic.FieldSimp
/-!
# Calculus of the storage and thermal device costs along a line `s + τ·d`
-/
namespace DK
open DK

/-! ## generic pieces -/

theorem sumTo_add4 (n : ℕ) (a b c e : ℕ → ℝ) :
    sumTo n (fun i => a i + b i + c i + e i) = sumTo n a + sumTo n b + sumTo n c + sumTo n e := by
  rw [sumTo_add n (fun i => a i + b i + c i) e, sumTo_add n (fun i => a i + b i) c, sumTo_add n a b]

/-- `(min x 0)²` is C¹ with derivative `2·min x 0`, including at the kink. -/
theorem hasDerivAt_minsq (x : ℝ) : HasDerivAt (fun x : ℝ => (min x 0) * (min x 0)) (2 * min x 0) x := by
  rcases lt_trichotomy x 0 with h | h | h
  · have h1 : HasDerivAt (fun x : ℝ => x * x) (2 * x) x := by
      have := (hasDerivAt_id' x).mul (hasDerivAt_id' x)
      refine this.congr_deriv ?_
      ring
    have : (fun x : ℝ => (min x 0) * (min x 0)) =ᶠ[nhds x] (fun x => x * x) := by
      filter_upwards [Iio_mem_nhds h] with y hy
      have hy' : y < 0 := hy
      simp [min_eq_left (le_of_lt hy')]
    rw [min_eq_left (le_of_lt h)]
    exact h1.congr_of_eventuallyEq this
  · subst h
    simp only [min_self, mul_zero]
    rw [hasDerivAt_iff_isLittleO_nhds_zero]
    simp only [zero_add, min_self, mul_zero, sub_zero, smul_zero]
    rw [Asymptotics.isLittleO_iff]
    intro c hc
    filter_upwards [Metric.ball_mem_nhds (0:ℝ) hc] with h hh
    simp only [Metric.mem_ball, dist_zero_right, Real.norm_eq_abs] at hh
    simp only [Real.norm_eq_abs, abs_mul]
    have : |min h 0| ≤ |h| := by
      rcases le_total h 0 with h0 | h0
      · simp [min_eq_left h0]
      · simp [min_eq_right h0]
    calc |min h 0| * |min h 0| ≤ |h| * |h| := mul_le_mul this this (abs_nonneg _) (abs_nonneg _)
      _ ≤ c * |h| := by nlinarith [abs_nonneg h]
  · have : (fun x : ℝ => (min x 0) * (min x 0)) =ᶠ[nhds x] (fun _ => (0:ℝ)) := by
      filter_upwards [Ioi_mem_nhds h] with y hy
      have hy' : 0 < y := hy
      simp [min_eq_right (le_of_lt hy')]
    rw [min_eq_right (le_of_lt h)]
    simpa using (hasDerivAt_const x (0:ℝ)).congr_of_eventuallyEq this

theorem hasDerivAt_minZero_sq (x : ℝ) :
    HasDerivAt (fun x : ℝ => minZero x * minZero x) (2 * minZero x) x := by
  simp only [minZero_eq_min]; exact hasDerivAt_minsq x

/-! ## exchange of summation against the (lower-triangular) sustainment matrix -/

theorem sumTo_tri_exchange (sus : ℝ) (n : ℕ) (u v : ℕ → ℝ) :
    sumTo n (fun i => u i * sumTo (i + 1) (fun j => v j * susW sus i j))
      = sumTo n (fun j => sumTo n (fun i => u i * susW sus i j) * v j) := by
  have h1 : ∀ i < n, u i * sumTo (i + 1) (fun j => v j * susW sus i j)
      = sumTo n (fun j => u i * susW sus i j * v j) := by
    intro i hi
    rw [← sumTo_susW_extend sus n i hi v, ← sumTo_mul_left]
    exact sumTo_congr (fun j _ => by ring)
  rw [sumTo_congr h1, sumTo_comm]
  exact sumTo_congr (fun j _ => sumTo_mul_right n (v j) (fun i => u i * susW sus i j))

/-! ## re-indexing of the flip-flop (adjacent-slot) term -/

theorem sumTo_guard_succ (n : ℕ) (f : ℕ → ℝ) :
    sumTo n (fun i => if i + 1 < n then f i else 0) = sumTo (n - 1) f := by
  cases n with
  | zero => rfl
  | succ m =>
    simp only [sumTo, Nat.add_sub_cancel, lt_self_iff_false, if_false, add_zero]
    exact sumTo_congr (fun i hi => by rw [if_pos (by omega)])

theorem sumTo_shift_pred (n : ℕ) (f : ℕ → ℝ) :
    sumTo n (fun k => if 0 < k then f (k - 1) else 0) = sumTo (n - 1) f := by
  cases n with
  | zero => rfl
  | succ m =>
    simp only [Nat.add_sub_cancel]
    induction m with
    | zero => simp [sumTo]
    | succ m ih =>
      rw [sumTo, ih, sumTo]
      simp

/-- `Σ_{i, i+1<n} c·(d_i s_{i+1} + s_i d_{i+1}) = Σ_j c·(s_{j+1}[j+1<n] + s_{j-1}[0<j])·d_j`. -/
theorem flipflop_reindex (n : ℕ) (c : ℝ) (s d : ℕ → ℝ) :
    sumTo n (fun i => if i + 1 < n then c * (d i * s (i + 1) + s i * d (i + 1)) else 0)
      = sumTo n (fun j => c * ((if j + 1 < n then s (j + 1) else 0) + (if 0 < j then s (j - 1) else 0)) * d j) := by
  have hR : ∀ j < n, c * ((if j + 1 < n then s (j + 1) else 0) + (if 0 < j then s (j - 1) else 0)) * d j
      = (if j + 1 < n then c * (d j * s (j + 1)) else 0)
        + (if 0 < j then c * (s (j - 1) * d (j - 1 + 1)) else 0) := by
    intro j _
    by_cases h0 : 0 < j
    · have : j - 1 + 1 = j := by omega
      rw [this]
      split_ifs <;> ring
    · split_ifs <;> ring
  rw [sumTo_congr hR, sumTo_add, sumTo_guard_succ n (fun j => c * (d j * s (j + 1))),
    sumTo_shift_pred n (fun k => c * (s k * d (k + 1))), sumTo_guard_succ, ← sumTo_add]
  exact sumTo_congr (fun i _ => by ring)

/-! ## the flow after the efficiency factor, along a line -/

/-- Away from the charge/discharge kink (`eff = 1`, or flow `a ≠ 0`), `r ↦ r·eff^{sign r}` is
differentiable along a line, the efficiency factor being locally constant. -/
theorem flow_hasDerivAt (eff a b : ℝ) (h : eff = 1 ∨ a ≠ 0) :
    HasDerivAt (fun τ : ℝ => (a + τ * b) * effPow eff (a + τ * b)) (b * effPow eff a) 0 := by
  have hlin : HasDerivAt (fun τ : ℝ => a + τ * b) b 0 := by
    have := ((hasDerivAt_id' (0:ℝ)).mul_const b).const_add a
    refine this.congr_deriv ?_
    ring
  have h0 : HasDerivAt (fun τ : ℝ => (a + τ * b) * effPow eff a) (b * effPow eff a) 0 :=
    hlin.mul_const (effPow eff a)
  have hc : ContinuousAt (fun τ : ℝ => a + τ * b) 0 := hlin.continuousAt
  rcases h with h | h
  · subst h
    simp only [effPow_one] at h0 ⊢
    exact h0
  · rcases lt_or_gt_of_ne h with ha | ha
    · -- a < 0
      have hev : ∀ᶠ τ in nhds (0:ℝ), a + τ * b ∈ Set.Iio (0:ℝ) :=
        hc.eventually_mem (Iio_mem_nhds (by simpa using ha))
      refine h0.congr_of_eventuallyEq ?_
      filter_upwards [hev] with τ hτ
      have hτ' : a + τ * b < 0 := hτ
      rw [effPow_of_neg eff hτ', effPow_of_neg eff ha]
    · have hev : ∀ᶠ τ in nhds (0:ℝ), a + τ * b ∈ Set.Ioi (0:ℝ) :=
        hc.eventually_mem (Ioi_mem_nhds (by simpa using ha))
      refine h0.congr_of_eventuallyEq ?_
      filter_upwards [hev] with τ hτ
      have hτ' : 0 < a + τ * b := hτ
      rw [effPow_of_pos eff hτ', effPow_of_pos eff ha]

/-- state of charge along a line. -/
theorem soc_line_hasDerivAt (sus eff : ℝ) (s d : ℕ → ℝ) (i : ℕ)
    (h : eff = 1 ∨ ∀ j ≤ i, s j ≠ 0) :
    HasDerivAt (fun τ => soc sus eff (line s d τ) i)
      (sumTo (i + 1) (fun j => d j * effPow eff (s j) * susW sus i j)) 0 := by
  unfold soc
  refine sumTo_hasDerivAt (i + 1)
    (fun j τ => line s d τ j * effPow eff (line s d τ j) * susW sus i j) _ 0 ?_
  intro j hj
  have hj' : eff = 1 ∨ s j ≠ 0 := h.imp id (fun h => h j (Nat.lt_succ_iff.mp hj))
  exact (flow_hasDerivAt eff (s j) (d j) hj').mul_const (susW sus i j)

theorem chargeAt_line_hasDerivAt (q : SParams ℝ) (s d : ℕ → ℝ) (i : ℕ)
    (h : q.efficiency = 1 ∨ ∀ j ≤ i, s j ≠ 0) :
    HasDerivAt (fun τ => chargeAt q (line s d τ) i)
      (sumTo (i + 1) (fun j => d j * effPow q.efficiency (s j) * susW q.sustainment i j)) 0 := by
  unfold chargeAt
  exact (soc_line_hasDerivAt q.sustainment q.efficiency s d i h).const_add _

theorem chargeAt_line_zero (q : SParams ℝ) (s d : ℕ → ℝ) (i : ℕ) :
    chargeAt q (line s d 0) i = chargeAt q s i := by
  rw [line_zero]

/-- the deep-discharge penalty of slot `i` along a line (C¹ through the `min(·,0)²` kink). -/
theorem deep_line_hasDerivAt (q : SParams ℝ) (s d : ℕ → ℝ) (i : ℕ)
    (h : q.efficiency = 1 ∨ ∀ j ≤ i, s j ≠ 0) :
    HasDerivAt (fun τ => q.c3 * (shortfall q (line s d τ) i * shortfall q (line s d τ) i))
      (q.c3 * 2 * shortfall q s i
        * sumTo (i + 1) (fun j => d j * effPow q.efficiency (s j) * susW q.sustainment i j)) 0 := by
  unfold shortfall
  have h1 := (chargeAt_line_hasDerivAt q s d i h).sub_const (q.capacity * q.damageDepth)
  have h2 := (hasDerivAt_minZero_sq (chargeAt q (line s d 0) i - q.capacity * q.damageDepth)).comp 0 h1
  have h3 := h2.const_mul q.c3
  refine h3.congr_deriv ?_
  rw [chargeAt_line_zero]
  ring

/-- one slot of the storage cost along a line. -/
theorem sdev_slot_hasDerivAt (n : ℕ) (q : SParams ℝ) (s p d : ℕ → ℝ) (i : ℕ)
    (h : q.efficiency = 1 ∨ ∀ j ≤ i, s j ≠ 0) :
    HasDerivAt (fun τ => chargeCost n q (line s d τ) i + line s d τ i * p i)
      (q.c1 * 2 * s i * d i
        + (if i + 1 < n then q.c2 * (-1) * (d i * s (i + 1) + s i * d (i + 1)) else 0)
        + q.c3 * 2 * shortfall q s i
            * sumTo (i + 1) (fun j => d j * effPow q.efficiency (s j) * susW q.sustainment i j)
        + p i * d i) 0 := by
  unfold chargeCost
  have hA : HasDerivAt (fun τ => q.c1 * (line s d τ i * line s d τ i)) (q.c1 * 2 * s i * d i) 0 := by
    have := ((line_hasDerivAt s d i 0).mul (line_hasDerivAt s d i 0)).const_mul q.c1
    refine this.congr_deriv ?_
    rw [line_zero_apply]; ring
  have hB : HasDerivAt
      (fun τ => if i + 1 < n then q.c2 * (-1 : ℝ) * (line s d τ i * line s d τ (i + 1)) else 0)
      (if i + 1 < n then q.c2 * (-1) * (d i * s (i + 1) + s i * d (i + 1)) else 0) 0 := by
    by_cases hn : i + 1 < n
    · simp only [hn, if_true]
      have := ((line_hasDerivAt s d i 0).mul (line_hasDerivAt s d (i + 1) 0)).const_mul (q.c2 * (-1))
      refine this.congr_deriv ?_
      rw [line_zero_apply, line_zero_apply]
    · simp only [hn, if_false]
      exact hasDerivAt_const _ _
  have hP : HasDerivAt (fun τ => line s d τ i * p i) (p i * d i) 0 := by
    refine ((line_hasDerivAt s d i 0).mul_const (p i)).congr_deriv ?_
    ring
  exact ((hA.add hB).add (deep_line_hasDerivAt q s d i h)).add hP

/-- the storage cost along a line: its derivative is the reported marginal cost paired with `d`. -/
theorem sdevCost_line_hasDerivAt (n : ℕ) (q : SParams ℝ) (s p d : ℕ → ℝ)
    (hk : q.efficiency = 1 ∨ ∀ k < n, s k ≠ 0) :
    HasDerivAt (fun τ => sdevCost n q (line s d τ) p)
      (sumTo n (fun k => sdevDeriv n q s p k * d k)) 0 := by
  unfold sdevCost
  have hslot : ∀ i < n, HasDerivAt (fun τ => chargeCost n q (line s d τ) i + line s d τ i * p i) _ 0 :=
    fun i hi => sdev_slot_hasDerivAt n q s p d i
      (hk.imp id (fun h j hj => h j (lt_of_le_of_lt hj hi)))
  refine (sumTo_hasDerivAt n (fun i τ => chargeCost n q (line s d τ) i + line s d τ i * p i) _ 0
    hslot).congr_deriv ?_
  rw [sumTo_add4 n (fun i => q.c1 * 2 * s i * d i)
    (fun i => if i + 1 < n then q.c2 * (-1) * (d i * s (i + 1) + s i * d (i + 1)) else 0)
    (fun i => q.c3 * 2 * shortfall q s i
      * sumTo (i + 1) (fun j => d j * effPow q.efficiency (s j) * susW q.sustainment i j))
    (fun i => p i * d i)]
  rw [flipflop_reindex n (q.c2 * (-1)) s d,
    sumTo_tri_exchange q.sustainment n (fun i => q.c3 * 2 * shortfall q s i)
      (fun j => d j * effPow q.efficiency (s j)),
    ← sumTo_add4]
  refine sumTo_congr (fun k _ => ?_)
  unfold sdevDeriv
  rw [sumTo_mul_right n (effPow q.efficiency (s k))
    (fun i => q.c3 * 2 * shortfall q s i * susW q.sustainment i k)]
  ring

/-! ## thermal -/

/-- `ABCCost` with exponent `b = 2` (the thermal comfort cost): `_deriv` is the derivative of `_cost`. -/
theorem abcCost_ipow_two_hasDerivAt (a c xl xh t : ℝ) :
    HasDerivAt (fun t => abcCost ipow t a 2 c xl xh) (abcDeriv ipow intCast' t a 2 c xl xh) t := by
  unfold abcCost abcDeriv
  by_cases h : xl = xh
  · simp only [h, if_true]
    exact hasDerivAt_const _ _
  · have hd : xh - xl ≠ 0 := sub_ne_zero.mpr (Ne.symm h)
    simp only [h, if_false, ipow_two, ipow_two_sub_one, intCast'_two]
    unfold abcQ abcS
    have hS : HasDerivAt (fun t : ℝ => (xh - t) / (xh - xl)) (-1 / (xh - xl)) t :=
      ((hasDerivAt_id' t).const_sub xh).div_const (xh - xl)
    have hQ : HasDerivAt (fun t : ℝ => (1 - (xh - t) / (xh - xl)) * a + (xh - t) / (xh - xl))
        (-(-1 / (xh - xl)) * a + -1 / (xh - xl)) t :=
      ((hS.const_sub 1).mul_const a).add hS
    have := (hQ.mul hQ).const_mul c
    refine this.congr_deriv ?_
    field_simp
    ring

theorem r2t_line_hasDerivAt (q : TParams ℝ) (s d : ℕ → ℝ) (i : ℕ) :
    HasDerivAt (fun τ => r2t q (line s d τ) i)
      (q.efficiency * sumTo (i + 1) (fun j => d j * susW q.sustainment i j)) 0 := by
  unfold r2t
  have := ((soc_line_hasDerivAt q.sustainment 1 s d i (Or.inl rfl)).const_mul q.efficiency).const_add
    (tBase q i)
  refine this.congr_deriv ?_
  simp only [effPow_one, mul_one]

theorem r2t_line_zero (q : TParams ℝ) (s d : ℕ → ℝ) (i : ℕ) :
    r2t q (line s d 0) i = r2t q s i := by
  rw [line_zero]

theorem priceTerm_line_hasDerivAt (n : ℕ) (s p d : ℕ → ℝ) :
    HasDerivAt (fun τ => priceTerm n (line s d τ) p) (sumTo n (fun k => p k * d k)) 0 := by
  unfold priceTerm
  refine sumTo_hasDerivAt n (fun k τ => line s d τ k * p k) _ 0 (fun k _ => ?_)
  refine ((line_hasDerivAt s d k 0).mul_const (p k)).congr_deriv ?_
  ring

/-- the thermal cost along a line. -/
theorem tdevCost_line_hasDerivAt (n : ℕ) (q : TParams ℝ) (s p d : ℕ → ℝ) :
    HasDerivAt (fun τ => tdevCost n q (line s d τ) p)
      (sumTo n (fun k => tdevDeriv n q s p k * d k)) 0 := by
  unfold tdevCost
  have hslot : ∀ i < n, HasDerivAt (fun τ => tSlotCost q (r2t q (line s d τ) i) i)
      (tSlotDeriv q (r2t q s i) i
        * (q.efficiency * sumTo (i + 1) (fun j => d j * susW q.sustainment i j))) 0 := by
    intro i _
    have h1 := r2t_line_hasDerivAt q s d i
    have h2 : HasDerivAt (fun t => tSlotCost q t i) (tSlotDeriv q (r2t q (line s d 0) i) i)
        (r2t q (line s d 0) i) := by
      unfold tSlotCost tSlotDeriv
      exact abcCost_ipow_two_hasDerivAt 0 (q.c i) (q.tOptimal - q.tRange) q.tOptimal _
    have h3 := h2.comp 0 h1
    refine h3.congr_deriv ?_
    rw [r2t_line_zero]
  have hsum := (sumTo_hasDerivAt n (fun i τ => tSlotCost q (r2t q (line s d τ) i) i) _ 0 hslot).add
    (priceTerm_line_hasDerivAt n s p d)
  refine hsum.congr_deriv ?_
  have h1 : ∀ i < n, tSlotDeriv q (r2t q s i) i
        * (q.efficiency * sumTo (i + 1) (fun j => d j * susW q.sustainment i j))
      = (tSlotDeriv q (r2t q s i) i * q.efficiency)
        * sumTo (i + 1) (fun j => d j * susW q.sustainment i j) := fun i _ => by ring
  rw [sumTo_congr h1, sumTo_tri_exchange q.sustainment n
    (fun i => tSlotDeriv q (r2t q s i) i * q.efficiency) d, ← sumTo_add]
  refine sumTo_congr (fun k _ => ?_)
  unfold tdevDeriv
  have h2 : sumTo n (fun i => tSlotDeriv q (r2t q s i) i * q.efficiency * susW q.sustainment i k)
      = sumTo n (fun i => susW q.sustainment i k * tSlotDeriv q (r2t q s i) i * q.efficiency) :=
    sumTo_congr (fun i _ => by ring)
  rw [h2, sumTo_mul_right n q.efficiency (fun i => susW q.sustainment i k * tSlotDeriv q (r2t q s i) i)]
  ring

end DK
