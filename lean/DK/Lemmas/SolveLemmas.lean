import DK.Props.Defs
import DK.Model.Solve
import DK.Lemmas.Sum
import DK.Lemmas.Calc
import Mathlib.Analysis.Calculus.Deriv.Slope
import Mathlib.Analysis.Calculus.Deriv.Add
import Mathlib.Analysis.Calculus.Deriv.Mul
import Mathlib.Tactic.Ring
import Mathlib.Tactic.Linarith
import Mathlib.Tactic.FieldSimp
import Mathlib.Tactic.Positivity
/-!
# Lemmas for C05 / C19: flat ↔ matrix sums, convex sets, the gradient inequality, the projection
inequality, per-slot optimality of the clamped stationary point.

Self-contained (does not import `DK.Lemmas.Convex`).
-/
namespace DK
open DK Filter Topology

/-! ## flat / unflat (row-major index arithmetic) -/

theorem flat_unflat' {α : Type} (n : ℕ) (x : ℕ → α) : flat n (unflat n x) = x := by
  funext k
  show x (k / n * n + k % n) = x k
  rw [Nat.div_add_mod' k n]

theorem unflat_flat' {α : Type} (n : ℕ) (S : Mat α) (r i : ℕ) (hi : i < n) :
    unflat n (flat n S) r i = S r i := by
  have hn : 0 < n := Nat.lt_of_le_of_lt (Nat.zero_le i) hi
  unfold unflat flat flatIdx
  have h1 : (r * n + i) / n = r := by
    rw [Nat.mul_comm, Nat.mul_add_div hn, Nat.div_eq_of_lt hi, Nat.add_zero]
  have h2 : (r * n + i) % n = i := by
    rw [Nat.mul_comm, Nat.mul_add_mod, Nat.mod_eq_of_lt hi]
  rw [h1, h2]

/-- a sum over the `R·n` flat variables is the double sum over rows and slots. -/
theorem sumTo_flat (R n : ℕ) (f : ℕ → ℝ) :
    sumTo (R * n) f = sumTo R (fun r => sumTo n (fun i => f (flatIdx n r i))) := by
  induction R with
  | zero => simp [sumTo]
  | succ R ih =>
    have hsplit := sumTo_split ((R + 1) * n) (R * n) (by rw [Nat.add_mul]; omega) f
    rw [hsplit, ih]
    simp only [sumTo]
    congr 1
    have : (R + 1) * n - R * n = n := by rw [Nat.add_mul]; omega
    rw [this]
    rfl

/-- dot product of a flattened matrix gradient with a flat direction = the matrix double sum. -/
theorem sumTo_flat_mul (R n : ℕ) (J : Mat ℝ) (d : ℕ → ℝ) :
    sumTo (R * n) (fun k => flat n J k * d k)
      = sumTo R (fun r => sumTo n (fun i => J r i * unflat n d r i)) := by
  rw [sumTo_flat]
  refine sumTo_congr (fun r _ => sumTo_congr (fun i hi => ?_))
  have := unflat_flat' n J r i hi
  unfold unflat at this ⊢
  rw [this]

/-! ## gradients: matrix ↔ flat, the proximal quadratic -/

/-- a matrix gradient is a flat gradient (what `.flatten()` does to `deriv`). -/
theorem isGradAt_of_isMGradAt (R n : ℕ) (f : Mat ℝ → ℝ) (J : Mat ℝ) (x : ℕ → ℝ)
    (h : IsMGradAt R n f J (unflat n x)) :
    IsGradAt (R * n) (fun s => f (unflat n s)) (flat n J) x := by
  intro dir
  have := h (unflat n dir)
  rw [sumTo_flat_mul]
  exact this

theorem isGradAt_sqDist (N : ℕ) (s0 x : ℕ → ℝ) :
    IsGradAt N (fun s => sqDist N s s0) (fun k => 2 * (x k - s0 k)) x := by
  unfold sqDist
  refine isGradAt_sumTo N (fun k y => (y - s0 k) * (y - s0 k)) _ x (fun k _ => ?_)
  have h1 := (hasDerivAt_id (x k)).sub_const (s0 k)
  refine HasDerivAt.congr_deriv (h1.mul h1) ?_
  simp only [id]; ring

theorem IsGradAt.const_mul {n : ℕ} {f : (ℕ → ℝ) → ℝ} {g s : ℕ → ℝ} (c : ℝ) (h : IsGradAt n f g s) :
    IsGradAt n (fun x => c * f x) (fun k => c * g k) s := by
  intro d
  refine HasDerivAt.congr_deriv ((h d).const_mul c) ?_
  rw [← sumTo_mul_left]
  exact sumTo_congr (fun k _ => by ring)

/-! ## convex sets and convex functions on them (chord form, as `ConvexOnBox`) -/

/-- `F` is closed under convex combinations. -/
def ConvexSet (F : (ℕ → ℝ) → Prop) : Prop :=
  ∀ x y, F x → F y → ∀ θ : ℝ, 0 ≤ θ → θ ≤ 1 → F (mix θ x y)

/-- chord inequality on `F`. -/
def ConvexOnSet (F : (ℕ → ℝ) → Prop) (f : (ℕ → ℝ) → ℝ) : Prop :=
  ∀ x y, F x → F y → ∀ θ : ℝ, 0 ≤ θ → θ ≤ 1 → f (mix θ x y) ≤ θ * f x + (1 - θ) * f y

/-- the point at parameter `τ` on the segment from `x` towards `y`. -/
def seg (x y : ℕ → ℝ) (τ : ℝ) : ℕ → ℝ := fun k => x k + τ * (y k - x k)

theorem seg_eq_mix (x y : ℕ → ℝ) (τ : ℝ) : seg x y τ = mix τ y x := by
  funext k; simp only [seg, mix]; ring

theorem seg_zero (x y : ℕ → ℝ) : seg x y 0 = x := by
  funext k; simp only [seg]; ring

theorem seg_one (x y : ℕ → ℝ) : seg x y 1 = y := by
  funext k; simp only [seg]; ring

theorem seg_eq_stepPoint (s q : ℕ → ℝ) (x : ℝ) : stepPoint s q x = seg s q x := rfl

theorem ConvexSet.seg_mem {F : (ℕ → ℝ) → Prop} (hF : ConvexSet F) {x y : ℕ → ℝ} (hx : F x) (hy : F y)
    {τ : ℝ} (h0 : 0 ≤ τ) (h1 : τ ≤ 1) : F (seg x y τ) := by
  rw [seg_eq_mix]; exact hF y x hy hx τ h0 h1

theorem convexSet_inBox (n : ℕ) (lb hb : ℕ → ℝ) : ConvexSet (InBox n lb hb) := by
  intro x y hx hy θ h0 h1 k hk
  have ⟨a1, a2⟩ := hx k hk
  have ⟨b1, b2⟩ := hy k hk
  have h1' : 0 ≤ 1 - θ := by linarith
  simp only [mix]
  constructor
  · nlinarith [mul_le_mul_of_nonneg_left a1 h0, mul_le_mul_of_nonneg_left b1 h1']
  · nlinarith [mul_le_mul_of_nonneg_left a2 h0, mul_le_mul_of_nonneg_left b2 h1']

theorem ConvexSet.inter {F G : (ℕ → ℝ) → Prop} (hF : ConvexSet F) (hG : ConvexSet G) :
    ConvexSet (fun x => F x ∧ G x) :=
  fun x y hx hy θ h0 h1 => ⟨hF x y hx.1 hy.1 θ h0 h1, hG x y hx.2 hy.2 θ h0 h1⟩

/-- `a` respects convex combinations (all the shipped bound / balance constraints do). -/
def IsAffineFn (a : (ℕ → ℝ) → ℝ) : Prop :=
  ∀ x y θ, a (mix θ x y) = θ * a x + (1 - θ) * a y

theorem convexSet_affine_ge {a : (ℕ → ℝ) → ℝ} (ha : IsAffineFn a) : ConvexSet (fun x => 0 ≤ a x) := by
  intro x y hx hy θ h0 h1
  show 0 ≤ a (mix θ x y)
  rw [ha]
  have : 0 ≤ 1 - θ := by linarith
  positivity

theorem convexSet_affine_eq {a : (ℕ → ℝ) → ℝ} (ha : IsAffineFn a) : ConvexSet (fun x => a x = 0) := by
  intro x y hx hy θ _ _
  show a (mix θ x y) = 0
  rw [ha, hx, hy]; ring

/-- every constraint of a list holds. -/
def SatAll (cs : List (Con ℝ)) (x : ℕ → ℝ) : Prop := ∀ c ∈ cs, c.Sat x

theorem convexSet_satAll (cs : List (Con ℝ)) (h : ∀ c ∈ cs, IsAffineFn c.fn) : ConvexSet (SatAll cs) := by
  intro x y hx hy θ h0 h1 c hc
  have hxc := hx c hc
  have hyc := hy c hc
  unfold Con.Sat at *
  by_cases he : c.isEq
  · simp only [he, if_true] at *
    exact convexSet_affine_eq (h c hc) x y hxc hyc θ h0 h1
  · simp only [he] at *
    exact convexSet_affine_ge (h c hc) x y hxc hyc θ h0 h1

/-- the feasible set of a device as SciPy sees it: the flat bounds box and every constraint. -/
def Feasible (d : SDev ℝ) (x : ℕ → ℝ) : Prop :=
  (∀ k < d.dim, (d.flatBounds k).1 ≤ x k ∧ x k ≤ (d.flatBounds k).2) ∧ SatAll (d.cons.map (MCon.toFlat d.n)) x

/-- with affine constraint functions (all cumulative-bound, aggregate-bound, balance, ratio and
conduit constraints are) the feasible set is convex, so (d) applies to it. -/
theorem feasible_convex (d : SDev ℝ) (h : ∀ c ∈ d.cons, IsAffineFn (fun x => c.fn (unflat d.n x))) :
    ConvexSet (Feasible d) := by
  refine ConvexSet.inter (convexSet_inBox d.dim _ _) (convexSet_satAll _ ?_)
  intro c hc
  rw [List.mem_map] at hc
  obtain ⟨c', hc', rfl⟩ := hc
  exact h c' hc'

/-! ## the gradient inequality -/

/-- for `f` convex on `F`, the directional derivative at `x` towards `y` is below the chord slope. -/
theorem grad_ineq {F : (ℕ → ℝ) → Prop} {f : (ℕ → ℝ) → ℝ} (hf : ConvexOnSet F f) {x y : ℕ → ℝ}
    (hx : F x) (hy : F y) {D : ℝ} (hd : HasDerivAt (fun τ => f (seg x y τ)) D 0) : D ≤ f y - f x := by
  have hlim := hd.tendsto_slope_zero_right
  refine le_of_tendsto hlim ?_
  filter_upwards [Ioo_mem_nhdsGT (zero_lt_one' ℝ)] with τ hτ
  obtain ⟨h0, h1⟩ := hτ
  simp only [zero_add, seg_zero, smul_eq_mul]
  rw [seg_eq_mix]
  have hc := hf y x hy hx τ h0.le h1.le
  rw [inv_mul_le_iff₀ h0]
  linarith

/-- on a segment inside `F`, a convex `f` with non-negative slope at the start is non-decreasing. -/
theorem seg_monotone_of_nonneg_slope {F : (ℕ → ℝ) → Prop} {f : (ℕ → ℝ) → ℝ} (hF : ConvexSet F)
    (hf : ConvexOnSet F f) {x y : ℕ → ℝ} (hx : F x) (hy : F y) {D : ℝ}
    (hd : HasDerivAt (fun τ => f (seg x y τ)) D 0) (hD : 0 ≤ D)
    {a b : ℝ} (ha : 0 ≤ a) (hab : a ≤ b) (hb : b ≤ 1) : f (seg x y a) ≤ f (seg x y b) := by
  rcases eq_or_lt_of_le (ha.trans hab) with hb0 | hb0
  · have : a = 0 := le_antisymm (by linarith) ha
    rw [this, ← hb0]
  have hFb : F (seg x y b) := hF.seg_mem hx hy hb0.le hb
  -- slope at 0 towards seg b is b·D
  have hd' : HasDerivAt (fun τ => f (seg x (seg x y b) τ)) (b * D) 0 := by
    have h2 : HasDerivAt (fun τ : ℝ => b * τ) b 0 := by
      simpa using (hasDerivAt_id' (0:ℝ)).const_mul b
    have hd0 : HasDerivAt (fun τ => f (seg x y τ)) D (b * 0) := by simpa using hd
    have := hd0.comp (0:ℝ) h2
    refine (this.congr_deriv (by ring)).congr_of_eventuallyEq ?_
    filter_upwards with τ
    simp only [Function.comp]
    congr 1
    funext k
    simp only [seg]; ring
  have h0b : f x ≤ f (seg x y b) := by
    have := grad_ineq hf hx hFb hd'
    nlinarith [mul_nonneg hb0.le hD]
  -- chord between x and seg b at ratio a/b
  have hθ0 : 0 ≤ a / b := div_nonneg ha hb0.le
  have hθ1 : a / b ≤ 1 := (div_le_one hb0).mpr hab
  have hc := hf (seg x y b) x hFb hx (a / b) hθ0 hθ1
  have e : mix (a / b) (seg x y b) x = seg x y a := by
    funext k
    simp only [mix, seg]
    field_simp
    ring
  rw [e] at hc
  have : (a / b) * f (seg x y b) + (1 - a / b) * f x ≤ f (seg x y b) := by
    nlinarith [mul_le_mul_of_nonneg_left h0b (sub_nonneg.mpr hθ1)]
  linarith

/-- a negative slope at the start of a segment gives a strictly lower value somewhere on `(0, 1]`. -/
theorem exists_lt_of_neg_slope {φ : ℝ → ℝ} {D : ℝ} (hd : HasDerivAt φ D 0) (hD : D < 0) :
    ∃ τ : ℝ, 0 < τ ∧ τ ≤ 1 ∧ φ τ < φ 0 := by
  have hlim := hd.tendsto_slope_zero_right
  have hev : ∀ᶠ t in 𝓝[>] (0:ℝ), t⁻¹ • (φ (0 + t) - φ 0) < 0 := hlim.eventually (gt_mem_nhds hD)
  have hIoo : ∀ᶠ t in 𝓝[>] (0:ℝ), t ∈ Set.Ioo (0:ℝ) 1 := Ioo_mem_nhdsGT (zero_lt_one' ℝ)
  obtain ⟨τ, hτ, hI⟩ := (hev.and hIoo).exists
  refine ⟨τ, hI.1, hI.2.le, ?_⟩
  simp only [zero_add, smul_eq_mul] at hτ
  have hpos : 0 < τ⁻¹ := inv_pos.mpr hI.1
  by_contra hge
  push Not at hge
  have : 0 ≤ τ⁻¹ * (φ τ - φ 0) := mul_nonneg hpos.le (by linarith)
  linarith

/-! ## the projection inequality -/

/-- dot product over the first `N` coordinates. -/
def dotN (N : ℕ) (u v : ℕ → ℝ) : ℝ := sumTo N (fun k => u k * v k)

/-- `q` is a nearest point of `F` to `z` (squared Euclidean distance over `N` coordinates). -/
def IsNearest (N : ℕ) (F : (ℕ → ℝ) → Prop) (z q : ℕ → ℝ) : Prop :=
  F q ∧ ∀ y, F y → sqDist N q z ≤ sqDist N y z

theorem sqDist_nonneg (N : ℕ) (u v : ℕ → ℝ) : 0 ≤ sqDist N u v :=
  sumTo_nonneg (fun k _ => mul_self_nonneg _)

theorem sqDist_eq_zero {N : ℕ} {u v : ℕ → ℝ} (h : sqDist N u v = 0) : ∀ k < N, u k = v k := by
  induction N with
  | zero => intro k hk; omega
  | succ N ih =>
    intro k hk
    unfold sqDist at h ih
    simp only [sumTo] at h
    have h1 : 0 ≤ sumTo N (fun k => (u k - v k) * (u k - v k)) := sumTo_nonneg (fun k _ => mul_self_nonneg _)
    have h2 : 0 ≤ (u N - v N) * (u N - v N) := mul_self_nonneg _
    have h3 : (u N - v N) * (u N - v N) = 0 := by linarith
    have h4 : sumTo N (fun k => (u k - v k) * (u k - v k)) = 0 := by linarith
    rcases Nat.lt_succ_iff_lt_or_eq.mp hk with hlt | heq
    · exact ih h4 k hlt
    · subst heq
      have := mul_self_eq_zero.mp h3
      linarith

/-- expansion of the squared distance along a segment. -/
theorem sqDist_seg (N : ℕ) (q y z : ℕ → ℝ) (θ : ℝ) :
    sqDist N (seg q y θ) z
      = sqDist N q z - 2 * θ * dotN N (fun k => z k - q k) (fun k => y k - q k) + θ * θ * sqDist N y q := by
  unfold sqDist dotN seg
  rw [← sumTo_mul_left, ← sumTo_mul_left, ← sumTo_sub, ← sumTo_add]
  exact sumTo_congr (fun k _ => by ring)

/-- variational inequality of the nearest point of a convex set: `(z − q)·(y − q) ≤ 0` for `y ∈ F`. -/
theorem projection_inequality {N : ℕ} {F : (ℕ → ℝ) → Prop} (hF : ConvexSet F) {z q : ℕ → ℝ}
    (hq : IsNearest N F z q) {y : ℕ → ℝ} (hy : F y) :
    dotN N (fun k => z k - q k) (fun k => y k - q k) ≤ 0 := by
  set c := dotN N (fun k => z k - q k) (fun k => y k - q k) with hc
  set D := sqDist N y q with hD
  have hD0 : 0 ≤ D := sqDist_nonneg N y q
  have key : ∀ θ : ℝ, 0 ≤ θ → θ ≤ 1 → 2 * θ * c ≤ θ * θ * D := by
    intro θ h0 h1
    have hm := hq.2 (seg q y θ) (hF.seg_mem hq.1 hy h0 h1)
    rw [sqDist_seg] at hm
    linarith
  by_contra hpos
  push Not at hpos
  rcases eq_or_lt_of_le hD0 with hz | hz
  · have := key 1 (by norm_num) (by norm_num)
    rw [← hz] at this
    linarith
  · by_cases hcd : c ≤ D
    · have hθ1 : c / D ≤ 1 := (div_le_one hz).mpr hcd
      have := key (c / D) (div_nonneg hpos.le hz.le) hθ1
      have e1 : c / D * (c / D) * D = c * c / D := by field_simp
      have e2 : 2 * (c / D) * c = 2 * (c * c / D) := by ring
      rw [e1, e2] at this
      have hp : 0 < c * c / D := div_pos (mul_pos hpos hpos) hz
      linarith
    · push Not at hcd
      have := key 1 (by norm_num) (by norm_num)
      linarith

/-! ## per-slot optimality of the clamped stationary point (high/low quadratic + price) -/

/-- exact second-order expansion of the high/low quadratic: the curvature term is non-negative when
`pl ≤ ph`, `xl < xh`. -/
theorem hlqCost_expand (pl ph xl xh x y : ℝ) (h : xl ≠ xh) :
    hlqCost pl ph xl xh y - hlqCost pl ph xl xh x
      = hlqDeriv pl ph xl xh x * (y - x) + (ph - pl) / (2 * (xh - xl)) * ((y - x) * (y - x)) := by
  have hne : xh - xl ≠ 0 := sub_ne_zero.mpr (Ne.symm h)
  simp only [hlqCost, hlqDeriv, if_neg h]
  generalize (if (ph - pl) / 2 = 0 then (0:ℝ) else _) = c
  field_simp
  ring

theorem clamp_mem {lo hi p : ℝ} (h : lo ≤ hi) : lo ≤ clamp lo hi p ∧ clamp lo hi p ≤ hi := by
  simp only [clamp]
  constructor <;> split_ifs <;> linarith

theorem clamp_cases {lo hi p : ℝ} (h : lo ≤ hi) :
    (p ≤ lo ∧ clamp lo hi p = lo) ∨ (lo ≤ p ∧ p ≤ hi ∧ clamp lo hi p = p) ∨ (hi ≤ p ∧ clamp lo hi p = hi) := by
  simp only [clamp]
  by_cases h1 : hi ≤ p
  · right; right
    refine ⟨h1, ?_⟩
    rw [if_pos h1]
    split_ifs with h2
    · rfl
    · push Not at h2; linarith
  · rw [if_neg h1]
    push Not at h1
    by_cases h2 : lo < p
    · right; left
      exact ⟨h2.le, h1.le, by rw [if_pos h2]⟩
    · left
      push Not at h2
      exact ⟨h2, by rw [if_neg (not_lt.mpr h2)]⟩

/-- first-order condition at `hlqArgmin`: the slope of `hlqCost + x·p` times any in-bounds
displacement is non-negative. -/
theorem hlqArgmin_first_order (pl ph xl xh p y : ℝ) (hp : pl ≤ ph) (hx : xl ≤ xh) (hy1 : xl ≤ y) (hy2 : y ≤ xh) :
    0 ≤ (hlqDeriv pl ph xl xh (hlqArgmin pl ph xl xh p) + p) * (y - hlqArgmin pl ph xl xh p) := by
  unfold hlqArgmin
  by_cases h : xl = xh
  · rw [if_pos h]
    have : y = xl := le_antisymm (by linarith) hy1
    rw [this]; simp
  rw [if_neg h]
  have hlt : xl < xh := lt_of_le_of_ne hx h
  have hw : 0 < xh - xl := by linarith
  by_cases hpp : pl = ph
  · rw [if_pos hpp]
    unfold hlqDeriv
    rw [if_neg h]
    subst hpp
    split_ifs with hs
    · have : 0 ≤ y - xl := by linarith
      have e : (pl - pl) * ((xl - xl) / (xh - xl)) + pl + p = pl + p := by ring
      rw [e]; positivity
    · push Not at hs
      have e : (pl - pl) * ((xh - xl) / (xh - xl)) + pl + p = pl + p := by ring
      rw [e]
      nlinarith
  rw [if_neg hpp]
  have hpl : pl < ph := lt_of_le_of_ne hp hpp
  have hd : 0 < ph - pl := by linarith
  set t := xl + (xh - xl) * ((-p - pl) / (ph - pl)) with ht
  -- slope at a point u
  have slope : ∀ u, hlqDeriv pl ph xl xh u + p = (ph - pl) / (xh - xl) * (u - t) := by
    intro u
    unfold hlqDeriv
    rw [if_neg h, ht]
    field_simp
    ring
  rw [slope]
  have hk : 0 < (ph - pl) / (xh - xl) := div_pos hd hw
  rcases clamp_cases (p := t) hx with ⟨h1, hc⟩ | ⟨h1, h2, hc⟩ | ⟨h1, hc⟩
  · rw [hc]
    have : 0 ≤ (xl - t) * (y - xl) := mul_nonneg (by linarith) (by linarith)
    have e : (ph - pl) / (xh - xl) * (xl - t) * (y - xl) = (ph - pl) / (xh - xl) * ((xl - t) * (y - xl)) := by ring
    rw [e]
    positivity
  · rw [hc]
    have : t - t = 0 := by ring
    rw [this]; simp
  · rw [hc]
    have e : (ph - pl) / (xh - xl) * (xh - t) * (y - xh) = (ph - pl) / (xh - xl) * ((t - xh) * (xh - y)) := by ring
    rw [e]
    have : 0 ≤ (t - xh) * (xh - y) := mul_nonneg (by linarith) (by linarith)
    positivity

theorem hlqArgmin_mem (pl ph xl xh p : ℝ) (hx : xl ≤ xh) :
    xl ≤ hlqArgmin pl ph xl xh p ∧ hlqArgmin pl ph xl xh p ≤ xh := by
  unfold hlqArgmin
  split_ifs with h1 h2 h3
  · constructor <;> linarith
  · constructor <;> linarith
  · constructor <;> linarith
  · exact clamp_mem hx

/-- `hlqArgmin` minimises `hlqCost + x·p` over `[xl, xh]`. -/
theorem hlqArgmin_min (pl ph xl xh p y : ℝ) (hp : pl ≤ ph) (hx : xl ≤ xh) (hy1 : xl ≤ y) (hy2 : y ≤ xh) :
    hlqCost pl ph xl xh (hlqArgmin pl ph xl xh p) + hlqArgmin pl ph xl xh p * p
      ≤ hlqCost pl ph xl xh y + y * p := by
  by_cases h : xl = xh
  · have hy : y = xl := le_antisymm (by linarith) hy1
    have : hlqArgmin pl ph xl xh p = xl := by unfold hlqArgmin; rw [if_pos h]
    rw [this, hy]
  have hlt : xl < xh := lt_of_le_of_ne hx h
  have hfo := hlqArgmin_first_order pl ph xl xh p y hp hx hy1 hy2
  have hex := hlqCost_expand pl ph xl xh (hlqArgmin pl ph xl xh p) y h
  have hcurv : 0 ≤ (ph - pl) / (2 * (xh - xl)) * ((y - hlqArgmin pl ph xl xh p) * (y - hlqArgmin pl ph xl xh p)) := by
    have : 0 ≤ (ph - pl) / (2 * (xh - xl)) := div_nonneg (by linarith) (by linarith)
    exact mul_nonneg this (mul_self_nonneg _)
  nlinarith

end DK
