import DK.Lemmas.TreeLemmas
import DK.Lemmas.Sum
/-!
# Lemmas about a set's own coupling constraints (C04) and the multi-flow adaptor (C04, C17)

Everything here is about the list code of `DK/Model/Tree.lean` (`sboundCons`, `labelledRows`,
`unlabelledRows`, `rowSetSum`, `balanceCon`, `ratioCon`, `Con.overConduits`, `anyNeg`): each lemma
turns one list-of-closures construction into the plain arithmetic statement it encodes.
-/
namespace DK

/-! ## satisfaction of a single closure -/

/-- `fun = 0` for `eq`, `fun ≥ 0` for `ineq` (SciPy's convention). -/
def Holds (isEq : Bool) (v : ℝ) : Prop := if isEq then v = 0 else 0 ≤ v

theorem MCon.sat_iff_holds (c : MCon ℝ) (S : Mat ℝ) : c.Sat S ↔ Holds c.isEq (c.fn S) := Iff.rfl
theorem Con.sat_iff_holds (c : Con ℝ) (x : ℕ → ℝ) : c.Sat x ↔ Holds c.isEq (c.fn x) := Iff.rfl

theorem holds_true (v : ℝ) : Holds true v ↔ v = 0 := by simp [Holds]
theorem holds_false (v : ℝ) : Holds false v ↔ 0 ≤ v := by simp [Holds]

/-! ## aggregate bounds -/

/-- the closures of one slot: one `eq` when `lo = hi`, otherwise two `ineq`; in both branches they
say exactly `lo ≤ column sum ≤ hi` (no hypothesis on `lo`, `hi` is needed). -/
theorem sboundCons_sat (R : ℕ) (sb : ℕ → ℝ × ℝ) (S : Mat ℝ) (i : ℕ) :
    (∀ c ∈ sboundCons R sb i, c.Sat S) ↔ (sb i).1 ≤ colSum R S i ∧ colSum R S i ≤ (sb i).2 := by
  unfold sboundCons
  split_ifs with h
  · simp only [List.forall_mem_singleton, MCon.sat_iff_holds, holds_true]
    constructor
    · intro h0; constructor <;> linarith
    · rintro ⟨h1, h2⟩; linarith
  · simp only [List.mem_cons, List.not_mem_nil, or_false, forall_eq_or_imp, forall_eq,
      MCon.sat_iff_holds, holds_false]
    constructor
    · rintro ⟨h1, h2⟩; constructor <;> linarith
    · rintro ⟨h1, h2⟩; constructor <;> linarith

theorem sboundCons_range_sat (n R : ℕ) (sb : ℕ → ℝ × ℝ) (S : Mat ℝ) :
    (∀ c ∈ (List.range n).flatMap (sboundCons R sb), c.Sat S) ↔
      ∀ i < n, (sb i).1 ≤ colSum R S i ∧ colSum R S i ≤ (sb i).2 := by
  constructor
  · intro h i hi
    exact (sboundCons_sat R sb S i).1 (fun c hc => h c (List.mem_flatMap.2 ⟨i, List.mem_range.2 hi, hc⟩))
  · intro h c hc
    obtain ⟨i, hi, hc⟩ := List.mem_flatMap.1 hc
    exact (sboundCons_sat R sb S i).2 (h i (List.mem_range.1 hi)) c hc

/-! ## sums over selected rows -/

theorem rowSetSum_eq_sum (rows : List ℕ) (S : Mat ℝ) (i : ℕ) :
    rowSetSum rows S i = (rows.map (fun r => S r i)).sum := by
  unfold rowSetSum
  rw [foldl_add_eq_sum, zero_add]

/-- summing the rows selected by a filter over `range m` = masked sum over all `m` rows. -/
theorem rowSetSum_filter (m : ℕ) (p : ℕ → Bool) (S : Mat ℝ) (i : ℕ) :
    rowSetSum ((List.range m).filter p) S i = sumTo m (fun k => if p k then S k i else 0) := by
  rw [rowSetSum_eq_sum]
  induction m with
  | zero => simp [sumTo]
  | succ m ih =>
    rw [List.range_succ, List.filter_append, List.map_append, List.sum_append, ih]
    simp only [sumTo]
    congr 1
    by_cases hp : p m = true
    · simp [hp]
    · simp [hp]

theorem rowSetSum_labelled (labels : List String) (l : String) (S : Mat ℝ) (i : ℕ) :
    rowSetSum (labelledRows labels l) S i =
      sumTo labels.length (fun k => if (labels.getD k "").endsWith l then S k i else 0) := by
  unfold labelledRows
  exact rowSetSum_filter labels.length _ S i

theorem rowSetSum_unlabelled (labels ls : List String) (S : Mat ℝ) (i : ℕ) :
    rowSetSum (unlabelledRows labels ls) S i =
      sumTo labels.length (fun k => if ls.all (fun l => !((labels.getD k "").endsWith l)) then S k i else 0) := by
  unfold unlabelledRows
  exact rowSetSum_filter labels.length _ S i

/-- membership in the row sets: exactly the rows whose label has the suffix. -/
theorem mem_labelledRows (labels : List String) (l : String) (k : ℕ) :
    k ∈ labelledRows labels l ↔ k < labels.length ∧ (labels.getD k "").endsWith l = true := by
  simp [labelledRows]

theorem mem_unlabelledRows (labels ls : List String) (k : ℕ) :
    k ∈ unlabelledRows labels ls ↔ k < labels.length ∧ ∀ l ∈ ls, (labels.getD k "").endsWith l = false := by
  simp [unlabelledRows]

/-! ## balancing closures -/

theorem balanceCon_sat (isEq : Bool) (sign : ℝ) (rows : List ℕ) (i : ℕ) (S : Mat ℝ) :
    (balanceCon isEq sign rows i).Sat S ↔ Holds isEq (sign * rowSetSum rows S i) := Iff.rfl

theorem balanceCons_sat (n : ℕ) (isEq : Bool) (sign : ℝ) (sets : List (List ℕ)) (S : Mat ℝ) :
    (∀ c ∈ sets.flatMap (fun rows => (List.range n).map (balanceCon isEq sign rows)), c.Sat S) ↔
      ∀ rows ∈ sets, ∀ i < n, Holds isEq (sign * rowSetSum rows S i) := by
  constructor
  · intro h rows hr i hi
    exact h _ (List.mem_flatMap.2 ⟨rows, hr, List.mem_map.2 ⟨i, List.mem_range.2 hi, rfl⟩⟩)
  · intro h c hc
    obtain ⟨rows, hr, hc⟩ := List.mem_flatMap.1 hc
    obtain ⟨i, hi, rfl⟩ := List.mem_map.1 hc
    exact h rows hr i (List.mem_range.1 hi)

/-! ## ratio closures -/

theorem ratioCon_sat (e : Bool) (r0 r1 : ℝ) (i : ℕ) (S : Mat ℝ) :
    (ratioCon e r0 r1 i).Sat S ↔ Holds e (S 0 i * r0 - S 1 i * r1) := Iff.rfl

theorem ratioCons_sat (n : ℕ) (e : Bool) (r0 r1 : ℝ) (S : Mat ℝ) :
    (∀ c ∈ (List.range n).map (ratioCon e r0 r1), c.Sat S) ↔
      ∀ i < n, Holds e (S 0 i * r0 - S 1 i * r1) := by
  constructor
  · intro h i hi
    exact h _ (List.mem_map.2 ⟨i, List.mem_range.2 hi, rfl⟩)
  · intro h c hc
    obtain ⟨i, hi, rfl⟩ := List.mem_map.1 hc
    exact h i (List.mem_range.1 hi)

/-! ## wrapped constraints applied to the column sum -/

theorem overConduits_sat (k : ℕ) (c : Con ℝ) (S : Mat ℝ) :
    (c.overConduits k).Sat S ↔ c.Sat (colSum k S) := Iff.rfl

theorem overConduits_all_sat (k : ℕ) (cons : List (Con ℝ)) (S : Mat ℝ) :
    (∀ c ∈ cons.map (Con.overConduits k), c.Sat S) ↔ ∀ c ∈ cons, c.Sat (colSum k S) := by
  simp only [List.forall_mem_map, overConduits_sat]

theorem toM_all_sat (cons : List (Con ℝ)) (S : Mat ℝ) :
    (∀ c ∈ cons.map Con.toM, c.Sat S) ↔ ∀ c ∈ cons, c.Sat (S 0) := by
  simp only [List.forall_mem_map]
  exact Iff.rfl

/-! ## direction of the wrapped device -/

theorem anyNeg_iff (n : ℕ) (lb : ℕ → ℝ) : anyNeg n lb = true ↔ ∃ i < n, lb i < 0 := by
  simp [anyNeg]

theorem anyNeg_false_iff (n : ℕ) (lb : ℕ → ℝ) : anyNeg n lb = false ↔ ∀ i < n, 0 ≤ lb i := by
  rw [← Bool.not_eq_true, anyNeg_iff]
  push Not
  rfl

/-! ## column sums -/

theorem colSum_const_div (k : ℕ) (hk : 1 ≤ k) (s : ℕ → ℝ) :
    colSum k (fun _ i => s i / (k : ℝ)) = s := by
  funext i
  unfold colSum
  rw [sumTo_const]
  have : (k : ℝ) ≠ 0 := by
    have : (1 : ℝ) ≤ (k : ℝ) := by exact_mod_cast hk
    linarith
  field_simp

theorem colSum_add_smul (k : ℕ) (S D : Mat ℝ) (τ : ℝ) :
    colSum k (fun r i => S r i + τ * D r i) = fun i => colSum k S i + τ * colSum k D i := by
  funext i
  unfold colSum
  rw [sumTo_add, sumTo_mul_left]

end DK
