import DK.Lemmas.BridgeLoaders.Basic
import DK.Lemmas.BridgeLoaders.Runs
import DK.Lemmas.BridgeLoaders.Devices
import DK.Lemmas.BridgeLoaders.Helpers
/-!
# BridgeLoaders (tie T1l): the generated translation of the LOADER helpers equals the model

`DK/Gen/Loaders/<Group>.lean` is regenerated from `/repo/device_kit/loaders/builder_loader.py` and `/repo/device_kit/utils.py`
by `vk/translate_loaders.py` on every check run.  A run dictionary is an association list `List (Nat × V)` in insertion
order (keys denoted by the number they spell); whatever can raise is a bind of `Except LoadErr`; a `for` loop is a
`List.foldlM`.  `DK/Lemmas/BridgeLoaders/<Group>.lean` proves each generated unit equal to the definition of
`DK/Model/Loader.lean` the C20 theorems are about:

* `Runs`    `run_to_array_{scalar,pair,vec}` = `runToArray`; `run_to_cbounds_array` = `runToCbounds`; `load_cbounds` = `loadCbounds`
            (for every dictionary with distinct keys, in ANY key order, every basis — via `foldlM_lookahead`: the loop
            `e = int(points[i+1]) if i < len(points) - 1 else basis` over `sorted(keys, key=int)` is the structural
            recursion `fillRuns` / `cboundsOf` over `sortRuns`)
* `Devices` the `bounds` slice of every `load_<kind>_device` = `runToArray` on pairs = what `tableBounds` reads
            (`tableBounds_toRun`); supply = `supplyPair` of it; fixed load = the `.all()` test `loadDevice` executes
            (`loadDevice_fixedLoad`); `parameter_map` tables by `decide`; the renaming comprehension = `storageParams`
* `Helpers` `care2bounds_{pair,pairvec,vector}` = `care2bounds`; `on2bounds_{pair,pairvec,vector}` = `on2bounds`
            (`foldlM_on`: the stride-2 loop is `onVector`, `IndexError` on an odd list in both)

A changed loader (keys sorted as strings, off-by-one fill range, last run not extended to the basis, inclusive ↔ exclusive
on-interval end, columns not swapped / not negated, `.all()` ↔ `.any()`, a renamed map key) makes a lemma here fail —
a broken proof obligation of C20.
-/
