import DK.Lemmas.BridgeSets.Basic
import DK.Lemmas.BridgeSets.Shape
import DK.Lemmas.BridgeSets.Cost
import DK.Lemmas.BridgeSets.Bounds
import DK.Lemmas.BridgeSets.Cons
import DK.Lemmas.BridgeSets.MF
import DK.Lemmas.BridgeSets.MFCons
import DK.Lemmas.BridgeSets.SubBalanced
import DK.Lemmas.BridgeSets.Map
import DK.Lemmas.BridgeSets.LeafCons
/-!
# BridgeSets (tie T1s): the generated translation of the SET-LEVEL glue equals the model

`DK/Gen/Sets/<Group>.lean` is regenerated from `/repo/device_kit/{deviceset,mfdeviceset,tworatiomfdeviceset,
subbalanceddeviceset,basedevice,utils}.py` by `vk/translate_sets.py` on every check run, one module per source group.
The children of a set are an abstract list of records (`Gen.Child`: row count, `cost / deriv / hess / project` as
functions of a row block, flat bounds table, constraint list), the wrapped device of a multi-flow adaptor a record
`Gen.Dev`.  `DK/Lemmas/BridgeSets/<Group>.lean` proves each generated unit equal to the model definition of
`DK/Model/Tree.lean` (`partitionFrom`, `costL`, `derivL`, `boundsL`, `projectL`, `consL`, `sboundCons`, `balanceCon`,
`ratioCon`, `Block.ofMF`, `Tree.mapRows`) that the tree theorems (C02, C04, C08, C13, C17) are about — for EVERY list
of children, by induction over the list (`Basic.lean`: `sum_zip`, `vstack_zip`, `flatMap_zip`, `roll_cumsum`).
Lemma names are `DK.BridgeSets.<unit>`; `vk/check.py` builds and audits, per property, only the modules that prove the
lemmas of its `bridge` list.  This file just imports every group (built by `DK/Props/All.lean`).
-/
