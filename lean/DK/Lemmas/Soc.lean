import DK.Model.Constraints
import DK.Lemmas.Sum
/-!
# Algebra of the sustainment weights `susW`, `effPow`, `minZero` and `soc` at `ℝ`
(no calculus; shared by `DK.Props.C09` and `DK.Lemmas.Storage`)
-/
namespace DK

theorem effPow_one (x : ℝ) : effPow 1 x = 1 := by
  unfold effPow; split_ifs <;> simp

theorem effPow_of_pos (e : ℝ) {r : ℝ} (h : 0 < r) : effPow e r = e := by
  unfold effPow; rw [if_pos h]

theorem effPow_of_neg (e : ℝ) {r : ℝ} (h : r < 0) : effPow e r = 1 / e := by
  unfold effPow; rw [if_neg (not_lt.mpr (le_of_lt h)), if_pos h]

theorem effPow_zero (e : ℝ) : effPow e 0 = 1 := by
  unfold effPow; simp

theorem susW_of_le (sus : ℝ) {i j : ℕ} (h : j ≤ i) : susW sus i j = sus ^ (i - j) := by
  unfold susW; rw [if_pos h, npow_eq_pow]

theorem susW_of_lt (sus : ℝ) {i j : ℕ} (h : i < j) : susW sus i j = 0 := by
  unfold susW; rw [if_neg (Nat.not_le.mpr h)]

theorem susW_self (sus : ℝ) (i : ℕ) : susW sus i i = 1 := by
  rw [susW_of_le sus (le_refl i)]; simp

theorem susW_succ (sus : ℝ) {i j : ℕ} (h : j ≤ i) : susW sus (i + 1) j = sus * susW sus i j := by
  rw [susW_of_le sus h, susW_of_le sus (Nat.le_succ_of_le h),
    show i + 1 - j = (i - j) + 1 by omega, pow_succ]
  ring

/-- a sum against row `i` of the sustainment matrix only sees the slots `j ≤ i`. -/
theorem sumTo_susW_extend (sus : ℝ) (n i : ℕ) (hi : i < n) (f : ℕ → ℝ) :
    sumTo n (fun j => f j * susW sus i j) = sumTo (i + 1) (fun j => f j * susW sus i j) := by
  rw [sumTo_split n (i + 1) hi]
  have : sumTo (n - (i + 1)) (fun k => f (i + 1 + k) * susW sus i (i + 1 + k)) = 0 := by
    rw [sumTo_congr (g := fun _ => (0 : ℝ))]
    · exact sumTo_zero_fn _
    · intro k _
      rw [susW_of_lt sus (show i < i + 1 + k by omega)]; ring
  rw [this]; ring

theorem minZero_eq_min (x : ℝ) : minZero x = min x 0 := by
  unfold minZero
  rcases lt_or_ge x 0 with h | h
  · rw [if_pos h, min_eq_left (le_of_lt h)]
  · rw [if_neg (not_lt.mpr h), min_eq_right h]

theorem soc_zero (sus eff : ℝ) (r : ℕ → ℝ) : soc sus eff r 0 = r 0 * effPow eff (r 0) := by
  unfold soc
  simp only [sumTo, susW_self]
  ring

theorem soc_succ (sus eff : ℝ) (r : ℕ → ℝ) (i : ℕ) :
    soc sus eff r (i + 1) = sus * soc sus eff r i + r (i + 1) * effPow eff (r (i + 1)) := by
  unfold soc
  rw [show i + 1 + 1 = (i + 1) + 1 from rfl, sumTo, susW_self, ← sumTo_mul_left]
  congr 1
  · exact sumTo_congr (fun j hj => by rw [susW_succ sus (Nat.lt_succ_iff.mp hj)]; ring)
  · ring

theorem soc_zero_flow (sus eff : ℝ) (i : ℕ) : soc sus eff (fun _ => 0) i = 0 := by
  unfold soc
  rw [sumTo_congr (g := fun _ => (0 : ℝ)) (fun j _ => by ring)]
  exact sumTo_zero_fn _

theorem baseSoc_zero (b sus : ℝ) : baseSoc b sus 0 = sus * b := by
  unfold baseSoc; rw [npow_eq_pow]; ring

theorem baseSoc_succ (b sus : ℝ) (i : ℕ) : baseSoc b sus (i + 1) = sus * baseSoc b sus i := by
  unfold baseSoc; rw [npow_eq_pow, npow_eq_pow, pow_succ]; ring

end DK
