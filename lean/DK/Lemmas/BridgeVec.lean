import DK.Lemmas.BridgeVec.Tactics
import DK.Lemmas.BridgeVec.Utils
import DK.Lemmas.BridgeVec.Device
import DK.Lemmas.BridgeVec.CDevice
import DK.Lemmas.BridgeVec.SDevice
import DK.Lemmas.BridgeVec.SDeviceCost
import DK.Lemmas.BridgeVec.SDeviceCons
import DK.Lemmas.BridgeVec.DeviceCons
import DK.Lemmas.BridgeVec.Kernels
import DK.Lemmas.BridgeVec.IDevice
import DK.Lemmas.BridgeVec.TDevice
import DK.Lemmas.BridgeVec.TDeviceCost
import DK.Lemmas.BridgeVec.Fn
import DK.Lemmas.BridgeVec.GDevice
import DK.Lemmas.BridgeVec.CDevice2
/-!
# BridgeVec (tie T1v): the generated translation of the *vector* method bodies equals the model

`DK/Gen/Vec/<Group>.lean` is regenerated from `/repo/device_kit/*.py` by `vk/translate_vec.py` on every check run, one
module per source group.  `DK/Lemmas/BridgeVec/<Group>.lean` proves each generated definition equal — pointwise, for
every horizon `n`, every parameter and every flow — to the hand-written model definition of
`DK/Model/{Leaf,Constraints,Fn}.lean` that the property theorems are about; lemma names are `DK.BridgeVec.<unit>`.
The proofs unfold the generated body, rewrite calls of other generated units with *their* bridge lemma, and close the
remaining identity of real-number expressions with `ring1` / `field_simp` / case splits on the `if`s (index conditions
by `omega`): an algebraically equivalent rewrite of the Python source keeps them provable, a semantic change (sign,
dropped term or factor, shifted slice) does not.

The split limits the blast radius: a changed or untranslatable unit breaks only the module of its group and the groups
that call it (import graph = call graph of the Python units); `vk/check.py` builds and audits, per property, only the
modules that prove the lemmas of its `bridge` list.  This file just imports every group (built by `DK/Props/All.lean`).
-/
