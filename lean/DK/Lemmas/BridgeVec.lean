import DK.Model.Constraints
import DK.Gen.Vec
import DK.Lemmas.Sum
import DK.Lemmas.Bridge
import Mathlib.Tactic.Ring
import Mathlib.Tactic.FieldSimp
import Mathlib.Tactic.Linarith
/-!
# BridgeVec (tie T1v): the generated translation of the *vector* method bodies equals the model

`DK.Gen.*` of `DK/Gen/Vec.lean` is regenerated from `/repo/device_kit/*.py` by `vk/translate_vec.py` on every check
run.  Each lemma below states that a generated definition equals — pointwise, for every horizon `n`, every parameter
and every flow — the hand-written model definition of `DK/Model/{Leaf,Constraints,Fn}.lean` that the property theorems
are about, and must still go through after regeneration.  The proofs unfold the generated body, rewrite calls of other
generated units with *their* bridge lemma, and close the remaining identity of real-number expressions with
`ring` / `field_simp` / case splits on the `if`s (index conditions by `omega`): an algebraically equivalent rewrite of
the Python source keeps them provable, a semantic change (sign, dropped term or factor, shifted slice) does not.
-/
set_option linter.unusedSimpArgs false
set_option linter.unnecessarySeqFocus false
set_option linter.unusedTactic false
set_option linter.unreachableTactic false
set_option linter.unusedVariables false
set_option linter.unusedSectionVars false
namespace DK.BridgeVec
open DK

/-- closes an identity of field expressions -/
macro "vclose" : tactic =>
  `(tactic| first | rfl | ring1 | (field_simp; done) | (field_simp; ring1) | (simp; done) | (simp; ring1) | (ring_nf; done) | (simp only [sumTo_eq_sum, mul_comm, mul_left_comm, mul_assoc] <;> ring1))

/-- close whatever is left (nothing, if the rewriting already closed the goal); an open goal is an error -/
macro "vdone" : tactic => `(tactic| all_goals (try vclose))

/-- case split on every `if`, then close each branch as an identity or refute its index / order conditions -/
macro "vsplit" : tactic =>
  `(tactic| all_goals (try first | vclose | (split_ifs <;> first | vclose | (exfalso; omega) | (exfalso; linarith) | (simp_all; done) | (simp_all; ring1))))

-- two sums over the same range with pointwise equal summands (the index is `k`)
set_option hygiene false in
macro "vsum" : tactic => `(tactic| try (apply sumTo_congr; intro k _))

/-! ## numpy primitives of the prelude -/

theorem sgnPow_eq (e y : ℝ) : Gen.sgnPow e y = effPow e y := rfl

theorem minimum_zero (x : ℝ) : Gen.minimum x 0 = minZero x := by
  unfold Gen.minimum minZero
  split_ifs <;> linarith

/-! ## utils.py -/

theorem utils_power_matrix (l i j : ℕ) : Gen.utils_power_matrix l i j = i - j := by
  unfold Gen.utils_power_matrix
  induction i with
  | zero => simp [sumTo]
  | succ i ih =>
    rw [sumTo, ih]
    split_ifs <;> omega

theorem npow_one (k : ℕ) : npow (1 : ℝ) k = 1 := by simp

theorem utils_sustainment_matrix (s : ℝ) (l i j : ℕ) : Gen.utils_sustainment_matrix s l i j = susW s i j := by
  unfold Gen.utils_sustainment_matrix susW
  simp only [utils_power_matrix]
  by_cases h : s = 1
  · subst h; simp only [if_true, npow_one]
  · simp only [h, if_false]

theorem utils_base_soc (b s : ℝ) (l i : ℕ) : Gen.utils_base_soc b s l i = baseSoc b s i := by
  unfold Gen.utils_base_soc baseSoc
  simp only [npow_eq_pow]
  vdone

theorem utils_soc (n : ℕ) (r : ℕ → ℝ) (s e : ℝ) (i : ℕ) : Gen.utils_soc n r s e i = soc s e r i := by
  unfold Gen.utils_soc soc
  vsum
  simp only [utils_sustainment_matrix, sgnPow_eq]
  vdone

/-! ## Device / CDevice: the price terms (C08) and the linear cost -/

theorem Device_cost (n : ℕ) (s p : ℕ → ℝ) : Gen.Device_cost n s p = deviceCost n s p := by
  unfold Gen.Device_cost deviceCost priceTerm
  vsum; vdone

theorem Device_deriv (n : ℕ) (s p : ℕ → ℝ) (i : ℕ) : Gen.Device_deriv n s p i = deviceDeriv p i := by
  unfold Gen.Device_deriv deviceDeriv; vclose

theorem Device_hess (n : ℕ) (s : ℕ → ℝ) (i j : ℕ) : Gen.Device_hess n s i j = 0 := by
  unfold Gen.Device_hess; vclose

theorem CDevice_cost (n : ℕ) (a b : ℝ) (s p : ℕ → ℝ) : Gen.CDevice_cost n a b s p = cdevCost n a b s p := by
  unfold Gen.CDevice_cost cdevCost priceTerm
  simp only [sumTo_eq_sum]
  vdone

theorem CDevice_deriv (n : ℕ) (a b : ℝ) (s p : ℕ → ℝ) (i : ℕ) : Gen.CDevice_deriv n a b s p i = cdevDeriv a p i := by
  unfold Gen.CDevice_deriv cdevDeriv; vclose

theorem CDevice_hess (n : ℕ) (a b : ℝ) (s : ℕ → ℝ) (i j : ℕ) : Gen.CDevice_hess n a b s i j = 0 := by
  unfold Gen.CDevice_hess; vclose

/-! ## SDevice (C01 gradient, C09 recurrences, C15 closed forms) -/
section storage
variable (n : ℕ) (c1 c2 c3 capacity damage_depth start reserve efficiency sustainment cl ch : ℝ) (lb hb : ℕ → ℝ)

-- the generated SDevice methods take the horizon and every declared field of the class
set_option hygiene false in
local macro:max "sd%" f:term:max : term =>
  `($f n c1 c2 c3 capacity damage_depth start reserve efficiency sustainment cl ch lb hb)
-- the model's parameter record built from the same fields
set_option hygiene false in
local macro:max "Q%" : term =>
  `((SParams.mk c1 c2 c3 capacity damage_depth start reserve efficiency sustainment : SParams ℝ))

theorem SDevice_base : sd% Gen.SDevice_base = start * capacity := by
  unfold Gen.SDevice_base; vclose

theorem SDevice_charge_at (r : ℕ → ℝ) (i : ℕ) : sd% Gen.SDevice_charge_at r i = chargeAt Q% r i := by
  unfold Gen.SDevice_charge_at chargeAt
  simp only [utils_base_soc, utils_soc, SDevice_base]
  vdone

theorem soc_lossless (r : ℕ → ℝ) (i : ℕ) : soc 1 1 r i = sumTo (i + 1) r := by
  unfold soc
  vsum
  have h1 : effPow (1 : ℝ) (r k) = 1 := by unfold effPow; split_ifs <;> simp
  have h2 : susW (1 : ℝ) i k = 1 := by unfold susW; rw [if_pos (by omega)]; simp
  rw [h1, h2]; ring1

/-- `charge_at_lossless` is `charge_at` of the same device with efficiency and sustainment 1 -/
theorem SDevice_charge_at_lossless (r : ℕ → ℝ) (i : ℕ) :
    sd% Gen.SDevice_charge_at_lossless r i
      = chargeAt (SParams.mk c1 c2 c3 capacity damage_depth start reserve 1 1) r i := by
  unfold Gen.SDevice_charge_at_lossless chargeAt baseSoc
  simp only [SDevice_base, soc_lossless, npow_eq_pow, one_pow]
  have h : sumTo (i + 1) (fun k => r k) = sumTo (i + 1) r := rfl
  vdone

theorem SDevice_deep_damage_at (r : ℕ → ℝ) (i : ℕ) :
    sd% Gen.SDevice_deep_damage_at r i = c3 * (shortfall Q% r i * shortfall Q% r i) := by
  unfold Gen.SDevice_deep_damage_at shortfall
  simp only [SDevice_charge_at, minimum_zero]
  vdone

theorem SDevice_deep_damage_at_deriv (r : ℕ → ℝ) (j : ℕ) :
    sd% Gen.SDevice_deep_damage_at_deriv r j
      = sumTo n (fun i => c3 * 2 * shortfall Q% r i * susW sustainment i j * effPow efficiency (r j)) := by
  unfold Gen.SDevice_deep_damage_at_deriv shortfall
  simp only [SDevice_charge_at, minimum_zero, utils_sustainment_matrix, sgnPow_eq]
  all_goals (try first
    | rfl
    | (apply sumTo_congr; intro k _; vclose)
    | (simp only [sumTo_eq_sum, Finset.mul_sum, Finset.sum_mul]; apply Finset.sum_congr rfl; intro k _; ring1))

theorem SDevice_flip_cost_at (r : ℕ → ℝ) (i : ℕ) :
    sd% Gen.SDevice_flip_cost_at r i = if i + 1 < n then c2 * (-1 : ℝ) * (r i * r (i + 1)) else 0 := by
  unfold Gen.SDevice_flip_cost_at
  vsplit

theorem SDevice_charge_costs (r : ℕ → ℝ) (i : ℕ) : sd% Gen.SDevice_charge_costs r i = chargeCost n Q% r i := by
  unfold Gen.SDevice_charge_costs chargeCost
  simp only [SDevice_flip_cost_at, SDevice_deep_damage_at]
  vsplit

theorem SDevice_charge_costs_deriv (r p : ℕ → ℝ) (j : ℕ) :
    sd% Gen.SDevice_charge_costs_deriv r j + p j = sdevDeriv n Q% r p j := by
  unfold Gen.SDevice_charge_costs_deriv sdevDeriv
  simp only [SDevice_deep_damage_at_deriv]
  vsplit

theorem SDevice_costv (s p : ℕ → ℝ) (i : ℕ) : sd% Gen.SDevice_costv s p i = chargeCost n Q% s i + s i * p i := by
  unfold Gen.SDevice_costv
  simp only [SDevice_charge_costs]
  vdone

theorem SDevice_cost (s p : ℕ → ℝ) : sd% Gen.SDevice_cost s p = sdevCost n Q% s p := by
  unfold Gen.SDevice_cost sdevCost
  vsum
  simp only [SDevice_costv]
  vdone

theorem SDevice_deriv (s p : ℕ → ℝ) (j : ℕ) : sd% Gen.SDevice_deriv s p j = sdevDeriv n Q% s p j := by
  unfold Gen.SDevice_deriv
  first
  | exact SDevice_charge_costs_deriv n c1 c2 c3 capacity damage_depth start reserve efficiency sustainment cl ch lb hb s p j
  | (rw [← SDevice_charge_costs_deriv n c1 c2 c3 capacity damage_depth start reserve efficiency sustainment cl ch lb hb s p j]; ring1)

/-! ## storage constraint closures (C03, C06) -/

theorem SDevice_constraints_soc (r : ℕ → ℝ) (i : ℕ) : sd% Gen.SDevice_constraints_soc r i = socDot n Q% r i := by
  unfold Gen.SDevice_constraints_soc socDot
  simp only [SDevice_base, utils_sustainment_matrix, sgnPow_eq]
  all_goals (try first
    | rfl
    | (congr 1; first | rfl | ring1 | (vsum; vdone))
    | (congr 1 <;> first | rfl | ring1 | (vsum; vdone)))

theorem SDevice_constraints_fun0 (r : ℕ → ℝ) (i : ℕ) :
    sd% Gen.SDevice_constraints_fun0 r i = socDot n Q% r i := by
  unfold Gen.SDevice_constraints_fun0
  simp only [SDevice_constraints_soc]
  vdone

theorem SDevice_constraints_jac0 (r : ℕ → ℝ) (i j : ℕ) :
    sd% Gen.SDevice_constraints_jac0 r i j = socJac Q% r i j := by
  unfold Gen.SDevice_constraints_jac0 socJac
  simp only [utils_sustainment_matrix, sgnPow_eq]
  vdone

theorem SDevice_constraints_fun1 (r : ℕ → ℝ) (i : ℕ) :
    sd% Gen.SDevice_constraints_fun1 r i = capacity - socDot n Q% r i := by
  unfold Gen.SDevice_constraints_fun1
  simp only [SDevice_constraints_soc]
  vdone

theorem SDevice_constraints_jac1 (r : ℕ → ℝ) (i j : ℕ) :
    sd% Gen.SDevice_constraints_jac1 r i j = (-1 : ℝ) * socJac Q% r i j := by
  unfold Gen.SDevice_constraints_jac1 socJac
  simp only [utils_sustainment_matrix, sgnPow_eq]
  vdone

/-- the model's per-slot state-of-charge constraint pair is exactly the four generated closures -/
theorem SDevice_constraints_socCons (i : ℕ) :
    socCons n Q% i =
      [ { isEq := false, fn := fun r => sd% Gen.SDevice_constraints_fun0 r i,
          jac := some (fun r j => sd% Gen.SDevice_constraints_jac0 r i j) },
        { isEq := false, fn := fun r => sd% Gen.SDevice_constraints_fun1 r i,
          jac := some (fun r j => sd% Gen.SDevice_constraints_jac1 r i j) } ] := by
  unfold socCons
  simp only [SDevice_constraints_fun0, SDevice_constraints_jac0, SDevice_constraints_fun1, SDevice_constraints_jac1]

/-- discharge-rate clipping closure; `cl` is `rate_clip[0]`, `lb` the lower bounds -/
theorem SDevice_constraints_fun2 (r : ℕ → ℝ) (i : ℕ) :
    sd% Gen.SDevice_constraints_fun2 r i = (clipLoCon n Q% lb cl i).fn r := by
  unfold Gen.SDevice_constraints_fun2 clipLoCon
  simp only [SDevice_constraints_soc]
  vdone

/-- charge-rate clipping closure; `ch` is `rate_clip[1]`, `hb` the upper bounds -/
theorem SDevice_constraints_fun3 (r : ℕ → ℝ) (i : ℕ) :
    sd% Gen.SDevice_constraints_fun3 r i = (clipHiCon n Q% hb ch i).fn r := by
  unfold Gen.SDevice_constraints_fun3 clipHiCon
  simp only [SDevice_constraints_soc]
  vdone

theorem SDevice_constraints_fun4 (r : ℕ → ℝ) : sd% Gen.SDevice_constraints_fun4 r = (reserveCon n Q%).fn r := by
  unfold Gen.SDevice_constraints_fun4 reserveCon
  simp only [SDevice_constraints_soc]
  vdone

theorem SDevice_constraints_jac4 (r : ℕ → ℝ) (j : ℕ) :
    sd% Gen.SDevice_constraints_jac4 r j = socJac Q% r (n - 1) j := by
  unfold Gen.SDevice_constraints_jac4 socJac
  simp only [utils_sustainment_matrix, sgnPow_eq]
  vdone

end storage

/-! ## cumulative-bound closures of `Device.constraints` (C03, C06) -/

theorem Device_constraints_fun0 (n : ℕ) (x : ℕ → ℝ) (l : ℝ) (s e : ℕ) :
    Gen.Device_constraints_fun0 n x l s e = sliceSum n s e x - l := by
  unfold Gen.Device_constraints_fun0 sliceSum; vclose

theorem Device_constraints_jac0 (n : ℕ) (x : ℕ → ℝ) (s e k : ℕ) :
    Gen.Device_constraints_jac0 n x s e k = inRange s e k := by
  unfold Gen.Device_constraints_jac0 inRange; vsplit

theorem Device_constraints_fun1 (n : ℕ) (x : ℕ → ℝ) (h : ℝ) (s e : ℕ) :
    Gen.Device_constraints_fun1 n x h s e = h - sliceSum n s e x := by
  unfold Gen.Device_constraints_fun1 sliceSum; vclose

theorem Device_constraints_jac1 (n : ℕ) (x : ℕ → ℝ) (s e k : ℕ) :
    Gen.Device_constraints_jac1 n x s e k = (-1 : ℝ) * inRange s e k := by
  unfold Gen.Device_constraints_jac1 inRange; vsplit

/-- the model's constraint pair of one cumulative bound is exactly the four generated closures -/
theorem Device_constraints (n : ℕ) (cb : CBound ℝ) :
    cboundCons n cb =
      [ { isEq := false, fn := fun x => Gen.Device_constraints_fun0 n x cb.l cb.s cb.e,
          jac := some (fun x k => Gen.Device_constraints_jac0 n x cb.s cb.e k) },
        { isEq := false, fn := fun x => Gen.Device_constraints_fun1 n x cb.h cb.s cb.e,
          jac := some (fun x k => Gen.Device_constraints_jac1 n x cb.s cb.e k) } ] := by
  unfold cboundCons
  simp only [Device_constraints_fun0, Device_constraints_jac0, Device_constraints_fun1, Device_constraints_jac1]

/-! ## function classes over the scalar kernels; IDevice2 / IDevice (C01, C14, C15) -/

theorem HLQuadraticCost_call (n : ℕ) (pl ph xl xh x : ℕ → ℝ) :
    Gen.HLQuadraticCost_call n pl ph xl xh x = (Fn.hlq pl ph xl xh).eval n x := by
  unfold Gen.HLQuadraticCost_call Fn.eval
  vsum; simp only [Bridge.hlq_cost]; vdone

theorem HLQuadraticCost_deriv (n : ℕ) (pl ph xl xh x : ℕ → ℝ) (i : ℕ) :
    Gen.HLQuadraticCost_deriv n pl ph xl xh x i = (Fn.hlq pl ph xl xh).deriv n x i := by
  unfold Gen.HLQuadraticCost_deriv Fn.deriv
  simp only [Bridge.hlq_deriv]; vdone

theorem HLQuadraticCost_hess (n : ℕ) (pl ph xl xh x : ℕ → ℝ) (i j : ℕ) :
    Gen.HLQuadraticCost_hess n pl ph xl xh x i j = (Fn.hlq pl ph xl xh).hess n x i j := by
  unfold Gen.HLQuadraticCost_hess Fn.hess
  simp only [Bridge.hlq_hess]; vdone

/-- a sum of `c / n` over `n` slots is `c` (the per-slot share `_cost_fn(s)/len(self)` of `costv`) -/
theorem sumTo_share (n : ℕ) (f g : ℕ → ℝ) :
    sumTo n (fun k => sumTo n f / (natCast' n : ℝ) + g k) = sumTo n f + sumTo n g := by
  rw [sumTo_add, sumTo_const, natCast'_eq]
  rcases Nat.eq_zero_or_pos n with h | h
  · subst h; simp [sumTo]
  · have : (n : ℝ) ≠ 0 := by exact_mod_cast (Nat.pos_iff_ne_zero.mp h)
    field_simp

theorem IDevice2_costv (n : ℕ) (pl ph lb hb s p : ℕ → ℝ) (i : ℕ) :
    Gen.IDevice2_costv n pl ph lb hb s p i
      = sumTo n (fun k => hlqCost (pl k) (ph k) (lb k) (hb k) (s k)) / (natCast' n : ℝ) + s i * p i := by
  unfold Gen.IDevice2_costv
  simp only [HLQuadraticCost_call, Fn.eval]
  vdone

theorem IDevice2_cost (n : ℕ) (pl ph lb hb s p : ℕ → ℝ) :
    Gen.IDevice2_cost n pl ph lb hb s p = idev2Cost n pl ph lb hb s p := by
  unfold Gen.IDevice2_cost idev2Cost priceTerm
  simp only [IDevice2_costv]
  rw [sumTo_share]

theorem IDevice2_deriv (n : ℕ) (pl ph lb hb s p : ℕ → ℝ) (i : ℕ) :
    Gen.IDevice2_deriv n pl ph lb hb s p i = idev2Deriv pl ph lb hb s p i := by
  unfold Gen.IDevice2_deriv idev2Deriv
  simp only [HLQuadraticCost_deriv, Fn.deriv]
  vdone

theorem IDevice2_hess (n : ℕ) (pl ph lb hb s : ℕ → ℝ) (i j : ℕ) :
    Gen.IDevice2_hess n pl ph lb hb s i j = idev2Hess pl ph lb hb i j := by
  unfold Gen.IDevice2_hess idev2Hess
  simp only [HLQuadraticCost_hess, Fn.hess]
  vdone

section abc
variable {ε : Type} [Sub ε] [OfNat ε 1] [OfNat ε 2] (pow : ℝ → ε → ℝ) (cast : ε → ℝ)

/-- `Bridge.abc_cost` for an arbitrary exponent type (the executable model uses `Int`, the theorems `ℝ`) -/
theorem abc_cost' (x a : ℝ) (b : ε) (c xl xh : ℝ) : Gen.abc_cost pow x a b c xl xh = abcCost pow x a b c xl xh := by
  unfold Gen.abc_cost abcCost
  by_cases h : xl = xh
  · simp [h]
  · simp only [h, if_false, Bridge.abc_q]; vdone

theorem abc_deriv' (x a : ℝ) (b : ε) (c xl xh : ℝ) :
    Gen.abc_deriv pow cast x a b c xl xh = abcDeriv pow cast x a b c xl xh := by
  unfold Gen.abc_deriv abcDeriv
  by_cases h : xl = xh
  · simp [h]
  · have hd : xh - xl ≠ 0 := sub_ne_zero.mpr (Ne.symm h)
    simp only [h, if_false, Bridge.abc_q]; vdone

theorem abc_hess' (x a : ℝ) (b : ε) (c xl xh : ℝ) :
    Gen.abc_hess pow cast x a b c xl xh = abcHess pow cast x a b c xl xh := by
  unfold Gen.abc_hess abcHess
  by_cases h : xl = xh
  · simp [h]
  · have hd : xh - xl ≠ 0 := sub_ne_zero.mpr (Ne.symm h)
    by_cases hb : cast b = 1
    · simp [h, hb]
    · simp only [h, hb, or_self, if_false, Bridge.abc_q]; vdone

theorem ABCCost_call (n : ℕ) (a : ℕ → ℝ) (b : ℕ → ε) (c xl xh x : ℕ → ℝ) :
    Gen.ABCCost_call pow n a b c xl xh x = sumTo n (fun k => abcCost pow (x k) (a k) (b k) (c k) (xl k) (xh k)) := by
  unfold Gen.ABCCost_call
  vsum; simp only [abc_cost']; vdone

theorem ABCCost_deriv (n : ℕ) (a : ℕ → ℝ) (b : ℕ → ε) (c xl xh x : ℕ → ℝ) (i : ℕ) :
    Gen.ABCCost_deriv pow cast n a b c xl xh x i = abcDeriv pow cast (x i) (a i) (b i) (c i) (xl i) (xh i) := by
  unfold Gen.ABCCost_deriv
  simp only [abc_deriv']; vdone

theorem ABCCost_hess (n : ℕ) (a : ℕ → ℝ) (b : ℕ → ε) (c xl xh x : ℕ → ℝ) (i j : ℕ) :
    Gen.ABCCost_hess pow cast n a b c xl xh x i j
      = if i = j then abcHess pow cast (x i) (a i) (b i) (c i) (xl i) (xh i) else 0 := by
  unfold Gen.ABCCost_hess
  simp only [abc_hess']; vdone

theorem IDevice_costv (n : ℕ) (a : ℕ → ℝ) (b : ℕ → ε) (c lb hb s p : ℕ → ℝ) (i : ℕ) :
    Gen.IDevice_costv pow n a b c lb hb s p i
      = sumTo n (fun k => abcCost pow (s k) (a k) (b k) (c k) (lb k) (hb k)) / (natCast' n : ℝ) + s i * p i := by
  unfold Gen.IDevice_costv
  simp only [ABCCost_call]
  vdone

theorem IDevice_cost (n : ℕ) (a : ℕ → ℝ) (b : ℕ → ε) (c lb hb s p : ℕ → ℝ) :
    Gen.IDevice_cost pow n a b c lb hb s p = idevCost pow n a b c lb hb s p := by
  unfold Gen.IDevice_cost idevCost priceTerm
  simp only [IDevice_costv]
  rw [sumTo_share]

theorem IDevice_deriv (n : ℕ) (a : ℕ → ℝ) (b : ℕ → ε) (c lb hb s p : ℕ → ℝ) (i : ℕ) :
    Gen.IDevice_deriv pow cast n a b c lb hb s p i = idevDeriv pow cast a b c lb hb s p i := by
  unfold Gen.IDevice_deriv idevDeriv
  simp only [ABCCost_deriv]
  vdone

theorem IDevice_hess (n : ℕ) (a : ℕ → ℝ) (b : ℕ → ε) (c lb hb s : ℕ → ℝ) (i j : ℕ) :
    Gen.IDevice_hess pow cast n a b c lb hb s i j = idevHess pow cast a b c lb hb s i j := by
  unfold Gen.IDevice_hess idevHess
  simp only [ABCCost_hess]
  vdone

end abc

/-- `ABCCost.__call__/deriv/hess` at the executable exponent type are the `Fn.abc` combinator -/
theorem ABCCost_fn (n : ℕ) (a : ℕ → ℝ) (b : ℕ → Int) (c xl xh x : ℕ → ℝ) (i j : ℕ) :
    Gen.ABCCost_call ipow n a b c xl xh x = (Fn.abc a b c xl xh).eval n x
    ∧ Gen.ABCCost_deriv ipow intCast' n a b c xl xh x i = (Fn.abc a b c xl xh).deriv n x i
    ∧ Gen.ABCCost_hess ipow intCast' n a b c xl xh x i j = (Fn.abc a b c xl xh).hess n x i j := by
  refine ⟨?_, ?_, ?_⟩
  · rw [ABCCost_call]; rfl
  · rw [ABCCost_deriv]; rfl
  · rw [ABCCost_hess]; rfl

/-! ## TDevice (C01, C09, C15) -/
section thermal
variable (n : ℕ) (sustainment efficiency t_init t_optimal t_range : ℝ) (t_external c : ℕ → ℝ)

set_option hygiene false in
local macro:max "td%" f:term:max : term => `($f n sustainment efficiency t_init t_optimal t_range t_external c)
set_option hygiene false in
local macro:max "T%" : term =>
  `((TParams.mk sustainment efficiency t_init t_optimal t_range t_external c : TParams ℝ))

theorem TDevice_make_t_base (te : ℕ → ℝ) (sus ti : ℝ) (i : ℕ) :
    td% Gen.TDevice_make_t_base te sus ti i = baseSoc ti sus i + (1 - sus) * soc sus 1 te i := by
  unfold Gen.TDevice_make_t_base
  simp only [utils_base_soc, utils_soc]
  vdone

/-- `t_base` as the constructor computes it -/
theorem TDevice_t_base (i : ℕ) : td% Gen.TDevice_make_t_base t_external sustainment t_init i = tBase T% i := by
  rw [TDevice_make_t_base]; rfl

theorem TDevice_r2t (r : ℕ → ℝ) (i : ℕ) : td% Gen.TDevice_r2t r i = r2t T% r i := by
  unfold Gen.TDevice_r2t r2t
  simp only [TDevice_t_base, utils_soc]
  vdone

theorem TDevice_costv_t (t : ℕ → ℝ) :
    td% (Gen.TDevice_costv_t ipow) t = sumTo n (fun i => tSlotCost T% (t i) i) := by
  unfold Gen.TDevice_costv_t tSlotCost
  simp only [ABCCost_call]
  vdone

theorem TDevice_deriv_t (t : ℕ → ℝ) (i : ℕ) :
    td% (Gen.TDevice_deriv_t ipow intCast') t i = tSlotDeriv T% (t i) i := by
  unfold Gen.TDevice_deriv_t tSlotDeriv
  simp only [ABCCost_deriv]
  vdone

theorem TDevice_costv (s p : ℕ → ℝ) (i : ℕ) :
    td% (Gen.TDevice_costv ipow) s p i
      = sumTo n (fun k => tSlotCost T% (r2t T% s k) k) / (natCast' n : ℝ) + s i * p i := by
  unfold Gen.TDevice_costv
  simp only [TDevice_costv_t, TDevice_r2t]
  vdone

theorem TDevice_cost (s p : ℕ → ℝ) : td% (Gen.TDevice_cost ipow) s p = tdevCost n T% s p := by
  unfold Gen.TDevice_cost tdevCost priceTerm
  simp only [TDevice_costv]
  rw [sumTo_share]

theorem TDevice_deriv (s p : ℕ → ℝ) (j : ℕ) :
    td% (Gen.TDevice_deriv ipow intCast') s p j = tdevDeriv n T% s p j := by
  unfold Gen.TDevice_deriv tdevDeriv
  simp only [TDevice_deriv_t, TDevice_r2t, utils_sustainment_matrix]
  vdone

end thermal

/-! ## combinators of functions.py (the wrapped function object is a parameter) -/

theorem NullFunction_call (n : ℕ) (x : ℕ → ℝ) : Gen.NullFunction_call n x = (Fn.null : Fn ℝ).eval n x := by
  unfold Gen.NullFunction_call Fn.eval; vclose

theorem NullFunction_deriv (n : ℕ) (x : ℕ → ℝ) (i : ℕ) : Gen.NullFunction_deriv n x i = (Fn.null : Fn ℝ).deriv n x i := by
  unfold Gen.NullFunction_deriv Fn.deriv; vclose

theorem NullFunction_hess (n : ℕ) (x : ℕ → ℝ) (i j : ℕ) : Gen.NullFunction_hess n x i j = (Fn.null : Fn ℝ).hess n x i j := by
  unfold Gen.NullFunction_hess Fn.hess; vclose

/-- replace the argument of a function of the flow by the pointwise equal reflected flow -/
theorem refl_arg {β : Type} (F : (ℕ → ℝ) → β) (x g : ℕ → ℝ) (h : ∀ k, g k = - x k) : F g = F (fun k => - x k) := by
  rw [funext h]

theorem ReflectedFunction_call (n : ℕ) (f : Fn ℝ) (x : ℕ → ℝ) :
    Gen.ReflectedFunction_call n f.eval f.deriv f.hess x = (Fn.reflect f).eval n x := by
  unfold Gen.ReflectedFunction_call
  rw [Fn.eval, refl_arg (fun g => f.eval n g) x]
  intro k; ring1

theorem ReflectedFunction_deriv (n : ℕ) (f : Fn ℝ) (x : ℕ → ℝ) (i : ℕ) :
    Gen.ReflectedFunction_deriv n f.eval f.deriv f.hess x i = (Fn.reflect f).deriv n x i := by
  unfold Gen.ReflectedFunction_deriv
  rw [Fn.deriv, refl_arg (fun g => f.deriv n g i) x]
  · vdone
  · intro k; ring1

theorem ReflectedFunction_hess (n : ℕ) (f : Fn ℝ) (x : ℕ → ℝ) (i j : ℕ) :
    Gen.ReflectedFunction_hess n f.eval f.deriv f.hess x i j = (Fn.reflect f).hess n x i j := by
  unfold Gen.ReflectedFunction_hess
  rw [Fn.hess, refl_arg (fun g => f.hess n g i j) x]
  intro k; ring1

theorem InnerSumFunction_call (n : ℕ) (pl ph xl xh : ℝ) (x : ℕ → ℝ) :
    Gen.InnerSumFunction_call n (hlqCost pl ph xl xh) (hlqDeriv pl ph xl xh) (fun _ => hlqHess pl ph xl xh) x
      = (Fn.innerHlq pl ph xl xh).eval n x := by
  unfold Gen.InnerSumFunction_call Fn.eval; vclose

theorem InnerSumFunction_deriv (n : ℕ) (pl ph xl xh : ℝ) (x : ℕ → ℝ) (i : ℕ) :
    Gen.InnerSumFunction_deriv n (hlqCost pl ph xl xh) (hlqDeriv pl ph xl xh) (fun _ => hlqHess pl ph xl xh) x i
      = (Fn.innerHlq pl ph xl xh).deriv n x i := by
  unfold Gen.InnerSumFunction_deriv Fn.deriv
  have h : sumTo n (fun k => x k) = sumTo n x := rfl
  vdone

theorem InnerSumFunction_hess (n : ℕ) (pl ph xl xh : ℝ) (x : ℕ → ℝ) (i j : ℕ) :
    Gen.InnerSumFunction_hess n (hlqCost pl ph xl xh) (hlqDeriv pl ph xl xh) (fun _ => hlqHess pl ph xl xh) x i j
      = (Fn.innerHlq pl ph xl xh).hess n x i j := by
  unfold Gen.InnerSumFunction_hess Fn.hess; vclose

/-! ## Poly2D / Poly2DOffset: value (`vector`, `__call__`); their cached derivative objects are T2-only -/

theorem Poly2D_vector (n : ℕ) (cs : ℕ → List ℝ) (x : ℕ → ℝ) (i : ℕ) :
    Gen.Poly2D_vector n cs x i = polyEval (cs i) (x i + 0) := by
  unfold Gen.Poly2D_vector
  simp only [add_zero]
  vdone

theorem Poly2D_call (n : ℕ) (cs : ℕ → List ℝ) (x : ℕ → ℝ) :
    Gen.Poly2D_call n cs x = (Fn.poly cs (fun _ => 0)).eval n x := by
  unfold Gen.Poly2D_call Fn.eval
  vsum
  simp only [Poly2D_vector]
  vdone

theorem Poly2DOffset_vector (n : ℕ) (cs : ℕ → List ℝ) (off x : ℕ → ℝ) (i : ℕ) :
    Gen.Poly2DOffset_vector n cs off x i = polyEval (cs i) (x i + off i) := by
  unfold Gen.Poly2DOffset_vector
  first | rfl | (congr 1; ring1)

theorem Poly2DOffset_call (n : ℕ) (cs : ℕ → List ℝ) (off x : ℕ → ℝ) :
    Gen.Poly2DOffset_call n cs off x = (Fn.poly cs off).eval n x := by
  unfold Gen.Poly2DOffset_call Fn.eval
  vsum
  simp only [Poly2DOffset_vector]
  vdone

/-! ## GDevice / CDevice2: the wrappers around a function object built elsewhere (C01, C08, C14)

`GDevice.cost_coeffs` (setter) and `CDevice2.__init__` build the callables; that construction is outside the T1v subset
(tied by T2).  What is tied here: the sign conventions (`-s`, `p - …`), the price term and the diagonal embedding. -/

/-- the per-slot polynomial callables `cost_coeffs` installs, as the model reads them -/
def polyFn (cs : ℕ → List ℝ) : ℕ → (ℕ → ℝ) → ℕ → ℝ := fun _ x k => polyEval (cs k) (x k)

theorem GDevice_cost (n : ℕ) (cs : ℕ → List ℝ) (f1 f2 : ℕ → (ℕ → ℝ) → ℕ → ℝ) (s p : ℕ → ℝ) :
    Gen.GDevice_cost n (polyFn cs) f1 f2 s p = gdevCost n cs s p := by
  unfold Gen.GDevice_cost gdevCost
  vsum
  unfold Gen.GDevice_costv polyFn
  vdone

theorem GDevice_deriv (n : ℕ) (cs : ℕ → List ℝ) (f0 f2 : ℕ → (ℕ → ℝ) → ℕ → ℝ) (s p : ℕ → ℝ) (i : ℕ) :
    Gen.GDevice_deriv n f0 (polyFn (fun k => polyDer (cs k))) f2 s p i = gdevDeriv cs s p i := by
  unfold Gen.GDevice_deriv gdevDeriv polyFn
  vdone

theorem GDevice_hess (n : ℕ) (cs : ℕ → List ℝ) (f0 f1 : ℕ → (ℕ → ℝ) → ℕ → ℝ) (s : ℕ → ℝ) (i j : ℕ) :
    Gen.GDevice_hess n f0 f1 (polyFn (fun k => polyDer (polyDer (cs k)))) s i j = gdevHess cs s i j := by
  unfold Gen.GDevice_hess gdevHess polyFn
  vdone

theorem CDevice2_cost (n : ℕ) (pl ph : ℝ) (cbs : List (CBound ℝ)) (fd : ℕ → (ℕ → ℝ) → ℕ → ℝ)
    (fh : ℕ → (ℕ → ℝ) → ℕ → ℕ → ℝ) (s p : ℕ → ℝ) :
    Gen.CDevice2_cost n (fun m x => cdev2Fn m pl ph cbs x) fd fh s p = cdev2Cost n pl ph cbs s p := by
  unfold Gen.CDevice2_cost cdev2Cost priceTerm
  vdone

theorem CDevice2_deriv (n : ℕ) (pl ph : ℝ) (cbs : List (CBound ℝ)) (fc : ℕ → (ℕ → ℝ) → ℝ)
    (fh : ℕ → (ℕ → ℝ) → ℕ → ℕ → ℝ) (s p : ℕ → ℝ) (i : ℕ) :
    Gen.CDevice2_deriv n fc (fun m x k => cdev2Slope m pl ph cbs x k) fh s p i = cdev2Deriv n pl ph cbs s p i := by
  unfold Gen.CDevice2_deriv cdev2Deriv
  vdone

theorem CDevice2_hess (n : ℕ) (pl ph : ℝ) (cbs : List (CBound ℝ)) (fc : ℕ → (ℕ → ℝ) → ℝ)
    (fd : ℕ → (ℕ → ℝ) → ℕ → ℝ) (s : ℕ → ℝ) (i j : ℕ) :
    Gen.CDevice2_hess n fc fd (fun _ _ a b => cdev2Hess pl ph cbs a b) s i j = cdev2Hess pl ph cbs i j := by
  unfold Gen.CDevice2_hess
  vdone

end DK.BridgeVec
