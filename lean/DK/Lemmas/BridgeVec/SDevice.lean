import DK.Gen.Vec.SDevice
import DK.Lemmas.BridgeVec.Utils
/-!
# BridgeVec.SDevice — `SDevice.base / charge_at / charge_at_lossless` (C09, C15)

Part of the T1v tie (see `DK/Lemmas/BridgeVec.lean`): every lemma proves a definition of `DK/Gen/Vec/*.lean`, regenerated
from the current Python source on each check run, equal to the model definition the property theorems are about.
-/
set_option linter.unusedSimpArgs false
set_option linter.unnecessarySeqFocus false
set_option linter.unusedTactic false
set_option linter.unreachableTactic false
set_option linter.unusedVariables false
set_option linter.unusedSectionVars false
namespace DK.BridgeVec
open DK


section storage
variable (n : ℕ) (c1 c2 c3 capacity damage_depth start reserve efficiency sustainment cl ch : ℝ) (lb hb : ℕ → ℝ)

-- the generated SDevice methods take the horizon and every declared field of the class
set_option hygiene false in
local macro:max "sd%" f:term:max : term =>
  `($f n c1 c2 c3 capacity damage_depth start reserve efficiency sustainment cl ch lb hb)
-- the model's parameter record built from the same fields
set_option hygiene false in
local macro:max "Q%" : term =>
  `((SParams.mk c1 c2 c3 capacity damage_depth start reserve efficiency sustainment : SParams ℝ))

theorem SDevice_base : sd% Gen.SDevice_base = start * capacity := by
  unfold Gen.SDevice_base; vclose

theorem SDevice_charge_at (r : ℕ → ℝ) (i : ℕ) : sd% Gen.SDevice_charge_at r i = chargeAt Q% r i := by
  unfold Gen.SDevice_charge_at chargeAt
  simp only [utils_base_soc, utils_soc, SDevice_base]
  vdone

theorem soc_lossless (r : ℕ → ℝ) (i : ℕ) : soc 1 1 r i = sumTo (i + 1) r := by
  unfold soc
  vsum
  have h1 : effPow (1 : ℝ) (r k) = 1 := by unfold effPow; split_ifs <;> simp
  have h2 : susW (1 : ℝ) i k = 1 := by unfold susW; rw [if_pos (by omega)]; simp
  rw [h1, h2]; ring1

/-- `charge_at_lossless` is `charge_at` of the same device with efficiency and sustainment 1 -/
theorem SDevice_charge_at_lossless (r : ℕ → ℝ) (i : ℕ) :
    sd% Gen.SDevice_charge_at_lossless r i
      = chargeAt (SParams.mk c1 c2 c3 capacity damage_depth start reserve 1 1) r i := by
  unfold Gen.SDevice_charge_at_lossless chargeAt baseSoc
  simp only [SDevice_base, soc_lossless, npow_eq_pow, one_pow]
  have h : sumTo (i + 1) (fun k => r k) = sumTo (i + 1) r := rfl
  vdone

end storage

end DK.BridgeVec
