import DK.Gen.Vec.Device
import DK.Lemmas.BridgeVec.Tactics
/-!
# BridgeVec.Device — `Device.cost / deriv / hess`: the price term (C01, C08, C14, C15)

Part of the T1v tie (see `DK/Lemmas/BridgeVec.lean`): every lemma proves a definition of `DK/Gen/Vec/*.lean`, regenerated
from the current Python source on each check run, equal to the model definition the property theorems are about.
-/
set_option linter.unusedSimpArgs false
set_option linter.unnecessarySeqFocus false
set_option linter.unusedTactic false
set_option linter.unreachableTactic false
set_option linter.unusedVariables false
set_option linter.unusedSectionVars false
namespace DK.BridgeVec
open DK


theorem Device_cost (n : ℕ) (s p : ℕ → ℝ) : Gen.Device_cost n s p = deviceCost n s p := by
  unfold Gen.Device_cost deviceCost priceTerm
  vsum; vdone

theorem Device_deriv (n : ℕ) (s p : ℕ → ℝ) (i : ℕ) : Gen.Device_deriv n s p i = deviceDeriv p i := by
  unfold Gen.Device_deriv deviceDeriv; vclose

theorem Device_hess (n : ℕ) (s : ℕ → ℝ) (i j : ℕ) : Gen.Device_hess n s i j = 0 := by
  unfold Gen.Device_hess; vclose

end DK.BridgeVec
