import DK.Gen.Vec.IDevice
import DK.Lemmas.BridgeVec.Kernels
/-!
# BridgeVec.IDevice — `IDevice2` / `IDevice` `costv / cost / deriv / hess` (C01, C08, C14, C15)

Part of the T1v tie (see `DK/Lemmas/BridgeVec.lean`): every lemma proves a definition of `DK/Gen/Vec/*.lean`, regenerated
from the current Python source on each check run, equal to the model definition the property theorems are about.
-/
set_option linter.unusedSimpArgs false
set_option linter.unnecessarySeqFocus false
set_option linter.unusedTactic false
set_option linter.unreachableTactic false
set_option linter.unusedVariables false
set_option linter.unusedSectionVars false
namespace DK.BridgeVec
open DK


theorem IDevice2_costv (n : ℕ) (pl ph lb hb s p : ℕ → ℝ) (i : ℕ) :
    Gen.IDevice2_costv n pl ph lb hb s p i
      = sumTo n (fun k => hlqCost (pl k) (ph k) (lb k) (hb k) (s k)) / (natCast' n : ℝ) + s i * p i := by
  unfold Gen.IDevice2_costv
  simp only [HLQuadraticCost_call, Fn.eval]
  vdone

theorem IDevice2_cost (n : ℕ) (pl ph lb hb s p : ℕ → ℝ) :
    Gen.IDevice2_cost n pl ph lb hb s p = idev2Cost n pl ph lb hb s p := by
  unfold Gen.IDevice2_cost idev2Cost priceTerm
  simp only [IDevice2_costv]
  rw [sumTo_share]

theorem IDevice2_deriv (n : ℕ) (pl ph lb hb s p : ℕ → ℝ) (i : ℕ) :
    Gen.IDevice2_deriv n pl ph lb hb s p i = idev2Deriv pl ph lb hb s p i := by
  unfold Gen.IDevice2_deriv idev2Deriv
  simp only [HLQuadraticCost_deriv, Fn.deriv]
  vdone

theorem IDevice2_hess (n : ℕ) (pl ph lb hb s : ℕ → ℝ) (i j : ℕ) :
    Gen.IDevice2_hess n pl ph lb hb s i j = idev2Hess pl ph lb hb i j := by
  unfold Gen.IDevice2_hess idev2Hess
  simp only [HLQuadraticCost_hess, Fn.hess]
  vdone

section abc
variable {ε : Type} [Sub ε] [OfNat ε 1] [OfNat ε 2] (pow : ℝ → ε → ℝ) (cast : ε → ℝ)

theorem IDevice_costv (n : ℕ) (a : ℕ → ℝ) (b : ℕ → ε) (c lb hb s p : ℕ → ℝ) (i : ℕ) :
    Gen.IDevice_costv pow n a b c lb hb s p i
      = sumTo n (fun k => abcCost pow (s k) (a k) (b k) (c k) (lb k) (hb k)) / (natCast' n : ℝ) + s i * p i := by
  unfold Gen.IDevice_costv
  simp only [ABCCost_call]
  vdone

theorem IDevice_cost (n : ℕ) (a : ℕ → ℝ) (b : ℕ → ε) (c lb hb s p : ℕ → ℝ) :
    Gen.IDevice_cost pow n a b c lb hb s p = idevCost pow n a b c lb hb s p := by
  unfold Gen.IDevice_cost idevCost priceTerm
  simp only [IDevice_costv]
  rw [sumTo_share]

theorem IDevice_deriv (n : ℕ) (a : ℕ → ℝ) (b : ℕ → ε) (c lb hb s p : ℕ → ℝ) (i : ℕ) :
    Gen.IDevice_deriv pow cast n a b c lb hb s p i = idevDeriv pow cast a b c lb hb s p i := by
  unfold Gen.IDevice_deriv idevDeriv
  simp only [ABCCost_deriv]
  vdone

theorem IDevice_hess (n : ℕ) (a : ℕ → ℝ) (b : ℕ → ε) (c lb hb s : ℕ → ℝ) (i j : ℕ) :
    Gen.IDevice_hess pow cast n a b c lb hb s i j = idevHess pow cast a b c lb hb s i j := by
  unfold Gen.IDevice_hess idevHess
  simp only [ABCCost_hess]
  vdone

end abc

end DK.BridgeVec
