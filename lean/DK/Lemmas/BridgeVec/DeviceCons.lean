import DK.Gen.Vec.DeviceCons
import DK.Lemmas.BridgeVec.Tactics
/-!
# BridgeVec.DeviceCons — the cumulative-bound closures of `Device.constraints` (C03, C06)

Part of the T1v tie (see `DK/Lemmas/BridgeVec.lean`): every lemma proves a definition of `DK/Gen/Vec/*.lean`, regenerated
from the current Python source on each check run, equal to the model definition the property theorems are about.
-/
set_option linter.unusedSimpArgs false
set_option linter.unnecessarySeqFocus false
set_option linter.unusedTactic false
set_option linter.unreachableTactic false
set_option linter.unusedVariables false
set_option linter.unusedSectionVars false
namespace DK.BridgeVec
open DK


theorem Device_constraints_fun0 (n : ℕ) (x : ℕ → ℝ) (l : ℝ) (s e : ℕ) :
    Gen.Device_constraints_fun0 n x l s e = sliceSum n s e x - l := by
  unfold Gen.Device_constraints_fun0 sliceSum; vclose

theorem Device_constraints_jac0 (n : ℕ) (x : ℕ → ℝ) (s e k : ℕ) :
    Gen.Device_constraints_jac0 n x s e k = inRange s e k := by
  unfold Gen.Device_constraints_jac0 inRange; vsplit

theorem Device_constraints_fun1 (n : ℕ) (x : ℕ → ℝ) (h : ℝ) (s e : ℕ) :
    Gen.Device_constraints_fun1 n x h s e = h - sliceSum n s e x := by
  unfold Gen.Device_constraints_fun1 sliceSum; vclose

theorem Device_constraints_jac1 (n : ℕ) (x : ℕ → ℝ) (s e k : ℕ) :
    Gen.Device_constraints_jac1 n x s e k = (-1 : ℝ) * inRange s e k := by
  unfold Gen.Device_constraints_jac1 inRange; vsplit

/-- the model's constraint pair of one cumulative bound is exactly the four generated closures -/
theorem Device_constraints (n : ℕ) (cb : CBound ℝ) :
    cboundCons n cb =
      [ { isEq := false, fn := fun x => Gen.Device_constraints_fun0 n x cb.l cb.s cb.e,
          jac := some (fun x k => Gen.Device_constraints_jac0 n x cb.s cb.e k) },
        { isEq := false, fn := fun x => Gen.Device_constraints_fun1 n x cb.h cb.s cb.e,
          jac := some (fun x k => Gen.Device_constraints_jac1 n x cb.s cb.e k) } ] := by
  unfold cboundCons
  simp only [Device_constraints_fun0, Device_constraints_jac0, Device_constraints_fun1, Device_constraints_jac1]

end DK.BridgeVec
