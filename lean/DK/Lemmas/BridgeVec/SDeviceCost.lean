import DK.Gen.Vec.SDeviceCost
import DK.Lemmas.BridgeVec.SDevice
/-!
# BridgeVec.SDeviceCost — `SDevice` cost terms and their derivatives: flip_cost_at, deep_damage_at(_deriv), charge_costs(_deriv), costv, cost, deriv (C01, C08, C15)

Part of the T1v tie (see `DK/Lemmas/BridgeVec.lean`): every lemma proves a definition of `DK/Gen/Vec/*.lean`, regenerated
from the current Python source on each check run, equal to the model definition the property theorems are about.
-/
set_option linter.unusedSimpArgs false
set_option linter.unnecessarySeqFocus false
set_option linter.unusedTactic false
set_option linter.unreachableTactic false
set_option linter.unusedVariables false
set_option linter.unusedSectionVars false
namespace DK.BridgeVec
open DK


section storage
variable (n : ℕ) (c1 c2 c3 capacity damage_depth start reserve efficiency sustainment cl ch : ℝ) (lb hb : ℕ → ℝ)

-- the generated SDevice methods take the horizon and every declared field of the class
set_option hygiene false in
local macro:max "sd%" f:term:max : term =>
  `($f n c1 c2 c3 capacity damage_depth start reserve efficiency sustainment cl ch lb hb)
-- the model's parameter record built from the same fields
set_option hygiene false in
local macro:max "Q%" : term =>
  `((SParams.mk c1 c2 c3 capacity damage_depth start reserve efficiency sustainment : SParams ℝ))

theorem SDevice_deep_damage_at (r : ℕ → ℝ) (i : ℕ) :
    sd% Gen.SDevice_deep_damage_at r i = c3 * (shortfall Q% r i * shortfall Q% r i) := by
  unfold Gen.SDevice_deep_damage_at shortfall
  simp only [SDevice_charge_at, minimum_zero]
  vdone

theorem SDevice_deep_damage_at_deriv (r : ℕ → ℝ) (j : ℕ) :
    sd% Gen.SDevice_deep_damage_at_deriv r j
      = sumTo n (fun i => c3 * 2 * shortfall Q% r i * susW sustainment i j * effPow efficiency (r j)) := by
  unfold Gen.SDevice_deep_damage_at_deriv shortfall
  simp only [SDevice_charge_at, minimum_zero, utils_sustainment_matrix, sgnPow_eq]
  all_goals (try first
    | rfl
    | (apply sumTo_congr; intro k _; vclose)
    | (simp only [sumTo_eq_sum, Finset.mul_sum, Finset.sum_mul]; apply Finset.sum_congr rfl; intro k _; ring1))

theorem SDevice_flip_cost_at (r : ℕ → ℝ) (i : ℕ) :
    sd% Gen.SDevice_flip_cost_at r i = if i + 1 < n then c2 * (-1 : ℝ) * (r i * r (i + 1)) else 0 := by
  unfold Gen.SDevice_flip_cost_at
  vsplit

theorem SDevice_charge_costs (r : ℕ → ℝ) (i : ℕ) : sd% Gen.SDevice_charge_costs r i = chargeCost n Q% r i := by
  unfold Gen.SDevice_charge_costs chargeCost
  simp only [SDevice_flip_cost_at, SDevice_deep_damage_at]
  vsplit

theorem SDevice_charge_costs_deriv (r p : ℕ → ℝ) (j : ℕ) :
    sd% Gen.SDevice_charge_costs_deriv r j + p j = sdevDeriv n Q% r p j := by
  unfold Gen.SDevice_charge_costs_deriv sdevDeriv
  simp only [SDevice_deep_damage_at_deriv]
  vsplit

theorem SDevice_costv (s p : ℕ → ℝ) (i : ℕ) : sd% Gen.SDevice_costv s p i = chargeCost n Q% s i + s i * p i := by
  unfold Gen.SDevice_costv
  simp only [SDevice_charge_costs]
  vdone

theorem SDevice_cost (s p : ℕ → ℝ) : sd% Gen.SDevice_cost s p = sdevCost n Q% s p := by
  unfold Gen.SDevice_cost sdevCost
  vsum
  simp only [SDevice_costv]
  vdone

theorem SDevice_deriv (s p : ℕ → ℝ) (j : ℕ) : sd% Gen.SDevice_deriv s p j = sdevDeriv n Q% s p j := by
  unfold Gen.SDevice_deriv
  first
  | exact SDevice_charge_costs_deriv n c1 c2 c3 capacity damage_depth start reserve efficiency sustainment cl ch lb hb s p j
  | (rw [← SDevice_charge_costs_deriv n c1 c2 c3 capacity damage_depth start reserve efficiency sustainment cl ch lb hb s p j]; ring1)

end storage

end DK.BridgeVec
