import DK.Gen.Vec.SDeviceCons
import DK.Lemmas.BridgeVec.SDevice
/-!
# BridgeVec.SDeviceCons — the closures of `SDevice.constraints` and its inner `soc(r, i)` (C03, C06, C09)

Part of the T1v tie (see `DK/Lemmas/BridgeVec.lean`): every lemma proves a definition of `DK/Gen/Vec/*.lean`, regenerated
from the current Python source on each check run, equal to the model definition the property theorems are about.
-/
set_option linter.unusedSimpArgs false
set_option linter.unnecessarySeqFocus false
set_option linter.unusedTactic false
set_option linter.unreachableTactic false
set_option linter.unusedVariables false
set_option linter.unusedSectionVars false
namespace DK.BridgeVec
open DK


section storage
variable (n : ℕ) (c1 c2 c3 capacity damage_depth start reserve efficiency sustainment cl ch : ℝ) (lb hb : ℕ → ℝ)

-- the generated SDevice methods take the horizon and every declared field of the class
set_option hygiene false in
local macro:max "sd%" f:term:max : term =>
  `($f n c1 c2 c3 capacity damage_depth start reserve efficiency sustainment cl ch lb hb)
-- the model's parameter record built from the same fields
set_option hygiene false in
local macro:max "Q%" : term =>
  `((SParams.mk c1 c2 c3 capacity damage_depth start reserve efficiency sustainment : SParams ℝ))

theorem SDevice_constraints_soc (r : ℕ → ℝ) (i : ℕ) : sd% Gen.SDevice_constraints_soc r i = socDot n Q% r i := by
  unfold Gen.SDevice_constraints_soc socDot
  simp only [SDevice_base, utils_sustainment_matrix, sgnPow_eq]
  all_goals (try first
    | rfl
    | (simp only [sumTo_eq_sum, mul_comm, mul_left_comm, mul_assoc] <;> ring1)
    | (congr 1 <;> first | rfl | ring1 | (apply sumTo_congr; intro k _; vclose)))

theorem SDevice_constraints_fun0 (r : ℕ → ℝ) (i : ℕ) :
    sd% Gen.SDevice_constraints_fun0 r i = socDot n Q% r i := by
  unfold Gen.SDevice_constraints_fun0
  simp only [SDevice_constraints_soc]
  vdone

theorem SDevice_constraints_jac0 (r : ℕ → ℝ) (i j : ℕ) :
    sd% Gen.SDevice_constraints_jac0 r i j = socJac Q% r i j := by
  unfold Gen.SDevice_constraints_jac0 socJac
  simp only [utils_sustainment_matrix, sgnPow_eq]
  vdone

theorem SDevice_constraints_fun1 (r : ℕ → ℝ) (i : ℕ) :
    sd% Gen.SDevice_constraints_fun1 r i = capacity - socDot n Q% r i := by
  unfold Gen.SDevice_constraints_fun1
  simp only [SDevice_constraints_soc]
  vdone

theorem SDevice_constraints_jac1 (r : ℕ → ℝ) (i j : ℕ) :
    sd% Gen.SDevice_constraints_jac1 r i j = (-1 : ℝ) * socJac Q% r i j := by
  unfold Gen.SDevice_constraints_jac1 socJac
  simp only [utils_sustainment_matrix, sgnPow_eq]
  vdone

/-- the model's per-slot state-of-charge constraint pair is exactly the four generated closures -/
theorem SDevice_constraints_socCons (i : ℕ) :
    socCons n Q% i =
      [ { isEq := false, fn := fun r => sd% Gen.SDevice_constraints_fun0 r i,
          jac := some (fun r j => sd% Gen.SDevice_constraints_jac0 r i j) },
        { isEq := false, fn := fun r => sd% Gen.SDevice_constraints_fun1 r i,
          jac := some (fun r j => sd% Gen.SDevice_constraints_jac1 r i j) } ] := by
  unfold socCons
  simp only [SDevice_constraints_fun0, SDevice_constraints_jac0, SDevice_constraints_fun1, SDevice_constraints_jac1]

/-- discharge-rate clipping closure; `cl` is `rate_clip[0]`, `lb` the lower bounds -/
theorem SDevice_constraints_fun2 (r : ℕ → ℝ) (i : ℕ) :
    sd% Gen.SDevice_constraints_fun2 r i = (clipLoCon n Q% lb cl i).fn r := by
  unfold Gen.SDevice_constraints_fun2 clipLoCon
  simp only [SDevice_constraints_soc]
  vdone

/-- charge-rate clipping closure; `ch` is `rate_clip[1]`, `hb` the upper bounds -/
theorem SDevice_constraints_fun3 (r : ℕ → ℝ) (i : ℕ) :
    sd% Gen.SDevice_constraints_fun3 r i = (clipHiCon n Q% hb ch i).fn r := by
  unfold Gen.SDevice_constraints_fun3 clipHiCon
  simp only [SDevice_constraints_soc]
  vdone

theorem SDevice_constraints_fun4 (r : ℕ → ℝ) : sd% Gen.SDevice_constraints_fun4 r = (reserveCon n Q%).fn r := by
  unfold Gen.SDevice_constraints_fun4 reserveCon
  simp only [SDevice_constraints_soc]
  vdone

theorem SDevice_constraints_jac4 (r : ℕ → ℝ) (j : ℕ) :
    sd% Gen.SDevice_constraints_jac4 r j = socJac Q% r (n - 1) j := by
  unfold Gen.SDevice_constraints_jac4 socJac
  simp only [utils_sustainment_matrix, sgnPow_eq]
  vdone

end storage

end DK.BridgeVec
