import DK.Model.Constraints
import DK.Gen.Vec.Prelude
import DK.Lemmas.Sum
import DK.Lemmas.Bridge
import Mathlib.Tactic.Ring
import Mathlib.Tactic.FieldSimp
import Mathlib.Tactic.Linarith
/-!
# BridgeVec.Tactics — closing tactics shared by the BridgeVec modules, the numpy primitives of the generated prelude, and the per-slot share lemma

Part of the T1v tie (see `DK/Lemmas/BridgeVec.lean`): every lemma proves a definition of `DK/Gen/Vec/*.lean`, regenerated
from the current Python source on each check run, equal to the model definition the property theorems are about.
-/
set_option linter.unusedSimpArgs false
set_option linter.unnecessarySeqFocus false
set_option linter.unusedTactic false
set_option linter.unreachableTactic false
set_option linter.unusedVariables false
set_option linter.unusedSectionVars false
namespace DK.BridgeVec
open DK


/-- closes an identity of field expressions -/
macro "vclose" : tactic =>
  `(tactic| first | rfl | ring1 | (field_simp; done) | (field_simp; ring1) | (simp; done) | (simp; ring1) | (ring_nf; done) | (simp only [sumTo_eq_sum, mul_comm, mul_left_comm, mul_assoc] <;> ring1))

/-- close whatever is left (nothing, if the rewriting already closed the goal); an open goal is an error -/
macro "vdone" : tactic => `(tactic| all_goals (try vclose))

/-- case split on every `if`, then close each branch as an identity or refute its index / order conditions -/
macro "vsplit" : tactic =>
  `(tactic| all_goals (try first | vclose | (split_ifs <;> first | vclose | (exfalso; omega) | (exfalso; linarith) | (simp_all; done) | (simp_all; ring1))))

-- two sums over the same range with pointwise equal summands (the index is `k`)
set_option hygiene false in
macro "vsum" : tactic => `(tactic| try (apply sumTo_congr; intro k _))

theorem sgnPow_eq (e y : ℝ) : Gen.sgnPow e y = effPow e y := rfl

theorem minimum_zero (x : ℝ) : Gen.minimum x 0 = minZero x := by
  unfold Gen.minimum minZero
  split_ifs <;> linarith

/-- a sum of `c / n` over `n` slots is `c` (the per-slot share `_cost_fn(s)/len(self)` of `costv`) -/
theorem sumTo_share (n : ℕ) (f g : ℕ → ℝ) :
    sumTo n (fun k => sumTo n f / (natCast' n : ℝ) + g k) = sumTo n f + sumTo n g := by
  rw [sumTo_add, sumTo_const, natCast'_eq]
  rcases Nat.eq_zero_or_pos n with h | h
  · subst h; simp [sumTo]
  · have : (n : ℝ) ≠ 0 := by exact_mod_cast (Nat.pos_iff_ne_zero.mp h)
    field_simp

end DK.BridgeVec
