import DK.Gen.Vec.Fn
import DK.Lemmas.BridgeVec.Tactics
/-!
# BridgeVec.Fn — combinators of functions.py: Null / Reflected / InnerSum (the wrapped function object is a parameter), Poly2D / Poly2DOffset value (C01, C14)

Part of the T1v tie (see `DK/Lemmas/BridgeVec.lean`): every lemma proves a definition of `DK/Gen/Vec/*.lean`, regenerated
from the current Python source on each check run, equal to the model definition the property theorems are about.
-/
set_option linter.unusedSimpArgs false
set_option linter.unnecessarySeqFocus false
set_option linter.unusedTactic false
set_option linter.unreachableTactic false
set_option linter.unusedVariables false
set_option linter.unusedSectionVars false
namespace DK.BridgeVec
open DK


theorem NullFunction_call (n : ℕ) (x : ℕ → ℝ) : Gen.NullFunction_call n x = (Fn.null : Fn ℝ).eval n x := by
  unfold Gen.NullFunction_call Fn.eval; vclose

theorem NullFunction_deriv (n : ℕ) (x : ℕ → ℝ) (i : ℕ) : Gen.NullFunction_deriv n x i = (Fn.null : Fn ℝ).deriv n x i := by
  unfold Gen.NullFunction_deriv Fn.deriv; vclose

theorem NullFunction_hess (n : ℕ) (x : ℕ → ℝ) (i j : ℕ) : Gen.NullFunction_hess n x i j = (Fn.null : Fn ℝ).hess n x i j := by
  unfold Gen.NullFunction_hess Fn.hess; vclose

/-- replace the argument of a function of the flow by the pointwise equal reflected flow -/
theorem refl_arg {β : Type} (F : (ℕ → ℝ) → β) (x g : ℕ → ℝ) (h : ∀ k, g k = - x k) : F g = F (fun k => - x k) := by
  rw [funext h]

theorem ReflectedFunction_call (n : ℕ) (f : Fn ℝ) (x : ℕ → ℝ) :
    Gen.ReflectedFunction_call n f.eval f.deriv f.hess x = (Fn.reflect f).eval n x := by
  unfold Gen.ReflectedFunction_call
  rw [Fn.eval, refl_arg (fun g => f.eval n g) x]
  intro k; ring1

theorem ReflectedFunction_deriv (n : ℕ) (f : Fn ℝ) (x : ℕ → ℝ) (i : ℕ) :
    Gen.ReflectedFunction_deriv n f.eval f.deriv f.hess x i = (Fn.reflect f).deriv n x i := by
  unfold Gen.ReflectedFunction_deriv
  rw [Fn.deriv, refl_arg (fun g => f.deriv n g i) x]
  · vdone
  · intro k; ring1

theorem ReflectedFunction_hess (n : ℕ) (f : Fn ℝ) (x : ℕ → ℝ) (i j : ℕ) :
    Gen.ReflectedFunction_hess n f.eval f.deriv f.hess x i j = (Fn.reflect f).hess n x i j := by
  unfold Gen.ReflectedFunction_hess
  rw [Fn.hess, refl_arg (fun g => f.hess n g i j) x]
  intro k; ring1

theorem InnerSumFunction_call (n : ℕ) (pl ph xl xh : ℝ) (x : ℕ → ℝ) :
    Gen.InnerSumFunction_call n (hlqCost pl ph xl xh) (hlqDeriv pl ph xl xh) (fun _ => hlqHess pl ph xl xh) x
      = (Fn.innerHlq pl ph xl xh).eval n x := by
  unfold Gen.InnerSumFunction_call Fn.eval; vclose

theorem InnerSumFunction_deriv (n : ℕ) (pl ph xl xh : ℝ) (x : ℕ → ℝ) (i : ℕ) :
    Gen.InnerSumFunction_deriv n (hlqCost pl ph xl xh) (hlqDeriv pl ph xl xh) (fun _ => hlqHess pl ph xl xh) x i
      = (Fn.innerHlq pl ph xl xh).deriv n x i := by
  unfold Gen.InnerSumFunction_deriv Fn.deriv
  have h : sumTo n (fun k => x k) = sumTo n x := rfl
  vdone

theorem InnerSumFunction_hess (n : ℕ) (pl ph xl xh : ℝ) (x : ℕ → ℝ) (i j : ℕ) :
    Gen.InnerSumFunction_hess n (hlqCost pl ph xl xh) (hlqDeriv pl ph xl xh) (fun _ => hlqHess pl ph xl xh) x i j
      = (Fn.innerHlq pl ph xl xh).hess n x i j := by
  unfold Gen.InnerSumFunction_hess Fn.hess; vclose

theorem Poly2D_vector (n : ℕ) (cs : ℕ → List ℝ) (x : ℕ → ℝ) (i : ℕ) :
    Gen.Poly2D_vector n cs x i = polyEval (cs i) (x i + 0) := by
  unfold Gen.Poly2D_vector
  simp only [add_zero]
  vdone

theorem Poly2D_call (n : ℕ) (cs : ℕ → List ℝ) (x : ℕ → ℝ) :
    Gen.Poly2D_call n cs x = (Fn.poly cs (fun _ => 0)).eval n x := by
  unfold Gen.Poly2D_call Fn.eval
  vsum
  simp only [Poly2D_vector]
  vdone

theorem Poly2DOffset_vector (n : ℕ) (cs : ℕ → List ℝ) (off x : ℕ → ℝ) (i : ℕ) :
    Gen.Poly2DOffset_vector n cs off x i = polyEval (cs i) (x i + off i) := by
  unfold Gen.Poly2DOffset_vector
  first | rfl | (congr 1; ring1)

theorem Poly2DOffset_call (n : ℕ) (cs : ℕ → List ℝ) (off x : ℕ → ℝ) :
    Gen.Poly2DOffset_call n cs off x = (Fn.poly cs off).eval n x := by
  unfold Gen.Poly2DOffset_call Fn.eval
  vsum
  simp only [Poly2DOffset_vector]
  vdone

end DK.BridgeVec
