import DK.Gen.Vec.Kernels
import DK.Lemmas.BridgeVec.Tactics
/-!
# BridgeVec.Kernels — `HLQuadraticCost` / `ABCCost` `__call__ / deriv / hess`: the scalar kernels applied slot-wise (C01, C14)

Part of the T1v tie (see `DK/Lemmas/BridgeVec.lean`): every lemma proves a definition of `DK/Gen/Vec/*.lean`, regenerated
from the current Python source on each check run, equal to the model definition the property theorems are about.
-/
set_option linter.unusedSimpArgs false
set_option linter.unnecessarySeqFocus false
set_option linter.unusedTactic false
set_option linter.unreachableTactic false
set_option linter.unusedVariables false
set_option linter.unusedSectionVars false
namespace DK.BridgeVec
open DK


theorem HLQuadraticCost_call (n : ℕ) (pl ph xl xh x : ℕ → ℝ) :
    Gen.HLQuadraticCost_call n pl ph xl xh x = (Fn.hlq pl ph xl xh).eval n x := by
  unfold Gen.HLQuadraticCost_call Fn.eval
  vsum; simp only [Bridge.hlq_cost]; vdone

theorem HLQuadraticCost_deriv (n : ℕ) (pl ph xl xh x : ℕ → ℝ) (i : ℕ) :
    Gen.HLQuadraticCost_deriv n pl ph xl xh x i = (Fn.hlq pl ph xl xh).deriv n x i := by
  unfold Gen.HLQuadraticCost_deriv Fn.deriv
  simp only [Bridge.hlq_deriv]; vdone

theorem HLQuadraticCost_hess (n : ℕ) (pl ph xl xh x : ℕ → ℝ) (i j : ℕ) :
    Gen.HLQuadraticCost_hess n pl ph xl xh x i j = (Fn.hlq pl ph xl xh).hess n x i j := by
  unfold Gen.HLQuadraticCost_hess Fn.hess
  simp only [Bridge.hlq_hess]; vdone

section abc
variable {ε : Type} [Sub ε] [OfNat ε 1] [OfNat ε 2] (pow : ℝ → ε → ℝ) (cast : ε → ℝ)

/-- `Bridge.abc_cost` for an arbitrary exponent type (the executable model uses `Int`, the theorems `ℝ`) -/
theorem abc_cost' (x a : ℝ) (b : ε) (c xl xh : ℝ) : Gen.abc_cost pow x a b c xl xh = abcCost pow x a b c xl xh := by
  unfold Gen.abc_cost abcCost
  by_cases h : xl = xh
  · simp [h]
  · simp only [h, if_false, Bridge.abc_q]; vdone

theorem abc_deriv' (x a : ℝ) (b : ε) (c xl xh : ℝ) :
    Gen.abc_deriv pow cast x a b c xl xh = abcDeriv pow cast x a b c xl xh := by
  unfold Gen.abc_deriv abcDeriv
  by_cases h : xl = xh
  · simp [h]
  · have hd : xh - xl ≠ 0 := sub_ne_zero.mpr (Ne.symm h)
    simp only [h, if_false, Bridge.abc_q]; vdone

theorem abc_hess' (x a : ℝ) (b : ε) (c xl xh : ℝ) :
    Gen.abc_hess pow cast x a b c xl xh = abcHess pow cast x a b c xl xh := by
  unfold Gen.abc_hess abcHess
  by_cases h : xl = xh
  · simp [h]
  · have hd : xh - xl ≠ 0 := sub_ne_zero.mpr (Ne.symm h)
    by_cases hb : cast b = 1
    · simp [h, hb]
    · simp only [h, hb, or_self, if_false, Bridge.abc_q]; vdone

theorem ABCCost_call (n : ℕ) (a : ℕ → ℝ) (b : ℕ → ε) (c xl xh x : ℕ → ℝ) :
    Gen.ABCCost_call pow n a b c xl xh x = sumTo n (fun k => abcCost pow (x k) (a k) (b k) (c k) (xl k) (xh k)) := by
  unfold Gen.ABCCost_call
  vsum; simp only [abc_cost']; vdone

theorem ABCCost_deriv (n : ℕ) (a : ℕ → ℝ) (b : ℕ → ε) (c xl xh x : ℕ → ℝ) (i : ℕ) :
    Gen.ABCCost_deriv pow cast n a b c xl xh x i = abcDeriv pow cast (x i) (a i) (b i) (c i) (xl i) (xh i) := by
  unfold Gen.ABCCost_deriv
  simp only [abc_deriv']; vdone

theorem ABCCost_hess (n : ℕ) (a : ℕ → ℝ) (b : ℕ → ε) (c xl xh x : ℕ → ℝ) (i j : ℕ) :
    Gen.ABCCost_hess pow cast n a b c xl xh x i j
      = if i = j then abcHess pow cast (x i) (a i) (b i) (c i) (xl i) (xh i) else 0 := by
  unfold Gen.ABCCost_hess
  simp only [abc_hess']; vdone

end abc

/-- `ABCCost.__call__/deriv/hess` at the executable exponent type are the `Fn.abc` combinator -/
theorem ABCCost_fn (n : ℕ) (a : ℕ → ℝ) (b : ℕ → Int) (c xl xh x : ℕ → ℝ) (i j : ℕ) :
    Gen.ABCCost_call ipow n a b c xl xh x = (Fn.abc a b c xl xh).eval n x
    ∧ Gen.ABCCost_deriv ipow intCast' n a b c xl xh x i = (Fn.abc a b c xl xh).deriv n x i
    ∧ Gen.ABCCost_hess ipow intCast' n a b c xl xh x i j = (Fn.abc a b c xl xh).hess n x i j := by
  refine ⟨?_, ?_, ?_⟩
  · rw [ABCCost_call]; rfl
  · rw [ABCCost_deriv]; rfl
  · rw [ABCCost_hess]; rfl

end DK.BridgeVec
