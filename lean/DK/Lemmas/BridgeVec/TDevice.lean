import DK.Gen.Vec.TDevice
import DK.Lemmas.BridgeVec.Utils
/-!
# BridgeVec.TDevice — `TDevice._make_t_base / r2t` (C09)

Part of the T1v tie (see `DK/Lemmas/BridgeVec.lean`): every lemma proves a definition of `DK/Gen/Vec/*.lean`, regenerated
from the current Python source on each check run, equal to the model definition the property theorems are about.
-/
set_option linter.unusedSimpArgs false
set_option linter.unnecessarySeqFocus false
set_option linter.unusedTactic false
set_option linter.unreachableTactic false
set_option linter.unusedVariables false
set_option linter.unusedSectionVars false
namespace DK.BridgeVec
open DK


section thermal
variable (n : ℕ) (sustainment efficiency t_init t_optimal t_range : ℝ) (t_external c : ℕ → ℝ)

set_option hygiene false in
local macro:max "td%" f:term:max : term => `($f n sustainment efficiency t_init t_optimal t_range t_external c)
set_option hygiene false in
local macro:max "T%" : term =>
  `((TParams.mk sustainment efficiency t_init t_optimal t_range t_external c : TParams ℝ))

theorem TDevice_make_t_base (te : ℕ → ℝ) (sus ti : ℝ) (i : ℕ) :
    td% Gen.TDevice_make_t_base te sus ti i = baseSoc ti sus i + (1 - sus) * soc sus 1 te i := by
  unfold Gen.TDevice_make_t_base
  simp only [utils_base_soc, utils_soc]
  vdone

/-- `t_base` as the constructor computes it -/
theorem TDevice_t_base (i : ℕ) : td% Gen.TDevice_make_t_base t_external sustainment t_init i = tBase T% i := by
  rw [TDevice_make_t_base]; rfl

theorem TDevice_r2t (r : ℕ → ℝ) (i : ℕ) : td% Gen.TDevice_r2t r i = r2t T% r i := by
  unfold Gen.TDevice_r2t r2t
  simp only [TDevice_t_base, utils_soc]
  vdone

end thermal

end DK.BridgeVec
