import DK.Gen.Vec.TDeviceCost
import DK.Lemmas.BridgeVec.TDevice
import DK.Lemmas.BridgeVec.Kernels
/-!
# BridgeVec.TDeviceCost — `TDevice.costv_t / deriv_t / costv / cost / deriv` (C01, C08, C15)

Part of the T1v tie (see `DK/Lemmas/BridgeVec.lean`): every lemma proves a definition of `DK/Gen/Vec/*.lean`, regenerated
from the current Python source on each check run, equal to the model definition the property theorems are about.
-/
set_option linter.unusedSimpArgs false
set_option linter.unnecessarySeqFocus false
set_option linter.unusedTactic false
set_option linter.unreachableTactic false
set_option linter.unusedVariables false
set_option linter.unusedSectionVars false
namespace DK.BridgeVec
open DK


section thermal
variable (n : ℕ) (sustainment efficiency t_init t_optimal t_range : ℝ) (t_external c : ℕ → ℝ)

set_option hygiene false in
local macro:max "td%" f:term:max : term => `($f n sustainment efficiency t_init t_optimal t_range t_external c)
set_option hygiene false in
local macro:max "T%" : term =>
  `((TParams.mk sustainment efficiency t_init t_optimal t_range t_external c : TParams ℝ))

theorem TDevice_costv_t (t : ℕ → ℝ) :
    td% (Gen.TDevice_costv_t ipow) t = sumTo n (fun i => tSlotCost T% (t i) i) := by
  unfold Gen.TDevice_costv_t tSlotCost
  simp only [ABCCost_call]
  vdone

theorem TDevice_deriv_t (t : ℕ → ℝ) (i : ℕ) :
    td% (Gen.TDevice_deriv_t ipow intCast') t i = tSlotDeriv T% (t i) i := by
  unfold Gen.TDevice_deriv_t tSlotDeriv
  simp only [ABCCost_deriv]
  vdone

theorem TDevice_costv (s p : ℕ → ℝ) (i : ℕ) :
    td% (Gen.TDevice_costv ipow) s p i
      = sumTo n (fun k => tSlotCost T% (r2t T% s k) k) / (natCast' n : ℝ) + s i * p i := by
  unfold Gen.TDevice_costv
  simp only [TDevice_costv_t, TDevice_r2t]
  vdone

theorem TDevice_cost (s p : ℕ → ℝ) : td% (Gen.TDevice_cost ipow) s p = tdevCost n T% s p := by
  unfold Gen.TDevice_cost tdevCost priceTerm
  simp only [TDevice_costv]
  rw [sumTo_share]

theorem TDevice_deriv (s p : ℕ → ℝ) (j : ℕ) :
    td% (Gen.TDevice_deriv ipow intCast') s p j = tdevDeriv n T% s p j := by
  unfold Gen.TDevice_deriv tdevDeriv
  simp only [TDevice_deriv_t, TDevice_r2t, utils_sustainment_matrix]
  vdone

end thermal

end DK.BridgeVec
