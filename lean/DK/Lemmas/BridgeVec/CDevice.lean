import DK.Gen.Vec.CDevice
import DK.Lemmas.BridgeVec.Tactics
/-!
# BridgeVec.CDevice — `CDevice.cost / deriv / hess` (C01, C08, C14, C15)

Part of the T1v tie (see `DK/Lemmas/BridgeVec.lean`): every lemma proves a definition of `DK/Gen/Vec/*.lean`, regenerated
from the current Python source on each check run, equal to the model definition the property theorems are about.
-/
set_option linter.unusedSimpArgs false
set_option linter.unnecessarySeqFocus false
set_option linter.unusedTactic false
set_option linter.unreachableTactic false
set_option linter.unusedVariables false
set_option linter.unusedSectionVars false
namespace DK.BridgeVec
open DK


theorem CDevice_cost (n : ℕ) (a b : ℝ) (s p : ℕ → ℝ) : Gen.CDevice_cost n a b s p = cdevCost n a b s p := by
  unfold Gen.CDevice_cost cdevCost priceTerm
  simp only [sumTo_eq_sum]
  vdone

theorem CDevice_deriv (n : ℕ) (a b : ℝ) (s p : ℕ → ℝ) (i : ℕ) : Gen.CDevice_deriv n a b s p i = cdevDeriv a p i := by
  unfold Gen.CDevice_deriv cdevDeriv; vclose

theorem CDevice_hess (n : ℕ) (a b : ℝ) (s : ℕ → ℝ) (i j : ℕ) : Gen.CDevice_hess n a b s i j = 0 := by
  unfold Gen.CDevice_hess; vclose

end DK.BridgeVec
