import DK.Gen.Vec.CDevice2
import DK.Lemmas.BridgeVec.Tactics
/-!
# BridgeVec.CDevice2 — `CDevice2.cost / deriv / hess` around the function object `__init__` builds (its construction is T2-only) (C01, C08, C14)

Part of the T1v tie (see `DK/Lemmas/BridgeVec.lean`): every lemma proves a definition of `DK/Gen/Vec/*.lean`, regenerated
from the current Python source on each check run, equal to the model definition the property theorems are about.
-/
set_option linter.unusedSimpArgs false
set_option linter.unnecessarySeqFocus false
set_option linter.unusedTactic false
set_option linter.unreachableTactic false
set_option linter.unusedVariables false
set_option linter.unusedSectionVars false
namespace DK.BridgeVec
open DK


theorem CDevice2_cost (n : ℕ) (pl ph : ℝ) (cbs : List (CBound ℝ)) (fd : ℕ → (ℕ → ℝ) → ℕ → ℝ)
    (fh : ℕ → (ℕ → ℝ) → ℕ → ℕ → ℝ) (s p : ℕ → ℝ) :
    Gen.CDevice2_cost n (fun m x => cdev2Fn m pl ph cbs x) fd fh s p = cdev2Cost n pl ph cbs s p := by
  unfold Gen.CDevice2_cost cdev2Cost priceTerm
  vdone

theorem CDevice2_deriv (n : ℕ) (pl ph : ℝ) (cbs : List (CBound ℝ)) (fc : ℕ → (ℕ → ℝ) → ℝ)
    (fh : ℕ → (ℕ → ℝ) → ℕ → ℕ → ℝ) (s p : ℕ → ℝ) (i : ℕ) :
    Gen.CDevice2_deriv n fc (fun m x k => cdev2Slope m pl ph cbs x k) fh s p i = cdev2Deriv n pl ph cbs s p i := by
  unfold Gen.CDevice2_deriv cdev2Deriv
  vdone

theorem CDevice2_hess (n : ℕ) (pl ph : ℝ) (cbs : List (CBound ℝ)) (fc : ℕ → (ℕ → ℝ) → ℝ)
    (fd : ℕ → (ℕ → ℝ) → ℕ → ℝ) (s : ℕ → ℝ) (i j : ℕ) :
    Gen.CDevice2_hess n fc fd (fun _ _ a b => cdev2Hess pl ph cbs a b) s i j = cdev2Hess pl ph cbs i j := by
  unfold Gen.CDevice2_hess
  vdone

end DK.BridgeVec
