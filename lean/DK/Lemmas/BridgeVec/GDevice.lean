import DK.Gen.Vec.GDevice
import DK.Lemmas.BridgeVec.Tactics
/-!
# BridgeVec.GDevice — `GDevice.costv / cost / deriv / hess` around the callables `cost_coeffs` installs (their construction is T2-only) (C01, C08, C14, C15)

Part of the T1v tie (see `DK/Lemmas/BridgeVec.lean`): every lemma proves a definition of `DK/Gen/Vec/*.lean`, regenerated
from the current Python source on each check run, equal to the model definition the property theorems are about.
-/
set_option linter.unusedSimpArgs false
set_option linter.unnecessarySeqFocus false
set_option linter.unusedTactic false
set_option linter.unreachableTactic false
set_option linter.unusedVariables false
set_option linter.unusedSectionVars false
namespace DK.BridgeVec
open DK


/-- the per-slot polynomial callables `cost_coeffs` installs, as the model reads them -/
def polyFn (cs : ℕ → List ℝ) : ℕ → (ℕ → ℝ) → ℕ → ℝ := fun _ x k => polyEval (cs k) (x k)

theorem GDevice_cost (n : ℕ) (cs : ℕ → List ℝ) (f1 f2 : ℕ → (ℕ → ℝ) → ℕ → ℝ) (s p : ℕ → ℝ) :
    Gen.GDevice_cost n (polyFn cs) f1 f2 s p = gdevCost n cs s p := by
  unfold Gen.GDevice_cost gdevCost
  vsum
  unfold Gen.GDevice_costv polyFn
  vdone

theorem GDevice_deriv (n : ℕ) (cs : ℕ → List ℝ) (f0 f2 : ℕ → (ℕ → ℝ) → ℕ → ℝ) (s p : ℕ → ℝ) (i : ℕ) :
    Gen.GDevice_deriv n f0 (polyFn (fun k => polyDer (cs k))) f2 s p i = gdevDeriv cs s p i := by
  unfold Gen.GDevice_deriv gdevDeriv polyFn
  vdone

theorem GDevice_hess (n : ℕ) (cs : ℕ → List ℝ) (f0 f1 : ℕ → (ℕ → ℝ) → ℕ → ℝ) (s : ℕ → ℝ) (i j : ℕ) :
    Gen.GDevice_hess n f0 f1 (polyFn (fun k => polyDer (polyDer (cs k)))) s i j = gdevHess cs s i j := by
  unfold Gen.GDevice_hess gdevHess polyFn
  vdone

end DK.BridgeVec
