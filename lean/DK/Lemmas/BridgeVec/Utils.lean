import DK.Gen.Vec.Utils
import DK.Lemmas.BridgeVec.Tactics
/-!
# BridgeVec.Utils — `utils.power_matrix / sustainment_matrix / base_soc / soc` (C09)

Part of the T1v tie (see `DK/Lemmas/BridgeVec.lean`): every lemma proves a definition of `DK/Gen/Vec/*.lean`, regenerated
from the current Python source on each check run, equal to the model definition the property theorems are about.
-/
set_option linter.unusedSimpArgs false
set_option linter.unnecessarySeqFocus false
set_option linter.unusedTactic false
set_option linter.unreachableTactic false
set_option linter.unusedVariables false
set_option linter.unusedSectionVars false
namespace DK.BridgeVec
open DK


theorem utils_power_matrix (l i j : ℕ) : Gen.utils_power_matrix l i j = i - j := by
  unfold Gen.utils_power_matrix
  induction i with
  | zero => simp [sumTo]
  | succ i ih =>
    rw [sumTo, ih]
    split_ifs <;> omega

theorem npow_one (k : ℕ) : npow (1 : ℝ) k = 1 := by simp

theorem utils_sustainment_matrix (s : ℝ) (l i j : ℕ) : Gen.utils_sustainment_matrix s l i j = susW s i j := by
  unfold Gen.utils_sustainment_matrix susW
  simp only [utils_power_matrix]
  by_cases h : s = 1
  · subst h; simp only [if_true, npow_one]
  · simp only [h, if_false]

theorem utils_base_soc (b s : ℝ) (l i : ℕ) : Gen.utils_base_soc b s l i = baseSoc b s i := by
  unfold Gen.utils_base_soc baseSoc
  simp only [npow_eq_pow]
  vdone

theorem utils_soc (n : ℕ) (r : ℕ → ℝ) (s e : ℝ) (i : ℕ) : Gen.utils_soc n r s e i = soc s e r i := by
  unfold Gen.utils_soc soc
  vsum
  simp only [utils_sustainment_matrix, sgnPow_eq]
  vdone

end DK.BridgeVec
