import DK.Model.Basic
import Mathlib.Data.Real.Basic
import Mathlib.Algebra.BigOperators.Group.Finset.Basic
import Mathlib.Algebra.BigOperators.Intervals
import Mathlib.Algebra.Order.BigOperators.Group.Finset
import Mathlib.Tactic.Ring
import Mathlib.Tactic.Linarith
/-!
# `sumTo` / `sumRange` / `npow` / `natCast'` at `ℝ`: algebra and the bridge to `Finset.sum`
-/
namespace DK
open Finset

theorem sumTo_eq_sum (n : ℕ) (f : ℕ → ℝ) : sumTo n f = ∑ i ∈ range n, f i := by
  induction n with
  | zero => simp [sumTo]
  | succ n ih => simp [sumTo, sum_range_succ, ih]

theorem sumTo_congr {n : ℕ} {f g : ℕ → ℝ} (h : ∀ i < n, f i = g i) : sumTo n f = sumTo n g := by
  induction n with
  | zero => rfl
  | succ n ih =>
    simp only [sumTo]
    rw [ih (fun i hi => h i (Nat.lt_succ_of_lt hi)), h n (Nat.lt_succ_self n)]

@[simp] theorem sumTo_zero_fn (n : ℕ) : sumTo n (fun _ => (0 : ℝ)) = 0 := by
  induction n with
  | zero => rfl
  | succ n ih => simp [sumTo, ih]

theorem sumTo_add (n : ℕ) (f g : ℕ → ℝ) : sumTo n (fun i => f i + g i) = sumTo n f + sumTo n g := by
  induction n with
  | zero => simp [sumTo]
  | succ n ih => simp only [sumTo, ih]; ring

theorem sumTo_sub (n : ℕ) (f g : ℕ → ℝ) : sumTo n (fun i => f i - g i) = sumTo n f - sumTo n g := by
  induction n with
  | zero => simp [sumTo]
  | succ n ih => simp only [sumTo, ih]; ring

theorem sumTo_neg (n : ℕ) (f : ℕ → ℝ) : sumTo n (fun i => - f i) = - sumTo n f := by
  induction n with
  | zero => simp [sumTo]
  | succ n ih => simp only [sumTo, ih]; ring

theorem sumTo_mul_left (n : ℕ) (c : ℝ) (f : ℕ → ℝ) : sumTo n (fun i => c * f i) = c * sumTo n f := by
  induction n with
  | zero => simp [sumTo]
  | succ n ih => simp only [sumTo, ih]; ring

theorem sumTo_mul_right (n : ℕ) (c : ℝ) (f : ℕ → ℝ) : sumTo n (fun i => f i * c) = sumTo n f * c := by
  induction n with
  | zero => simp [sumTo]
  | succ n ih => simp only [sumTo, ih]; ring

theorem sumTo_const (n : ℕ) (c : ℝ) : sumTo n (fun _ => c) = n * c := by
  induction n with
  | zero => simp [sumTo]
  | succ n ih => simp only [sumTo, ih]; push_cast; ring

theorem sumTo_le {n : ℕ} {f g : ℕ → ℝ} (h : ∀ i < n, f i ≤ g i) : sumTo n f ≤ sumTo n g := by
  induction n with
  | zero => simp [sumTo]
  | succ n ih =>
    simp only [sumTo]
    exact add_le_add (ih (fun i hi => h i (Nat.lt_succ_of_lt hi))) (h n (Nat.lt_succ_self n))

theorem sumTo_nonneg {n : ℕ} {f : ℕ → ℝ} (h : ∀ i < n, 0 ≤ f i) : 0 ≤ sumTo n f := by
  have := sumTo_le (f := fun _ => (0:ℝ)) (g := f) h
  simpa using this

/-- a sum of indicator-selected terms collapses to the selected term. -/
theorem sumTo_single (n i : ℕ) (hi : i < n) (v : ℕ → ℝ) :
    sumTo n (fun k => if k = i then v k else 0) = v i := by
  rw [sumTo_eq_sum, Finset.sum_ite_eq' (range n) i v]
  simp [hi]

/-- exchange of two finite sums. -/
theorem sumTo_comm (n m : ℕ) (f : ℕ → ℕ → ℝ) :
    sumTo n (fun i => sumTo m (fun j => f i j)) = sumTo m (fun j => sumTo n (fun i => f i j)) := by
  simp only [sumTo_eq_sum]
  exact Finset.sum_comm

/-- splitting a sum at `k ≤ n`. -/
theorem sumTo_split (n k : ℕ) (hk : k ≤ n) (f : ℕ → ℝ) :
    sumTo n f = sumTo k f + sumTo (n - k) (fun i => f (k + i)) := by
  obtain ⟨m, rfl⟩ := Nat.exists_eq_add_of_le hk
  simp only [Nat.add_sub_cancel_left]
  induction m with
  | zero => simp [sumTo]
  | succ m ih =>
    have e : k + (m + 1) = (k + m) + 1 := by omega
    rw [e]
    simp only [sumTo]
    rw [ih (Nat.le_add_right k m)]; ring

theorem sumRange_eq_sum (a b : ℕ) (f : ℕ → ℝ) : sumRange a b f = ∑ i ∈ Ico a b, f i := by
  unfold sumRange
  rw [sumTo_eq_sum, Finset.sum_Ico_eq_sum_range]

/-- `sumRange` as a masked `sumTo` (what a dot product with an indicator vector computes). -/
theorem sumRange_eq_sumTo_ite (n a b : ℕ) (hb : b ≤ n) (f : ℕ → ℝ) :
    sumRange a b f = sumTo n (fun k => if a ≤ k ∧ k < b then f k else 0) := by
  rw [sumRange_eq_sum, sumTo_eq_sum, ← Finset.sum_filter]
  congr 1
  ext k
  simp only [mem_Ico, mem_filter, mem_range]
  constructor
  · rintro ⟨h1, h2⟩; exact ⟨by omega, h1, h2⟩
  · rintro ⟨_, h1, h2⟩; exact ⟨h1, h2⟩

@[simp] theorem npow_eq_pow (x : ℝ) (k : ℕ) : npow x k = x ^ k := by
  induction k with
  | zero => simp [npow]
  | succ k ih => simp [npow, ih, pow_succ]

@[simp] theorem natCast'_eq (k : ℕ) : (natCast' k : ℝ) = (k : ℝ) := by
  induction k with
  | zero => simp [natCast']
  | succ k ih => simp [natCast', ih]

theorem foldl_add_eq_sum (l : List ℝ) (a : ℝ) : l.foldl (· + ·) a = a + l.sum := by
  induction l generalizing a with
  | nil => simp
  | cons x xs ih => simp [List.foldl_cons, ih, add_assoc]

end DK
