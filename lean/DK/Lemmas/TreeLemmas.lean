import DK.Props.Defs
/-!
# Structural lemmas about device trees (generalised over id-prefix, row offset, shifted matrices)

Everything is by mutual structural induction over `Tree` / `List Tree`.  The statements in
`DK/Props/C02.lean` are the `off = 0`, `pre = ""` instances.
-/
namespace DK

/-! ## `shiftRows` -/

theorem shiftRows_shiftRows {α : Type} (a b : ℕ) (S : Mat α) :
    shiftRows a (shiftRows b S) = shiftRows (b + a) S := by
  funext r; simp [shiftRows, Nat.add_assoc]

@[simp] theorem shiftRows_zero {α : Type} (S : Mat α) : shiftRows 0 S = S := by
  funext r; simp [shiftRows]

/-! ## blocks tile the rows -/
section shape
variable {α : Type}

/-- total number of rows of a list of placed blocks. -/
def rowsSum (l : List (String × ℕ × Block α)) : ℕ := (l.map (fun y => y.2.2.rows)).sum

@[simp] theorem rowsSum_nil : rowsSum ([] : List (String × ℕ × Block α)) = 0 := rfl
@[simp] theorem rowsSum_cons (x : String × ℕ × Block α) (l : List (String × ℕ × Block α)) :
    rowsSum (x :: l) = x.2.2.rows + rowsSum l := by simp [rowsSum]
@[simp] theorem rowsSum_append (l1 l2 : List (String × ℕ × Block α)) :
    rowsSum (l1 ++ l2) = rowsSum l1 + rowsSum l2 := by simp [rowsSum]

/-- the placed blocks are contiguous starting at `off`. -/
def Tiled : ℕ → List (String × ℕ × Block α) → Prop
  | _, [] => True
  | off, x :: xs => x.2.1 = off ∧ Tiled (off + x.2.2.rows) xs

theorem tiled_append (off : ℕ) (l1 l2 : List (String × ℕ × Block α)) :
    Tiled off (l1 ++ l2) ↔ Tiled off l1 ∧ Tiled (off + rowsSum l1) l2 := by
  induction l1 generalizing off with
  | nil => simp [Tiled]
  | cons x xs ih => simp [Tiled, ih, Nat.add_assoc, and_assoc]

theorem tiled_split (off : ℕ) (l1 l2 : List (String × ℕ × Block α)) (x : String × ℕ × Block α)
    (h : Tiled off (l1 ++ x :: l2)) : x.2.1 = off + rowsSum l1 := by
  rw [tiled_append] at h
  exact h.2.1

theorem tiled_mem_bounds (off : ℕ) (l : List (String × ℕ × Block α)) (x : String × ℕ × Block α)
    (h : Tiled off l) (hx : x ∈ l) : off ≤ x.2.1 ∧ x.2.1 + x.2.2.rows ≤ off + rowsSum l := by
  obtain ⟨l1, l2, rfl⟩ := List.append_of_mem hx
  have := tiled_split off l1 l2 x h
  simp only [rowsSum_append, rowsSum_cons]
  omega

/-- in a tiling, a row is owned by at most one placed block. -/
theorem tiled_owner_unique (off : ℕ) (l : List (String × ℕ × Block α)) (h : Tiled off l)
    (x y : String × ℕ × Block α) (hx : x ∈ l) (hy : y ∈ l) (r : ℕ)
    (hxr : x.2.1 ≤ r ∧ r < x.2.1 + x.2.2.rows) (hyr : y.2.1 ≤ r ∧ r < y.2.1 + y.2.2.rows) : x = y := by
  induction l generalizing off with
  | nil => simp at hx
  | cons z zs ih =>
    obtain ⟨hz, hzs⟩ := h
    rcases List.mem_cons.1 hx with rfl | hx' <;> rcases List.mem_cons.1 hy with rfl | hy'
    · rfl
    · have := tiled_mem_bounds _ zs y hzs hy'; omega
    · have := tiled_mem_bounds _ zs x hzs hx'; omega
    · exact ih _ hzs hx' hy'

mutual
theorem Tree.blocks_tiled (pre : String) (off : ℕ) :
    (t : Tree α) → Tiled off (t.blocks pre off) ∧ rowsSum (t.blocks pre off) = t.rows
  | .block b => by simp [Tree.blocks, Tiled, Tree.rows]
  | .node id own cs => by
    simp only [Tree.blocks, Tree.rows]; exact blocksL_tiled (pre ++ id ++ ".") off cs
theorem blocksL_tiled (pre : String) (off : ℕ) :
    (ts : List (Tree α)) → Tiled off (blocksL ts pre off) ∧ rowsSum (blocksL ts pre off) = rowsL ts
  | [] => by simp [blocksL, Tiled, rowsL]
  | t :: ts => by
    have h1 := Tree.blocks_tiled pre off t
    have h2 := blocksL_tiled pre (off + t.rows) ts
    simp only [blocksL, rowsL, tiled_append, rowsSum_append, h1.2]
    exact ⟨⟨h1.1, h2.1⟩, by rw [h2.2]⟩
end

theorem Tree.blocks_mem_bounds (t : Tree α) (pre : String) (off : ℕ) (x : String × ℕ × Block α)
    (hx : x ∈ t.blocks pre off) : off ≤ x.2.1 ∧ x.2.1 + x.2.2.rows ≤ off + t.rows := by
  have h := Tree.blocks_tiled pre off t
  have := tiled_mem_bounds off _ x h.1 hx
  rw [h.2] at this; exact this

theorem blocksL_mem_bounds (ts : List (Tree α)) (pre : String) (off : ℕ) (x : String × ℕ × Block α)
    (hx : x ∈ blocksL ts pre off) : off ≤ x.2.1 ∧ x.2.1 + x.2.2.rows ≤ off + rowsL ts := by
  have h := blocksL_tiled pre off ts
  have := tiled_mem_bounds off _ x h.1 hx
  rw [h.2] at this; exact this

mutual
theorem Tree.row_owner_gen (pre : String) (off r : ℕ) :
    (t : Tree α) → r < t.rows →
      ∃ x ∈ t.blocks pre off, x.2.1 ≤ off + r ∧ off + r < x.2.1 + x.2.2.rows
  | .block b, h => by
    simp only [Tree.rows] at h
    exact ⟨(pre, off, b), by simp [Tree.blocks], by simp, by simpa using h⟩
  | .node id own cs, h => by
    simp only [Tree.rows] at h
    simp only [Tree.blocks]
    exact rowsL_owner_gen (pre ++ id ++ ".") off r cs h
theorem rowsL_owner_gen (pre : String) (off r : ℕ) :
    (ts : List (Tree α)) → r < rowsL ts →
      ∃ x ∈ blocksL ts pre off, x.2.1 ≤ off + r ∧ off + r < x.2.1 + x.2.2.rows
  | [], h => by simp [rowsL] at h
  | t :: ts, h => by
    simp only [rowsL] at h
    simp only [blocksL, List.mem_append]
    by_cases hr : r < t.rows
    · obtain ⟨x, hx, h1, h2⟩ := Tree.row_owner_gen pre off r t hr
      exact ⟨x, Or.inl hx, h1, h2⟩
    · obtain ⟨x, hx, h1, h2⟩ := rowsL_owner_gen pre (off + t.rows) (r - t.rows) ts (by omega)
      exact ⟨x, Or.inr hx, by omega, by omega⟩
end

/-! the list of blocks (forgetting prefix and offset) does not depend on the prefix / offset. -/
mutual
theorem Tree.blocks_map_b (pre pre' : String) (off off' : ℕ) :
    (t : Tree α) → (t.blocks pre off).map (fun x => x.2.2) = (t.blocks pre' off').map (fun x => x.2.2)
  | .block b => by simp [Tree.blocks]
  | .node id own cs => by
    simp only [Tree.blocks]; exact blocksL_map_b _ _ off off' cs
theorem blocksL_map_b (pre pre' : String) (off off' : ℕ) :
    (ts : List (Tree α)) →
      (blocksL ts pre off).map (fun x => x.2.2) = (blocksL ts pre' off').map (fun x => x.2.2)
  | [] => by simp [blocksL]
  | t :: ts => by
    simp only [blocksL, List.map_append]
    rw [Tree.blocks_map_b pre pre' off off' t, blocksL_map_b pre pre' (off + t.rows) (off' + t.rows) ts]
end

theorem Tree.blocks_b_transfer (t : Tree α) (pre pre' : String) (off off' : ℕ)
    (p : Block α → Prop) (h : ∀ x ∈ t.blocks pre off, p x.2.2) : ∀ x ∈ t.blocks pre' off', p x.2.2 := by
  intro x hx
  have h1 : x.2.2 ∈ (t.blocks pre' off').map (fun x => x.2.2) := List.mem_map_of_mem hx
  rw [Tree.blocks_map_b pre' pre off' off t] at h1
  obtain ⟨y, hy, hyx⟩ := List.mem_map.1 h1
  have := h y hy
  simpa [hyx] using this

end shape

/-! ## cost -/

mutual
theorem Tree.cost_eq_blocks (pre : String) (off : ℕ) (S P : Mat ℝ) :
    (t : Tree ℝ) → t.cost (shiftRows off S) (shiftRows off P) =
      ((t.blocks pre off).map (fun x => x.2.2.cost (shiftRows x.2.1 S) (shiftRows x.2.1 P))).sum
  | .block b => by simp [Tree.cost, Tree.blocks]
  | .node id own cs => by
    simp only [Tree.cost, Tree.blocks]; exact costL_eq_blocks (pre ++ id ++ ".") off S P cs
theorem costL_eq_blocks (pre : String) (off : ℕ) (S P : Mat ℝ) :
    (ts : List (Tree ℝ)) → costL ts (shiftRows off S) (shiftRows off P) =
      ((blocksL ts pre off).map (fun x => x.2.2.cost (shiftRows x.2.1 S) (shiftRows x.2.1 P))).sum
  | [] => by simp [costL, blocksL]
  | t :: ts => by
    simp only [costL, blocksL, List.map_append, List.sum_append, shiftRows_shiftRows]
    rw [Tree.cost_eq_blocks pre off S P t, costL_eq_blocks pre (off + t.rows) S P ts]
end

/-! ## marginal cost and bounds -/

mutual
theorem Tree.deriv_block_gen (pre : String) (off : ℕ) (S P : Mat ℝ) (x : String × ℕ × Block ℝ)
    (r i : ℕ) (hr : r < x.2.2.rows) :
    (t : Tree ℝ) → x ∈ t.blocks pre off → ∀ q, off + q = x.2.1 + r →
      t.deriv (shiftRows off S) (shiftRows off P) q i
        = x.2.2.deriv (shiftRows x.2.1 S) (shiftRows x.2.1 P) r i
  | .block b, hx, q, hq => by
    simp only [Tree.blocks, List.mem_singleton] at hx
    subst hx
    simp only at hq
    have : q = r := by omega
    subst this
    simp [Tree.deriv]
  | .node id own cs, hx, q, hq => by
    simp only [Tree.blocks] at hx
    simp only [Tree.deriv]
    exact derivL_block_gen (pre ++ id ++ ".") off S P x r i hr cs hx q hq
theorem derivL_block_gen (pre : String) (off : ℕ) (S P : Mat ℝ) (x : String × ℕ × Block ℝ)
    (r i : ℕ) (hr : r < x.2.2.rows) :
    (ts : List (Tree ℝ)) → x ∈ blocksL ts pre off → ∀ q, off + q = x.2.1 + r →
      derivL ts (shiftRows off S) (shiftRows off P) q i
        = x.2.2.deriv (shiftRows x.2.1 S) (shiftRows x.2.1 P) r i
  | [], hx, _, _ => by simp [blocksL] at hx
  | t :: ts, hx, q, hq => by
    simp only [blocksL, List.mem_append] at hx
    simp only [derivL]
    rcases hx with hx | hx
    · have hb := Tree.blocks_mem_bounds t pre off x hx
      have hq' : q < t.rows := by omega
      rw [if_pos hq']
      exact Tree.deriv_block_gen pre off S P x r i hr t hx q hq
    · have hb := blocksL_mem_bounds ts pre (off + t.rows) x hx
      have hq' : ¬ q < t.rows := by omega
      rw [if_neg hq', shiftRows_shiftRows, shiftRows_shiftRows]
      exact derivL_block_gen pre (off + t.rows) S P x r i hr ts hx (q - t.rows) (by omega)
end

mutual
theorem Tree.bounds_block_gen (pre : String) (off : ℕ) (x : String × ℕ × Block ℝ)
    (r i : ℕ) (hr : r < x.2.2.rows) :
    (t : Tree ℝ) → x ∈ t.blocks pre off → ∀ q, off + q = x.2.1 + r →
      t.bounds q i = x.2.2.bounds r i
  | .block b, hx, q, hq => by
    simp only [Tree.blocks, List.mem_singleton] at hx
    subst hx
    simp only at hq
    have : q = r := by omega
    subst this
    simp [Tree.bounds]
  | .node id own cs, hx, q, hq => by
    simp only [Tree.blocks] at hx
    simp only [Tree.bounds]
    exact boundsL_block_gen (pre ++ id ++ ".") off x r i hr cs hx q hq
theorem boundsL_block_gen (pre : String) (off : ℕ) (x : String × ℕ × Block ℝ)
    (r i : ℕ) (hr : r < x.2.2.rows) :
    (ts : List (Tree ℝ)) → x ∈ blocksL ts pre off → ∀ q, off + q = x.2.1 + r →
      boundsL ts q i = x.2.2.bounds r i
  | [], hx, _, _ => by simp [blocksL] at hx
  | t :: ts, hx, q, hq => by
    simp only [blocksL, List.mem_append] at hx
    simp only [boundsL]
    rcases hx with hx | hx
    · have hb := Tree.blocks_mem_bounds t pre off x hx
      have hq' : q < t.rows := by omega
      rw [if_pos hq']
      exact Tree.bounds_block_gen pre off x r i hr t hx q hq
    · have hb := blocksL_mem_bounds ts pre (off + t.rows) x hx
      have hq' : ¬ q < t.rows := by omega
      rw [if_neg hq']
      exact boundsL_block_gen pre (off + t.rows) x r i hr ts hx (q - t.rows) (by omega)
end

/-! ## constraints -/

theorem MCon.lift_sat (off rows : ℕ) (c : MCon ℝ) (S : Mat ℝ) :
    (c.lift off rows).Sat S ↔ c.Sat (shiftRows off S) := by
  unfold MCon.Sat MCon.lift
  exact Iff.rfl

theorem forall_mem_map_lift (off rows : ℕ) (l : List (MCon ℝ)) (S : Mat ℝ) :
    (∀ c ∈ l.map (MCon.lift off rows), c.Sat S) ↔ (∀ c ∈ l, c.Sat (shiftRows off S)) := by
  simp only [List.forall_mem_map, MCon.lift_sat]

mutual
theorem Tree.cons_sat_gen (n : ℕ) (pre : String) (off : ℕ) (S : Mat ℝ) :
    (t : Tree ℝ) →
      ((∀ c ∈ t.cons n, c.Sat (shiftRows off S)) ↔
        (∀ x ∈ t.blocks pre off, ∀ c ∈ x.2.2.cons, c.Sat (shiftRows x.2.1 S)) ∧
        (∀ nd ∈ t.nodes off, ∀ c ∈ ownCons n nd.rows nd.own nd.labels, c.Sat (shiftRows nd.off S)))
  | .block b => by simp [Tree.cons, Tree.blocks, Tree.nodes]
  | .node id own cs => by
    have h := consL_sat_gen n (pre ++ id ++ ".") off 0 S cs
    simp only [Nat.add_zero] at h
    simp only [Tree.cons, Tree.blocks, Tree.nodes, List.forall_mem_append, List.forall_mem_cons, h]
    tauto
theorem consL_sat_gen (n : ℕ) (pre : String) (off k : ℕ) (S : Mat ℝ) :
    (ts : List (Tree ℝ)) →
      ((∀ c ∈ consL n k ts, c.Sat (shiftRows off S)) ↔
        (∀ x ∈ blocksL ts pre (off + k), ∀ c ∈ x.2.2.cons, c.Sat (shiftRows x.2.1 S)) ∧
        (∀ nd ∈ nodesL ts (off + k), ∀ c ∈ ownCons n nd.rows nd.own nd.labels, c.Sat (shiftRows nd.off S)))
  | [] => by simp [consL, blocksL, nodesL]
  | t :: ts => by
    have h1 := Tree.cons_sat_gen n pre (off + k) S t
    have h2 := consL_sat_gen n pre off (k + t.rows) S ts
    rw [← Nat.add_assoc] at h2
    simp only [consL, blocksL, nodesL, List.forall_mem_append, forall_mem_map_lift,
      shiftRows_shiftRows, h1, h2]
    tauto
end

/-! ## re-wrapped Jacobians -/

theorem sumTo_eq_zero {n : ℕ} {f : ℕ → ℝ} (h : ∀ i < n, f i = 0) : sumTo n f = 0 := by
  rw [sumTo_congr h, sumTo_zero_fn]

theorem lift_deriv_sum (R n off rows : ℕ) (hR : off + rows ≤ R) (J D : ℕ → ℕ → ℝ) :
    sumTo R (fun r => sumTo n (fun i =>
        (if off ≤ r ∧ r < off + rows then J (r - off) i else 0) * D r i))
      = sumTo rows (fun r => sumTo n (fun i => J r i * D (off + r) i)) := by
  rw [sumTo_split R off (by omega), sumTo_split (R - off) rows (by omega)]
  have e1 : sumTo off (fun r => sumTo n (fun i =>
        (if off ≤ r ∧ r < off + rows then J (r - off) i else 0) * D r i)) = 0 := by
    apply sumTo_eq_zero
    intro r hr
    apply sumTo_eq_zero
    intro i _
    have : ¬ (off ≤ r ∧ r < off + rows) := by omega
    rw [if_neg this]; ring
  have e3 : sumTo (R - off - rows) (fun k => sumTo n (fun i =>
        (if off ≤ off + (rows + k) ∧ off + (rows + k) < off + rows
          then J (off + (rows + k) - off) i else 0) * D (off + (rows + k)) i)) = 0 := by
    apply sumTo_eq_zero
    intro r hr
    apply sumTo_eq_zero
    intro i _
    have : ¬ (off ≤ off + (rows + r) ∧ off + (rows + r) < off + rows) := by omega
    rw [if_neg this]; ring
  have e2 : sumTo rows (fun k => sumTo n (fun i =>
        (if off ≤ off + k ∧ off + k < off + rows then J (off + k - off) i else 0) * D (off + k) i))
      = sumTo rows (fun r => sumTo n (fun i => J r i * D (off + r) i)) := by
    apply sumTo_congr
    intro r hr
    apply sumTo_congr
    intro i _
    have : off ≤ off + r ∧ off + r < off + rows := by omega
    rw [if_pos this, Nat.add_sub_cancel_left]
  rw [e1, e2, e3]; ring

/-! ## flat / unflat -/

theorem unflat_flat_gen {α : Type} (n : ℕ) (S : Mat α) (r i : ℕ) (hi : i < n) :
    unflat n (flat n S) r i = S r i := by
  have hn : 0 < n := by omega
  unfold unflat flat flatIdx
  have h1 : (r * n + i) / n = r := by
    rw [Nat.add_comm, Nat.add_mul_div_right _ _ hn, Nat.div_eq_of_lt hi, Nat.zero_add]
  have h2 : (r * n + i) % n = i := by
    rw [Nat.add_comm, Nat.add_mul_mod_self_right, Nat.mod_eq_of_lt hi]
  rw [h1, h2]

theorem flat_unflat_gen {α : Type} (n : ℕ) (x : ℕ → α) (k : ℕ) : flat n (unflat n x) k = x k := by
  unfold unflat flat flatIdx
  show x (k / n * n + k % n) = x k
  rw [Nat.div_add_mod']

/-! ## labels -/
section labels
variable {α : Type}

mutual
theorem Tree.labels_length_gen (pre : String) (off : ℕ) :
    (t : Tree α) → (∀ x ∈ t.blocks pre off, x.2.2.labels.length = x.2.2.rows) →
      (t.labels pre).length = t.rows
  | .block b, h => by
    have := h (pre, off, b) (by simp [Tree.blocks])
    simpa [Tree.labels, Tree.rows] using this
  | .node id own cs, h => by
    simp only [Tree.blocks] at h
    simp only [Tree.labels, Tree.rows]
    exact labelsL_length_gen (pre ++ id ++ ".") off cs h
theorem labelsL_length_gen (pre : String) (off : ℕ) :
    (ts : List (Tree α)) → (∀ x ∈ blocksL ts pre off, x.2.2.labels.length = x.2.2.rows) →
      (labelsL ts pre).length = rowsL ts
  | [], _ => by simp [labelsL, rowsL]
  | t :: ts, h => by
    simp only [blocksL, List.forall_mem_append] at h
    simp only [labelsL, rowsL, List.length_append]
    rw [Tree.labels_length_gen pre off t h.1, labelsL_length_gen pre (off + t.rows) ts h.2]
end

mutual
theorem Tree.label_get_gen (pre : String) (off : ℕ) (x : String × ℕ × Block α) (r : ℕ)
    (hr : r < x.2.2.rows) :
    (t : Tree α) → (∀ y ∈ t.blocks pre off, y.2.2.labels.length = y.2.2.rows) →
      x ∈ t.blocks pre off → ∀ q, off + q = x.2.1 + r →
      (t.labels pre)[q]? = some (x.1 ++ x.2.2.labels.getD r "")
  | .block b, h, hx, q, hq => by
    simp only [Tree.blocks, List.mem_singleton] at hx
    subst hx
    simp only at hq hr
    have hqr : q = r := by omega
    subst hqr
    have hl := h (pre, off, b) (by simp [Tree.blocks])
    simp only at hl
    have hlt : q < b.labels.length := by omega
    simp [Tree.labels, List.getD_eq_getElem?_getD, List.getElem?_eq_getElem hlt]
  | .node id own cs, h, hx, q, hq => by
    simp only [Tree.blocks] at h hx
    simp only [Tree.labels]
    exact labelsL_get_gen (pre ++ id ++ ".") off x r hr cs h hx q hq
theorem labelsL_get_gen (pre : String) (off : ℕ) (x : String × ℕ × Block α) (r : ℕ)
    (hr : r < x.2.2.rows) :
    (ts : List (Tree α)) → (∀ y ∈ blocksL ts pre off, y.2.2.labels.length = y.2.2.rows) →
      x ∈ blocksL ts pre off → ∀ q, off + q = x.2.1 + r →
      (labelsL ts pre)[q]? = some (x.1 ++ x.2.2.labels.getD r "")
  | [], _, hx, _, _ => by simp [blocksL] at hx
  | t :: ts, h, hx, q, hq => by
    simp only [blocksL, List.forall_mem_append] at h
    simp only [blocksL, List.mem_append] at hx
    simp only [labelsL]
    have hlen := Tree.labels_length_gen pre off t h.1
    rcases hx with hx | hx
    · have hb := Tree.blocks_mem_bounds t pre off x hx
      rw [List.getElem?_append_left (by omega)]
      exact Tree.label_get_gen pre off x r hr t h.1 hx q hq
    · have hb := blocksL_mem_bounds ts pre (off + t.rows) x hx
      rw [List.getElem?_append_right (by omega), hlen]
      exact labelsL_get_gen pre (off + t.rows) x r hr ts h.2 hx (q - t.rows) (by omega)
end

end labels

end DK
