import DK.Model.FnNd
import DK.Lemmas.Calc
import Mathlib.Analysis.Calculus.Deriv.Inv
import Mathlib.Analysis.Calculus.Deriv.Abs
import Mathlib.Analysis.SpecialFunctions.Log.Deriv
import Mathlib.Analysis.SpecialFunctions.Pow.Deriv
import Mathlib.Tactic.Ring
import Mathlib.Tactic.Linarith
import Mathlib.Tactic.FieldSimp
/-!
# Calculus lemmas for the numerically differentiated preference functions (over `ℝ`)

* `TemporalVariance`: line derivatives of the centre of mass, of the cost (`tvarCost`) and of the analytic
  gradient (`tvarGrad`), for an arbitrary weight vector `w` in place of the slot index (`wcom`).
* `CobbDouglas` / `InformationEntropy`: the real-valued model (`cobbCost`, `cobbGrad`, `entropyCost`,
  `entropyGrad`; `Real.rpow` / `Real.log`, hence stated at `ℝ` only) and their line derivatives.
-/
namespace DK
open DK

/-! ## weighted centre of mass -/

/-- `(Σ w_i x_i) / (Σ x_i)`; `tvarCom n x` is the case `w i = i`. -/
noncomputable def wcom (w : ℕ → ℝ) (n : ℕ) (x : ℕ → ℝ) : ℝ :=
  sumTo n (fun i => w i * x i) / sumTo n x

theorem tvarCom_eq_wcom (n : ℕ) (x : ℕ → ℝ) : tvarCom n x = wcom (fun i => natCast' i) n x := rfl

theorem wsum_line_hasDerivAt (w : ℕ → ℝ) (n : ℕ) (s d : ℕ → ℝ) (t : ℝ) :
    HasDerivAt (fun τ => sumTo n (fun i => w i * line s d τ i)) (sumTo n (fun i => w i * d i)) t :=
  sumTo_hasDerivAt n (fun i τ => w i * line s d τ i) (fun i => w i * d i) t
    (fun i _ => (line_hasDerivAt s d i t).const_mul (w i))

/-- the first moment about the centre of mass vanishes: `Σ (w_i − com)·x_i = 0`. -/
theorem wcom_centered (w : ℕ → ℝ) (n : ℕ) (x : ℕ → ℝ) (hS : sumTo n x ≠ 0) :
    sumTo n (fun i => (w i - wcom w n x) * x i) = 0 := by
  have e : sumTo n (fun i => (w i - wcom w n x) * x i)
      = sumTo n (fun i => w i * x i) - wcom w n x * sumTo n x := by
    rw [← sumTo_mul_left, ← sumTo_sub]
    exact sumTo_congr (fun i _ => by ring)
  rw [e]; unfold wcom; field_simp; ring

/-- `Σ (w_l − com)·d_l = Σ w_l d_l − com · Σ d_l`. -/
theorem wcom_dev_sum (w : ℕ → ℝ) (n : ℕ) (m : ℝ) (d : ℕ → ℝ) :
    sumTo n (fun l => (w l - m) * d l) = sumTo n (fun l => w l * d l) - m * sumTo n d := by
  rw [← sumTo_mul_left, ← sumTo_sub]
  exact sumTo_congr (fun i _ => by ring)

/-- line derivative of the centre of mass: `Σ_l (w_l − com)/Σx · d_l`. -/
theorem wcom_line_hasDerivAt (w : ℕ → ℝ) (n : ℕ) (s d : ℕ → ℝ) (hS : sumTo n s ≠ 0) :
    HasDerivAt (fun τ => wcom w n (line s d τ))
      (sumTo n (fun l => (w l - wcom w n s) * d l) / sumTo n s) 0 := by
  have hN := wsum_line_hasDerivAt w n s d 0
  have hD := sumTo_line_hasDerivAt n s d 0
  have hS' : sumTo n (line s d 0) ≠ 0 := by rw [line_zero]; exact hS
  have h := hN.div hD hS'
  unfold wcom
  refine HasDerivAt.congr_deriv h ?_
  rw [wcom_dev_sum]
  simp only [line_zero]
  field_simp

/-! ## TemporalVariance -/

/-- the cost with an arbitrary weight vector; `tvarCost` is the case `w i = i`. -/
noncomputable def wvarCost (w : ℕ → ℝ) (c : ℝ) (n : ℕ) (x : ℕ → ℝ) : ℝ :=
  c * sumTo n (fun i => (w i - wcom w n x) * (w i - wcom w n x) * x i)

theorem tvarCost_eq_wvarCost (c : ℝ) (n : ℕ) (x : ℕ → ℝ) :
    tvarCost c n x = wvarCost (fun i => natCast' i) c n x := rfl

theorem wvarCost_line_hasDerivAt (w : ℕ → ℝ) (c : ℝ) (n : ℕ) (s d : ℕ → ℝ) (hS : sumTo n s ≠ 0) :
    HasDerivAt (fun τ => wvarCost w c n (line s d τ))
      (sumTo n (fun k => c * ((w k - wcom w n s) * (w k - wcom w n s)) * d k)) 0 := by
  have hm := wcom_line_hasDerivAt w n s d hS
  set m' := sumTo n (fun l => (w l - wcom w n s) * d l) / sumTo n s with hm'
  have hi : ∀ i < n, HasDerivAt
      (fun τ => (w i - wcom w n (line s d τ)) * (w i - wcom w n (line s d τ)) * line s d τ i)
      (((-m') * (w i - wcom w n (line s d 0)) + (w i - wcom w n (line s d 0)) * (-m')) * line s d 0 i
        + (w i - wcom w n (line s d 0)) * (w i - wcom w n (line s d 0)) * d i) 0 := by
    intro i _
    exact ((hm.const_sub (w i)).mul (hm.const_sub (w i))).mul (line_hasDerivAt s d i 0)
  have h := (sumTo_hasDerivAt n _ _ 0 hi).const_mul c
  unfold wvarCost
  refine HasDerivAt.congr_deriv h ?_
  simp only [line_zero]
  have e1 : sumTo n (fun i => ((-m') * (w i - wcom w n s) + (w i - wcom w n s) * (-m')) * s i
        + (w i - wcom w n s) * (w i - wcom w n s) * d i)
      = (-2 * m') * sumTo n (fun i => (w i - wcom w n s) * s i)
        + sumTo n (fun i => (w i - wcom w n s) * (w i - wcom w n s) * d i) := by
    rw [← sumTo_mul_left, ← sumTo_add]
    exact sumTo_congr (fun i _ => by ring)
  rw [e1, wcom_centered w n s hS]
  simp only [mul_zero, zero_add]
  rw [← sumTo_mul_left]
  exact sumTo_congr (fun i _ => by ring)

/-- the analytic gradient with an arbitrary weight vector. -/
noncomputable def wvarGrad (w : ℕ → ℝ) (c : ℝ) (n : ℕ) (x : ℕ → ℝ) (k : ℕ) : ℝ :=
  c * ((w k - wcom w n x) * (w k - wcom w n x))

theorem tvarGrad_eq_wvarGrad (c : ℝ) (n : ℕ) (x : ℕ → ℝ) (k : ℕ) :
    tvarGrad c n x k = wvarGrad (fun i => natCast' i) c n x k := rfl

theorem wvarGrad_line_hasDerivAt (w : ℕ → ℝ) (c : ℝ) (n : ℕ) (s d : ℕ → ℝ) (k : ℕ)
    (hS : sumTo n s ≠ 0) :
    HasDerivAt (fun τ => wvarGrad w c n (line s d τ) k)
      (sumTo n (fun l => (-2) * c * ((w k - wcom w n s) * (w l - wcom w n s)) / sumTo n s * d l)) 0 := by
  have hm := wcom_line_hasDerivAt w n s d hS
  have h := ((hm.const_sub (w k)).mul (hm.const_sub (w k))).const_mul c
  unfold wvarGrad
  refine HasDerivAt.congr_deriv h ?_
  simp only [line_zero]
  have e : sumTo n (fun l => (-2) * c * ((w k - wcom w n s) * (w l - wcom w n s)) / sumTo n s * d l)
      = ((-2) * c * (w k - wcom w n s) / sumTo n s) * sumTo n (fun l => (w l - wcom w n s) * d l) := by
    rw [← sumTo_mul_left]
    exact sumTo_congr (fun l _ => by field_simp)
  rw [e]
  field_simp
  ring

/-! ## CobbDouglas (`ℝ` only: real powers) -/

/-- `CobbDouglas(a, c)(r) = c · Π_i r_i ^ (a_i / Σ a)` (functions.py:308-318). -/
noncomputable def cobbCost (c : ℝ) (a : ℕ → ℝ) (n : ℕ) (r : ℕ → ℝ) : ℝ :=
  c * prodTo n (fun i => r i ^ (a i / sumTo n a))

/-- analytic gradient: `∂/∂r_k = c · (a_k/Σa) / r_k · Π_i r_i ^ (a_i/Σa)` (for `r_k > 0`). -/
noncomputable def cobbGrad (c : ℝ) (a : ℕ → ℝ) (n : ℕ) (r : ℕ → ℝ) (k : ℕ) : ℝ :=
  c * (a k / sumTo n a) / r k * prodTo n (fun i => r i ^ (a i / sumTo n a))

/-- line derivative of a product of real powers of positive slots. -/
theorem prodTo_rpow_line_hasDerivAt (n : ℕ) (e : ℕ → ℝ) (s d : ℕ → ℝ) (hs : ∀ i < n, 0 < s i) :
    HasDerivAt (fun τ => prodTo n (fun i => line s d τ i ^ e i))
      (prodTo n (fun i => s i ^ e i) * sumTo n (fun k => e k / s k * d k)) 0 := by
  induction n with
  | zero => simpa [prodTo, sumTo] using hasDerivAt_const (0:ℝ) (1:ℝ)
  | succ n ih =>
    have hn : 0 < s n := hs n (Nat.lt_succ_self n)
    have hne : line s d 0 n ≠ 0 := by rw [line_zero]; exact ne_of_gt hn
    have h1 := (line_hasDerivAt s d n 0).rpow_const (p := e n) (Or.inl hne)
    have h := (ih (fun i hi => hs i (Nat.lt_succ_of_lt hi))).mul h1
    simp only [prodTo, sumTo]
    refine HasDerivAt.congr_deriv h ?_
    simp only [line_zero]
    rw [Real.rpow_sub_one (ne_of_gt hn)]
    field_simp

/-! ## InformationEntropy (`ℝ` only: logarithm) -/

/-- `Σ |r_i|`. -/
noncomputable def absMass (n : ℕ) (r : ℕ → ℝ) : ℝ := sumTo n (fun i => |r i|)

/-- the share `p_i = |r_i| / Σ|r|`. -/
noncomputable def entP (n : ℕ) (r : ℕ → ℝ) (i : ℕ) : ℝ := |r i| / absMass n r

/-- one entropy term; zero entries are skipped, as `info_entropy` filters them out before normalising
(functions.py:268).  (`entTerm_eq`: the skip agrees with `p·log p` at `p = 0` anyway.) -/
noncomputable def entTerm (n : ℕ) (r : ℕ → ℝ) (i : ℕ) : ℝ :=
  if r i = 0 then 0 else entP n r i * Real.log (entP n r i)

/-- `InformationEntropy(c)(r) = c · Σ_i p_i log p_i`, `p_i = |r_i| / Σ|r|`, zero entries skipped. -/
noncomputable def entropyCost (c : ℝ) (n : ℕ) (r : ℕ → ℝ) : ℝ := c * sumTo n (entTerm n r)

/-- analytic gradient: `∂/∂r_k = c · sign(r_k)/Σ|r| · (log p_k − Σ_i p_i log p_i)` (for `r_k ≠ 0`);
`sign` is the model's numpy `sign` (`DK.sgn`). -/
noncomputable def entropyGrad (c : ℝ) (n : ℕ) (r : ℕ → ℝ) (k : ℕ) : ℝ :=
  c * (((sgn (r k) : ℤ) : ℝ) / absMass n r * (Real.log (entP n r k) - sumTo n (entTerm n r)))

theorem entTerm_eq (n : ℕ) (r : ℕ → ℝ) (i : ℕ) :
    entTerm n r i = entP n r i * Real.log (entP n r i) := by
  unfold entTerm
  split_ifs with h
  · simp [entP, h]
  · rfl

theorem abs_line_hasDerivAt (s d : ℕ → ℝ) (k : ℕ) (hk : s k ≠ 0) :
    HasDerivAt (fun τ => |line s d τ k|) (((sgn (s k) : ℤ) : ℝ) * d k) 0 := by
  have hl := line_hasDerivAt s d k 0
  rcases lt_or_gt_of_ne hk with hneg | hpos
  · have ha : HasDerivAt (fun y : ℝ => |y|) (-1) (line s d 0 k) := by
      rw [line_zero]; exact hasDerivAt_abs_neg hneg
    have h := ha.comp 0 hl
    refine HasDerivAt.congr_deriv h ?_
    have : ¬ (0 < s k) := not_lt.mpr (le_of_lt hneg)
    simp [sgn, this, hneg]
  · have ha : HasDerivAt (fun y : ℝ => |y|) 1 (line s d 0 k) := by
      rw [line_zero]; exact hasDerivAt_abs_pos hpos
    have h := ha.comp 0 hl
    refine HasDerivAt.congr_deriv h ?_
    simp [sgn, hpos]

theorem absMass_line_hasDerivAt (n : ℕ) (s d : ℕ → ℝ) (hs : ∀ i < n, s i ≠ 0) :
    HasDerivAt (fun τ => absMass n (line s d τ))
      (sumTo n (fun i => ((sgn (s i) : ℤ) : ℝ) * d i)) 0 :=
  sumTo_hasDerivAt n (fun i τ => |line s d τ i|) _ 0 (fun i hi => abs_line_hasDerivAt s d i (hs i hi))

theorem absMass_pos (n : ℕ) (s : ℕ → ℝ) (hn : 0 < n) (hs : ∀ i < n, s i ≠ 0) : 0 < absMass n s := by
  unfold absMass
  obtain ⟨m, rfl⟩ : ∃ m, n = m + 1 := ⟨n - 1, by omega⟩
  simp only [sumTo]
  have h1 : 0 ≤ sumTo m (fun i => |s i|) := sumTo_nonneg (fun i _ => abs_nonneg _)
  have h2 : 0 < |s m| := abs_pos.mpr (hs m (Nat.lt_succ_self m))
  linarith

theorem mul_log_hasDerivAt (x : ℝ) (hx : x ≠ 0) :
    HasDerivAt (fun y => y * Real.log y) (Real.log x + 1) x := by
  have h := (hasDerivAt_id x).mul (Real.hasDerivAt_log hx)
  refine HasDerivAt.congr_deriv h ?_
  simp only [id]
  field_simp

/-- line derivative of the entropy sum, before the algebra that turns it into `Σ grad_k · d_k`. -/
theorem entropySum_line_hasDerivAt (n : ℕ) (s d : ℕ → ℝ) (hn : 0 < n) (hs : ∀ i < n, s i ≠ 0) :
    HasDerivAt (fun τ => sumTo n (fun i => entP n (line s d τ) i * Real.log (entP n (line s d τ) i)))
      (sumTo n (fun i => (Real.log (entP n s i) + 1)
        * ((((sgn (s i) : ℤ) : ℝ) * d i * absMass n s
            - |s i| * sumTo n (fun j => ((sgn (s j) : ℤ) : ℝ) * d j)) / absMass n s ^ 2))) 0 := by
  have hT := absMass_line_hasDerivAt n s d hs
  have hT0 : absMass n s ≠ 0 := ne_of_gt (absMass_pos n s hn hs)
  refine sumTo_hasDerivAt n _ _ 0 ?_
  intro i hi
  have hT0' : absMass n (line s d 0) ≠ 0 := by rw [line_zero]; exact hT0
  have hp : HasDerivAt (fun τ => entP n (line s d τ) i)
      ((((sgn (s i) : ℤ) : ℝ) * d i * absMass n s
            - |s i| * sumTo n (fun j => ((sgn (s j) : ℤ) : ℝ) * d j)) / absMass n s ^ 2) 0 := by
    have h := (abs_line_hasDerivAt s d i (hs i hi)).div hT hT0'
    unfold entP
    refine HasDerivAt.congr_deriv h ?_
    simp only [line_zero]
  have hp0 : entP n s i ≠ 0 := by
    unfold entP
    exact div_ne_zero (abs_ne_zero.mpr (hs i hi)) hT0
  have hφ : HasDerivAt (fun y => y * Real.log y) (Real.log (entP n s i) + 1) (entP n (line s d 0) i) := by
    rw [line_zero]; exact mul_log_hasDerivAt _ hp0
  exact hφ.comp 0 hp

theorem entP_sum (n : ℕ) (s : ℕ → ℝ) (hT : absMass n s ≠ 0) : sumTo n (entP n s) = 1 := by
  have : sumTo n (entP n s) = sumTo n (fun i => |s i|) * (absMass n s)⁻¹ := by
    rw [← sumTo_mul_right]
    exact sumTo_congr (fun i _ => by unfold entP; rw [div_eq_mul_inv])
  rw [this]
  exact mul_inv_cancel₀ hT

/-- the algebra behind `entropy_grad`: with `L_i = log p_i`, `A_i = |s_i|`, `T = Σ A`, `e_i = sign(s_i)·d_i`,
`T' = Σ e`, the chain-rule sum `Σ (L_i + 1)·(e_i T − A_i T')/T²` is `Σ_k (L_k − Σ_i (A_i/T) L_i)/T · e_k`. -/
theorem entropy_algebra (n : ℕ) (L e A : ℕ → ℝ) (T T' : ℝ) (hT : T ≠ 0)
    (hA : sumTo n A = T) (hT' : sumTo n e = T') :
    sumTo n (fun i => (L i + 1) * ((e i * T - A i * T') / T ^ 2))
      = sumTo n (fun k => (1 / T * (L k - sumTo n (fun i => A i / T * L i))) * e k) := by
  set X := sumTo n (fun i => L i * e i) with hX
  set Y := sumTo n (fun i => L i * A i) with hY
  have hE : sumTo n (fun i => A i / T * L i) = Y / T := by
    rw [hY, div_eq_mul_inv, ← sumTo_mul_right]
    exact sumTo_congr (fun i _ => by field_simp)
  have l1 : sumTo n (fun i => (L i + 1) * ((e i * T - A i * T') / T ^ 2))
      = sumTo n (fun i => ((1 / T) * (L i * e i) + (1 / T) * e i)
          - ((T' / T ^ 2) * (L i * A i) + (T' / T ^ 2) * A i)) :=
    sumTo_congr (fun i _ => by field_simp)
  have l2 : sumTo n (fun i => ((1 / T) * (L i * e i) + (1 / T) * e i)
          - ((T' / T ^ 2) * (L i * A i) + (T' / T ^ 2) * A i))
      = ((1 / T) * X + (1 / T) * T') - ((T' / T ^ 2) * Y + (T' / T ^ 2) * T) := by
    rw [sumTo_sub, sumTo_add, sumTo_add, sumTo_mul_left, sumTo_mul_left, sumTo_mul_left, sumTo_mul_left,
      hA, hT']
  have r1 : sumTo n (fun k => (1 / T * (L k - sumTo n (fun i => A i / T * L i))) * e k)
      = sumTo n (fun k => (1 / T) * (L k * e k) - (1 / T * (Y / T)) * e k) := by
    rw [hE]
    exact sumTo_congr (fun k _ => by ring)
  have r2 : sumTo n (fun k => (1 / T) * (L k * e k) - (1 / T * (Y / T)) * e k)
      = (1 / T) * X - (1 / T * (Y / T)) * T' := by
    rw [sumTo_sub, sumTo_mul_left, sumTo_mul_left, hT']
  rw [l1, l2, r1, r2]
  field_simp
  ring

end DK
