import DK.Model.Kernels
import DK.Gen.Kernels
import Mathlib.Data.Real.Basic
import Mathlib.Tactic.Ring
import Mathlib.Tactic.FieldSimp
/-!
# Bridge (tie T1): the generated translation of the Python kernels equals the model

`DK.Gen.*` is regenerated from `/repo/device_kit/functions.py` on every check run.
Each lemma below must still go through after regeneration; if the Python source was
changed in a way that is not an algebraic identity, the corresponding lemma fails
and the owning checks start their failing-input search.
The power operation, its embedding of exponents and the scalar type are universally
quantified (`pow`, `cast` arbitrary functions on ℝ), so the bridge does not depend on
any property of `Real.rpow`.
-/
namespace DK.Bridge
open DK

/-- closes a goal that is an identity of field expressions (robust to algebraic rewrites of the source) -/
macro "bridge_close" : tactic =>
  `(tactic| first | rfl | ring | (field_simp; done) | (field_simp; ring) | (simp; done) | (simp; ring))

variable (pow : ℝ → ℝ → ℝ)

theorem hlq_cost (x pl ph xl xh : ℝ) : Gen.hlq_cost x pl ph xl xh = hlqCost pl ph xl xh x := by
  unfold Gen.hlq_cost hlqCost
  by_cases h : xl = xh
  · simp [h]
  · have hd : xh - xl ≠ 0 := sub_ne_zero.mpr (Ne.symm h)
    simp only [h, if_false]
    by_cases ha : (ph - pl) / 2 = 0
    · simp only [ha, ne_eq, not_true_eq_false, if_false, if_true] <;> bridge_close
    · simp only [ha, ne_eq, not_false_eq_true, if_true, if_false] <;> bridge_close

theorem hlq_deriv (x pl ph xl xh : ℝ) : Gen.hlq_deriv x pl ph xl xh = hlqDeriv pl ph xl xh x := by
  unfold Gen.hlq_deriv hlqDeriv
  by_cases h : xl = xh
  · simp [h]
  · have hd : xh - xl ≠ 0 := sub_ne_zero.mpr (Ne.symm h)
    simp only [h, if_false] <;> bridge_close

theorem hlq_hess (x pl ph xl xh : ℝ) : Gen.hlq_hess x pl ph xl xh = hlqHess pl ph xl xh := by
  unfold Gen.hlq_hess hlqHess
  by_cases h : xl = xh
  · simp [h]
  · simp only [h, if_false] <;> bridge_close

theorem abc_s (x xl xh : ℝ) : Gen.abc_s x xl xh = abcS x xl xh := by
  unfold Gen.abc_s abcS; bridge_close

theorem abc_q (x xl xh a : ℝ) : Gen.abc_q x xl xh a = abcQ x xl xh a := by
  unfold Gen.abc_q abcQ; simp only [abc_s] <;> bridge_close

theorem abc_cost (x a b c xl xh : ℝ) : Gen.abc_cost pow x a b c xl xh = abcCost pow x a b c xl xh := by
  unfold Gen.abc_cost abcCost
  by_cases h : xl = xh
  · simp [h]
  · simp only [h, if_false, abc_q] <;> bridge_close

theorem abc_deriv (x a b c xl xh : ℝ) :
    Gen.abc_deriv pow id x a b c xl xh = abcDeriv pow id x a b c xl xh := by
  unfold Gen.abc_deriv abcDeriv
  by_cases h : xl = xh
  · simp [h]
  · have hd : xh - xl ≠ 0 := sub_ne_zero.mpr (Ne.symm h)
    simp only [h, if_false, abc_q, id] <;> bridge_close

theorem abc_hess (x a b c xl xh : ℝ) :
    Gen.abc_hess pow id x a b c xl xh = abcHess pow id x a b c xl xh := by
  unfold Gen.abc_hess abcHess
  by_cases h : xl = xh
  · simp [h]
  · have hd : xh - xl ≠ 0 := sub_ne_zero.mpr (Ne.symm h)
    simp only [h, if_false, abc_q, id] <;> bridge_close

end DK.Bridge
