import DK.Props.Defs
import DK.Lemmas.Convex
import DK.Lemmas.TreeLemmas
import DK.Lemmas.SetLemmas
import DK.Lemmas.Calc
import Mathlib.Analysis.Convex.Mul
/-!
# Helper lemmas for C07tree: convexity of the tree cost and of the tree's feasible set

Matrix versions (`Mat ℝ = ℕ → ℕ → ℝ`, read at rows `< R`, slots `< n`) of `InBox`, `mix`,
`ConvexOnBox`; closure lemmas; the executable integer power in `ABCCost`; affinity of the shipped
constraint closures; concavity of the storage state of charge as the constraints compute it.
-/
namespace DK

/-! ## definitions -/

/-- every entry (row `< R`, slot `< n`) lies within its own bounds pair. -/
def MInBox (R n : ℕ) (bd : ℕ → ℕ → ℝ × ℝ) (S : Mat ℝ) : Prop :=
  ∀ r < R, ∀ i < n, (bd r i).1 ≤ S r i ∧ S r i ≤ (bd r i).2

/-- convex combination of two flow matrices. -/
def mmix (θ : ℝ) (S T : Mat ℝ) : Mat ℝ := fun r i => θ * S r i + (1 - θ) * T r i

/-- chord form of convexity over the `R × n` bounds box. -/
def MConvexOn (R n : ℕ) (bd : ℕ → ℕ → ℝ × ℝ) (f : Mat ℝ → ℝ) : Prop :=
  ∀ S T, MInBox R n bd S → MInBox R n bd T → ∀ θ : ℝ, 0 ≤ θ → θ ≤ 1 →
    f (mmix θ S T) ≤ θ * f S + (1 - θ) * f T

/-- `A` commutes with `mmix` (for every `θ`). -/
def MAffine (A : Mat ℝ → ℝ) : Prop :=
  ∀ (θ : ℝ) (S T : Mat ℝ), A (mmix θ S T) = θ * A S + (1 - θ) * A T

/-- a matrix constraint whose function is affine. -/
def MCon.Affine (c : MCon ℝ) : Prop := MAffine c.fn

/-- a matrix constraint whose satisfaction set is convex (closed under `mmix θ`, `θ ∈ [0,1]`). -/
def MCon.ConvexSat (c : MCon ℝ) : Prop :=
  ∀ (S T : Mat ℝ) (θ : ℝ), 0 ≤ θ → θ ≤ 1 → c.Sat S → c.Sat T → c.Sat (mmix θ S T)

/-- a vector constraint whose function is affine. -/
def Con.Affine (c : Con ℝ) : Prop := IsAffine c.fn

/-- a vector constraint whose satisfaction set is convex. -/
def Con.ConvexSat (c : Con ℝ) : Prop :=
  ∀ (x y : ℕ → ℝ) (θ : ℝ), 0 ≤ θ → θ ≤ 1 → c.Sat x → c.Sat y → c.Sat (mix θ x y)

/-- an *inequality* `fn ≥ 0` with `fn` concave. -/
def Con.ConcaveIneq (c : Con ℝ) : Prop :=
  c.isEq = false ∧ ∀ (x y : ℕ → ℝ) (θ : ℝ), 0 ≤ θ → θ ≤ 1 →
    θ * c.fn x + (1 - θ) * c.fn y ≤ c.fn (mix θ x y)

/-- the block's cost and nothing else of it reads only the block's own rows of flow and price. -/
def Block.Local (b : Block ℝ) : Prop :=
  ∀ S S' P P' : Mat ℝ, (∀ r < b.rows, S r = S' r) → (∀ r < b.rows, P r = P' r) →
    b.cost S P = b.cost S' P'

/-- the block's cost is convex over the block's own bounds box, for every price. -/
def Block.Convex (n : ℕ) (b : Block ℝ) : Prop :=
  ∀ P : Mat ℝ, MConvexOn b.rows n b.bounds (fun S => b.cost S P)

/-- weaker: the chord inequality between points of the block's *feasible set* (box ∧ constraints). -/
def Block.ConvexOnFeas (n : ℕ) (b : Block ℝ) : Prop :=
  ∀ (P S T : Mat ℝ), MInBox b.rows n b.bounds S → (∀ c ∈ b.cons, c.Sat S) →
    MInBox b.rows n b.bounds T → (∀ c ∈ b.cons, c.Sat T) → ∀ θ : ℝ, 0 ≤ θ → θ ≤ 1 →
    b.cost (mmix θ S T) P ≤ θ * b.cost S P + (1 - θ) * b.cost T P

theorem Block.Convex.onFeas {n : ℕ} {b : Block ℝ} (h : b.Convex n) : b.ConvexOnFeas n :=
  fun P S T hS _ hT _ θ h0 h1 => h P S T hS hT θ h0 h1

/-! ## `mmix` -/

theorem mmix_row (θ : ℝ) (S T : Mat ℝ) (r : ℕ) : mmix θ S T r = mix θ (S r) (T r) := rfl

theorem shiftRows_mmix (off : ℕ) (θ : ℝ) (S T : Mat ℝ) :
    shiftRows off (mmix θ S T) = mmix θ (shiftRows off S) (shiftRows off T) := rfl

theorem colSum_mmix (k : ℕ) (θ : ℝ) (S T : Mat ℝ) :
    colSum k (mmix θ S T) = mix θ (colSum k S) (colSum k T) := by
  funext i
  simp only [colSum, mmix, mix, sumTo_add, sumTo_mul_left]

theorem mInBox_row {R n : ℕ} {bd : ℕ → ℕ → ℝ × ℝ} {S : Mat ℝ} (h : MInBox R n bd S) {r : ℕ} (hr : r < R) :
    InBox n (fun i => (bd r i).1) (fun i => (bd r i).2) (S r) := h r hr

theorem mInBox_mmix {R n : ℕ} {bd : ℕ → ℕ → ℝ × ℝ} {S T : Mat ℝ} (hS : MInBox R n bd S)
    (hT : MInBox R n bd T) {θ : ℝ} (h0 : 0 ≤ θ) (h1 : θ ≤ 1) : MInBox R n bd (mmix θ S T) :=
  fun r hr => inBox_mix (mInBox_row hS hr) (mInBox_row hT hr) h0 h1

/-! ## affine functionals of the flow matrix -/

theorem mAffine_const (c : ℝ) : MAffine (fun _ => c) := by intro θ S T; ring
theorem mAffine_entry (r i : ℕ) : MAffine (fun S => S r i) := by intro θ S T; rfl

theorem MAffine.add {A B : Mat ℝ → ℝ} (hA : MAffine A) (hB : MAffine B) : MAffine (fun S => A S + B S) := by
  intro θ S T; simp only [hA θ S T, hB θ S T]; ring
theorem MAffine.sub {A B : Mat ℝ → ℝ} (hA : MAffine A) (hB : MAffine B) : MAffine (fun S => A S - B S) := by
  intro θ S T; simp only [hA θ S T, hB θ S T]; ring
theorem MAffine.const_mul {A : Mat ℝ → ℝ} (hA : MAffine A) (c : ℝ) : MAffine (fun S => c * A S) := by
  intro θ S T; simp only [hA θ S T]; ring
theorem MAffine.mul_const {A : Mat ℝ → ℝ} (hA : MAffine A) (c : ℝ) : MAffine (fun S => A S * c) := by
  intro θ S T; simp only [hA θ S T]; ring

theorem MAffine.sumTo (m : ℕ) {g : ℕ → Mat ℝ → ℝ} (h : ∀ i < m, MAffine (g i)) :
    MAffine (fun S => sumTo m (fun i => g i S)) := by
  induction m with
  | zero => simpa [DK.sumTo] using mAffine_const 0
  | succ m ih =>
    simp only [DK.sumTo]
    exact (ih (fun i hi => h i (Nat.lt_succ_of_lt hi))).add (h m (Nat.lt_succ_self m))

theorem MAffine.listSum {β : Type} (l : List β) {g : β → Mat ℝ → ℝ} (h : ∀ x ∈ l, MAffine (g x)) :
    MAffine (fun S => (l.map (fun x => g x S)).sum) := by
  induction l with
  | nil => simpa using mAffine_const 0
  | cons c cs ih =>
    simp only [List.map_cons, List.sum_cons]
    exact (h c (by simp)).add (ih (fun d hd => h d (by simp [hd])))

theorem mAffine_colSum (R i : ℕ) : MAffine (fun S => colSum R S i) := by
  unfold colSum
  exact MAffine.sumTo R (fun r _ => mAffine_entry r i)

theorem mAffine_rowSetSum (rows : List ℕ) (i : ℕ) : MAffine (fun S => rowSetSum rows S i) := by
  simp only [rowSetSum_eq_sum]
  exact MAffine.listSum rows (g := fun r S => S r i) (fun r _ => mAffine_entry r i)

/-- an affine function of a row. -/
theorem IsAffine.comp_row {A : (ℕ → ℝ) → ℝ} (hA : IsAffine A) (r : ℕ) : MAffine (fun S => A (S r)) := by
  intro θ S T; exact hA θ (S r) (T r)

/-- an affine function of the column sum. -/
theorem IsAffine.comp_colSum {A : (ℕ → ℝ) → ℝ} (hA : IsAffine A) (k : ℕ) :
    MAffine (fun S => A (colSum k S)) := by
  intro θ S T
  show A (colSum k (mmix θ S T)) = _
  rw [colSum_mmix]; exact hA θ _ _

theorem MAffine.comp_shiftRows {A : Mat ℝ → ℝ} (hA : MAffine A) (off : ℕ) :
    MAffine (fun S => A (shiftRows off S)) := by
  intro θ S T; exact hA θ (shiftRows off S) (shiftRows off T)

theorem MAffine.mConvexOn {A : Mat ℝ → ℝ} (hA : MAffine A) (R n : ℕ) (bd : ℕ → ℕ → ℝ × ℝ) :
    MConvexOn R n bd A := fun S T _ _ θ _ _ => le_of_eq (hA θ S T)

/-! ## closure of `MConvexOn` -/

theorem MConvexOn.add {R n : ℕ} {bd : ℕ → ℕ → ℝ × ℝ} {f g : Mat ℝ → ℝ}
    (hf : MConvexOn R n bd f) (hg : MConvexOn R n bd g) : MConvexOn R n bd (fun S => f S + g S) := by
  intro S T hS hT θ h0 h1
  have := hf S T hS hT θ h0 h1
  have := hg S T hS hT θ h0 h1
  simp only
  linarith

theorem list_sum_chord {β : Type} (l : List β) (g g1 g2 : β → ℝ) (θ : ℝ)
    (h : ∀ x ∈ l, g x ≤ θ * g1 x + (1 - θ) * g2 x) :
    (l.map g).sum ≤ θ * (l.map g1).sum + (1 - θ) * (l.map g2).sum := by
  induction l with
  | nil => simp
  | cons c cs ih =>
    simp only [List.map_cons, List.sum_cons]
    have := h c (by simp)
    have := ih (fun d hd => h d (by simp [hd]))
    linarith

/-! ## the blocks of a tree see their own box -/

theorem mInBox_block (t : Tree ℝ) (pre : String) (n : ℕ) (x : String × ℕ × Block ℝ)
    (hx : x ∈ t.blocks pre 0) {S : Mat ℝ} (hS : MInBox t.rows n t.bounds S) :
    MInBox x.2.2.rows n x.2.2.bounds (shiftRows x.2.1 S) := by
  intro r hr i hi
  have hb := Tree.bounds_block_gen pre 0 x r i hr t hx (x.2.1 + r) (by simp)
  have hm := Tree.blocks_mem_bounds t pre 0 x hx
  have := hS (x.2.1 + r) (by omega) i hi
  rw [hb] at this
  exact this

/-- conversely: a matrix all of whose block slices are in the blocks' boxes is in the tree's box. -/
theorem mInBox_of_blocks (t : Tree ℝ) (pre : String) (n : ℕ) {S : Mat ℝ}
    (h : ∀ x ∈ t.blocks pre 0, MInBox x.2.2.rows n x.2.2.bounds (shiftRows x.2.1 S)) :
    MInBox t.rows n t.bounds S := by
  intro r hr i hi
  obtain ⟨x, hx, h1, h2⟩ := Tree.row_owner_gen pre 0 r t hr
  simp only [Nat.zero_add] at h1 h2
  have hb := Tree.bounds_block_gen pre 0 x (r - x.2.1) i (by omega) t hx r (by omega)
  have := h x hx (r - x.2.1) (by omega) i hi
  rw [hb]
  simpa [shiftRows, Nat.add_sub_cancel' h1] using this

/-! ## the executable integer power in `ABCCost` -/

/-- `ABCCost._cost` with an integer exponent `b ≥ 0` (the executable `ipow`), `a ≥ 0`, `c ≥ 0` is
convex on `[x_l, x_h]` (there `q ≥ 0`, and `q ↦ q^b` is convex on `[0, ∞)`). -/
theorem chordIcc_abcCost_ipow (a : ℝ) (b : ℤ) (c xl xh : ℝ) (ha : 0 ≤ a) (hb : 0 ≤ b) (hc : 0 ≤ c)
    (hx : xl ≤ xh) : ChordIcc xl xh (fun t => abcCost ipow t a b c xl xh) := by
  intro u v hu1 hu2 hv1 hv2 θ h0 h1
  by_cases hxe : xl = xh
  · simp [abcCost, hxe]
  · have hD : 0 < xh - xl := by
      rcases lt_or_eq_of_le hx with h | h
      · linarith
      · exact absurd h hxe
    have h1' : 0 ≤ 1 - θ := by linarith
    have hq : ∀ t, xl ≤ t → t ≤ xh → 0 ≤ abcQ t xl xh a := by
      intro t ht1 ht2
      unfold abcQ abcS
      have hs0 : 0 ≤ (xh - t) / (xh - xl) := div_nonneg (by linarith) hD.le
      have hs1 : (xh - t) / (xh - xl) ≤ 1 := by rw [div_le_one hD]; linarith
      have : 0 ≤ (1 - (xh - t) / (xh - xl)) * a := mul_nonneg (by linarith) ha
      linarith
    have haff : abcQ (θ * u + (1 - θ) * v) xl xh a = θ * abcQ u xl xh a + (1 - θ) * abcQ v xl xh a := by
      unfold abcQ abcS
      field_simp
      ring
    have hcv := (convexOn_pow (𝕜 := ℝ) b.toNat).2 (hq u hu1 hu2) (hq v hv1 hv2) h0 h1' (by ring)
    simp only [smul_eq_mul] at hcv
    simp only [abcCost, if_neg hxe, haff, ipow_of_nonneg _ b hb]
    have := mul_le_mul_of_nonneg_left hcv hc
    linarith

theorem idevice_ipow_convex (n : ℕ) (a : ℕ → ℝ) (b : ℕ → ℤ) (c lb hb p : ℕ → ℝ) (ha : ∀ k < n, 0 ≤ a k)
    (hb0 : ∀ k < n, 0 ≤ b k) (hc : ∀ k < n, 0 ≤ c k) (hb' : ∀ k < n, lb k ≤ hb k) :
    ConvexOnBox n lb hb (fun x => idevCost ipow n a b c lb hb x p) := by
  unfold idevCost
  exact (convexOnBox_slots n lb hb (φ := fun k t => abcCost ipow t (a k) (b k) (c k) (lb k) (hb k))
    (fun k hk => chordIcc_abcCost_ipow _ _ _ _ _ (ha k hk) (hb0 k hk) (hc k hk) (hb' k hk))).add
    ((isAffine_priceTerm n p).convexOnBox n lb hb)

/-! ## convex satisfaction sets -/

theorem holds_mix {isEq : Bool} {u v w θ : ℝ} (h0 : 0 ≤ θ) (h1 : θ ≤ 1) (hu : Holds isEq u) (hv : Holds isEq v)
    (hw : if isEq then w = θ * u + (1 - θ) * v else θ * u + (1 - θ) * v ≤ w) : Holds isEq w := by
  have h1' : 0 ≤ 1 - θ := by linarith
  cases isEq with
  | true =>
    simp only [Holds, if_true] at *
    rw [hw, hu, hv]; ring
  | false =>
    simp only [Holds, Bool.false_eq_true, if_false] at *
    have := mul_nonneg h0 hu
    have := mul_nonneg h1' hv
    linarith

theorem MCon.Affine.convexSat {c : MCon ℝ} (h : c.Affine) : c.ConvexSat := by
  intro S T θ h0 h1 hS hT
  rw [MCon.sat_iff_holds] at *
  refine holds_mix h0 h1 hS hT ?_
  have := h θ S T
  split_ifs
  · exact this
  · exact le_of_eq this.symm

theorem Con.Affine.convexSat {c : Con ℝ} (h : c.Affine) : c.ConvexSat := by
  intro x y θ h0 h1 hx hy
  rw [Con.sat_iff_holds] at *
  refine holds_mix h0 h1 hx hy ?_
  have := h θ x y
  split_ifs
  · exact this
  · exact le_of_eq this.symm

theorem Con.ConcaveIneq.convexSat {c : Con ℝ} (h : c.ConcaveIneq) : c.ConvexSat := by
  intro x y θ h0 h1 hx hy
  rw [Con.sat_iff_holds] at *
  rw [h.1] at *
  exact holds_mix h0 h1 hx hy (by simpa using h.2 x y θ h0 h1)

/-! ### the wrappers preserve affinity / convexity of the satisfaction set -/

theorem MCon.Affine.lift {c : MCon ℝ} (h : c.Affine) (off rows : ℕ) : (c.lift off rows).Affine :=
  MAffine.comp_shiftRows h off

theorem MCon.ConvexSat.lift {c : MCon ℝ} (h : c.ConvexSat) (off rows : ℕ) : (c.lift off rows).ConvexSat := by
  intro S T θ h0 h1 hS hT
  rw [MCon.lift_sat] at *
  rw [shiftRows_mmix]
  exact h _ _ θ h0 h1 hS hT

theorem Con.Affine.toM {c : Con ℝ} (h : c.Affine) : c.toM.Affine := IsAffine.comp_row h 0

theorem Con.ConvexSat.toM {c : Con ℝ} (h : c.ConvexSat) : c.toM.ConvexSat :=
  fun S T θ h0 h1 hS hT => h (S 0) (T 0) θ h0 h1 hS hT

theorem Con.Affine.overConduits {c : Con ℝ} (h : c.Affine) (k : ℕ) : (c.overConduits k).Affine :=
  IsAffine.comp_colSum h k

theorem Con.ConvexSat.overConduits {c : Con ℝ} (h : c.ConvexSat) (k : ℕ) : (c.overConduits k).ConvexSat := by
  intro S T θ h0 h1 hS hT
  rw [overConduits_sat] at *
  rw [colSum_mmix]
  exact h _ _ θ h0 h1 hS hT

/-! ### the shipped closures are affine -/

theorem sboundCons_affine (R : ℕ) (sb : ℕ → ℝ × ℝ) (i : ℕ) : ∀ c ∈ sboundCons R sb i, c.Affine := by
  intro c hc
  unfold sboundCons at hc
  split_ifs at hc
  · simp only [List.mem_singleton] at hc
    subst hc
    exact (mAffine_colSum R i).sub (mAffine_const _)
  · simp only [List.mem_cons, List.not_mem_nil, or_false] at hc
    rcases hc with rfl | rfl
    · exact (mAffine_colSum R i).sub (mAffine_const _)
    · exact (mAffine_const _).sub (mAffine_colSum R i)

theorem balanceCon_affine (isEq : Bool) (sign : ℝ) (rows : List ℕ) (i : ℕ) :
    (balanceCon isEq sign rows i).Affine :=
  (mAffine_rowSetSum rows i).const_mul sign

theorem ratioCon_affine (isEq : Bool) (r0 r1 : ℝ) (i : ℕ) : (ratioCon isEq r0 r1 i).Affine :=
  ((mAffine_entry 0 i).mul_const r0).sub ((mAffine_entry 1 i).mul_const r1)

theorem ownCons_affine (n R : ℕ) (own : NodeSpec ℝ) (labels : List String) :
    ∀ c ∈ ownCons n R own labels, c.Affine := by
  intro c hc
  unfold ownCons at hc
  rcases List.mem_append.1 hc with hc | hc
  · cases hsb : own.sbounds with
    | none => simp [hsb] at hc
    | some sb =>
      simp only [hsb, List.mem_flatMap] at hc
      obtain ⟨i, _, hi⟩ := hc
      exact sboundCons_affine R sb i c hi
  · obtain ⟨rows, _, hc⟩ := List.mem_flatMap.1 hc
    obtain ⟨i, _, rfl⟩ := List.mem_map.1 hc
    exact balanceCon_affine _ _ _ _

theorem isAffine_sliceSum (n s e : ℕ) : IsAffine (fun x => sliceSum n s e x) := by
  unfold sliceSum
  exact isAffine_sumRange s (min e n)

theorem cboundCons_affine (n : ℕ) (cb : CBound ℝ) : ∀ c ∈ cboundCons n cb, c.Affine := by
  intro c hc
  simp only [cboundCons, List.mem_cons, List.not_mem_nil, or_false] at hc
  rcases hc with rfl | rfl
  · exact (isAffine_sliceSum n cb.s cb.e).sub (isAffine_const _)
  · exact (isAffine_const _).sub (isAffine_sliceSum n cb.s cb.e)

theorem deviceCons_affine (n : ℕ) (cbs : List (CBound ℝ)) : ∀ c ∈ deviceCons n cbs, c.Affine := by
  intro c hc
  obtain ⟨cb, _, hc⟩ := List.mem_flatMap.1 hc
  exact cboundCons_affine n cb c hc

/-! ## storage: the state of charge the constraints compute -/

/-- `socDot` is concave in the flow for `0 < efficiency ≤ 1`, `sustainment ≥ 0`. -/
theorem socDot_concave (n : ℕ) (q : SParams ℝ) (he0 : 0 < q.efficiency) (he1 : q.efficiency ≤ 1)
    (hs : 0 ≤ q.sustainment) (i : ℕ) (x y : ℕ → ℝ) (θ : ℝ) (h0 : 0 ≤ θ) (h1 : θ ≤ 1) :
    θ * socDot n q x i + (1 - θ) * socDot n q y i ≤ socDot n q (mix θ x y) i := by
  unfold socDot
  have := sumTo_chord_le (m := n) (θ := θ)
    (a := fun j => effPow q.efficiency (x j) * x j * susW q.sustainment i j)
    (b := fun j => effPow q.efficiency (y j) * y j * susW q.sustainment i j)
    (c := fun j => effPow q.efficiency (mix θ x y j) * mix θ x y j * susW q.sustainment i j)
    (by
      intro j _
      have hw := susW_nonneg q.sustainment hs i j
      have hc := mul_le_mul_of_nonneg_right (effg_concave q.efficiency he0 he1 (x j) (y j) θ h0 h1) hw
      simp only [mix]
      nlinarith)
  linarith

/-- at efficiency `1` the state of charge is affine in the flow. -/
theorem socDot_affine (n : ℕ) (q : SParams ℝ) (he : q.efficiency = 1) (i : ℕ) :
    IsAffine (fun x => socDot n q x i) := by
  unfold socDot
  simp only [he, effPow_one, one_mul]
  exact (isAffine_const _).add (IsAffine.sumTo n (fun j _ => (isAffine_coord j).mul_const _))


/-! ## a property of every constraint of a tree, from its blocks -/

mutual
/-- if `p` holds for every constraint of every block, is preserved by `MCon.lift`, and holds for
every closure a node adds itself, then it holds for every constraint of the tree. -/
theorem Tree.cons_all (n : ℕ) (p : MCon ℝ → Prop) (hl : ∀ c off rows, p c → p (MCon.lift off rows c))
    (ho : ∀ R own labels, ∀ c ∈ ownCons n R own labels, p c) (pre : String) (off : ℕ) :
    (t : Tree ℝ) → (∀ x ∈ t.blocks pre off, ∀ c ∈ x.2.2.cons, p c) → ∀ c ∈ t.cons n, p c
  | .block b, h => fun c hc => h (pre, off, b) (by simp [Tree.blocks]) c (by simpa [Tree.cons] using hc)
  | .node id own cs, h => by
    intro c hc
    simp only [Tree.cons, List.mem_append] at hc
    simp only [Tree.blocks] at h
    rcases hc with hc | hc
    · exact consL_all n p hl ho (pre ++ id ++ ".") off 0 cs h c hc
    · exact ho _ _ _ c hc
theorem consL_all (n : ℕ) (p : MCon ℝ → Prop) (hl : ∀ c off rows, p c → p (MCon.lift off rows c))
    (ho : ∀ R own labels, ∀ c ∈ ownCons n R own labels, p c) (pre : String) (off k : ℕ) :
    (ts : List (Tree ℝ)) → (∀ x ∈ blocksL ts pre off, ∀ c ∈ x.2.2.cons, p c) → ∀ c ∈ consL n k ts, p c
  | [], _ => by simp [consL]
  | t :: ts, h => by
    intro c hc
    simp only [consL, List.mem_append, List.mem_map] at hc
    simp only [blocksL, List.forall_mem_append] at h
    rcases hc with ⟨c', hc', rfl⟩ | hc
    · exact hl _ _ _ (Tree.cons_all n p hl ho pre off t h.1 c' hc')
    · exact consL_all n p hl ho pre (off + t.rows) (k + t.rows) ts h.2 c hc
end

/-! ## a bound for finitely many nonnegative numbers -/

theorem le_sumTo_of_nonneg {n : ℕ} {f : ℕ → ℝ} (h : ∀ i < n, 0 ≤ f i) {i : ℕ} (hi : i < n) :
    f i ≤ sumTo n f := by
  induction n with
  | zero => omega
  | succ m ih =>
    simp only [DK.sumTo]
    have hm := h m (Nat.lt_succ_self m)
    have h' : ∀ j < m, 0 ≤ f j := fun j hj => h j (Nat.lt_succ_of_lt hj)
    by_cases him : i < m
    · have := ih h' him; linarith
    · have : i = m := by omega
      subst this
      have := sumTo_nonneg h'
      linarith

end DK
