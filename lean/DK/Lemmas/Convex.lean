import DK.Props.Defs
import DK.Lemmas.Sum
import DK.Lemmas.Soc
import DK.Lemmas.Calc
import Mathlib.Analysis.Convex.SpecificFunctions.Basic
import Mathlib.Tactic.Ring
import Mathlib.Tactic.Linarith
import Mathlib.Tactic.FieldSimp
import Mathlib.Tactic.Positivity
/-!
# Helper lemmas for C07: the elementary chord form of convexity over a bounds box

* `IsAffine A` : `A (mix θ x y) = θ A x + (1-θ) A y` (all `θ`);
* `ChordR φ` / `ChordIcc l h φ` : scalar chord inequality on `ℝ` / on `[l,h]`;
* closure lemmas for `ConvexOnBox` (sum, nonneg multiple, finite sums, slotwise sums, scalar ∘ affine);
* scalar facts: `hlqCost`, `c·q^b`, `c·(affine)²`, `(min u 0)²`, `r·e^{sign r}`.
-/
namespace DK

/-! ## mix / box -/

theorem mix_apply (θ : ℝ) (x y : ℕ → ℝ) (k : ℕ) : mix θ x y k = θ * x k + (1 - θ) * y k := rfl

theorem inBox_mix {n : ℕ} {lb hb x y : ℕ → ℝ} (hx : InBox n lb hb x) (hy : InBox n lb hb y)
    {θ : ℝ} (h0 : 0 ≤ θ) (h1 : θ ≤ 1) : InBox n lb hb (mix θ x y) := by
  intro k hk
  have h1' : 0 ≤ 1 - θ := by linarith
  obtain ⟨a1, a2⟩ := hx k hk
  obtain ⟨b1, b2⟩ := hy k hk
  have e1 := mul_le_mul_of_nonneg_left a1 h0
  have e2 := mul_le_mul_of_nonneg_left a2 h0
  have e3 := mul_le_mul_of_nonneg_left b1 h1'
  have e4 := mul_le_mul_of_nonneg_left b2 h1'
  simp only [mix]
  constructor <;> linarith

/-! ## affine functionals of the flow -/

/-- `A` commutes with `mix` (for every `θ`, not only `θ ∈ [0,1]`). -/
def IsAffine (A : (ℕ → ℝ) → ℝ) : Prop :=
  ∀ (θ : ℝ) (x y : ℕ → ℝ), A (mix θ x y) = θ * A x + (1 - θ) * A y

theorem isAffine_const (c : ℝ) : IsAffine (fun _ => c) := by
  intro θ x y; ring

theorem isAffine_coord (k : ℕ) : IsAffine (fun x => x k) := by
  intro θ x y; rfl

theorem IsAffine.add {A B : (ℕ → ℝ) → ℝ} (hA : IsAffine A) (hB : IsAffine B) :
    IsAffine (fun x => A x + B x) := by
  intro θ x y; simp only [hA θ x y, hB θ x y]; ring

theorem IsAffine.sub {A B : (ℕ → ℝ) → ℝ} (hA : IsAffine A) (hB : IsAffine B) :
    IsAffine (fun x => A x - B x) := by
  intro θ x y; simp only [hA θ x y, hB θ x y]; ring

theorem IsAffine.neg {A : (ℕ → ℝ) → ℝ} (hA : IsAffine A) : IsAffine (fun x => - A x) := by
  intro θ x y; simp only [hA θ x y]; ring

theorem IsAffine.const_mul {A : (ℕ → ℝ) → ℝ} (hA : IsAffine A) (c : ℝ) : IsAffine (fun x => c * A x) := by
  intro θ x y; simp only [hA θ x y]; ring

theorem IsAffine.mul_const {A : (ℕ → ℝ) → ℝ} (hA : IsAffine A) (c : ℝ) : IsAffine (fun x => A x * c) := by
  intro θ x y; simp only [hA θ x y]; ring

theorem IsAffine.div_const {A : (ℕ → ℝ) → ℝ} (hA : IsAffine A) (c : ℝ) : IsAffine (fun x => A x / c) := by
  intro θ x y; simp only [hA θ x y]; ring

theorem IsAffine.sumTo (m : ℕ) {g : ℕ → (ℕ → ℝ) → ℝ} (h : ∀ i < m, IsAffine (g i)) :
    IsAffine (fun x => sumTo m (fun i => g i x)) := by
  induction m with
  | zero => simpa [DK.sumTo] using isAffine_const 0
  | succ m ih =>
    simp only [DK.sumTo]
    exact (ih (fun i hi => h i (Nat.lt_succ_of_lt hi))).add (h m (Nat.lt_succ_self m))

theorem isAffine_sumTo (n : ℕ) : IsAffine (fun x => sumTo n x) :=
  IsAffine.sumTo n (fun i _ => isAffine_coord i)

theorem isAffine_sumRange (a b : ℕ) : IsAffine (fun x => sumRange a b x) := by
  unfold sumRange
  exact IsAffine.sumTo _ (fun i _ => isAffine_coord (a + i))

theorem isAffine_priceTerm (n : ℕ) (p : ℕ → ℝ) : IsAffine (fun x => priceTerm n x p) := by
  unfold priceTerm
  exact IsAffine.sumTo n (fun i _ => (isAffine_coord i).mul_const (p i))

/-! ## closure of `ConvexOnBox` -/

theorem IsAffine.convexOnBox {A : (ℕ → ℝ) → ℝ} (hA : IsAffine A) (n : ℕ) (lb hb : ℕ → ℝ) :
    ConvexOnBox n lb hb A := by
  intro x y _ _ θ _ _
  exact le_of_eq (hA θ x y)

theorem convexOnBox_const (n : ℕ) (lb hb : ℕ → ℝ) (c : ℝ) : ConvexOnBox n lb hb (fun _ => c) :=
  (isAffine_const c).convexOnBox n lb hb

theorem ConvexOnBox.add {n : ℕ} {lb hb : ℕ → ℝ} {f g : (ℕ → ℝ) → ℝ}
    (hf : ConvexOnBox n lb hb f) (hg : ConvexOnBox n lb hb g) :
    ConvexOnBox n lb hb (fun x => f x + g x) := by
  intro x y hx hy θ h0 h1
  have := hf x y hx hy θ h0 h1
  have := hg x y hx hy θ h0 h1
  simp only
  linarith

theorem ConvexOnBox.const_mul {n : ℕ} {lb hb : ℕ → ℝ} {f : (ℕ → ℝ) → ℝ}
    (hf : ConvexOnBox n lb hb f) {c : ℝ} (hc : 0 ≤ c) :
    ConvexOnBox n lb hb (fun x => c * f x) := by
  intro x y hx hy θ h0 h1
  have := mul_le_mul_of_nonneg_left (hf x y hx hy θ h0 h1) hc
  simp only
  linarith

theorem ConvexOnBox.sumTo {n : ℕ} {lb hb : ℕ → ℝ} (m : ℕ) {g : ℕ → (ℕ → ℝ) → ℝ}
    (h : ∀ i < m, ConvexOnBox n lb hb (g i)) :
    ConvexOnBox n lb hb (fun x => sumTo m (fun i => g i x)) := by
  induction m with
  | zero => simpa [DK.sumTo] using convexOnBox_const n lb hb 0
  | succ m ih =>
    simp only [DK.sumTo]
    exact (ih (fun i hi => h i (Nat.lt_succ_of_lt hi))).add (h m (Nat.lt_succ_self m))

theorem ConvexOnBox.listSum {n : ℕ} {lb hb : ℕ → ℝ} {β : Type} (l : List β) {g : β → (ℕ → ℝ) → ℝ}
    (h : ∀ c ∈ l, ConvexOnBox n lb hb (g c)) :
    ConvexOnBox n lb hb (fun x => (l.map (fun c => g c x)).sum) := by
  induction l with
  | nil => simpa using convexOnBox_const n lb hb 0
  | cons c cs ih =>
    simp only [List.map_cons, List.sum_cons]
    exact (h c (by simp)).add (ih (fun d hd => h d (by simp [hd])))

/-- scalar chord inequality on all of `ℝ`. -/
def ChordR (φ : ℝ → ℝ) : Prop :=
  ∀ (u v θ : ℝ), 0 ≤ θ → θ ≤ 1 → φ (θ * u + (1 - θ) * v) ≤ θ * φ u + (1 - θ) * φ v

/-- scalar chord inequality on `[l, h]`. -/
def ChordIcc (l h : ℝ) (φ : ℝ → ℝ) : Prop :=
  ∀ (u v : ℝ), l ≤ u → u ≤ h → l ≤ v → v ≤ h → ∀ θ : ℝ, 0 ≤ θ → θ ≤ 1 →
    φ (θ * u + (1 - θ) * v) ≤ θ * φ u + (1 - θ) * φ v

theorem ChordR.chordIcc {φ : ℝ → ℝ} (h : ChordR φ) (l hh : ℝ) : ChordIcc l hh φ :=
  fun u v _ _ _ _ θ h0 h1 => h u v θ h0 h1

theorem convexOnBox_comp_affine (n : ℕ) (lb hb : ℕ → ℝ) {A : (ℕ → ℝ) → ℝ} {φ : ℝ → ℝ}
    (hA : IsAffine A) (hφ : ChordR φ) : ConvexOnBox n lb hb (fun x => φ (A x)) := by
  intro x y _ _ θ h0 h1
  simp only [hA θ x y]
  exact hφ _ _ θ h0 h1

theorem convexOnBox_slot {n : ℕ} {lb hb : ℕ → ℝ} {k : ℕ} (hk : k < n) {φ : ℝ → ℝ}
    (hφ : ChordIcc (lb k) (hb k) φ) : ConvexOnBox n lb hb (fun x => φ (x k)) := by
  intro x y hx hy θ h0 h1
  exact hφ _ _ (hx k hk).1 (hx k hk).2 (hy k hk).1 (hy k hk).2 θ h0 h1

theorem convexOnBox_slots (n : ℕ) (lb hb : ℕ → ℝ) {φ : ℕ → ℝ → ℝ}
    (hφ : ∀ k < n, ChordIcc (lb k) (hb k) (φ k)) :
    ConvexOnBox n lb hb (fun x => sumTo n (fun k => φ k (x k))) :=
  ConvexOnBox.sumTo n (fun k hk => convexOnBox_slot hk (hφ k hk))

theorem ConvexOnBox.congr {n : ℕ} {lb hb : ℕ → ℝ} {f g : (ℕ → ℝ) → ℝ}
    (hf : ConvexOnBox n lb hb f) (h : ∀ x, g x = f x) : ConvexOnBox n lb hb g := by
  have : g = f := funext h
  rw [this]; exact hf

/-! ## scalar facts -/

/-- a nonneg multiple of the square of an affine scalar map is convex. -/
theorem chordR_sq_affine (c m k : ℝ) (hc : 0 ≤ c) : ChordR (fun t => c * ((m * t + k) * (m * t + k))) := by
  intro u v θ h0 h1
  have h1' : 0 ≤ 1 - θ := by linarith
  have key : θ * (c * ((m * u + k) * (m * u + k))) + (1 - θ) * (c * ((m * v + k) * (m * v + k)))
      - c * ((m * (θ * u + (1 - θ) * v) + k) * (m * (θ * u + (1 - θ) * v) + k))
      = c * (θ * (1 - θ)) * ((m * (u - v)) * (m * (u - v))) := by ring
  have : 0 ≤ c * (θ * (1 - θ)) * ((m * (u - v)) * (m * (u - v))) :=
    mul_nonneg (mul_nonneg hc (mul_nonneg h0 h1')) (mul_self_nonneg _)
  simp only
  linarith

/-- `HLQuadraticCost._cost` is convex on `ℝ` in its argument when `p_l ≤ p_h`, `x_l ≤ x_h`. -/
theorem chordR_hlqCost (pl ph xl xh : ℝ) (hp : pl ≤ ph) (hx : xl ≤ xh) :
    ChordR (fun t => hlqCost pl ph xl xh t) := by
  intro u v θ h0 h1
  by_cases hxe : xl = xh
  · simp [hlqCost, hxe]
  · have hD : 0 < xh - xl := by
      rcases lt_or_eq_of_le hx with h | h
      · linarith
      · exact absurd h hxe
    have h1' : 0 ≤ 1 - θ := by linarith
    simp only [hlqCost, if_neg hxe]
    generalize (if (ph - pl) / 2 = 0 then (0:ℝ) else _) = C
    have ha : 0 ≤ (ph - pl) / 2 := by linarith
    have key : θ * ((xh - xl) * ((ph - pl) / 2 * ((u - xl) / (xh - xl)) * ((u - xl) / (xh - xl)) + pl * ((u - xl) / (xh - xl))) - C * (xh - xl))
        + (1 - θ) * ((xh - xl) * ((ph - pl) / 2 * ((v - xl) / (xh - xl)) * ((v - xl) / (xh - xl)) + pl * ((v - xl) / (xh - xl))) - C * (xh - xl))
        - ((xh - xl) * ((ph - pl) / 2 * ((θ * u + (1 - θ) * v - xl) / (xh - xl)) * ((θ * u + (1 - θ) * v - xl) / (xh - xl)) + pl * ((θ * u + (1 - θ) * v - xl) / (xh - xl))) - C * (xh - xl))
        = (xh - xl) * ((ph - pl) / 2) * (θ * (1 - θ)) * (((u - v) / (xh - xl)) * ((u - v) / (xh - xl))) := by ring
    have : 0 ≤ (xh - xl) * ((ph - pl) / 2) * (θ * (1 - θ)) * (((u - v) / (xh - xl)) * ((u - v) / (xh - xl))) :=
      mul_nonneg (mul_nonneg (mul_nonneg hD.le ha) (mul_nonneg h0 h1')) (mul_self_nonneg _)
    linarith

/-- `ABCCost._cost` with a real exponent `b ≥ 1`, `a ≥ 0`, `c ≥ 0` is convex on `[x_l, x_h]`. -/
theorem chordIcc_abcCost_rpow (a b c xl xh : ℝ) (ha : 0 ≤ a) (hb : 1 ≤ b) (hc : 0 ≤ c) (hx : xl ≤ xh) :
    ChordIcc xl xh (fun t => abcCost Real.rpow t a b c xl xh) := by
  intro u v hu1 hu2 hv1 hv2 θ h0 h1
  by_cases hxe : xl = xh
  · simp [abcCost, hxe]
  · have hD : 0 < xh - xl := by
      rcases lt_or_eq_of_le hx with h | h
      · linarith
      · exact absurd h hxe
    have h1' : 0 ≤ 1 - θ := by linarith
    have hq : ∀ t, xl ≤ t → t ≤ xh → 0 ≤ abcQ t xl xh a := by
      intro t ht1 ht2
      unfold abcQ abcS
      have hs0 : 0 ≤ (xh - t) / (xh - xl) := div_nonneg (by linarith) hD.le
      have hs1 : (xh - t) / (xh - xl) ≤ 1 := by rw [div_le_one hD]; linarith
      have : 0 ≤ (1 - (xh - t) / (xh - xl)) * a := mul_nonneg (by linarith) ha
      linarith
    have haff : abcQ (θ * u + (1 - θ) * v) xl xh a = θ * abcQ u xl xh a + (1 - θ) * abcQ v xl xh a := by
      unfold abcQ abcS
      field_simp
      ring
    have hcv := (convexOn_rpow hb).2 (hq u hu1 hu2) (hq v hv1 hv2) h0 h1' (by ring)
    simp only [smul_eq_mul] at hcv
    simp only [abcCost, if_neg hxe, haff, Real.rpow_eq_pow]
    have := mul_le_mul_of_nonneg_left hcv hc
    linarith

/-- the thermal slot cost `c·((t_opt − t)/t_range)²` is convex in the temperature. -/
theorem chordR_tSlotCost (q : TParams ℝ) (i : ℕ) (hc : 0 ≤ q.c i) : ChordR (fun t => tSlotCost q t i) := by
  by_cases hxe : q.tOptimal - q.tRange = q.tOptimal
  · intro u v θ _ _
    simp [tSlotCost, abcCost, hxe]
  · have e : (fun t => tSlotCost q t i) = fun t => q.c i *
        (((-1 / (q.tOptimal - (q.tOptimal - q.tRange))) * t + q.tOptimal / (q.tOptimal - (q.tOptimal - q.tRange))) *
         ((-1 / (q.tOptimal - (q.tOptimal - q.tRange))) * t + q.tOptimal / (q.tOptimal - (q.tOptimal - q.tRange)))) := by
      funext t
      simp only [tSlotCost, abcCost, if_neg hxe, ipow_two, abcQ, abcS]
      ring
    rw [e]
    exact chordR_sq_affine _ _ _ hc

/-! ## storage: efficiency factor, state of charge, shortfall -/

theorem effg_le_mul (e r : ℝ) (he0 : 0 < e) (he1 : e ≤ 1) : r * effPow e r ≤ e * r := by
  unfold effPow
  split_ifs with h1 h2
  · linarith
  · rw [mul_one_div, div_le_iff₀ he0]; nlinarith [mul_nonneg (le_of_lt (neg_pos.mpr h2)) (sub_nonneg.mpr he1), mul_pos he0 he0]
  · have : r = 0 := le_antisymm (not_lt.mp h1) (not_lt.mp h2)
    subst this; simp

theorem effg_le_div (e r : ℝ) (he0 : 0 < e) (he1 : e ≤ 1) : r * effPow e r ≤ r / e := by
  unfold effPow
  split_ifs with h1 h2
  · rw [le_div_iff₀ he0]; nlinarith [mul_nonneg h1.le (sub_nonneg.mpr he1), mul_pos he0 he0]
  · rw [mul_one_div]
  · have : r = 0 := le_antisymm (not_lt.mp h1) (not_lt.mp h2)
    subst this; simp

theorem effg_eq (e r : ℝ) : r * effPow e r = e * r ∨ r * effPow e r = r / e := by
  unfold effPow
  split_ifs with h1 h2
  · left; ring
  · right; ring
  · have : r = 0 := le_antisymm (not_lt.mp h1) (not_lt.mp h2)
    subst this; left; simp

/-- `r ↦ r·e^{sign r}` is concave for `0 < e ≤ 1` (it is `min (e r) (r / e)`). -/
theorem effg_concave (e : ℝ) (he0 : 0 < e) (he1 : e ≤ 1) (u v θ : ℝ) (h0 : 0 ≤ θ) (h1 : θ ≤ 1) :
    θ * (u * effPow e u) + (1 - θ) * (v * effPow e v)
      ≤ (θ * u + (1 - θ) * v) * effPow e (θ * u + (1 - θ) * v) := by
  have h1' : 0 ≤ 1 - θ := by linarith
  rcases effg_eq e (θ * u + (1 - θ) * v) with h | h
  · rw [h]
    have a := mul_le_mul_of_nonneg_left (effg_le_mul e u he0 he1) h0
    have b := mul_le_mul_of_nonneg_left (effg_le_mul e v he0 he1) h1'
    nlinarith
  · rw [h]
    have a := mul_le_mul_of_nonneg_left (effg_le_div e u he0 he1) h0
    have b := mul_le_mul_of_nonneg_left (effg_le_div e v he0 he1) h1'
    have : (θ * u + (1 - θ) * v) / e = θ * (u / e) + (1 - θ) * (v / e) := by ring
    rw [this]; linarith

theorem susW_nonneg (sus : ℝ) (hs : 0 ≤ sus) (i j : ℕ) : 0 ≤ susW sus i j := by
  unfold susW
  split_ifs
  · rw [npow_eq_pow]; exact pow_nonneg hs _
  · exact le_refl _

theorem sumTo_chord_le {m : ℕ} {a b c : ℕ → ℝ} {θ : ℝ}
    (h : ∀ j < m, θ * a j + (1 - θ) * b j ≤ c j) :
    θ * sumTo m a + (1 - θ) * sumTo m b ≤ sumTo m c := by
  have := sumTo_le h
  simpa only [sumTo_add, sumTo_mul_left] using this

/-- the state of charge (minus any constant) is concave in the flow. -/
theorem chargeAt_concave (q : SParams ℝ) (he0 : 0 < q.efficiency) (he1 : q.efficiency ≤ 1)
    (hs : 0 ≤ q.sustainment) (i : ℕ) (x y : ℕ → ℝ) (θ : ℝ) (h0 : 0 ≤ θ) (h1 : θ ≤ 1) :
    θ * chargeAt q x i + (1 - θ) * chargeAt q y i ≤ chargeAt q (mix θ x y) i := by
  unfold chargeAt soc
  have := sumTo_chord_le (m := i + 1) (θ := θ)
    (a := fun j => x j * effPow q.efficiency (x j) * susW q.sustainment i j)
    (b := fun j => y j * effPow q.efficiency (y j) * susW q.sustainment i j)
    (c := fun j => mix θ x y j * effPow q.efficiency (mix θ x y j) * susW q.sustainment i j)
    (by
      intro j _
      have hw := susW_nonneg q.sustainment hs i j
      have hc := mul_le_mul_of_nonneg_right (effg_concave q.efficiency he0 he1 (x j) (y j) θ h0 h1) hw
      simp only [mix]
      linarith)
  linarith

theorem minZero_nonpos (u : ℝ) : minZero u ≤ 0 := by
  unfold minZero; split_ifs with h <;> linarith

theorem minZero_mono {u v : ℝ} (h : u ≤ v) : minZero u ≤ minZero v := by
  unfold minZero; split_ifs <;> linarith

theorem minZero_concave (u v θ : ℝ) (h0 : 0 ≤ θ) (h1 : θ ≤ 1) :
    θ * minZero u + (1 - θ) * minZero v ≤ minZero (θ * u + (1 - θ) * v) := by
  have h1' : 0 ≤ 1 - θ := by linarith
  have a1 : minZero u ≤ u := by unfold minZero; split_ifs <;> linarith
  have a2 : minZero v ≤ v := by unfold minZero; split_ifs <;> linarith
  have b1 := minZero_nonpos u
  have b2 := minZero_nonpos v
  have c1 := mul_le_mul_of_nonneg_left a1 h0
  have c2 := mul_le_mul_of_nonneg_left a2 h1'
  have d1 := mul_nonneg h0 (neg_nonneg.mpr b1)
  have d2 := mul_nonneg h1' (neg_nonneg.mpr b2)
  unfold minZero at *
  split_ifs at * <;> linarith

/-- (convex, non-increasing `(min · 0)²`) ∘ (concave) : the chord inequality from the concavity bound. -/
theorem minZeroSq_of_concave {A B U θ : ℝ} (h0 : 0 ≤ θ) (h1 : θ ≤ 1) (hU : θ * A + (1 - θ) * B ≤ U) :
    minZero U * minZero U ≤ θ * (minZero A * minZero A) + (1 - θ) * (minZero B * minZero B) := by
  have h1' : 0 ≤ 1 - θ := by linarith
  have m1 := minZero_mono hU
  have m2 := minZero_concave A B θ h0 h1
  have hle : θ * minZero A + (1 - θ) * minZero B ≤ minZero U := le_trans m2 m1
  have hU0 := minZero_nonpos U
  -- a ≤ b ≤ 0 ⇒ b² ≤ a²
  have s1 : minZero U * minZero U ≤ (θ * minZero A + (1 - θ) * minZero B) * (θ * minZero A + (1 - θ) * minZero B) := by
    nlinarith
  have s2 : (θ * minZero A + (1 - θ) * minZero B) * (θ * minZero A + (1 - θ) * minZero B)
      ≤ θ * (minZero A * minZero A) + (1 - θ) * (minZero B * minZero B) := by
    have : θ * (minZero A * minZero A) + (1 - θ) * (minZero B * minZero B)
        - (θ * minZero A + (1 - θ) * minZero B) * (θ * minZero A + (1 - θ) * minZero B)
        = θ * (1 - θ) * ((minZero A - minZero B) * (minZero A - minZero B)) := by ring
    have := mul_nonneg (mul_nonneg h0 h1') (mul_self_nonneg (minZero A - minZero B))
    linarith
  linarith

theorem shortfallSq_convex (n : ℕ) (lb hb : ℕ → ℝ) (q : SParams ℝ) (he0 : 0 < q.efficiency)
    (he1 : q.efficiency ≤ 1) (hs : 0 ≤ q.sustainment) (i : ℕ) :
    ConvexOnBox n lb hb (fun x => shortfall q x i * shortfall q x i) := by
  intro x y _ _ θ h0 h1
  unfold shortfall
  apply minZeroSq_of_concave h0 h1
  have := chargeAt_concave q he0 he1 hs i x y θ h0 h1
  linarith

/-! ## storage: the rate + flip-flop quadratic form -/

theorem sdev_quad_nonneg (n : ℕ) (c1 c2 : ℝ) (h2 : 0 ≤ c2) (h12 : c2 ≤ c1) (z : ℕ → ℝ) :
    ∀ m, m ≤ n → 0 ≤ sumTo m (fun i => c1 * (z i * z i)
        + (if i + 1 < n then c2 * (-1 : ℝ) * (z i * z (i + 1)) else 0))
      + (if m < n then c2 / 2 * (z m * z m) else 0) := by
  intro m
  induction m with
  | zero =>
    intro _
    simp only [sumTo]
    split_ifs
    · have := mul_nonneg (by linarith : (0:ℝ) ≤ c2 / 2) (mul_self_nonneg (z 0)); linarith
    · linarith
  | succ m ih =>
    intro hm
    have hm' : m < n := by omega
    have := ih (by omega)
    rw [if_pos hm'] at this
    simp only [sumTo]
    have q1 := mul_nonneg (sub_nonneg.mpr h12) (mul_self_nonneg (z m))
    have q2 := mul_nonneg (by linarith : (0:ℝ) ≤ c2 / 2) (mul_self_nonneg (z m - z (m + 1)))
    have q3 := mul_nonneg (by linarith : (0:ℝ) ≤ c2 / 2) (mul_self_nonneg (z m))
    split_ifs <;> nlinarith

theorem sdev_quad_convex (n : ℕ) (c1 c2 : ℝ) (lb hb : ℕ → ℝ) (h2 : 0 ≤ c2) (h12 : c2 ≤ c1) :
    ConvexOnBox n lb hb (fun r => sumTo n (fun i => c1 * (r i * r i)
      + (if i + 1 < n then c2 * (-1 : ℝ) * (r i * r (i + 1)) else 0))) := by
  intro x y _ _ θ h0 h1
  have h1' : 0 ≤ 1 - θ := by linarith
  have e : sumTo n (fun i => c1 * (mix θ x y i * mix θ x y i)
        + (if i + 1 < n then c2 * (-1 : ℝ) * (mix θ x y i * mix θ x y (i + 1)) else 0))
      = sumTo n (fun i => (θ * (c1 * (x i * x i) + (if i + 1 < n then c2 * (-1 : ℝ) * (x i * x (i + 1)) else 0))
          + (1 - θ) * (c1 * (y i * y i) + (if i + 1 < n then c2 * (-1 : ℝ) * (y i * y (i + 1)) else 0)))
          - (θ * (1 - θ)) * (c1 * ((x i - y i) * (x i - y i))
              + (if i + 1 < n then c2 * (-1 : ℝ) * ((x i - y i) * (x (i + 1) - y (i + 1))) else 0))) := by
    apply sumTo_congr
    intro i _
    simp only [mix]
    split_ifs <;> ring
  have nn := sdev_quad_nonneg n c1 c2 h2 h12 (fun i => x i - y i) n (le_refl n)
  simp only [lt_irrefl, if_false, add_zero] at nn
  have := mul_nonneg (mul_nonneg h0 h1') nn
  simp only
  rw [e, sumTo_sub, sumTo_add, sumTo_mul_left, sumTo_mul_left, sumTo_mul_left]
  linarith

/-! ## thermal: the temperature is affine in the flow -/

theorem isAffine_r2t (q : TParams ℝ) (i : ℕ) : IsAffine (fun x => r2t q x i) := by
  unfold r2t soc
  simp only [effPow_one, mul_one]
  exact (isAffine_const _).add
    ((IsAffine.sumTo (i + 1) (fun j _ => (isAffine_coord j).mul_const _)).const_mul _)

end DK
