import DK.Props.Defs
import DK.Lemmas.Calc
import DK.Lemmas.Soc
/-!
# Helper lemmas for C06 (constraint Jacobians)

* an *exactly affine* function (`f x' − f x = Σ g_k (x'_k − x_k)` for all `x'`) has gradient `g`
  (vector and matrix versions);
* `y ↦ effPow e y · y` (the lossy charge/discharge scaling) is differentiable away from `y = 0`,
  and everywhere when `e = 1`;
* column sums are linear; double sums over a tiled Jacobian.
-/
namespace DK.ConsJac
open DK

/-! ## affine ⇒ gradient -/

theorem hasDerivAt_affine (a c : ℝ) : HasDerivAt (fun τ : ℝ => a + τ * c) c 0 := by
  have h := ((hasDerivAt_id (0:ℝ)).mul_const c).const_add a
  refine HasDerivAt.congr_deriv h ?_
  ring

/-- a function whose increments from `x` are *exactly* `Σ_{k<n} g k · (x' k − x k)` has gradient `g` at `x`. -/
theorem isGradAt_of_affine (n : ℕ) (f : (ℕ → ℝ) → ℝ) (g x : ℕ → ℝ)
    (h : ∀ x', f x' - f x = sumTo n (fun k => g k * (x' k - x k))) : IsGradAt n f g x := by
  intro d
  have e : (fun τ => f (line x d τ)) = fun τ => f x + τ * sumTo n (fun k => g k * d k) := by
    funext τ
    have := h (line x d τ)
    rw [← sumTo_mul_left]
    have e2 : sumTo n (fun k => g k * (line x d τ k - x k)) = sumTo n (fun i => τ * (g i * d i)) :=
      sumTo_congr (fun k _ => by simp only [line]; ring)
    linarith
  rw [e]
  exact hasDerivAt_affine _ _

/-- matrix version. -/
theorem isMGradAt_of_affine (R n : ℕ) (f : Mat ℝ → ℝ) (J : ℕ → ℕ → ℝ) (S : Mat ℝ)
    (h : ∀ S', f S' - f S = sumTo R (fun r => sumTo n (fun i => J r i * (S' r i - S r i)))) :
    IsMGradAt R n f J S := by
  intro D
  have e : (fun τ => f (fun r i => S r i + τ * D r i)) =
      fun τ => f S + τ * sumTo R (fun r => sumTo n (fun i => J r i * D r i)) := by
    funext τ
    have := h (fun r i => S r i + τ * D r i)
    have e2 : sumTo R (fun r => sumTo n (fun i => J r i * (S r i + τ * D r i - S r i))) =
        τ * sumTo R (fun r => sumTo n (fun i => J r i * D r i)) := by
      rw [← sumTo_mul_left]
      refine sumTo_congr (fun r _ => ?_)
      rw [← sumTo_mul_left]
      exact sumTo_congr (fun i _ => by ring)
    linarith
  rw [e]
  exact hasDerivAt_affine _ _

/-! ## the lossy scaling `effPow e y · y` -/

/-- away from the charge/discharge kink (or with `e = 1`, where there is none) the scaled flow
`effPow e y · y` has derivative `effPow e y`. -/
theorem effPow_mul_hasDerivAt (e y : ℝ) (h : e = 1 ∨ y ≠ 0) :
    HasDerivAt (fun z => effPow e z * z) (effPow e y) y := by
  rcases h with rfl | hy
  · simp only [effPow_one, one_mul]
    exact hasDerivAt_id y
  · rcases lt_or_gt_of_ne hy with hneg | hpos
    · have h1 : HasDerivAt (fun z : ℝ => (1 / e) * z) (1 / e) y := by
        simpa using (hasDerivAt_id y).const_mul (1 / e)
      have : (fun z => effPow e z * z) =ᶠ[nhds y] (fun z => (1 / e) * z) := by
        filter_upwards [Iio_mem_nhds hneg] with z hz
        have hz' : z < 0 := hz
        rw [effPow_of_neg e hz']
      rw [effPow_of_neg e hneg]
      exact h1.congr_of_eventuallyEq this
    · have h1 : HasDerivAt (fun z : ℝ => e * z) e y := by
        simpa using (hasDerivAt_id y).const_mul e
      have : (fun z => effPow e z * z) =ᶠ[nhds y] (fun z => e * z) := by
        filter_upwards [Ioi_mem_nhds hpos] with z hz
        have hz' : 0 < z := hz
        rw [effPow_of_pos e hz']
      rw [effPow_of_pos e hpos]
      exact h1.congr_of_eventuallyEq this

/-- the state of charge the storage constraints compute has the supplied Jacobian row as gradient,
at every flow away from the kink. -/
theorem socDot_isGradAt (n : ℕ) (q : SParams ℝ) (x : ℕ → ℝ) (i : ℕ)
    (hk : q.efficiency = 1 ∨ ∀ k < n, x k ≠ 0) :
    IsGradAt n (fun r => socDot n q r i) (fun j => socJac q x i j) x := by
  intro d
  unfold socDot socJac
  have h := sumTo_comp_line_hasDerivAt n
    (fun j z => effPow q.efficiency z * z * susW q.sustainment i j)
    (fun j => effPow q.efficiency (x j) * susW q.sustainment i j) x d
    (fun k hk' => by
      have hk'' : q.efficiency = 1 ∨ x k ≠ 0 := hk.imp id (fun h => h k hk')
      exact (effPow_mul_hasDerivAt q.efficiency (x k) hk'').mul_const _)
  exact h.const_add _

/-- exact increment of the state of charge between two flows with the same charge/discharge pattern. -/
theorem socDot_affine (n : ℕ) (q : SParams ℝ) (x x' : ℕ → ℝ) (i : ℕ)
    (hs : ∀ k < n, effPow q.efficiency (x' k) = effPow q.efficiency (x k)) :
    socDot n q x' i - socDot n q x i = sumTo n (fun j => socJac q x i j * (x' j - x j)) := by
  unfold socDot socJac
  have : sumTo n (fun j => effPow q.efficiency (x' j) * x' j * susW q.sustainment i j) =
      sumTo n (fun j => effPow q.efficiency (x j) * x' j * susW q.sustainment i j) :=
    sumTo_congr (fun j hj => by rw [hs j hj])
  rw [this, add_sub_add_left_eq_sub, ← sumTo_sub]
  exact sumTo_congr (fun j _ => by ring)

/-! ## column sums -/

theorem colSum_line (k : ℕ) (S D : Mat ℝ) (τ : ℝ) :
    colSum k (fun r i => S r i + τ * D r i) = line (colSum k S) (colSum k D) τ := by
  funext i
  simp only [colSum, line]
  rw [sumTo_add, sumTo_mul_left]

theorem colSum_sub (k : ℕ) (S S' : Mat ℝ) (i : ℕ) :
    colSum k S' i - colSum k S i = sumTo k (fun r => S' r i - S r i) := by
  simp only [colSum]; rw [sumTo_sub]

/-- a Jacobian row tiled over `k` conduits, against a direction matrix. -/
theorem tile_sum (k n : ℕ) (g : ℕ → ℝ) (D : Mat ℝ) :
    sumTo n (fun i => g i * colSum k D i) =
      sumTo k (fun r => sumTo n (fun i => (if r < k then g i else 0) * D r i)) := by
  have : sumTo k (fun r => sumTo n (fun i => (if r < k then g i else 0) * D r i)) =
      sumTo k (fun r => sumTo n (fun i => g i * D r i)) :=
    sumTo_congr (fun r hr => sumTo_congr (fun i _ => by rw [if_pos hr]))
  rw [this, sumTo_comm]
  refine sumTo_congr (fun i _ => ?_)
  simp only [colSum]
  rw [sumTo_mul_left]

/-- a double sum with a single non-zero column `i`. -/
theorem sum_col (R n i : ℕ) (hi : i < n) (v : ℕ → ℝ) (D : Mat ℝ) :
    sumTo R (fun r => sumTo n (fun k => (if k = i then v r else 0) * D r k)) = sumTo R (fun r => v r * D r i) := by
  refine sumTo_congr (fun r _ => ?_)
  have : sumTo n (fun k => (if k = i then v r else 0) * D r k) = sumTo n (fun k => if k = i then v r * D r k else 0) :=
    sumTo_congr (fun k _ => by split_ifs <;> ring)
  rw [this, sumTo_single n i hi (fun k => v r * D r k)]

theorem sumTo_one (f : ℕ → ℝ) : sumTo 1 f = f 0 := by simp [sumTo]

end DK.ConsJac
