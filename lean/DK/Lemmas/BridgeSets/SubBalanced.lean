import DK.Gen.Sets.SubBalanced
import DK.Lemmas.BridgeSets.Cons
import Mathlib.Algebra.BigOperators.Group.Finset.Basic
/-!
# BridgeSets.SubBalanced — `SubBalancedDeviceSet.constraints` (C04)

Part of the T1s tie (see `DK/Lemmas/BridgeSets.lean`).  After the inherited `DeviceSet` list, one closure per row set
(the labelled sets, then the unlabelled rest when `apply_to_remaining`) and per slot: `sign * (column · indicator).sum()`,
of type `constraint_type`, without Jacobian — the model's `balanceCon`.  The code sums the column against a 0/1
indicator vector (`col_jac[labelled_set] = 1`), the model sums over the row list: equal when the list has no repeated
row and stays below the row count, which is how `_labelled_sets` builds it (`[k for k, v in enumerate(…) if …]`).
-/
set_option linter.unusedSimpArgs false
set_option linter.unnecessarySeqFocus false
set_option linter.unusedTactic false
set_option linter.unreachableTactic false
set_option linter.unusedVariables false
set_option linter.unusedSectionVars false
namespace DK.BridgeSets
open DK Finset
variable (n : ℕ) (bp : ℕ → Block ℝ → Mat ℝ → Mat ℝ) (hs : Tree ℝ → Mat ℝ → Mat ℝ → ℕ → ℕ → ℝ)

/-- a column summed against the 0/1 indicator of a duplicate-free, in-range row list is the sum over the list -/
theorem sumTo_indicator (R : ℕ) (rows : List ℕ) (hnd : rows.Nodup) (hb : ∀ r ∈ rows, r < R) (f : ℕ → ℝ) :
    sumTo R (fun k => f k * (if rows.contains k then (1 : ℝ) else 0)) = (rows.map f).foldl (· + ·) 0 := by
  rw [sumTo_eq_sum, foldl_add_eq_sum, zero_add]
  have h1 : ∀ k, f k * (if rows.contains k then (1 : ℝ) else 0) = if k ∈ rows then f k else 0 := by
    intro k; by_cases h : k ∈ rows <;> simp [h]
  simp only [h1]
  rw [← Finset.sum_filter]
  have h2 : (Finset.range R).filter (fun k => k ∈ rows) = rows.toFinset := by
    ext k; simp only [mem_filter, mem_range, List.mem_toFinset]
    exact ⟨fun h => h.2, fun h => ⟨hb k h, h⟩⟩
  rw [h2, List.sum_toFinset f hnd]

theorem balance_eq (R : ℕ) (e : Bool) (σ : ℝ) (rows : List ℕ) (i : ℕ) (hnd : rows.Nodup) (hb : ∀ r ∈ rows, r < R)
    (fn : Mat ℝ → ℝ) (h : ∀ S, fn S = σ * sumTo R (fun k => S k i * (if rows.contains k then (1 : ℝ) else 0))) :
    ({ isEq := e, fn := fn, jac := none } : MCon ℝ) = balanceCon e σ rows i := by
  unfold balanceCon rowSetSum
  congr 1
  funext S
  rw [h S, sumTo_indicator R rows hnd hb (fun k => S k i)]

theorem SubBalancedDeviceSet_constraints (abs : ℕ) (cs : List (Tree ℝ)) (sb : Option (ℕ → ℝ × ℝ))
    (lsets : List (List ℕ)) (unl : List ℕ) (atr e : Bool) (σ : ℝ)
    (hrows : ∀ rows ∈ lsets ++ (if atr = true then [unl] else []), rows.Nodup ∧ ∀ r ∈ rows, r < rowsL cs) :
    Gen.SubBalancedDeviceSet_constraints n (kids n bp hs abs cs) sb lsets unl atr e σ
      = (consL n 0 cs ++ (match sb with
                          | some sb => (List.range n).flatMap (sboundCons (rowsL cs) sb)
                          | none => []))
        ++ (lsets ++ (if atr = true then [unl] else [])).flatMap
             (fun rows => (List.range n).map (balanceCon e σ rows)) := by
  unfold Gen.SubBalancedDeviceSet_constraints
  simp only [DeviceSet_constraints, DeviceSet_shape, flatMap_single]
  congr 1
  apply List.flatMap_congr
  intro rows hmem
  obtain ⟨hnd, hb⟩ := hrows rows hmem
  apply List.map_congr_left
  intro i _
  apply balance_eq (rowsL cs) e σ rows i hnd hb
  intro S
  first | rfl | ring1 | (congr 1; apply sumTo_congr; intro k _; ring1) | (simp only [sumTo_eq_sum, Finset.mul_sum]; apply Finset.sum_congr rfl; intro k _; ring1) | (simp only [sumTo_eq_sum, mul_comm, mul_left_comm, mul_assoc] <;> ring1)

/-- the whole constraint list of a `SubBalancedDeviceSet` node: `labelled_sets` / `unlabelled_set` as `_labelled_sets`
computes them from the leaf labels relative to the node -/
theorem SubBalancedDeviceSet_constraints_node (abs : ℕ) (id : String) (cs : List (Tree ℝ)) (own : NodeSpec ℝ)
    (hrows : ∀ rows ∈ own.labels.map (labelledRows (labelsL cs (id ++ "."))) ++
                (if own.applyToRemaining = true then [unlabelledRows (labelsL cs (id ++ ".")) own.labels] else []),
              rows.Nodup ∧ ∀ r ∈ rows, r < rowsL cs) :
    Gen.SubBalancedDeviceSet_constraints n (kids n bp hs abs cs) own.sbounds
        (own.labels.map (labelledRows (labelsL cs (id ++ ".")))) (unlabelledRows (labelsL cs (id ++ ".")) own.labels)
        own.applyToRemaining own.balEq own.sign
      = Tree.cons n (.node id own cs) := by
  rw [SubBalancedDeviceSet_constraints n bp hs abs cs own.sbounds _ _ _ _ _ hrows, Tree.cons, ownCons, List.append_assoc]
  congr 1
  cases own.sbounds <;> rfl

end DK.BridgeSets
