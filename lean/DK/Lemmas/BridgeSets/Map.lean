import DK.Gen.Sets.Map
import DK.Lemmas.BridgeSets.Basic
/-!
# BridgeSets.Map — `BaseDevice.map` (C13)

Part of the T1s tie (see `DK/Lemmas/BridgeSets.lean`).  `map` pairs the k-th qualified leaf id with row k of the flow
matrix: the model's `Tree.mapRows`.  The list of `(qualified id, leaf)` pairs (`leaf_devices()`: a generator recursion
driven by try/except, outside the subset) is a parameter.
-/
set_option linter.unusedSimpArgs false
set_option linter.unnecessarySeqFocus false
set_option linter.unusedTactic false
set_option linter.unreachableTactic false
set_option linter.unusedVariables false
set_option linter.unusedSectionVars false
namespace DK.BridgeSets
open DK

theorem zip_swap_map {β δ : Type} (f : String → β) (g1 : ℕ × β → δ) (g2 : String × ℕ → δ)
    (h : ∀ l k, g1 (k, f l) = g2 (l, k)) :
    ∀ (L : List String) (A : List ℕ), (List.zip A (L.map f)).map g1 = (List.zip L A).map g2 := by
  intro L
  induction L with
  | nil => intro A; cases A <;> simp
  | cons l L ih => intro A; cases A with
    | nil => simp
    | cons a A => simp [h, ih]

theorem BaseDevice_map (n : ℕ) (c0 : Gen.Child ℝ) (L : List String) (R : ℕ) (S : Mat ℝ) :
    Gen.BaseDevice_map n (L.map (fun l => (l, c0))) R S = L.zipIdx.map (fun lk => (lk.1, S lk.2)) := by
  unfold Gen.BaseDevice_map
  rw [flatMap_single, List.length_map, List.zipIdx_eq_zip_range', ← List.range_eq_range']
  exact zip_swap_map (fun l => (l, c0)) _ _ (by intro l k; first | rfl | (simp; done)) L (List.range L.length)

/-- for the leaves of a tree: the model's `mapRows` -/
theorem BaseDevice_map_tree (n : ℕ) (c0 : Gen.Child ℝ) (t : Tree ℝ) (S : Mat ℝ) :
    Gen.BaseDevice_map n ((t.labels "").map (fun l => (l, c0))) t.rows S = t.mapRows S := by
  rw [BaseDevice_map]; rfl

end DK.BridgeSets
