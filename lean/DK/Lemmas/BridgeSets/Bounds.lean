import DK.Gen.Sets.Bounds
import DK.Lemmas.BridgeSets.Shape
/-!
# BridgeSets.Bounds — `DeviceSet.bounds` (concatenation of the children's flat tables) and `DeviceSet.project`
(vstack of the children's projections of their blocks) (C02, C18)

Part of the T1s tie (see `DK/Lemmas/BridgeSets.lean`).
-/
set_option linter.unusedSimpArgs false
set_option linter.unnecessarySeqFocus false
set_option linter.unusedTactic false
set_option linter.unreachableTactic false
set_option linter.unusedVariables false
set_option linter.unusedSectionVars false
namespace DK.BridgeSets
open DK
variable (n : ℕ) (bp : ℕ → Block ℝ → Mat ℝ → Mat ℝ) (hs : Tree ℝ → Mat ℝ → Mat ℝ → ℕ → ℕ → ℝ)

theorem flat_div (hn : 0 < n) (r i : ℕ) (hi : i < n) : (r * n + i) / n = r := by
  rw [Nat.add_comm, Nat.add_mul_div_right _ _ hn, Nat.div_eq_of_lt hi, Nat.zero_add]

theorem flat_mod (r i : ℕ) (hi : i < n) : (r * n + i) % n = i := by
  rw [Nat.add_comm, Nat.add_mul_mod_self_right, Nat.mod_eq_of_lt hi]

theorem flat_lt (r i R : ℕ) (hi : i < n) : r * n + i < R * n ↔ r < R := by
  constructor
  · intro h
    by_contra hc
    have : R * n ≤ r * n := Nat.mul_le_mul_right n (Nat.le_of_not_lt hc)
    omega
  · intro h
    have : (r + 1) * n ≤ R * n := Nat.mul_le_mul_right n h
    rw [Nat.add_mul] at this
    omega

theorem flat_sub (r i R : ℕ) (h : R ≤ r) : r * n + i - R * n = (r - R) * n + i := by
  have h1 : R * n ≤ r * n := Nat.mul_le_mul_right n h
  rw [Nat.sub_mul]; omega

/-- entry `(row r, slot i)` of the concatenated `(R·n, 2)` bounds table is the bound of the child that owns row `r` -/
theorem DeviceSet_bounds (hn : 0 < n) (cs : List (Tree ℝ)) (sb : Option (ℕ → ℝ × ℝ)) (abs r i : ℕ) (hi : i < n) :
    Gen.DeviceSet_bounds n (kids n bp hs abs cs) sb (flatIdx n r i) = boundsL cs r i := by
  unfold Gen.DeviceSet_bounds flatIdx
  induction cs generalizing abs r with
  | nil => simp [kids, Gen.concatT, boundsL]
  | cons t ts ih =>
    simp only [kids, List.map_cons, Gen.concatT, boundsL, kidAt, flat_lt n r i t.rows hi]
    by_cases h : r < t.rows
    · simp only [h, if_true, flat_div n hn r i hi, flat_mod n r i hi]
    · simp only [h, if_false]
      rw [flat_sub n r i t.rows (Nat.le_of_not_lt h)]
      exact ih (abs + t.rows) (r - t.rows)

theorem projectL_vstack (b : Gen.Child ℝ × (ℕ × ℕ) → ℕ × Mat ℝ) (S : Mat ℝ)
    (h : ∀ t rel abs, b (kidAt n bp hs abs t, (rel, t.rows)) = (t.rows, t.project bp abs (shiftRows rel S))) :
    ∀ (cs : List (Tree ℝ)) (rel abs r i : ℕ),
      Gen.vstack ((List.zip (kids n bp hs abs cs) (partitionFrom rel cs)).map b) r i
        = projectL bp cs abs (shiftRows rel S) r i := by
  intro cs
  induction cs with
  | nil => intro rel abs r i; simp [kids, partitionFrom, Gen.vstack, projectL]
  | cons t ts ih =>
    intro rel abs r i
    simp only [kids, partitionFrom, List.zip_cons_cons, List.map_cons, h, Gen.vstack, projectL, ih, shiftRows_shiftRows]

theorem DeviceSet_project (abs : ℕ) (cs : List (Tree ℝ)) (sb : Option (ℕ → ℝ × ℝ)) (S : Mat ℝ) (r i : ℕ) :
    Gen.DeviceSet_project n (kids n bp hs abs cs) sb S r i = projectL bp cs abs S r i := by
  unfold Gen.DeviceSet_project
  rw [DeviceSet_partition, projectL_vstack n bp hs _ S ?_ cs 0 abs r i, shiftRows_zero]
  intro t rel abs
  simp only [kidAt]
  refine congrArg (Prod.mk _) ?_
  funext a b
  try simp only [Nat.add_sub_cancel_left, Nat.add_sub_cancel, eq_self_iff_true, and_self, if_true, ite_true]
  first
  | rfl
  | (congr 1; funext r j; simp [shiftRows, Nat.add_comm, Nat.add_left_comm, Nat.add_assoc])

end DK.BridgeSets
