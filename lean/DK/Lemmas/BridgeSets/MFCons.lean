import DK.Gen.Sets.MFCons
import DK.Lemmas.BridgeSets.Cons
import DK.Lemmas.BridgeSets.MF
import Mathlib.Data.List.Forall2
/-!
# BridgeSets.MFCons — `MFDeviceSet.constraints` and `TwoRatioMFDeviceSet.constraints` (C04, C17)

Part of the T1s tie (see `DK/Lemmas/BridgeSets.lean`).  The adaptor's list is the inherited `DeviceSet` list of its
conduits (aggregate bounds = the wrapped device's bounds), then every constraint of the wrapped device applied to the
column sums with its Jacobian *tiled* over the conduits, then (two-ratio) one ratio closure per slot: the model's
`Block.ofMF … .cons`.  The generated tiled Jacobian has no row guard (`np.tile` builds exactly `k` rows); the model's
`Con.overConduits` is `0` for rows `≥ k`: the two lists agree entry by entry on the rows that exist (`AgreeBelow`).
-/
set_option linter.unusedSimpArgs false
set_option linter.unnecessarySeqFocus false
set_option linter.unusedTactic false
set_option linter.unreachableTactic false
set_option linter.unusedVariables false
set_option linter.unusedSectionVars false
namespace DK.BridgeSets
open DK
variable (n : ℕ) (bp : ℕ → Block ℝ → Mat ℝ → Mat ℝ) (hs : Tree ℝ → Mat ℝ → Mat ℝ → ℕ → ℕ → ℝ)

/-- one conduit: a one-row plain `Device` (bounds only, no constraints of its own) -/
noncomputable def flowBlock : Block ℝ :=
  { rows := 1, labels := [], cost := fun _ _ => 0, deriv := fun _ _ _ _ => 0, bounds := fun _ _ => (0, 0), cons := [] }
noncomputable def flowTrees (k : ℕ) : List (Tree ℝ) := List.replicate k (.block flowBlock)

theorem rowsL_flow (k : ℕ) : rowsL (flowTrees k) = k := by
  induction k with
  | zero => rfl
  | succ k ih => simp [flowTrees, List.replicate_succ, rowsL, Tree.rows, flowBlock] at ih ⊢; omega

theorem consL_flow (off k : ℕ) : consL n off (flowTrees k) = [] := by
  induction k generalizing off with
  | zero => rfl
  | succ k ih =>
    simp only [flowTrees, List.replicate_succ, consL, Tree.cons, flowBlock, List.map_nil, List.nil_append]
    exact ih _

/-- a wrapped-device constraint over the conduits as the code builds it: Jacobian tiled, no row guard -/
def overConduitsU (k : ℕ) (c : Con ℝ) : MCon ℝ :=
  { isEq := c.isEq, fn := fun S => c.fn (colSum k S), jac := c.jac.map (fun j S _ i => j (colSum k S) i) }

/-- equal except for Jacobian entries of rows that do not exist -/
def AgreeBelow (k : ℕ) (a b : MCon ℝ) : Prop :=
  a.isEq = b.isEq ∧ a.fn = b.fn ∧
    (match a.jac, b.jac with
     | some ja, some jb => ∀ S r i, r < k → ja S r i = jb S r i
     | none, none => True
     | _, _ => False)

theorem AgreeBelow.refl (k : ℕ) (a : MCon ℝ) : AgreeBelow k a a := by
  refine ⟨rfl, rfl, ?_⟩
  cases a.jac <;> simp

theorem overConduitsU_agree (k : ℕ) (c : Con ℝ) : AgreeBelow k (overConduitsU k c) (Con.overConduits k c) := by
  refine ⟨rfl, rfl, ?_⟩
  unfold overConduitsU Con.overConduits
  cases c.jac with
  | none => simp
  | some j => simp only [Option.map_some]; intro S r i hr; simp [hr]

/-- `MFDeviceSet.constraints` over any conduits `cs` -/
theorem MFDeviceSet_constraints (dev : Gen.Dev ℝ) (abs : ℕ) (cs : List (Tree ℝ)) (sb : Option (ℕ → ℝ × ℝ)) :
    Gen.MFDeviceSet_constraints n dev (kids n bp hs abs cs) sb
      = (consL n 0 cs ++ (match sb with
                          | some sb => (List.range n).flatMap (sboundCons (rowsL cs) sb)
                          | none => []))
        ++ dev.cons.map (overConduitsU (rowsL cs)) := by
  unfold Gen.MFDeviceSet_constraints
  simp only [DeviceSet_constraints, DeviceSet_shape, flatMap_single]
  all_goals (try (
    congr 1 <;> apply List.map_congr_left <;> intro c _ <;> unfold overConduitsU <;>
    apply mcon_ext <;> (try dsimp only) <;>
      first | rfl | fneq | (congr 1; funext f S r i; first | rfl | (congr 1; funext j; apply sumTo_congr; intro q _; ring1))))

/-- … over `k` one-row conduits with the wrapped device's bounds as aggregate bounds: the model's adaptor block -/
theorem MFDeviceSet_constraints_ofMF (id : String) (d : Leaf ℝ) (cons : List (Con ℝ)) (flows : List String)
    (hh : (ℕ → ℝ) → (ℕ → ℝ) → ℕ → ℕ → ℝ) (pj : (ℕ → ℝ) → ℕ → ℝ) (abs : ℕ) :
    List.Forall₂ (AgreeBelow flows.length)
      (Gen.MFDeviceSet_constraints d.n (devOf d cons hh pj) (kids d.n bp hs abs (flowTrees flows.length)) (some (fun i => (d.lb i, d.hb i))))
      (Block.ofMF id d cons flows none).cons := by
  rw [MFDeviceSet_constraints, consL_flow, rowsL_flow]
  simp only [Block.ofMF, List.nil_append, List.append_nil, devOf]
  apply List.rel_append
  · exact List.forall₂_same.mpr (fun x _ => AgreeBelow.refl _ x)
  · rw [List.forall₂_map_left_iff, List.forall₂_map_right_iff]
    exact List.forall₂_same.mpr (fun c _ => overConduitsU_agree _ c)

/-- `TwoRatioMFDeviceSet.constraints`: the adaptor's list, then one ratio closure per slot -/
theorem TwoRatioMFDeviceSet_constraints (dev : Gen.Dev ℝ) (abs : ℕ) (cs : List (Tree ℝ)) (sb : Option (ℕ → ℝ × ℝ))
    (r0 r1 : ℝ) (e : Bool) :
    Gen.TwoRatioMFDeviceSet_constraints n dev (kids n bp hs abs cs) sb r0 r1 e
      = Gen.MFDeviceSet_constraints n dev (kids n bp hs abs cs) sb ++ (List.range n).map (ratioCon e r0 r1) := by
  unfold Gen.TwoRatioMFDeviceSet_constraints
  simp only [flatMap_single]
  all_goals (try (
    congr 1 <;> apply List.map_congr_left <;> intro i _ <;> unfold ratioCon <;>
    apply mcon_ext <;> (try dsimp only) <;>
      first | rfl | fneq
            | (congr 1; funext S r k; split_ifs <;> first | rfl | ring1 | (exfalso; omega) | (simp_all; done) | (exfalso; simp_all; omega))))

end DK.BridgeSets
