import DK.Gen.Sets.Cost
import DK.Lemmas.BridgeSets.Shape
/-!
# BridgeSets.Cost — `DeviceSet.costv / cost / deriv / hess` for the four accepted price shapes (C02, C08)

Part of the T1s tie (see `DK/Lemmas/BridgeSets.lean`).  The comprehension over `zip(self.devices, self.partition)` with
the slices `s[i0:i0+i1, :]`, `p[i0:i0+i1, :]` of the flow and of the *exploded* price `p*np.ones(self.shape)` is the
model recursion `costL` / `derivL` (each child sees the matrices shifted by the rows of its elder siblings), for every
list of children; a scalar, per-slot `(n,)` or `(1, n)` price is the constant / per-slot matrix `Price.toMat` of C08.
-/
set_option linter.unusedSimpArgs false
set_option linter.unnecessarySeqFocus false
set_option linter.unusedTactic false
set_option linter.unreachableTactic false
set_option linter.unusedVariables false
set_option linter.unusedSectionVars false
namespace DK.BridgeSets
open DK
variable (n : ℕ) (bp : ℕ → Block ℝ → Mat ℝ → Mat ℝ) (hs : Tree ℝ → Mat ℝ → Mat ℝ → ℕ → ℕ → ℝ)

/-- two row blocks are the same function (slice arithmetic, `* 1` of the price explosion) -/
macro "sblock" : tactic =>
  `(tactic| first | rfl | (funext r j; simp [shiftRows, Nat.add_comm, Nat.add_left_comm, Nat.add_assoc]; done)
                  | (funext r j; simp [shiftRows]; ring1))

/-- the row extent of a slice `[a : a + k]` (however the stop is written) is `k` -/
macro "sext" : tactic =>
  `(tactic| simp only [Nat.add_sub_cancel_left, Nat.add_sub_cancel, eq_self_iff_true, and_self, if_true, ite_true])

/-- what a child is handed: `f (extent, block of S) (extent, block of P)` for one of its two-matrix methods -/
macro "skid" : tactic =>
  `(tactic| (intro t rel abs; simp only [kidAt]; (try sext); try (refine congrArg (Prod.mk _) ?_; funext a b; (try sext));
             first | rfl | (congr 1 <;> sblock) | (congr 2 <;> sblock)
                   | (rw [if_pos (by constructor <;> omega)]; first | rfl | (congr 1 <;> sblock) | (congr 2 <;> sblock))))

theorem derivL_vstack (S P : Mat ℝ) (b : Gen.Child ℝ × (ℕ × ℕ) → ℕ × Mat ℝ)
    (h : ∀ t rel abs, b (kidAt n bp hs abs t, (rel, t.rows)) = (t.rows, t.deriv (shiftRows rel S) (shiftRows rel P))) :
    ∀ (cs : List (Tree ℝ)) (rel abs r i : ℕ),
      Gen.vstack ((List.zip (kids n bp hs abs cs) (partitionFrom rel cs)).map b) r i
        = derivL cs (shiftRows rel S) (shiftRows rel P) r i := by
  intro cs
  induction cs with
  | nil => intro rel abs r i; simp [kids, partitionFrom, Gen.vstack, derivL]
  | cons t ts ih =>
    intro rel abs r i
    simp only [kids, partitionFrom, List.zip_cons_cons, List.map_cons, h, Gen.vstack, derivL, ih, shiftRows_shiftRows]

/-- the value of the set under a full `(R, n)` price matrix -/
theorem DeviceSet_costv (abs : ℕ) (cs : List (Tree ℝ)) (sb : Option (ℕ → ℝ × ℝ)) (S P : Mat ℝ) :
    (Gen.DeviceSet_costv n (kids n bp hs abs cs) sb S P).sum = costL cs S P := by
  unfold Gen.DeviceSet_costv
  rw [DeviceSet_partition, sum_zip n bp hs _ (fun t rel => t.cost (shiftRows rel S) (shiftRows rel P)) (by skid) cs 0 abs,
    costL_fold, shiftRows_zero, shiftRows_zero]

theorem DeviceSet_cost (abs : ℕ) (cs : List (Tree ℝ)) (sb : Option (ℕ → ℝ × ℝ)) (S P : Mat ℝ) :
    Gen.DeviceSet_cost n (kids n bp hs abs cs) sb S P = costL cs S P := by
  unfold Gen.DeviceSet_cost
  rw [lsum_eq_sum, DeviceSet_costv]

theorem DeviceSet_deriv (abs : ℕ) (cs : List (Tree ℝ)) (sb : Option (ℕ → ℝ × ℝ)) (S P : Mat ℝ) (r i : ℕ) :
    Gen.DeviceSet_deriv n (kids n bp hs abs cs) sb S P r i = derivL cs S P r i := by
  unfold Gen.DeviceSet_deriv
  rw [DeviceSet_partition, derivL_vstack n bp hs S P _ (by skid) cs 0 abs r i, shiftRows_zero, shiftRows_zero]

/-! ### per-slot `(n,)` price: the matrix `fun _ i => v i` -/

theorem DeviceSet_costv_pvec (abs : ℕ) (cs : List (Tree ℝ)) (sb : Option (ℕ → ℝ × ℝ)) (S : Mat ℝ) (v : ℕ → ℝ) :
    (Gen.DeviceSet_costv_pvec n (kids n bp hs abs cs) sb S v).sum = costL cs S (fun _ i => v i) := by
  unfold Gen.DeviceSet_costv_pvec
  rw [DeviceSet_partition, sum_zip n bp hs _ (fun t rel => t.cost (shiftRows rel S) (shiftRows rel (fun _ i => v i))) (by skid) cs 0 abs,
    costL_fold, shiftRows_zero, shiftRows_zero]

theorem DeviceSet_cost_pvec (abs : ℕ) (cs : List (Tree ℝ)) (sb : Option (ℕ → ℝ × ℝ)) (S : Mat ℝ) (v : ℕ → ℝ) :
    Gen.DeviceSet_cost_pvec n (kids n bp hs abs cs) sb S v = costL cs S (fun _ i => v i) := by
  unfold Gen.DeviceSet_cost_pvec
  rw [lsum_eq_sum, DeviceSet_costv_pvec]

theorem DeviceSet_deriv_pvec (abs : ℕ) (cs : List (Tree ℝ)) (sb : Option (ℕ → ℝ × ℝ)) (S : Mat ℝ) (v : ℕ → ℝ) (r i : ℕ) :
    Gen.DeviceSet_deriv_pvec n (kids n bp hs abs cs) sb S v r i = derivL cs S (fun _ i => v i) r i := by
  unfold Gen.DeviceSet_deriv_pvec
  rw [DeviceSet_partition, derivL_vstack n bp hs S (fun _ i => v i) _ (by skid) cs 0 abs r i, shiftRows_zero, shiftRows_zero]

/-! ### scalar price: the constant matrix -/

theorem DeviceSet_costv_pscalar (abs : ℕ) (cs : List (Tree ℝ)) (sb : Option (ℕ → ℝ × ℝ)) (S : Mat ℝ) (c : ℝ) :
    (Gen.DeviceSet_costv_pscalar n (kids n bp hs abs cs) sb S c).sum = costL cs S (fun _ _ => c) := by
  unfold Gen.DeviceSet_costv_pscalar
  rw [DeviceSet_partition, sum_zip n bp hs _ (fun t rel => t.cost (shiftRows rel S) (shiftRows rel (fun _ _ => c))) (by skid) cs 0 abs,
    costL_fold, shiftRows_zero, shiftRows_zero]

theorem DeviceSet_cost_pscalar (abs : ℕ) (cs : List (Tree ℝ)) (sb : Option (ℕ → ℝ × ℝ)) (S : Mat ℝ) (c : ℝ) :
    Gen.DeviceSet_cost_pscalar n (kids n bp hs abs cs) sb S c = costL cs S (fun _ _ => c) := by
  unfold Gen.DeviceSet_cost_pscalar
  rw [lsum_eq_sum, DeviceSet_costv_pscalar]

theorem DeviceSet_deriv_pscalar (abs : ℕ) (cs : List (Tree ℝ)) (sb : Option (ℕ → ℝ × ℝ)) (S : Mat ℝ) (c : ℝ) (r i : ℕ) :
    Gen.DeviceSet_deriv_pscalar n (kids n bp hs abs cs) sb S c r i = derivL cs S (fun _ _ => c) r i := by
  unfold Gen.DeviceSet_deriv_pscalar
  rw [DeviceSet_partition, derivL_vstack n bp hs S (fun _ _ => c) _ (by skid) cs 0 abs r i, shiftRows_zero, shiftRows_zero]

/-! ### `(1, n)` price row: every row of the exploded price is row 0 of `p` -/

theorem DeviceSet_costv_prow (abs : ℕ) (cs : List (Tree ℝ)) (sb : Option (ℕ → ℝ × ℝ)) (S P : Mat ℝ) :
    (Gen.DeviceSet_costv_prow n (kids n bp hs abs cs) sb S P).sum = costL cs S (fun _ i => P 0 i) := by
  unfold Gen.DeviceSet_costv_prow
  rw [DeviceSet_partition, sum_zip n bp hs _ (fun t rel => t.cost (shiftRows rel S) (shiftRows rel (fun _ i => P 0 i))) (by skid) cs 0 abs,
    costL_fold, shiftRows_zero, shiftRows_zero]

theorem DeviceSet_cost_prow (abs : ℕ) (cs : List (Tree ℝ)) (sb : Option (ℕ → ℝ × ℝ)) (S P : Mat ℝ) :
    Gen.DeviceSet_cost_prow n (kids n bp hs abs cs) sb S P = costL cs S (fun _ i => P 0 i) := by
  unfold Gen.DeviceSet_cost_prow
  rw [lsum_eq_sum, DeviceSet_costv_prow]

theorem DeviceSet_deriv_prow (abs : ℕ) (cs : List (Tree ℝ)) (sb : Option (ℕ → ℝ × ℝ)) (S P : Mat ℝ) (r i : ℕ) :
    Gen.DeviceSet_deriv_prow n (kids n bp hs abs cs) sb S P r i = derivL cs S (fun _ i => P 0 i) r i := by
  unfold Gen.DeviceSet_deriv_prow
  rw [DeviceSet_partition, derivL_vstack n bp hs S (fun _ i => P 0 i) _ (by skid) cs 0 abs r i, shiftRows_zero, shiftRows_zero]

/-! ### Hessian: the model has no tree Hessian; the generated body is the sum of the children's `(n, n)` Hessians at their blocks -/

theorem DeviceSet_hess (abs : ℕ) (cs : List (Tree ℝ)) (sb : Option (ℕ → ℝ × ℝ)) (S P : Mat ℝ) (i j : ℕ) :
    Gen.DeviceSet_hess n (kids n bp hs abs cs) sb S P i j
      = (List.zip cs (partitionFrom 0 cs)).foldr (fun x acc => hs x.1 (shiftRows x.2.1 S) (shiftRows x.2.1 P) i j + acc) 0 := by
  unfold Gen.DeviceSet_hess Gen.msum
  rw [DeviceSet_partition, lsum_eq_sum, List.map_map]
  exact sum_zip n bp hs _ (fun t rel => hs t (shiftRows rel S) (shiftRows rel P) i j)
    (by intro t rel abs; simp only [Function.comp, kidAt]; (try sext); first | rfl | (congr 1 <;> sblock) | (congr 2 <;> sblock) | (congr 3 <;> sblock)) cs 0 abs

end DK.BridgeSets
