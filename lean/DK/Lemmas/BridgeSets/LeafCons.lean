import DK.Gen.Sets.LeafCons
import DK.Lemmas.BridgeSets.Cons
import DK.Lemmas.BridgeVec.Utils
/-!
# BridgeSets.LeafCons — the WHOLE constraint lists of `Device.constraints` and `SDevice.constraints` (C03, C06)

Part of the T1s tie (see `DK/Lemmas/BridgeSets.lean`).  Unlike the per-closure lemmas of `BridgeVec/{DeviceCons,SDeviceCons}`,
the generated definitions here are the complete Python bodies: the guard `if self.cbounds`, the loop over the cumulative
bounds, the loop `for i in range(0, len(self))`, the guards `if self.rate_clip[k]`, the `'type'` of every dict and the
presence / absence of its `'jac'` are all translated, so an edit of any of them changes the generated list and fails the
equality with the model's `deviceCons` / `sdeviceCons`.
`if self.rate_clip[k]:` is a truth test on `None | number`: false for `None` and for `0`; the validator admits `None` or
a value `≥ 1`, which is the hypothesis under which the model's `match clip with | some c => … | none => []` is reached.
-/
set_option linter.unusedSimpArgs false
set_option linter.unnecessarySeqFocus false
set_option linter.unusedTactic false
set_option linter.unreachableTactic false
set_option linter.unusedVariables false
set_option linter.unusedSectionVars false
namespace DK.BridgeSets
open DK

theorem con_ext (a b : Con ℝ) (h1 : a.isEq = b.isEq) (h2 : a.fn = b.fn) (h3 : a.jac = b.jac) : a = b := by
  cases a; cases b; simp_all

/-- value closure of a leaf constraint: same function of the flow vector -/
macro "vfn" : tactic =>
  `(tactic| first | rfl | (funext x; (try simp only [sliceSum, socDot, BridgeVec.utils_sustainment_matrix, BridgeVec.sgnPow_eq]) <;> first | rfl | ring1 | (congr 1; first | rfl | ring1 | (apply sumTo_congr; intro k _; ring1)) | (congr 2; first | rfl | ring1 | (apply sumTo_congr; intro k _; ring1)) | (simp only [sumTo_eq_sum, mul_comm, mul_left_comm, mul_assoc] <;> ring1)))

/-- Jacobian closure of a leaf constraint: same per-slot table -/
macro "vjac" : tactic =>
  `(tactic| first | rfl | (congr 1; funext x k; (try simp only [inRange, socJac, BridgeVec.utils_sustainment_matrix, BridgeVec.sgnPow_eq]) <;> first | rfl | ring1 | (split_ifs <;> first | rfl | ring1 | (exfalso; omega) | (simp_all; done) | (exfalso; simp_all; omega))))

macro "coneq" : tactic => `(tactic| (apply con_ext <;> (try dsimp only) <;> first | rfl | vfn | vjac))

theorem Device_constraints (n : ℕ) (cbs : List (CBound ℝ)) : Gen.Device_constraints n cbs = deviceCons n cbs := by
  unfold Gen.Device_constraints deviceCons
  cases cbs with
  | nil => simp
  | cons c cs =>
    simp only [List.isEmpty_cons, if_true]
    congr 1
    funext cb
    unfold cboundCons
    simp only [List.cons.injEq, and_true]
    refine ⟨?_, ?_⟩ <;> coneq

section storage
variable (n : ℕ) (cbs : List (CBound ℝ)) (c1 c2 c3 capacity damage_depth start reserve efficiency sustainment : ℝ)
  (clipLo clipHi : Option ℝ) (lb hb : ℕ → ℝ)

theorem SDevice_constraints (hLo : ∀ c, clipLo = some c → c ≠ 0) (hHi : ∀ c, clipHi = some c → c ≠ 0) :
    Gen.SDevice_constraints n cbs c1 c2 c3 capacity damage_depth start reserve efficiency sustainment clipLo clipHi lb hb
      = sdeviceCons n cbs (SParams.mk c1 c2 c3 capacity damage_depth start reserve efficiency sustainment) lb hb clipLo clipHi := by
  unfold Gen.SDevice_constraints sdeviceCons
  rw [Device_constraints]
  congr 1
  congr 1
  congr 1
  congr 1
  · congr 1
    funext i
    unfold socCons
    simp only [List.cons.injEq, and_true]
    refine ⟨?_, ?_⟩ <;> coneq
  · cases clipLo with
    | none => rfl
    | some c =>
      simp only [hLo c rfl, ne_eq, not_false_eq_true, if_true, flatMap_single]
      apply List.map_congr_left
      intro i _
      unfold clipLoCon
      coneq
  · cases clipHi with
    | none => rfl
    | some c =>
      simp only [hHi c rfl, ne_eq, not_false_eq_true, if_true, flatMap_single]
      apply List.map_congr_left
      intro i _
      unfold clipHiCon
      coneq
  · unfold reserveCon
    simp only [List.cons.injEq, and_true]
    coneq

end storage
end DK.BridgeSets
