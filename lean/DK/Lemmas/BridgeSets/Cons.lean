import DK.Gen.Sets.Cons
import DK.Lemmas.BridgeSets.Shape
/-!
# BridgeSets.Cons — `DeviceSet.constraints` (C02, C04)

Part of the T1s tie (see `DK/Lemmas/BridgeSets.lean`).  The child constraints re-wrapped for the block
(`f(s.reshape(shape)[i0:i0+i1, :])`, Jacobian zero-padded by `utils.zmm`, whose body is interpreted at the call) are
the model's `MCon.lift` at the prefix-sum offsets (`consL`), and the per-slot aggregate-bound closures (one equality
when low = high, else two inequalities, with their Jacobian columns) are `sboundCons` — for every list of children.
-/
set_option linter.unusedSimpArgs false
set_option linter.unnecessarySeqFocus false
set_option linter.unusedTactic false
set_option linter.unreachableTactic false
set_option linter.unusedVariables false
set_option linter.unusedSectionVars false
namespace DK.BridgeSets
open DK
variable (n : ℕ) (bp : ℕ → Block ℝ → Mat ℝ → Mat ℝ) (hs : Tree ℝ → Mat ℝ → Mat ℝ → ℕ → ℕ → ℝ)

theorem mcon_ext (a b : MCon ℝ) (h1 : a.isEq = b.isEq) (h2 : a.fn = b.fn) (h3 : a.jac = b.jac) : a = b := by
  cases a; cases b; simp_all

macro "fneq1" : tactic =>
  `(tactic| (funext S; (try simp only [colSum, shiftRows]); first | rfl | ring1 | (congr 1; first | rfl | (apply sumTo_congr; intro k _; ring1)) | (simp; done)))
macro "fneq2" : tactic => `(tactic| (funext S; simp [colSum, shiftRows, sumTo_eq_sum]; done))
macro "fneq3" : tactic =>
  `(tactic| (funext S; simp only [colSum, shiftRows, sumTo_eq_sum, one_mul, mul_one, mul_comm, mul_left_comm, mul_assoc] <;> ring1))
/-- a value closure: same function of the flow matrix (column sums, slices, `* 1`) -/
macro "fneq" : tactic => `(tactic| first | rfl | fneq1 | fneq2 | fneq3)

macro "jaceq1" : tactic =>
  `(tactic| (congr 1; funext S r k; (try simp only [shiftRows]); split_ifs <;> first | rfl | ring1 | (exfalso; omega) | (simp_all; done) | (exfalso; simp_all; omega)))
/-- a Jacobian closure: same (row, slot) table (index conditions by case split) -/
macro "jaceq" : tactic => `(tactic| first | rfl | jaceq1)

macro "mconeq" : tactic => `(tactic| (apply mcon_ext <;> (try dsimp only) <;> first | rfl | fneq | jaceq))

/-- a child constraint re-wrapped by the set is the model's `MCon.lift` -/
theorem lift_eq (rel rows : ℕ) (c : MCon ℝ) (fn : Mat ℝ → ℝ) (jac : Option (Mat ℝ → ℕ → ℕ → ℝ))
    (h2 : fn = fun S => c.fn (shiftRows rel S))
    (h3 : jac = c.jac.map (fun j S r i => if rel ≤ r ∧ r < rel + rows then j (shiftRows rel S) (r - rel) i else 0)) :
    ({ isEq := c.isEq, fn := fn, jac := jac } : MCon ℝ) = MCon.lift rel rows c := by
  subst h2; subst h3; rfl

theorem DeviceSet_constraints (abs : ℕ) (cs : List (Tree ℝ)) (sb : Option (ℕ → ℝ × ℝ)) :
    Gen.DeviceSet_constraints n (kids n bp hs abs cs) sb
      = consL n 0 cs ++ (match sb with
                         | some sb => (List.range n).flatMap (sboundCons (rowsL cs) sb)
                         | none => []) := by
  unfold Gen.DeviceSet_constraints
  simp only [DeviceSet_partition, DeviceSet_shape]
  congr 1
  · rw [flatMap_zip n bp hs _ (fun t rel => (t.cons n).map (MCon.lift rel t.rows)) ?_ cs 0 abs, consL_flatMap]
    intro t rel abs
    simp only [kidAt, flatMap_single]
    apply List.map_congr_left
    intro c _
    apply lift_eq
    · fneq
    · first
      | rfl
      | (congr 1; funext f S r k; simp only [shiftRows]; split_ifs <;> first | rfl | (exfalso; omega) | (simp_all; done))
  · cases sb with
    | none => rfl
    | some sb =>
      simp only
      congr 1
      funext i
      unfold sboundCons
      split_ifs
      · simp only [List.cons.injEq, and_true]; mconeq
      · simp only [List.cons.injEq, and_true]
        refine ⟨?_, ?_⟩ <;> mconeq

/-- the whole constraint list of a plain `DeviceSet` node (no label balancing) -/
theorem DeviceSet_constraints_node (abs : ℕ) (id : String) (cs : List (Tree ℝ)) (sb : Option (ℕ → ℝ × ℝ)) (e : Bool) (σ : ℝ) :
    Gen.DeviceSet_constraints n (kids n bp hs abs cs) sb
      = Tree.cons n (.node id { sbounds := sb, labels := [], balEq := e, sign := σ, applyToRemaining := false } cs) := by
  rw [DeviceSet_constraints, Tree.cons, ownCons]
  cases sb <;> simp

end DK.BridgeSets
