import DK.Model.Projection
import DK.Gen.Sets.Prelude
import DK.Lemmas.BridgeVec.Tactics
/-!
# BridgeSets.Basic — the children of a model tree as the abstract `Gen.Child` records of the generated set-level code,
and the three list inductions every set-level bridge lemma reduces to

Part of the T1s tie (see `DK/Lemmas/BridgeSets.lean`).  `kids n bp abs cs` is the list of child records the code of a
`DeviceSet` over the model children `cs` sees (`abs` = absolute row offset of the first child, needed only by `project`,
whose block projection the model indexes by absolute offset).  The generated code walks
`zip(self.devices, self.partition)`, i.e. absolute prefix-sum offsets; the model recursion shifts the matrices child by
child.  `sum_zip`, `vstack_zip`, `flatMap_zip` are the inductions that relate the two, for EVERY list of children.
-/
set_option linter.unusedSimpArgs false
set_option linter.unnecessarySeqFocus false
set_option linter.unusedTactic false
set_option linter.unreachableTactic false
set_option linter.unusedVariables false
set_option linter.unusedSectionVars false
namespace DK.BridgeSets
open DK

/-- a model child as the record the set's code reads.  The code hands a child its blocks together with their row
extent; the child computes on blocks of its own row count only (a real child `reshape`s to its shape). -/
noncomputable def kidAt (n : ℕ) (bp : ℕ → Block ℝ → Mat ℝ → Mat ℝ) (hs : Tree ℝ → Mat ℝ → Mat ℝ → ℕ → ℕ → ℝ) (abs : ℕ) (t : Tree ℝ) :
    Gen.Child ℝ :=
  { id := "", rows := t.rows,
    cost := fun rs S rp P => if rs = t.rows ∧ rp = t.rows then t.cost S P else 0,
    deriv := fun rs S rp P r i => if rs = t.rows ∧ rp = t.rows then t.deriv S P r i else 0,
    hess := fun rs S rp P i j => if rs = t.rows ∧ rp = t.rows then hs t S P i j else 0,
    project := fun rs S r i => if rs = t.rows then t.project bp abs S r i else 0,
    bounds := fun k => t.bounds (k / n) (k % n), cons := t.cons n }

/-- the children of a node, first child at absolute row `abs`. -/
noncomputable def kids (n : ℕ) (bp : ℕ → Block ℝ → Mat ℝ → Mat ℝ) (hs : Tree ℝ → Mat ℝ → Mat ℝ → ℕ → ℕ → ℝ) : ℕ → List (Tree ℝ) → List (Gen.Child ℝ)
  | _, [] => []
  | abs, t :: ts => kidAt n bp hs abs t :: kids n bp hs (abs + t.rows) ts

variable (n : ℕ) (bp : ℕ → Block ℝ → Mat ℝ → Mat ℝ) (hs : Tree ℝ → Mat ℝ → Mat ℝ → ℕ → ℕ → ℝ)

theorem kids_rows (abs : ℕ) (cs : List (Tree ℝ)) : (kids n bp hs abs cs).map (fun d => d.rows) = cs.map (fun t => t.rows) := by
  induction cs generalizing abs with
  | nil => rfl
  | cons t ts ih => simp [kids, kidAt, ih]

theorem kids_length (abs : ℕ) (cs : List (Tree ℝ)) : (kids n bp hs abs cs).length = cs.length := by
  induction cs generalizing abs with
  | nil => rfl
  | cons t ts ih => simp [kids, ih]

theorem shiftRows_zero (S : Mat ℝ) : shiftRows 0 S = S := by
  funext r; simp [shiftRows]

theorem shiftRows_shiftRows (a b : ℕ) (S : Mat ℝ) : shiftRows a (shiftRows b S) = shiftRows (b + a) S := by
  funext r; simp [shiftRows, Nat.add_assoc]

theorem lsum_eq_sum (l : List ℝ) : Gen.lsum l = l.sum := by
  unfold Gen.lsum; rw [foldl_add_eq_sum]; simp

theorem flatMap_single {β γ : Type} (f : β → γ) (l : List β) : l.flatMap (fun x => [f x]) = l.map f := by
  induction l with
  | nil => rfl
  | cons a l ih => simp [List.flatMap_cons, ih]

/-- exclusive prefix sums (what `partitionFrom` pairs with the row counts) -/
def exScan : ℕ → List ℕ → List ℕ
  | _, [] => []
  | off, a :: l => off :: exScan (off + a) l

theorem dropLast_cumsumFrom (off a : ℕ) (l : List ℕ) :
    (Gen.cumsumFrom off (a :: l)).dropLast = exScan (off + a) l := by
  induction l generalizing off a with
  | nil => simp [Gen.cumsumFrom, exScan]
  | cons b l ih =>
    have h := ih (off + a) b
    simp only [Gen.cumsumFrom] at h ⊢
    rw [List.dropLast_cons₂, h]
    simp [exScan]

/-- `offset = np.roll(x.cumsum(), 1); offset[0] = 0` is the exclusive prefix sum -/
theorem roll_cumsum (l : List ℕ) : Gen.setHead (Gen.roll1 (Gen.cumsum l)) 0 = exScan 0 l := by
  cases l with
  | nil => simp [Gen.cumsum, Gen.cumsumFrom, Gen.roll1, Gen.setHead, exScan]
  | cons a l =>
    have h := dropLast_cumsumFrom 0 a l
    unfold Gen.cumsum Gen.roll1
    have hne : Gen.cumsumFrom 0 (a :: l) ≠ [] := by simp [Gen.cumsumFrom]
    obtain ⟨x, hx⟩ : ∃ x, (Gen.cumsumFrom 0 (a :: l)).getLast? = some x := by
      cases hq : (Gen.cumsumFrom 0 (a :: l)).getLast? with
      | none => exact absurd (List.getLast?_eq_none_iff.mp hq) hne
      | some x => exact ⟨x, rfl⟩
    rw [hx]
    simp only [Gen.setHead, h, exScan, Nat.zero_add]

theorem zip_exScan (off : ℕ) (cs : List (Tree ℝ)) :
    List.zip (exScan off (cs.map (fun t => t.rows))) (cs.map (fun t => t.rows)) = partitionFrom off cs := by
  induction cs generalizing off with
  | nil => rfl
  | cons t ts ih => simp [exScan, partitionFrom, ih]

/-- a sum over `zip(children, partition)` -/
theorem sum_zip (c : Gen.Child ℝ × (ℕ × ℕ) → ℝ) (g : Tree ℝ → ℕ → ℝ)
    (h : ∀ t rel abs, c (kidAt n bp hs abs t, (rel, t.rows)) = g t rel) :
    ∀ (cs : List (Tree ℝ)) (rel abs : ℕ),
      ((List.zip (kids n bp hs abs cs) (partitionFrom rel cs)).map c).sum
        = (List.zip cs (partitionFrom rel cs)).foldr (fun x acc => g x.1 x.2.1 + acc) 0 := by
  intro cs
  induction cs with
  | nil => intro rel abs; simp [kids, partitionFrom]
  | cons t ts ih =>
    intro rel abs
    simp only [kids, partitionFrom, List.zip_cons_cons, List.map_cons, List.sum_cons, List.foldr_cons, h, ih]

theorem costL_fold (S P : Mat ℝ) : ∀ (cs : List (Tree ℝ)) (rel : ℕ),
    (List.zip cs (partitionFrom rel cs)).foldr (fun x acc => x.1.cost (shiftRows x.2.1 S) (shiftRows x.2.1 P) + acc) 0
      = costL cs (shiftRows rel S) (shiftRows rel P) := by
  intro cs
  induction cs with
  | nil => intro rel; simp [partitionFrom, costL]
  | cons t ts ih =>
    intro rel
    simp only [partitionFrom, List.zip_cons_cons, List.foldr_cons, costL, ih, shiftRows_shiftRows]

/-- a `np.vstack` over `zip(children, partition)` -/
theorem vstack_zip (b : Gen.Child ℝ × (ℕ × ℕ) → ℕ × Mat ℝ) (g : Tree ℝ → ℕ → ℕ → Mat ℝ)
    (h : ∀ t rel abs, b (kidAt n bp hs abs t, (rel, t.rows)) = (t.rows, g t rel abs)) :
    ∀ (cs : List (Tree ℝ)) (rel abs r i : ℕ),
      Gen.vstack ((List.zip (kids n bp hs abs cs) (partitionFrom rel cs)).map b) r i
        = (match cs with
           | [] => 0
           | t :: ts => if r < t.rows then g t rel abs r i
                        else Gen.vstack ((List.zip (kids n bp hs (abs + t.rows) ts) (partitionFrom (rel + t.rows) ts)).map b) (r - t.rows) i) := by
  intro cs rel abs r i
  cases cs with
  | nil => simp [kids, partitionFrom, Gen.vstack]
  | cons t ts => simp only [kids, partitionFrom, List.zip_cons_cons, List.map_cons, h, Gen.vstack]

/-- a list built by a loop over `zip(children, partition)` -/
theorem flatMap_zip {γ : Type} (F : Gen.Child ℝ × (ℕ × ℕ) → List γ) (g : Tree ℝ → ℕ → List γ)
    (h : ∀ t rel abs, F (kidAt n bp hs abs t, (rel, t.rows)) = g t rel) :
    ∀ (cs : List (Tree ℝ)) (rel abs : ℕ),
      (List.zip (kids n bp hs abs cs) (partitionFrom rel cs)).flatMap F
        = (List.zip cs (partitionFrom rel cs)).flatMap (fun x => g x.1 x.2.1) := by
  intro cs
  induction cs with
  | nil => intro rel abs; simp [kids, partitionFrom]
  | cons t ts ih =>
    intro rel abs
    simp only [kids, partitionFrom, List.zip_cons_cons, List.flatMap_cons, h, ih]

theorem consL_flatMap : ∀ (cs : List (Tree ℝ)) (rel : ℕ),
    (List.zip cs (partitionFrom rel cs)).flatMap (fun x => (x.1.cons n).map (MCon.lift x.2.1 x.1.rows)) = consL n rel cs := by
  intro cs
  induction cs with
  | nil => intro rel; simp [partitionFrom, consL]
  | cons t ts ih => intro rel; simp only [partitionFrom, List.zip_cons_cons, List.flatMap_cons, consL, ih]

end DK.BridgeSets
