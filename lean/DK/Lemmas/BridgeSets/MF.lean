import DK.Gen.Sets.MF
import DK.Lemmas.BridgeSets.Shape
/-!
# BridgeSets.MF — `MFDeviceSet.cost / deriv / hess / project` and the conduit-bounds rule of its constructor (C08, C17)

Part of the T1s tie (see `DK/Lemmas/BridgeSets.lean`).  The wrapped atomic device is handed the column sums of the
conduit rows at price 0; the price term is the sum over all conduit rows; the marginal cost is the wrapped device's,
repeated over the conduits, plus the price: the model's `Block.ofMF`.  The conduits are any list of children whose row
counts add up to `k` (the code: one one-row `Device` per flow).
-/
set_option linter.unusedSimpArgs false
set_option linter.unnecessarySeqFocus false
set_option linter.unusedTactic false
set_option linter.unreachableTactic false
set_option linter.unusedVariables false
set_option linter.unusedSectionVars false
namespace DK.BridgeSets
open DK

/-- the wrapped leaf as the record the adaptor's code reads (`hh`: its Hessian method, `pj`: its `project`) -/
noncomputable def devOf (d : Leaf ℝ) (cons : List (Con ℝ)) (hh : (ℕ → ℝ) → (ℕ → ℝ) → ℕ → ℕ → ℝ) (pj : (ℕ → ℝ) → ℕ → ℝ) : Gen.Dev ℝ :=
  { cost := d.cost, deriv := d.deriv, hess := hh, project := pj, lbounds := d.lb, hbounds := d.hb, cons := cons }

variable (d : Leaf ℝ) (cons : List (Con ℝ)) (hh : (ℕ → ℝ) → (ℕ → ℝ) → ℕ → ℕ → ℝ) (pj : (ℕ → ℝ) → ℕ → ℝ)
variable (ch : List (Gen.Child ℝ)) (sb : Option (ℕ → ℝ × ℝ))

theorem shape_snd : (Gen.DeviceSet_shape d.n ch sb).2 = d.n := rfl

theorem colSum_eta (k : ℕ) (S : Mat ℝ) : (fun j => sumTo k (fun r => S r j)) = colSum k S := rfl

theorem MFDeviceSet_cost (id : String) (flows : List String) (ratio : Option (Bool × ℝ × ℝ))
    (hk : (Gen.DeviceSet_shape d.n ch sb).1 = flows.length) (S P : Mat ℝ) :
    Gen.MFDeviceSet_cost d.n (devOf d cons hh pj) ch sb S P = (Block.ofMF id d cons flows ratio).cost S P := by
  unfold Gen.MFDeviceSet_cost Block.ofMF devOf
  simp only [hk, shape_snd, colSum_eta]
  all_goals (try first
    | rfl
    | (congr 1 <;> first | rfl | (congr 1; funext j; apply sumTo_congr; intro r _; ring1) | (apply sumTo_congr; intro r _; apply sumTo_congr; intro i _; ring1))
    | (simp only [colSum, sumTo_eq_sum]; ring_nf; done)
    | (simp only [colSum, sumTo_eq_sum, mul_comm, mul_left_comm, mul_assoc] <;> ring1))

theorem MFDeviceSet_deriv (id : String) (flows : List String) (ratio : Option (Bool × ℝ × ℝ))
    (hk : (Gen.DeviceSet_shape d.n ch sb).1 = flows.length) (S P : Mat ℝ) (r i : ℕ) :
    Gen.MFDeviceSet_deriv d.n (devOf d cons hh pj) ch sb S P r i = (Block.ofMF id d cons flows ratio).deriv S P r i := by
  unfold Gen.MFDeviceSet_deriv Block.ofMF devOf
  simp only [hk, shape_snd, colSum_eta]
  all_goals (try first | rfl | ring1)

/-- the Hessian the adaptor reports is the wrapped device's at the column sums, price 0 -/
theorem MFDeviceSet_hess (k : ℕ) (hk : (Gen.DeviceSet_shape d.n ch sb).1 = k) (S : Mat ℝ) (i j : ℕ) :
    Gen.MFDeviceSet_hess d.n (devOf d cons hh pj) ch sb S i j = hh (colSum k S) (fun _ => 0) i j := by
  unfold Gen.MFDeviceSet_hess devOf
  simp only [hk, colSum_eta]

/-- `project`: the wrapped device projects the column sums, the result is split equally over the conduits -/
theorem MFDeviceSet_project (k : ℕ) (hk : (Gen.DeviceSet_shape d.n ch sb).1 = k) (S : Mat ℝ) (r i : ℕ) :
    Gen.MFDeviceSet_project d.n (devOf d cons hh (cubeProj d.lb d.hb)) ch sb S r i = mfProject k d.lb d.hb S r i := by
  unfold Gen.MFDeviceSet_project mfProject devOf
  simp only [hk, colSum_eta]

/-- the bounds every conduit gets: `(lower, 0)` if the device has a negative lower bound, else `(0, upper)` -/
theorem MFDeviceSet_init_bounds (id : String) (flows : List String) (ratio : Option (Bool × ℝ × ℝ)) (r i : ℕ) :
    Gen.MFDeviceSet_init_bounds d.n (devOf d cons hh pj) i = (Block.ofMF id d cons flows ratio).bounds r i := by
  unfold Gen.MFDeviceSet_init_bounds Block.ofMF devOf anyNeg
  simp only
  all_goals (try (by_cases h : ((List.range d.n).any fun i => decide (d.lb i < 0)) = true <;> simp [h]))

end DK.BridgeSets
