import DK.Gen.Sets.Shape
import DK.Lemmas.BridgeSets.Basic
/-!
# BridgeSets.Shape — `DeviceSet.shapes / shape / partition / slices` (C02, C13)

Part of the T1s tie (see `DK/Lemmas/BridgeSets.lean`): row offsets computed by `np.roll(cumsum, 1); offset[0] = 0`
are the prefix sums `partitionFrom 0` of the model, for every list of children.
-/
set_option linter.unusedSimpArgs false
set_option linter.unnecessarySeqFocus false
set_option linter.unusedTactic false
set_option linter.unreachableTactic false
set_option linter.unusedVariables false
set_option linter.unusedSectionVars false
namespace DK.BridgeSets
open DK
variable (n : ℕ) (bp : ℕ → Block ℝ → Mat ℝ → Mat ℝ) (hs : Tree ℝ → Mat ℝ → Mat ℝ → ℕ → ℕ → ℝ)

theorem DeviceSet_shapes (abs : ℕ) (cs : List (Tree ℝ)) (sb : Option (ℕ → ℝ × ℝ)) :
    Gen.DeviceSet_shapes n (kids n bp hs abs cs) sb = cs.map (fun t => (t.rows, n)) := by
  unfold Gen.DeviceSet_shapes
  have h := kids_rows n bp hs abs cs
  induction cs generalizing abs with
  | nil => rfl
  | cons t ts ih => simp [kids, kidAt, ih (abs + t.rows) (kids_rows n bp hs _ ts)]

theorem map_fst_shapes (abs : ℕ) (cs : List (Tree ℝ)) (sb : Option (ℕ → ℝ × ℝ)) :
    List.map Prod.fst (Gen.DeviceSet_shapes n (kids n bp hs abs cs) sb) = cs.map (fun t => t.rows) := by
  rw [DeviceSet_shapes]; simp [List.map_map, Function.comp_def]

theorem lsum_rows (cs : List (Tree ℝ)) : Gen.lsum (cs.map (fun t => t.rows)) = rowsL cs := by
  unfold Gen.lsum
  have : ∀ a, List.foldl (· + ·) a (cs.map (fun t => t.rows)) = a + rowsL cs := by
    induction cs with
    | nil => intro a; simp [rowsL]
    | cons t ts ih => intro a; simp [rowsL, ih, Nat.add_assoc]
  simpa using this 0

/-- `shape = (Σ rows of the children, len(self))` -/
theorem DeviceSet_shape (abs : ℕ) (cs : List (Tree ℝ)) (sb : Option (ℕ → ℝ × ℝ)) :
    Gen.DeviceSet_shape n (kids n bp hs abs cs) sb = (rowsL cs, n) := by
  unfold Gen.DeviceSet_shape
  simp only [map_fst_shapes, lsum_rows]

/-- `partition`: (offset, rows) per child, offsets = exclusive prefix sums of the row counts -/
theorem DeviceSet_partition (abs : ℕ) (cs : List (Tree ℝ)) (sb : Option (ℕ → ℝ × ℝ)) :
    Gen.DeviceSet_partition n (kids n bp hs abs cs) sb = partitionFrom 0 cs := by
  unfold Gen.DeviceSet_partition
  simp only [map_fst_shapes, roll_cumsum, zip_exScan]

theorem zip_exScan_ends (off : ℕ) (cs : List (Tree ℝ)) :
    List.zip (exScan off (cs.map (fun t => t.rows)))
        (List.zipWith (· + ·) (exScan off (cs.map (fun t => t.rows))) (cs.map (fun t => t.rows)))
      = (partitionFrom off cs).map (fun p => (p.1, p.1 + p.2)) := by
  induction cs generalizing off with
  | nil => rfl
  | cons t ts ih => simp [exScan, partitionFrom, ih]

/-- `slices`: every child with its (first row, one past its last row) -/
theorem DeviceSet_slices (abs : ℕ) (cs : List (Tree ℝ)) (sb : Option (ℕ → ℝ × ℝ)) :
    Gen.DeviceSet_slices n (kids n bp hs abs cs) sb
      = List.zip (kids n bp hs abs cs) ((partitionFrom 0 cs).map (fun p => (p.1, p.1 + p.2))) := by
  unfold Gen.DeviceSet_slices
  simp only [map_fst_shapes, roll_cumsum, zip_exScan_ends]

end DK.BridgeSets
