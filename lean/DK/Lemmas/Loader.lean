import DK.Model.Loader
/-!
# Lemmas about the generic layer of the loader model (core Lean only: lists, `omega`, `simp`)

`sortRuns` is a stable sort (a permutation, sorted, the identity on sorted input, canonical on
permutations with distinct starts); `fillRuns` on a strictly sorted list is "the value of the last run
that starts at or before the slot"; `cboundsOf` chains the ranges.
-/
namespace DK.Loader

section generic
variable {V : Type}

/-- strictly increasing starts (distinct keys of a dictionary, sorted). -/
abbrev Sorted (l : List (Nat × V)) : Prop := l.Pairwise (fun x y => x.1 < y.1)

/-- weakly increasing starts. -/
abbrev SortedLE (l : List (Nat × V)) : Prop := l.Pairwise (fun x y => x.1 ≤ y.1)

/-- the value of the LAST run (in list order) whose start is `≤ t`, if any. -/
def lastLE : List (Nat × V) → Nat → Option V
  | [], _ => none
  | r :: rs, t =>
    match lastLE rs t with
    | some v => some v
    | none => if r.1 ≤ t then some r.2 else none

theorem insertRun_perm (r : Nat × V) (l : List (Nat × V)) : (insertRun r l).Perm (r :: l) := by
  induction l with
  | nil => simp [insertRun]
  | cons x xs ih =>
    simp only [insertRun]
    split
    · exact List.Perm.refl _
    · exact (List.Perm.cons x ih).trans (List.Perm.swap r x xs)

theorem sortRuns_perm (l : List (Nat × V)) : (sortRuns l).Perm l := by
  induction l with
  | nil => simp [sortRuns]
  | cons r rs ih =>
    simp only [sortRuns]
    exact (insertRun_perm r _).trans (List.Perm.cons r ih)

theorem mem_insertRun {r x : Nat × V} {l : List (Nat × V)} : x ∈ insertRun r l ↔ x = r ∨ x ∈ l := by
  rw [(insertRun_perm r l).mem_iff]; simp

theorem insertRun_sortedLE (r : Nat × V) {l : List (Nat × V)} (h : SortedLE l) :
    SortedLE (insertRun r l) := by
  induction l with
  | nil => simp [insertRun, SortedLE]
  | cons x xs ih =>
    simp only [insertRun]
    have hx := List.pairwise_cons.mp h
    split
    · rename_i hle
      refine List.pairwise_cons.mpr ⟨?_, h⟩
      intro y hy
      rcases List.mem_cons.mp hy with rfl | hy
      · exact hle
      · exact Nat.le_trans hle (hx.1 y hy)
    · rename_i hnle
      refine List.pairwise_cons.mpr ⟨?_, ih hx.2⟩
      intro y hy
      rcases mem_insertRun.mp hy with rfl | hy
      · omega
      · exact hx.1 y hy

theorem sortRuns_sortedLE (l : List (Nat × V)) : SortedLE (sortRuns l) := by
  induction l with
  | nil => simp [sortRuns, SortedLE]
  | cons r rs ih => exact insertRun_sortedLE r ih

/-- a sorted list is left alone (`sorted` of an already sorted key list). -/
theorem sortRuns_of_sortedLE {l : List (Nat × V)} (h : SortedLE l) : sortRuns l = l := by
  induction l with
  | nil => rfl
  | cons r rs ih =>
    have hx := List.pairwise_cons.mp h
    simp only [sortRuns, ih hx.2]
    cases rs with
    | nil => rfl
    | cons x xs =>
      simp only [insertRun]
      rw [if_pos (hx.1 x (List.mem_cons_self))]

theorem Sorted.sortedLE {l : List (Nat × V)} (h : Sorted l) : SortedLE l :=
  List.Pairwise.imp (fun hab => Nat.le_of_lt hab) h

theorem sortRuns_of_sorted {l : List (Nat × V)} (h : Sorted l) : sortRuns l = l :=
  sortRuns_of_sortedLE h.sortedLE

/-- distinct starts. -/
abbrev DistinctStarts (l : List (Nat × V)) : Prop := (l.map (·.1)).Nodup

theorem sortRuns_sorted {l : List (Nat × V)} (hd : DistinctStarts l) : Sorted (sortRuns l) := by
  have hd' : DistinctStarts (sortRuns l) :=
    ((sortRuns_perm l).map _).nodup_iff.mpr hd
  have h1 : (sortRuns l).Pairwise (fun x y => x.1 ≠ y.1) := by
    have := hd'
    unfold DistinctStarts List.Nodup at this
    exact List.pairwise_map.mp this
  have h2 := sortRuns_sortedLE l
  exact List.Pairwise.imp (fun ⟨a, b⟩ => by omega) (List.Pairwise.and h2 h1)

/-- the sort is canonical: any two orders of the same dictionary sort to the same list. -/
theorem sortRuns_perm_eq {l₁ l₂ : List (Nat × V)} (hp : l₁.Perm l₂) (hd : DistinctStarts l₁) :
    sortRuns l₁ = sortRuns l₂ := by
  have hd2 : DistinctStarts l₂ := (hp.map _).nodup_iff.mp hd
  refine List.Perm.eq_of_pairwise (le := fun x y => x.1 < y.1) ?_ (sortRuns_sorted hd) (sortRuns_sorted hd2) ?_
  · intro a b _ _ h1 h2; omega
  · exact (sortRuns_perm l₁).trans (hp.trans (sortRuns_perm l₂).symm)

/-! ### `lastLE` -/
theorem lastLE_none {l : List (Nat × V)} {t : Nat} : lastLE l t = none ↔ ∀ r ∈ l, t < r.1 := by
  induction l with
  | nil => simp [lastLE]
  | cons r rs ih =>
    simp only [lastLE]
    cases h : lastLE rs t with
    | some v =>
      simp only [reduceCtorEq, false_iff]
      intro hall
      have := ih.mpr (fun x hx => hall x (List.mem_cons_of_mem _ hx))
      rw [h] at this; cases this
    | none =>
      have hrs := ih.mp h
      by_cases hr : r.1 ≤ t
      · simp only [hr, if_true, reduceCtorEq, false_iff]
        intro hall
        have := hall r List.mem_cons_self
        omega
      · simp only [hr, if_false, true_iff]
        intro x hx
        rcases List.mem_cons.mp hx with rfl | hx
        · omega
        · exact hrs x hx

/-- on a strictly sorted list the last run with start `≤ t` is the one with the GREATEST start `≤ t`. -/
theorem lastLE_some {l : List (Nat × V)} (hs : Sorted l) {t : Nat} {v : V} (h : lastLE l t = some v) :
    ∃ r ∈ l, r.1 ≤ t ∧ (∀ r' ∈ l, r'.1 ≤ t → r'.1 ≤ r.1) ∧ v = r.2 := by
  induction l with
  | nil => simp [lastLE] at h
  | cons r rs ih =>
    have hx := List.pairwise_cons.mp hs
    simp only [lastLE] at h
    cases h' : lastLE rs t with
    | some w =>
      rw [h'] at h
      have hv : w = v := by simpa using h
      subst hv
      obtain ⟨q, hq, hqt, hmax, hval⟩ := ih hx.2 h'
      refine ⟨q, List.mem_cons_of_mem _ hq, hqt, ?_, hval⟩
      intro r' hr' hr't
      rcases List.mem_cons.mp hr' with rfl | hr'
      · exact Nat.le_of_lt (hx.1 q hq)
      · exact hmax r' hr' hr't
    | none =>
      rw [h'] at h
      have hnone := lastLE_none.mp h'
      by_cases hr : r.1 ≤ t
      · simp only [hr, if_true, Option.some.injEq] at h
        refine ⟨r, List.mem_cons_self, hr, ?_, h.symm⟩
        intro r' hr' hr't
        rcases List.mem_cons.mp hr' with rfl | hr'
        · exact Nat.le_refl _
        · have := hnone r' hr'; omega
      · simp [hr] at h

/-! ### `fillRuns` -/
/-- the loop, on a strictly sorted list: slot `t` ends up with the value of the last run starting at
or before `t`, or keeps its old content when there is none. -/
theorem fillRuns_sorted (basis : Nat) {l : List (Nat × V)} (hs : Sorted l) (a : Nat → V) {t : Nat}
    (ht : t < basis) : fillRuns basis l a t = (lastLE l t).getD (a t) := by
  induction l generalizing a with
  | nil => simp [fillRuns, lastLE]
  | cons r rs ih =>
    have hx := List.pairwise_cons.mp hs
    cases rs with
    | nil =>
      simp only [fillRuns, assignSlice, lastLE]
      by_cases hr : r.1 ≤ t
      · simp [hr, ht]
      · simp [hr]
    | cons r' rest =>
      simp only [fillRuns]
      rw [ih hx.2]
      simp only [lastLE]
      cases h' : lastLE (r' :: rest) t with
      | some w => simp [lastLE] at h' ⊢; simp [h']
      | none =>
        have hnone := lastLE_none.mp h'
        have h1 : t < r'.1 := hnone r' List.mem_cons_self
        simp only [lastLE] at h'
        simp only [h', Option.getD_none, assignSlice]
        by_cases hr : r.1 ≤ t
        · simp [hr, ht, h1]
        · simp [hr]

/-- nothing is written at or beyond `basis` (Python slices clip). -/
theorem fillRuns_beyond (basis : Nat) (l : List (Nat × V)) (a : Nat → V) {t : Nat} (ht : basis ≤ t) :
    fillRuns basis l a t = a t := by
  induction l generalizing a with
  | nil => rfl
  | cons r rs ih =>
    cases rs with
    | nil =>
      simp only [fillRuns, assignSlice]
      rw [if_neg (by omega)]
    | cons r' rest =>
      simp only [fillRuns]
      rw [ih]
      simp only [assignSlice]
      rw [if_neg (by omega)]

theorem hasZero_iff {l : List (Nat × V)} : hasZero l = true ↔ ∃ r ∈ l, r.1 = 0 := by
  simp [hasZero]

theorem hasZero_perm {l₁ l₂ : List (Nat × V)} (hp : l₁.Perm l₂) : hasZero l₁ = hasZero l₂ := by
  have : hasZero l₁ = true ↔ hasZero l₂ = true := by
    rw [hasZero_iff, hasZero_iff]
    constructor
    · rintro ⟨r, hr, h0⟩; exact ⟨r, hp.mem_iff.mp hr, h0⟩
    · rintro ⟨r, hr, h0⟩; exact ⟨r, hp.mem_iff.mpr hr, h0⟩
  cases h1 : hasZero l₁ <;> cases h2 : hasZero l₂ <;> simp_all

end generic

/-! ### `cboundsOf` -/
section
variable {α : Type}

theorem cboundsOf_length (basis : Nat) (l : List (Nat × (α × α))) : (cboundsOf basis l).length = l.length := by
  induction l with
  | nil => rfl
  | cons r rs ih =>
    cases rs with
    | nil => rfl
    | cons r' rest => simp only [cboundsOf, List.length_cons] at ih ⊢; omega

/-- every range produced from a sorted list starts at or after the head's start. -/
theorem cboundsOf_start_ge (basis : Nat) {l : List (Nat × (α × α))} (hs : Sorted l) :
    ∀ r rest, l = r :: rest → ∀ c ∈ cboundsOf basis l, r.1 ≤ c.s := by
  induction l with
  | nil => intro r rest h; cases h
  | cons x xs ih =>
    intro r rest h c hc
    cases h
    have hx := List.pairwise_cons.mp hs
    cases xs with
    | nil =>
      simp only [cboundsOf, List.mem_singleton] at hc
      subst hc; exact Nat.le_refl _
    | cons r' rest' =>
      simp only [cboundsOf, List.mem_cons] at hc
      rcases hc with rfl | hc
      · exact Nat.le_refl _
      · have := ih hx.2 r' rest' rfl c (by simpa [cboundsOf] using hc)
        have := hx.1 r' List.mem_cons_self
        omega

end
end DK.Loader
