import DK.Props.Defs
import Mathlib.Analysis.Calculus.Deriv.Add
import Mathlib.Analysis.Calculus.Deriv.Mul
import Mathlib.Analysis.Calculus.Deriv.Comp
import Mathlib.Analysis.Calculus.Deriv.Pow
import Mathlib.Analysis.SpecialFunctions.Pow.Deriv
import Mathlib.Tactic.Ring
import Mathlib.Tactic.Linarith
import Mathlib.Tactic.FieldSimp
import Mathlib.Tactic.Positivity
/-!
# Calculus helpers for the Hessian statements (C14)

Derivatives of the scalar marginal-cost kernels, Gateaux-gradient combinators for `IsGradAt`,
and the quadratic-form facts behind the PSD statements.
-/
namespace DK

/-! ## sums and lines -/

theorem sumTo_hasDerivAt (n : ℕ) (f : ℕ → ℝ → ℝ) (f' : ℕ → ℝ) (t : ℝ)
    (h : ∀ i < n, HasDerivAt (f i) (f' i) t) :
    HasDerivAt (fun τ => sumTo n (fun i => f i τ)) (sumTo n f') t := by
  induction n with
  | zero => simpa [sumTo] using hasDerivAt_const t (0:ℝ)
  | succ n ih =>
    simp only [sumTo]
    exact (ih (fun i hi => h i (Nat.lt_succ_of_lt hi))).add (h n (Nat.lt_succ_self n))

theorem line_hasDerivAt (s d : ℕ → ℝ) (k : ℕ) (t : ℝ) :
    HasDerivAt (fun τ => line s d τ k) (d k) t := by
  unfold line
  have h := ((hasDerivAt_id' t).mul_const (d k)).const_add (s k)
  refine h.congr_deriv ?_
  ring

@[simp] theorem line_zero (s d : ℕ → ℝ) (k : ℕ) : line s d 0 k = s k := by simp [line]

theorem line_zero_fn (s d : ℕ → ℝ) : line s d 0 = s := by funext k; simp

theorem sumTo_line_hasDerivAt (n : ℕ) (s d : ℕ → ℝ) (t : ℝ) :
    HasDerivAt (fun τ => sumTo n (line s d τ)) (sumTo n d) t :=
  sumTo_hasDerivAt n (fun k τ => line s d τ k) d t (fun k _ => line_hasDerivAt s d k t)

theorem sumRange_line_hasDerivAt (a b : ℕ) (s d : ℕ → ℝ) (t : ℝ) :
    HasDerivAt (fun τ => sumRange a b (line s d τ)) (sumRange a b d) t := by
  unfold sumRange
  exact sumTo_hasDerivAt (b - a) (fun k τ => line s d τ (a + k)) (fun k => d (a + k)) t
    (fun k _ => line_hasDerivAt s d (a + k) t)

/-- `Σ_j (if i = j then h else 0) * d j = h * d i`. -/
theorem sumTo_diag_mul (n i : ℕ) (hi : i < n) (h : ℝ) (d : ℕ → ℝ) :
    sumTo n (fun j => (if i = j then h else 0) * d j) = h * d i := by
  rw [← sumTo_single n i hi (fun k => h * d k)]
  apply sumTo_congr
  intro j _
  by_cases hij : i = j
  · subst hij; simp
  · simp [hij, Ne.symm hij]

/-! ## `IsGradAt` combinators -/

theorem IsGradAt.const (n : ℕ) (c : ℝ) (s : ℕ → ℝ) : IsGradAt n (fun _ => c) (fun _ => 0) s := by
  intro d
  simpa using hasDerivAt_const (0:ℝ) c

theorem IsGradAt.add {n : ℕ} {f f' : (ℕ → ℝ) → ℝ} {g g' s : ℕ → ℝ}
    (h : IsGradAt n f g s) (h' : IsGradAt n f' g' s) :
    IsGradAt n (fun x => f x + f' x) (fun j => g j + g' j) s := by
  intro d
  refine ((h d).add (h' d)).congr_deriv ?_
  rw [← sumTo_add]
  apply sumTo_congr
  intro k _
  ring

theorem IsGradAt.add_const {n : ℕ} {f : (ℕ → ℝ) → ℝ} {g s : ℕ → ℝ}
    (h : IsGradAt n f g s) (c : ℝ) : IsGradAt n (fun x => f x + c) g s := by
  intro d
  exact (h d).add_const c

theorem IsGradAt.congr_grad {n : ℕ} {f : (ℕ → ℝ) → ℝ} {g g' s : ℕ → ℝ}
    (h : IsGradAt n f g s) (hg : ∀ j < n, g j = g' j) : IsGradAt n f g' s := by
  intro d
  refine (h d).congr_deriv ?_
  apply sumTo_congr
  intro k hk
  rw [hg k hk]

/-- a function of slot `i` alone has the diagonal gradient. -/
theorem isGradAt_slot (n i : ℕ) (hi : i < n) (φ : ℝ → ℝ) (h : ℝ) (s : ℕ → ℝ)
    (hφ : HasDerivAt φ h (s i)) :
    IsGradAt n (fun x => φ (x i)) (fun j => if i = j then h else 0) s := by
  intro d
  have hφ' : HasDerivAt φ h (line s d 0 i) := by simpa using hφ
  have hc := HasDerivAt.comp (0:ℝ) hφ' (line_hasDerivAt s d i 0)
  refine HasDerivAt.congr_deriv hc ?_
  rw [sumTo_diag_mul n i hi]

/-- a function of the whole-vector sum has a constant gradient. -/
theorem isGradAt_sumTo_comp (n : ℕ) (φ : ℝ → ℝ) (h : ℝ) (s : ℕ → ℝ)
    (hφ : HasDerivAt φ h (sumTo n s)) :
    IsGradAt n (fun x => φ (sumTo n x)) (fun _ => h) s := by
  intro d
  have hφ' : HasDerivAt φ h (sumTo n (line s d 0)) := by simpa [line_zero_fn] using hφ
  have hc := HasDerivAt.comp (0:ℝ) hφ' (sumTo_line_hasDerivAt n s d 0)
  refine HasDerivAt.congr_deriv hc ?_
  rw [sumTo_mul_left]

/-- a function of a range sum has the indicator-of-the-range gradient. -/
theorem isGradAt_sumRange_comp (n a b : ℕ) (hb : b ≤ n) (φ : ℝ → ℝ) (h : ℝ) (s : ℕ → ℝ)
    (hφ : HasDerivAt φ h (sumRange a b s)) :
    IsGradAt n (fun x => φ (sumRange a b x)) (fun j => if a ≤ j ∧ j < b then h else 0) s := by
  intro d
  have hφ' : HasDerivAt φ h (sumRange a b (line s d 0)) := by simpa [line_zero_fn] using hφ
  have hc := HasDerivAt.comp (0:ℝ) hφ' (sumRange_line_hasDerivAt a b s d 0)
  refine HasDerivAt.congr_deriv hc ?_
  rw [sumRange_eq_sumTo_ite n a b hb, ← sumTo_mul_left]
  apply sumTo_congr
  intro k _
  by_cases hk : a ≤ k ∧ k < b <;> simp [hk]

/-! ## scalar kernels -/

theorem hlqDeriv_hasDerivAt (pl ph xl xh x : ℝ) :
    HasDerivAt (fun x => hlqDeriv pl ph xl xh x) (hlqHess pl ph xl xh) x := by
  unfold hlqDeriv hlqHess
  by_cases h : xl = xh
  · simp [h, hasDerivAt_const]
  · simp only [h, if_false]
    have h1 : HasDerivAt (fun x : ℝ => (x - xl) / (xh - xl)) (1 / (xh - xl)) x :=
      ((hasDerivAt_id' x).sub_const xl).div_const (xh - xl)
    have h2 := (h1.const_mul (ph - pl)).add_const pl
    refine HasDerivAt.congr_deriv h2 ?_
    ring

theorem hlqHess_nonneg (pl ph xl xh : ℝ) (hp : pl ≤ ph) (hx : xl ≤ xh) : 0 ≤ hlqHess pl ph xl xh := by
  unfold hlqHess
  split_ifs
  · exact le_refl 0
  · exact div_nonneg (by linarith) (by linarith)

theorem abcQ_hasDerivAt (x xl xh a : ℝ) :
    HasDerivAt (fun x => abcQ x xl xh a) (-(1 - a) / (xh - xl)) x := by
  unfold abcQ abcS
  have h1 : HasDerivAt (fun x : ℝ => (xh - x) / (xh - xl)) (-1 / (xh - xl)) x :=
    ((hasDerivAt_id' x).const_sub xh).div_const (xh - xl)
  have h2 := ((h1.const_sub 1).mul_const a).add h1
  refine HasDerivAt.congr_deriv h2 ?_
  ring

/-- real exponent, away from `q = 0`. -/
theorem abcDeriv_rpow_hasDerivAt (x a b c xl xh : ℝ) (hq : xl = xh ∨ 0 < abcQ x xl xh a) :
    HasDerivAt (fun x => abcDeriv Real.rpow id x a b c xl xh) (abcHess Real.rpow id x a b c xl xh) x := by
  unfold abcDeriv abcHess
  by_cases h : xl = xh
  · simp [h, hasDerivAt_const]
  · simp only [h, if_false, id, Real.rpow_eq_pow]
    have hq' : 0 < abcQ x xl xh a := hq.resolve_left h
    have h1 := (abcQ_hasDerivAt x xl xh a).rpow_const (p := b - 1) (Or.inl (ne_of_gt hq'))
    have h2 := ((h1.const_mul (-c * b)).mul_const (1 - a)).div_const (xh - xl)
    refine HasDerivAt.congr_deriv h2 ?_
    have e : b - 1 - 1 = b - 2 := by ring
    rw [e]
    ring

theorem ipow_natCast (q : ℝ) (m : ℕ) : ipow q (m : ℤ) = q ^ m := by
  unfold ipow
  simp

theorem intCast'_eq (k : ℤ) : (intCast' k : ℝ) = (k : ℝ) := by
  unfold intCast'
  split_ifs with h
  · obtain ⟨m, rfl⟩ := Int.eq_ofNat_of_zero_le h
    simp
  · obtain ⟨m, hm⟩ := Int.eq_ofNat_of_zero_le (show 0 ≤ -k by omega)
    have hk : k = -(m : ℤ) := by omega
    subst hk
    simp

/-- integer exponent `b ≥ 1`: no positivity of `q` needed. -/
theorem abcDeriv_ipow_hasDerivAt (x a : ℝ) (b : ℤ) (c xl xh : ℝ) (hb : 1 ≤ b) :
    HasDerivAt (fun x => abcDeriv ipow intCast' x a b c xl xh) (abcHess ipow intCast' x a b c xl xh) x := by
  unfold abcDeriv abcHess
  by_cases h : xl = xh
  · simp [h, hasDerivAt_const]
  · simp only [h, if_false, intCast'_eq]
    obtain ⟨m, rfl⟩ : ∃ m : ℕ, b = (m : ℤ) + 1 := ⟨(b - 1).toNat, by omega⟩
    have e1 : ((m : ℤ) + 1 - 1) = (m : ℤ) := by ring
    rw [e1]
    simp only [ipow_natCast]
    rcases m with _ | m
    · -- b = 1: the marginal cost is constant
      simp only [Nat.cast_zero, pow_zero, zero_add, Int.cast_one, sub_self, mul_zero, zero_mul]
      exact hasDerivAt_const x _
    · have e2 : (((m + 1 : ℕ) : ℤ) + 1 - 2) = (m : ℤ) := by push_cast; ring
      rw [e2, ipow_natCast]
      have h1 := (abcQ_hasDerivAt x xl xh a).pow (m + 1)
      have h2 := ((h1.const_mul (-c * (((m + 1 : ℕ) : ℤ) + 1 : ℤ))).mul_const (1 - a)).div_const (xh - xl)
      refine HasDerivAt.congr_deriv h2 ?_
      simp only [Nat.add_sub_cancel]
      push_cast
      ring

theorem abcHess_rpow_nonneg (x a b c xl xh : ℝ) (hb : 1 ≤ b) (hc : 0 ≤ c) (hq : 0 ≤ abcQ x xl xh a) :
    0 ≤ abcHess Real.rpow id x a b c xl xh := by
  unfold abcHess
  split_ifs
  · exact le_refl 0
  · simp only [id, Real.rpow_eq_pow]
    have h1 : 0 ≤ abcQ x xl xh a ^ (b - 2) := Real.rpow_nonneg hq _
    have h2 : 0 ≤ b := by linarith
    have h3 : 0 ≤ b - 1 := by linarith
    exact mul_nonneg (mul_nonneg (mul_nonneg (mul_nonneg hc h2) h3) h1) (mul_self_nonneg _)

/-! ## polynomials (Horner form, highest degree first) -/

theorem polyEval_foldl (cs : List ℝ) (acc x : ℝ) :
    cs.foldl (fun acc c => acc * x + c) acc = acc * x ^ cs.length + polyEval cs x := by
  unfold polyEval
  induction cs using List.reverseRecOn with
  | nil => simp
  | append_singleton cs c ih =>
    simp only [List.foldl_append, List.foldl_cons, List.foldl_nil, List.length_append,
      List.length_singleton]
    rw [ih]
    ring

theorem polyEval_nil (x : ℝ) : polyEval ([] : List ℝ) x = 0 := rfl

theorem polyEval_cons (c : ℝ) (cs : List ℝ) (x : ℝ) :
    polyEval (c :: cs) x = c * x ^ cs.length + polyEval cs x := by
  have := polyEval_foldl cs c x
  unfold polyEval at *
  simpa using this

theorem polyDer_length (cs : List ℝ) : (polyDer cs).length = cs.length - 1 := by
  induction cs with
  | nil => rfl
  | cons c cs ih =>
    cases cs with
    | nil => rfl
    | cons d ds =>
      simp only [polyDer, List.length_cons] at ih ⊢
      omega

theorem polyEval_polyDer_cons (c : ℝ) (cs : List ℝ) (x : ℝ) :
    polyEval (polyDer (c :: cs)) x
      = (cs.length : ℝ) * c * x ^ (cs.length - 1) + polyEval (polyDer cs) x := by
  cases cs with
  | nil => simp [polyDer, polyEval_nil]
  | cons d ds =>
    simp only [polyDer]
    rw [polyEval_cons, natCast'_eq]
    have := polyDer_length (d :: ds)
    rw [this]

theorem polyEval_hasDerivAt (cs : List ℝ) (x : ℝ) :
    HasDerivAt (fun x => polyEval cs x) (polyEval (polyDer cs) x) x := by
  induction cs with
  | nil => simpa [polyEval_nil, polyDer] using hasDerivAt_const x (0:ℝ)
  | cons c cs ih =>
    have hf : (fun x => polyEval (c :: cs) x) = fun x => c * x ^ cs.length + polyEval cs x := by
      funext y; exact polyEval_cons c cs y
    rw [hf, polyEval_polyDer_cons]
    have h1 := ((hasDerivAt_pow cs.length x).const_mul c).add ih
    refine HasDerivAt.congr_deriv h1 ?_
    ring

/-! ## quadratic forms -/

/-- a diagonal matrix with non-negative entries is PSD. -/
theorem quad_diag_nonneg (n : ℕ) (h v : ℕ → ℝ) (hh : ∀ i < n, 0 ≤ h i) :
    0 ≤ sumTo n (fun i => sumTo n (fun j => v i * (if i = j then h i else 0) * v j)) := by
  apply sumTo_nonneg
  intro i hi
  have : sumTo n (fun j => v i * (if i = j then h i else 0) * v j) = v i * h i * v i := by
    rw [← sumTo_single n i hi (fun k => v i * h i * v k)]
    apply sumTo_congr
    intro j _
    by_cases hij : i = j
    · subst hij; simp
    · simp [hij, Ne.symm hij]
  rw [this]
  have := mul_nonneg (hh i hi) (mul_self_nonneg (v i))
  linarith [this]

/-- `vᵀ (h·u uᵀ) v = h (u·v)²`. -/
theorem quad_rank_one (n : ℕ) (h : ℝ) (u v : ℕ → ℝ) :
    sumTo n (fun i => sumTo n (fun j => v i * (h * u i * u j) * v j))
      = h * (sumTo n (fun k => u k * v k) * sumTo n (fun k => u k * v k)) := by
  have e1 : ∀ i, sumTo n (fun j => v i * (h * u i * u j) * v j)
      = (v i * (h * u i)) * sumTo n (fun k => u k * v k) := by
    intro i
    rw [← sumTo_mul_left]
    apply sumTo_congr; intro j _; ring
  simp only [e1]
  rw [sumTo_mul_right]
  have e2 : sumTo n (fun i => v i * (h * u i)) = h * sumTo n (fun k => u k * v k) := by
    rw [← sumTo_mul_left]
    apply sumTo_congr; intro j _; ring
  rw [e2]; ring

theorem quad_rank_one_nonneg (n : ℕ) (h : ℝ) (hh : 0 ≤ h) (u v : ℕ → ℝ) :
    0 ≤ sumTo n (fun i => sumTo n (fun j => v i * (h * u i * u j) * v j)) := by
  rw [quad_rank_one]
  exact mul_nonneg hh (mul_self_nonneg _)

theorem quad_add (n : ℕ) (H H' : ℕ → ℕ → ℝ) (v : ℕ → ℝ) :
    sumTo n (fun i => sumTo n (fun j => v i * (H i j + H' i j) * v j))
      = sumTo n (fun i => sumTo n (fun j => v i * H i j * v j))
        + sumTo n (fun i => sumTo n (fun j => v i * H' i j * v j)) := by
  rw [← sumTo_add]
  apply sumTo_congr; intro i _
  rw [← sumTo_add]
  apply sumTo_congr; intro j _
  ring

end DK
