import DK.Props.Defs
import DK.Lemmas.Calc
import Mathlib.Analysis.Calculus.Deriv.Add
import Mathlib.Analysis.Calculus.Deriv.Mul
import Mathlib.Analysis.Calculus.Deriv.Comp
import Mathlib.Analysis.Calculus.Deriv.Pow
import Mathlib.Analysis.SpecialFunctions.Pow.Deriv
import Mathlib.Tactic.Ring
import Mathlib.Tactic.Linarith
import Mathlib.Tactic.FieldSimp
import Mathlib.Tactic.Positivity
/-!
# Calculus helpers for the Hessian statements (C14)

Derivatives of the scalar marginal-cost kernels, Gateaux-gradient combinators for `IsGradAt`,
and the quadratic-form facts behind the PSD statements.
-/
namespace DK

/-! ## sums and lines -/

theorem line_zero_fn (s d : ℕ → ℝ) : line s d 0 = s := line_zero s d

/-- `Σ_j (if i = j then h else 0) * d j = h * d i`. -/
theorem sumTo_diag_mul (n i : ℕ) (hi : i < n) (h : ℝ) (d : ℕ → ℝ) :
    sumTo n (fun j => (if i = j then h else 0) * d j) = h * d i := by
  rw [← sumTo_single n i hi (fun k => h * d k)]
  apply sumTo_congr
  intro j _
  by_cases hij : i = j
  · subst hij; simp
  · simp [hij, Ne.symm hij]

/-! ## `IsGradAt` combinators -/

theorem IsGradAt.const (n : ℕ) (c : ℝ) (s : ℕ → ℝ) : IsGradAt n (fun _ => c) (fun _ => 0) s := by
  intro d
  simpa using hasDerivAt_const (0:ℝ) c

theorem IsGradAt.add_const {n : ℕ} {f : (ℕ → ℝ) → ℝ} {g s : ℕ → ℝ}
    (h : IsGradAt n f g s) (c : ℝ) : IsGradAt n (fun x => f x + c) g s := by
  intro d
  exact (h d).add_const c

/-- a function of slot `i` alone has the diagonal gradient. -/
theorem isGradAt_slot (n i : ℕ) (hi : i < n) (φ : ℝ → ℝ) (h : ℝ) (s : ℕ → ℝ)
    (hφ : HasDerivAt φ h (s i)) :
    IsGradAt n (fun x => φ (x i)) (fun j => if i = j then h else 0) s := by
  intro d
  have hφ' : HasDerivAt φ h (line s d 0 i) := by simpa using hφ
  have hc := HasDerivAt.comp (0:ℝ) hφ' (line_hasDerivAt s d i 0)
  refine HasDerivAt.congr_deriv hc ?_
  rw [sumTo_diag_mul n i hi]

/-- a function of the whole-vector sum has a constant gradient. -/
theorem isGradAt_sumTo_comp (n : ℕ) (φ : ℝ → ℝ) (h : ℝ) (s : ℕ → ℝ)
    (hφ : HasDerivAt φ h (sumTo n s)) :
    IsGradAt n (fun x => φ (sumTo n x)) (fun _ => h) s := by
  intro d
  have hφ' : HasDerivAt φ h (sumTo n (line s d 0)) := by simpa [line_zero_fn] using hφ
  have hc := HasDerivAt.comp (0:ℝ) hφ' (sumTo_line_hasDerivAt n s d 0)
  refine HasDerivAt.congr_deriv hc ?_
  rw [sumTo_mul_left]

/-- a function of a range sum has the indicator-of-the-range gradient. -/
theorem isGradAt_sumRange_comp (n a b : ℕ) (hb : b ≤ n) (φ : ℝ → ℝ) (h : ℝ) (s : ℕ → ℝ)
    (hφ : HasDerivAt φ h (sumRange a b s)) :
    IsGradAt n (fun x => φ (sumRange a b x)) (fun j => if a ≤ j ∧ j < b then h else 0) s := by
  intro d
  have hφ' : HasDerivAt φ h (sumRange a b (line s d 0)) := by simpa [line_zero_fn] using hφ
  have hc := HasDerivAt.comp (0:ℝ) hφ' (sumRange_line_hasDerivAt a b s d 0)
  refine HasDerivAt.congr_deriv hc ?_
  rw [sumRange_eq_sumTo_ite n a b hb, ← sumTo_mul_left]
  apply sumTo_congr
  intro k _
  by_cases hk : a ≤ k ∧ k < b <;> simp [hk]

/-! ## scalar kernels -/

theorem hlqHess_nonneg (pl ph xl xh : ℝ) (hp : pl ≤ ph) (hx : xl ≤ xh) : 0 ≤ hlqHess pl ph xl xh := by
  unfold hlqHess
  split_ifs
  · exact le_refl 0
  · exact div_nonneg (by linarith) (by linarith)

theorem abcHess_rpow_nonneg (x a b c xl xh : ℝ) (hb : 1 ≤ b) (hc : 0 ≤ c) (hq : 0 ≤ abcQ x xl xh a) :
    0 ≤ abcHess Real.rpow id x a b c xl xh := by
  unfold abcHess
  split_ifs
  · exact le_refl 0
  · simp only [id, Real.rpow_eq_pow]
    have h1 : 0 ≤ abcQ x xl xh a ^ (b - 2) := Real.rpow_nonneg hq _
    have h2 : 0 ≤ b := by linarith
    have h3 : 0 ≤ b - 1 := by linarith
    exact mul_nonneg (mul_nonneg (mul_nonneg (mul_nonneg hc h2) h3) h1) (mul_self_nonneg _)

/-! ## polynomials (Horner form, highest degree first) -/

theorem polyEval_polyDer_cons (c : ℝ) (cs : List ℝ) (x : ℝ) :
    polyEval (polyDer (c :: cs)) x
      = (cs.length : ℝ) * c * x ^ (cs.length - 1) + polyEval (polyDer cs) x := by
  cases cs with
  | nil => simp [polyDer, polyEval_nil]
  | cons d ds =>
    simp only [polyDer]
    rw [polyEval_cons, natCast'_eq]
    have := polyDer_length (d :: ds)
    rw [this]

/-! ## quadratic forms -/

/-- a diagonal matrix with non-negative entries is PSD. -/
theorem quad_diag_nonneg (n : ℕ) (h v : ℕ → ℝ) (hh : ∀ i < n, 0 ≤ h i) :
    0 ≤ sumTo n (fun i => sumTo n (fun j => v i * (if i = j then h i else 0) * v j)) := by
  apply sumTo_nonneg
  intro i hi
  have : sumTo n (fun j => v i * (if i = j then h i else 0) * v j) = v i * h i * v i := by
    rw [← sumTo_single n i hi (fun k => v i * h i * v k)]
    apply sumTo_congr
    intro j _
    by_cases hij : i = j
    · subst hij; simp
    · simp [hij, Ne.symm hij]
  rw [this]
  have := mul_nonneg (hh i hi) (mul_self_nonneg (v i))
  linarith [this]

/-- `vᵀ (h·u uᵀ) v = h (u·v)²`. -/
theorem quad_rank_one (n : ℕ) (h : ℝ) (u v : ℕ → ℝ) :
    sumTo n (fun i => sumTo n (fun j => v i * (h * u i * u j) * v j))
      = h * (sumTo n (fun k => u k * v k) * sumTo n (fun k => u k * v k)) := by
  have e1 : ∀ i, sumTo n (fun j => v i * (h * u i * u j) * v j)
      = (v i * (h * u i)) * sumTo n (fun k => u k * v k) := by
    intro i
    rw [← sumTo_mul_left]
    apply sumTo_congr; intro j _; ring
  simp only [e1]
  rw [sumTo_mul_right]
  have e2 : sumTo n (fun i => v i * (h * u i)) = h * sumTo n (fun k => u k * v k) := by
    rw [← sumTo_mul_left]
    apply sumTo_congr; intro j _; ring
  rw [e2]; ring

theorem quad_rank_one_nonneg (n : ℕ) (h : ℝ) (hh : 0 ≤ h) (u v : ℕ → ℝ) :
    0 ≤ sumTo n (fun i => sumTo n (fun j => v i * (h * u i * u j) * v j)) := by
  rw [quad_rank_one]
  exact mul_nonneg hh (mul_self_nonneg _)

theorem quad_add (n : ℕ) (H H' : ℕ → ℕ → ℝ) (v : ℕ → ℝ) :
    sumTo n (fun i => sumTo n (fun j => v i * (H i j + H' i j) * v j))
      = sumTo n (fun i => sumTo n (fun j => v i * H i j * v j))
        + sumTo n (fun i => sumTo n (fun j => v i * H' i j * v j)) := by
  rw [← sumTo_add]
  apply sumTo_congr; intro i _
  rw [← sumTo_add]
  apply sumTo_congr; intro j _
  ring

end DK
