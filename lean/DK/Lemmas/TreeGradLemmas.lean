import DK.Props.Defs
import DK.Lemmas.TreeLemmas
import DK.Lemmas.Calc
import Mathlib.Analysis.Calculus.Deriv.Add
import Mathlib.Analysis.Calculus.Deriv.Slope
/-!
# Helper lemmas for `DK/Props/TreeGrad.lean`

* `Tree.isMGrad_gen` / `costL_isMGrad_gen`: the marginal-cost matrix of a tree is the gradient of the tree
  cost as soon as every block's is, by mutual structural induction over `Tree` / `List Tree`
  (generalised over id-prefix, row offset and shifted matrices like everything in `TreeLemmas.lean`);
* `grad_ineq_mat`: the gradient inequality `Σ J·(T − S) ≤ f T − f S` from a matrix Gateaux gradient and
  the chord inequality between `S` and `T` (limit of the chord slopes, as in `DK.C07.first_order_certificate`).
-/
namespace DK

/-- a sum over `k + m` rows of a row-wise case split is the sum of the two parts. -/
theorem sumTo_add_ite (k m : ℕ) (A B : ℕ → ℝ) :
    sumTo (k + m) (fun r => if r < k then A r else B (r - k)) = sumTo k A + sumTo m B := by
  rw [sumTo_split (k + m) k (Nat.le_add_right k m)]
  simp only [Nat.add_sub_cancel_left]
  congr 1
  · exact sumTo_congr (fun r hr => by simp only [if_pos hr])
  · refine sumTo_congr (fun r _ => ?_)
    have h : ¬ k + r < k := by omega
    simp only [if_neg h, Nat.add_sub_cancel_left]

mutual
/-- **gradient of a tree from the gradients of its blocks** (generalised form). -/
theorem Tree.isMGrad_gen (n : ℕ) (pre : String) (off : ℕ) (S P : Mat ℝ) :
    (t : Tree ℝ) →
      (∀ x ∈ t.blocks pre off, IsMGradAt x.2.2.rows n (fun S' => x.2.2.cost S' (shiftRows x.2.1 P))
        (x.2.2.deriv (shiftRows x.2.1 S) (shiftRows x.2.1 P)) (shiftRows x.2.1 S)) →
      IsMGradAt t.rows n (fun S' => t.cost S' (shiftRows off P))
        (t.deriv (shiftRows off S) (shiftRows off P)) (shiftRows off S)
  | .block b, h => h (pre, off, b) (by simp [Tree.blocks])
  | .node id own cs, h => costL_isMGrad_gen n (pre ++ id ++ ".") off S P cs h
theorem costL_isMGrad_gen (n : ℕ) (pre : String) (off : ℕ) (S P : Mat ℝ) :
    (ts : List (Tree ℝ)) →
      (∀ x ∈ blocksL ts pre off, IsMGradAt x.2.2.rows n (fun S' => x.2.2.cost S' (shiftRows x.2.1 P))
        (x.2.2.deriv (shiftRows x.2.1 S) (shiftRows x.2.1 P)) (shiftRows x.2.1 S)) →
      IsMGradAt (rowsL ts) n (fun S' => costL ts S' (shiftRows off P))
        (derivL ts (shiftRows off S) (shiftRows off P)) (shiftRows off S)
  | [], _ => by
    intro D
    simp only [costL, rowsL, sumTo]
    exact hasDerivAt_const _ _
  | t :: ts, h => by
    simp only [blocksL, List.forall_mem_append] at h
    intro D
    have h1 := Tree.isMGrad_gen n pre off S P t h.1 D
    have h2 := costL_isMGrad_gen n pre (off + t.rows) S P ts h.2 (shiftRows t.rows D)
    rw [← shiftRows_shiftRows t.rows off S, ← shiftRows_shiftRows t.rows off P] at h2
    have h3 := h1.add h2
    refine HasDerivAt.congr_deriv h3 ?_
    simp only [rowsL, derivL]
    have e := sumTo_add_ite t.rows (rowsL ts)
      (fun r => sumTo n (fun i => t.deriv (shiftRows off S) (shiftRows off P) r i * D r i))
      (fun r => sumTo n (fun i => derivL ts (shiftRows t.rows (shiftRows off S))
        (shiftRows t.rows (shiftRows off P)) r i * shiftRows t.rows D r i))
    rw [← e]
    refine sumTo_congr (fun r hr => ?_)
    by_cases hrt : r < t.rows
    · simp only [if_pos hrt]
    · simp only [if_neg hrt]
      have : t.rows + (r - t.rows) = r := by omega
      simp only [shiftRows, this]
end

/-- the matrix moved from `S` a step `τ` towards `T` is `mmix`-free: `S + τ·(T − S) = τ·T + (1−τ)·S`. -/
theorem seg_mat_eq (S T : Mat ℝ) (τ : ℝ) :
    (fun r i => S r i + τ * (T r i - S r i)) = fun r i => τ * T r i + (1 - τ) * S r i := by
  funext r i; ring

/-- **gradient inequality**: if `J` is the (Gateaux) gradient of `f` at `S` over the `R × n` window and
`f` satisfies the chord inequality between `T` and `S`, then `Σ J·(T − S) ≤ f T − f S`. -/
theorem grad_ineq_mat (R n : ℕ) (f : Mat ℝ → ℝ) (J : ℕ → ℕ → ℝ) (S T : Mat ℝ)
    (hg : IsMGradAt R n f J S)
    (hc : ∀ τ : ℝ, 0 ≤ τ → τ ≤ 1 →
      f (fun r i => τ * T r i + (1 - τ) * S r i) ≤ τ * f T + (1 - τ) * f S) :
    sumTo R (fun r => sumTo n (fun i => J r i * (T r i - S r i))) ≤ f T - f S := by
  have hd := hg (fun r i => T r i - S r i)
  have hlim := hd.tendsto_slope_zero_right
  refine le_of_tendsto hlim ?_
  filter_upwards [Ioo_mem_nhdsGT (zero_lt_one' ℝ)] with τ hτ
  obtain ⟨h0, h1⟩ := hτ
  have e0 : (fun r i => S r i + (0:ℝ) * (T r i - S r i)) = S := by
    funext r i; ring
  simp only [zero_add, seg_mat_eq, smul_eq_mul]
  rw [← seg_mat_eq S T 0, e0]
  have := hc τ h0.le h1.le
  rw [inv_mul_le_iff₀ h0]
  linarith

end DK
