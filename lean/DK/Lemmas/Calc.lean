import DK.Props.Defs
import Mathlib.Analysis.Calculus.Deriv.Basic
import Mathlib.Analysis.Calculus.Deriv.Add
import Mathlib.Analysis.Calculus.Deriv.Mul
import Mathlib.Analysis.Calculus.Deriv.Comp
import Mathlib.Analysis.Calculus.Deriv.Pow
import Mathlib.Analysis.SpecialFunctions.Pow.Deriv
import Mathlib.Tactic.Ring
import Mathlib.Tactic.Linarith
import Mathlib.Tactic.FieldSimp
/-!
# Reusable calculus lemmas for the model kernels (over `ℝ`)

Derivatives of `sumTo`, `line`, the high/low quadratic kernel, the ABC kernel (with `Real.rpow` and
with the executable integer power `ipow`), Horner polynomials, and the combinators that turn
per-slot derivatives into `IsGradAt` statements.
-/
namespace DK
open DK

/-! ## sums and the line `s + τ·d` -/

theorem sumTo_hasDerivAt (n : ℕ) (f : ℕ → ℝ → ℝ) (f' : ℕ → ℝ) (t : ℝ)
    (h : ∀ i < n, HasDerivAt (f i) (f' i) t) :
    HasDerivAt (fun τ => sumTo n (fun i => f i τ)) (sumTo n f') t := by
  induction n with
  | zero => simpa [sumTo] using hasDerivAt_const t (0:ℝ)
  | succ n ih =>
    simp only [sumTo]
    exact (ih (fun i hi => h i (Nat.lt_succ_of_lt hi))).add (h n (Nat.lt_succ_self n))

@[simp] theorem line_zero (s d : ℕ → ℝ) : line s d 0 = s := by
  funext k; simp [line]

theorem line_apply (s d : ℕ → ℝ) (τ : ℝ) (k : ℕ) : line s d τ k = s k + τ * d k := rfl

/-- pointwise form of `line_zero` (for `rw` at a single slot). -/
theorem line_zero_apply (s d : ℕ → ℝ) (k : ℕ) : line s d 0 k = s k := by rw [line_zero]

theorem line_hasDerivAt (s d : ℕ → ℝ) (k : ℕ) (t : ℝ) :
    HasDerivAt (fun τ => line s d τ k) (d k) t := by
  unfold line
  have h := ((hasDerivAt_id t).mul_const (d k)).const_add (s k)
  refine HasDerivAt.congr_deriv h ?_
  ring

theorem sumTo_line_hasDerivAt (n : ℕ) (s d : ℕ → ℝ) (t : ℝ) :
    HasDerivAt (fun τ => sumTo n (line s d τ)) (sumTo n d) t :=
  sumTo_hasDerivAt n (fun k τ => line s d τ k) d t (fun k _ => line_hasDerivAt s d k t)

theorem sumRange_line_hasDerivAt (a b : ℕ) (s d : ℕ → ℝ) (t : ℝ) :
    HasDerivAt (fun τ => sumRange a b (line s d τ)) (sumRange a b d) t := by
  unfold sumRange
  exact sumTo_hasDerivAt (b - a) (fun k τ => line s d τ (a + k)) (fun k => d (a + k)) t
    (fun k _ => line_hasDerivAt s d (a + k) t)

/-- per-slot chain rule: a sum of one-variable functions of the slots, along a line. -/
theorem sumTo_comp_line_hasDerivAt (n : ℕ) (φ : ℕ → ℝ → ℝ) (φ' : ℕ → ℝ) (s d : ℕ → ℝ)
    (h : ∀ k < n, HasDerivAt (φ k) (φ' k) (s k)) :
    HasDerivAt (fun τ => sumTo n (fun k => φ k (line s d τ k))) (sumTo n (fun k => φ' k * d k)) 0 := by
  refine sumTo_hasDerivAt n (fun k τ => φ k (line s d τ k)) (fun k => φ' k * d k) 0 ?_
  intro k hk
  exact (h k hk).comp_of_eq 0 (line_hasDerivAt s d k 0) (by simp [line])

/-- a one-variable function of the total flow, along a line. -/
theorem comp_sumTo_line_hasDerivAt (n : ℕ) (φ : ℝ → ℝ) (φ' : ℝ) (s d : ℕ → ℝ)
    (h : HasDerivAt φ φ' (sumTo n s)) :
    HasDerivAt (fun τ => φ (sumTo n (line s d τ))) (φ' * sumTo n d) 0 :=
  h.comp_of_eq 0 (sumTo_line_hasDerivAt n s d 0) (by simp)

/-- a one-variable function of a range sum, along a line. -/
theorem comp_sumRange_line_hasDerivAt (a b : ℕ) (φ : ℝ → ℝ) (φ' : ℝ) (s d : ℕ → ℝ)
    (h : HasDerivAt φ φ' (sumRange a b s)) :
    HasDerivAt (fun τ => φ (sumRange a b (line s d τ))) (φ' * sumRange a b d) 0 :=
  h.comp_of_eq 0 (sumRange_line_hasDerivAt a b s d 0) (by simp)

/-! ## `IsGradAt` combinators -/

theorem IsGradAt.add {n : ℕ} {f₁ f₂ : (ℕ → ℝ) → ℝ} {g₁ g₂ s : ℕ → ℝ}
    (h₁ : IsGradAt n f₁ g₁ s) (h₂ : IsGradAt n f₂ g₂ s) :
    IsGradAt n (fun x => f₁ x + f₂ x) (fun k => g₁ k + g₂ k) s := by
  intro d
  refine HasDerivAt.congr_deriv ((h₁ d).add (h₂ d)) ?_
  rw [← sumTo_add]
  exact sumTo_congr (fun k _ => by ring)

theorem IsGradAt.congr_grad {n : ℕ} {f : (ℕ → ℝ) → ℝ} {g g' s : ℕ → ℝ}
    (h : IsGradAt n f g s) (hg : ∀ k < n, g k = g' k) : IsGradAt n f g' s := by
  intro d
  refine HasDerivAt.congr_deriv (h d) ?_
  exact sumTo_congr (fun k hk => by rw [hg k hk])

/-- separable functions: the gradient is the vector of per-slot derivatives. -/
theorem isGradAt_sumTo (n : ℕ) (φ : ℕ → ℝ → ℝ) (φ' : ℕ → ℝ) (s : ℕ → ℝ)
    (h : ∀ k < n, HasDerivAt (φ k) (φ' k) (s k)) :
    IsGradAt n (fun x => sumTo n (fun k => φ k (x k))) φ' s :=
  fun d => sumTo_comp_line_hasDerivAt n φ φ' s d h

/-- functions of the total flow: every slot sees the same slope. -/
theorem isGradAt_comp_sumTo (n : ℕ) (φ : ℝ → ℝ) (φ' : ℝ) (s : ℕ → ℝ)
    (h : HasDerivAt φ φ' (sumTo n s)) :
    IsGradAt n (fun x => φ (sumTo n x)) (fun _ => φ') s := by
  intro d
  refine HasDerivAt.congr_deriv (comp_sumTo_line_hasDerivAt n φ φ' s d h) ?_
  rw [sumTo_mul_left]

/-- functions of a range sum inside the horizon: slots in the range see the slope, the others `0`. -/
theorem isGradAt_comp_sumRange (n a b : ℕ) (hb : b ≤ n) (φ : ℝ → ℝ) (φ' : ℝ) (s : ℕ → ℝ)
    (h : HasDerivAt φ φ' (sumRange a b s)) :
    IsGradAt n (fun x => φ (sumRange a b x)) (fun k => if a ≤ k ∧ k < b then φ' else 0) s := by
  intro d
  refine HasDerivAt.congr_deriv (comp_sumRange_line_hasDerivAt a b φ φ' s d h) ?_
  rw [sumRange_eq_sumTo_ite n a b hb, ← sumTo_mul_left]
  refine sumTo_congr (fun k _ => ?_)
  by_cases hk : a ≤ k ∧ k < b <;> simp [hk]

theorem isGradAt_const (n : ℕ) (c : ℝ) (s : ℕ → ℝ) : IsGradAt n (fun _ => c) (fun _ => 0) s := by
  intro d
  simpa using hasDerivAt_const (0:ℝ) c

/-- the numeraire term `Σ s·p` has gradient `p`. -/
theorem priceTerm_isGradAt (n : ℕ) (s p : ℕ → ℝ) : IsGradAt n (fun x => priceTerm n x p) p s := by
  unfold priceTerm
  exact isGradAt_sumTo n (fun k y => y * p k) p s
    (fun k _ => by simpa using (hasDerivAt_id (s k)).mul_const (p k))

/-! ## high/low quadratic kernel -/

theorem hlqCost_hasDerivAt (pl ph xl xh x : ℝ) :
    HasDerivAt (fun x => hlqCost pl ph xl xh x) (hlqDeriv pl ph xl xh x) x := by
  unfold hlqCost hlqDeriv
  by_cases h : xl = xh
  · simp [h, hasDerivAt_const]
  · simp only [h, if_false]
    have hd : xh - xl ≠ 0 := sub_ne_zero.mpr (Ne.symm h)
    have h1 : HasDerivAt (fun x : ℝ => (x - xl) / (xh - xl)) (1 / (xh - xl)) x := by
      simpa using ((hasDerivAt_id x).sub_const xl).div_const (xh - xl)
    have key : ∀ C : ℝ, HasDerivAt
        (fun x => (xh - xl) * ((ph - pl) / 2 * ((x - xl) / (xh - xl)) * ((x - xl) / (xh - xl))
          + pl * ((x - xl) / (xh - xl))) - C * (xh - xl))
        ((ph - pl) * ((x - xl) / (xh - xl)) + pl) x := by
      intro C
      have h2 := ((((h1.const_mul ((ph - pl) / 2)).mul h1).add (h1.const_mul pl)).const_mul
        (xh - xl)).sub_const (C * (xh - xl))
      refine HasDerivAt.congr_deriv h2 ?_
      field_simp
      ring
    exact key _

theorem hlqDeriv_hasDerivAt (pl ph xl xh x : ℝ) :
    HasDerivAt (fun x => hlqDeriv pl ph xl xh x) (hlqHess pl ph xl xh) x := by
  unfold hlqDeriv hlqHess
  by_cases h : xl = xh
  · simp [h, hasDerivAt_const]
  · simp only [h, if_false]
    have h2 := ((((hasDerivAt_id x).sub_const xl).div_const (xh - xl)).const_mul (ph - pl)).add_const pl
    refine HasDerivAt.congr_deriv h2 ?_
    ring

/-! ## ABC kernel -/

theorem abcQ_hasDerivAt' (x xl xh a : ℝ) :
    HasDerivAt (fun x => abcQ x xl xh a) (-(1 - a) / (xh - xl)) x := by
  unfold abcQ abcS
  have hs : HasDerivAt (fun x : ℝ => (xh - x) / (xh - xl)) ((0 - 1) / (xh - xl)) x :=
    ((hasDerivAt_const x xh).sub (hasDerivAt_id x)).div_const (xh - xl)
  have h2 := (((hasDerivAt_const x (1:ℝ)).sub hs).mul_const a).add hs
  refine HasDerivAt.congr_deriv h2 ?_
  ring

theorem abcQ_hasDerivAt (x xl xh a : ℝ) (_h : xl ≠ xh) :
    HasDerivAt (fun x => abcQ x xl xh a) (-(1 - a) / (xh - xl)) x :=
  abcQ_hasDerivAt' x xl xh a

theorem abcCost_rpow_hasDerivAt (x a b c xl xh : ℝ) (h : xl = xh ∨ 0 < abcQ x xl xh a) :
    HasDerivAt (fun x => abcCost Real.rpow x a b c xl xh)
      (abcDeriv Real.rpow id x a b c xl xh) x := by
  unfold abcCost abcDeriv
  by_cases he : xl = xh
  · simp [he, hasDerivAt_const]
  · simp only [he, if_false]
    have hq : 0 < abcQ x xl xh a := h.resolve_left he
    have h2 := ((abcQ_hasDerivAt' x xl xh a).rpow_const (p := b) (Or.inl (ne_of_gt hq))).const_mul c
    simp only [Real.rpow_eq_pow, id]
    refine HasDerivAt.congr_deriv h2 ?_
    ring

theorem abcDeriv_rpow_hasDerivAt (x a b c xl xh : ℝ) (h : xl = xh ∨ 0 < abcQ x xl xh a) :
    HasDerivAt (fun x => abcDeriv Real.rpow id x a b c xl xh)
      (abcHess Real.rpow id x a b c xl xh) x := by
  unfold abcDeriv abcHess
  by_cases he : xl = xh
  · simp [he, hasDerivAt_const]
  · simp only [he, if_false, false_or, id]
    by_cases hb1 : b = 1
    · subst hb1
      simp only [sub_self, Real.rpow_eq_pow, Real.rpow_zero, if_true]
      exact hasDerivAt_const x _
    · simp only [hb1, if_false]
      have hq : 0 < abcQ x xl xh a := h.resolve_left he
      have h2 := ((((abcQ_hasDerivAt' x xl xh a).rpow_const (p := b - 1)
        (Or.inl (ne_of_gt hq))).const_mul (-c * b)).mul_const (1 - a)).div_const (xh - xl)
      simp only [Real.rpow_eq_pow]
      have e : b - 1 - 1 = b - 2 := by ring
      rw [e] at h2
      refine HasDerivAt.congr_deriv h2 ?_
      ring

/-! ### the executable integer power -/

theorem ipow_of_nonneg (x : ℝ) (k : ℤ) (hk : 0 ≤ k) : ipow x k = x ^ k.toNat := by
  unfold ipow
  simp [hk]

theorem ipow_natCast (x : ℝ) (m : ℕ) : ipow x (m : ℤ) = x ^ m := by
  rw [ipow_of_nonneg x m (Int.natCast_nonneg m)]
  simp

@[simp] theorem intCast'_eq (k : ℤ) : (intCast' k : ℝ) = (k : ℝ) := by
  unfold intCast'
  by_cases hk : 0 ≤ k
  · simp only [hk, if_true, natCast'_eq]
    exact_mod_cast congrArg (fun z : ℤ => (z : ℝ)) (Int.toNat_of_nonneg hk)
  · simp only [hk, if_false, natCast'_eq]
    have h0 : 0 ≤ -k := by omega
    have := congrArg (fun z : ℤ => (z : ℝ)) (Int.toNat_of_nonneg h0)
    simp only [Int.cast_natCast, Int.cast_neg] at this
    rw [this]; ring

theorem ipow_two (x : ℝ) : ipow x 2 = x * x := by
  have h : ipow x ((2 : ℕ) : ℤ) = x ^ 2 := ipow_natCast x 2
  rw [show (2 : ℤ) = ((2 : ℕ) : ℤ) from rfl, h]; ring

theorem ipow_two_sub_one (x : ℝ) : ipow x (2 - 1) = x := by
  have h : ipow x ((1 : ℕ) : ℤ) = x ^ 1 := ipow_natCast x 1
  rw [show (2 - 1 : ℤ) = ((1 : ℕ) : ℤ) from rfl, h]; ring

theorem intCast'_two : (intCast' 2 : ℝ) = 2 := by
  rw [intCast'_eq]; norm_num

theorem abcCost_ipow_hasDerivAt (x a : ℝ) (b : ℤ) (c xl xh : ℝ) (hb : 1 ≤ b) :
    HasDerivAt (fun x => abcCost ipow x a b c xl xh)
      (abcDeriv ipow intCast' x a b c xl xh) x := by
  obtain ⟨m, rfl⟩ : ∃ m : ℕ, b = ((m + 1 : ℕ) : ℤ) := ⟨(b - 1).toNat, by omega⟩
  unfold abcCost abcDeriv
  by_cases he : xl = xh
  · simp [he, hasDerivAt_const]
  · simp only [he, if_false]
    have e1 : (((m + 1 : ℕ) : ℤ) - 1) = (m : ℤ) := by push_cast; ring
    simp only [e1, ipow_natCast, intCast'_eq]
    have h2 := ((abcQ_hasDerivAt' x xl xh a).fun_pow (m + 1)).const_mul c
    refine HasDerivAt.congr_deriv h2 ?_
    simp only [Nat.add_sub_cancel]
    push_cast
    ring

theorem abcDeriv_ipow_hasDerivAt (x a : ℝ) (b : ℤ) (c xl xh : ℝ) (hb : 1 ≤ b) :
    HasDerivAt (fun x => abcDeriv ipow intCast' x a b c xl xh)
      (abcHess ipow intCast' x a b c xl xh) x := by
  obtain ⟨m, rfl⟩ : ∃ m : ℕ, b = ((m + 1 : ℕ) : ℤ) := ⟨(b - 1).toNat, by omega⟩
  unfold abcDeriv abcHess
  by_cases he : xl = xh
  · simp [he, hasDerivAt_const]
  · simp only [he, if_false]
    have e1 : (((m + 1 : ℕ) : ℤ) - 1) = (m : ℤ) := by push_cast; ring
    simp only [e1, ipow_natCast, intCast'_eq]
    cases m with
    | zero =>
      have h2 := hasDerivAt_const x (-c * (((0 + 1 : ℕ) : ℤ) : ℝ) * (abcQ x xl xh a) ^ 0 * (1 - a) / (xh - xl))
      simp only [pow_zero] at h2 ⊢
      refine HasDerivAt.congr_deriv h2 ?_
      simp
    | succ k =>
      have e2 : (((k + 1 + 1 : ℕ) : ℤ) - 2) = (k : ℤ) := by push_cast; ring
      simp only [e2, ipow_natCast]
      have h2 := (((((abcQ_hasDerivAt' x xl xh a).fun_pow (k + 1)).const_mul
        (-c * (((k + 1 + 1 : ℕ) : ℤ) : ℝ))).mul_const (1 - a)).div_const (xh - xl))
      refine HasDerivAt.congr_deriv h2 ?_
      have hne : ¬ ((((k + 1 + 1 : ℕ) : ℤ) : ℝ) = 1) := by
        push_cast
        have : (0 : ℝ) ≤ (k : ℝ) := Nat.cast_nonneg k
        intro h; linarith
      simp only [hne, false_or, if_false, Nat.add_sub_cancel]
      push_cast
      ring

/-! ## Horner polynomials -/

theorem polyEval_foldl (x : ℝ) (cs : List ℝ) (a : ℝ) :
    cs.foldl (fun acc c => acc * x + c) a = a * x ^ cs.length + polyEval cs x := by
  unfold polyEval
  induction cs generalizing a with
  | nil => simp
  | cons c cs ih =>
    simp only [List.foldl_cons, List.length_cons]
    rw [ih (a * x + c), ih (0 * x + c)]
    ring

theorem polyEval_nil (x : ℝ) : polyEval ([] : List ℝ) x = 0 := rfl

theorem polyEval_cons (c : ℝ) (cs : List ℝ) (x : ℝ) :
    polyEval (c :: cs) x = c * x ^ cs.length + polyEval cs x := by
  have h : polyEval (c :: cs) x = cs.foldl (fun acc c => acc * x + c) (0 * x + c) := rfl
  rw [h, polyEval_foldl]
  ring

theorem polyDer_length (cs : List ℝ) : (polyDer cs).length = cs.length - 1 := by
  induction cs with
  | nil => rfl
  | cons c cs ih =>
    cases cs with
    | nil => rfl
    | cons c' cs' =>
      simp only [polyDer, List.length_cons] at ih ⊢
      omega

theorem polyEval_hasDerivAt (cs : List ℝ) (x : ℝ) :
    HasDerivAt (fun x => polyEval cs x) (polyEval (polyDer cs) x) x := by
  induction cs with
  | nil => simpa [polyEval_nil, polyDer] using hasDerivAt_const x (0:ℝ)
  | cons c cs ih =>
    simp only [polyEval_cons]
    have h2 := ((hasDerivAt_pow cs.length x).const_mul c).add ih
    refine HasDerivAt.congr_deriv h2 ?_
    cases cs with
    | nil => simp [polyDer, polyEval_nil]
    | cons c' cs' =>
      have e : polyDer (c :: c' :: cs') = (natCast' (c' :: cs').length * c) :: polyDer (c' :: cs') := rfl
      rw [e, polyEval_cons, polyDer_length, natCast'_eq]
      ring

end DK
