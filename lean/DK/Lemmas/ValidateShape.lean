import DK.Model.Validate
/-!
# Shape lemmas for `DK.Validate.npShape` (any scalar type; no order needed)

The documented grammar of bounds specifications is stated with its own inductive predicates
(`IsScalar`, `IsVec`, `IsRows`) — not with the model's helper functions — and tied to the model's
`npShape` / `tableRows` / `scalars` here.
-/
namespace DK.Validate
variable {α : Type}

/-- `v` is a number or `None`, read as the table entry `x`. -/
inductive IsScalar : PyVal α → Option α → Prop
  | num (q : α) : IsScalar (.num q) (some q)
  | none : IsScalar .none Option.none

/-- a flat vector of scalars and the entries it denotes. -/
inductive IsVec : List (PyVal α) → List (Option α) → Prop
  | nil : IsVec [] []
  | cons {a : PyVal α} {x : Option α} {as : List (PyVal α)} {xs : List (Option α)} :
      IsScalar a x → IsVec as xs → IsVec (a :: as) (x :: xs)

/-- the rows of a `(·, 2)` table (each row a 2-sequence of scalars, of any sequence kind) and the table they denote. -/
inductive IsRows : List (PyVal α) → Table α → Prop
  | nil : IsRows [] []
  | cons {k : SeqKind} {a b : PyVal α} {x y : Option α} {rest : List (PyVal α)} {t : Table α} :
      IsScalar a x → IsScalar b y → IsRows rest t → IsRows (.seq k [a, b] :: rest) ((x, y) :: t)

theorem isScalar_iff {a : PyVal α} {x : Option α} : IsScalar a x ↔ scalar? a = some x := by
  constructor
  · intro h; cases h <;> rfl
  · intro h
    cases a with
    | num q => simp [scalar?] at h; subst h; exact .num q
    | none => simp [scalar?] at h; subst h; exact .none
    | seq k xs => simp [scalar?] at h

theorem isScalar_unique {a : PyVal α} {x y : Option α} (h1 : IsScalar a x) (h2 : IsScalar a y) : x = y := by
  rw [isScalar_iff] at h1 h2; rw [h1] at h2; exact Option.some.inj h2

theorem isVec_iff {as : List (PyVal α)} {xs : List (Option α)} : IsVec as xs ↔ scalars as = some xs := by
  constructor
  · intro h
    induction h with
    | nil => rfl
    | cons ha _ ih => simp [scalars, isScalar_iff.mp ha, ih]
  · intro h
    induction as generalizing xs with
    | nil => simp [scalars] at h; subst h; exact .nil
    | cons a as ih =>
      simp only [scalars] at h
      cases ha : scalar? a with
      | none => simp [ha] at h
      | some x =>
        cases hs : scalars as with
        | none => simp [ha, hs] at h
        | some ys =>
          simp [ha, hs] at h; subst h
          exact .cons (isScalar_iff.mpr ha) (ih hs)

theorem isVec_length {as : List (PyVal α)} {xs : List (Option α)} (h : IsVec as xs) : xs.length = as.length := by
  induction h with
  | nil => rfl
  | cons _ _ ih => simp [ih]

theorem isVec_unique {as : List (PyVal α)} {xs ys : List (Option α)} (h1 : IsVec as xs) (h2 : IsVec as ys) : xs = ys := by
  rw [isVec_iff] at h1 h2; rw [h1] at h2; exact Option.some.inj h2

theorem isRows_length {xs : List (PyVal α)} {t : Table α} (h : IsRows xs t) : t.length = xs.length := by
  induction h with
  | nil => rfl
  | cons _ _ _ ih => simp [ih]

theorem isRows_unique {xs : List (PyVal α)} {t t' : Table α} (h1 : IsRows xs t) (h2 : IsRows xs t') : t = t' := by
  induction h1 generalizing t' with
  | nil => cases h2; rfl
  | cons ha hb _ ih =>
    cases h2 with
    | cons ha' hb' hr' =>
      rw [isScalar_unique ha ha', isScalar_unique hb hb', ih hr']

/-- `tableRows` computes exactly `IsRows` (with no extra columns). -/
theorem tableRows_iff {xs : List (PyVal α)} {t : Table α} :
    IsRows xs t ↔ tableRows xs = some (t.map (fun p => (p.1, p.2, []))) := by
  constructor
  · intro h
    induction h with
    | nil => rfl
    | cons ha hb _ ih => simp [tableRows, isScalar_iff.mp ha, isScalar_iff.mp hb, ih]
  · intro h
    induction xs generalizing t with
    | nil =>
      simp [tableRows] at h
      cases t with
      | nil => exact .nil
      | cons _ _ => simp at h
    | cons r rest ih =>
      cases r with
      | num q => simp [tableRows] at h
      | none => simp [tableRows] at h
      | seq k ys =>
        match ys, h with
        | [], h => simp [tableRows] at h
        | [_], h => simp [tableRows] at h
        | _ :: _ :: _ :: _, h => simp [tableRows] at h
        | [a, b], h =>
          simp only [tableRows] at h
          cases ha : scalar? a with
          | none => simp [ha] at h
          | some x =>
            cases hb : scalar? b with
            | none => simp [ha, hb] at h
            | some y =>
              cases hr : tableRows rest with
              | none => simp [ha, hb, hr] at h
              | some rs =>
                simp [ha, hb, hr] at h
                cases t with
                | nil => simp at h
                | cons p t' =>
                  simp at h
                  obtain ⟨⟨h1, h2⟩, h3⟩ := h
                  have : p = (x, y) := by cases p; simp_all
                  subst this
                  exact .cons (isScalar_iff.mpr ha) (isScalar_iff.mpr hb) (ih (by rw [hr, h3]))

theorem tableRows_some_isRows {xs : List (PyVal α)} {rows : List (Row α)} (h : tableRows xs = some rows) :
    IsRows xs (rows.map rowPair) ∧ rows = (rows.map rowPair).map (fun p => (p.1, p.2, [])) := by
  induction xs generalizing rows with
  | nil => simp [tableRows] at h; subst h; exact ⟨.nil, rfl⟩
  | cons r rest ih =>
    cases r with
    | num q => simp [tableRows] at h
    | none => simp [tableRows] at h
    | seq k ys =>
      match ys, h with
      | [], h => simp [tableRows] at h
      | [_], h => simp [tableRows] at h
      | _ :: _ :: _ :: _, h => simp [tableRows] at h
      | [a, b], h =>
        simp only [tableRows] at h
        cases ha : scalar? a with
        | none => simp [ha] at h
        | some x =>
          cases hb : scalar? b with
          | none => simp [ha, hb] at h
          | some y =>
            cases hr : tableRows rest with
            | none => simp [ha, hb, hr] at h
            | some rs =>
              simp [ha, hb, hr] at h; subst h
              obtain ⟨i1, i2⟩ := ih hr
              refine ⟨?_, ?_⟩
              · simpa [rowPair] using IsRows.cons (isScalar_iff.mpr ha) (isScalar_iff.mpr hb) i1
              · simp only [List.map_cons, rowPair]; rw [← i2]

/-! ### `npShape` -/

theorem npShape_nil_iff {a : PyVal α} : npShape a = some [] ↔ ∃ x, IsScalar a x := by
  cases a with
  | num q => simp [npShape]; exact ⟨_, .num q⟩
  | none => simp [npShape]; exact ⟨_, .none⟩
  | seq k xs =>
    simp only [npShape]
    constructor
    · intro h; cases hc : commonShape xs <;> simp [hc] at h
    · rintro ⟨x, hx⟩; cases hx

/-- a non-empty sequence has a common element shape iff every element has that shape. -/
theorem commonShape_eq_some {xs : List (PyVal α)} (hne : xs ≠ []) (sh : List Nat) :
    commonShape xs = some sh ↔ ∀ x ∈ xs, npShape x = some sh := by
  induction xs with
  | nil => exact absurd rfl hne
  | cons x rest ih =>
    cases rest with
    | nil => simp [commonShape]
    | cons y ys =>
      have ih' := ih (by simp)
      simp only [commonShape]
      constructor
      · intro h
        cases hx : npShape x with
        | none => simp [hx] at h
        | some a =>
          cases hc : commonShape (y :: ys) with
          | none => simp [hx, hc] at h
          | some b =>
            simp [hx, hc] at h
            obtain ⟨hab, hs⟩ := h
            subst hs; subst hab
            intro z hz
            rcases List.mem_cons.mp hz with rfl | hz
            · exact hx
            · exact (ih'.mp hc) z hz
      · intro h
        have hx := h x (by simp)
        have hc := ih'.mpr (fun z hz => h z (List.mem_cons_of_mem _ hz))
        simp [hx, hc]

theorem npShape_seq {k : SeqKind} {xs : List (PyVal α)} {m : Nat} {sh : List Nat} :
    npShape (.seq k xs) = some (m :: sh) ↔ xs.length = m ∧ commonShape xs = some sh := by
  simp only [npShape]
  cases hc : commonShape xs with
  | none => simp
  | some b => simp [eq_comm]

/-- a sequence has shape `[2]` iff it is a pair of scalars. -/
theorem npShape_two_iff {r : PyVal α} :
    npShape r = some [2] ↔ ∃ k a b x y, r = .seq k [a, b] ∧ IsScalar a x ∧ IsScalar b y := by
  cases r with
  | num q => simp [npShape]
  | none => simp [npShape]
  | seq k ys =>
    rw [npShape_seq]
    constructor
    · rintro ⟨hl, hc⟩
      match ys, hl with
      | [a, b], _ =>
        have := (commonShape_eq_some (xs := [a, b]) (by simp) []).mp hc
        obtain ⟨x, hx⟩ := npShape_nil_iff.mp (this a (by simp))
        obtain ⟨y, hy⟩ := npShape_nil_iff.mp (this b (by simp))
        exact ⟨k, a, b, x, y, rfl, hx, hy⟩
    · rintro ⟨k', a, b, x, y, he, hx, hy⟩
      cases he
      refine ⟨rfl, (commonShape_eq_some (by simp) []).mpr ?_⟩
      intro z hz
      simp at hz
      rcases hz with rfl | rfl
      · exact npShape_nil_iff.mpr ⟨_, hx⟩
      · exact npShape_nil_iff.mpr ⟨_, hy⟩

theorem isRows_of_forall {xs : List (PyVal α)}
    (h : ∀ r ∈ xs, ∃ k a b x y, r = PyVal.seq k [a, b] ∧ IsScalar a x ∧ IsScalar b y) : ∃ t, IsRows xs t := by
  induction xs with
  | nil => exact ⟨[], .nil⟩
  | cons r rest ih =>
    obtain ⟨k, a, b, x, y, he, hx, hy⟩ := h r (by simp)
    obtain ⟨t, ht⟩ := ih (fun z hz => h z (List.mem_cons_of_mem _ hz))
    subst he
    exact ⟨_, .cons hx hy ht⟩

theorem forall_of_isRows {xs : List (PyVal α)} {t : Table α} (h : IsRows xs t) :
    ∀ r ∈ xs, ∃ k a b x y, r = PyVal.seq k [a, b] ∧ IsScalar a x ∧ IsScalar b y := by
  induction h with
  | nil => simp
  | cons ha hb _ ih =>
    intro r hr
    rcases List.mem_cons.mp hr with rfl | hr
    · exact ⟨_, _, _, _, _, rfl, ha, hb⟩
    · exact ih r hr

/-- **the table test**: `np.array(v).shape == (n, 2)` holds exactly for `n ≥ 1` rows that are pairs of scalars. -/
theorem npShape_table_iff {k : SeqKind} {xs : List (PyVal α)} {n : Nat} :
    npShape (.seq k xs) = some [n, 2] ↔ xs.length = n ∧ 0 < n ∧ ∃ t, IsRows xs t := by
  rw [npShape_seq]
  constructor
  · rintro ⟨hl, hc⟩
    have hne : xs ≠ [] := by
      rintro rfl; simp [commonShape] at hc
    refine ⟨hl, ?_, ?_⟩
    · cases xs with
      | nil => exact absurd rfl hne
      | cons _ _ => simp at hl; omega
    · exact isRows_of_forall (fun r hr => npShape_two_iff.mp ((commonShape_eq_some hne [2]).mp hc r hr))
  · rintro ⟨hl, hn, t, ht⟩
    have hne : xs ≠ [] := by
      rintro rfl; simp at hl; omega
    exact ⟨hl, (commonShape_eq_some hne [2]).mpr (fun r hr => npShape_two_iff.mpr (forall_of_isRows ht r hr))⟩

/-! ### flat vectors -/

theorem scalars_replicate (n : Nat) (q : α) :
    scalars (List.replicate n (PyVal.num q)) = some (List.replicate n (some q)) := by
  induction n with
  | zero => rfl
  | succ n ih => simp [List.replicate_succ, scalars, scalar?, ih]

theorem zipRows_map_rowPair (xs ys : List (Option α)) : (zipRows xs ys).map rowPair = xs.zip ys := by
  induction xs generalizing ys with
  | nil => cases ys <;> simp [zipRows]
  | cons x xs ih =>
    cases ys with
    | nil => simp [zipRows]
    | cons y ys => simp [zipRows, rowPair, ih]

theorem zipRows_extras (xs ys : List (Option α)) : ∀ r ∈ zipRows xs ys, r.2.2 = [] := by
  induction xs generalizing ys with
  | nil => cases ys <;> simp [zipRows]
  | cons x xs ih =>
    cases ys with
    | nil => simp [zipRows]
    | cons y ys =>
      intro r hr
      simp [zipRows] at hr
      rcases hr with rfl | hr
      · rfl
      · exact ih ys r hr

theorem zipRows_isEmpty (xs ys : List (Option α)) (h : xs.length = ys.length) :
    (zipRows xs ys).isEmpty = xs.isEmpty := by
  cases xs <;> cases ys <;> simp_all [zipRows]

end DK.Validate
