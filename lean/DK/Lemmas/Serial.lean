import DK.Model.Serial
/-!
# Helper lemmas for C16 (core Lean only): dictionary lookups, normalisers, the generic
round-trip of the `Device` family.
-/
namespace DK.Serial
variable {α δ : Type}

/-! ## dictionaries -/

theorem Dict.get_append (a b : Dict α δ) (k : String) :
    Dict.get (a ++ b) k = match Dict.get a k with | some v => some v | none => Dict.get b k := by
  induction a with
  | nil => simp [Dict.get]
  | cons e t ih =>
    obtain ⟨k', v⟩ := e
    simp only [List.cons_append, Dict.get]
    split <;> simp_all

theorem Dict.get_eq_none_of_not_mem (a : Dict α δ) (k : String) (h : k ∉ a.keys) : Dict.get a k = none := by
  induction a with
  | nil => simp [Dict.get]
  | cons e t ih =>
    obtain ⟨k', v⟩ := e
    simp only [Dict.keys, List.map_cons, List.mem_cons, not_or] at h
    simp only [Dict.get]
    rw [if_neg (fun hh => h.1 hh.symm)]
    exact ih h.2

theorem Dict.keys_map_snd (a : Dict α δ) (f : String → Val α δ → Val α δ) :
    Dict.keys (a.map (fun e => (e.1, f e.1 e.2))) = Dict.keys a := by
  simp [Dict.keys, List.map_map, Function.comp_def]

theorem Dict.keys_append (a b : Dict α δ) : Dict.keys (a ++ b) = Dict.keys a ++ Dict.keys b := by
  simp [Dict.keys]

theorem Dict.without_append (a b : Dict α δ) (ks : List String) :
    Dict.without (a ++ b) ks = Dict.without a ks ++ Dict.without b ks := by
  simp [Dict.without]

/-- entries none of whose keys is in `ks` are all kept. -/
theorem Dict.without_of_fresh (a : Dict α δ) (ks : List String) (h : ∀ e ∈ a, e.1 ∉ ks) :
    Dict.without a ks = a := by
  unfold Dict.without
  rw [List.filter_eq_self]
  intro e he
  simp [h e he]

/-- entries all of whose keys are in `ks` are all dropped. -/
theorem Dict.without_of_all_mem (a : Dict α δ) (ks : List String) (h : ∀ e ∈ a, e.1 ∈ ks) :
    Dict.without a ks = [] := by
  unfold Dict.without
  rw [List.filter_eq_nil_iff]
  intro e he
  simp [h e he]

theorem Dict.mem_without (a : Dict α δ) (ks : List String) (e : String × Val α δ) (h : e ∈ Dict.without a ks) :
    e ∈ a ∧ e.1 ∉ ks := by
  unfold Dict.without at h
  rw [List.mem_filter] at h
  refine ⟨h.1, ?_⟩
  have := h.2
  simpa using this

/-! ## normalisers -/

theorem normBounds_length (n : Nat) (v : Val α δ) (b : List (α × α)) (h : normBounds n v = some b) :
    b.length = n := by
  cases v with
  | pairNum lo hi =>
    simp only [normBounds, Option.some.injEq] at h
    subst h; simp
  | pairVec lo hi =>
    simp only [normBounds] at h
    split at h
    · simp only [Option.some.injEq] at h
      subst h; rfl
    · split at h
      · rename_i hh
        simp only [Option.some.injEq] at h
        subst h
        simp [List.length_zip, hh.1, hh.2]
      · exact nomatch h
  | table rows =>
    simp only [normBounds] at h
    split at h
    · rename_i hh
      simp only [Option.some.injEq] at h
      subst h; exact hh
    · exact nomatch h
  | _ => exact nomatch h

theorem normBounds_table (n : Nat) (rows : List (α × α)) (h : rows.length = n) :
    normBounds (δ := δ) n (.table rows) = some rows := by
  simp [normBounds, h]

theorem normCBounds_stored (n : Nat) (cb : Option (List (CBound α))) :
    normCBounds (δ := δ) n (optCbsVal cb) = some cb := by
  cases cb <;> simp [optCbsVal, normCBounds]

theorem normRateClip_idem (v : Val α δ) : normRateClip (normRateClip v) = normRateClip v := by
  cases v <;> simp [normRateClip]

/-! ## the `Device` family -/

/-- the invariant every constructed device of the family satisfies: what its dump is read back to. -/
structure Dev.Stored (sem : DevSem α δ) (d : DevSettings α δ) : Prop where
  /-- the stored bounds table has one row per slot -/
  len : d.bounds.length = d.n
  /-- a `**meta` key is never one of the named parameters (Python binds those by name) -/
  fresh : ∀ e ∈ d.extra, e.1 ∉ devNamed
  /-- storing what `getattr` returns gives back the stored value -/
  normDump : ∀ e ∈ d.extra, sem.norm e.1 (sem.dumpVal d e.1 e.2) = e.2
  /-- the `__init__` tail leaves the state alone -/
  post : sem.post d = d

/-- a class whose setters store idempotently, whose getters return the stored value and whose
`__init__` tail is idempotent and only touches `cbounds`. -/
structure DevSem.Lawful (sem : DevSem α δ) : Prop where
  norm_idem : ∀ k v, sem.norm k (sem.norm k v) = sem.norm k v
  dump_id : ∀ d k v, sem.dumpVal d k v = v
  post_idem : ∀ d, sem.post (sem.post d) = sem.post d
  post_extra : ∀ d, (sem.post d).extra = d.extra
  post_bounds : ∀ d, (sem.post d).bounds = d.bounds
  post_n : ∀ d, (sem.post d).n = d.n

theorem Dev.get_id (sem : DevSem α δ) (d : DevSettings α δ) :
    Dict.get (Dev.toDict sem d) "id" = some (.str d.id) := by simp [Dev.toDict, Dict.get]
theorem Dev.get_length (sem : DevSem α δ) (d : DevSettings α δ) :
    Dict.get (Dev.toDict sem d) "length" = some (.nat d.n) := by simp [Dev.toDict, Dict.get]
theorem Dev.get_bounds (sem : DevSem α δ) (d : DevSettings α δ) :
    Dict.get (Dev.toDict sem d) "bounds" = some (.table d.bounds) := by simp [Dev.toDict, Dict.get]
theorem Dev.get_cbounds (sem : DevSem α δ) (d : DevSettings α δ) :
    Dict.get (Dev.toDict sem d) "cbounds" = some (optCbsVal d.cbounds) := by simp [Dev.toDict, Dict.get]

theorem Dev.keys_toDict (sem : DevSem α δ) (d : DevSettings α δ) :
    (Dev.toDict sem d).keys = devNamed ++ d.extra.keys := by
  simp [Dev.toDict, Dict.keys, devNamed, List.map_map, Function.comp_def]

theorem Dev.without_toDict (sem : DevSem α δ) (d : DevSettings α δ) (hf : ∀ e ∈ d.extra, e.1 ∉ devNamed) :
    (Dev.toDict sem d).without devNamed = d.extra.map (fun e => (e.1, sem.dumpVal d e.1 e.2)) := by
  unfold Dev.toDict
  rw [Dict.without_append, Dict.without_of_all_mem, Dict.without_of_fresh]
  · rfl
  · intro e he
    rw [List.mem_map] at he
    obtain ⟨e0, he0, rfl⟩ := he
    exact hf e0 he0
  · intro e he
    simp only [List.mem_cons, List.not_mem_nil, or_false] at he
    rcases he with rfl | rfl | rfl | rfl <;> simp [devNamed]

/-- **round trip of the `Device` family**: for every constructed state `d` (any class parameters,
any extra keys, any validators that accepted it), `cls.from_dict(d.to_dict())` succeeds and is `d`. -/
theorem Dev.roundtrip (sem : DevSem α δ) (acc : DevSettings α δ → Bool) (d : DevSettings α δ)
    (hs : Dev.Stored sem d) (ha : acc d = true) :
    Dev.fromDict sem acc (Dev.toDict sem d) = .ok d := by
  unfold Dev.fromDict Dev.construct
  rw [Dev.get_id, Dev.get_length, Dev.get_bounds, Dev.get_cbounds]
  simp only [normBounds_table d.n d.bounds hs.len, normCBounds_stored]
  rw [Dev.without_toDict sem d hs.fresh]
  have hmap : (d.extra.map (fun e => (e.1, sem.dumpVal d e.1 e.2))).map (fun e => (e.1, sem.norm e.1 e.2)) = d.extra := by
    rw [List.map_map]
    conv => rhs; rw [← List.map_id d.extra]
    apply List.map_congr_left
    intro e he
    simp only [Function.comp_apply, id]
    rw [hs.normDump e he]
  rw [hmap]
  have hd : ({ id := d.id, n := d.n, bounds := d.bounds, cbounds := d.cbounds, extra := d.extra } : DevSettings α δ) = d := rfl
  rw [hd, hs.post, ha]
  rfl

/-- whatever the constructor returns satisfies the stored-state invariant. -/
theorem Dev.construct_stored (sem : DevSem α δ) (hl : sem.Lawful) (acc : DevSettings α δ → Bool) (kw : Dict α δ)
    (d : DevSettings α δ) (h : Dev.construct sem acc kw = .ok d) : Dev.Stored sem d ∧ acc d = true := by
  unfold Dev.construct at h
  split at h <;> try contradiction
  rename_i id n bv _ _ _
  split at h <;> try contradiction
  rename_i b hb
  split at h <;> try contradiction
  rename_i cb _
  simp only at h
  split at h <;> try contradiction
  rename_i hacc
  simp only [Except.ok.injEq] at h
  subst h
  refine ⟨⟨?_, ?_, ?_, hl.post_idem _⟩, hacc⟩
  · rw [hl.post_bounds, hl.post_n]; exact normBounds_length n bv b hb
  · rw [hl.post_extra]
    intro e he
    simp only [List.mem_map] at he
    obtain ⟨e0, he0, rfl⟩ := he
    exact (Dict.mem_without kw devNamed e0 he0).2
  · rw [hl.post_extra]
    intro e he
    simp only [List.mem_map] at he
    obtain ⟨e0, _, rfl⟩ := he
    simp only [hl.dump_id]
    exact hl.norm_idem _ _

/-- **full-strength form**: for EVERY keyword dictionary the constructor accepts — any argument
forms, any class parameters in any order, any extra keys — the twin built from the dump of the
constructed device is that same device. -/
theorem Dev.construct_roundtrip (sem : DevSem α δ) (hl : sem.Lawful) (acc : DevSettings α δ → Bool) (kw : Dict α δ)
    (d : DevSettings α δ) (h : Dev.construct sem acc kw = .ok d) :
    Dev.fromDict sem acc (Dev.toDict sem d) = .ok d :=
  let ⟨hs, ha⟩ := Dev.construct_stored sem hl acc kw d h
  Dev.roundtrip sem acc d hs ha

theorem semPlain_lawful : (semPlain : DevSem α δ).Lawful :=
  ⟨fun _ _ => rfl, fun _ _ _ => rfl, fun _ => rfl, fun _ => rfl, fun _ => rfl, fun _ => rfl⟩

theorem semADevice_lawful [Add α] [Sub α] [Mul α] [Div α] [Neg α] [OfNat α 0] [OfNat α 1] [OfNat α 2]
    [LT α] [LE α] [DecidableEq α] [DecidableLT α] [DecidableLE α] : (semADevice : DevSem α δ).Lawful :=
  ⟨fun _ _ => rfl, fun _ _ _ => rfl, fun _ => rfl, fun _ => rfl, fun _ => rfl, fun _ => rfl⟩

theorem semSDevice_lawful : (semSDevice : DevSem α δ).Lawful := by
  refine ⟨?_, fun _ _ _ => rfl, fun _ => rfl, fun _ => rfl, fun _ => rfl, fun _ => rfl⟩
  intro k v
  simp only [semSDevice]
  split
  · exact normRateClip_idem v
  · rfl

theorem semCDevice2_lawful [Add α] [OfNat α 0] : (semCDevice2 : DevSem α δ).Lawful := by
  refine ⟨fun _ _ => rfl, fun _ _ _ => rfl, ?_, ?_, ?_, ?_⟩ <;> intro d <;> obtain ⟨id, n, b, cb, ex⟩ := d <;>
    cases cb with
    | none => simp [semCDevice2]
    | some l => cases l <;> simp [semCDevice2]

end DK.Serial
