import DK.Gen.Loaders.Helpers
import DK.Lemmas.BridgeLoaders.Basic
import Mathlib.Data.Real.Basic
import Mathlib.Tactic.Ring
/-!
# BridgeLoaders.Helpers — `utils.care2bounds`, `utils.on2bounds` (C20)

Part of the T1l tie.  `DK/Gen/Loaders/Helpers.lean` is regenerated from `/repo/device_kit/utils.py`; the `['bounds']` entry
of the dictionary each helper returns is proved equal to the model's `care2bounds` / `on2bounds` (`maskBounds`), per form of
the `bounds` argument (2-tuple of scalars / of vectors / one vector), for every mask, every on-list (odd lengths raise
`IndexError` in both), every horizon.
-/
set_option linter.unusedSimpArgs false
set_option linter.unnecessarySeqFocus false
set_option linter.unusedTactic false
set_option linter.unreachableTactic false
set_option linter.unusedVariables false
set_option linter.unusedSectionVars false
namespace DK.BridgeLoaders
open DK DK.Loader

/-- a pair of columns as the `(len, 2)` table `np.stack((lo, hi), axis=1)` builds. -/
def tab {α : Type} (b : (Nat → α) × (Nat → α)) : Nat → α × α := fun t => (b.1 t, b.2 t)

theorem pyRange_step2 (n : Nat) : Gen.pyRange 0 (n + 2) 2 = 0 :: (Gen.pyRange 0 n 2).map (· + 2) := by
  unfold Gen.pyRange
  have h : (n + 2 - 0 + 2 - 1) / 2 = (n - 0 + 2 - 1) / 2 + 1 := by omega
  rw [h, List.range_succ_eq_map]
  simp only [List.map_cons, List.map_map, Nat.zero_mul, Nat.add_zero, List.cons.injEq, true_and]
  apply List.map_congr_left
  intro k _
  simp only [Function.comp]
  omega

/-- the loop `for i in range(0, len(on), 2): on_vector[on[i]:on[i+1]+1] = 1` is the model's `onVector`. -/
theorem foldlM_on_aux (l : Nat) (on : List Nat) (body : (Nat → ℝ) → Nat → Except LoadErr (Nat → ℝ))
    (hok : ∀ acc i s e, on[i]? = some s → on[i + 1]? = some e →
      body acc i = .ok (fun t => if s ≤ t ∧ t < e + 1 ∧ t < l then 1 else acc t))
    (herr : ∀ acc i s, on[i]? = some s → on[i + 1]? = none → body acc i = .error .indexError) :
    ∀ (m : Nat) (suf pre : List Nat) (a : Nat → ℝ), suf.length ≤ m → on = pre ++ suf →
      List.foldlM body a ((Gen.pyRange 0 suf.length 2).map (· + pre.length)) = onVector l suf a := by
  intro m
  induction m with
  | zero =>
    intro suf pre a hm _
    have : suf = [] := List.eq_nil_of_length_eq_zero (by omega)
    subst this; rfl
  | succ m ih =>
    intro suf pre a hm hon
    match suf, hm, hon with
    | [], _, _ => rfl
    | [x], _, hon =>
      have h0 : on[pre.length]? = some x := by rw [hon]; simp
      have h1 : on[pre.length + 1]? = none := by rw [hon]; simp
      show List.foldlM body a ((Gen.pyRange 0 1 2).map (· + pre.length)) = _
      have : Gen.pyRange 0 1 2 = [0] := by decide
      rw [this]
      simp only [List.map_cons, List.map_nil, Nat.zero_add, List.foldlM_cons, List.foldlM_nil, herr a _ x h0 h1]
      rfl
    | s :: e :: rest, hm, hon =>
      have h0 : on[pre.length]? = some s := by rw [hon]; simp
      have h1 : on[pre.length + 1]? = some e := by
        rw [hon, List.getElem?_append_right (by omega)]; simp
      have hlen : (s :: e :: rest).length = rest.length + 2 := rfl
      rw [hlen, pyRange_step2]
      simp only [List.map_cons, List.map_map, Nat.zero_add, List.foldlM_cons, hok a _ s e h0 h1]
      have := ih rest (pre ++ [s, e]) (fun t => if s ≤ t ∧ t < e + 1 ∧ t < l then 1 else a t)
        (by simp only [List.length_cons] at hm; omega) (by rw [hon]; simp)
      simp only [List.length_append, List.length_cons, List.length_nil] at this
      have hmap : ((fun x => x + pre.length) ∘ fun x => x + 2) = fun x => x + (pre.length + (0 + 1 + 1)) := by
        funext x; simp only [Function.comp]; omega
      rw [hmap]
      show (Except.ok _ >>= fun s' => List.foldlM body s' _) = _
      simp only [bind, Except.bind]
      rw [this]
      rfl

theorem foldlM_on (l : Nat) (on : List Nat) (body : (Nat → ℝ) → Nat → Except LoadErr (Nat → ℝ))
    (hok : ∀ acc i s e, on[i]? = some s → on[i + 1]? = some e →
      body acc i = .ok (fun t => if s ≤ t ∧ t < e + 1 ∧ t < l then 1 else acc t))
    (herr : ∀ acc i s, on[i]? = some s → on[i + 1]? = none → body acc i = .error .indexError) (a : Nat → ℝ) :
    List.foldlM body a (Gen.pyRange 0 on.length 2) = onVector l on a := by
  have := foldlM_on_aux l on body hok herr on.length on [] a (Nat.le_refl _) rfl
  simpa using this

theorem listGet_some {β : Type} {l : List β} {i : Nat} {x : β} (h : l[i]? = some x) : Gen.listGet l i = .ok x := by
  simp [Gen.listGet, h]

theorem listGet_none {β : Type} {l : List β} {i : Nat} (h : l[i]? = none) : Gen.listGet l i = .error .indexError := by
  simp [Gen.listGet, h]

/-- the two facts about the loop body of `on2bounds`, whichever way the source spells the slice end. -/
macro "on_ok" : tactic => `(tactic|
  (intro acc i s e h0 h1
   simp only [listGet_some h0, listGet_some h1, bind, Except.bind, pure, Except.pure, Gen.setSlice]
   first
   | rfl
   | (refine congrArg Except.ok (funext fun t => ?_)
      first | rfl | ((try simp only [Gen.setSlice]); split_ifs <;> first | rfl | (exfalso; omega)))))
macro "on_err" : tactic => `(tactic|
  (intro acc i s h0 h1
   simp only [listGet_some h0, listGet_none h1, bind, Except.bind, pure, Except.pure]))
/-- two `(len, 2)` tables agree column by column up to commutativity of the products. -/
macro "tab_ring" : tactic => `(tactic|
  (refine congrArg Except.ok (funext fun t => Prod.ext ?_ ?_) <;> (try simp only [tab]) <;> ring))

theorem care2bounds_pair (n : ℕ) (care : ℕ → ℝ) (lo hi : ℝ) :
    Gen.care2bounds_pair n care lo hi = .ok (tab (care2bounds n care (.pair lo hi))) := by
  simp only [Gen.care2bounds_pair, care2bounds, maskBounds, tab, bind, Except.bind, pure, Except.pure]
  tab_ring

theorem care2bounds_pairvec (n : ℕ) (care lo hi : ℕ → ℝ) :
    Gen.care2bounds_pairvec n care lo hi = .ok (tab (care2bounds n care (.pairVec lo hi))) := by
  simp only [Gen.care2bounds_pairvec, care2bounds, maskBounds, tab, bind, Except.bind, pure, Except.pure]
  tab_ring

theorem care2bounds_vector (n : ℕ) (care v : ℕ → ℝ) :
    Gen.care2bounds_vector n care v = .ok (tab (care2bounds n care (.vector v))) := by
  simp only [Gen.care2bounds_vector, care2bounds, maskBounds, tab, bind, Except.bind, pure, Except.pure]
  split_ifs <;> tab_ring

theorem on2bounds_pair (l : ℕ) (on : List ℕ) (lo hi : ℝ) :
    Gen.on2bounds_pair l on lo hi = (on2bounds l on (.pair lo hi)).map tab := by
  unfold Gen.on2bounds_pair on2bounds
  simp only [bind, Except.bind, pure, Except.pure]
  rw [foldlM_on l on _ (by on_ok) (by on_err)]
  cases onVector l on (fun _ => (0 : ℝ)) with
  | error e => rfl
  | ok m =>
    simp only [Except.map, maskBounds, tab]
    tab_ring

theorem on2bounds_pairvec (l : ℕ) (on : List ℕ) (lo hi : ℕ → ℝ) :
    Gen.on2bounds_pairvec l on lo hi = (on2bounds l on (.pairVec lo hi)).map tab := by
  unfold Gen.on2bounds_pairvec on2bounds
  simp only [bind, Except.bind, pure, Except.pure]
  rw [foldlM_on l on _ (by on_ok) (by on_err)]
  cases onVector l on (fun _ => (0 : ℝ)) with
  | error e => rfl
  | ok m =>
    simp only [Except.map, maskBounds, tab]
    tab_ring

theorem on2bounds_vector (l : ℕ) (on : List ℕ) (v : ℕ → ℝ) :
    Gen.on2bounds_vector l on v = (on2bounds l on (.vector v)).map tab := by
  unfold Gen.on2bounds_vector on2bounds
  simp only [bind, Except.bind, pure, Except.pure]
  rw [foldlM_on l on _ (by on_ok) (by on_err)]
  cases onVector l on (fun _ => (0 : ℝ)) with
  | error e => rfl
  | ok m =>
    simp only [Except.map, maskBounds, tab]
    split_ifs <;> tab_ring

end DK.BridgeLoaders
