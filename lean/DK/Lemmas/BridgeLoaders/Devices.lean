import DK.Gen.Loaders.Devices
import DK.Lemmas.BridgeLoaders.Runs
import Mathlib.Data.Real.Basic
import Mathlib.Tactic.Ring
/-!
# BridgeLoaders.Devices — the `bounds` a per-kind loader hands to the device, the fixed-load test, the storage
parameter map (C20)

Part of the T1l tie.  `DK/Gen/Loaders/Devices.lean` is regenerated from `/repo/device_kit/loaders/builder_loader.py`:
for each `load_<kind>_device` the backward slice of the statements that compute the `bounds` argument of the device
constructor (`run_to_array(d['bounds'])`; supply: negate and swap the columns; fixed load: the `.all()` test), the dict
literal `parameter_map` as a finite table, and the comprehension that renames the storage parameters.  Each is proved
equal to what `loadDevice` of `DK/Model/Loader.lean` does with the same run (`tableBounds` = `runToArray` on pairs,
`supplyPair`, the `(List.range basis).all` test, `storageParams`).
-/
set_option linter.unusedSimpArgs false
set_option linter.unnecessarySeqFocus false
set_option linter.unusedTactic false
set_option linter.unreachableTactic false
set_option linter.unusedVariables false
set_option linter.unusedSectionVars false
namespace DK.BridgeLoaders
open DK DK.Loader

/-! ## the model side: `tableBounds` of a pair-valued run is `runToArray` on the pairs -/
section
variable {V W : Type}

theorem fillRuns_map (f : V → W) (basis : Nat) (l : List (Nat × V)) (a : Nat → V) :
    fillRuns basis (l.map (fun x => (x.1, f x.2))) (fun t => f (a t)) = fun t => f (fillRuns basis l a t) := by
  induction l generalizing a with
  | nil => rfl
  | cons r rs ih =>
    have hstep : ∀ s e v, assignSlice basis (fun t => f (a t)) s e (f v) = fun t => f (assignSlice basis a s e v t) := by
      intro s e v; funext t; simp only [assignSlice]; split <;> rfl
    cases rs with
    | nil => simp only [List.map_cons, List.map_nil, fillRuns, hstep]
    | cons r' rest =>
      simp only [List.map_cons, fillRuns, hstep]
      exact ih _

theorem hasZero_map (f : V → W) (l : List (Nat × V)) : hasZero (l.map (fun x => (x.1, f x.2))) = hasZero l := by
  simp [hasZero, List.any_map, Function.comp_def]

theorem runToArray_map (f : V → W) (basis : Nat) (z : V) (l : List (Nat × V)) :
    runToArray basis (f z) (l.map (fun x => (x.1, f x.2))) = (runToArray basis z l).map (fun a t => f (a t)) := by
  simp only [runToArray, hasZero_map, sortRuns_map]
  split
  · simp only [Except.map]; congr 1; exact fillRuns_map f basis _ _
  · rfl

end

section
variable {α : Type} [OfNat α 0]

/-- a pair as the 2-list the JSON carries. -/
def vec2 (p : α × α) : RunVal α := .vec [p.1, p.2]

/-- **`tableBounds` on pair-valued runs.** What `loadDevice` reads as the `(basis, 2)` table of a `bounds` run of
2-lists is `runToArray` on the pairs (columns split). -/
theorem tableBounds_pairs (basis : Nat) (run : Run α) (runs : List (Nat × (α × α))) (hb : run.basis = basis)
    (htr : run.runs = runs.map (fun x => (x.1, vec2 x.2))) :
    tableBounds basis run =
      (runToArray basis ((0 : α), (0 : α)) runs).map (fun a => (fun t => (a t).1, fun t => (a t).2)) := by
  cases hz : hasZero runs with
  | false =>
    have : template run.runs = none := by
      rw [htr]
      simp only [template, Option.map_eq_none_iff, List.find?_eq_none]
      intro x hx
      have : hasZero (runs.map (fun x => (x.1, vec2 x.2))) = false := by rw [hasZero_map]; exact hz
      simp only [hasZero, List.any_eq_false] at this
      exact this x hx
    simp [tableBounds, runToArrayNp, this, runToArray, hz, hb, bind, Except.bind, Except.map]
  | true =>
    obtain ⟨r0, hr0, _, htm⟩ := template_some (runs := run.runs) (hasZero_iff.mp (by rw [htr, hasZero_map]; exact hz))
    rw [htr] at hr0
    obtain ⟨p0, _, hp0⟩ := List.mem_map.mp hr0
    have hsh : ∀ r ∈ run.runs, (r0.2).sameShape r.2 = true := by
      intro r hr
      rw [htr] at hr
      obtain ⟨p, _, hp⟩ := List.mem_map.mp hr
      rw [← hp0, ← hp]; rfl
    have hnp := runToArrayNp_homogeneous run r0.2 htm hsh
    have hzl : r0.2.zeroLike = vec2 ((0 : α), (0 : α)) := by rw [← hp0]; rfl
    rw [htr, hzl, runToArray_map vec2, hb] at hnp
    unfold tableBounds
    simp only [hb, ne_eq, not_true_eq_false, if_false, hnp, bind, Except.bind]
    cases runToArray basis ((0 : α), (0 : α)) runs with
    | error e => rfl
    | ok a =>
      simp only [Except.map, ← hp0, vec2]
      rfl

theorem tableBounds_toRun (basis : Nat) (runs : List (Nat × (α × α))) :
    tableBounds basis (toRun (basis, runs)) =
      (runToArray basis ((0 : α), (0 : α)) runs).map (fun a => (fun t => (a t).1, fun t => (a t).2)) :=
  tableBounds_pairs basis _ runs rfl rfl

end

/-! ## the generated units -/
section
variable {α : Type} [OfNat α 0]

theorem load_load_device_bounds (basis rb : Nat) (runs : List (Nat × (α × α))) (hd : DistinctStarts runs) :
    Gen.load_load_device_bounds basis rb runs = runToArray rb ((0 : α), (0 : α)) runs := by
  simp only [Gen.load_load_device_bounds, run_to_array_pair rb runs hd, bind_pure]

theorem load_storage_device_bounds (basis rb : Nat) (runs : List (Nat × (α × α))) (hd : DistinctStarts runs) :
    Gen.load_storage_device_bounds basis rb runs = runToArray rb ((0 : α), (0 : α)) runs := by
  simp only [Gen.load_storage_device_bounds, run_to_array_pair rb runs hd, bind_pure]

theorem load_thermal_load_device_bounds (basis rb : Nat) (runs : List (Nat × (α × α))) (hd : DistinctStarts runs) :
    Gen.load_thermal_load_device_bounds basis rb runs = runToArray rb ((0 : α), (0 : α)) runs := by
  simp only [Gen.load_thermal_load_device_bounds, run_to_array_pair rb runs hd, bind_pure]

end

section
variable {α : Type} [OfNat α 0] [DecidableEq α]

/-- the fixed-load test `(bounds[:,0] != bounds[:,1]).all()`: EVERY slot open. -/
def fixedAllOpen (basis : Nat) (lo hi : Nat → α) : Bool := (List.range basis).all (fun t => decide (lo t ≠ hi t))

/-- `load_fixed_load_device`: the table of the run, rejected (`Exception`) exactly when every slot has `lo ≠ hi`. -/
theorem load_fixed_load_device_bounds (basis rb : Nat) (runs : List (Nat × (α × α))) (hd : DistinctStarts runs) :
    Gen.load_fixed_load_device_bounds basis rb runs =
      (runToArray rb ((0 : α), (0 : α)) runs).bind (fun a =>
        if fixedAllOpen rb (fun t => (a t).1) (fun t => (a t).2) then .error .exception else .ok a) := by
  simp only [Gen.load_fixed_load_device_bounds, run_to_array_pair rb runs hd]
  cases runToArray rb ((0 : α), (0 : α)) runs with
  | error e => rfl
  | ok a =>
    simp only [bind, Except.bind, pure, Except.pure, Gen.allSlots, fixedAllOpen, throw, throwThe, MonadExceptOf.throw]
    first | rfl | (split <;> rfl)

end

section
variable {α : Type} [Add α] [Sub α] [Mul α] [Div α] [Neg α]
  [OfNat α 0] [OfNat α 1] [OfNat α 2]
  [LT α] [LE α] [DecidableEq α] [DecidableLT α] [DecidableLE α]

/-- the model executes the same test on the same table (`loadDevice`, fixed load). -/
theorem loadDevice_fixedLoad (basis : Nat) (run : Run α) :
    loadDevice basis (.fixedLoad run) = (tableBounds basis run).bind (fun b =>
      if fixedAllOpen basis b.1 b.2 then .error .exception
      else (checkDevice basis b none).bind (fun _ => .ok (mkLeaf basis b [] (.adevice .null)))) := by
  simp only [loadDevice, fixedAllOpen, bind, Except.bind]
  cases tableBounds basis run with
  | error e => rfl
  | ok b =>
    split <;> simp_all [Except.bind, throw, throwThe, MonadExceptOf.throw, pure, Except.pure]

end

/-- `load_supply_device`: the table of the run, negated and with its columns swapped — `supplyPair`. -/
theorem load_supply_device_bounds (basis rb : ℕ) (runs : List (ℕ × (ℝ × ℝ))) (hd : DistinctStarts runs) :
    Gen.load_supply_device_bounds basis rb runs =
      (runToArray rb ((0 : ℝ), (0 : ℝ)) runs).map (fun a t =>
        ((supplyPair (fun t => (a t).1) (fun t => (a t).2)).1 t, (supplyPair (fun t => (a t).1) (fun t => (a t).2)).2 t)) := by
  simp only [Gen.load_supply_device_bounds, run_to_array_pair rb runs hd]
  cases runToArray rb ((0 : ℝ), (0 : ℝ)) runs with
  | error e => rfl
  | ok a =>
    simp only [bind, Except.bind, pure, Except.pure, Except.map, supplyPair]
    all_goals (refine congrArg Except.ok (funext fun t => Prod.ext ?_ ?_) <;> (try dsimp only) <;> ring)

/-! ## the storage parameter map -/

theorem load_storage_device_parameter_map :
    Gen.load_storage_device_parameter_map =
      [("capacity", "capacity"), ("efficiencyFactor", "efficiency"), ("reserveRatio", "reserve"),
       ("startingRatio", "start"), ("fastChargeCostFactor", "c1"), ("flipFlopCostFactor", "c2"),
       ("deepDischargeCostFactor", "c3"), ("deepDepthRatio", "damage_depth")] := by decide

/-- the thermal parameter map (the thermal loader itself is an open finding: T2 only). -/
theorem load_thermal_load_device_parameter_map :
    Gen.load_thermal_load_device_parameter_map =
      [("desiredTemperature", "t_optimal"), ("initialTemperature", "t_init"), ("thermalSustainment", "sustainment"),
       ("efficiencyFactor", "efficiency"), ("externalTemperatureProfile", "t_external"),
       ("temperatureVariationCareFactor", "t_range")] := by decide

/-- the builder keys of the map are exactly the keys `storageSet` of the model accepts. -/
theorem load_storage_device_parameter_map_keys :
    Gen.load_storage_device_parameter_map.map Prod.fst = storageKeys := by decide

section
variable {α : Type} [Add α] [Sub α] [Mul α] [Div α] [Neg α]
  [OfNat α 0] [OfNat α 1] [OfNat α 2]
  [LT α] [LE α] [DecidableEq α] [DecidableLT α] [DecidableLE α]

/-- the `SDevice` keyword a renamed parameter is passed as ↦ the model's field. -/
def setKw (q : SParams α) (kw : String × α) : SParams α :=
  match kw.1 with
  | "capacity" => { q with capacity := kw.2 }
  | "efficiency" => { q with efficiency := kw.2 }
  | "reserve" => { q with reserve := kw.2 }
  | "start" => { q with start := kw.2 }
  | "c1" => { q with c1 := kw.2 }
  | "c2" => { q with c2 := kw.2 }
  | "c3" => { q with c3 := kw.2 }
  | "damage_depth" => { q with damageDepth := kw.2 }
  | _ => q

theorem storageSet_strGet (q : SParams α) (k : String) (v : α) :
    storageSet q k v =
      (Gen.strGet Gen.load_storage_device_parameter_map k).map (fun kw => setKw q (kw, v)) := by
  by_cases hk : k ∈ storageKeys
  · simp only [storageKeys, List.mem_cons, List.not_mem_nil, or_false] at hk
    rcases hk with rfl | rfl | rfl | rfl | rfl | rfl | rfl | rfl <;> rfl
  · rw [storageSet_unknown q k v hk]
    have : Gen.load_storage_device_parameter_map.find? (fun r => r.1 == k) = none := by
      rw [List.find?_eq_none]
      intro x hx
      have hx' : x.1 ∈ storageKeys := by
        rw [← load_storage_device_parameter_map_keys]; exact List.mem_map_of_mem hx
      intro h
      exact hk ((beq_iff_eq.mp h) ▸ hx')
    simp [Gen.strGet, this, Except.map]

theorem params_nil (basis : Nat) : Gen.load_storage_device_params basis ([] : List (String × α)) = .ok [] := rfl

theorem params_cons (basis : Nat) (k : String) (v : α) (rest : List (String × α)) :
    Gen.load_storage_device_params basis ((k, v) :: rest) =
      (Gen.strGet Gen.load_storage_device_parameter_map k).bind (fun kw =>
        (Gen.load_storage_device_params basis rest).bind (fun r => .ok ((kw, v) :: r))) := by
  simp only [Gen.load_storage_device_params, List.mapM_cons, bind_pure, bind, Except.bind, pure, Except.pure]
  cases Gen.strGet Gen.load_storage_device_parameter_map k with
  | error e => rfl
  | ok kw => rfl

/-- **storage parameters.** The comprehension `{parameter_map[k]: v for k, v in d['parameters'].items()}` followed by
the keyword call is the model's `storageParams` (same `KeyError` for a key outside the map). -/
theorem load_storage_device_params (basis : Nat) (ps : List (String × α)) (q : SParams α) :
    storageParams ps q = (Gen.load_storage_device_params basis ps).map (fun kws => kws.foldl setKw q) := by
  induction ps generalizing q with
  | nil => rfl
  | cons kv rest ih =>
    obtain ⟨k, v⟩ := kv
    rw [params_cons]
    simp only [storageParams, storageSet_strGet, bind, Except.bind]
    cases Gen.strGet Gen.load_storage_device_parameter_map k with
    | error e => rfl
    | ok kw =>
      simp only [Except.map, Except.bind]
      rw [ih]
      cases Gen.load_storage_device_params basis rest with
      | error e => rfl
      | ok kws => rfl

end
end DK.BridgeLoaders
