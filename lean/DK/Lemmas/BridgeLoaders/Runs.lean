import DK.Gen.Loaders.Runs
import DK.Lemmas.BridgeLoaders.Basic
import DK.Props.C20
/-!
# BridgeLoaders.Runs — `run_to_array` (scalar / pair / list values), `run_to_cbounds_array`, `load_cbounds` (C20)

Part of the T1l tie (see `DK/Lemmas/BridgeLoaders.lean`).  `DK/Gen/Loaders/Runs.lean` is regenerated from
`/repo/device_kit/loaders/builder_loader.py` on every check run; each generated unit is proved equal to the model
definition the C20 theorems are about (`runToArray`, `runToCbounds`, `loadCbounds`) for EVERY run dictionary with
distinct keys (a JSON object has distinct keys), any key order, every basis.
-/
set_option linter.unusedSimpArgs false
set_option linter.unnecessarySeqFocus false
set_option linter.unusedTactic false
set_option linter.unreachableTactic false
set_option linter.unusedVariables false
set_option linter.unusedSectionVars false
namespace DK.BridgeLoaders
open DK DK.Loader

/-- the loop body facts, closed by `omega` whichever way the source spells "is there a next key". -/
macro "loader_body" hd:ident : tactic => `(tactic|
  (intro acc i r e hi hnext hlast
   have hv := dictGet_sorted $hd hi
   have hlen := length_points (V := _) ‹_›
   have hil : i < (sortRuns ‹_›).length := (List.getElem?_eq_some_iff.mp hi).1
   by_cases hn : i + 1 < (sortRuns ‹_›).length
   · obtain ⟨r', hr'⟩ : ∃ r', (sortRuns ‹_›)[i + 1]? = some r' := ⟨_, List.getElem?_eq_getElem hn⟩
     have he := hnext r' hr'
     have hg := listGet_points hr'
     subst he
     simp only [hv, hg, hlen, bind, Except.bind, pure, Except.pure]
     split_ifs <;> first | rfl | (exfalso; omega)
   · have he := hlast (List.getElem?_eq_none (by omega))
     subst he
     simp only [hv, hlen, bind, Except.bind, pure, Except.pure]
     split_ifs <;> first | rfl | (exfalso; omega)))

section
variable {α : Type} [OfNat α 0]

/-- `run_to_array` on scalar-valued runs IS the model's `runToArray` from the zero vector. -/
theorem run_to_array_scalar (basis : Nat) (runs : List (Nat × α)) (hd : DistinctStarts runs) :
    Gen.run_to_array_scalar basis runs = runToArray basis (0 : α) runs := by
  unfold Gen.run_to_array_scalar runToArray
  cases hz : hasZero runs with
  | false => simp [dictGet_zero_of_not_hasZero hz, bind, Except.bind]
  | true =>
    obtain ⟨v, hv⟩ := dictGet_zero_of_hasZero hz
    simp only [hv, bind, Except.bind, pure, Except.pure, if_true]
    rw [foldlM_lookahead basis runs _ (fun a s e v => Gen.setSlice basis a s e v) (by loader_body hd)]
    simp only [fillRuns_eq_foldRuns]
    rfl

/-- `run_to_array` on pair-valued runs (device `bounds`) IS `runToArray` from the zero table. -/
theorem run_to_array_pair (basis : Nat) (runs : List (Nat × (α × α))) (hd : DistinctStarts runs) :
    Gen.run_to_array_pair basis runs = runToArray basis ((0 : α), (0 : α)) runs := by
  unfold Gen.run_to_array_pair runToArray
  cases hz : hasZero runs with
  | false => simp [dictGet_zero_of_not_hasZero hz, bind, Except.bind]
  | true =>
    obtain ⟨v, hv⟩ := dictGet_zero_of_hasZero hz
    simp only [hv, bind, Except.bind, pure, Except.pure, if_true]
    rw [foldlM_lookahead basis runs _ (fun a s e v => Gen.setSlice basis a s e v) (by loader_body hd)]
    simp only [fillRuns_eq_foldRuns]
    rfl

/-- `run_to_array` on list-valued runs: `KeyError` without the template `runs['0']`, otherwise `runToArray` from the
zero row of the template's length. -/
theorem run_to_array_vec (basis : Nat) (runs : List (Nat × List α)) (hd : DistinctStarts runs) :
    Gen.run_to_array_vec basis runs =
      match runs.find? (fun r => r.1 == 0) with
      | some t => runToArray basis (t.2.map fun _ => (0 : α)) runs
      | none => .error .keyError := by
  unfold Gen.run_to_array_vec runToArray
  rw [dictGet_zero_find]
  cases hf : runs.find? (fun r => r.1 == 0) with
  | none => simp [bind, Except.bind]
  | some t =>
    have hz : hasZero runs = true :=
      hasZero_iff.mpr ⟨t, List.mem_of_find?_eq_some hf, by simpa using List.find?_some hf⟩
    simp only [hz, bind, Except.bind, pure, Except.pure, if_true]
    rw [foldlM_lookahead basis runs _ (fun a s e v => Gen.setSlice basis a s e v) (by loader_body hd)]
    simp only [fillRuns_eq_foldRuns]
    have : (fun (_ : Nat) => List.replicate t.2.length (0 : α)) = fun _ => t.2.map fun _ => (0 : α) := by
      funext _; exact (List.map_const' ..).symm
    rw [this]
    rfl

end

section
variable {α : Type}

/-- `run_to_cbounds_array` IS the model's `runToCbounds` (as 4-lists `[l, h, start, end]`). -/
theorem run_to_cbounds_array (basis : Nat) (runs : List (Nat × (α × α))) (hd : DistinctStarts runs) :
    Gen.run_to_cbounds_array basis runs = .ok ((runToCbounds basis runs).map cbTuple) := by
  unfold Gen.run_to_cbounds_array runToCbounds
  simp only [bind, Except.bind, pure, Except.pure]
  rw [foldlM_lookahead basis runs _ (fun a s e (v : α × α) => a ++ [(v.1, v.2, s, e)]) (by loader_body hd)]
  rw [← cboundsOf_eq_foldRuns]
  rfl

/-- a pair-valued run dictionary as the JSON value the model's numpy layer reads. -/
def toRun (r : Nat × List (Nat × (α × α))) : Run α :=
  ⟨r.1, r.2.map (fun x => (x.1, RunVal.vec [x.2.1, x.2.2]))⟩

end

section
variable {α : Type} [OfNat α 0]

/-- `load_cbounds(d)` IS the model's `loadCbounds` (`None` without the key), for a run carrying the export's basis. -/
theorem load_cbounds (basis : Nat) (cb : Option (Nat × List (Nat × (α × α))))
    (hb : ∀ r ∈ cb, r.1 = basis) (hd : ∀ r ∈ cb, DistinctStarts r.2) :
    Gen.load_cbounds cb = (loadCbounds basis (cb.map toRun)).map (Option.map (List.map cbTuple)) := by
  cases cb with
  | none => rfl
  | some r =>
    have hb' : r.1 = basis := hb r rfl
    have hd' := hd r rfl
    subst hb'
    have hnp : runToCboundsNp (toRun r) = .ok (runToCbounds r.1 r.2) := by
      rw [runToCboundsNp_eq (toRun r) (by
        intro x hx
        simp only [toRun, List.mem_map] at hx
        obtain ⟨y, _, rfl⟩ := hx
        exact ⟨_, _, rfl⟩)]
      congr 1
      simp only [toRun, List.map_map]
      congr 1
      conv => rhs; rw [← List.map_id r.2]
      apply List.map_congr_left
      intro x _
      simp [pairOf, RunVal.get]
    simp only [Gen.load_cbounds, run_to_cbounds_array r.1 r.2 hd', loadCbounds, Option.map, toRun]
    simp only [toRun] at hnp
    simp [bind, Except.bind, pure, Except.pure, Except.map, hnp]

end
end DK.BridgeLoaders
