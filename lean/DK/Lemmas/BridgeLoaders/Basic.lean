import DK.Gen.Loaders.Prelude
import DK.Lemmas.Loader
import Mathlib.Tactic.SplitIfs
/-!
# BridgeLoaders.Basic — what the Python forms of the loader prelude are, in terms of the model's lists

* `sortedInt (dictKeys l)` is the key column of the model's `sortRuns l`;
* `dictGet` on a dictionary with distinct keys finds the value listed with the key;
* the loop `for i, v in enumerate(points): e = int(points[i+1]) if i < len(points) - 1 else basis; …` over the sorted
  keys is the structural recursion `foldRuns` over the sorted run list handing each run its start, the NEXT start (or the
  basis for the last run) and its value (`foldlM_lookahead`), for any loop body that does so (`hbody`);
* `fillRuns` / `cboundsOf` of the model are instances of `foldRuns`.
-/
set_option linter.unusedSimpArgs false
set_option linter.unusedVariables false
set_option linter.unusedSectionVars false
namespace DK.BridgeLoaders
open DK DK.Loader

section
variable {V σ : Type}

theorem insertKey_map (k : Nat) (v : V) (xs : List (Nat × V)) :
    Gen.insertKey (fun a b => decide (a ≤ b)) k (xs.map Prod.fst) = (insertRun (k, v) xs).map Prod.fst := by
  induction xs with
  | nil => rfl
  | cons x xs ih =>
    simp only [List.map_cons, Gen.insertKey, insertRun, decide_eq_true_eq]
    split_ifs <;> simp [ih]

/-- `sorted(run['runs'].keys(), key=int)` is the key column of `sortRuns`. -/
theorem sortedInt_keys (l : List (Nat × V)) : Gen.sortedInt (Gen.dictKeys l) = (sortRuns l).map Prod.fst := by
  induction l with
  | nil => rfl
  | cons r rs ih =>
    have : Gen.dictKeys (r :: rs) = r.1 :: Gen.dictKeys rs := rfl
    rw [this, Gen.sortedInt, ih, sortRuns, insertKey_map r.1 r.2]

theorem dictGet_of_mem {l : List (Nat × V)} (hd : DistinctStarts l) {r : Nat × V} (hr : r ∈ l) :
    Gen.dictGet l r.1 = .ok r.2 := by
  induction l with
  | nil => cases hr
  | cons x xs ih =>
    have hx := List.nodup_cons.mp (show (List.map Prod.fst (x :: xs)).Nodup from hd)
    rcases List.mem_cons.mp hr with rfl | hr'
    · simp [Gen.dictGet]
    · have hne : x.1 ≠ r.1 := fun h => hx.1 (h ▸ List.mem_map_of_mem hr')
      have := ih hx.2 hr'
      simp only [Gen.dictGet, List.find?_cons] at this ⊢
      rw [show (x.1 == r.1) = false from by simpa using hne]
      exact this

theorem dictGet_zero_of_hasZero {l : List (Nat × V)} (h : hasZero l = true) : ∃ v, Gen.dictGet l 0 = .ok v := by
  induction l with
  | nil => simp [hasZero] at h
  | cons x xs ih =>
    by_cases hx : x.1 = 0
    · exact ⟨x.2, by simp [Gen.dictGet, List.find?_cons, hx]⟩
    · have : hasZero xs = true := by simpa [hasZero, hx] using h
      obtain ⟨v, hv⟩ := ih this
      refine ⟨v, ?_⟩
      simp only [Gen.dictGet, List.find?_cons] at hv ⊢
      rw [show (x.1 == 0) = false from by simpa using hx]
      exact hv

theorem dictGet_zero_of_not_hasZero {l : List (Nat × V)} (h : hasZero l = false) :
    Gen.dictGet l 0 = .error .keyError := by
  induction l with
  | nil => rfl
  | cons x xs ih =>
    have hx : ¬ x.1 = 0 := by intro hx; simp [hasZero, hx] at h
    have : hasZero xs = false := by simpa [hasZero, hx] using h
    have := ih this
    simp only [Gen.dictGet, List.find?_cons] at this ⊢
    rw [show (x.1 == 0) = false from by simpa using hx]
    exact this

/-- the template `run['runs']['0']` as the model's `template` names it. -/
theorem dictGet_zero_find (l : List (Nat × V)) :
    Gen.dictGet l 0 = match l.find? (fun r => r.1 == 0) with | some r => .ok r.2 | none => .error .keyError := rfl

/-- the recursion behind both loader loops: each run is handed its start, the next start (the basis for the last run)
and its value. -/
def foldRuns (step : σ → Nat → Nat → V → σ) (basis : Nat) : List (Nat × V) → σ → σ
  | [], a => a
  | [r], a => step a r.1 basis r.2
  | r :: r' :: rest, a => foldRuns step basis (r' :: rest) (step a r.1 r'.1 r.2)

/-- the start of the next run, the basis after the last one. -/
def nextOr (basis : Nat) : List (Nat × V) → Nat
  | [] => basis
  | r' :: _ => r'.1

theorem foldlM_lookahead_aux (basis : Nat) (srt : List (Nat × V))
    (body : σ → Nat × Nat → Except LoadErr σ) (step : σ → Nat → Nat → V → σ)
    (hbody : ∀ acc i (r : Nat × V) e, srt[i]? = some r → (∀ r', srt[i + 1]? = some r' → e = r'.1) →
      (srt[i + 1]? = none → e = basis) → body acc (i, r.1) = .ok (step acc r.1 e r.2)) :
    ∀ (suf pre : List (Nat × V)) (a : σ), srt = pre ++ suf →
      List.foldlM body a (List.zip (List.range' pre.length suf.length) (suf.map Prod.fst)) =
        .ok (foldRuns step basis suf a) := by
  intro suf
  induction suf with
  | nil => intro pre a _; rfl
  | cons r suf' ih =>
    intro pre a hsrt
    have hk : srt[pre.length]? = some r := by rw [hsrt]; simp
    have hk1 : srt[pre.length + 1]? = suf'[0]? := by
      rw [hsrt, List.getElem?_append_right (by omega)]; simp
    simp only [List.length_cons, List.range'_succ, List.map_cons, List.zip_cons_cons, List.foldlM_cons]
    have hstep := ih (pre ++ [r]) (a := step a r.1 (nextOr basis suf') r.2)
      (by rw [hsrt]; simp)
    rw [hbody a pre.length r (nextOr basis suf') hk
      (by intro r' h; rw [hk1] at h; cases suf' with
          | nil => simp at h
          | cons x xs => simp at h; subst h; simp [nextOr])
      (by intro h; rw [hk1] at h; cases suf' with
          | nil => rfl
          | cons x xs => simp at h)]
    simp only [List.length_append, List.length_cons, List.length_nil, Nat.zero_add] at hstep
    show (Except.ok _ >>= fun s' => List.foldlM body s' _) = _
    simp only [Except.bind, bind]
    rw [hstep]
    cases suf' with
    | nil => rfl
    | cons x xs => rfl

/-- **the look-ahead loop over the sorted keys.** -/
theorem foldlM_lookahead (basis : Nat) (runs : List (Nat × V))
    (body : σ → Nat × Nat → Except LoadErr σ) (step : σ → Nat → Nat → V → σ)
    (hbody : ∀ acc i (r : Nat × V) e, (sortRuns runs)[i]? = some r →
      (∀ r', (sortRuns runs)[i + 1]? = some r' → e = r'.1) →
      ((sortRuns runs)[i + 1]? = none → e = basis) → body acc (i, r.1) = .ok (step acc r.1 e r.2)) (a : σ) :
    List.foldlM body a (Gen.enumerate (Gen.sortedInt (Gen.dictKeys runs))) =
      .ok (foldRuns step basis (sortRuns runs) a) := by
  have := foldlM_lookahead_aux basis (sortRuns runs) body step hbody (sortRuns runs) [] a rfl
  simpa [Gen.enumerate, sortedInt_keys, List.range_eq_range'] using this

/-- what a loop body may use about position `i` of the sorted keys. -/
theorem listGet_points {runs : List (Nat × V)} {i : Nat} {r' : Nat × V} (h : (sortRuns runs)[i]? = some r') :
    Gen.listGet (Gen.sortedInt (Gen.dictKeys runs)) i = .ok r'.1 := by
  simp [Gen.listGet, sortedInt_keys, List.getElem?_map, h]

theorem length_points (runs : List (Nat × V)) :
    (Gen.sortedInt (Gen.dictKeys runs)).length = (sortRuns runs).length := by
  simp [sortedInt_keys]

theorem dictGet_sorted {runs : List (Nat × V)} (hd : DistinctStarts runs) {i : Nat} {r : Nat × V}
    (h : (sortRuns runs)[i]? = some r) : Gen.dictGet runs r.1 = .ok r.2 :=
  dictGet_of_mem hd ((sortRuns_perm runs).mem_iff.mp (List.mem_of_getElem? h))

theorem fillRuns_eq_foldRuns (basis : Nat) (l : List (Nat × V)) (a : Nat → V) :
    fillRuns basis l a = foldRuns (fun a s e v => assignSlice basis a s e v) basis l a := by
  induction l generalizing a with
  | nil => rfl
  | cons r rs ih =>
    cases rs with
    | nil => rfl
    | cons r' rest => simp only [fillRuns, foldRuns]; exact ih _

end

section
variable {α : Type}

/-- a cumulative bound as the 4-list `[l, h, start, end]` the loader builds. -/
def cbTuple (c : CBound α) : α × α × Nat × Nat := (c.l, c.h, c.s, c.e)

theorem cboundsOf_eq_foldRuns (basis : Nat) (l : List (Nat × (α × α))) (a : List (α × α × Nat × Nat)) :
    a ++ (cboundsOf basis l).map cbTuple =
      foldRuns (fun a s e (v : α × α) => a ++ [(v.1, v.2, s, e)]) basis l a := by
  induction l generalizing a with
  | nil => simp [cboundsOf, foldRuns]
  | cons r rs ih =>
    cases rs with
    | nil => simp [cboundsOf, foldRuns, cbTuple]
    | cons r' rest =>
      simp only [cboundsOf, foldRuns, List.map_cons]
      rw [← ih]
      simp [cbTuple]

end
end DK.BridgeLoaders
