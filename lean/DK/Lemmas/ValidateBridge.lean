import DK.Model.Validate
import DK.Gen.Validators
import Mathlib.Data.Real.Basic
/-!
# Bridge (tie T1) for the scalar parameter validators (property C11)

`DK.Gen.*_ok` is regenerated from the property setters of `/repo/device_kit/{sdevice,cdevice,tdevice}.py` on
every C11 check run (`vk/translate_validators.py`).  Each lemma below states that the generated validator
*is* the hand-written model validator the C11 theorems are about (`DK/Model/Validate.lean`), for all real
arguments.  A loosened, tightened, re-ordered or dropped check in the Python source makes the lemma fail.
-/
namespace DK.ValidateBridge
open DK DK.Validate

theorem sdevice_c1 (c1 c2 : ℝ) : Gen.sdevice_c1_ok c1 c2 = sC1Ok c1 c2 := by
  unfold Gen.sdevice_c1_ok sC1Ok; rfl
theorem sdevice_c2 (c2 c1 : ℝ) : Gen.sdevice_c2_ok c2 c1 = sC2Ok c2 c1 := by
  unfold Gen.sdevice_c2_ok sC2Ok; rfl
theorem sdevice_c3 (c3 : ℝ) : Gen.sdevice_c3_ok c3 = sC3Ok c3 := by
  unfold Gen.sdevice_c3_ok sC3Ok; rfl
theorem sdevice_capacity (c : ℝ) : Gen.sdevice_capacity_ok c = sCapacityOk c := by
  unfold Gen.sdevice_capacity_ok sCapacityOk; rfl
theorem sdevice_start (x : ℝ) : Gen.sdevice_start_ok x = sUnitOk x := by
  unfold Gen.sdevice_start_ok sUnitOk; rfl
theorem sdevice_reserve (x : ℝ) : Gen.sdevice_reserve_ok x = sUnitOk x := by
  unfold Gen.sdevice_reserve_ok sUnitOk; rfl
theorem sdevice_damage_depth (x : ℝ) : Gen.sdevice_damage_depth_ok x = sUnitOk x := by
  unfold Gen.sdevice_damage_depth_ok sUnitOk; rfl
theorem sdevice_efficiency (x : ℝ) : Gen.sdevice_efficiency_ok x = sRateOk x := by
  unfold Gen.sdevice_efficiency_ok sRateOk; rfl
theorem sdevice_sustainment (x : ℝ) : Gen.sdevice_sustainment_ok x = sRateOk x := by
  unfold Gen.sdevice_sustainment_ok sRateOk; rfl
theorem cdevice_a (a : ℝ) : Gen.cdevice_a_ok a = cAOk a := by
  unfold Gen.cdevice_a_ok cAOk; rfl
theorem tdevice_sustainment (s : ℝ) : Gen.tdevice_sustainment_ok s = tSustainmentOk s := by
  unfold Gen.tdevice_sustainment_ok tSustainmentOk; rfl
theorem tdevice_efficiency (e : ℝ) : Gen.tdevice_efficiency_ok e = tEfficiencyOk e := by
  unfold Gen.tdevice_efficiency_ok tEfficiencyOk; rfl
theorem tdevice_t_range (r : ℝ) : Gen.tdevice_t_range_ok r = tRangeOk r := by
  unfold Gen.tdevice_t_range_ok tRangeOk; rfl

end DK.ValidateBridge
