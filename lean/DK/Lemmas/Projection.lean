import DK.Model.Projection
import DK.Lemmas.Sum
import Mathlib.Data.Real.Basic
import Mathlib.Analysis.Real.Sqrt
import Mathlib.Tactic.Ring
import Mathlib.Tactic.Linarith
import Mathlib.Tactic.FieldSimp
import Mathlib.Tactic.Positivity
/-!
# Helper lemmas for C18 (projection onto convex regions), over `ℝ`
-/
namespace DK
open DK

/-! ## `absv`, `closeTo`, `dist2`, `dot` -/

theorem absv_eq_abs (x : ℝ) : absv x = |x| := by
  unfold absv
  split_ifs with h
  · exact (abs_of_neg h).symm
  · exact (abs_of_nonneg (not_lt.mp h)).symm

theorem closeTo_iff (n : ℕ) (tol : ℝ) (a b : ℕ → ℝ) :
    closeTo n tol a b = true ↔ ∀ i < n, |a i - b i| ≤ tol := by
  unfold closeTo
  simp only [List.all_eq_true, List.mem_range, decide_eq_true_eq, absv_eq_abs]

theorem closeTo_zero_iff (n : ℕ) (a b : ℕ → ℝ) :
    closeTo n 0 a b = true ↔ ∀ i < n, a i = b i := by
  rw [closeTo_iff]
  constructor
  · intro h i hi
    have := h i hi
    have h0 : |a i - b i| = 0 := le_antisymm this (abs_nonneg _)
    linarith [abs_eq_zero.mp h0]
  · intro h i hi
    rw [h i hi]; simp

theorem mcloseTo_zero_iff (R C : ℕ) (A B : Mat ℝ) :
    mcloseTo R C 0 A B = true ↔ ∀ r < R, ∀ c < C, A r c = B r c := by
  unfold mcloseTo
  simp only [List.all_eq_true, List.mem_range, closeTo_zero_iff]

theorem dist2_nonneg (n : ℕ) (p q : ℕ → ℝ) : 0 ≤ dist2 n p q :=
  sumTo_nonneg (fun i _ => mul_self_nonneg _)

theorem dist2_congr_right {n : ℕ} (p : ℕ → ℝ) {x y : ℕ → ℝ} (h : ∀ i < n, x i = y i) :
    dist2 n p x = dist2 n p y := by
  unfold dist2
  exact sumTo_congr (fun i hi => by rw [h i hi])

theorem dot_congr_right {n : ℕ} (u : ℕ → ℝ) {x y : ℕ → ℝ} (h : ∀ i < n, x i = y i) :
    dot n u x = dot n u y := by
  unfold dot
  exact sumTo_congr (fun i hi => by rw [h i hi])

/-- moving along `u` by `t` changes `u·x` by `t·(u·u)`. -/
theorem dot_add_smul (n : ℕ) (u p : ℕ → ℝ) (t : ℝ) :
    dot n u (fun i => p i + u i * t) = dot n u p + dot n u u * t := by
  unfold dot
  rw [← sumTo_mul_right, ← sumTo_add]
  exact sumTo_congr (fun i _ => by ring)

/-- the squared distance moved is `t²·(u·u)`. -/
theorem dist2_add_smul (n : ℕ) (u p : ℕ → ℝ) (t : ℝ) :
    dist2 n p (fun i => p i + u i * t) = t * t * dot n u u := by
  unfold dist2 dot
  rw [← sumTo_mul_left]
  exact sumTo_congr (fun i _ => by ring)

/-- a vector with positive squared norm has a non-zero entry among the first `n`. -/
theorem exists_ne_zero_of_dot_pos (n : ℕ) (u : ℕ → ℝ) (h : 0 < dot n u u) : ∃ i < n, u i ≠ 0 := by
  by_contra hc
  push_neg at hc
  have : dot n u u = 0 := by
    unfold dot
    rw [sumTo_congr (g := fun _ => (0 : ℝ)) (fun i hi => by rw [hc i hi]; ring)]
    simp
  linarith

theorem dot_self_nonneg (n : ℕ) (u : ℕ → ℝ) : 0 ≤ dot n u u :=
  sumTo_nonneg (fun i _ => mul_self_nonneg _)

/-- **first-order certificate of a nearest point**: if `(p − x)·(y − x) ≤ 0` then `y` is no
nearer to `p` than `x`.  (This is the variational inequality characterising the projection onto
a convex set; it is what a KKT point of `min ‖x − p‖²` asserts.) -/
theorem dist2_le_of_variational (n : ℕ) (p x y : ℕ → ℝ)
    (h : sumTo n (fun i => (p i - x i) * (y i - x i)) ≤ 0) : dist2 n p x ≤ dist2 n p y := by
  have e : dist2 n p y = dist2 n p x + dist2 n x y - 2 * sumTo n (fun i => (p i - x i) * (y i - x i)) := by
    unfold dist2
    rw [← sumTo_mul_left, ← sumTo_add, ← sumTo_sub]
    exact sumTo_congr (fun i _ => by ring)
  have := dist2_nonneg n x y
  linarith

/-! ## one slot of a box -/

theorem clamp_mem (lo hi p : ℝ) (h : lo ≤ hi) : lo ≤ clamp lo hi p ∧ clamp lo hi p ≤ hi := by
  unfold clamp; dsimp only
  split_ifs <;> constructor <;> linarith

theorem clamp_nearest (lo hi p y : ℝ) (h : lo ≤ hi) (hy : lo ≤ y ∧ y ≤ hi) :
    (p - clamp lo hi p) * (p - clamp lo hi p) ≤ (p - y) * (p - y) := by
  unfold clamp; dsimp only
  split_ifs <;> nlinarith [hy.1, hy.2]

theorem clamp_of_mem (lo hi p : ℝ) (hp : lo ≤ p ∧ p ≤ hi) : clamp lo hi p = p := by
  unfold clamp; dsimp only
  split_ifs <;> linarith [hp.1, hp.2]

theorem clamp_idem (lo hi p : ℝ) : clamp lo hi (clamp lo hi p) = clamp lo hi p := by
  unfold clamp; dsimp only
  split_ifs <;> linarith

end DK
