import DK.Props.Defs
import DK.Lemmas.Sum
import DK.Lemmas.Calc
import Mathlib.Analysis.Calculus.Deriv.Basic
import Mathlib.Analysis.Calculus.Deriv.Add
import Mathlib.Analysis.Calculus.Deriv.Mul
import Mathlib.Analysis.Calculus.Deriv.Comp
import Mathlib.Analysis.Calculus.Deriv.Pow
import Mathlib.Topology.Order.OrderClosed
import Mathlib.Order.Filter.Finite
import Mathlib.Tactic.Ring
import Mathlib.Tactic.Linarith
import Mathlib.Tactic.FieldSimp
/-!
# Calculus lemmas for the preference-function combinators (`Fn ℝ`)

The `IsGradAt` calculus beyond `DK.Lemmas.Calc` (reflection, coordinate functions, `append`
splitting, composition with the total) and the local constancy of `argmax` under a unique maximum.
The shared pieces (`line_zero`, `line_hasDerivAt`, `sumTo_hasDerivAt`, `IsGradAt.add`,
`isGradAt_const`, the `polyEval` / `hlq` / `abc` kernel derivatives, `ipow_natCast`, `intCast'_eq`)
live in `DK.Lemmas.Calc`.
-/
namespace DK
open DK Filter Topology

/-! ## `line` and `sumTo` -/

/-- chain rule along a line, coordinate `k`. -/
theorem comp_line {φ : ℝ → ℝ} {φ' : ℝ} (x d : ℕ → ℝ) (k : ℕ) (h : HasDerivAt φ φ' (x k)) :
    HasDerivAt (fun τ => φ (line x d τ k)) (φ' * d k) 0 := by
  have h0 : line x d 0 k = x k := by simp [line]
  have h' : HasDerivAt φ φ' (line x d 0 k) := by rw [h0]; exact h
  exact HasDerivAt.comp (0:ℝ) h' (line_hasDerivAt x d k 0)

/-- a sum masked to the single index `i` (mask written `i = k`). -/
theorem sumTo_single' (n i : ℕ) (hi : i < n) (v : ℝ) (d : ℕ → ℝ) :
    sumTo n (fun k => (if i = k then v else 0) * d k) = v * d i := by
  rw [← sumTo_single n i hi (fun k => v * d k)]
  apply sumTo_congr
  intro k _
  by_cases h : i = k
  · subst h; simp
  · have h' : ¬ k = i := fun e => h e.symm
    simp [h, h']

/-! ## `IsGradAt` calculus -/

theorem IsGradAt.congr {n : ℕ} {F F' : (ℕ → ℝ) → ℝ} {g g' x : ℕ → ℝ} (h : IsGradAt n F g x)
    (hF : ∀ y, F' y = F y) (hg : ∀ k < n, g' k = g k) : IsGradAt n F' g' x := by
  intro d
  have e1 : (fun τ => F' (line x d τ)) = (fun τ => F (line x d τ)) := by funext τ; exact hF _
  have e2 : sumTo n (fun k => g' k * d k) = sumTo n (fun k => g k * d k) :=
    sumTo_congr (fun k hk => by rw [hg k hk])
  rw [e1, e2]; exact h d

/-- reflection of the argument. -/
theorem isGradAt_neg_arg {n : ℕ} {F : (ℕ → ℝ) → ℝ} {g x : ℕ → ℝ}
    (h : IsGradAt n F g (fun i => - x i)) :
    IsGradAt n (fun y => F (fun i => - y i)) (fun k => - g k) x := by
  intro d
  have e1 : ∀ τ, (fun i => - line x d τ i) = line (fun i => - x i) (fun i => - d i) τ := by
    intro τ; funext i; simp only [line]; ring
  have e2 : sumTo n (fun k => - g k * d k) = sumTo n (fun k => g k * (fun i => - d i) k) :=
    sumTo_congr (fun k _ => by ring)
  rw [e2]
  simp only [e1]
  exact h (fun i => - d i)

/-- reflection of the argument and of the value (what `reflect` does to a derivative entry). -/
theorem isGradAt_neg_neg {n : ℕ} {F : (ℕ → ℝ) → ℝ} {g x : ℕ → ℝ}
    (h : IsGradAt n F g (fun i => - x i)) :
    IsGradAt n (fun y => - F (fun i => - y i)) g x := by
  intro d
  have h1 := (isGradAt_neg_arg h d).neg
  refine HasDerivAt.congr_deriv h1 ?_
  rw [← sumTo_neg]
  exact sumTo_congr (fun k _ => by ring)

/-- a function of the single coordinate `i`. -/
theorem isGradAt_coord {n i : ℕ} (hi : i < n) {ψ : ℝ → ℝ} {ψ' : ℝ} {x : ℕ → ℝ}
    (h : HasDerivAt ψ ψ' (x i)) :
    IsGradAt n (fun y => ψ (y i)) (fun j => if i = j then ψ' else 0) x := by
  intro d
  rw [sumTo_single' n i hi]
  exact comp_line x d i h

/-- a separable function `Σ_k φ_k (y_k)`. -/
theorem isGradAt_separable {n : ℕ} {φ : ℕ → ℝ → ℝ} {φ' x : ℕ → ℝ}
    (h : ∀ k < n, HasDerivAt (φ k) (φ' k) (x k)) :
    IsGradAt n (fun y => sumTo n (fun k => φ k (y k))) φ' x := by
  intro d
  exact sumTo_hasDerivAt n (fun k τ => φ k (line x d τ k)) (fun k => φ' k * d k) 0
    (fun k hk => comp_line x d k (h k hk))

/-- a function of the total `Σ_k y_k`. -/
theorem isGradAt_comp_sum {n : ℕ} {φ : ℝ → ℝ} {φ' : ℝ} {x : ℕ → ℝ}
    (h : HasDerivAt φ φ' (sumTo n x)) :
    IsGradAt n (fun y => φ (sumTo n y)) (fun _ => φ') x := by
  intro d
  have h1 : HasDerivAt (fun τ => sumTo n (fun k => line x d τ k)) (sumTo n d) 0 :=
    sumTo_hasDerivAt n (fun k τ => line x d τ k) d 0 (fun k _ => line_hasDerivAt x d k 0)
  have h0 : sumTo n (fun k => line x d 0 k) = sumTo n x := by rw [line_zero]
  have h' : HasDerivAt φ φ' (sumTo n (fun k => line x d 0 k)) := by rw [h0]; exact h
  have h2 := HasDerivAt.comp (0:ℝ) h' h1
  refine HasDerivAt.congr_deriv h2 ?_
  rw [sumTo_mul_left]

/-- a function that reads only the first `k ≤ n` entries. -/
theorem isGradAt_extend {n k : ℕ} (hk : k ≤ n) {F : (ℕ → ℝ) → ℝ} {g x : ℕ → ℝ}
    (h : IsGradAt k F g x) : IsGradAt n F (fun j => if j < k then g j else 0) x := by
  intro d
  have e : sumTo n (fun j => (if j < k then g j else 0) * d j) = sumTo k (fun j => g j * d j) := by
    rw [sumTo_split n k hk]
    have e1 : sumTo k (fun j => (if j < k then g j else 0) * d j) = sumTo k (fun j => g j * d j) :=
      sumTo_congr (fun j hj => by simp [hj])
    have e2 : sumTo (n - k) (fun i => (if k + i < k then g (k + i) else 0) * d (k + i)) = 0 := by
      rw [← sumTo_zero_fn (n - k)]
      exact sumTo_congr (fun i _ => by
        have : ¬ k + i < k := by omega
        simp [this])
    rw [e1, e2, add_zero]
  rw [e]; exact h d

/-- a function that reads only the entries from `k` on. -/
theorem isGradAt_shift {n k : ℕ} (hk : k ≤ n) {G : (ℕ → ℝ) → ℝ} {g x : ℕ → ℝ}
    (h : IsGradAt (n - k) G g (fun i => x (k + i))) :
    IsGradAt n (fun y => G (fun i => y (k + i))) (fun j => if j < k then 0 else g (j - k)) x := by
  intro d
  have e : sumTo n (fun j => (if j < k then 0 else g (j - k)) * d j)
      = sumTo (n - k) (fun i => g i * (fun i => d (k + i)) i) := by
    rw [sumTo_split n k hk]
    have e1 : sumTo k (fun j => (if j < k then 0 else g (j - k)) * d j) = 0 := by
      rw [← sumTo_zero_fn k]
      exact sumTo_congr (fun j hj => by simp [hj])
    have e2 : sumTo (n - k) (fun i => (if k + i < k then 0 else g (k + i - k)) * d (k + i))
        = sumTo (n - k) (fun i => g i * d (k + i)) :=
      sumTo_congr (fun i _ => by
        have h1 : ¬ k + i < k := by omega
        have h2 : k + i - k = i := by omega
        simp [h1, h2])
    rw [e1, e2, zero_add]
  rw [e]
  exact h (fun i => d (k + i))

/-- `append k f g`. -/
theorem isGradAt_append {n k : ℕ} (hk : k ≤ n) {F G : (ℕ → ℝ) → ℝ} {gf gg x : ℕ → ℝ}
    (hF : IsGradAt k F gf x) (hG : IsGradAt (n - k) G gg (fun i => x (k + i))) :
    IsGradAt n (fun y => F y + G (fun i => y (k + i)))
      (fun j => if j < k then gf j else gg (j - k)) x := by
  refine ((isGradAt_extend hk hF).add (isGradAt_shift hk hG)).congr (fun _ => rfl) ?_
  intro j _
  by_cases h : j < k <;> simp [h]

/-! ## polynomials -/

theorem polyFold_acc (x : ℝ) (cs : List ℝ) (a : ℝ) :
    cs.foldl (fun acc c => acc * x + c) a
      = a * x ^ cs.length + cs.foldl (fun acc c => acc * x + c) 0 := by
  rw [polyEval_foldl]; rfl

/-! ## ABC cost with integer exponent `≥ 1` (names used by `DK.Props.C01c`; proofs in `Calc`) -/

theorem abcCost_hasDerivAt (x a : ℝ) (b : ℤ) (c xl xh : ℝ) (hb : 1 ≤ b) :
    HasDerivAt (fun x => abcCost ipow x a b c xl xh) (abcDeriv ipow intCast' x a b c xl xh) x :=
  abcCost_ipow_hasDerivAt x a b c xl xh hb

theorem abcDeriv_hasDerivAt (x a : ℝ) (b : ℤ) (c xl xh : ℝ) (hb : 1 ≤ b) :
    HasDerivAt (fun x => abcDeriv ipow intCast' x a b c xl xh)
      (abcHess ipow intCast' x a b c xl xh) x :=
  abcDeriv_ipow_hasDerivAt x a b c xl xh hb

/-! ## `argmax` -/

theorem argmax_lt (n : ℕ) (x : ℕ → ℝ) (hn : 0 < n) : argmax n x < n := by
  induction n with
  | zero => omega
  | succ n ih =>
    cases n with
    | zero => simp [argmax]
    | succ n =>
      have := ih (Nat.succ_pos n)
      simp only [argmax]
      split_ifs <;> omega

theorem argmax_ge (n : ℕ) (x : ℕ → ℝ) : ∀ j < n, x j ≤ x (argmax n x) := by
  induction n with
  | zero => intro j hj; omega
  | succ n ih =>
    cases n with
    | zero =>
      intro j hj
      have : j = 0 := by omega
      subst this; simp [argmax]
    | succ n =>
      intro j hj
      simp only [argmax]
      by_cases hlt : x (argmax (n + 1) x) < x (n + 1)
      · simp only [hlt, if_true]
        by_cases hj' : j < n + 1
        · exact le_trans (ih j hj') (le_of_lt hlt)
        · have : j = n + 1 := by omega
          subst this; exact le_refl _
      · simp only [hlt, if_false]
        by_cases hj' : j < n + 1
        · exact ih j hj'
        · have : j = n + 1 := by omega
          subst this; exact not_lt.mp hlt

/-- a strict maximum is the `argmax`. -/
theorem argmax_eq_of_strict (n : ℕ) (y : ℕ → ℝ) (m : ℕ) (hm : m < n)
    (h : ∀ j < n, j ≠ m → y j < y m) : argmax n y = m := by
  by_contra hne
  have ha : argmax n y < n := argmax_lt n y (by omega)
  have h1 := h _ ha hne
  have h2 := argmax_ge n y m hm
  linarith

/-- under a unique maximum, `argmax` is constant near `x` along every line. -/
theorem argmax_line_eventually (n : ℕ) (x d : ℕ → ℝ) (hn : 0 < n)
    (h : ∀ j < n, j ≠ argmax n x → x j < x (argmax n x)) :
    ∀ᶠ τ in 𝓝 (0:ℝ), argmax n (line x d τ) = argmax n x := by
  have hm := argmax_lt n x hn
  have key : ∀ j ∈ Finset.range n, ∀ᶠ τ in 𝓝 (0:ℝ),
      j ≠ argmax n x → line x d τ j < line x d τ (argmax n x) := by
    intro j hj
    by_cases hne : j = argmax n x
    · exact Filter.Eventually.of_forall (fun τ h => absurd hne h)
    · have c1 := (line_hasDerivAt x d j 0).continuousAt
      have c2 := (line_hasDerivAt x d (argmax n x) 0).continuousAt
      have h0 : line x d 0 j < line x d 0 (argmax n x) := by
        rw [line_zero]; exact h j (Finset.mem_range.mp hj) hne
      exact (c1.eventually_lt c2 h0).mono (fun τ hτ _ => hτ)
  have key' := (Filter.eventually_all_finset (Finset.range n)).mpr key
  filter_upwards [key'] with τ hτ
  exact argmax_eq_of_strict n _ _ hm (fun j hj hne => hτ j (Finset.mem_range.mpr hj) hne)

end DK
