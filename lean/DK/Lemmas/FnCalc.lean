import DK.Props.Defs
import DK.Lemmas.Sum
import Mathlib.Analysis.Calculus.Deriv.Basic
import Mathlib.Analysis.Calculus.Deriv.Add
import Mathlib.Analysis.Calculus.Deriv.Mul
import Mathlib.Analysis.Calculus.Deriv.Comp
import Mathlib.Analysis.Calculus.Deriv.Pow
import Mathlib.Topology.Order.OrderClosed
import Mathlib.Order.Filter.Finite
import Mathlib.Tactic.Ring
import Mathlib.Tactic.Linarith
import Mathlib.Tactic.FieldSimp
/-!
# Calculus lemmas for the preference-function combinators (`Fn ℝ`)

Scalar kernels (`polyEval`, `hlqCost`, `abcCost` with integer exponents), the `IsGradAt` calculus
(sum, reflection, coordinate functions, `append` splitting, composition with the total), and the
local constancy of `argmax` under a unique maximum.
-/
namespace DK
open DK Filter Topology

/-! ## `line` and `sumTo` -/

theorem line_zero (x d : ℕ → ℝ) : line x d 0 = x := by
  funext k; simp [line]

theorem line_hasDerivAt (x d : ℕ → ℝ) (k : ℕ) (t : ℝ) :
    HasDerivAt (fun τ => line x d τ k) (d k) t := by
  unfold line
  have h := ((hasDerivAt_id t).mul_const (d k)).const_add (x k)
  simpa using h

/-- chain rule along a line, coordinate `k`. -/
theorem comp_line {φ : ℝ → ℝ} {φ' : ℝ} (x d : ℕ → ℝ) (k : ℕ) (h : HasDerivAt φ φ' (x k)) :
    HasDerivAt (fun τ => φ (line x d τ k)) (φ' * d k) 0 := by
  have h0 : line x d 0 k = x k := by simp [line]
  have h' : HasDerivAt φ φ' (line x d 0 k) := by rw [h0]; exact h
  exact HasDerivAt.comp (0:ℝ) h' (line_hasDerivAt x d k 0)

theorem sumTo_hasDerivAt (n : ℕ) (f : ℕ → ℝ → ℝ) (f' : ℕ → ℝ) (t : ℝ)
    (h : ∀ i < n, HasDerivAt (f i) (f' i) t) :
    HasDerivAt (fun τ => sumTo n (fun i => f i τ)) (sumTo n f') t := by
  induction n with
  | zero => simpa [sumTo] using hasDerivAt_const t (0:ℝ)
  | succ n ih =>
    simp only [sumTo]
    exact (ih (fun i hi => h i (Nat.lt_succ_of_lt hi))).add (h n (Nat.lt_succ_self n))

/-- a sum masked to the single index `i` (mask written `i = k`). -/
theorem sumTo_single' (n i : ℕ) (hi : i < n) (v : ℝ) (d : ℕ → ℝ) :
    sumTo n (fun k => (if i = k then v else 0) * d k) = v * d i := by
  rw [← sumTo_single n i hi (fun k => v * d k)]
  apply sumTo_congr
  intro k _
  by_cases h : i = k
  · subst h; simp
  · have h' : ¬ k = i := fun e => h e.symm
    simp [h, h']

/-! ## `IsGradAt` calculus -/

theorem IsGradAt.congr {n : ℕ} {F F' : (ℕ → ℝ) → ℝ} {g g' x : ℕ → ℝ} (h : IsGradAt n F g x)
    (hF : ∀ y, F' y = F y) (hg : ∀ k < n, g' k = g k) : IsGradAt n F' g' x := by
  intro d
  have e1 : (fun τ => F' (line x d τ)) = (fun τ => F (line x d τ)) := by funext τ; exact hF _
  have e2 : sumTo n (fun k => g' k * d k) = sumTo n (fun k => g k * d k) :=
    sumTo_congr (fun k hk => by rw [hg k hk])
  rw [e1, e2]; exact h d

theorem isGradAt_const (n : ℕ) (c : ℝ) (x : ℕ → ℝ) : IsGradAt n (fun _ => c) (fun _ => 0) x := by
  intro d
  have e : sumTo n (fun k => (0:ℝ) * d k) = 0 := by simp
  rw [e]; exact hasDerivAt_const _ _

theorem IsGradAt.add {n : ℕ} {F G : (ℕ → ℝ) → ℝ} {gf gg x : ℕ → ℝ} (hF : IsGradAt n F gf x)
    (hG : IsGradAt n G gg x) : IsGradAt n (fun y => F y + G y) (fun k => gf k + gg k) x := by
  intro d
  have e : sumTo n (fun k => (gf k + gg k) * d k)
      = sumTo n (fun k => gf k * d k) + sumTo n (fun k => gg k * d k) := by
    rw [← sumTo_add]; exact sumTo_congr (fun k _ => by ring)
  rw [e]; exact (hF d).add (hG d)

/-- reflection of the argument. -/
theorem isGradAt_neg_arg {n : ℕ} {F : (ℕ → ℝ) → ℝ} {g x : ℕ → ℝ}
    (h : IsGradAt n F g (fun i => - x i)) :
    IsGradAt n (fun y => F (fun i => - y i)) (fun k => - g k) x := by
  intro d
  have e1 : ∀ τ, (fun i => - line x d τ i) = line (fun i => - x i) (fun i => - d i) τ := by
    intro τ; funext i; simp only [line]; ring
  have e2 : sumTo n (fun k => - g k * d k) = sumTo n (fun k => g k * (fun i => - d i) k) :=
    sumTo_congr (fun k _ => by ring)
  rw [e2]
  simp only [e1]
  exact h (fun i => - d i)

/-- reflection of the argument and of the value (what `reflect` does to a derivative entry). -/
theorem isGradAt_neg_neg {n : ℕ} {F : (ℕ → ℝ) → ℝ} {g x : ℕ → ℝ}
    (h : IsGradAt n F g (fun i => - x i)) :
    IsGradAt n (fun y => - F (fun i => - y i)) g x := by
  intro d
  have h1 := (isGradAt_neg_arg h d).neg
  refine HasDerivAt.congr_deriv h1 ?_
  rw [← sumTo_neg]
  exact sumTo_congr (fun k _ => by ring)

/-- a function of the single coordinate `i`. -/
theorem isGradAt_coord {n i : ℕ} (hi : i < n) {ψ : ℝ → ℝ} {ψ' : ℝ} {x : ℕ → ℝ}
    (h : HasDerivAt ψ ψ' (x i)) :
    IsGradAt n (fun y => ψ (y i)) (fun j => if i = j then ψ' else 0) x := by
  intro d
  rw [sumTo_single' n i hi]
  exact comp_line x d i h

/-- a separable function `Σ_k φ_k (y_k)`. -/
theorem isGradAt_separable {n : ℕ} {φ : ℕ → ℝ → ℝ} {φ' x : ℕ → ℝ}
    (h : ∀ k < n, HasDerivAt (φ k) (φ' k) (x k)) :
    IsGradAt n (fun y => sumTo n (fun k => φ k (y k))) φ' x := by
  intro d
  exact sumTo_hasDerivAt n (fun k τ => φ k (line x d τ k)) (fun k => φ' k * d k) 0
    (fun k hk => comp_line x d k (h k hk))

/-- a function of the total `Σ_k y_k`. -/
theorem isGradAt_comp_sum {n : ℕ} {φ : ℝ → ℝ} {φ' : ℝ} {x : ℕ → ℝ}
    (h : HasDerivAt φ φ' (sumTo n x)) :
    IsGradAt n (fun y => φ (sumTo n y)) (fun _ => φ') x := by
  intro d
  have h1 : HasDerivAt (fun τ => sumTo n (fun k => line x d τ k)) (sumTo n d) 0 :=
    sumTo_hasDerivAt n (fun k τ => line x d τ k) d 0 (fun k _ => line_hasDerivAt x d k 0)
  have h0 : sumTo n (fun k => line x d 0 k) = sumTo n x := by rw [line_zero]
  have h' : HasDerivAt φ φ' (sumTo n (fun k => line x d 0 k)) := by rw [h0]; exact h
  have h2 := HasDerivAt.comp (0:ℝ) h' h1
  refine HasDerivAt.congr_deriv h2 ?_
  rw [sumTo_mul_left]

/-- a function that reads only the first `k ≤ n` entries. -/
theorem isGradAt_extend {n k : ℕ} (hk : k ≤ n) {F : (ℕ → ℝ) → ℝ} {g x : ℕ → ℝ}
    (h : IsGradAt k F g x) : IsGradAt n F (fun j => if j < k then g j else 0) x := by
  intro d
  have e : sumTo n (fun j => (if j < k then g j else 0) * d j) = sumTo k (fun j => g j * d j) := by
    rw [sumTo_split n k hk]
    have e1 : sumTo k (fun j => (if j < k then g j else 0) * d j) = sumTo k (fun j => g j * d j) :=
      sumTo_congr (fun j hj => by simp [hj])
    have e2 : sumTo (n - k) (fun i => (if k + i < k then g (k + i) else 0) * d (k + i)) = 0 := by
      rw [← sumTo_zero_fn (n - k)]
      exact sumTo_congr (fun i _ => by
        have : ¬ k + i < k := by omega
        simp [this])
    rw [e1, e2, add_zero]
  rw [e]; exact h d

/-- a function that reads only the entries from `k` on. -/
theorem isGradAt_shift {n k : ℕ} (hk : k ≤ n) {G : (ℕ → ℝ) → ℝ} {g x : ℕ → ℝ}
    (h : IsGradAt (n - k) G g (fun i => x (k + i))) :
    IsGradAt n (fun y => G (fun i => y (k + i))) (fun j => if j < k then 0 else g (j - k)) x := by
  intro d
  have e : sumTo n (fun j => (if j < k then 0 else g (j - k)) * d j)
      = sumTo (n - k) (fun i => g i * (fun i => d (k + i)) i) := by
    rw [sumTo_split n k hk]
    have e1 : sumTo k (fun j => (if j < k then 0 else g (j - k)) * d j) = 0 := by
      rw [← sumTo_zero_fn k]
      exact sumTo_congr (fun j hj => by simp [hj])
    have e2 : sumTo (n - k) (fun i => (if k + i < k then 0 else g (k + i - k)) * d (k + i))
        = sumTo (n - k) (fun i => g i * d (k + i)) :=
      sumTo_congr (fun i _ => by
        have h1 : ¬ k + i < k := by omega
        have h2 : k + i - k = i := by omega
        simp [h1, h2])
    rw [e1, e2, zero_add]
  rw [e]
  exact h (fun i => d (k + i))

/-- `append k f g`. -/
theorem isGradAt_append {n k : ℕ} (hk : k ≤ n) {F G : (ℕ → ℝ) → ℝ} {gf gg x : ℕ → ℝ}
    (hF : IsGradAt k F gf x) (hG : IsGradAt (n - k) G gg (fun i => x (k + i))) :
    IsGradAt n (fun y => F y + G (fun i => y (k + i)))
      (fun j => if j < k then gf j else gg (j - k)) x := by
  refine ((isGradAt_extend hk hF).add (isGradAt_shift hk hG)).congr (fun _ => rfl) ?_
  intro j _
  by_cases h : j < k <;> simp [h]

/-! ## polynomials -/

theorem polyFold_acc (x : ℝ) (cs : List ℝ) (a : ℝ) :
    cs.foldl (fun acc c => acc * x + c) a
      = a * x ^ cs.length + cs.foldl (fun acc c => acc * x + c) 0 := by
  induction cs generalizing a with
  | nil => simp
  | cons c cs ih =>
    simp only [List.foldl_cons, List.length_cons]
    rw [ih (a * x + c), ih (0 * x + c)]
    ring

theorem polyEval_nil (x : ℝ) : polyEval ([] : List ℝ) x = 0 := by simp [polyEval]

theorem polyEval_cons (c : ℝ) (cs : List ℝ) (x : ℝ) :
    polyEval (c :: cs) x = c * x ^ cs.length + polyEval cs x := by
  unfold polyEval
  simp only [List.foldl_cons]
  rw [polyFold_acc]
  ring

theorem polyDer_length (cs : List ℝ) : (polyDer cs).length = cs.length - 1 := by
  induction cs with
  | nil => simp [polyDer]
  | cons c cs ih =>
    cases cs with
    | nil => simp [polyDer]
    | cons c' cs =>
      simp only [polyDer, List.length_cons] at ih ⊢
      omega

theorem polyEval_hasDerivAt (cs : List ℝ) (x : ℝ) :
    HasDerivAt (fun x => polyEval cs x) (polyEval (polyDer cs) x) x := by
  induction cs with
  | nil => simpa [polyEval_nil, polyDer] using hasDerivAt_const x (0:ℝ)
  | cons c cs ih =>
    cases cs with
    | nil =>
      have e : (fun x : ℝ => polyEval [c] x) = fun _ => c := by
        funext y; simp [polyEval]
      rw [e]
      simpa [polyDer, polyEval_nil] using hasDerivAt_const x c
    | cons c' cs =>
      have e : (fun x : ℝ => polyEval (c :: c' :: cs) x)
          = fun x => c * x ^ (c' :: cs).length + polyEval (c' :: cs) x := by
        funext y; rw [polyEval_cons]
      rw [e]
      have h1 := ((hasDerivAt_pow (c' :: cs).length x).const_mul c).add ih
      refine HasDerivAt.congr_deriv h1 ?_
      have e2 : polyDer (c :: c' :: cs) = (natCast' (c' :: cs).length * c) :: polyDer (c' :: cs) := rfl
      rw [e2, polyEval_cons, polyDer_length, natCast'_eq]
      ring

/-! ## high/low quadratic -/

theorem hlqCost_hasDerivAt (pl ph xl xh x : ℝ) :
    HasDerivAt (fun x => hlqCost pl ph xl xh x) (hlqDeriv pl ph xl xh x) x := by
  unfold hlqCost hlqDeriv
  by_cases h : xl = xh
  · simp [h, hasDerivAt_const]
  · simp only [h, if_false]
    have hd : xh - xl ≠ 0 := sub_ne_zero.mpr (Ne.symm h)
    have h1 : HasDerivAt (fun x : ℝ => (x - xl) / (xh - xl)) (1 / (xh - xl)) x := by
      simpa using ((hasDerivAt_id x).sub_const xl).div_const (xh - xl)
    have h2 := ((((h1.const_mul ((ph - pl) / 2)).mul h1).add (h1.const_mul pl)).const_mul
      (xh - xl)).sub_const
      ((if (ph - pl) / 2 = 0 then 0 else
        ((ph - pl) / 2) * ((-pl) / (2 * ((ph - pl) / 2))) * ((-pl) / (2 * ((ph - pl) / 2)))
          + pl * ((-pl) / (2 * ((ph - pl) / 2)))) * (xh - xl))
    refine HasDerivAt.congr_deriv h2 ?_
    field_simp
    ring

theorem hlqDeriv_hasDerivAt (pl ph xl xh x : ℝ) :
    HasDerivAt (fun x => hlqDeriv pl ph xl xh x) (hlqHess pl ph xl xh) x := by
  unfold hlqDeriv hlqHess
  by_cases h : xl = xh
  · simp [h, hasDerivAt_const]
  · simp only [h, if_false]
    have h1 : HasDerivAt (fun x : ℝ => (x - xl) / (xh - xl)) (1 / (xh - xl)) x := by
      simpa using ((hasDerivAt_id x).sub_const xl).div_const (xh - xl)
    have h2 := (h1.const_mul (ph - pl)).add_const pl
    refine HasDerivAt.congr_deriv h2 ?_
    ring

/-! ## ABC cost with integer exponent `≥ 1` -/

theorem ipow_natCast (x : ℝ) (m : ℕ) : ipow x (m : ℤ) = x ^ m := by
  simp [ipow]

theorem intCast'_eq (k : ℤ) : (intCast' k : ℝ) = (k : ℝ) := by
  unfold intCast'
  by_cases h : 0 ≤ k
  · simp only [h, if_true, natCast'_eq]
    have : ((k.toNat : ℤ) : ℝ) = (k : ℝ) := by rw [Int.toNat_of_nonneg h]
    rw [Int.cast_natCast] at this
    exact this
  · simp only [h, if_false, natCast'_eq]
    have h' : 0 ≤ -k := by omega
    have : (((-k).toNat : ℤ) : ℝ) = ((-k : ℤ) : ℝ) := by rw [Int.toNat_of_nonneg h']
    have this' : (((-k).toNat : ℕ) : ℝ) = - (k : ℝ) := by
      rw [Int.cast_natCast, Int.cast_neg] at this
      exact this
    rw [this']; ring

theorem abcQ_hasDerivAt (x xl xh a : ℝ) :
    HasDerivAt (fun x => abcQ x xl xh a) (-((1 - a) / (xh - xl))) x := by
  unfold abcQ abcS
  have h1 : HasDerivAt (fun x : ℝ => (xh - x) / (xh - xl)) (-1 / (xh - xl)) x := by
    simpa using ((hasDerivAt_id x).const_sub xh).div_const (xh - xl)
  have h2 := ((h1.const_sub 1).mul_const a).add h1
  refine HasDerivAt.congr_deriv h2 ?_
  ring

theorem abcCost_hasDerivAt (x a : ℝ) (b : ℤ) (c xl xh : ℝ) (hb : 1 ≤ b) :
    HasDerivAt (fun x => abcCost ipow x a b c xl xh) (abcDeriv ipow intCast' x a b c xl xh) x := by
  obtain ⟨m, rfl⟩ : ∃ m : ℕ, b = ((m + 1 : ℕ) : ℤ) := ⟨(b - 1).toNat, by omega⟩
  unfold abcCost abcDeriv
  by_cases h : xl = xh
  · simp [h, hasDerivAt_const]
  · simp only [h, if_false]
    have e1 : ((m + 1 : ℕ) : ℤ) - 1 = (m : ℤ) := by push_cast; ring
    rw [e1, intCast'_eq]
    simp only [ipow_natCast]
    have h2 := ((abcQ_hasDerivAt x xl xh a).pow (m + 1)).const_mul c
    refine HasDerivAt.congr_deriv h2 ?_
    push_cast
    try simp only [Nat.add_sub_cancel, Nat.add_one_sub_one]
    ring

theorem abcDeriv_hasDerivAt (x a : ℝ) (b : ℤ) (c xl xh : ℝ) (hb : 1 ≤ b) :
    HasDerivAt (fun x => abcDeriv ipow intCast' x a b c xl xh)
      (abcHess ipow intCast' x a b c xl xh) x := by
  obtain ⟨m, rfl⟩ : ∃ m : ℕ, b = ((m + 1 : ℕ) : ℤ) := ⟨(b - 1).toNat, by omega⟩
  unfold abcDeriv abcHess
  by_cases h : xl = xh
  · simp [h, hasDerivAt_const]
  · simp only [h, if_false]
    have e1 : ((m + 1 : ℕ) : ℤ) - 1 = (m : ℤ) := by push_cast; ring
    rw [e1, intCast'_eq]
    cases m with
    | zero =>
      simp only [ipow_natCast]
      have h2 := hasDerivAt_const x (-c * (((0 + 1 : ℕ) : ℤ) : ℝ) * (abcQ x xl xh a) ^ 0 * (1 - a) / (xh - xl))
      have e : (fun x : ℝ => -c * (((0 + 1 : ℕ) : ℤ) : ℝ) * (abcQ x xl xh a) ^ 0 * (1 - a) / (xh - xl))
          = fun _ => (-c * (((0 + 1 : ℕ) : ℤ) : ℝ) * (abcQ x xl xh a) ^ 0 * (1 - a) / (xh - xl)) := by
        funext y; simp
      rw [e]
      refine HasDerivAt.congr_deriv h2 ?_
      push_cast
      ring
    | succ m =>
      have e2 : ((m + 1 + 1 : ℕ) : ℤ) - 2 = (m : ℤ) := by push_cast; ring
      rw [e2]
      simp only [ipow_natCast]
      have h2 := ((((abcQ_hasDerivAt x xl xh a).pow (m + 1)).const_mul
        (-c * (((m + 1 + 1 : ℕ) : ℤ) : ℝ))).mul_const (1 - a)).div_const (xh - xl)
      refine HasDerivAt.congr_deriv h2 ?_
      push_cast
      try simp only [Nat.add_sub_cancel, Nat.add_one_sub_one]
      ring

/-! ## `argmax` -/

theorem argmax_lt (n : ℕ) (x : ℕ → ℝ) (hn : 0 < n) : argmax n x < n := by
  induction n with
  | zero => omega
  | succ n ih =>
    cases n with
    | zero => simp [argmax]
    | succ n =>
      have := ih (Nat.succ_pos n)
      simp only [argmax]
      split_ifs <;> omega

theorem argmax_ge (n : ℕ) (x : ℕ → ℝ) : ∀ j < n, x j ≤ x (argmax n x) := by
  induction n with
  | zero => intro j hj; omega
  | succ n ih =>
    cases n with
    | zero =>
      intro j hj
      have : j = 0 := by omega
      subst this; simp [argmax]
    | succ n =>
      intro j hj
      simp only [argmax]
      by_cases hlt : x (argmax (n + 1) x) < x (n + 1)
      · simp only [hlt, if_true]
        by_cases hj' : j < n + 1
        · exact le_trans (ih j hj') (le_of_lt hlt)
        · have : j = n + 1 := by omega
          subst this; exact le_refl _
      · simp only [hlt, if_false]
        by_cases hj' : j < n + 1
        · exact ih j hj'
        · have : j = n + 1 := by omega
          subst this; exact not_lt.mp hlt

/-- a strict maximum is the `argmax`. -/
theorem argmax_eq_of_strict (n : ℕ) (y : ℕ → ℝ) (m : ℕ) (hm : m < n)
    (h : ∀ j < n, j ≠ m → y j < y m) : argmax n y = m := by
  by_contra hne
  have ha : argmax n y < n := argmax_lt n y (by omega)
  have h1 := h _ ha hne
  have h2 := argmax_ge n y m hm
  linarith

/-- under a unique maximum, `argmax` is constant near `x` along every line. -/
theorem argmax_line_eventually (n : ℕ) (x d : ℕ → ℝ) (hn : 0 < n)
    (h : ∀ j < n, j ≠ argmax n x → x j < x (argmax n x)) :
    ∀ᶠ τ in 𝓝 (0:ℝ), argmax n (line x d τ) = argmax n x := by
  have hm := argmax_lt n x hn
  have key : ∀ j ∈ Finset.range n, ∀ᶠ τ in 𝓝 (0:ℝ),
      j ≠ argmax n x → line x d τ j < line x d τ (argmax n x) := by
    intro j hj
    by_cases hne : j = argmax n x
    · exact Filter.Eventually.of_forall (fun τ h => absurd hne h)
    · have c1 := (line_hasDerivAt x d j 0).continuousAt
      have c2 := (line_hasDerivAt x d (argmax n x) 0).continuousAt
      have h0 : line x d 0 j < line x d 0 (argmax n x) := by
        rw [line_zero]; exact h j (Finset.mem_range.mp hj) hne
      exact (c1.eventually_lt c2 h0).mono (fun τ hτ _ => hτ)
  have key' := (Filter.eventually_all_finset (Finset.range n)).mpr key
  filter_upwards [key'] with τ hτ
  exact argmax_eq_of_strict n _ _ hm (fun j hj hne => hτ j (Finset.mem_range.mpr hj) hne)

end DK
