import DK.Model.Hess2
import DK.Lemmas.Storage
import DK.Lemmas.HessCalc
import DK.Lemmas.Convex
/-!
# Calculus and quadratic-form lemmas behind `DK.Props.C14b`
(the analytic Hessians of the storage and thermal devices)
-/
namespace DK
open DK

/-! ## scalar pieces -/

/-- away from its kink, `min(·, 0)` is locally `id` or locally `0`: derivative `[u < 0]`. -/
theorem hasDerivAt_minZero_of_ne (u : ℝ) (hu : u ≠ 0) :
    HasDerivAt (fun x : ℝ => minZero x) (if u < 0 then 1 else 0) u := by
  rcases lt_or_gt_of_ne hu with h | h
  · rw [if_pos h]
    have : (fun x : ℝ => minZero x) =ᶠ[nhds u] (fun x => x) := by
      filter_upwards [Iio_mem_nhds h] with y hy
      have hy' : y < 0 := hy
      simp [minZero, hy']
    exact (hasDerivAt_id' u).congr_of_eventuallyEq this
  · rw [if_neg (not_lt.mpr (le_of_lt h))]
    have : (fun x : ℝ => minZero x) =ᶠ[nhds u] (fun _ => (0:ℝ)) := by
      filter_upwards [Ioi_mem_nhds h] with y hy
      have hy' : 0 < y := hy
      simp [minZero, not_lt.mpr (le_of_lt hy')]
    exact (hasDerivAt_const u (0:ℝ)).congr_of_eventuallyEq this

/-- the efficiency factor `e^{sign r}` is locally constant along a line through a point that is not
on the charge/discharge kink. -/
theorem effPow_line_eventuallyEq (eff a b : ℝ) (h : eff = 1 ∨ a ≠ 0) :
    (fun τ : ℝ => effPow eff (a + τ * b)) =ᶠ[nhds 0] (fun _ => effPow eff a) := by
  rcases h with h | h
  · subst h
    simp only [effPow_one]
    exact Filter.EventuallyEq.refl _ _
  · have hlin : HasDerivAt (fun τ : ℝ => a + τ * b) b 0 := by
      have := ((hasDerivAt_id' (0:ℝ)).mul_const b).const_add a
      refine this.congr_deriv ?_
      ring
    have hc : ContinuousAt (fun τ : ℝ => a + τ * b) 0 := hlin.continuousAt
    rcases lt_or_gt_of_ne h with ha | ha
    · have hev : ∀ᶠ τ in nhds (0:ℝ), a + τ * b ∈ Set.Iio (0:ℝ) :=
        hc.eventually_mem (Iio_mem_nhds (by simpa using ha))
      filter_upwards [hev] with τ hτ
      have hτ' : a + τ * b < 0 := hτ
      rw [effPow_of_neg eff hτ', effPow_of_neg eff ha]
    · have hev : ∀ᶠ τ in nhds (0:ℝ), a + τ * b ∈ Set.Ioi (0:ℝ) :=
        hc.eventually_mem (Ioi_mem_nhds (by simpa using ha))
      filter_upwards [hev] with τ hτ
      have hτ' : 0 < a + τ * b := hτ
      rw [effPow_of_pos eff hτ', effPow_of_pos eff ha]

theorem shortfallActive_nonneg (q : SParams ℝ) (s : ℕ → ℝ) (k : ℕ) : 0 ≤ shortfallActive q s k := by
  unfold shortfallActive
  split_ifs <;> norm_num

/-- the shortfall of slot `k` along a line, away from both kinks: slope `[u_k < 0] · ∂u_k`. -/
theorem shortfall_line_hasDerivAt (q : SParams ℝ) (s d : ℕ → ℝ) (k : ℕ)
    (h : q.efficiency = 1 ∨ ∀ j ≤ k, s j ≠ 0)
    (hu : chargeAt q s k - q.capacity * q.damageDepth ≠ 0) :
    HasDerivAt (fun τ => shortfall q (line s d τ) k)
      (shortfallActive q s k
        * sumTo (k + 1) (fun j => d j * effPow q.efficiency (s j) * susW q.sustainment k j)) 0 := by
  unfold shortfall shortfallActive
  have h1 := (chargeAt_line_hasDerivAt q s d k h).sub_const (q.capacity * q.damageDepth)
  exact (hasDerivAt_minZero_of_ne _ hu).comp_of_eq 0 h1 (by rw [chargeAt_line_zero])

/-! ## sums against indicator rows -/

/-- `Σ_j [i+1 = j]·c·d_j = c·d_{i+1}` when `i+1` is inside the horizon, else `0`. -/
theorem sumTo_succ_ite (n i : ℕ) (c : ℝ) (d : ℕ → ℝ) :
    sumTo n (fun j => (if i + 1 = j then c else 0) * d j) = if i + 1 < n then c * d (i + 1) else 0 := by
  by_cases h : i + 1 < n
  · rw [if_pos h]
    exact sumTo_diag_mul n (i + 1) h c d
  · rw [if_neg h, sumTo_congr (g := fun _ => (0 : ℝ))]
    · exact sumTo_zero_fn _
    · intro j hj
      rw [if_neg (by omega)]; ring

/-- `Σ_j [j+1 = i]·c·d_j = c·d_{i-1}` when `0 < i` (and `i` is inside the horizon), else `0`. -/
theorem sumTo_pred_ite (n i : ℕ) (hi : i < n) (c : ℝ) (d : ℕ → ℝ) :
    sumTo n (fun j => (if j + 1 = i then c else 0) * d j) = if 0 < i then c * d (i - 1) else 0 := by
  by_cases h : 0 < i
  · rw [if_pos h, ← sumTo_diag_mul n (i - 1) (by omega) c d]
    apply sumTo_congr
    intro j _
    by_cases hj : j + 1 = i
    · rw [if_pos hj, if_pos (by omega)]
    · rw [if_neg hj, if_neg (by omega)]
  · rw [if_neg h, sumTo_congr (g := fun _ => (0 : ℝ))]
    · exact sumTo_zero_fn _
    · intro j _
      rw [if_neg (by omega)]; ring

/-- a row of a Gram-type sum against the (lower-triangular) sustainment weights, paired with a
direction: `Σ_j (Σ_k a_k · (W_{kj}·w_j)) · d_j = Σ_k a_k · Σ_{j ≤ k} d_j·w_j·W_{kj}`. -/
theorem sumTo_gram_row (sus : ℝ) (n : ℕ) (a w d : ℕ → ℝ) :
    sumTo n (fun j => sumTo n (fun k => a k * (susW sus k j * w j)) * d j)
      = sumTo n (fun k => a k * sumTo (k + 1) (fun j => d j * w j * susW sus k j)) := by
  have h1 : ∀ j < n, sumTo n (fun k => a k * (susW sus k j * w j)) * d j
      = sumTo n (fun k => a k * (d j * w j * susW sus k j)) := by
    intro j _
    rw [← sumTo_mul_right]
    exact sumTo_congr (fun k _ => by ring)
  rw [sumTo_congr h1, sumTo_comm]
  apply sumTo_congr
  intro k hk
  rw [sumTo_mul_left, sumTo_susW_extend sus n k hk (fun j => d j * w j)]

/-! ## quadratic forms -/

/-- a Gram-type sum `Σ_k h_k · u_k u_kᵀ` with non-negative weights is positive semidefinite. -/
theorem quad_gram_nonneg (n m : ℕ) (h : ℕ → ℝ) (u : ℕ → ℕ → ℝ) (hh : ∀ k < m, 0 ≤ h k) (v : ℕ → ℝ) :
    0 ≤ sumTo n (fun i => sumTo n (fun j => v i * sumTo m (fun k => h k * u k i * u k j) * v j)) := by
  induction m with
  | zero => simp [sumTo]
  | succ m ih =>
    simp only [sumTo]
    rw [quad_add n (fun i j => sumTo m (fun k => h k * u k i * u k j)) (fun i j => h m * u m i * u m j) v]
    exact add_nonneg (ih (fun k hk => hh k (Nat.lt_succ_of_lt hk)))
      (quad_rank_one_nonneg n (h m) (hh m (Nat.lt_succ_self m)) (u m) v)

/-- the quadratic form of the diagonal part `d·I`. -/
theorem quad_scalar_diag (n : ℕ) (c : ℝ) (v : ℕ → ℝ) :
    sumTo n (fun i => sumTo n (fun j => v i * (if i = j then c else 0) * v j))
      = sumTo n (fun i => c * (v i * v i)) := by
  apply sumTo_congr
  intro i hi
  have : sumTo n (fun j => v i * (if i = j then c else 0) * v j)
      = v i * sumTo n (fun j => (if i = j then c else 0) * v j) := by
    rw [← sumTo_mul_left]; exact sumTo_congr (fun j _ => by ring)
  rw [this, sumTo_diag_mul n i hi]; ring

/-- the quadratic form of the super-diagonal `c·[i+1 = j]`. -/
theorem quad_super_diag (n : ℕ) (c : ℝ) (v : ℕ → ℝ) :
    sumTo n (fun i => sumTo n (fun j => v i * (if i + 1 = j then c else 0) * v j))
      = sumTo n (fun i => if i + 1 < n then c * (v i * v (i + 1)) else 0) := by
  apply sumTo_congr
  intro i _
  have : sumTo n (fun j => v i * (if i + 1 = j then c else 0) * v j)
      = v i * sumTo n (fun j => (if i + 1 = j then c else 0) * v j) := by
    rw [← sumTo_mul_left]; exact sumTo_congr (fun j _ => by ring)
  rw [this, sumTo_succ_ite]
  split_ifs <;> ring

/-- the quadratic form of the sub-diagonal `c·[j+1 = i]` (the transpose of the super-diagonal). -/
theorem quad_sub_diag (n : ℕ) (c : ℝ) (v : ℕ → ℝ) :
    sumTo n (fun i => sumTo n (fun j => v i * (if j + 1 = i then c else 0) * v j))
      = sumTo n (fun i => if i + 1 < n then c * (v i * v (i + 1)) else 0) := by
  rw [sumTo_comm, ← quad_super_diag n c v]
  apply sumTo_congr; intro j _
  apply sumTo_congr; intro i _
  ring

/-- the rate + flip-flop block `2·c1·I − c2·(U + Uᵀ)` is positive semidefinite for `c1 ≥ c2 ≥ 0`
(it is twice the quadratic form of `DK.sdev_quad_nonneg`). -/
theorem quad_tridiag_nonneg (n : ℕ) (c1 c2 : ℝ) (h2 : 0 ≤ c2) (h12 : c2 ≤ c1) (v : ℕ → ℝ) :
    0 ≤ sumTo n (fun i => sumTo n (fun j => v i *
      ((if i = j then c1 * 2 else 0)
        + ((if i + 1 = j then c2 * (-1 : ℝ) else 0) + (if j + 1 = i then c2 * (-1 : ℝ) else 0))) * v j)) := by
  rw [quad_add n (fun i j => if i = j then c1 * 2 else 0)
      (fun i j => (if i + 1 = j then c2 * (-1 : ℝ) else 0) + (if j + 1 = i then c2 * (-1 : ℝ) else 0)) v,
    quad_add n (fun i j => if i + 1 = j then c2 * (-1 : ℝ) else 0)
      (fun i j => if j + 1 = i then c2 * (-1 : ℝ) else 0) v,
    quad_scalar_diag, quad_super_diag, quad_sub_diag]
  have nn := sdev_quad_nonneg n c1 c2 h2 h12 v n (le_refl n)
  simp only [lt_irrefl, if_false, add_zero] at nn
  have e : sumTo n (fun i => c1 * 2 * (v i * v i))
        + (sumTo n (fun i => if i + 1 < n then c2 * (-1 : ℝ) * (v i * v (i + 1)) else 0)
          + sumTo n (fun i => if i + 1 < n then c2 * (-1 : ℝ) * (v i * v (i + 1)) else 0))
      = 2 * sumTo n (fun i => c1 * (v i * v i)
          + (if i + 1 < n then c2 * (-1 : ℝ) * (v i * v (i + 1)) else 0)) := by
    have a2 : sumTo n (fun i => c1 * 2 * (v i * v i)) = 2 * sumTo n (fun i => c1 * (v i * v i)) := by
      rw [← sumTo_mul_left]; exact sumTo_congr (fun i _ => by ring)
    rw [a2, sumTo_add]; ring
  rw [e]
  linarith

end DK
