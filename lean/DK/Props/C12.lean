import DK.Model.History
/-!
# C12 — devices are stateless: reads and solves never change behaviour or caller data

Statement (properties.jsonl): evaluating cost, marginal cost, Hessian, bounds, constraints (including
calling their functions), projection, row mapping, serialisation or solve on a device or tree, any
number of times and in any order, leaves every later result identical to that of a freshly
constructed twin, and never modifies the arrays or lists the caller passed in.

Over the heap abstraction of `DK/Model/History.lean`:

* `Inv W σ`: the caches hold the pure function of their key (`Poly2D._deriv/_hess` slots are empty or
  hold the derivative polynomial of their own object; every ndarray made by `sustainment_matrix` /
  `power_matrix` still has the content computed for its key; every table entry points at an object
  made for its key), the user constraint dict cells and the caller cells are those of a fresh
  construction, and every ndarray object of the fresh construction still exists unchanged.
* `inv_init`, `step_inv`, `run_inv`.
* `history_fresh_twin`: for EVERY world, EVERY finite history `h` (any operations, any order, any
  repetition, on any device / leaf / wrapped device / conduit, including cache evictions and evaluations
  that raise half-way through a tree) and every
  next call `op`, the output after `h` equals the output of the same call on a fresh twin.
* `history_caller_untouched`: after every history the caller cells and the user dict cells are
  those of the fresh construction.
* `prefix_not_stateless` (+ the explicit witnesses): with the tree before fixes d6b8232 / 0f214fb (`stepPre`:
  the getter returns the stored dict objects and `MFDeviceSet.constraints` rewrites them) the statement is FALSE — `[readConstraints mf]` then `callFun 0` on the wrapped device.
-/
namespace DK.History

/-! ## the invariant -/

/-- a polynomial cache holds nothing, or the pure function `mk` of its own key. -/
def PureC (mk : Nat → CVal) (c : List (Option CVal)) : Prop :=
  ∀ p v, c[p]? = some (some v) → v = mk p

/-- cache part of the invariant. -/
structure Good (σ : State) : Prop where
  dpure : PureC .derivOf σ.dcache
  hpure : PureC .hessOf σ.hcache
  mpure : ∀ e ∈ σ.mats, e.2 = .pure e.1
  tvalid : ∀ e ∈ σ.lru, ∃ v, σ.mats[e.2]? = some (e.1, v)

/-- `σ` extends `σ0`: same user dict cells, same caller cells, every ndarray object of `σ0` unchanged. -/
structure Ext (σ0 σ : State) : Prop where
  dicts : σ.dicts = σ0.dicts
  caller : σ.caller = σ0.caller
  mats : ∀ (o : Nat) (e : MKey × MVal), σ0.mats[o]? = some e → σ.mats[o]? = some e

def Inv (W : World) (σ : State) : Prop := Good σ ∧ Ext W.init σ

theorem Ext.refl (σ : State) : Ext σ σ := ⟨rfl, rfl, fun _ _ h => h⟩

theorem Ext.trans {a b c : State} (h1 : Ext a b) (h2 : Ext b c) : Ext a c :=
  ⟨h2.dicts.trans h1.dicts, h2.caller.trans h1.caller, fun o e h => h2.mats o e (h1.mats o e h)⟩

/-! ## polynomial caches -/

theorem useC_pure {mk : Nat → CVal} {c : List (Option CVal)} (h : PureC mk c) (p : Nat) : useC mk c p = mk p := by
  unfold useC
  split
  · next v hv => exact h p v hv
  · rfl

theorem fillC_pure {mk : Nat → CVal} {c : List (Option CVal)} (h : PureC mk c) (ps : List Nat) :
    PureC mk (fillC mk c ps) := by
  intro p v hv
  unfold fillC at hv
  rw [List.getElem?_mapIdx] at hv
  cases hc : c[p]? with
  | none => simp [hc] at hv
  | some x =>
    simp only [hc, Option.map_some] at hv
    split at hv
    · cases x with
      | none => simp at hv; exact hv.symm
      | some w => simp at hv; subst hv; exact h p w hc
    · cases x with
      | none => simp at hv
      | some w => simp at hv; subst hv; exact h p w hc

theorem pureC_replicate (mk : Nat → CVal) (n : Nat) : PureC mk (List.replicate n none) := by
  intro p v hv
  rw [List.getElem?_replicate] at hv
  split at hv <;> simp at hv

/-! ## the memoised matrices -/

theorem tableGet_mem {σ : State} {k : MKey} {o : Nat} (h : σ.tableGet k = some o) : (k, o) ∈ σ.lru := by
  unfold State.tableGet at h
  cases hf : σ.lru.find? (fun e => e.1 = k) with
  | none => simp [hf] at h
  | some e =>
    simp [hf] at h
    have h1 := List.find?_some hf
    have h2 := List.mem_of_find?_eq_some hf
    simp at h1
    cases e with
    | mk a b => simp at h1 h; subst h1; subst h; exact h2

theorem Good.hit {σ : State} (g : Good σ) {k : MKey} {o : Nat} (h : σ.tableGet k = some o) :
    σ.matVal o = some (.pure k) := by
  obtain ⟨v, hv⟩ := g.tvalid (k, o) (tableGet_mem h)
  have hm : (k, v) ∈ σ.mats := List.mem_of_getElem? hv
  have := g.mpure (k, v) hm
  simp at this
  simp [State.matVal, hv, this]

theorem alloc_good {σ : State} (g : Good σ) (k : MKey) :
    Good (σ.alloc k (.pure k)).1 ∧ Ext σ (σ.alloc k (.pure k)).1 ∧
      (σ.alloc k (.pure k)).1.matVal (σ.alloc k (.pure k)).2 = some (.pure k) := by
  refine ⟨⟨g.dpure, g.hpure, ?_, ?_⟩, ⟨rfl, rfl, ?_⟩, ?_⟩
  · intro e he
    simp [State.alloc] at he
    rcases he with he | he
    · exact g.mpure e he
    · subst he; rfl
  · intro e he
    simp [State.alloc] at he
    rcases he with he | he
    · subst he
      exact ⟨.pure k, by simp [State.alloc]⟩
    · obtain ⟨v, hv⟩ := g.tvalid e he
      refine ⟨v, ?_⟩
      have hlt : e.2 < σ.mats.length := (List.getElem?_eq_some_iff.mp hv).1
      simp [State.alloc, List.getElem?_append_left hlt, hv]
  · intro o e he
    have hlt : o < σ.mats.length := (List.getElem?_eq_some_iff.mp he).1
    simp [State.alloc, List.getElem?_append_left hlt, he]
  · simp [State.alloc, State.matVal]

theorem lookupPow_good {σ : State} (g : Good σ) (l : Nat) :
    Good (σ.lookupPow l).1 ∧ Ext σ (σ.lookupPow l).1 ∧
      (σ.lookupPow l).1.matVal (σ.lookupPow l).2 = some (.pure (.pow l)) := by
  unfold State.lookupPow
  cases h : σ.tableGet (.pow l) with
  | some o => exact ⟨g, Ext.refl σ, g.hit h⟩
  | none => exact alloc_good g (.pow l)

theorem lookupSust_good {σ : State} (g : Good σ) (s l : Nat) :
    Good (σ.lookupSust s l).1 ∧ Ext σ (σ.lookupSust s l).1 ∧
      (σ.lookupSust s l).1.matVal (σ.lookupSust s l).2 = some (.pure (.sust s l)) := by
  unfold State.lookupSust
  cases h : σ.tableGet (.sust s l) with
  | some o => exact ⟨g, Ext.refl σ, g.hit h⟩
  | none =>
    by_cases hs : s = 0
    · subst hs
      simpa using alloc_good g (.sust 0 l)
    · simp only [hs, if_false]
      obtain ⟨g1, e1, v1⟩ := lookupPow_good g l
      have hv : mkSust s l ((σ.lookupPow l).1.matVal (σ.lookupPow l).2) = .pure (.sust s l) := by
        simp [mkSust, v1]
      rw [hv]
      obtain ⟨g2, e2, v2⟩ := alloc_good g1 (.sust s l)
      exact ⟨g2, e1.trans e2, v2⟩

theorem lookupAll_good : ∀ (ks : List (Nat × Nat)) {σ : State}, Good σ →
    Good (σ.lookupAll ks).1 ∧ Ext σ (σ.lookupAll ks).1 ∧
      (σ.lookupAll ks).2 = ks.map (fun k => some (.pure (.sust k.1 k.2)))
  | [], σ, g => ⟨g, Ext.refl σ, rfl⟩
  | (s, l) :: ks, σ, g => by
    obtain ⟨g1, e1, v1⟩ := lookupSust_good g s l
    obtain ⟨g2, e2, v2⟩ := lookupAll_good ks g1
    refine ⟨g2, e1.trans e2, ?_⟩
    simp only [State.lookupAll, List.map_cons, v1, v2]

theorem good_empty (W : World) : Good W.empty :=
  ⟨pureC_replicate _ _, pureC_replicate _ _, by intro e he; simp [World.empty] at he,
   by intro e he; simp [World.empty] at he⟩

theorem good_init (W : World) : Good W.init := (lookupAll_good W.root.matKeys (good_empty W)).1

/-- **`Inv init`**: a fresh construction satisfies the invariant. -/
theorem inv_init (W : World) : Inv W W.init := ⟨good_init W, Ext.refl _⟩

/-! ## evaluation -/

/-- the output of a cost-like evaluation, written without reference to the current state. -/
def evalSpec (W : World) (ps : List Nat) (ks : List (Nat × Nat)) (refs : List Nat) (cons : List Dict)
    (fd fh : Bool) (args : List Nat) : Out :=
  { polys := (if fd then ps.map .derivOf else []) ++ (if fh then ps.map .hessOf else []),
    mats := ks.map (fun k => (W.captured k).bind W.init.matVal) ++ ks.map (fun k => some (.pure (.sust k.1 k.2))),
    refs := W.init.cells refs, args := W.init.cells args, cons := cons }

theorem captured_stable {W : World} {σ : State} (e : Ext W.init σ) (k : Nat × Nat) :
    (W.captured k).bind σ.matVal = (W.captured k).bind W.init.matVal := by
  cases hc : W.captured k with
  | none => rfl
  | some c =>
    have h0 := (good_init W).hit hc
    simp only [Option.bind_some]
    rw [h0]
    unfold State.matVal at h0 ⊢
    cases hm : W.init.mats[c]? with
    | none => simp [hm] at h0
    | some x => simp [e.mats c x hm, hm] at h0 ⊢; exact h0

theorem evalWith_inv {W : World} {σ : State} (hI : Inv W σ) (ps : List Nat) (ks : List (Nat × Nat)) (refs : List Nat)
    (cons : List Dict) (fd fh : Bool) (a : List Nat) :
    Inv W (evalWith W σ ps ks refs cons fd fh a).1 ∧
      (evalWith W σ ps ks refs cons fd fh a).2 = evalSpec W ps ks refs cons fd fh a := by
  obtain ⟨g, e⟩ := hI
  obtain ⟨g1, e1, v1⟩ := lookupAll_good ks g
  have e01 : Ext W.init (σ.lookupAll ks).1 := e.trans e1
  refine ⟨⟨⟨?_, ?_, g1.mpure, g1.tvalid⟩, ⟨e01.dicts, e01.caller, e01.mats⟩⟩, ?_⟩
  · show PureC .derivOf (if fd then _ else _)
    cases fd
    · exact g1.dpure
    · exact fillC_pure g1.dpure _
  · show PureC .hessOf (if fh then _ else _)
    cases fh
    · exact g1.hpure
    · exact fillC_pure g1.hpure _
  · have hD : ps.map (useC .derivOf (σ.lookupAll ks).1.dcache) = ps.map .derivOf :=
      List.map_congr_left (fun p _ => useC_pure g1.dpure p)
    have hH : ps.map (useC .hessOf (σ.lookupAll ks).1.hcache) = ps.map .hessOf :=
      List.map_congr_left (fun p _ => useC_pure g1.hpure p)
    have hM : ks.map (fun k => (W.captured k).bind (σ.lookupAll ks).1.matVal) =
        ks.map (fun k => (W.captured k).bind W.init.matVal) :=
      List.map_congr_left (fun k _ => captured_stable e01 k)
    simp only [evalWith, evalSpec, matToks, hD, hH, hM, v1, State.cells, e.caller]

theorem evalDev_inv {W : World} {σ : State} (hI : Inv W σ) (d : Dev) (fd fh : Bool) (a : List Nat) (wc : Bool) :
    Inv W (evalDev W σ d fd fh a wc).1 ∧
      (evalDev W σ d fd fh a wc).2 = evalSpec W d.polys d.matKeys d.refs (if wc then d.cons W.init.dicts else []) fd fh a := by
  unfold evalDev
  rw [hI.2.dicts]
  exact evalWith_inv hI _ _ _ _ _ _ _

/-! ## one step -/

/-- **`step_inv`**: every read-only call preserves the invariant. -/
theorem step_inv {W : World} {σ : State} (hI : Inv W σ) (op : Op) : Inv W (step W σ op).1 := by
  have evict : ∀ l : List (MKey × Nat), (∀ e ∈ l, e ∈ σ.lru) → Inv W { σ with lru := l } := fun l hl =>
    ⟨⟨hI.1.dpure, hI.1.hpure, hI.1.mpure, fun e he => hI.1.tvalid e (hl e he)⟩, ⟨hI.2.dicts, hI.2.caller, hI.2.mats⟩⟩
  cases op <;> simp only [step]
  case cost t a => split <;> first | exact hI | exact (evalDev_inv hI _ _ _ _ _).1
  case deriv t a => split <;> first | exact hI | exact (evalDev_inv hI _ _ _ _ _).1
  case hess t a => split <;> first | exact hI | exact (evalDev_inv hI _ _ _ _ _).1
  case bounds t => split <;> exact hI
  case readConstraints t => split <;> exact hI
  case callFun t i a => split <;> exact hI
  case callJac t i a => split <;> exact hI
  case project t a => split <;> exact hI
  case map t a => split <;> exact hI
  case toDict t => split <;> exact hI
  case leafDevices t => split <;> exact hI
  case solve t a =>
    split
    · exact hI
    · split
      · exact hI
      · exact (evalDev_inv hI _ _ _ _ _).1
  case stepTo t a => split <;> first | exact hI | exact (evalDev_inv hI _ _ _ _ _).1
  case uproject t a => split <;> exact hI
  case partialEval t fd fh np nm a => split <;> first | exact hI | exact (evalWith_inv hI _ _ _ _ _ _ _).1
  case cacheClear => exact evict [] (by intro e he; simp at he)
  case evict i => exact evict _ (fun e he => List.mem_of_mem_eraseIdx he)

/-- the output of a call depends on the state only through what the invariant fixes. -/
theorem step_out {W : World} {σ : State} (hI : Inv W σ) (op : Op) : (step W σ op).2 = (step W W.init op).2 := by
  have h0 := inv_init W
  cases op <;> simp only [step]
  case cost t a =>
    split
    · rfl
    · rw [(evalDev_inv hI _ _ _ _ _).2, (evalDev_inv h0 _ _ _ _ _).2]
  case deriv t a =>
    split
    · rfl
    · rw [(evalDev_inv hI _ _ _ _ _).2, (evalDev_inv h0 _ _ _ _ _).2]
  case hess t a =>
    split
    · rfl
    · rw [(evalDev_inv hI _ _ _ _ _).2, (evalDev_inv h0 _ _ _ _ _).2]
  case bounds t => split <;> rfl
  case readConstraints t => split <;> simp only [hI.2.dicts]
  case callFun t i a => split <;> simp only [hI.2.dicts, State.cells, hI.2.caller]
  case callJac t i a => split <;> simp only [hI.2.dicts, State.cells, hI.2.caller]
  case project t a => split <;> simp only [State.cells, hI.2.caller]
  case map t a => split <;> simp only [State.cells, hI.2.caller]
  case toDict t => split <;> simp only [hI.2.dicts, State.cells, hI.2.caller]
  case leafDevices t => split <;> rfl
  case solve t a =>
    split
    · rfl
    · split
      · simp only [State.cells, hI.2.caller, hI.2.dicts]
      · rw [(evalDev_inv hI _ _ _ _ _).2, (evalDev_inv h0 _ _ _ _ _).2]
  case stepTo t a =>
    split
    · rfl
    · rw [(evalDev_inv hI _ _ _ _ _).2, (evalDev_inv h0 _ _ _ _ _).2]
  case uproject t a => split <;> simp only [hI.2.dicts, State.cells, hI.2.caller]
  case partialEval t fd fh np nm a =>
    split
    · rfl
    · rw [(evalWith_inv hI _ _ _ _ _ _ _).2, (evalWith_inv h0 _ _ _ _ _ _ _).2]

/-! ## histories -/

/-- the invariant holds after every finite history. -/
theorem run_inv {W : World} : ∀ (h : List Op) {σ : State}, Inv W σ → Inv W (run (step W) h σ)
  | [], _, hI => hI
  | op :: h, _, hI => run_inv h (step_inv hI op)

/-- **C12, behaviour**: after EVERY finite history of read-only calls, the next call answers exactly what
it answers on a freshly constructed twin. -/
theorem history_fresh_twin (W : World) (h : List Op) (op : Op) :
    (step W (run (step W) h W.init) op).2 = (step W W.init op).2 :=
  step_out (run_inv h (inv_init W)) op

/-- **C12, caller data**: after every finite history the caller's arrays / lists and the constraint dicts
the caller supplied are exactly those of the fresh construction. -/
theorem history_caller_untouched (W : World) (h : List Op) :
    (run (step W) h W.init).caller = W.init.caller ∧ (run (step W) h W.init).dicts = W.init.dicts :=
  ⟨(run_inv h (inv_init W)).2.caller, (run_inv h (inv_init W)).2.dicts⟩

/-- every output along a history equals the fresh twin's (the form the harness checks op by op). -/
theorem trace_fresh_twin (W : World) : ∀ (h : List Op) {σ : State}, Inv W σ →
    (trace (step W) h σ).map (·.1) = h.map (fun op => (step W W.init op).2)
  | [], _, _ => rfl
  | op :: h, σ, hI => by
    simp only [trace, List.map_cons, step_out hI op, trace_fresh_twin W h (step_inv hI op)]

/-! ## non-vacuity, and what the theorem excludes -/

/-- a set holding a two-conduit adaptor (id 1, conduits 2 and 3) over an `ADevice` (id 4) with one user
constraint (dict cell 0, with a Jacobian), one `Poly2D` (object 0), and a storage leaf (id 5, s ≠ 1, n = 3). -/
def exW : World :=
  { root := .node 0 [⟨2, false, true⟩] [] [
      .mf 1 [2, 3] [⟨2, false, true⟩] [] false [] (.leaf { id := 4, ucons := [0], polys := [0], refs := [0] }),
      .leaf { id := 5, own := [⟨1, false, true⟩], mat := some (1, 3) }],
    udicts := [(false, true)], npolys := 1, ncaller := 2 }

/-- the hypotheses of `step_inv` / `step_out` are satisfiable, and reachable states are not just `init`:
a `deriv` on the root fills the cache. -/
example : Inv exW (run (step exW) [.deriv 0 [1], .cacheClear, .cost 5 [1], .partialEval 0 true false 1 0 [1]] exW.init) :=
  run_inv _ (inv_init exW)
example : (run (step exW) [.deriv 0 [1]] exW.init).dcache = [some (.derivOf 0)] ∧ exW.init.dcache = [none] := by decide
example : (run (step exW) [.cacheClear, .cost 5 [1]] exW.init).mats.length = 4 ∧ exW.init.mats.length = 2 := by decide

/-- with the code as it is, reading the adaptor's constraints leaves the wrapped device's cell alone: the wrapped
device's own constraint 0 is still (a fresh reshaping wrapper, fix 0f214fb, around) the caller's closure, and the
stored cells are those of the fresh construction.  (Before 0f214fb the getter returned the stored dict itself and
this read `= some (.user 0)`; that cell-identity claim is now simply false.) -/
theorem fixed_witness :
    (step exW (run (step exW) [.readConstraints 1, .readConstraints 1] exW.init) (.callFun 4 0 [])).2.closure
      = some (.wrapVec (.user 0)) ∧
    (run (step exW) [.readConstraints 1, .readConstraints 1] exW.init).dicts = exW.init.dicts := by decide

/-- … and the adaptor itself hands out a wrapped *copy*. -/
example : (step exW exW.init (.callFun 1 1 [])).2.closure = some (.wrapSum (.wrapVec (.user 0))) := by decide

/-- `to_dict()` still shows the caller's own closure in the stored cell. -/
example : ((step exW (run (step exW) [.readConstraints 1, .readConstraints 4] exW.init) (.toDict 4)).2.cons.map (·.fn))
    = [.user 0] := by decide

/-- **pre-fix behaviour, explicit**: after ONE read of the adaptor's constraints the wrapped device's own
constraint 0 is no longer the caller's closure but the adaptor's wrapper around it; after two reads it is
wrapped twice; and the caller's dict cell has been written. -/
theorem prefix_witness :
    (stepPre exW exW.init (.callFun 4 0 [])).2.closure = some (.user 0) ∧
    (stepPre exW (run (stepPre exW) [.readConstraints 1] exW.init) (.callFun 4 0 [])).2.closure
      = some (.wrapSum (.user 0)) ∧
    (stepPre exW (run (stepPre exW) [.readConstraints 1, .readConstraints 1] exW.init) (.callFun 4 0 [])).2.closure
      = some (.wrapSum (.wrapSum (.user 0))) ∧
    (run (stepPre exW) [.readConstraints 1] exW.init).dicts ≠ exW.init.dicts := by decide

/-- **the negation for the pre-fix step function**: the fresh-twin statement fails, with the 2-op history
`[readConstraints mf, callFun 0 on wrapped]`. -/
theorem prefix_not_stateless :
    ¬ (∀ (W : World) (h : List Op) (op : Op),
        (stepPre W (run (stepPre W) h W.init) op).2 = (stepPre W W.init op).2) := by
  intro H
  have := H exW [.readConstraints 1] (.callFun 4 0 [])
  revert this
  decide

/-- and it also writes caller data (the dict objects of the caller's constraint list). -/
theorem prefix_mutates_caller :
    ¬ (∀ (W : World) (h : List Op), (run (stepPre W) h W.init).dicts = W.init.dicts) := by
  intro H
  have := H exW [.readConstraints 0]
  revert this
  decide

end DK.History
