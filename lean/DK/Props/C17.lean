import DK.Props.C04
import DK.Lemmas.Calc
import Mathlib.Order.Bounds.Basic
import Mathlib.Data.Set.Image
/-!
# C17 — the multi-flow adaptor is a pure re-expression of the wrapped device

`Block.ofMF id d cons flows ratio` is the model of `MFDeviceSet(device, flows)` (and of
`TwoRatioMFDeviceSet` when `ratio` is `some`), `k = flows.length` conduits, `d` the wrapped atomic
device with constraint list `cons` (opaque: any list — cumulative bounds, storage, user constraints).

**One-directional hypothesis.**  The constructor refuses a device that has a strictly negative lower
bound *and* a strictly positive upper bound (`mfdeviceset.py:28-29`), i.e. it enforces `OneDir d`:
all lower bounds `≥ 0` (a consumer) or all upper bounds `≤ 0` (a producer).  It is needed only for
`mf_surjective` (and what follows from it): without it the equal split of a feasible two-way flow can
leave the conduit boxes `(lb, 0)`.  `mf_cost`, `mf_deriv`, `mf_feasible_iff` hold for every `d`.
The constructor also refuses an empty conduit list: `1 ≤ k`.

**Two-ratio sets.**  `mf_ratio_surjective` assumes both ratios strictly positive.  The constructor of
`TwoRatioMFDeviceSet` does *not* enforce that (it only checks that there are two of them): with ratios
`[1, −1]` over a consumer the equality `S 0 i·1 − S 1 i·(−1) = 0` together with `S ≥ 0` forces both conduits
to `0`, so the adaptor can then be strictly smaller than the wrapped device; for such ratios only
`mf_feasible_iff` (which holds for every ratio) applies, not surjectivity.
-/
namespace DK.C17
open DK DK.C04

/-- what the constructor enforces on the wrapped device's bounds. -/
def OneDir (d : Leaf ℝ) : Prop := (∀ i < d.n, 0 ≤ d.lb i) ∨ (∀ i < d.n, d.hb i ≤ 0)

/-- … literally: not (some lower bound `< 0` and some upper bound `> 0`). -/
theorem oneDir_iff (d : Leaf ℝ) :
    OneDir d ↔ ¬ ((∃ i < d.n, d.lb i < 0) ∧ (∃ i < d.n, 0 < d.hb i)) := by
  unfold OneDir
  constructor
  · rintro (h | h) ⟨⟨i, hi, h1⟩, ⟨j, hj, h2⟩⟩
    · exact absurd (h i hi) (not_le.2 h1)
    · exact absurd (h j hj) (not_le.2 h2)
  · intro h
    by_cases h1 : ∃ i < d.n, d.lb i < 0
    · right
      intro j hj
      by_contra hc
      exact h ⟨h1, j, hj, not_le.1 hc⟩
    · left
      intro i hi
      by_contra hc
      exact h1 ⟨i, hi, not_le.1 hc⟩

/-- feasible set of the wrapped device: its bounds box and its constraints. -/
def DevFeasible (d : Leaf ℝ) (cons : List (Con ℝ)) (s : ℕ → ℝ) : Prop :=
  InBox d.n d.lb d.hb s ∧ ∀ c ∈ cons, c.Sat s

/-- every conduit entry has the device's direction and lies in the conduit bounds:
`(lb, 0)` when the device has a negative lower bound (a producer), else `(0, hb)`. -/
def ConduitBox (d : Leaf ℝ) (k : ℕ) (S : Mat ℝ) : Prop :=
  ∀ r < k, ∀ i < d.n,
    if anyNeg d.n d.lb then d.lb i ≤ S r i ∧ S r i ≤ 0 else 0 ≤ S r i ∧ S r i ≤ d.hb i

/-- feasible set of a block over horizon `n`: its bounds box (all rows) and its constraints. -/
def BlockFeasible (B : Block ℝ) (n : ℕ) (S : Mat ℝ) : Prop :=
  (∀ r < B.rows, ∀ i < n, (B.bounds r i).1 ≤ S r i ∧ S r i ≤ (B.bounds r i).2) ∧ ∀ c ∈ B.cons, c.Sat S

/-! ## cost and marginal cost -/

/-- at zero price the adaptor's cost is the wrapped device's cost of the column sum. -/
theorem mf_cost (id : String) (d : Leaf ℝ) (cons : List (Con ℝ)) (flows : List String)
    (ratio : Option (Bool × ℝ × ℝ)) (S : Mat ℝ) :
    (Block.ofMF id d cons flows ratio).cost S (fun _ _ => 0) = d.cost (colSum flows.length S) (fun _ => 0) := by
  simp only [Block.ofMF, mul_zero, sumTo_zero_fn, add_zero]

/-- at any (per-conduit) price: the wrapped cost of the column sum plus the numeraire term `Σ S·P`. -/
theorem mf_cost_price (id : String) (d : Leaf ℝ) (cons : List (Con ℝ)) (flows : List String)
    (ratio : Option (Bool × ℝ × ℝ)) (S P : Mat ℝ) :
    (Block.ofMF id d cons flows ratio).cost S P =
      d.cost (colSum flows.length S) (fun _ => 0) + sumTo flows.length (fun r => sumTo d.n (fun i => S r i * P r i)) := rfl

/-- every conduit row of the marginal cost is the wrapped device's marginal cost at the column sum
(at zero price) plus that row's own price. -/
theorem mf_deriv (id : String) (d : Leaf ℝ) (cons : List (Con ℝ)) (flows : List String)
    (ratio : Option (Bool × ℝ × ℝ)) (S P : Mat ℝ) (r i : ℕ) :
    (Block.ofMF id d cons flows ratio).deriv S P r i = d.deriv (colSum flows.length S) (fun _ => 0) i + P r i := rfl

/-- … and that repeated row *is* the gradient of the adaptor's cost over all `k·n` conduit
variables, whenever the wrapped `deriv` is the gradient of the wrapped cost at the column sum (C01). -/
theorem mf_deriv_isMGrad (id : String) (d : Leaf ℝ) (cons : List (Con ℝ)) (flows : List String)
    (ratio : Option (Bool × ℝ × ℝ)) (S P : Mat ℝ)
    (hg : IsGradAt d.n (fun x => d.cost x (fun _ => 0)) (d.deriv (colSum flows.length S) (fun _ => 0))
            (colSum flows.length S)) :
    IsMGradAt flows.length d.n (fun S' => (Block.ofMF id d cons flows ratio).cost S' P)
      ((Block.ofMF id d cons flows ratio).deriv S P) S := by
  intro D
  set k := flows.length with hk
  have h1 := hg (colSum k D)
  have h2 : HasDerivAt (fun τ : ℝ => sumTo k (fun r => sumTo d.n (fun i => (S r i + τ * D r i) * P r i)))
      (sumTo k (fun r => sumTo d.n (fun i => D r i * P r i))) 0 := by
    refine sumTo_hasDerivAt k _ _ 0 (fun r _ => sumTo_hasDerivAt d.n _ _ 0 (fun i _ => ?_))
    have := (((hasDerivAt_id (0:ℝ)).mul_const (D r i)).const_add (S r i)).mul_const (P r i)
    refine HasDerivAt.congr_deriv this ?_
    ring
  have h3 : (fun τ : ℝ => (Block.ofMF id d cons flows ratio).cost (fun r i => S r i + τ * D r i) P) =
      fun τ => d.cost (line (colSum k S) (colSum k D) τ) (fun _ => 0)
        + sumTo k (fun r => sumTo d.n (fun i => (S r i + τ * D r i) * P r i)) := by
    funext τ
    simp only [Block.ofMF, ← hk, colSum_add_smul]
    rfl
  rw [h3]
  refine HasDerivAt.congr_deriv (h1.add h2) ?_
  simp only [Block.ofMF, ← hk]
  have e1 : sumTo d.n (fun i => d.deriv (colSum k S) (fun _ => 0) i * colSum k D i) =
      sumTo k (fun r => sumTo d.n (fun i => d.deriv (colSum k S) (fun _ => 0) i * D r i)) := by
    rw [sumTo_comm]
    refine sumTo_congr (fun i _ => ?_)
    unfold colSum
    rw [sumTo_mul_left]
  rw [e1, ← sumTo_add]
  refine sumTo_congr (fun r _ => ?_)
  rw [← sumTo_add]
  refine sumTo_congr (fun i _ => ?_)
  ring

/-- non-vacuity of `mf_deriv_isMGrad`: a plain `Device` (cost `Σ s·p`, marginal cost `p`) wrapped. -/
example : ∃ (d : Leaf ℝ) (S : Mat ℝ),
    IsGradAt d.n (fun x => d.cost x (fun _ => 0)) (d.deriv (colSum 2 S) (fun _ => 0)) (colSum 2 S) := by
  refine ⟨{ n := 1, lb := fun _ => 0, hb := fun _ => 4, cbs := [], kind := .device }, fun _ _ => 1, ?_⟩
  intro D
  simp only [Leaf.cost, Leaf.deriv, deviceCost, deviceDeriv, priceTerm, mul_zero, sumTo_zero_fn, zero_mul]
  exact hasDerivAt_const _ _

/-! ## feasibility -/

theorem mf_bounds (id : String) (d : Leaf ℝ) (cons : List (Con ℝ)) (flows : List String)
    (ratio : Option (Bool × ℝ × ℝ)) (r i : ℕ) :
    (Block.ofMF id d cons flows ratio).bounds r i = if anyNeg d.n d.lb then (d.lb i, 0) else (0, d.hb i) := rfl

/-- a conduit matrix is in the adaptor's bounds box and satisfies its constraints iff every conduit
entry has the device's direction and lies in the conduit bounds, and the column sum is feasible for
the wrapped device (its box and its constraints) — and the ratio holds, for a two-ratio set. -/
theorem mf_feasible_iff (id : String) (d : Leaf ℝ) (cons : List (Con ℝ)) (flows : List String)
    (ratio : Option (Bool × ℝ × ℝ)) (S : Mat ℝ) :
    BlockFeasible (Block.ofMF id d cons flows ratio) d.n S ↔
      ConduitBox d flows.length S ∧ DevFeasible d cons (colSum flows.length S) ∧
      (∀ e r0 r1, ratio = some (e, r0, r1) → RatioSpec d.n e r0 r1 S) := by
  unfold BlockFeasible
  rw [mf_cons_sat_iff]
  unfold MFSpec DevFeasible InBox ConduitBox
  have hb : (∀ r < (Block.ofMF id d cons flows ratio).rows, ∀ i < d.n,
        ((Block.ofMF id d cons flows ratio).bounds r i).1 ≤ S r i ∧ S r i ≤ ((Block.ofMF id d cons flows ratio).bounds r i).2) ↔
      ∀ r < flows.length, ∀ i < d.n,
        if anyNeg d.n d.lb then d.lb i ≤ S r i ∧ S r i ≤ 0 else 0 ≤ S r i ∧ S r i ≤ d.hb i := by
    refine forall_congr' (fun r => imp_congr Iff.rfl (forall_congr' (fun i => imp_congr Iff.rfl ?_)))
    rw [mf_bounds]
    split_ifs <;> exact Iff.rfl
  rw [hb]
  tauto

/-- the direction, spelled out: with a negative lower bound somewhere every conduit entry is `≤ 0`,
otherwise every conduit entry is `≥ 0`. -/
theorem conduit_direction (d : Leaf ℝ) (k : ℕ) (S : Mat ℝ) (h : ConduitBox d k S) :
    ((∃ i < d.n, d.lb i < 0) → ∀ r < k, ∀ i < d.n, S r i ≤ 0) ∧
    ((∀ i < d.n, 0 ≤ d.lb i) → ∀ r < k, ∀ i < d.n, 0 ≤ S r i) := by
  constructor
  · intro hn r hr i hi
    have := h r hr i hi
    rw [if_pos ((anyNeg_iff d.n d.lb).2 hn)] at this
    exact this.2
  · intro hp r hr i hi
    have := h r hr i hi
    have hf : ¬ (anyNeg d.n d.lb = true) := by
      rw [Bool.not_eq_true]; exact (anyNeg_false_iff d.n d.lb).2 hp
    rw [if_neg hf] at this
    exact this.1

/-- the equal split of a flow that is feasible for the (one-directional) wrapped device is feasible
for the adaptor, for any number `k ≥ 1` of conduits, and its column sum is that flow. -/
theorem mf_surjective (id : String) (d : Leaf ℝ) (cons : List (Con ℝ)) (flows : List String)
    (hk : 1 ≤ flows.length) (hd : OneDir d) (s : ℕ → ℝ) (hs : DevFeasible d cons s) :
    BlockFeasible (Block.ofMF id d cons flows none) d.n (fun _ i => s i / (flows.length : ℝ)) ∧
    colSum flows.length (fun _ i => s i / (flows.length : ℝ)) = s := by
  have hcs := colSum_const_div flows.length hk s
  refine ⟨?_, hcs⟩
  rw [mf_feasible_iff, hcs]
  refine ⟨?_, hs, by simp⟩
  have hkpos : (1 : ℝ) ≤ (flows.length : ℝ) := by exact_mod_cast hk
  have hk0 : (0 : ℝ) < (flows.length : ℝ) := by linarith
  intro r _ i hi
  have hbox := hs.1 i hi
  by_cases hn : anyNeg d.n d.lb = true
  · rw [if_pos hn]
    have hhb : d.hb i ≤ 0 := by
      rcases hd with h | h
      · obtain ⟨j, hj, hlt⟩ := (anyNeg_iff d.n d.lb).1 hn
        exact absurd (h j hj) (not_le.2 hlt)
      · exact h i hi
    have hsi : s i ≤ 0 := le_trans hbox.2 hhb
    constructor
    · rw [le_div_iff₀ hk0]
      nlinarith [hbox.1]
    · exact div_nonpos_of_nonpos_of_nonneg hsi hk0.le
  · rw [if_neg hn]
    have hlb : 0 ≤ d.lb i := (anyNeg_false_iff d.n d.lb).1 (by simpa using hn) i hi
    have hsi : 0 ≤ s i := le_trans hlb hbox.1
    constructor
    · exact div_nonneg hsi hk0.le
    · rw [div_le_iff₀ hk0]
      nlinarith [hbox.2]

/-- non-vacuity: a consumer with bounds `[1,4]` and a constraint, three conduits. -/
example : ∃ (d : Leaf ℝ) (cons : List (Con ℝ)) (s : ℕ → ℝ), OneDir d ∧ cons ≠ [] ∧ DevFeasible d cons s ∧ s 0 ≠ 0 := by
  refine ⟨{ n := 1, lb := fun _ => 1, hb := fun _ => 4, cbs := [], kind := .device },
          [{ isEq := false, fn := fun x => x 0 - 2, jac := none }], fun _ => 3,
          Or.inl (fun _ _ => by norm_num), by simp, ⟨fun k _ => by norm_num, ?_⟩, by norm_num⟩
  intro c hc
  simp only [List.mem_singleton] at hc
  subst hc
  norm_num [Con.Sat]

/-- a two-ratio adaptor with positive ratios: the split `s·r₁/(r₀+r₁)`, `s·r₀/(r₀+r₁)` of a feasible
wrapped flow is feasible (it keeps the ratio and sums to `s`). -/
theorem mf_ratio_surjective (id : String) (d : Leaf ℝ) (cons : List (Con ℝ)) (f0 f1 : String) (e : Bool)
    (r0 r1 : ℝ) (h0 : 0 < r0) (h1 : 0 < r1) (hd : OneDir d) (s : ℕ → ℝ) (hs : DevFeasible d cons s) :
    BlockFeasible (Block.ofMF id d cons [f0, f1] (some (e, r0, r1))) d.n
      (fun r i => if r = 0 then s i * (r1 / (r0 + r1)) else s i * (r0 / (r0 + r1))) ∧
    colSum 2 (fun r i => if r = 0 then s i * (r1 / (r0 + r1)) else s i * (r0 / (r0 + r1))) = s := by
  have hpos : 0 < r0 + r1 := by linarith
  have hcs : colSum 2 (fun r i => if r = 0 then s i * (r1 / (r0 + r1)) else s i * (r0 / (r0 + r1))) = s := by
    funext i
    simp only [colSum, sumTo]
    norm_num
    field_simp
    ring
  refine ⟨?_, hcs⟩
  rw [mf_feasible_iff]
  have hlen : [f0, f1].length = 2 := rfl
  rw [hlen, hcs]
  have hw0 : 0 ≤ r1 / (r0 + r1) := (div_pos h1 hpos).le
  have hw0' : r1 / (r0 + r1) ≤ 1 := by rw [div_le_one hpos]; linarith
  have hw1 : 0 ≤ r0 / (r0 + r1) := (div_pos h0 hpos).le
  have hw1' : r0 / (r0 + r1) ≤ 1 := by rw [div_le_one hpos]; linarith
  refine ⟨?_, hs, ?_⟩
  · intro r _ i hi
    have hbox := hs.1 i hi
    -- every conduit entry is `s i * w` with `0 ≤ w ≤ 1`
    obtain ⟨w, hw, hw', hrw⟩ : ∃ w : ℝ, 0 ≤ w ∧ w ≤ 1 ∧
        (if r = 0 then s i * (r1 / (r0 + r1)) else s i * (r0 / (r0 + r1))) = s i * w := by
      by_cases hr : r = 0
      · exact ⟨_, hw0, hw0', by rw [if_pos hr]⟩
      · exact ⟨_, hw1, hw1', by rw [if_neg hr]⟩
    simp only [hrw]
    by_cases hn : anyNeg d.n d.lb = true
    · rw [if_pos hn]
      have hhb : d.hb i ≤ 0 := by
        rcases hd with h | h
        · obtain ⟨j, hj, hlt⟩ := (anyNeg_iff d.n d.lb).1 hn
          exact absurd (h j hj) (not_le.2 hlt)
        · exact h i hi
      have hsi : s i ≤ 0 := le_trans hbox.2 hhb
      constructor <;> nlinarith [hbox.1]
    · rw [if_neg hn]
      have hlb : 0 ≤ d.lb i := (anyNeg_false_iff d.n d.lb).1 (by simpa using hn) i hi
      have hsi : 0 ≤ s i := le_trans hlb hbox.1
      constructor <;> nlinarith [hbox.2]
  · intro e' r0' r1' h
    simp only [Option.some.injEq, Prod.mk.injEq] at h
    obtain ⟨rfl, rfl, rfl⟩ := h
    intro i _
    have : (if (0:ℕ) = 0 then s i * (r1 / (r0 + r1)) else s i * (r0 / (r0 + r1))) * r0
        - (if (1:ℕ) = 0 then s i * (r1 / (r0 + r1)) else s i * (r0 / (r0 + r1))) * r1 = 0 := by
      norm_num
      field_simp
      ring
    unfold Holds
    split_ifs
    · exact this
    · exact this.ge

example : ∃ (d : Leaf ℝ) (s : ℕ → ℝ) (r0 r1 : ℝ), 0 < r0 ∧ 0 < r1 ∧ r0 ≠ r1 ∧ OneDir d ∧ DevFeasible d [] s ∧ s 0 ≠ 0 :=
  ⟨{ n := 1, lb := fun _ => -4, hb := fun _ => 0, cbs := [], kind := .device }, fun _ => -3, 1, 2,
   by norm_num, by norm_num, by norm_num, Or.inr (fun _ _ => le_refl _), ⟨fun k _ => by norm_num, by simp⟩, by norm_num⟩

/-! ## the attainable (total flow, cost) pairs coincide; so do the attainable costs and the minimum -/

/-- attainable pairs of the wrapped device. -/
def devPairs (d : Leaf ℝ) (cons : List (Con ℝ)) : Set ((ℕ → ℝ) × ℝ) :=
  { p | ∃ s, DevFeasible d cons s ∧ p = (s, d.cost s (fun _ => 0)) }

/-- attainable pairs of the adaptor: (column sum of a feasible conduit matrix, its cost at zero price). -/
def mfPairs (id : String) (d : Leaf ℝ) (cons : List (Con ℝ)) (flows : List String) : Set ((ℕ → ℝ) × ℝ) :=
  { p | ∃ S, BlockFeasible (Block.ofMF id d cons flows none) d.n S ∧
          p = (colSum flows.length S, (Block.ofMF id d cons flows none).cost S (fun _ _ => 0)) }

/-- wrapping changes neither which total flows are feasible nor what any total flow costs. -/
theorem mf_pairs_eq (id : String) (d : Leaf ℝ) (cons : List (Con ℝ)) (flows : List String)
    (hk : 1 ≤ flows.length) (hd : OneDir d) :
    mfPairs id d cons flows = devPairs d cons := by
  ext p
  constructor
  · rintro ⟨S, hS, rfl⟩
    refine ⟨colSum flows.length S, ((mf_feasible_iff id d cons flows none S).1 hS).2.1, ?_⟩
    rw [mf_cost]
  · rintro ⟨s, hs, rfl⟩
    obtain ⟨hf, hc⟩ := mf_surjective id d cons flows hk hd s hs
    refine ⟨fun _ i => s i / (flows.length : ℝ), hf, ?_⟩
    rw [mf_cost, hc]

/-- the sets of attainable costs coincide … -/
theorem mf_cost_image_eq (id : String) (d : Leaf ℝ) (cons : List (Con ℝ)) (flows : List String)
    (hk : 1 ≤ flows.length) (hd : OneDir d) :
    (fun S => (Block.ofMF id d cons flows none).cost S (fun _ _ => 0)) ''
        { S | BlockFeasible (Block.ofMF id d cons flows none) d.n S } =
      (fun s => d.cost s (fun _ => 0)) '' { s | DevFeasible d cons s } := by
  have h := mf_pairs_eq id d cons flows hk hd
  ext c
  constructor
  · rintro ⟨S, hS, rfl⟩
    have : ((colSum flows.length S, (Block.ofMF id d cons flows none).cost S (fun _ _ => 0)) : (ℕ → ℝ) × ℝ) ∈
        mfPairs id d cons flows := ⟨S, hS, rfl⟩
    rw [h] at this
    obtain ⟨s, hs, he⟩ := this
    exact ⟨s, hs, (congrArg Prod.snd he).symm⟩
  · rintro ⟨s, hs, rfl⟩
    have : ((s, d.cost s (fun _ => 0)) : (ℕ → ℝ) × ℝ) ∈ devPairs d cons := ⟨s, hs, rfl⟩
    rw [← h] at this
    obtain ⟨S, hS, he⟩ := this
    exact ⟨S, hS, (congrArg Prod.snd he).symm⟩

/-- … hence the minimum attainable cost is unchanged: `m` is the least cost over the adaptor's
feasible set iff it is the least cost over the wrapped device's feasible set (and if neither has a
minimum, both sides are false together; lower bounds coincide as well). -/
theorem mf_min_eq (id : String) (d : Leaf ℝ) (cons : List (Con ℝ)) (flows : List String)
    (hk : 1 ≤ flows.length) (hd : OneDir d) (m : ℝ) :
    IsLeast ((fun S => (Block.ofMF id d cons flows none).cost S (fun _ _ => 0)) ''
        { S | BlockFeasible (Block.ofMF id d cons flows none) d.n S }) m ↔
      IsLeast ((fun s => d.cost s (fun _ => 0)) '' { s | DevFeasible d cons s }) m := by
  rw [mf_cost_image_eq id d cons flows hk hd]

/-- the minimiser transfers too: the equal split of a wrapped minimiser minimises the adaptor. -/
theorem mf_argmin (id : String) (d : Leaf ℝ) (cons : List (Con ℝ)) (flows : List String)
    (hk : 1 ≤ flows.length) (hd : OneDir d) (s : ℕ → ℝ) (hs : DevFeasible d cons s)
    (hmin : ∀ s', DevFeasible d cons s' → d.cost s (fun _ => 0) ≤ d.cost s' (fun _ => 0)) :
    BlockFeasible (Block.ofMF id d cons flows none) d.n (fun _ i => s i / (flows.length : ℝ)) ∧
    ∀ S', BlockFeasible (Block.ofMF id d cons flows none) d.n S' →
      (Block.ofMF id d cons flows none).cost (fun _ i => s i / (flows.length : ℝ)) (fun _ _ => 0) ≤
        (Block.ofMF id d cons flows none).cost S' (fun _ _ => 0) := by
  obtain ⟨hf, hc⟩ := mf_surjective id d cons flows hk hd s hs
  refine ⟨hf, fun S' hS' => ?_⟩
  rw [mf_cost, mf_cost, hc]
  exact hmin _ ((mf_feasible_iff id d cons flows none S').1 hS').2.1

end DK.C17

#print axioms DK.C17.oneDir_iff
#print axioms DK.C17.mf_cost
#print axioms DK.C17.mf_cost_price
#print axioms DK.C17.mf_deriv
#print axioms DK.C17.mf_deriv_isMGrad
#print axioms DK.C17.mf_feasible_iff
#print axioms DK.C17.conduit_direction
#print axioms DK.C17.mf_surjective
#print axioms DK.C17.mf_ratio_surjective
#print axioms DK.C17.mf_pairs_eq
#print axioms DK.C17.mf_cost_image_eq
#print axioms DK.C17.mf_min_eq
#print axioms DK.C17.mf_argmin
