import DK.Props.Defs
import DK.Lemmas.Calc
import DK.Lemmas.Bridge
/-!
# C01 — the reported marginal cost is the exact gradient of the cost

`IsGradAt n f g s`: along *every* direction `d`, the derivative of `τ ↦ f (s + τ·d)` at `τ = 0` is
`Σ_{k<n} g k · d k`.  This is the Gateaux-derivative form of "g is the gradient of f at s"; the
`i`-th partial derivative is the case `d = e_i` (`partial_of_isGradAt`).
-/
namespace DK.C01
open DK

/-- the `i`-th partial derivative (all other coordinates frozen) is `g i`. -/
theorem partial_of_isGradAt {n : ℕ} {f : (ℕ → ℝ) → ℝ} {g s : ℕ → ℝ} (h : IsGradAt n f g s)
    {i : ℕ} (hi : i < n) : HasDerivAt (fun x => f (Function.update s i x)) (g i) (s i) := by
  have h0 := h (fun k => if k = i then 1 else 0)
  have hsum : sumTo n (fun k => g k * (if k = i then (1:ℝ) else 0)) = g i := by
    rw [← sumTo_single n i hi g]
    exact sumTo_congr (fun k _ => by split_ifs <;> simp)
  rw [hsum] at h0
  have hshift : HasDerivAt (fun x : ℝ => x - s i) 1 (s i) := (hasDerivAt_id (s i)).sub_const (s i)
  have h1 := h0.comp_of_eq (s i) hshift (by simp)
  have hfun : ((fun τ => f (line s (fun k => if k = i then 1 else 0) τ)) ∘ fun x => x - s i)
      = fun x => f (Function.update s i x) := by
    funext x
    simp only [Function.comp]
    congr 1
    funext k
    by_cases hk : k = i
    · subst hk; simp [line]
    · simp [line, hk]
  rw [hfun, mul_one] at h1
  exact h1

/-! ## per class -/
theorem device_grad (n : ℕ) (s p : ℕ → ℝ) :
    IsGradAt n (fun x => deviceCost n x p) (deviceDeriv p) s := by
  unfold deviceCost
  exact priceTerm_isGradAt n s p

/-- non-vacuity of `partial_of_isGradAt`: its hypotheses hold for the plain device, slot 1 of 2. -/
example (s p : ℕ → ℝ) :
    HasDerivAt (fun x => deviceCost 2 (Function.update s 1 x) p) (p 1) (s 1) :=
  partial_of_isGradAt (device_grad 2 s p) (by norm_num : 1 < 2)

theorem cdevice_grad (n : ℕ) (a b : ℝ) (s p : ℕ → ℝ) :
    IsGradAt n (fun x => cdevCost n a b x p) (cdevDeriv a p) s := by
  unfold cdevCost
  have h1 : IsGradAt n (fun x => a * sumTo n x + b) (fun _ => a) s := by
    refine (isGradAt_comp_sumTo n (fun y => a * y + b) a s ?_)
    simpa using ((hasDerivAt_id (sumTo n s)).const_mul a).add_const b
  exact (h1.add (priceTerm_isGradAt n s p)).congr_grad (fun k _ => rfl)

/-- no hypothesis at all: zero-width slots, any `p_l p_h`, any flow (in or out of bounds). -/
theorem idevice2_grad (n : ℕ) (pl ph lb hb s p : ℕ → ℝ) :
    IsGradAt n (fun x => idev2Cost n pl ph lb hb x p) (idev2Deriv pl ph lb hb s p) s := by
  unfold idev2Cost
  have h1 := isGradAt_sumTo n (fun k y => hlqCost (pl k) (ph k) (lb k) (hb k) y)
    (fun k => hlqDeriv (pl k) (ph k) (lb k) (hb k) (s k)) s
    (fun k _ => hlqCost_hasDerivAt (pl k) (ph k) (lb k) (hb k) (s k))
  exact (h1.add (priceTerm_isGradAt n s p)).congr_grad (fun k _ => rfl)

/-- real exponents (`Real.rpow`); away from the kink `q = 0` of a non-integer power. -/
theorem idevice_grad (n : ℕ) (a b c lb hb s p : ℕ → ℝ)
    (hq : ∀ k < n, lb k = hb k ∨ 0 < abcQ (s k) (lb k) (hb k) (a k)) :
    IsGradAt n (fun x => idevCost Real.rpow n a b c lb hb x p) (idevDeriv Real.rpow id a b c lb hb s p) s := by
  unfold idevCost
  have h1 := isGradAt_sumTo n (fun k y => abcCost Real.rpow y (a k) (b k) (c k) (lb k) (hb k))
    (fun k => abcDeriv Real.rpow id (s k) (a k) (b k) (c k) (lb k) (hb k)) s
    (fun k hk => abcCost_rpow_hasDerivAt (s k) (a k) (b k) (c k) (lb k) (hb k) (hq k hk))
  exact (h1.add (priceTerm_isGradAt n s p)).congr_grad (fun k _ => rfl)

/-- non-vacuity of `idevice_grad`: a non-integer exponent at an interior point (`q = 3/4 > 0`). -/
example : ∀ k < 3, (fun _ => (0:ℝ)) k = (fun _ => (2:ℝ)) k ∨
    0 < abcQ ((fun _ => (1:ℝ)) k) ((fun _ => (0:ℝ)) k) ((fun _ => (2:ℝ)) k) ((fun _ => (1/2:ℝ)) k) := by
  intro k _
  right
  unfold abcQ abcS
  norm_num

/-- integer exponents `b ≥ 1` as the executable model runs them (`ipow`): no positivity needed. -/
theorem idevice_grad_int (n : ℕ) (a : ℕ → ℝ) (b : ℕ → ℤ) (c lb hb s p : ℕ → ℝ) (hb1 : ∀ k < n, 1 ≤ b k) :
    IsGradAt n (fun x => idevCost ipow n a b c lb hb x p) (idevDeriv ipow intCast' a b c lb hb s p) s := by
  unfold idevCost
  have h1 := isGradAt_sumTo n (fun k y => abcCost ipow y (a k) (b k) (c k) (lb k) (hb k))
    (fun k => abcDeriv ipow intCast' (s k) (a k) (b k) (c k) (lb k) (hb k)) s
    (fun k hk => abcCost_ipow_hasDerivAt (s k) (a k) (b k) (c k) (lb k) (hb k) (hb1 k hk))
  exact (h1.add (priceTerm_isGradAt n s p)).congr_grad (fun k _ => rfl)

/-- non-vacuity of `idevice_grad_int`: the quadratic exponent the thermal device uses. -/
example : ∀ k < 3, 1 ≤ (fun _ => (2:ℤ)) k := by intro k _; norm_num

theorem gdevice_grad (n : ℕ) (cs : ℕ → List ℝ) (s p : ℕ → ℝ) :
    IsGradAt n (fun x => gdevCost n cs x p) (gdevDeriv cs s p) s := by
  unfold gdevCost
  refine (isGradAt_sumTo n (fun k y => y * p k + polyEval (cs k) (-y)) (gdevDeriv cs s p) s ?_)
  intro k _
  have hneg : HasDerivAt (fun y : ℝ => -y) (-1) (s k) := (hasDerivAt_id (s k)).neg
  have hpoly := (polyEval_hasDerivAt (cs k) (-(s k))).comp (s k) hneg
  have h2 := ((hasDerivAt_id (s k)).mul_const (p k)).add hpoly
  refine HasDerivAt.congr_deriv h2 ?_
  unfold gdevDeriv
  ring

/-- the general branch of `cdev2Fn` / `cdev2Slope` (a fold over the per-range terms), for any list. -/
theorem cdev2_fold_grad (n : ℕ) (pl ph : ℝ) (cs : List (CBound ℝ)) (hcb : ∀ c ∈ cs, c.e ≤ n) (s : ℕ → ℝ) :
    IsGradAt n
      (fun x => (cs.map (fun c => hlqCost pl ph c.l c.h (sumRange c.s c.e x))).foldl (· + ·) 0)
      (fun i => (cs.map (fun c => if c.s ≤ i ∧ i < c.e then
        hlqDeriv pl ph c.l c.h (sumRange c.s c.e s) else 0)).foldl (· + ·) 0) s := by
  simp only [foldl_add_eq_sum, zero_add]
  induction cs with
  | nil => simpa using isGradAt_const n 0 s
  | cons c cs ih =>
    simp only [List.map_cons, List.sum_cons]
    have hc := isGradAt_comp_sumRange n c.s c.e (hcb c (List.mem_cons_self ..))
      (fun y => hlqCost pl ph c.l c.h y) (hlqDeriv pl ph c.l c.h (sumRange c.s c.e s)) s
      (hlqCost_hasDerivAt pl ph c.l c.h (sumRange c.s c.e s))
    exact hc.add (ih (fun c' hc' => hcb c' (List.mem_cons_of_mem _ hc')))

/-- any list of cumulative ranges inside the horizon (contiguous, overlapping, single, none). -/
theorem cdevice2_grad (n : ℕ) (pl ph : ℝ) (cbs : List (CBound ℝ)) (hcb : ∀ c ∈ cbs, c.e ≤ n) (s p : ℕ → ℝ) :
    IsGradAt n (fun x => cdev2Cost n pl ph cbs x p) (cdev2Deriv n pl ph cbs s p) s := by
  unfold cdev2Cost
  have hfn : IsGradAt n (fun x => cdev2Fn n pl ph cbs x) (cdev2Slope n pl ph cbs s) s := by
    rcases cbs with _ | ⟨c, _ | ⟨c', cs⟩⟩
    · exact cdev2_fold_grad n pl ph [] hcb s
    · exact isGradAt_comp_sumTo n (fun y => hlqCost pl ph c.l c.h y) _ s
        (hlqCost_hasDerivAt pl ph c.l c.h (sumTo n s))
    · exact cdev2_fold_grad n pl ph (c :: c' :: cs) hcb s
  exact (hfn.add (priceTerm_isGradAt n s p)).congr_grad (fun k _ => rfl)

/-- non-vacuity of `cdevice2_grad`: two overlapping ranges inside a horizon of 4. -/
example : ∀ c ∈ [(⟨0, 1, 0, 3⟩ : CBound ℝ), ⟨0, 2, 1, 4⟩], c.e ≤ 4 := by
  intro c hc
  simp only [List.mem_cons, List.not_mem_nil, or_false] at hc
  rcases hc with rfl | rfl <;> norm_num

end DK.C01
