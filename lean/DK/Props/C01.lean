import DK.Lemmas.Bridge
