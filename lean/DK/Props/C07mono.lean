import DK.Props.C07tree
import DK.Props.C01all
/-!
# C07 — "its marginal cost is monotone along every segment"

From convexity over the bounds box (chord form) and Gateaux gradients at two in-box flows:

* `grad_ineq`       : first-order inequality `Σ_k g k · (y k − x k) ≤ f y − f x`;
* `grad_monotone`   : `0 ≤ Σ_k (g x k − g y k) · (x k − y k)` (apply `grad_ineq` both ways and add);
* `segment_deriv_monotone` : along the segment `x + τ (y − x)` the directional derivative
  `Σ_k g(z_τ) k · (y k − x k)` is non-decreasing in `τ` (the "monotone directional derivative" form);
* `leaf_deriv_monotone` / `leaf_segment_deriv_monotone` : the instances for the executable closed sum of
  shipped leaves (`Leaf ℝ`): convexity from `C07tree.leaf_cost_convex` (hypothesis `Leaf.ConvexAcc`, the
  accepted-and-convex parameter region), gradients from `C01all.leaf_grad` (hypothesis `Leaf.NoKink`).
-/
namespace DK.C07mono
open DK

/-- first-order (gradient) inequality of a function convex over the box. -/
theorem grad_ineq (n : ℕ) (lb hb : ℕ → ℝ) (f : (ℕ → ℝ) → ℝ) (g x y : ℕ → ℝ)
    (hf : ConvexOnBox n lb hb f) (hx : InBox n lb hb x) (hy : InBox n lb hb y) (hg : IsGradAt n f g x) :
    sumTo n (fun k => g k * (y k - x k)) ≤ f y - f x := by
  have hd := hg (fun k => y k - x k)
  have hlim := hd.tendsto_slope_zero_right
  refine le_of_tendsto hlim ?_
  filter_upwards [Ioo_mem_nhdsGT (zero_lt_one' ℝ)] with τ hτ
  obtain ⟨h0, h1⟩ := hτ
  have e1 : line x (fun k => y k - x k) (0 + τ) = mix τ y x := by
    funext k; simp only [line, mix]; ring
  have e0 : line x (fun k => y k - x k) 0 = x := by
    funext k; simp only [line]; ring
  simp only [e1, e0, smul_eq_mul]
  have hc := hf y x hy hx τ h0.le h1.le
  rw [inv_mul_le_iff₀ h0]
  nlinarith [hc]

/-- gradient monotonicity: the marginal cost of a cost that is convex over the box is a monotone
operator on the box. -/
theorem grad_monotone (n : ℕ) (lb hb : ℕ → ℝ) (f : (ℕ → ℝ) → ℝ) (g : (ℕ → ℝ) → ℕ → ℝ) (x y : ℕ → ℝ)
    (hf : ConvexOnBox n lb hb f) (hx : InBox n lb hb x) (hy : InBox n lb hb y)
    (hgx : IsGradAt n f (g x) x) (hgy : IsGradAt n f (g y) y) :
    0 ≤ sumTo n (fun k => (g x k - g y k) * (x k - y k)) := by
  have h1 := grad_ineq n lb hb f (g x) x y hf hx hy hgx
  have h2 := grad_ineq n lb hb f (g y) y x hf hy hx hgy
  have e : sumTo n (fun k => (g x k - g y k) * (x k - y k))
      = - (sumTo n (fun k => g x k * (y k - x k)) + sumTo n (fun k => g y k * (x k - y k))) := by
    rw [← sumTo_add, ← sumTo_neg]
    exact sumTo_congr (fun k _ => by ring)
  rw [e]
  linarith

/-- the point at parameter `τ` of the segment from `x` to `y`. -/
def seg (x y : ℕ → ℝ) (τ : ℝ) : ℕ → ℝ := fun k => x k + τ * (y k - x k)

theorem inBox_seg {n : ℕ} {lb hb x y : ℕ → ℝ} (hx : InBox n lb hb x) (hy : InBox n lb hb y) {τ : ℝ}
    (h0 : 0 ≤ τ) (h1 : τ ≤ 1) : InBox n lb hb (seg x y τ) := by
  intro k hk
  obtain ⟨a, b⟩ := hx k hk
  obtain ⟨c, d⟩ := hy k hk
  simp only [seg]
  constructor <;> nlinarith

/-- monotone directional derivative: along the segment from `x` to `y` the derivative of the cost in the
direction `y − x`, `Σ_k g(z_τ) k · (y k − x k)`, is non-decreasing in `τ ∈ [0, 1]`. -/
theorem segment_deriv_monotone (n : ℕ) (lb hb : ℕ → ℝ) (f : (ℕ → ℝ) → ℝ) (g : (ℕ → ℝ) → ℕ → ℝ) (x y : ℕ → ℝ)
    (hf : ConvexOnBox n lb hb f) (hx : InBox n lb hb x) (hy : InBox n lb hb y)
    (σ τ : ℝ) (h0 : 0 ≤ σ) (hστ : σ ≤ τ) (h1 : τ ≤ 1)
    (hgσ : IsGradAt n f (g (seg x y σ)) (seg x y σ)) (hgτ : IsGradAt n f (g (seg x y τ)) (seg x y τ)) :
    sumTo n (fun k => g (seg x y σ) k * (y k - x k)) ≤ sumTo n (fun k => g (seg x y τ) k * (y k - x k)) := by
  have hm := grad_monotone n lb hb f g (seg x y τ) (seg x y σ) hf
    (inBox_seg hx hy (h0.trans hστ) h1) (inBox_seg hx hy h0 (hστ.trans h1)) hgτ hgσ
  have e : sumTo n (fun k => (g (seg x y τ) k - g (seg x y σ) k) * (seg x y τ k - seg x y σ k))
      = (τ - σ) * (sumTo n (fun k => g (seg x y τ) k * (y k - x k))
          - sumTo n (fun k => g (seg x y σ) k * (y k - x k))) := by
    rw [← sumTo_sub, ← sumTo_mul_left]
    exact sumTo_congr (fun k _ => by simp only [seg]; ring)
  rw [e] at hm
  rcases hστ.lt_or_eq with hlt | heq
  · have hpos : 0 < τ - σ := sub_pos.mpr hlt
    have := nonneg_of_mul_nonneg_right hm hpos
    linarith
  · subst heq; exact le_refl _

/-! ## the shipped leaves -/

/-- for every shipped leaf with parameters in the accepted convex region, the reported marginal cost is a
monotone operator over the bounds box (at kink-free flows, where it is the gradient). -/
theorem leaf_deriv_monotone (d : Leaf ℝ) (h : d.ConvexAcc) (p x y : ℕ → ℝ)
    (hx : InBox d.n d.lb d.hb x) (hy : InBox d.n d.lb d.hb y)
    (hkx : C01all.Leaf.NoKink d x) (hky : C01all.Leaf.NoKink d y) :
    0 ≤ sumTo d.n (fun k => (d.deriv x p k - d.deriv y p k) * (x k - y k)) :=
  grad_monotone d.n d.lb d.hb (fun s => d.cost s p) (fun s => d.deriv s p) x y
    (C07tree.leaf_cost_convex d h p) hx hy (C01all.leaf_grad d x p hkx) (C01all.leaf_grad d y p hky)

/-- …and its directional derivative along any in-box segment is non-decreasing. -/
theorem leaf_segment_deriv_monotone (d : Leaf ℝ) (h : d.ConvexAcc) (p x y : ℕ → ℝ)
    (hx : InBox d.n d.lb d.hb x) (hy : InBox d.n d.lb d.hb y)
    (σ τ : ℝ) (h0 : 0 ≤ σ) (hστ : σ ≤ τ) (h1 : τ ≤ 1)
    (hkσ : C01all.Leaf.NoKink d (seg x y σ)) (hkτ : C01all.Leaf.NoKink d (seg x y τ)) :
    sumTo d.n (fun k => d.deriv (seg x y σ) p k * (y k - x k))
      ≤ sumTo d.n (fun k => d.deriv (seg x y τ) p k * (y k - x k)) :=
  segment_deriv_monotone d.n d.lb d.hb (fun s => d.cost s p) (fun s => d.deriv s p) x y
    (C07tree.leaf_cost_convex d h p) hx hy σ τ h0 hστ h1
    (C01all.leaf_grad d _ p hkσ) (C01all.leaf_grad d _ p hkτ)

/-- non-vacuity: an IDevice2 with rising marginal cost on a proper box satisfies every hypothesis of
`leaf_deriv_monotone` at two distinct in-box flows. -/
example : ∃ (d : Leaf ℝ) (x y : ℕ → ℝ), d.ConvexAcc ∧ InBox d.n d.lb d.hb x ∧ InBox d.n d.lb d.hb y
    ∧ C01all.Leaf.NoKink d x ∧ C01all.Leaf.NoKink d y ∧ x 0 ≠ y 0 := by
  refine ⟨⟨2, fun _ => 0, fun _ => 3, [], .idevice2 (fun _ => -2) (fun _ => -1)⟩, fun _ => 1, fun _ => 2, ?_, ?_, ?_, trivial, trivial, ?_⟩
  · exact ⟨fun k _ => by norm_num, fun k _ => by norm_num⟩
  · intro k _; norm_num
  · intro k _; norm_num
  · norm_num

end DK.C07mono

#print axioms DK.C07mono.grad_ineq
#print axioms DK.C07mono.grad_monotone
#print axioms DK.C07mono.segment_deriv_monotone
#print axioms DK.C07mono.leaf_deriv_monotone
#print axioms DK.C07mono.leaf_segment_deriv_monotone
