import DK.Props.Defs
import DK.Props.C09
import Mathlib.Algebra.BigOperators.Intervals
import Mathlib.Tactic.Linarith
/-!
# C03 — leaf bounds + constraints describe exactly the documented feasible flows

The *specification* below is written from the property text and does not mention the model's
constraint-list code (`cboundCons`, `socCons`, … in `DK/Model/Constraints.lean`):

* a cumulative bound `(l, h, s, e)` says `l ≤ Σ_{s ≤ k < min e n} x k ≤ h` (a `Finset` sum over the
  bound's own slot range `[s, e)`, clipped to the horizon as a Python slice is);
* storage says: the *reported* state of charge `chargeAt q x i` (`SDevice.charge_at`, which by
  `C09.chargeAt_zero/succ` follows the documented recurrence) is in `[0, capacity]` after every slot,
  is at least `reserve · capacity` after the last slot, and — when configured — the two rate-clip
  families hold at every slot;
* an `ADevice` adds its user constraints, which are opaque.

Scope of the rate-clip half: the property text only says "plus rate clipping when configured" and
the class docstring gives no formula, so `StorageSpec.clipLo/clipHi` are the *code's own*
expressions (`x i ≥ c·lb i·soc i/capacity`, `x i ≤ c·hb i·(1 − soc i/capacity)`) restated on the
reported state of charge.  For that half the `↔` can therefore only detect a clip constraint that is
dropped, attached to another slot / another slot's bound or state, or mis-scaled *relative to that
expression*; it is not evidence that the expression is the physically intended one.

The theorems say that the exported constraint list holds at `x` **iff** the specification does: for
every horizon `n`, every list of cumulative bounds (any number, contiguous or overlapping, any
limits), all storage parameters, both rate-clip switches, every user-constraint list.  The `↔` is
what rules out a dropped constraint, one applied to other slots, or one given another's limits.

`n = 0`: the code's reserve constraint reads index `len − 1`; a zero-length storage device cannot
evaluate it (Python indexes an empty matrix).  The storage theorems therefore carry `0 < n`
explicitly rather than relying on the totalised `n − 1 = 0` of `ℕ`.
-/
namespace DK.C03
open DK Finset

/-! ## the documented feasible set -/

/-- one cumulative bound: the flow summed over the bound's *own* range is within its *own* limits. -/
def CBoundSpec (n : ℕ) (cb : CBound ℝ) (x : ℕ → ℝ) : Prop :=
  cb.l ≤ ∑ k ∈ Ico cb.s (min cb.e n), x k ∧ ∑ k ∈ Ico cb.s (min cb.e n), x k ≤ cb.h

/-- every cumulative bound of the list holds. -/
def DeviceSpec (n : ℕ) (cbs : List (CBound ℝ)) (x : ℕ → ℝ) : Prop :=
  ∀ cb ∈ cbs, CBoundSpec n cb x

/-- the documented storage constraints, in terms of the reported state of charge `chargeAt`. -/
structure StorageSpec (n : ℕ) (q : SParams ℝ) (lb hb : ℕ → ℝ) (clipLo clipHi : Option ℝ)
    (x : ℕ → ℝ) : Prop where
  /-- state of charge within `[0, capacity]` after every slot -/
  within : ∀ i < n, 0 ≤ chargeAt q x i ∧ chargeAt q x i ≤ q.capacity
  /-- at least `reserve × capacity` after the last slot -/
  reserve : q.reserve * q.capacity ≤ chargeAt q x (n - 1)
  /-- discharge-rate clipping, when configured -/
  clipLo : ∀ c, clipLo = some c → ∀ i < n, c * lb i * (chargeAt q x i / q.capacity) ≤ x i
  /-- charge-rate clipping, when configured -/
  clipHi : ∀ c, clipHi = some c → ∀ i < n, x i ≤ c * hb i * (1 - chargeAt q x i / q.capacity)

/-- the documented state-of-charge recurrence written out (first-order, from `start·capacity`). -/
noncomputable def socRec (q : SParams ℝ) (x : ℕ → ℝ) : ℕ → ℝ
  | 0 => q.sustainment * (q.start * q.capacity) + x 0 * effPow q.efficiency (x 0)
  | i + 1 => q.sustainment * socRec q x i + x (i + 1) * effPow q.efficiency (x (i + 1))

/-- the reported state is the recurrence (so `StorageSpec` may be read with `socRec`). -/
theorem chargeAt_eq_socRec (q : SParams ℝ) (x : ℕ → ℝ) (i : ℕ) : chargeAt q x i = socRec q x i := by
  induction i with
  | zero => exact C09.chargeAt_zero q x
  | succ i ih => rw [C09.chargeAt_succ, ih]; rfl

/-- the feasible set of a whole leaf: per-slot bounds, cumulative bounds, and what the class adds. -/
def LeafSpec (d : Leaf ℝ) (clipLo clipHi : Option ℝ) (extra : List (Con ℝ)) (x : ℕ → ℝ) : Prop :=
  InBox d.n d.lb d.hb x ∧ DeviceSpec d.n d.cbs x ∧
    match d.kind with
    | .sdevice q => StorageSpec d.n q d.lb d.hb clipLo clipHi x
    | .adevice _ => ∀ u ∈ extra, u.Sat x
    | _ => True

/-! ## Device (and every class that only inherits `Device.constraints`) -/

theorem sliceSum_eq (n s e : ℕ) (x : ℕ → ℝ) : sliceSum n s e x = ∑ k ∈ Ico s (min e n), x k := by
  unfold sliceSum; exact sumRange_eq_sum _ _ _

/-- the two closures built for one cumulative bound hold iff the bound's documented meaning does. -/
theorem cbound_sat_iff (n : ℕ) (cb : CBound ℝ) (x : ℕ → ℝ) :
    (∀ c ∈ cboundCons n cb, c.Sat x) ↔ CBoundSpec n cb x := by
  simp only [cboundCons, List.forall_mem_cons, List.not_mem_nil, Con.Sat, CBoundSpec, sliceSum_eq]
  constructor
  · rintro ⟨h1, h2, -⟩
    simp only [Bool.false_eq_true, if_false] at h1 h2
    exact ⟨by linarith, by linarith⟩
  · rintro ⟨h1, h2⟩
    simp only [Bool.false_eq_true, if_false]
    exact ⟨by linarith, by linarith, fun _ h => absurd h (by simp)⟩

/-- **Device**: any list of cumulative bounds, any horizon. Induction on the list. -/
theorem feasible_iff_spec_device (n : ℕ) (cbs : List (CBound ℝ)) (x : ℕ → ℝ) :
    (∀ c ∈ deviceCons n cbs, c.Sat x) ↔ DeviceSpec n cbs x := by
  unfold DeviceSpec deviceCons
  induction cbs with
  | nil => simp
  | cons cb cbs ih =>
    rw [List.flatMap_cons, List.forall_mem_append, List.forall_mem_cons, ih, cbound_sat_iff]

/-- the model emits exactly two constraints per cumulative bound (none dropped, none added). -/
theorem deviceCons_length (n : ℕ) (cbs : List (CBound ℝ)) : (deviceCons n cbs).length = 2 * cbs.length := by
  unfold deviceCons
  induction cbs with
  | nil => rfl
  | cons cb cbs ih => rw [List.flatMap_cons, List.length_append, ih, List.length_cons]; simp [cboundCons]; ring

/-- non-vacuity and discrimination: two *overlapping* ranges with *different* limits on 3 slots; the
flow `(1, 1, 1)` is feasible, `(1, 1, 3)` violates only the second bound's upper limit. -/
def exCbs : List (CBound ℝ) := [⟨1, 4, 0, 2⟩, ⟨0, 3, 1, 3⟩]

example : DeviceSpec 3 exCbs (fun _ => 1) := by
  intro cb hcb
  simp only [exCbs, List.mem_cons, List.not_mem_nil, or_false] at hcb
  rcases hcb with rfl | rfl
  · refine ⟨?_, ?_⟩ <;> norm_num [CBoundSpec, Finset.sum_Ico_eq_sum_range, Finset.sum_range_succ]
  · refine ⟨?_, ?_⟩ <;> norm_num [CBoundSpec, Finset.sum_Ico_eq_sum_range, Finset.sum_range_succ]

example : ¬ DeviceSpec 3 exCbs (fun k => if k = 2 then 3 else 1) := by
  intro h
  have := (h ⟨0, 3, 1, 3⟩ (by simp [exCbs])).2
  norm_num [Finset.sum_Ico_eq_sum_range, Finset.sum_range_succ] at this

/-! ## storage -/

theorem socCons_sat_iff (n : ℕ) (q : SParams ℝ) (x : ℕ → ℝ) (i : ℕ) (hi : i < n) :
    (∀ c ∈ socCons n q i, c.Sat x) ↔ (0 ≤ chargeAt q x i ∧ chargeAt q x i ≤ q.capacity) := by
  simp only [socCons, List.forall_mem_cons, List.not_mem_nil, Con.Sat, Bool.false_eq_true, if_false,
    C09.socDot_eq_chargeAt n q x i hi]
  constructor
  · rintro ⟨h1, h2, -⟩; exact ⟨h1, by linarith⟩
  · rintro ⟨h1, h2⟩; exact ⟨h1, by linarith, fun _ h => absurd h (by simp)⟩

theorem forall_range_flatMap {β : Type} (n : ℕ) (f : ℕ → List β) (P : β → Prop) :
    (∀ c ∈ (List.range n).flatMap f, P c) ↔ ∀ i < n, ∀ c ∈ f i, P c := by
  simp only [List.mem_flatMap, List.mem_range]
  constructor
  · intro h i hi c hc; exact h c ⟨i, hi, hc⟩
  · rintro h c ⟨i, hi, hc⟩; exact h i hi c hc

theorem forall_range_map {β : Type} (n : ℕ) (f : ℕ → β) (P : β → Prop) :
    (∀ c ∈ (List.range n).map f, P c) ↔ ∀ i < n, P (f i) := by
  simp only [List.mem_map, List.mem_range]
  constructor
  · intro h i hi; exact h _ ⟨i, hi, rfl⟩
  · rintro h c ⟨i, hi, rfl⟩; exact h i hi

theorem clipLo_sat_iff (n : ℕ) (q : SParams ℝ) (lb x : ℕ → ℝ) (c : ℝ) (i : ℕ) (hi : i < n) :
    (clipLoCon n q lb c i).Sat x ↔ c * lb i * (chargeAt q x i / q.capacity) ≤ x i := by
  simp only [clipLoCon, Con.Sat, Bool.false_eq_true, if_false, C09.socDot_eq_chargeAt n q x i hi]
  constructor <;> intro h <;> linarith

theorem clipHi_sat_iff (n : ℕ) (q : SParams ℝ) (hb x : ℕ → ℝ) (c : ℝ) (i : ℕ) (hi : i < n) :
    (clipHiCon n q hb c i).Sat x ↔ x i ≤ c * hb i * (1 - chargeAt q x i / q.capacity) := by
  simp only [clipHiCon, Con.Sat, Bool.false_eq_true, if_false, C09.socDot_eq_chargeAt n q x i hi]
  constructor <;> intro h <;> linarith

theorem reserve_sat_iff (n : ℕ) (hn : 0 < n) (q : SParams ℝ) (x : ℕ → ℝ) :
    (reserveCon n q).Sat x ↔ q.reserve * q.capacity ≤ chargeAt q x (n - 1) := by
  simp only [reserveCon, Con.Sat, Bool.false_eq_true, if_false,
    C09.socDot_eq_chargeAt n q x (n - 1) (by omega)]
  constructor <;> intro h <;> linarith

theorem storageSpec_iff (n : ℕ) (q : SParams ℝ) (lb hb : ℕ → ℝ) (clipLo clipHi : Option ℝ) (x : ℕ → ℝ) :
    StorageSpec n q lb hb clipLo clipHi x ↔
      ((∀ i < n, 0 ≤ chargeAt q x i ∧ chargeAt q x i ≤ q.capacity) ∧
       q.reserve * q.capacity ≤ chargeAt q x (n - 1) ∧
       (∀ c, clipLo = some c → ∀ i < n, c * lb i * (chargeAt q x i / q.capacity) ≤ x i) ∧
       (∀ c, clipHi = some c → ∀ i < n, x i ≤ c * hb i * (1 - chargeAt q x i / q.capacity))) :=
  ⟨fun ⟨a, b, c, d⟩ => ⟨a, b, c, d⟩, fun ⟨a, b, c, d⟩ => ⟨a, b, c, d⟩⟩

/-- **SDevice**: cumulative bounds ∧ documented storage constraints, stated on the reported state of
charge; every horizon `n ≥ 1`, both rate-clip switches independently on or off. -/
theorem feasible_iff_spec_sdevice (n : ℕ) (hn : 0 < n) (cbs : List (CBound ℝ)) (q : SParams ℝ)
    (lb hb : ℕ → ℝ) (clipLo clipHi : Option ℝ) (x : ℕ → ℝ) :
    (∀ c ∈ sdeviceCons n cbs q lb hb clipLo clipHi, c.Sat x) ↔
      (DeviceSpec n cbs x ∧ StorageSpec n q lb hb clipLo clipHi x) := by
  unfold sdeviceCons
  have hsoc : (∀ c ∈ (List.range n).flatMap (socCons n q), c.Sat x) ↔
      ∀ i < n, 0 ≤ chargeAt q x i ∧ chargeAt q x i ≤ q.capacity := by
    rw [forall_range_flatMap]
    exact forall_congr' fun i => forall_congr' fun hi => socCons_sat_iff n q x i hi
  have hlo : ∀ c0, (∀ c ∈ (List.range n).map (clipLoCon n q lb c0), c.Sat x) ↔
      ∀ i < n, c0 * lb i * (chargeAt q x i / q.capacity) ≤ x i := fun c0 => by
    rw [forall_range_map]
    exact forall_congr' fun i => forall_congr' fun hi => clipLo_sat_iff n q lb x c0 i hi
  have hhi : ∀ c0, (∀ c ∈ (List.range n).map (clipHiCon n q hb c0), c.Sat x) ↔
      ∀ i < n, x i ≤ c0 * hb i * (1 - chargeAt q x i / q.capacity) := fun c0 => by
    rw [forall_range_map]
    exact forall_congr' fun i => forall_congr' fun hi => clipHi_sat_iff n q hb x c0 i hi
  rw [storageSpec_iff]
  cases clipLo <;> cases clipHi <;>
    simp only [List.forall_mem_append, feasible_iff_spec_device, List.forall_mem_cons,
      List.not_mem_nil, reserve_sat_iff n hn, hsoc, hlo, hhi, List.append_nil,
      Option.some.injEq, forall_eq', reduceCtorEq, false_imp_iff, implies_true] <;>
    tauto

/-- the same with the state of charge spelled out as the documented recurrence. -/
theorem feasible_iff_spec_sdevice_rec (n : ℕ) (hn : 0 < n) (cbs : List (CBound ℝ)) (q : SParams ℝ)
    (lb hb : ℕ → ℝ) (clipLo clipHi : Option ℝ) (x : ℕ → ℝ) :
    (∀ c ∈ sdeviceCons n cbs q lb hb clipLo clipHi, c.Sat x) ↔
      (DeviceSpec n cbs x ∧
        (∀ i < n, 0 ≤ socRec q x i ∧ socRec q x i ≤ q.capacity) ∧
        q.reserve * q.capacity ≤ socRec q x (n - 1) ∧
        (∀ c, clipLo = some c → ∀ i < n, c * lb i * (socRec q x i / q.capacity) ≤ x i) ∧
        (∀ c, clipHi = some c → ∀ i < n, x i ≤ c * hb i * (1 - socRec q x i / q.capacity))) := by
  rw [feasible_iff_spec_sdevice n hn]
  simp only [← chargeAt_eq_socRec]
  constructor
  · rintro ⟨hd, ⟨hw, hr, hl, hh⟩⟩; exact ⟨hd, hw, hr, hl, hh⟩
  · rintro ⟨hd, hw, hr, hl, hh⟩; exact ⟨hd, ⟨hw, hr, hl, hh⟩⟩

/-- non-vacuity and discrimination for storage: capacity 4, half full, reserve 1/4, lossless;
`(1, −1)` is feasible, `(2, 1)` overfills after the second slot. -/
noncomputable def exQ : SParams ℝ :=
  { c1 := 1, c2 := 0, c3 := 0, capacity := 4, damageDepth := 0, start := 1/2, reserve := 1/4,
    efficiency := 1, sustainment := 1 }

example : ∀ c ∈ sdeviceCons 2 [] exQ (fun _ => -2) (fun _ => 2) none none,
    c.Sat (fun k => if k = 0 then 1 else -1) := by
  rw [feasible_iff_spec_sdevice_rec 2 (by omega)]
  refine ⟨fun cb h => by simp at h, ?_, ?_, by simp, by simp⟩
  · intro i hi
    have : i = 0 ∨ i = 1 := by omega
    rcases this with rfl | rfl <;> norm_num [socRec, exQ, effPow]
  · norm_num [socRec, exQ, effPow]

example : ¬ ∀ c ∈ sdeviceCons 2 [] exQ (fun _ => -2) (fun _ => 2) none none,
    c.Sat (fun k => if k = 0 then 2 else 1) := by
  rw [feasible_iff_spec_sdevice_rec 2 (by omega)]
  rintro ⟨-, hw, -⟩
  have := (hw 1 (by omega)).2
  norm_num [socRec, exQ, effPow] at this

/-! ## ADevice and the closed sum of shipped leaves -/

/-- **ADevice**: base constraints ∧ every user constraint (user constraints are opaque). -/
theorem feasible_iff_spec_adevice (n : ℕ) (cbs : List (CBound ℝ)) (extra : List (Con ℝ)) (x : ℕ → ℝ) :
    (∀ c ∈ deviceCons n cbs ++ extra, c.Sat x) ↔ (DeviceSpec n cbs x ∧ ∀ u ∈ extra, u.Sat x) := by
  rw [List.forall_mem_append, feasible_iff_spec_device]

/-- **every shipped atomic class**: the exported bounds and constraint list hold iff the documented
hard constraints do.  (`hn`: a storage device has at least one slot.) -/
theorem feasible_iff_spec_leaf (d : Leaf ℝ) (hn : ∀ q, d.kind = .sdevice q → 0 < d.n)
    (clipLo clipHi : Option ℝ) (extra : List (Con ℝ)) (x : ℕ → ℝ) :
    (InBox d.n d.lb d.hb x ∧ ∀ c ∈ d.cons clipLo clipHi extra, c.Sat x) ↔
      LeafSpec d clipLo clipHi extra x := by
  unfold LeafSpec Leaf.cons
  cases hk : d.kind with
  | sdevice q =>
    simp only [feasible_iff_spec_sdevice d.n (hn q hk)]
  | adevice f =>
    simp only [feasible_iff_spec_adevice]
  | _ => simp only [feasible_iff_spec_device, and_true]

example : ∃ d : Leaf ℝ, (∀ q, d.kind = .sdevice q → 0 < d.n) ∧ ∃ q, d.kind = .sdevice q :=
  ⟨{ n := 2, lb := fun _ => -2, hb := fun _ => 2, cbs := [], kind := .sdevice exQ },
   fun _ _ => by decide, exQ, rfl⟩

theorem length_flatMap_const {β γ : Type} (l : List β) (f : β → List γ) (k : ℕ)
    (h : ∀ a, (f a).length = k) : (l.flatMap f).length = k * l.length := by
  induction l with
  | nil => simp
  | cons a l ih => rw [List.flatMap_cons, List.length_append, h, ih, List.length_cons]; ring

/-- the model emits `2·|cbs| + 2n + (n if clipLo) + (n if clipHi) + 1` storage constraints. -/
theorem sdeviceCons_length (n : ℕ) (cbs : List (CBound ℝ)) (q : SParams ℝ) (lb hb : ℕ → ℝ)
    (clipLo clipHi : Option ℝ) :
    (sdeviceCons n cbs q lb hb clipLo clipHi).length =
      2 * cbs.length + 2 * n + (if clipLo.isSome then n else 0) + (if clipHi.isSome then n else 0) + 1 := by
  unfold sdeviceCons
  simp only [List.length_append, deviceCons_length, List.length_cons, List.length_nil,
    length_flatMap_const (List.range n) (socCons n q) 2 (fun _ => rfl), List.length_range]
  cases clipLo <;> cases clipHi <;> simp

end DK.C03

#print axioms DK.C03.feasible_iff_spec_device
#print axioms DK.C03.feasible_iff_spec_sdevice
#print axioms DK.C03.feasible_iff_spec_sdevice_rec
#print axioms DK.C03.feasible_iff_spec_adevice
#print axioms DK.C03.feasible_iff_spec_leaf
#print axioms DK.C03.chargeAt_eq_socRec
#print axioms DK.C03.deviceCons_length
#print axioms DK.C03.sdeviceCons_length
