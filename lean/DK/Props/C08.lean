import DK.Props.Defs
import DK.Lemmas.Sum
import DK.Lemmas.TreeLemmas
import Mathlib.Analysis.SpecialFunctions.Pow.Real
import Mathlib.Tactic.Ring
import Mathlib.Tactic.Linarith
/-!
# C08 — cost is quasi-linear in price; price broadcasting is consistent

For every shipped class, for the closed sum `Leaf ℝ`, for the multi-flow adaptor and — by mutual
induction over `Tree` / `List Tree` — for every tree:

* `cost s p = cost s 0 + Σ_k s k · p k`
* `deriv s p i = deriv s 0 i + p i`
* the Hessian does not depend on the price.

**`hess_indep` is true by definition of the model**: none of the model's Hessians (`idev2Hess`,
`idevHess`, `gdevHess`, `cdev2Hess`, `Fn.hess`, `Leaf.hess`) takes a price argument at all, although
every `hess(s, p=0)` of the implementation does.  That the implementation really ignores `p` is
therefore *not* a theorem here: it is observed by T2 (`leaf.hess` compared with `hess(s, p)` at
non-zero `p`) and by the oracle (`hess(s, p) == hess(s, 0)`), see `vk/props/c08.py`.

Nothing below has a hypothesis on flows, prices (any sign), bounds, parameters or the horizon: the
identities are pure algebra, they hold out of bounds and for rejected parameters too.  The only
hypotheses are `Block.QuasiLinear` for the *abstract* blocks of a tree (discharged for the two
shipped block kinds) and `r < rows` / `i < n` where an index is read.

Price broadcasting (`p*np.ones(self.shape)`, deviceset.py:55-75): `Price.toMat`.  The equalities
`scalar c ≡ mat (const c)`, `vec v ≡ mat (rows = v)` are `rfl` in the model — the real content of
broadcasting is numpy's and is covered by T2/the oracle with the three shapes; what *is* proved is
that row slicing commutes with broadcasting (`shiftRows_scalar`, `shiftRows_vec`: every child, at
every depth, sees the same scalar / per-slot vector) and the resulting closed forms.

**Definitional obligations.**  The following listed theorems are `rfl` (or `simp` on a one-line
definition): they record how the model is *defined* and carry no content beyond it — they are kept
so that a change of the definitions that breaks them is noticed, not as evidence for the property:
`hess_indep`, `cost_scalar_eq_mat`, `cost_vec_eq_mat`, `deriv_scalar_eq_mat`, `deriv_vec_eq_mat`,
`cost_scalar_eq_vec`, `ofMF_cost`, `adevice_cost`, `adevice_deriv` (the `ADevice` branch of `Leaf.cost` /
`Leaf.deriv` is literally `f.eval + priceTerm` / `f.deriv + p`), `device_deriv`, `cdevice_deriv`.
The theorems with content are `leaf_cost`, `leaf_deriv` (case analysis over all nine kinds; `gdevice` /
`sdevice` add `s·p` inside the per-slot sum), `ofLeaf_quasiLinear`, `ofMF_quasiLinear`, `tree_cost`,
`tree_deriv` (mutual induction), `shiftRows_scalar/vec`, `tree_cost_scalar`, `tree_cost_vec`.
-/
namespace DK.C08
open DK
noncomputable section

/-- the zero price vector / matrix. -/
abbrev zeroV : ℕ → ℝ := fun _ => 0
abbrev zeroM : Mat ℝ := fun _ _ => 0

theorem priceTerm_zero (n : ℕ) (s : ℕ → ℝ) : priceTerm n s zeroV = 0 := by
  unfold priceTerm
  rw [sumTo_congr (g := fun _ => (0 : ℝ)) (fun k _ => by simp)]
  simp

/-! ## per class: cost -/

theorem device_cost (n : ℕ) (s p : ℕ → ℝ) :
    deviceCost n s p = deviceCost n s zeroV + priceTerm n s p := by
  simp only [deviceCost, priceTerm_zero, zero_add]

theorem cdevice_cost (n : ℕ) (a b : ℝ) (s p : ℕ → ℝ) :
    cdevCost n a b s p = cdevCost n a b s zeroV + priceTerm n s p := by
  simp only [cdevCost, priceTerm_zero, add_zero]

theorem cdevice2_cost (n : ℕ) (pl ph : ℝ) (cbs : List (CBound ℝ)) (s p : ℕ → ℝ) :
    cdev2Cost n pl ph cbs s p = cdev2Cost n pl ph cbs s zeroV + priceTerm n s p := by
  simp only [cdev2Cost, priceTerm_zero, add_zero]

/-- generic in the exponent type and the power operation (`Int`/`ipow` in the executable model,
`ℝ`/`Real.rpow` for non-integer exponents). -/
theorem idevice_cost {ε : Type} [Sub ε] [OfNat ε 1] [OfNat ε 2] (pow : ℝ → ε → ℝ) (n : ℕ)
    (a : ℕ → ℝ) (b : ℕ → ε) (c lb hb s p : ℕ → ℝ) :
    idevCost pow n a b c lb hb s p = idevCost pow n a b c lb hb s zeroV + priceTerm n s p := by
  simp only [idevCost, priceTerm_zero, add_zero]

/-- the instance with real exponents. -/
example (n : ℕ) (a b c lb hb s p : ℕ → ℝ) :
    idevCost Real.rpow n a b c lb hb s p = idevCost Real.rpow n a b c lb hb s zeroV + priceTerm n s p :=
  idevice_cost Real.rpow n a b c lb hb s p

theorem idevice2_cost (n : ℕ) (pl ph lb hb s p : ℕ → ℝ) :
    idev2Cost n pl ph lb hb s p = idev2Cost n pl ph lb hb s zeroV + priceTerm n s p := by
  simp only [idev2Cost, priceTerm_zero, add_zero]

/-- here the code adds `s*p` *inside* the per-slot vector (`costv`) before summing. -/
theorem gdevice_cost (n : ℕ) (cs : ℕ → List ℝ) (s p : ℕ → ℝ) :
    gdevCost n cs s p = gdevCost n cs s zeroV + priceTerm n s p := by
  unfold gdevCost priceTerm
  rw [sumTo_add, sumTo_add]
  have h0 : sumTo n (fun k => s k * zeroV k) = 0 := priceTerm_zero n s
  rw [h0]; ring

theorem sdevice_cost (n : ℕ) (q : SParams ℝ) (s p : ℕ → ℝ) :
    sdevCost n q s p = sdevCost n q s zeroV + priceTerm n s p := by
  unfold sdevCost priceTerm
  rw [sumTo_add, sumTo_add]
  have h0 : sumTo n (fun k => s k * zeroV k) = 0 := priceTerm_zero n s
  rw [h0]; ring

theorem tdevice_cost (n : ℕ) (q : TParams ℝ) (s p : ℕ → ℝ) :
    tdevCost n q s p = tdevCost n q s zeroV + priceTerm n s p := by
  simp only [tdevCost, priceTerm_zero, add_zero]

/-- `ADevice` with any preference function built from the shipped combinators. -/
theorem adevice_cost (f : Fn ℝ) (n : ℕ) (s p : ℕ → ℝ) :
    f.eval n s + priceTerm n s p = (f.eval n s + priceTerm n s zeroV) + priceTerm n s p := by
  simp only [priceTerm_zero, add_zero]

/-! ## per class: marginal cost -/

theorem device_deriv (p : ℕ → ℝ) (i : ℕ) : deviceDeriv p i = deviceDeriv zeroV i + p i := by
  simp [deviceDeriv]

theorem cdevice_deriv (a : ℝ) (p : ℕ → ℝ) (i : ℕ) : cdevDeriv a p i = cdevDeriv a zeroV i + p i := by
  simp [cdevDeriv]

theorem cdevice2_deriv (n : ℕ) (pl ph : ℝ) (cbs : List (CBound ℝ)) (s p : ℕ → ℝ) (i : ℕ) :
    cdev2Deriv n pl ph cbs s p i = cdev2Deriv n pl ph cbs s zeroV i + p i := by
  simp [cdev2Deriv]

theorem idevice_deriv {ε : Type} [Sub ε] [OfNat ε 1] [OfNat ε 2] (pow : ℝ → ε → ℝ) (cast : ε → ℝ)
    (a : ℕ → ℝ) (b : ℕ → ε) (c lb hb s p : ℕ → ℝ) (i : ℕ) :
    idevDeriv pow cast a b c lb hb s p i = idevDeriv pow cast a b c lb hb s zeroV i + p i := by
  simp [idevDeriv]

theorem idevice2_deriv (pl ph lb hb s p : ℕ → ℝ) (i : ℕ) :
    idev2Deriv pl ph lb hb s p i = idev2Deriv pl ph lb hb s zeroV i + p i := by
  simp [idev2Deriv]

theorem gdevice_deriv (cs : ℕ → List ℝ) (s p : ℕ → ℝ) (i : ℕ) :
    gdevDeriv cs s p i = gdevDeriv cs s zeroV i + p i := by
  simp only [gdevDeriv]; ring

theorem sdevice_deriv (n : ℕ) (q : SParams ℝ) (s p : ℕ → ℝ) (j : ℕ) :
    sdevDeriv n q s p j = sdevDeriv n q s zeroV j + p j := by
  simp [sdevDeriv]

theorem tdevice_deriv (n : ℕ) (q : TParams ℝ) (s p : ℕ → ℝ) (j : ℕ) :
    tdevDeriv n q s p j = tdevDeriv n q s zeroV j + p j := by
  simp [tdevDeriv]

theorem adevice_deriv (f : Fn ℝ) (n : ℕ) (s p : ℕ → ℝ) (i : ℕ) :
    f.deriv n s i + p i = (f.deriv n s i + zeroV i) + p i := by
  simp

/-! ## the closed sum of shipped leaves -/

/-- **C08, atomic devices, cost.** -/
theorem leaf_cost (d : Leaf ℝ) (s p : ℕ → ℝ) :
    d.cost s p = d.cost s zeroV + sumTo d.n (fun k => s k * p k) := by
  obtain ⟨n, lb, hb, cbs, kind⟩ := d
  show _ = _ + priceTerm n s p
  cases kind with
  | device => exact device_cost n s p
  | cdevice a b => exact cdevice_cost n a b s p
  | cdevice2 pl ph => exact cdevice2_cost n pl ph cbs s p
  | idevice a b c => exact idevice_cost ipow n a b c lb hb s p
  | idevice2 pl ph => exact idevice2_cost n pl ph lb hb s p
  | gdevice cs => exact gdevice_cost n cs s p
  | sdevice q => exact sdevice_cost n q s p
  | tdevice q => exact tdevice_cost n q s p
  | adevice f => exact adevice_cost f n s p

/-- **C08, atomic devices, marginal cost** (every index, also `i ≥ n`). -/
theorem leaf_deriv (d : Leaf ℝ) (s p : ℕ → ℝ) (i : ℕ) :
    d.deriv s p i = d.deriv s zeroV i + p i := by
  obtain ⟨n, lb, hb, cbs, kind⟩ := d
  cases kind with
  | device => exact device_deriv p i
  | cdevice a b => exact cdevice_deriv a p i
  | cdevice2 pl ph => exact cdevice2_deriv n pl ph cbs s p i
  | idevice a b c => exact idevice_deriv ipow intCast' a b c lb hb s p i
  | idevice2 pl ph => exact idevice2_deriv pl ph lb hb s p i
  | gdevice cs => exact gdevice_deriv cs s p i
  | sdevice q => exact sdevice_deriv n q s p i
  | tdevice q => exact tdevice_deriv n q s p i
  | adevice f => exact adevice_deriv f n s p i

/-- the Hessian "at price `p`", with the implementation's signature `hess(s, p)`. -/
def Leaf.hessAt (d : Leaf ℝ) (s _p : ℕ → ℝ) (i j : ℕ) : Option ℝ := d.hess s i j

/-- **by definition**: the model's Hessians have no price argument (see the header). -/
theorem hess_indep (d : Leaf ℝ) (s p : ℕ → ℝ) (i j : ℕ) :
    Leaf.hessAt d s p i j = Leaf.hessAt d s zeroV i j := rfl

/-- consequence used by price-decomposition callers: the cost difference between two prices is
linear in the price difference and does not depend on the class. -/
theorem leaf_cost_two_prices (d : Leaf ℝ) (s p p' : ℕ → ℝ) :
    d.cost s p - d.cost s p' = sumTo d.n (fun k => s k * (p k - p' k)) := by
  rw [leaf_cost d s p, leaf_cost d s p']
  have : sumTo d.n (fun k => s k * (p k - p' k))
      = sumTo d.n (fun k => s k * p k) - sumTo d.n (fun k => s k * p' k) := by
    rw [← sumTo_sub]; exact sumTo_congr (fun k _ => by ring)
  rw [this]; ring

/-! ## blocks -/

/-- the double sum `Σ_{r<R} Σ_{i<n} S r i · P r i` (`(s*p).sum()` over an `R × n` block). -/
def priceTermM (R n : ℕ) (S P : Mat ℝ) : ℝ := sumTo R (fun r => sumTo n (fun i => S r i * P r i))

theorem priceTermM_zero (R n : ℕ) (S : Mat ℝ) : priceTermM R n S zeroM = 0 := by
  unfold priceTermM
  rw [sumTo_congr (g := fun _ => (0 : ℝ)) (fun r _ => by
    rw [sumTo_congr (g := fun _ => (0 : ℝ)) (fun i _ => by simp)]; simp)]
  simp

/-- a block whose cost reads the price only through `Σ S·P` over its own rows and the first `n`
slots, and whose marginal cost is the price-free one plus the price. -/
def Block.QuasiLinear (n : ℕ) (b : Block ℝ) : Prop :=
  (∀ S P : Mat ℝ, b.cost S P = b.cost S zeroM + priceTermM b.rows n S P) ∧
  (∀ (S P : Mat ℝ) (r i : ℕ), r < b.rows → b.deriv S P r i = b.deriv S zeroM r i + P r i)

/-- an atomic device in a tree. -/
theorem ofLeaf_quasiLinear (id : String) (d : Leaf ℝ) (cons : List (Con ℝ)) :
    Block.QuasiLinear d.n (Block.ofLeaf id d cons) := by
  constructor
  · intro S P
    show d.cost (S 0) (P 0) = d.cost (S 0) zeroV + priceTermM 1 d.n S P
    rw [leaf_cost d (S 0) (P 0)]
    simp [priceTermM, sumTo]
  · intro S P r i hr
    have h0 : r = 0 := by
      have : r < 1 := hr
      omega
    subst h0
    exact leaf_deriv d (S 0) (P 0) i

/-- a multi-flow adaptor (`MFDeviceSet`, `TwoRatioMFDeviceSet`): mfdeviceset.py:47-53 pass price `0`
to the wrapped device and add `(s*p).sum()` over all conduits. -/
theorem ofMF_quasiLinear (id : String) (d : Leaf ℝ) (cons : List (Con ℝ)) (flows : List String)
    (ratio : Option (Bool × ℝ × ℝ)) :
    Block.QuasiLinear d.n (Block.ofMF id d cons flows ratio) := by
  constructor
  · intro S P
    show d.cost (colSum flows.length S) zeroV + priceTermM flows.length d.n S P
      = (d.cost (colSum flows.length S) zeroV + priceTermM flows.length d.n S zeroM)
        + priceTermM flows.length d.n S P
    rw [priceTermM_zero]; ring
  · intro S P r i _
    show d.deriv (colSum flows.length S) zeroV i + P r i
      = (d.deriv (colSum flows.length S) zeroV i + zeroM r i) + P r i
    simp

/-- in terms of the wrapped device alone: the adaptor's cost is the device's price-free cost of the
summed conduits plus the price term over every conduit row. -/
theorem ofMF_cost (id : String) (d : Leaf ℝ) (cons : List (Con ℝ)) (flows : List String)
    (ratio : Option (Bool × ℝ × ℝ)) (S P : Mat ℝ) :
    (Block.ofMF id d cons flows ratio).cost S P
      = d.cost (colSum flows.length S) zeroV + priceTermM flows.length d.n S P := rfl

/-! ## trees -/

theorem shiftRows_zeroM (k : ℕ) : shiftRows k zeroM = zeroM := rfl

theorem priceTermM_split (a b n : ℕ) (S P : Mat ℝ) :
    priceTermM (a + b) n S P = priceTermM a n S P + priceTermM b n (shiftRows a S) (shiftRows a P) := by
  unfold priceTermM
  rw [sumTo_split (a + b) a (Nat.le_add_right a b)]
  simp [shiftRows]

mutual
theorem Tree.cost_ql_gen (n : ℕ) (pre : String) (off : ℕ) :
    (t : Tree ℝ) → (∀ x ∈ t.blocks pre off, Block.QuasiLinear n x.2.2) → ∀ S P : Mat ℝ,
      t.cost S P = t.cost S zeroM + priceTermM t.rows n S P
  | .block b, h, S, P => by
    simp only [Tree.cost, Tree.rows]
    exact (h (pre, off, b) (by simp [Tree.blocks])).1 S P
  | .node id own cs, h, S, P => by
    simp only [Tree.cost, Tree.rows]
    exact costL_ql_gen n (pre ++ id ++ ".") off cs (by simpa [Tree.blocks] using h) S P
theorem costL_ql_gen (n : ℕ) (pre : String) (off : ℕ) :
    (ts : List (Tree ℝ)) → (∀ x ∈ blocksL ts pre off, Block.QuasiLinear n x.2.2) → ∀ S P : Mat ℝ,
      costL ts S P = costL ts S zeroM + priceTermM (rowsL ts) n S P
  | [], _, S, P => by simp [costL, rowsL, priceTermM, sumTo]
  | t :: ts, h, S, P => by
    simp only [costL, rowsL, shiftRows_zeroM]
    rw [Tree.cost_ql_gen n pre off t (fun x hx => h x (by simp [blocksL, hx])) S P,
      costL_ql_gen n pre (off + t.rows) ts (fun x hx => h x (by simp [blocksL, hx]))
        (shiftRows t.rows S) (shiftRows t.rows P),
      priceTermM_split]
    ring
end

mutual
theorem Tree.deriv_ql_gen (n : ℕ) (pre : String) (off : ℕ) :
    (t : Tree ℝ) → (∀ x ∈ t.blocks pre off, Block.QuasiLinear n x.2.2) → ∀ (S P : Mat ℝ) (r i : ℕ),
      r < t.rows → t.deriv S P r i = t.deriv S zeroM r i + P r i
  | .block b, h, S, P, r, i, hr => by
    simp only [Tree.deriv]
    exact (h (pre, off, b) (by simp [Tree.blocks])).2 S P r i (by simpa [Tree.rows] using hr)
  | .node id own cs, h, S, P, r, i, hr => by
    simp only [Tree.deriv]
    exact derivL_ql_gen n (pre ++ id ++ ".") off cs (by simpa [Tree.blocks] using h) S P r i
      (by simpa [Tree.rows] using hr)
theorem derivL_ql_gen (n : ℕ) (pre : String) (off : ℕ) :
    (ts : List (Tree ℝ)) → (∀ x ∈ blocksL ts pre off, Block.QuasiLinear n x.2.2) → ∀ (S P : Mat ℝ) (r i : ℕ),
      r < rowsL ts → derivL ts S P r i = derivL ts S zeroM r i + P r i
  | [], _, S, P, r, i, hr => by simp [rowsL] at hr
  | t :: ts, h, S, P, r, i, hr => by
    simp only [derivL, shiftRows_zeroM]
    by_cases hlt : r < t.rows
    · simp only [hlt, if_true]
      exact Tree.deriv_ql_gen n pre off t (fun x hx => h x (by simp [blocksL, hx])) S P r i hlt
    · simp only [hlt, if_false]
      have hr' : r - t.rows < rowsL ts := by simp only [rowsL] at hr; omega
      rw [derivL_ql_gen n pre (off + t.rows) ts (fun x hx => h x (by simp [blocksL, hx]))
        (shiftRows t.rows S) (shiftRows t.rows P) (r - t.rows) i hr']
      have : t.rows + (r - t.rows) = r := by omega
      simp [shiftRows, this]
end

/-- every block of the tree is quasi-linear for horizon `n`. -/
def AllQuasiLinear (n : ℕ) (t : Tree ℝ) : Prop := ∀ x ∈ t.blocks "" 0, Block.QuasiLinear n x.2.2

/-- **C08, trees, cost**: any depth, any fan-out, children with different row counts, adaptors. -/
theorem tree_cost (n : ℕ) (t : Tree ℝ) (h : AllQuasiLinear n t) (S P : Mat ℝ) :
    t.cost S P = t.cost S zeroM + sumTo t.rows (fun r => sumTo n (fun i => S r i * P r i)) :=
  Tree.cost_ql_gen n "" 0 t h S P

/-- **C08, trees, marginal cost.** -/
theorem tree_deriv (n : ℕ) (t : Tree ℝ) (h : AllQuasiLinear n t) (S P : Mat ℝ) (r i : ℕ) (hr : r < t.rows) :
    t.deriv S P r i = t.deriv S zeroM r i + P r i :=
  Tree.deriv_ql_gen n "" 0 t h S P r i hr

/-- shipped trees: every block is `ofLeaf` or `ofMF` of a device with horizon `n`
(`DeviceSet.__init__` rejects mismatched lengths). -/
inductive Shipped (n : ℕ) : Block ℝ → Prop
  | leaf (id : String) (d : Leaf ℝ) (cons : List (Con ℝ)) (hn : d.n = n) : Shipped n (Block.ofLeaf id d cons)
  | mf (id : String) (d : Leaf ℝ) (cons : List (Con ℝ)) (flows : List String)
      (ratio : Option (Bool × ℝ × ℝ)) (hn : d.n = n) : Shipped n (Block.ofMF id d cons flows ratio)

theorem shipped_quasiLinear {n : ℕ} {b : Block ℝ} (h : Shipped n b) : Block.QuasiLinear n b := by
  cases h with
  | leaf id d cons hn => subst hn; exact ofLeaf_quasiLinear id d cons
  | mf id d cons flows ratio hn => subst hn; exact ofMF_quasiLinear id d cons flows ratio

/-- **C08 for every tree of shipped devices and adaptors.** -/
theorem shipped_tree_cost (n : ℕ) (t : Tree ℝ) (h : ∀ x ∈ t.blocks "" 0, Shipped n x.2.2) (S P : Mat ℝ) :
    t.cost S P = t.cost S zeroM + sumTo t.rows (fun r => sumTo n (fun i => S r i * P r i)) :=
  tree_cost n t (fun x hx => shipped_quasiLinear (h x hx)) S P

theorem shipped_tree_deriv (n : ℕ) (t : Tree ℝ) (h : ∀ x ∈ t.blocks "" 0, Shipped n x.2.2) (S P : Mat ℝ)
    (r i : ℕ) (hr : r < t.rows) : t.deriv S P r i = t.deriv S zeroM r i + P r i :=
  tree_deriv n t (fun x hx => shipped_quasiLinear (h x hx)) S P r i hr

/-! ### non-vacuity: a two-level tree with a storage device, a nested generator and a 2-conduit adaptor -/

def exS : Leaf ℝ :=
  { n := 3, lb := fun _ => -1, hb := fun _ => 1, cbs := [],
    kind := .sdevice { c1 := 1, c2 := 1/2, c3 := 1, capacity := 4, damageDepth := 1/2, start := 1/2,
                       reserve := 0, efficiency := 3/4, sustainment := 7/8 } }
def exG : Leaf ℝ :=
  { n := 3, lb := fun _ => -2, hb := fun _ => 0, cbs := [], kind := .gdevice (fun _ => [1, 1, 0]) }
def exI : Leaf ℝ :=
  { n := 3, lb := fun _ => 0, hb := fun _ => 2, cbs := [], kind := .idevice2 (fun _ => -2) (fun _ => 0) }
def exSpec : NodeSpec ℝ :=
  { sbounds := none, labels := [], balEq := true, sign := 1, applyToRemaining := false }
def exTree : Tree ℝ :=
  .node "root" exSpec [.block (Block.ofLeaf "s" exS []),
    .node "sub" exSpec [.block (Block.ofLeaf "g" exG [])],
    .block (Block.ofMF "m" exI [] ["e", "h"] none)]

theorem exTree_shipped : ∀ x ∈ exTree.blocks "" 0, Shipped 3 x.2.2 := by
  intro x hx
  simp only [exTree, Tree.blocks, blocksL, List.append_nil, List.cons_append, List.nil_append,
    List.mem_cons, List.not_mem_nil, or_false] at hx
  rcases hx with rfl | rfl | rfl
  · exact Shipped.leaf "s" exS [] rfl
  · exact Shipped.leaf "g" exG [] rfl
  · exact Shipped.mf "m" exI [] ["e", "h"] none rfl

example : exTree.rows = 4 ∧ AllQuasiLinear 3 exTree :=
  ⟨by simp [exTree, Tree.rows, rowsL, Block.ofLeaf, Block.ofMF],
   fun x hx => shipped_quasiLinear (exTree_shipped x hx)⟩

/-! ## price broadcasting -/

/-- the three accepted price shapes. -/
inductive Price where
  | scalar (c : ℝ)
  | vec (v : ℕ → ℝ)
  | mat (M : Mat ℝ)

/-- `p*np.ones(self.shape)` (deviceset.py:59, 68, 76). -/
def Price.toMat : Price → Mat ℝ
  | .scalar c => fun _ _ => c
  | .vec v => fun _ i => v i
  | .mat M => M

/-- the price a single atomic device uses (`s*p` with `p` scalar or per-slot). -/
def Price.toVec : Price → ℕ → ℝ
  | .scalar c => fun _ => c
  | .vec v => v
  | .mat M => M 0

/-- scalar price ≡ the constant matrix.  **Trivial by definition of `toMat`** (numpy's own
broadcasting is what T2 and the oracle observe). -/
theorem cost_scalar_eq_mat (t : Tree ℝ) (S : Mat ℝ) (c : ℝ) :
    t.cost S (Price.scalar c).toMat = t.cost S (Price.mat (fun _ _ => c)).toMat := rfl
theorem cost_vec_eq_mat (t : Tree ℝ) (S : Mat ℝ) (v : ℕ → ℝ) :
    t.cost S (Price.vec v).toMat = t.cost S (Price.mat (fun _ i => v i)).toMat := rfl
theorem deriv_scalar_eq_mat (t : Tree ℝ) (S : Mat ℝ) (c : ℝ) (r i : ℕ) :
    t.deriv S (Price.scalar c).toMat r i = t.deriv S (Price.mat (fun _ _ => c)).toMat r i := rfl
theorem deriv_vec_eq_mat (t : Tree ℝ) (S : Mat ℝ) (v : ℕ → ℝ) (r i : ℕ) :
    t.deriv S (Price.vec v).toMat r i = t.deriv S (Price.mat (fun _ i => v i)).toMat r i := rfl
theorem cost_scalar_eq_vec (t : Tree ℝ) (S : Mat ℝ) (c : ℝ) :
    t.cost S (Price.scalar c).toMat = t.cost S (Price.vec (fun _ => c)).toMat := rfl

/-- not by definition: slicing a child's rows out of a broadcast price gives the same broadcast
price, so every block at every depth is handed the same scalar / per-slot vector. -/
theorem shiftRows_scalar (off : ℕ) (c : ℝ) : shiftRows off (Price.scalar c).toMat = (Price.scalar c).toMat := by
  funext r i; simp [shiftRows, Price.toMat]
theorem shiftRows_vec (off : ℕ) (v : ℕ → ℝ) : shiftRows off (Price.vec v).toMat = (Price.vec v).toMat := by
  funext r i; simp [shiftRows, Price.toMat]

/-- hence an atomic device anywhere in a tree is priced with the vector itself … -/
theorem ofLeaf_cost_vec (id : String) (d : Leaf ℝ) (cons : List (Con ℝ)) (off : ℕ) (S : Mat ℝ) (v : ℕ → ℝ) :
    (Block.ofLeaf id d cons).cost (shiftRows off S) (shiftRows off (Price.vec v).toMat)
      = d.cost (S off) v := by
  rw [shiftRows_vec]; simp [Block.ofLeaf, shiftRows, Price.toMat]
/-- … or the scalar on every slot. -/
theorem ofLeaf_cost_scalar (id : String) (d : Leaf ℝ) (cons : List (Con ℝ)) (off : ℕ) (S : Mat ℝ) (c : ℝ) :
    (Block.ofLeaf id d cons).cost (shiftRows off S) (shiftRows off (Price.scalar c).toMat)
      = d.cost (S off) (Price.scalar c).toVec := by
  rw [shiftRows_scalar]; simp [Block.ofLeaf, shiftRows, Price.toMat, Price.toVec]

/-- closed forms for the two broadcast shapes. -/
theorem tree_cost_scalar (n : ℕ) (t : Tree ℝ) (h : AllQuasiLinear n t) (S : Mat ℝ) (c : ℝ) :
    t.cost S (Price.scalar c).toMat = t.cost S zeroM + c * sumTo t.rows (fun r => sumTo n (fun i => S r i)) := by
  rw [tree_cost n t h S]
  congr 1
  rw [← sumTo_mul_left]
  refine sumTo_congr (fun r _ => ?_)
  rw [← sumTo_mul_left]
  exact sumTo_congr (fun i _ => by simp [Price.toMat]; ring)

theorem tree_cost_vec (n : ℕ) (t : Tree ℝ) (h : AllQuasiLinear n t) (S : Mat ℝ) (v : ℕ → ℝ) :
    t.cost S (Price.vec v).toMat = t.cost S zeroM + sumTo n (fun i => colSum t.rows S i * v i) := by
  rw [tree_cost n t h S]
  congr 1
  rw [sumTo_comm]
  refine sumTo_congr (fun i _ => ?_)
  unfold colSum
  rw [← sumTo_mul_right]
  exact sumTo_congr (fun r _ => by simp [Price.toMat])

theorem tree_deriv_scalar (n : ℕ) (t : Tree ℝ) (h : AllQuasiLinear n t) (S : Mat ℝ) (c : ℝ) (r i : ℕ)
    (hr : r < t.rows) : t.deriv S (Price.scalar c).toMat r i = t.deriv S zeroM r i + c :=
  tree_deriv n t h S _ r i hr

end
end DK.C08

#print axioms DK.C08.leaf_cost
#print axioms DK.C08.leaf_deriv
#print axioms DK.C08.hess_indep
#print axioms DK.C08.ofLeaf_quasiLinear
#print axioms DK.C08.ofMF_quasiLinear
#print axioms DK.C08.tree_cost
#print axioms DK.C08.tree_deriv
#print axioms DK.C08.shipped_tree_cost
#print axioms DK.C08.shipped_tree_deriv
#print axioms DK.C08.tree_cost_scalar
#print axioms DK.C08.tree_cost_vec
