import DK.Props.C01
import DK.Props.C01b
import DK.Props.C01c
import DK.Props.C14
import Mathlib.MeasureTheory.Integral.IntervalIntegral.FundThmCalculus
/-!
# C01 for the executable closed sum of shipped leaves (`Leaf ℝ`), and its line-integral corollary

* `leaf_grad`  : `d.deriv s p` is the gradient of `d.cost · p` at every kink-free `s`, for every kind;
* `leaf_hess`  : for the kinds with a closed-form Hessian, `d.hess s` is the Jacobian of `d.deriv · p`;
* `line_integral_of_grad`, `idevice2_line_integral` : the cost difference between two flows is the
  line integral of the reported marginal cost along the segment joining them.
-/
namespace DK.C01all
open DK

/-- kink-freeness of a leaf at `s`, per kind (the hypotheses of the per-class theorems). -/
def Leaf.NoKink (d : Leaf ℝ) (s : ℕ → ℝ) : Prop :=
  match d.kind with
  | .idevice _ b _ => ∀ k < d.n, 1 ≤ b k
  | .cdevice2 _ _ => ∀ c ∈ d.cbs, c.e ≤ d.n
  | .sdevice q => 0 < q.efficiency ∧ (q.efficiency = 1 ∨ ∀ k < d.n, s k ≠ 0)
  | .adevice f => DK.NoKink f d.n s
  | _ => True

theorem leaf_grad (d : Leaf ℝ) (s p : ℕ → ℝ) (hk : Leaf.NoKink d s) :
    IsGradAt d.n (fun x => d.cost x p) (d.deriv s p) s := by
  obtain ⟨n, lb, hb, cbs, kind⟩ := d
  cases kind with
  | device => exact C01.device_grad n s p
  | cdevice a b => exact C01.cdevice_grad n a b s p
  | cdevice2 pl ph => exact C01.cdevice2_grad n pl ph cbs hk s p
  | idevice a b c => exact C01.idevice_grad_int n a b c lb hb s p hk
  | idevice2 pl ph => exact C01.idevice2_grad n pl ph lb hb s p
  | gdevice cs => exact C01.gdevice_grad n cs s p
  | sdevice q => exact C01b.sdevice_grad n q s p hk.1 hk.2
  | tdevice q => exact C01b.tdevice_grad n q s p
  | adevice f => exact (C01c.fn_grad f n s hk).add (priceTerm_isGradAt n s p)

/-- `leaf_grad` on a concrete IDevice2 leaf (3 slots, rising marginal cost; no hypothesis to meet). -/
example (s p : ℕ → ℝ) :
    let d : Leaf ℝ := ⟨3, fun _ => 0, fun _ => 2, [], .idevice2 (fun _ => 1) (fun _ => 3)⟩
    IsGradAt 3 (fun x => d.cost x p) (d.deriv s p) s :=
  leaf_grad ⟨3, fun _ => 0, fun _ => 2, [], .idevice2 (fun _ => 1) (fun _ => 3)⟩ s p trivial

/-- `leaf_grad` on a concrete lossy SDevice leaf (efficiency 9/10) at a flow with no resting slot. -/
example (p : ℕ → ℝ) :
    let d : Leaf ℝ := ⟨3, fun _ => -5, fun _ => 5, [],
      .sdevice { c1 := 1, c2 := 1/2, c3 := 3, capacity := 10, damageDepth := 1/5, start := 1/2,
                 reserve := 1/2, efficiency := 9/10, sustainment := 19/20 }⟩
    let s : ℕ → ℝ := fun k => if k = 1 then -4 else 1
    IsGradAt 3 (fun x => d.cost x p) (d.deriv s p) s := by
  intro d s
  refine leaf_grad d s p ⟨by norm_num, Or.inr (fun k _ => ?_)⟩
  dsimp only [s]
  split_ifs <;> norm_num

/-- second-order companion, for the kinds with a closed-form Hessian (`d.hess` is `none` for the
storage and thermal kinds, so the hypothesis `H` excludes them). -/
theorem leaf_hess (d : Leaf ℝ) (s p : ℕ → ℝ) (hk : Leaf.NoKink d s) (Hm : ℕ → ℕ → ℝ)
    (H : ∀ i j, d.hess s i j = some (Hm i j)) :
    IsHessAt d.n (fun x => d.deriv x p) Hm s := by
  obtain ⟨n, lb, hb, cbs, kind⟩ := d
  cases kind with
  | device =>
    have e : Hm = fun _ _ => 0 := by funext i j; exact (Option.some.inj (H i j)).symm
    subst e; exact C14.device_hess n s p
  | cdevice a b =>
    have e : Hm = fun _ _ => 0 := by funext i j; exact (Option.some.inj (H i j)).symm
    subst e; exact C14.cdevice_hess n a s p
  | cdevice2 pl ph =>
    have e : Hm = cdev2Hess pl ph cbs := by funext i j; exact (Option.some.inj (H i j)).symm
    subst e; exact C14.cdevice2_hess n pl ph cbs hk s p
  | idevice a b c =>
    have e : Hm = idevHess ipow intCast' a b c lb hb s := by
      funext i j; exact (Option.some.inj (H i j)).symm
    subst e; exact C14.idevice_hess_int n a b c lb hb s p hk
  | idevice2 pl ph =>
    have e : Hm = idev2Hess pl ph lb hb := by funext i j; exact (Option.some.inj (H i j)).symm
    subst e; exact C14.idevice2_hess n pl ph lb hb s p
  | gdevice cs =>
    have e : Hm = gdevHess cs s := by funext i j; exact (Option.some.inj (H i j)).symm
    subst e; exact C14.gdevice_hess n cs s p
  | sdevice q => exact absurd (H 0 0) (by simp [Leaf.hess])
  | tdevice q => exact absurd (H 0 0) (by simp [Leaf.hess])
  | adevice f =>
    have e : Hm = f.hess n s := by funext i j; exact (Option.some.inj (H i j)).symm
    subst e
    intro i hi
    exact (C01c.fn_hess f n s hk i hi).add_const (p i)

/-- non-vacuity of `leaf_hess`: the IDevice2 leaf above, with its closed-form Hessian. -/
example (s p : ℕ → ℝ) :
    let d : Leaf ℝ := ⟨3, fun _ => 0, fun _ => 2, [], .idevice2 (fun _ => 1) (fun _ => 3)⟩
    IsHessAt 3 (fun x => d.deriv x p) (idev2Hess (fun _ => 1) (fun _ => 3) (fun _ => 0) (fun _ => 2)) s :=
  leaf_hess ⟨3, fun _ => 0, fun _ => 2, [], .idevice2 (fun _ => 1) (fun _ => 3)⟩ s p trivial _
    (fun _ _ => rfl)

/-! ## the line-integral corollary -/

/-- a gradient at the point `x + t₀·d` of the segment gives the derivative of the cost along the
segment at parameter `t₀` (shift of the parameter). -/
theorem hasDerivAt_along_line {n : ℕ} {f : (ℕ → ℝ) → ℝ} {g x d : ℕ → ℝ} (t₀ : ℝ)
    (h : IsGradAt n f g (line x d t₀)) :
    HasDerivAt (fun t => f (line x d t)) (sumTo n (fun k => g k * d k)) t₀ := by
  have h0 := h d
  have hshift : HasDerivAt (fun t : ℝ => t - t₀) 1 t₀ := (hasDerivAt_id t₀).sub_const t₀
  have h1 := h0.comp_of_eq t₀ hshift (by simp)
  have hfun : ((fun τ => f (line (line x d t₀) d τ)) ∘ fun t => t - t₀) = fun t => f (line x d t) := by
    funext t
    simp only [Function.comp]
    congr 1
    funext k
    simp only [line]
    ring
  rw [hfun, mul_one] at h1
  exact h1

/-- **Line integral of the gradient.** If `g z` is the gradient of `f` at every point `z` of the
segment from `x` to `y`, and the pairing of `g` with the direction is interval integrable (e.g.
continuous) along the segment, then `f y − f x` is the line integral of `g` along the segment. -/
theorem line_integral_of_grad (n : ℕ) (f : (ℕ → ℝ) → ℝ) (g : (ℕ → ℝ) → ℕ → ℝ) (x y : ℕ → ℝ)
    (hg : ∀ t ∈ Set.uIcc (0:ℝ) 1, IsGradAt n f (g (fun j => x j + t * (y j - x j)))
      (fun j => x j + t * (y j - x j)))
    (hint : IntervalIntegrable
      (fun t => sumTo n (fun k => g (fun j => x j + t * (y j - x j)) k * (y k - x k)))
      MeasureTheory.volume 0 1) :
    f y - f x = ∫ t in (0:ℝ)..1, sumTo n (fun k => g (fun j => x j + t * (y j - x j)) k * (y k - x k)) := by
  have hd : ∀ t ∈ Set.uIcc (0:ℝ) 1, HasDerivAt (fun t => f (line x (fun j => y j - x j) t))
      (sumTo n (fun k => g (fun j => x j + t * (y j - x j)) k * (y k - x k))) t :=
    fun t ht => hasDerivAt_along_line (d := fun j => y j - x j) t (hg t ht)
  have key := intervalIntegral.integral_eq_sub_of_hasDerivAt hd hint
  have e1 : line x (fun j => y j - x j) 1 = y := by funext k; simp only [line]; ring
  have e0 : line x (fun j => y j - x j) 0 = x := line_zero x _
  rw [e1, e0] at key
  exact key.symm

/-- the integrand of the IDevice2 line integral is differentiable, hence continuous, in `t`
(a finite sum of affine functions of `t`). -/
theorem idev2_integrand_continuous (n : ℕ) (pl ph lb hb p x y : ℕ → ℝ) :
    Continuous (fun t : ℝ => sumTo n (fun k =>
      idev2Deriv pl ph lb hb (fun j => x j + t * (y j - x j)) p k * (y k - x k))) := by
  refine continuous_iff_continuousAt.mpr (fun t => ?_)
  have h := sumTo_hasDerivAt n
    (fun k t => idev2Deriv pl ph lb hb (line x (fun j => y j - x j) t) p k * (y k - x k))
    (fun k => hlqHess (pl k) (ph k) (lb k) (hb k) * (y k - x k) * (y k - x k)) t
    (fun k _ => by
      unfold idev2Deriv
      exact (((hlqDeriv_hasDerivAt (pl k) (ph k) (lb k) (hb k) _).comp t
        (line_hasDerivAt x (fun j => y j - x j) k t)).add_const (p k)).mul_const (y k - x k))
  exact h.continuousAt

/-- **IDevice2: the cost difference between any two flows (in bounds or not) equals the line
integral of the reported marginal cost along the segment joining them.** -/
theorem idevice2_line_integral (n : ℕ) (pl ph lb hb p x y : ℕ → ℝ) :
    idev2Cost n pl ph lb hb y p - idev2Cost n pl ph lb hb x p
      = ∫ t in (0:ℝ)..1, sumTo n (fun k =>
          idev2Deriv pl ph lb hb (fun j => x j + t * (y j - x j)) p k * (y k - x k)) :=
  line_integral_of_grad n (fun z => idev2Cost n pl ph lb hb z p)
    (fun z => idev2Deriv pl ph lb hb z p) x y
    (fun _ _ => C01.idevice2_grad n pl ph lb hb _ p)
    ((idev2_integrand_continuous n pl ph lb hb p x y).intervalIntegrable 0 1)

end DK.C01all

#print axioms DK.C01all.leaf_grad
#print axioms DK.C01all.leaf_hess
#print axioms DK.C01all.line_integral_of_grad
#print axioms DK.C01all.idevice2_line_integral
