import DK.Props.C01all
import DK.Props.C02
import DK.Props.C05
import DK.Props.C17
import DK.Props.C07tree
import DK.Lemmas.TreeGradLemmas
/-!
# Tree-level end-to-end statements: C01 + C02 (+ C17) composed, and the C05 certificate on a tree

1. `tree_isMGrad` — for EVERY tree (any depth, fan-out, children with different row counts): if each
   block's reported marginal cost is the gradient of the block's cost on the block's own rows
   (`Block.IsGrad`), then the marginal-cost MATRIX the tree reports (`Tree.deriv`) is the gradient of
   the tree cost with respect to all `t.rows × n` flow variables.
2. `ofLeaf_isGrad`, `ofMF_isGrad` — the shipped blocks are gradient-correct at kink-free flows
   (`C01all.leaf_grad`, `C17.mf_deriv_isMGrad`); `shipped_tree_isMGrad` — hence every tree of shipped
   devices / adaptors.
3. `tree_grad_ineq`, `tree_first_order_certificate` — on a tree whose blocks are gradient-correct at `S`
   and convex on their feasible sets, a *checked* first-order gap `≥ −ε` over the feasible set certifies
   `ε`-optimality of `S` (C05 on a tree).
4. all of it instantiated on `C07tree.exTree` (an `IDevice2` leaf with a cumulative bound + a 2-conduit
   adaptor over a `Device`, under a set with aggregate bounds).

Notes on hypotheses:
* `tree_isMGrad` does NOT need `Block.Local`.  `IsMGradAt b.rows n f J S` quantifies over *all* directions
  `D : Mat ℝ` (also directions that move rows outside the block) and says the derivative is the sum over the
  block's own `b.rows` rows only — so first-order locality of the cost at `S` is already part of
  `Block.IsGrad`.  The version with the (unused) locality hypothesis is kept as `tree_isMGrad_local`.
* shipped blocks need `d.n = n` (the wrapped device's horizon is the tree's horizon): the block reports
  `d.deriv … i` also for slots `i ≥ d.n` (e.g. `deviceDeriv = p i`), which is not a derivative of anything.
* `tree_first_order_certificate` does not need the feasible set to be convex (`ClosedMix`), exactly as
  `C05.first_order_certificate` carries `_hF` unused: the chord inequality `ChordOn` between *feasible*
  `S`, `T` is all the limit argument uses.  (`tree_cost_convex_feasible` provides it from
  `Block.ConvexOnFeas` without convexity of the set.)  It also does not need `AgreeOutside`; the version
  literally restricted to competitors agreeing with `S` outside the window is
  `tree_first_order_certificate_window`.
-/
namespace DK.TreeGrad
open DK DK.C07tree
open DK.C02 (BlockAt)

/-! ## 1. the marginal-cost matrix of a tree is the gradient of the tree cost -/

/-- the block's reported marginal cost at `(S, P)` is the gradient (w.r.t. the flow, over the block's own
`b.rows × n` variables) of the block's cost at price `P`. -/
def _root_.DK.Block.IsGrad (n : ℕ) (b : Block ℝ) (S P : Mat ℝ) : Prop :=
  IsMGradAt b.rows n (fun S' => b.cost S' P) (b.deriv S P) S

/-- **C01 + C02 composed.** If every block's marginal cost is the gradient of the block's cost on the
block's own rows of `S`, `P`, then `t.deriv S P` is the gradient of `S' ↦ t.cost S' P` at `S` with
respect to all `t.rows × n` flow variables. -/
theorem tree_isMGrad (t : Tree ℝ) (n : ℕ) (S P : Mat ℝ)
    (h : ∀ x : BlockAt, x ∈ t.blocks "" 0 → x.b.IsGrad n (shiftRows x.off S) (shiftRows x.off P)) :
    IsMGradAt t.rows n (fun S' => t.cost S' P) (t.deriv S P) S := by
  have := Tree.isMGrad_gen n "" 0 S P t h
  rw [shiftRows_zero, shiftRows_zero] at this
  exact this

/-- the statement as originally asked, with the locality hypothesis (not used: see the header). -/
theorem tree_isMGrad_local (t : Tree ℝ) (n : ℕ) (S P : Mat ℝ)
    (h : ∀ x : BlockAt, x ∈ t.blocks "" 0 → x.b.IsGrad n (shiftRows x.off S) (shiftRows x.off P))
    (_hl : ∀ x : BlockAt, x ∈ t.blocks "" 0 → x.b.Local) :
    IsMGradAt t.rows n (fun S' => t.cost S' P) (t.deriv S P) S :=
  tree_isMGrad t n S P h

/-- reading of `tree_isMGrad` entry by entry: the partial derivative of the tree cost with respect to the
entry `(r, i)` of the window is `t.deriv S P r i`. -/
theorem tree_partial (t : Tree ℝ) (n : ℕ) (S P : Mat ℝ)
    (h : ∀ x : BlockAt, x ∈ t.blocks "" 0 → x.b.IsGrad n (shiftRows x.off S) (shiftRows x.off P))
    (r i : ℕ) (hr : r < t.rows) (hi : i < n) :
    HasDerivAt (fun τ : ℝ => t.cost (fun r' i' => S r' i' + τ * (if r' = r ∧ i' = i then 1 else 0)) P)
      (t.deriv S P r i) 0 := by
  have h1 := tree_isMGrad t n S P h (fun r' i' => if r' = r ∧ i' = i then 1 else 0)
  refine HasDerivAt.congr_deriv h1 ?_
  have e : ∀ r', sumTo n (fun i' => t.deriv S P r' i' * (if r' = r ∧ i' = i then (1:ℝ) else 0))
      = if r' = r then t.deriv S P r' i else 0 := by
    intro r'
    by_cases hr' : r' = r
    · subst hr'
      simp only [true_and, if_true, mul_ite, mul_one, mul_zero]
      exact sumTo_single n i hi (fun i' => t.deriv S P r' i')
    · simp only [hr', false_and, if_false, mul_zero, sumTo_zero_fn]
  simp only [e]
  exact sumTo_single t.rows r hr (fun r' => t.deriv S P r' i)

/-! ## 2. shipped blocks -/

/-- an atomic device as a one-row block: `IsMGradAt 1 n` on the block is `IsGradAt n` on row `0`
(`C01all.leaf_grad`). -/
theorem ofLeaf_isGrad (id : String) (d : Leaf ℝ) (cons : List (Con ℝ)) (S P : Mat ℝ)
    (hk : C01all.Leaf.NoKink d (S 0)) : (Block.ofLeaf id d cons).IsGrad d.n S P := by
  intro D
  have h := C01all.leaf_grad d (S 0) (P 0) hk (D 0)
  have h' : HasDerivAt (fun τ : ℝ => (Block.ofLeaf id d cons).cost (fun r i => S r i + τ * D r i) P)
      (sumTo d.n (fun k => d.deriv (S 0) (P 0) k * D 0 k)) 0 := h
  refine HasDerivAt.congr_deriv h' ?_
  show _ = sumTo 1 (fun r => sumTo d.n (fun i => d.deriv (S 0) (P 0) i * D r i))
  simp only [sumTo, zero_add]

/-- a multi-flow adaptor: `C17.mf_deriv_isMGrad` fed with `C01all.leaf_grad` at the column sum. -/
theorem ofMF_isGrad (id : String) (d : Leaf ℝ) (cons : List (Con ℝ)) (flows : List String)
    (ratio : Option (Bool × ℝ × ℝ)) (S P : Mat ℝ)
    (hk : C01all.Leaf.NoKink d (colSum flows.length S)) :
    (Block.ofMF id d cons flows ratio).IsGrad d.n S P :=
  C17.mf_deriv_isMGrad id d cons flows ratio S P
    (C01all.leaf_grad d (colSum flows.length S) (fun _ => 0) hk)

/-- a block is one of the shipped ones (with any constraint list) around a leaf of horizon `n`, and the
leaf is kink-free at the flow it sees (`S 0` for a device, the conduit sum for an adaptor). -/
def ShippedGradAt (n : ℕ) (b : Block ℝ) (S : Mat ℝ) : Prop :=
  (∃ id d cons, b = Block.ofLeaf id d cons ∧ d.n = n ∧ C01all.Leaf.NoKink d (S 0)) ∨
  (∃ id d cons flows ratio, b = Block.ofMF id d cons flows ratio ∧ d.n = n ∧
      C01all.Leaf.NoKink d (colSum flows.length S))

theorem ShippedGradAt.isGrad {n : ℕ} {b : Block ℝ} {S : Mat ℝ} (h : ShippedGradAt n b S) (P : Mat ℝ) :
    b.IsGrad n S P := by
  rcases h with ⟨id, d, cons, rfl, rfl, hk⟩ | ⟨id, d, cons, flows, ratio, rfl, rfl, hk⟩
  · exact ofLeaf_isGrad id d cons S P hk
  · exact ofMF_isGrad id d cons flows ratio S P hk

theorem ShippedGradAt.local {n : ℕ} {b : Block ℝ} {S : Mat ℝ} (h : ShippedGradAt n b S) : b.Local := by
  rcases h with ⟨id, d, cons, rfl, _, _⟩ | ⟨id, d, cons, flows, ratio, rfl, _, _⟩
  · exact ofLeaf_local id d cons
  · exact ofMF_local id d cons flows ratio

/-- **every tree of shipped devices and adaptors** (any nesting): at a flow matrix where every leaf is
kink-free on its own rows, the reported marginal-cost matrix is the gradient of the tree cost, for every
price matrix. -/
theorem shipped_tree_isMGrad (t : Tree ℝ) (n : ℕ) (S P : Mat ℝ)
    (h : ∀ x : BlockAt, x ∈ t.blocks "" 0 → ShippedGradAt n x.b (shiftRows x.off S)) :
    IsMGradAt t.rows n (fun S' => t.cost S' P) (t.deriv S P) S :=
  tree_isMGrad t n S P (fun x hx => (h x hx).isGrad (shiftRows x.off P))

/-! ## 3. the first-order certificate on a tree -/

/-- the first-order gap the certificate checker evaluates: `Σ_{r<R} Σ_{i<n} J r i · (T r i − S r i)`. -/
def gap (R n : ℕ) (J : ℕ → ℕ → ℝ) (S T : Mat ℝ) : ℝ :=
  sumTo R (fun r => sumTo n (fun i => J r i * (T r i - S r i)))

/-- generic matrix form of `C05.first_order_certificate`: on a set `F` on which `f` satisfies the chord
inequality, a point whose gradient has gap `≥ −ε` towards every point of `F` is `ε`-optimal over `F`. -/
theorem first_order_certificate_mat (R n : ℕ) (F : Mat ℝ → Prop) (f : Mat ℝ → ℝ) (J : ℕ → ℕ → ℝ)
    (S : Mat ℝ) (ε : ℝ) (hf : ChordOn F f) (hS : F S) (hg : IsMGradAt R n f J S)
    (hopt : ∀ T, F T → -ε ≤ gap R n J S T) : ∀ T, F T → f S - ε ≤ f T := by
  intro T hT
  have := grad_ineq_mat R n f J S T hg (fun τ h0 h1 => hf T S hT hS τ h0 h1)
  have := hopt T hT
  unfold gap at this
  linarith

/-- **gradient inequality on a tree**: between feasible matrices, the tree cost lies above its
linearisation by the reported marginal cost. -/
theorem tree_grad_ineq (t : Tree ℝ) (n : ℕ) (S P : Mat ℝ)
    (hgrad : ∀ x : BlockAt, x ∈ t.blocks "" 0 → x.b.IsGrad n (shiftRows x.off S) (shiftRows x.off P))
    (hcost : ∀ x : BlockAt, x ∈ t.blocks "" 0 → x.b.ConvexOnFeas n)
    (hS : C07tree.Feasible t n S) (T : Mat ℝ) (hT : C07tree.Feasible t n T) :
    gap t.rows n (t.deriv S P) S T ≤ t.cost T P - t.cost S P :=
  grad_ineq_mat t.rows n (fun S' => t.cost S' P) (t.deriv S P) S T (tree_isMGrad t n S P hgrad)
    (fun τ h0 h1 => tree_cost_convex_feasible t n hcost P T S hT hS τ h0 h1)

/-- **C05 on a tree.**  Blocks gradient-correct at `S` and convex on their feasible sets; `S` feasible; the
checked gap of the reported marginal-cost matrix towards every feasible `T` is `≥ −ε`.  Then `S` is
`ε`-optimal among all feasible matrices. -/
theorem tree_first_order_certificate (t : Tree ℝ) (n : ℕ) (S P : Mat ℝ) (ε : ℝ)
    (hgrad : ∀ x : BlockAt, x ∈ t.blocks "" 0 → x.b.IsGrad n (shiftRows x.off S) (shiftRows x.off P))
    (hcost : ∀ x : BlockAt, x ∈ t.blocks "" 0 → x.b.ConvexOnFeas n)
    (hS : C07tree.Feasible t n S)
    (hopt : ∀ T, C07tree.Feasible t n T → -ε ≤ gap t.rows n (t.deriv S P) S T) :
    ∀ T, C07tree.Feasible t n T → t.cost S P - ε ≤ t.cost T P :=
  first_order_certificate_mat t.rows n (C07tree.Feasible t n) (fun S' => t.cost S' P) (t.deriv S P) S ε
    (tree_chordOn t n P hcost) hS (tree_isMGrad t n S P hgrad) hopt

/-- the same with competitors restricted to those agreeing with `S` outside the `t.rows × n` window of
decision variables, in hypothesis and conclusion (the form of `C07tree.tree_local_is_global`). -/
theorem tree_first_order_certificate_window (t : Tree ℝ) (n : ℕ) (S P : Mat ℝ) (ε : ℝ)
    (hgrad : ∀ x : BlockAt, x ∈ t.blocks "" 0 → x.b.IsGrad n (shiftRows x.off S) (shiftRows x.off P))
    (hcost : ∀ x : BlockAt, x ∈ t.blocks "" 0 → x.b.ConvexOnFeas n)
    (hS : C07tree.Feasible t n S)
    (hopt : ∀ T, C07tree.Feasible t n T → AgreeOutside t.rows n S T → -ε ≤ gap t.rows n (t.deriv S P) S T) :
    ∀ T, C07tree.Feasible t n T → AgreeOutside t.rows n S T → t.cost S P - ε ≤ t.cost T P := by
  intro T hT hout
  have := tree_grad_ineq t n S P hgrad hcost hS T hT
  have := hopt T hT hout
  linarith

/-- with affine block constraints (`Feasible t n` is then `ClosedMix`) the certified set of `ε`-optimal
feasible matrices is moreover convex (C07 consequence 1), so the certificate and the sub-level
structure fit together. -/
theorem tree_certified_sublevel (t : Tree ℝ) (n : ℕ) (S P : Mat ℝ) (ε : ℝ)
    (hgrad : ∀ x : BlockAt, x ∈ t.blocks "" 0 → x.b.IsGrad n (shiftRows x.off S) (shiftRows x.off P))
    (hcost : ∀ x : BlockAt, x ∈ t.blocks "" 0 → x.b.ConvexOnFeas n)
    (hcons : ∀ x : BlockAt, x ∈ t.blocks "" 0 → ∀ c ∈ x.b.cons, c.Affine)
    (hS : C07tree.Feasible t n S)
    (hopt : ∀ T, C07tree.Feasible t n T → -ε ≤ gap t.rows n (t.deriv S P) S T) :
    ClosedMix (C07tree.Feasible t n) ∧
    (∀ T, C07tree.Feasible t n T → t.cost S P - ε ≤ t.cost T P) ∧
    ClosedMix (fun T => C07tree.Feasible t n T ∧ t.cost T P ≤ t.cost S P) :=
  ⟨tree_closedMix t n (fun x hx c hc => (hcons x hx c hc).convexSat),
   tree_first_order_certificate t n S P ε hgrad hcost hS hopt,
   tree_sublevel_convex t n P hcost (fun x hx c hc => (hcons x hx c hc).convexSat) _⟩

/-- shipped version: a tree of shipped devices / adaptors, kink-free at `S`, leaves satisfying the
convexity acceptance hypotheses (`Leaf.ConvexAcc`). -/
def ShippedConvex (n : ℕ) (b : Block ℝ) : Prop :=
  (∃ id d cons, b = Block.ofLeaf id d cons ∧ d.n = n ∧ d.ConvexAcc) ∨
  (∃ id d cons flows ratio, b = Block.ofMF id d cons flows ratio ∧ d.n = n ∧ d.ConvexAcc)

theorem ShippedConvex.onFeas {n : ℕ} {b : Block ℝ} (h : ShippedConvex n b) : b.ConvexOnFeas n := by
  rcases h with ⟨id, d, cons, rfl, rfl, ha⟩ | ⟨id, d, cons, flows, ratio, rfl, rfl, ha⟩
  · exact (ofLeaf_convex id d cons d.n (le_refl _) ha).onFeas
  · exact ofMF_convex_feasible id d cons flows ratio d.n ha

theorem shipped_tree_first_order_certificate (t : Tree ℝ) (n : ℕ) (S P : Mat ℝ) (ε : ℝ)
    (hship : ∀ x : BlockAt, x ∈ t.blocks "" 0 → ShippedGradAt n x.b (shiftRows x.off S))
    (hacc : ∀ x : BlockAt, x ∈ t.blocks "" 0 → ShippedConvex n x.b)
    (hS : C07tree.Feasible t n S)
    (hopt : ∀ T, C07tree.Feasible t n T → -ε ≤ gap t.rows n (t.deriv S P) S T) :
    ∀ T, C07tree.Feasible t n T → t.cost S P - ε ≤ t.cost T P :=
  tree_first_order_certificate t n S P ε (fun x hx => (hship x hx).isGrad _)
    (fun x hx => (hacc x hx).onFeas) hS hopt

/-! ## 4. non-vacuity on `C07tree.exTree`

`exTree = node "h" (aggregate bounds [0,4]) [ofLeaf "i" exI2 …, ofMF "m" exDev … ["a","b"]]`, horizon 2,
3 rows: row 0 the `IDevice2` (`p_l = 1`, `p_h = 2`, bounds `[0,3]`, cumulative bound `[0,4]`), rows 1–2 the
two conduits of the adaptor over a plain `Device` (bounds `[0,2]`). -/

theorem exTree_shipped (S : Mat ℝ) :
    ∀ x : BlockAt, x ∈ exTree.blocks "" 0 → ShippedGradAt 2 x.b (shiftRows x.off S) := by
  intro x hx
  rcases exTree_mem x hx with rfl | rfl
  · exact Or.inl ⟨"i", exI2, _, rfl, rfl, trivial⟩
  · exact Or.inr ⟨"m", exDev, _, ["a", "b"], none, rfl, rfl, trivial⟩

theorem exTree_shippedConvex : ∀ x : BlockAt, x ∈ exTree.blocks "" 0 → ShippedConvex 2 x.b := by
  intro x hx
  rcases exTree_mem x hx with rfl | rfl
  · exact Or.inl ⟨"i", exI2, _, rfl, rfl, exI2_acc⟩
  · exact Or.inr ⟨"m", exDev, _, ["a", "b"], none, rfl, rfl, exDev_acc⟩

/-- (1)+(2) on the example tree: at EVERY flow and price matrix the 3 × 2 marginal-cost matrix is the
gradient of the tree cost. -/
theorem exTree_isMGrad (S P : Mat ℝ) :
    IsMGradAt exTree.rows 2 (fun S' => exTree.cost S' P) (exTree.deriv S P) S :=
  shipped_tree_isMGrad exTree 2 S P (exTree_shipped S)

example : exTree.rows = 3 := by
  simp [exTree, Tree.rows, rowsL, exLeafB, exMFB, Block.ofLeaf, Block.ofMF]

/-- hypotheses of `tree_isMGrad` / `tree_isMGrad_local` hold on the example tree. -/
example (S P : Mat ℝ) :
    (∀ x : BlockAt, x ∈ exTree.blocks "" 0 → x.b.IsGrad 2 (shiftRows x.off S) (shiftRows x.off P)) ∧
    (∀ x : BlockAt, x ∈ exTree.blocks "" 0 → x.b.Local) :=
  ⟨fun x hx => (exTree_shipped S x hx).isGrad _, fun x hx => (exTree_shipped S x hx).local⟩

/-- a concrete interior flow matrix. -/
noncomputable def exS : Mat ℝ := fun r i => if r = 0 then (if i = 0 then 1 else 2) else 1/2

/-- the marginal-cost matrix at `exS` under the price `exP`, computed: the `IDevice2` row is
`(p_h − p_l)·x/3 + p_l + price`, the conduit rows are the conduit prices. -/
noncomputable def exP : Mat ℝ := fun r i => (r : ℝ) + i

theorem exTree_deriv_exS (r i : ℕ) (hr : r < 3) (hi : i < 2) :
    exTree.deriv exS exP r i =
      if r = 0 then (if i = 0 then 1/3 + 1 + 0 else 2/3 + 1 + 1) else (r : ℝ) + i := by
  have hr' : r = 0 ∨ r = 1 ∨ r = 2 := by omega
  have hi' : i = 0 ∨ i = 1 := by omega
  rcases hr' with rfl | rfl | rfl <;> rcases hi' with rfl | rfl <;>
    (simp [exTree, Tree.deriv, derivL, Tree.rows, exLeafB, exMFB, Block.ofLeaf, Block.ofMF, Leaf.deriv, exI2,
      exDev, idev2Deriv, deviceDeriv, hlqDeriv, exS, exP, shiftRows]) <;> norm_num

/-- `tree_partial` on the example: ∂cost/∂S₀₁ at `exS`, price `exP`, is `8/3`. -/
example : HasDerivAt (fun τ : ℝ => exTree.cost (fun r' i' => exS r' i' + τ * (if r' = 0 ∧ i' = 1 then 1 else 0)) exP)
    (8/3) 0 := by
  have h := tree_partial exTree 2 exS exP (fun x hx => (exTree_shipped exS x hx).isGrad _) 0 1
    (by simp [exTree, Tree.rows, rowsL, exLeafB, exMFB, Block.ofLeaf, Block.ofMF]) (by norm_num)
  rw [exTree_deriv_exS 0 1 (by norm_num) (by norm_num)] at h
  refine HasDerivAt.congr_deriv h ?_
  norm_num

/-- the marginal-cost matrix of the example tree at the zero flow, zero price: `1` on the `IDevice2` row,
`0` on the conduits. -/
theorem exTree_deriv_zero (r i : ℕ) :
    exTree.deriv (fun _ _ => 0) (fun _ _ => 0) r i = if r = 0 then 1 else 0 := by
  by_cases hr : r = 0
  · subst hr
    simp [exTree, Tree.deriv, derivL, Tree.rows, exLeafB, Block.ofLeaf, Leaf.deriv, exI2, idev2Deriv, hlqDeriv]
  · have h1 : ¬ r < 1 := by omega
    by_cases h2 : r - 1 < 2 <;>
      simp [exTree, Tree.deriv, derivL, Tree.rows, exLeafB, exMFB, Block.ofLeaf, Block.ofMF, Leaf.deriv,
        exDev, deviceDeriv, shiftRows, hr, h1, h2]

/-- the checked first-order gap at the zero matrix is `T₀₀ + T₀₁ ≥ 0` for every feasible `T`. -/
theorem exTree_gap_zero (T : Mat ℝ) (hT : C07tree.Feasible exTree 2 T) :
    -(0:ℝ) ≤ gap exTree.rows 2 (exTree.deriv (fun _ _ => 0) (fun _ _ => 0)) (fun _ _ => 0) T := by
  have hmem : (("" ++ "h" ++ ".", 0, exLeafB) : BlockAt) ∈ exTree.blocks "" 0 := by rw [exTree_blocks]; simp
  have hb := (feasible_block exTree 2 T hT _ hmem).1
  have h0 : (0:ℝ) ≤ T 0 0 := (hb 0 Nat.zero_lt_one 0 (by norm_num)).1
  have h1 : (0:ℝ) ≤ T 0 1 := (hb 0 Nat.zero_lt_one 1 (by norm_num)).1
  have hrows : exTree.rows = 3 := by
    simp [exTree, Tree.rows, rowsL, exLeafB, exMFB, Block.ofLeaf, Block.ofMF]
  unfold gap
  rw [hrows]
  simp only [exTree_deriv_zero, sumTo]
  norm_num
  linarith

/-- (3) on the example tree: all hypotheses of `tree_first_order_certificate` hold together at the zero
matrix with `ε = 0`, and the certificate yields its global optimality (which `C07tree.exTree_zero_opt`
had to compute by hand from the cost formula). -/
theorem exTree_certified : ∀ T, C07tree.Feasible exTree 2 T →
    exTree.cost (fun _ _ => 0) (fun _ _ => 0) - 0 ≤ exTree.cost T (fun _ _ => 0) :=
  shipped_tree_first_order_certificate exTree 2 (fun _ _ => 0) (fun _ _ => 0) 0
    (exTree_shipped _) exTree_shippedConvex exTree_feasible_zero exTree_gap_zero

example : ∀ T, C07tree.Feasible exTree 2 T → AgreeOutside exTree.rows 2 (fun _ _ => 0) T →
    exTree.cost (fun _ _ => 0) (fun _ _ => 0) - 0 ≤ exTree.cost T (fun _ _ => 0) :=
  tree_first_order_certificate_window exTree 2 (fun _ _ => 0) (fun _ _ => 0) 0
    (fun x hx => (exTree_shipped _ x hx).isGrad _) (fun x hx => (exTree_shippedConvex x hx).onFeas)
    exTree_feasible_zero (fun T hT _ => exTree_gap_zero T hT)

example : ClosedMix (C07tree.Feasible exTree 2) ∧
    (∀ T, C07tree.Feasible exTree 2 T → exTree.cost (fun _ _ => 0) (fun _ _ => 0) - 0 ≤ exTree.cost T (fun _ _ => 0)) ∧
    ClosedMix (fun T => C07tree.Feasible exTree 2 T ∧ exTree.cost T (fun _ _ => 0) ≤ exTree.cost (fun _ _ => 0) (fun _ _ => 0)) :=
  tree_certified_sublevel exTree 2 _ _ 0 (fun x hx => (exTree_shipped _ x hx).isGrad _)
    (fun x hx => (exTree_shippedConvex x hx).onFeas) exTree_cons_affine exTree_feasible_zero exTree_gap_zero

/-- `tree_grad_ineq` on the example tree between the zero matrix and any feasible `T`. -/
example (T : Mat ℝ) (hT : C07tree.Feasible exTree 2 T) :
    gap exTree.rows 2 (exTree.deriv (fun _ _ => 0) (fun _ _ => 0)) (fun _ _ => 0) T
      ≤ exTree.cost T (fun _ _ => 0) - exTree.cost (fun _ _ => 0) (fun _ _ => 0) :=
  tree_grad_ineq exTree 2 _ _ (fun x hx => (exTree_shipped _ x hx).isGrad _)
    (fun x hx => (exTree_shippedConvex x hx).onFeas) exTree_feasible_zero T hT

/-- `first_order_certificate_mat`: one variable in `[0, 1]`, `f` = that variable, `S = 0`. -/
example : ∀ T : Mat ℝ, (0 ≤ T 0 0 ∧ T 0 0 ≤ 1) →
    (fun S : Mat ℝ => S 0 0) (fun _ _ => 0) - 0 ≤ (fun S : Mat ℝ => S 0 0) T :=
  first_order_certificate_mat 1 1 (fun T => 0 ≤ T 0 0 ∧ T 0 0 ≤ 1) (fun S => S 0 0) (fun _ _ => 1)
    (fun _ _ => 0) 0 (fun S T _ _ θ _ _ => le_of_eq (mAffine_entry 0 0 θ S T)) ⟨le_refl 0, zero_le_one⟩
    (by
      intro D
      have := ((hasDerivAt_id (0:ℝ)).mul_const (D 0 0)).const_add (0:ℝ)
      refine HasDerivAt.congr_deriv this ?_
      simp [sumTo])
    (by intro T hT; simp only [gap, sumTo]; linarith [hT.1])

end DK.TreeGrad

#print axioms DK.TreeGrad.tree_isMGrad
#print axioms DK.TreeGrad.tree_isMGrad_local
#print axioms DK.TreeGrad.tree_partial
#print axioms DK.TreeGrad.ofLeaf_isGrad
#print axioms DK.TreeGrad.ofMF_isGrad
#print axioms DK.TreeGrad.shipped_tree_isMGrad
#print axioms DK.TreeGrad.first_order_certificate_mat
#print axioms DK.TreeGrad.tree_grad_ineq
#print axioms DK.TreeGrad.tree_first_order_certificate
#print axioms DK.TreeGrad.tree_first_order_certificate_window
#print axioms DK.TreeGrad.tree_certified_sublevel
#print axioms DK.TreeGrad.shipped_tree_first_order_certificate
#print axioms DK.TreeGrad.exTree_isMGrad
#print axioms DK.TreeGrad.exTree_certified
#print axioms DK.Tree.isMGrad_gen
#print axioms DK.grad_ineq_mat
