import DK.Gen.Kernels
import DK.Lemmas.Calc
import DK.Lemmas.Sum
import DK.Model.Accept
import Mathlib.Tactic.Positivity
import Mathlib.Tactic.NormNum
import Mathlib.Tactic.Tauto
/-!
# C10 (finite-values half) — under the acceptance conditions every division and every power of the
scalar kernels is defined at every in-bounds flow

`DK.Gen.*_defined` are the side-conditions the translator T1 emits *from the current Python source*
(`/repo/device_kit/functions.py`) for every `/` and every general `**`, under the path condition that
reaches it.  The theorems below discharge them, so they are re-checked against the source on every run:
removing a zero-width guard, or the `a != 0` guard of `HLQuadraticCost._cost`, makes one of them fail.

Lean's `x / 0 = 0` and `Real.rpow 0 (-1/2) = 0` (`rpow_zero_neg_is_junk`) are *never* what makes a
statement true here: the predicates speak about divisors and bases, not about values.

Result in one table (`q = ABCCost.q`, which is `0` exactly when `a = 0` and `x = x_h`):

| kernel | defined for every accepted parameter set and in-bounds `x`? |
|---|---|
| `HLQuadraticCost._cost/_deriv/_hess` | yes, unconditionally (`hlq_*_defined`) |
| `ABCCost._cost` (`q ** b`) | yes (`abc_cost_defined`) |
| `ABCCost._deriv` (`q ** (b-1)`) | iff `x_l = x_h ∨ a > 0 ∨ x < x_h ∨ b ≥ 1` (`abc_deriv_defined_iff`); **not** for `b ∈ (0,1)`, `a = 0` at the upper bound (`abc_deriv_counterexample`) |
| `ABCCost._hess` (`q ** (b-2)`, skipped by the guard `x_l == x_h or b == 1`) | iff `x_l = x_h ∨ b = 1 ∨ a > 0 ∨ x < x_h ∨ b ≥ 2` (`abc_hess_defined_iff`); **not** for `b ∈ (0,2) \ {1}`, `a = 0` at the upper bound, e.g. `b = 3/2` (`abc_hess_counterexample`); for *integer* `b > 0` always (`idevice_model_defined`) |
| `TDevice`'s `ABCCost(0, 2, c, t_min, t_optimal)` | yes, at every temperature (`tdevice_kernel_defined`) |
-/
-- the simp calls below carry deliberately redundant arguments (both orientations of the zero-width
-- guard) so that they survive harmless re-generations of `DK.Gen`
set_option linter.unusedSimpArgs false
set_option linter.unusedVariables false

namespace DK.C10
open DK

/-! ## when is a power defined -/

/-- Python's float `x ** y` is finite and real: positive base, or zero base with a non-negative
exponent (`0.0 ** negative` raises `ZeroDivisionError`; a negative base with a non-integer exponent
is complex). -/
def powDef (x y : ℝ) : Prop := 0 < x ∨ (x = 0 ∧ 0 ≤ y)

/-- integer exponents (the executable model's `ipow`): only `0 ** negative` is undefined. -/
def ipowDef (x : ℝ) (k : ℤ) : Prop := x ≠ 0 ∨ 0 ≤ k

/-- `ipowDef` is exactly "the division inside `ipow` has a non-zero divisor". -/
theorem ipowDef_iff (x : ℝ) (k : ℤ) : ipowDef x k ↔ (¬ 0 ≤ k → npow x (-k).toNat ≠ 0) := by
  unfold ipowDef
  rw [npow_eq_pow]
  constructor
  · rintro (h | h) hk
    · exact pow_ne_zero _ h
    · exact absurd h hk
  · intro h
    by_cases hk : 0 ≤ k
    · exact Or.inr hk
    · left
      intro hx
      have hm : (-k).toNat ≠ 0 := by omega
      exact h hk (by rw [hx]; exact zero_pow hm)

/-- the real-exponent condition implies the integer one on integer exponents. -/
theorem powDef_int (x : ℝ) (k : ℤ) (h : powDef x (k : ℝ)) : ipowDef x k := by
  rcases h with h | ⟨_, h⟩
  · exact Or.inl (ne_of_gt h)
  · exact Or.inr (by exact_mod_cast h)

theorem powDef_iff_of_nonneg {q : ℝ} (hq : 0 ≤ q) (e : ℝ) : powDef q e ↔ (0 < q ∨ 0 ≤ e) := by
  unfold powDef
  constructor
  · rintro (h | ⟨_, h⟩)
    · exact Or.inl h
    · exact Or.inr h
  · rintro (h | h)
    · exact Or.inl h
    · rcases hq.lt_or_eq with h' | h'
      · exact Or.inl h'
      · exact Or.inr ⟨h'.symm, h⟩

theorem ipowDef_iff_of_nonneg {q : ℝ} (hq : 0 ≤ q) (k : ℤ) : ipowDef q k ↔ (0 < q ∨ 0 ≤ k) := by
  unfold ipowDef
  constructor
  · rintro (h | h)
    · exact Or.inl (lt_of_le_of_ne hq (Ne.symm h))
    · exact Or.inr h
  · rintro (h | h)
    · exact Or.inl (ne_of_gt h)
    · exact Or.inr h

/-- why the guard has to be stated: Mathlib's total `rpow` returns `0` where Python raises. -/
theorem rpow_zero_neg_is_junk : Real.rpow 0 (-(1 / 2)) = 0 :=
  Real.zero_rpow (by norm_num)

/-! ## the base `q` of the ABC cost inside the bounds -/

theorem abc_s_mem (x xl xh : ℝ) (h : xl < xh) (hx : xl ≤ x ∧ x ≤ xh) :
    0 ≤ Gen.abc_s x xl xh ∧ Gen.abc_s x xl xh ≤ 1 := by
  unfold Gen.abc_s
  have hd : 0 < xh - xl := sub_pos.mpr h
  constructor
  · exact div_nonneg (by linarith [hx.2]) hd.le
  · rw [div_le_one hd]; linarith [hx.1]

theorem abc_s_pos_iff (x xl xh : ℝ) (h : xl < xh) : 0 < Gen.abc_s x xl xh ↔ x < xh := by
  unfold Gen.abc_s
  have hd : 0 < xh - xl := sub_pos.mpr h
  rw [div_pos_iff_of_pos_right hd, sub_pos]

/-- inside the bounds, with `a ≥ 0`, the base of the power is non-negative … -/
theorem abc_q_nonneg (x xl xh a : ℝ) (h : xl < xh) (hx : xl ≤ x ∧ x ≤ xh) (ha : 0 ≤ a) :
    0 ≤ Gen.abc_q x xl xh a := by
  obtain ⟨h0, h1⟩ := abc_s_mem x xl xh h hx
  unfold Gen.abc_q
  have : 0 ≤ (1 - Gen.abc_s x xl xh) * a := mul_nonneg (by linarith) ha
  linarith

/-- … and it vanishes exactly at the upper bound of a curve with `a = 0`. -/
theorem abc_q_pos_iff (x xl xh a : ℝ) (h : xl < xh) (hx : xl ≤ x ∧ x ≤ xh) (ha : 0 ≤ a) :
    0 < Gen.abc_q x xl xh a ↔ (0 < a ∨ x < xh) := by
  obtain ⟨h0, h1⟩ := abc_s_mem x xl xh h hx
  have hs := abc_s_pos_iff x xl xh h
  unfold Gen.abc_q
  set s := Gen.abc_s x xl xh with hsdef
  constructor
  · intro hq
    by_contra hc
    rw [not_or] at hc
    have ha0 : a = 0 := le_antisymm (not_lt.mp hc.1) ha
    have hs0 : s = 0 := le_antisymm (not_lt.mp (fun hp => hc.2 (hs.mp hp))) h0
    rw [ha0, hs0] at hq
    simp at hq
  · rintro (hpos | hlt)
    · rcases le_or_gt a 1 with ha1 | ha1
      · nlinarith [mul_nonneg h0 (sub_nonneg.2 ha1)]
      · nlinarith [mul_nonneg (sub_nonneg.2 h1) (sub_nonneg.2 ha1.le)]
    · have : 0 < s := hs.mpr hlt
      have : 0 ≤ (1 - s) * a := mul_nonneg (by linarith) ha
      linarith

/-! ## HLQuadraticCost (IDevice2, CDevice2, `hlq` / `innerHlq` preference functions)

Defined for *all* real arguments: the zero-width guard protects `x_h − x_l`, and after the `p_l = p_h`
repair the `a != 0` guard protects `2·a`.  No acceptance condition is needed. -/

theorem hlq_cost_defined (x pl ph xl xh : ℝ) : Gen.hlq_cost_defined x pl ph xl xh := by
  by_cases h : xl = xh
  · simp [Gen.hlq_cost_defined, h]
  · have hd : xh - xl ≠ 0 := sub_ne_zero.mpr (Ne.symm h)
    simp [Gen.hlq_cost_defined, h, hd, Ne.symm h, sub_eq_zero]

theorem hlq_deriv_defined (x pl ph xl xh : ℝ) : Gen.hlq_deriv_defined x pl ph xl xh := by
  by_cases h : xl = xh
  · simp [Gen.hlq_deriv_defined, h]
  · have hd : xh - xl ≠ 0 := sub_ne_zero.mpr (Ne.symm h)
    simp [Gen.hlq_deriv_defined, h, hd, Ne.symm h, sub_eq_zero]

theorem hlq_hess_defined (x pl ph xl xh : ℝ) : Gen.hlq_hess_defined x pl ph xl xh := by
  by_cases h : xl = xh
  · simp [Gen.hlq_hess_defined, h]
  · have hd : xh - xl ≠ 0 := sub_ne_zero.mpr (Ne.symm h)
    simp [Gen.hlq_hess_defined, h, hd, Ne.symm h, sub_eq_zero]

/-- IDevice2: every slot of every accepted device, at every flow (in bounds or not). -/
theorem idevice2_defined (n : ℕ) (pl ph lb hb s : ℕ → ℝ) : ∀ k < n,
    Gen.hlq_cost_defined (s k) (pl k) (ph k) (lb k) (hb k)
    ∧ Gen.hlq_deriv_defined (s k) (pl k) (ph k) (lb k) (hb k)
    ∧ Gen.hlq_hess_defined (s k) (pl k) (ph k) (lb k) (hb k) :=
  fun k _ => ⟨hlq_cost_defined _ _ _ _ _, hlq_deriv_defined _ _ _ _ _, hlq_hess_defined _ _ _ _ _⟩

/-- CDevice2: the curve of every cumulative bound, at the sum of any flow over any range. -/
theorem cdevice2_defined (pl ph : ℝ) (cbs : List (CBound ℝ)) (x : ℝ) : ∀ cb ∈ cbs,
    Gen.hlq_cost_defined x pl ph cb.l cb.h ∧ Gen.hlq_deriv_defined x pl ph cb.l cb.h
    ∧ Gen.hlq_hess_defined x pl ph cb.l cb.h :=
  fun _ _ => ⟨hlq_cost_defined _ _ _ _ _, hlq_deriv_defined _ _ _ _ _, hlq_hess_defined _ _ _ _ _⟩

/-! ## ABCCost with a real exponent (IDevice, `abc` preference functions) -/

section real
variable (x a b c xl xh : ℝ)

/-- on the non-degenerate path the side-condition of `_cost` is the one of its power. -/
theorem abc_cost_defined_iff_pow (h : xl ≠ xh) :
    Gen.abc_cost_defined Real.rpow powDef x a b c xl xh ↔ powDef (Gen.abc_q x xl xh a) b := by
  have hd : xh - xl ≠ 0 := sub_ne_zero.mpr (Ne.symm h)
  simp [Gen.abc_cost_defined, Gen.abc_q_defined, Gen.abc_s_defined, h, hd, Ne.symm h, sub_eq_zero]

theorem abc_deriv_defined_iff_pow (h : xl ≠ xh) :
    Gen.abc_deriv_defined Real.rpow powDef id x a b c xl xh ↔ powDef (Gen.abc_q x xl xh a) (b - 1) := by
  have hd : xh - xl ≠ 0 := sub_ne_zero.mpr (Ne.symm h)
  simp [Gen.abc_deriv_defined, Gen.abc_q_defined, Gen.abc_s_defined, h, hd, Ne.symm h, sub_eq_zero]

/-- on the non-degenerate path the side-condition of `_hess` is the one of its power, unless the
linear-curve guard `b == 1` returns `0` before the power is computed.
(before the `b == 1` guard: `… ↔ powDef (Gen.abc_q x xl xh a) (b - 2)`) -/
theorem abc_hess_defined_iff_pow (h : xl ≠ xh) :
    Gen.abc_hess_defined Real.rpow powDef id x a b c xl xh
      ↔ (b = 1 ∨ powDef (Gen.abc_q x xl xh a) (b - 2)) := by
  have hd : xh - xl ≠ 0 := sub_ne_zero.mpr (Ne.symm h)
  by_cases hb : b = 1
  · simp [Gen.abc_hess_defined, hb]
  · simp [Gen.abc_hess_defined, Gen.abc_q_defined, Gen.abc_s_defined, h, hd, hb, Ne.symm h, sub_eq_zero]

/-- `ABCCost._cost`: exact characterisation inside the bounds. -/
theorem abc_cost_defined_iff (hle : xl ≤ xh) (hx : xl ≤ x ∧ x ≤ xh) (ha : 0 ≤ a) :
    Gen.abc_cost_defined Real.rpow powDef x a b c xl xh ↔ (xl = xh ∨ 0 < a ∨ x < xh ∨ 0 ≤ b) := by
  by_cases h : xl = xh
  · simp [Gen.abc_cost_defined, h]
  · have hlt : xl < xh := lt_of_le_of_ne hle h
    rw [abc_cost_defined_iff_pow x a b c xl xh h, powDef_iff_of_nonneg (abc_q_nonneg x xl xh a hlt hx ha),
      abc_q_pos_iff x xl xh a hlt hx ha]
    tauto

/-- **`ABCCost._cost` is defined for every accepted IDevice slot at every in-bounds flow.** -/
theorem abc_cost_defined (hle : xl ≤ xh) (hx : xl ≤ x ∧ x ≤ xh) (ha : 0 ≤ a) (hb : 0 < b) :
    Gen.abc_cost_defined Real.rpow powDef x a b c xl xh :=
  (abc_cost_defined_iff x a b c xl xh hle hx ha).mpr (Or.inr (Or.inr (Or.inr hb.le)))

/-- `ABCCost._deriv`: exact characterisation inside the bounds. -/
theorem abc_deriv_defined_iff (hle : xl ≤ xh) (hx : xl ≤ x ∧ x ≤ xh) (ha : 0 ≤ a) :
    Gen.abc_deriv_defined Real.rpow powDef id x a b c xl xh ↔ (xl = xh ∨ 0 < a ∨ x < xh ∨ 1 ≤ b) := by
  by_cases h : xl = xh
  · simp [Gen.abc_deriv_defined, h]
  · have hlt : xl < xh := lt_of_le_of_ne hle h
    rw [abc_deriv_defined_iff_pow x a b c xl xh h, powDef_iff_of_nonneg (abc_q_nonneg x xl xh a hlt hx ha),
      abc_q_pos_iff x xl xh a hlt hx ha, sub_nonneg]
    tauto

/-- **`ABCCost._deriv` is defined** under the strongest hypothesis that works: a zero-width slot, or
`a > 0`, or a flow below the upper bound, or an exponent `b ≥ 1`. -/
theorem abc_deriv_defined (hle : xl ≤ xh) (hx : xl ≤ x ∧ x ≤ xh) (ha : 0 ≤ a)
    (hcorner : xl = xh ∨ 0 < a ∨ x < xh ∨ 1 ≤ b) :
    Gen.abc_deriv_defined Real.rpow powDef id x a b c xl xh :=
  (abc_deriv_defined_iff x a b c xl xh hle hx ha).mpr hcorner

/-- `ABCCost._hess`: exact characterisation inside the bounds.
(before the `b == 1` guard: `… ↔ (xl = xh ∨ 0 < a ∨ x < xh ∨ 2 ≤ b)`) -/
theorem abc_hess_defined_iff (hle : xl ≤ xh) (hx : xl ≤ x ∧ x ≤ xh) (ha : 0 ≤ a) :
    Gen.abc_hess_defined Real.rpow powDef id x a b c xl xh
      ↔ (xl = xh ∨ b = 1 ∨ 0 < a ∨ x < xh ∨ 2 ≤ b) := by
  by_cases h : xl = xh
  · simp [Gen.abc_hess_defined, h]
  · have hlt : xl < xh := lt_of_le_of_ne hle h
    rw [abc_hess_defined_iff_pow x a b c xl xh h, powDef_iff_of_nonneg (abc_q_nonneg x xl xh a hlt hx ha),
      abc_q_pos_iff x xl xh a hlt hx ha, sub_nonneg]
    tauto

/-- **`ABCCost._hess` is defined** under the strongest hypothesis that works (`b = 1` or `b ≥ 2` at the
corner).  (before the `b == 1` guard: `hcorner : xl = xh ∨ 0 < a ∨ x < xh ∨ 2 ≤ b`) -/
theorem abc_hess_defined (hle : xl ≤ xh) (hx : xl ≤ x ∧ x ≤ xh) (ha : 0 ≤ a)
    (hcorner : xl = xh ∨ b = 1 ∨ 0 < a ∨ x < xh ∨ 2 ≤ b) :
    Gen.abc_hess_defined Real.rpow powDef id x a b c xl xh :=
  (abc_hess_defined_iff x a b c xl xh hle hx ha).mpr hcorner

end real

/-- non-vacuity of the positive statements: the default IDevice curve (`a = 0, b = 2, c = 1`) on `[0, 2]`
at its upper bound satisfies every hypothesis. -/
example : (0 : ℝ) ≤ 2 ∧ ((0 : ℝ) ≤ 2 ∧ (2 : ℝ) ≤ 2) ∧ (0 : ℝ) ≤ 0 ∧ (0 : ℝ) < 2
    ∧ ((0 : ℝ) = 2 ∨ (0 : ℝ) < 0 ∨ (2 : ℝ) < 2 ∨ (2 : ℝ) ≤ 2)
    ∧ ((0 : ℝ) = 2 ∨ (2 : ℝ) = 1 ∨ (0 : ℝ) < 0 ∨ (2 : ℝ) < 2 ∨ (2 : ℝ) ≤ 2) := by norm_num

/-- **accepted but not usable (marginal cost)**: `IDevice(a = 0, b = 1/2, c = 1)` on `[0, 2]` is accepted
(`a ≥ 0`, `b > 0`, `c ≥ 0`, `lb ≤ hb`), the flow `2` is in bounds, and `_deriv` computes `0 ** (−1/2)`. -/
theorem abc_deriv_counterexample :
    ∃ x a b c xl xh : ℝ, xl ≤ xh ∧ (xl ≤ x ∧ x ≤ xh) ∧ 0 ≤ a ∧ 0 < b ∧ 0 ≤ c
      ∧ ¬ Gen.abc_deriv_defined Real.rpow powDef id x a b c xl xh := by
  refine ⟨2, 0, 1 / 2, 1, 0, 2, by norm_num, by norm_num, le_refl _, by norm_num, by norm_num, ?_⟩
  rw [abc_deriv_defined_iff 2 0 (1 / 2) 1 0 2 (by norm_num) (by norm_num) (le_refl _)]
  norm_num

/-- **accepted but not usable (Hessian)**: `IDevice(a = 0, b = 3/2, c = 1)` on `[0, 2]` computes
`0 ** (−1/2)` at the upper bound.  (The linear curve `b = 1`, the witness before the `b == 1` guard was
added to `ABCCost._hess`, is no longer a counterexample: `abc_hess_linear_defined`.) -/
theorem abc_hess_counterexample :
    ∃ x a b c xl xh : ℝ, xl ≤ xh ∧ (xl ≤ x ∧ x ≤ xh) ∧ 0 ≤ a ∧ 0 < b ∧ 0 ≤ c
      ∧ ¬ Gen.abc_hess_defined Real.rpow powDef id x a b c xl xh := by
  refine ⟨2, 0, 3 / 2, 1, 0, 2, by norm_num, by norm_num, le_refl _, by norm_num, by norm_num, ?_⟩
  rw [abc_hess_defined_iff 2 0 (3 / 2) 1 0 2 (by norm_num) (by norm_num) (le_refl _)]
  norm_num

/-- the linear curve `b = 1` never reaches the power: defined for *all* real arguments. -/
theorem abc_hess_linear_defined (x a c xl xh : ℝ) :
    Gen.abc_hess_defined Real.rpow powDef id x a 1 c xl xh := by
  simp [Gen.abc_hess_defined]

/-- IDevice, all slots: the cost kernel is defined for every accepted device at every in-bounds flow. -/
theorem idevice_cost_defined (n : ℕ) (lb hb a b c s : ℕ → ℝ) (hbd : accBounds n lb hb)
    (hacc : ∀ k < n, 0 ≤ a k ∧ 0 < b k ∧ 0 ≤ c k) (hs : InBox n lb hb s) :
    ∀ k < n, Gen.abc_cost_defined Real.rpow powDef (s k) (a k) (b k) (c k) (lb k) (hb k) :=
  fun k hk => abc_cost_defined _ _ _ _ _ _ (hbd k hk) (hs k hk) (hacc k hk).1 (hacc k hk).2.1

/-- IDevice, all slots: the marginal-cost kernel is defined iff no slot sits in the corner
`a_k = 0 ∧ s_k = hb_k ∧ lb_k < hb_k ∧ b_k < 1`. -/
theorem idevice_deriv_defined_iff (n : ℕ) (lb hb a b c s : ℕ → ℝ) (hbd : accBounds n lb hb)
    (hacc : ∀ k < n, 0 ≤ a k ∧ 0 < b k ∧ 0 ≤ c k) (hs : InBox n lb hb s) :
    (∀ k < n, Gen.abc_deriv_defined Real.rpow powDef id (s k) (a k) (b k) (c k) (lb k) (hb k))
      ↔ ∀ k < n, lb k = hb k ∨ 0 < a k ∨ s k < hb k ∨ 1 ≤ b k :=
  forall₂_congr fun k hk => abc_deriv_defined_iff _ _ _ _ _ _ (hbd k hk) (hs k hk) (hacc k hk).1

/-- IDevice, all slots: the Hessian kernel is defined iff no slot sits in the corner
`a_k = 0 ∧ s_k = hb_k ∧ lb_k < hb_k ∧ b_k < 2 ∧ b_k ≠ 1`.
(before the `b == 1` guard: `… ↔ ∀ k < n, lb k = hb k ∨ 0 < a k ∨ s k < hb k ∨ 2 ≤ b k`) -/
theorem idevice_hess_defined_iff (n : ℕ) (lb hb a b c s : ℕ → ℝ) (hbd : accBounds n lb hb)
    (hacc : ∀ k < n, 0 ≤ a k ∧ 0 < b k ∧ 0 ≤ c k) (hs : InBox n lb hb s) :
    (∀ k < n, Gen.abc_hess_defined Real.rpow powDef id (s k) (a k) (b k) (c k) (lb k) (hb k))
      ↔ ∀ k < n, lb k = hb k ∨ b k = 1 ∨ 0 < a k ∨ s k < hb k ∨ 2 ≤ b k :=
  forall₂_congr fun k hk => abc_hess_defined_iff _ _ _ _ _ _ (hbd k hk) (hs k hk) (hacc k hk).1

/-- with exponents `≥ 2` (the default is `2`) an accepted IDevice is usable on its whole box. -/
theorem idevice_all_defined (n : ℕ) (lb hb a b c s : ℕ → ℝ) (hbd : accBounds n lb hb)
    (hacc : ∀ k < n, 0 ≤ a k ∧ 0 < b k ∧ 0 ≤ c k) (hb2 : ∀ k < n, 2 ≤ b k) (hs : InBox n lb hb s) :
    ∀ k < n, Gen.abc_cost_defined Real.rpow powDef (s k) (a k) (b k) (c k) (lb k) (hb k)
      ∧ Gen.abc_deriv_defined Real.rpow powDef id (s k) (a k) (b k) (c k) (lb k) (hb k)
      ∧ Gen.abc_hess_defined Real.rpow powDef id (s k) (a k) (b k) (c k) (lb k) (hb k) := by
  intro k hk
  refine ⟨idevice_cost_defined n lb hb a b c s hbd hacc hs k hk, ?_, ?_⟩
  · exact abc_deriv_defined _ _ _ _ _ _ (hbd k hk) (hs k hk) (hacc k hk).1
      (Or.inr (Or.inr (Or.inr (by linarith [hb2 k hk]))))
  · exact abc_hess_defined _ _ _ _ _ _ (hbd k hk) (hs k hk) (hacc k hk).1
      (Or.inr (Or.inr (Or.inr (Or.inr (hb2 k hk)))))

/-- non-vacuity: a three-slot IDevice with one zero-width slot, at its upper bounds. -/
example : ∃ lb hb a b c s : ℕ → ℝ, accBounds 3 lb hb ∧ (∀ k < 3, 0 ≤ a k ∧ 0 < b k ∧ 0 ≤ c k)
    ∧ (∀ k < 3, 2 ≤ b k) ∧ InBox 3 lb hb s :=
  ⟨fun _ => 0, fun k => if k = 1 then 0 else 2, fun _ => 0, fun _ => 2, fun _ => 1,
    fun k => if k = 1 then 0 else 2,
    fun k _ => by by_cases h : k = 1 <;> simp [h],
    fun _ _ => by norm_num, fun _ _ => le_refl _,
    fun k _ => by by_cases h : k = 1 <;> simp [h]⟩

/-! ## ABCCost with an integer exponent — the instance the executable model runs (`ipow`, `Kind.idevice`) -/

section int
variable (x a : ℝ) (b : ℤ) (c xl xh : ℝ)

theorem abc_cost_defined_int_iff (hle : xl ≤ xh) (hx : xl ≤ x ∧ x ≤ xh) (ha : 0 ≤ a) :
    Gen.abc_cost_defined ipow ipowDef x a b c xl xh ↔ (xl = xh ∨ 0 < a ∨ x < xh ∨ 0 ≤ b) := by
  by_cases h : xl = xh
  · simp [Gen.abc_cost_defined, h]
  · have hlt : xl < xh := lt_of_le_of_ne hle h
    have hd : xh - xl ≠ 0 := sub_ne_zero.mpr (Ne.symm h)
    have e : Gen.abc_cost_defined ipow ipowDef x a b c xl xh ↔ ipowDef (Gen.abc_q x xl xh a) b := by
      simp [Gen.abc_cost_defined, Gen.abc_q_defined, Gen.abc_s_defined, h, hd, Ne.symm h, sub_eq_zero]
    rw [e, ipowDef_iff_of_nonneg (abc_q_nonneg x xl xh a hlt hx ha), abc_q_pos_iff x xl xh a hlt hx ha]
    tauto

theorem abc_deriv_defined_int_iff (hle : xl ≤ xh) (hx : xl ≤ x ∧ x ≤ xh) (ha : 0 ≤ a) :
    Gen.abc_deriv_defined ipow ipowDef intCast' x a b c xl xh ↔ (xl = xh ∨ 0 < a ∨ x < xh ∨ 1 ≤ b) := by
  by_cases h : xl = xh
  · simp [Gen.abc_deriv_defined, h]
  · have hlt : xl < xh := lt_of_le_of_ne hle h
    have hd : xh - xl ≠ 0 := sub_ne_zero.mpr (Ne.symm h)
    have e : Gen.abc_deriv_defined ipow ipowDef intCast' x a b c xl xh ↔ ipowDef (Gen.abc_q x xl xh a) (b - 1) := by
      simp [Gen.abc_deriv_defined, Gen.abc_q_defined, Gen.abc_s_defined, h, hd, Ne.symm h, sub_eq_zero]
    rw [e, ipowDef_iff_of_nonneg (abc_q_nonneg x xl xh a hlt hx ha), abc_q_pos_iff x xl xh a hlt hx ha,
      sub_nonneg]
    tauto

/-- (before the `b == 1` guard: `… ↔ (xl = xh ∨ 0 < a ∨ x < xh ∨ 2 ≤ b)`) -/
theorem abc_hess_defined_int_iff (hle : xl ≤ xh) (hx : xl ≤ x ∧ x ≤ xh) (ha : 0 ≤ a) :
    Gen.abc_hess_defined ipow ipowDef intCast' x a b c xl xh
      ↔ (xl = xh ∨ b = 1 ∨ 0 < a ∨ x < xh ∨ 2 ≤ b) := by
  by_cases h : xl = xh
  · simp [Gen.abc_hess_defined, h]
  · have hlt : xl < xh := lt_of_le_of_ne hle h
    have hd : xh - xl ≠ 0 := sub_ne_zero.mpr (Ne.symm h)
    have hc : (intCast' b : ℝ) = 1 ↔ b = 1 := by rw [intCast'_eq]; exact Int.cast_eq_one
    have e : Gen.abc_hess_defined ipow ipowDef intCast' x a b c xl xh
        ↔ (b = 1 ∨ ipowDef (Gen.abc_q x xl xh a) (b - 2)) := by
      by_cases hb : b = 1
      · simp [Gen.abc_hess_defined, hb, hc]
      · simp [Gen.abc_hess_defined, Gen.abc_q_defined, Gen.abc_s_defined, h, hd, hb, hc, Ne.symm h,
          sub_eq_zero]
    rw [e, ipowDef_iff_of_nonneg (abc_q_nonneg x xl xh a hlt hx ha), abc_q_pos_iff x xl xh a hlt hx ha,
      sub_nonneg]
    tauto

end int

/-- the executable IDevice model under its own acceptance predicate: cost always defined; marginal cost
always defined (integer `b > 0` is `b ≥ 1`); Hessian always defined (integer `b > 0` is `b = 1`, caught by
the `b == 1` guard, or `b ≥ 2`).
(before the `b == 1` guard the third part was only
`(∀ k < n, Gen.abc_hess_defined …) ↔ ∀ k < n, lb k = hb k ∨ 0 < a k ∨ s k < hb k ∨ 2 ≤ b k`) -/
theorem idevice_model_defined (n : ℕ) (lb hb a : ℕ → ℝ) (b : ℕ → ℤ) (c s : ℕ → ℝ)
    (hbd : accBounds n lb hb) (hacc : accABC n a b c) (hs : InBox n lb hb s) :
    (∀ k < n, Gen.abc_cost_defined ipow ipowDef (s k) (a k) (b k) (c k) (lb k) (hb k))
    ∧ (∀ k < n, Gen.abc_deriv_defined ipow ipowDef intCast' (s k) (a k) (b k) (c k) (lb k) (hb k))
    ∧ (∀ k < n, Gen.abc_hess_defined ipow ipowDef intCast' (s k) (a k) (b k) (c k) (lb k) (hb k)) := by
  refine ⟨fun k hk => ?_, fun k hk => ?_, fun k hk => ?_⟩
  · exact (abc_cost_defined_int_iff _ _ _ _ _ _ (hbd k hk) (hs k hk) (hacc k hk).1).mpr
      (Or.inr (Or.inr (Or.inr (le_of_lt (hacc k hk).2.1))))
  · exact (abc_deriv_defined_int_iff _ _ _ _ _ _ (hbd k hk) (hs k hk) (hacc k hk).1).mpr
      (Or.inr (Or.inr (Or.inr (hacc k hk).2.1)))
  · refine (abc_hess_defined_int_iff _ _ _ _ _ _ (hbd k hk) (hs k hk) (hacc k hk).1).mpr ?_
    have hb0 : 0 < b k := (hacc k hk).2.1
    rcases (show b k = 1 ∨ 2 ≤ b k by omega) with h1 | h2
    · exact Or.inr (Or.inl h1)
    · exact Or.inr (Or.inr (Or.inr (Or.inr h2)))

/-- non-vacuity: `accABC` / `accBounds` / `InBox` are jointly satisfiable. -/
example : ∃ (lb hb a : ℕ → ℝ) (b : ℕ → ℤ) (c s : ℕ → ℝ),
    accBounds 2 lb hb ∧ accABC 2 a b c ∧ InBox 2 lb hb s :=
  ⟨fun _ => 0, fun _ => 2, fun _ => 0, fun _ => 1, fun _ => 1, fun _ => 2,
    fun _ _ => by norm_num, fun _ _ => by norm_num, fun _ _ => by norm_num⟩

/-! ## TDevice: `ABCCost(0, 2, c, t_min, t_optimal)` (tdevice.py:61)

The argument is a *temperature*, not a flow, so it is not confined to `[t_min, t_optimal]` and the base
`q` may be negative or zero; with the literal exponent `2` the three powers are `q², q¹, q⁰`. -/
theorem tdevice_kernel_defined (t c topt trange : ℝ) :
    Gen.abc_cost_defined ipow ipowDef t 0 (2 : ℤ) c (topt - trange) topt
    ∧ Gen.abc_deriv_defined ipow ipowDef intCast' t 0 (2 : ℤ) c (topt - trange) topt
    ∧ Gen.abc_hess_defined ipow ipowDef intCast' t 0 (2 : ℤ) c (topt - trange) topt := by
  by_cases h : topt - trange = topt
  · simp [Gen.abc_cost_defined, Gen.abc_deriv_defined, Gen.abc_hess_defined, h]
  · have hd : topt - (topt - trange) ≠ 0 := sub_ne_zero.mpr (Ne.symm h)
    have hr : ¬ trange = 0 := fun h0 => h (by rw [h0, sub_zero])
    simp [Gen.abc_cost_defined, Gen.abc_deriv_defined, Gen.abc_hess_defined, Gen.abc_q_defined,
      Gen.abc_s_defined, ipowDef, h, hd, hr]

/-! ## device-level normalisations and divisors -/

/-- `costv = f(s)/len + s·p`, `cost = costv.sum()` (idevice.py:21-25, idevice2.py:33-37, tdevice.py:74-79):
the divisor `len` is non-zero for `len ≥ 1` and the sum gives back `f(s) + Σ s·p`, the model's cost. -/
theorem len_norm (n : ℕ) (hn : 1 ≤ n) (F : ℝ) (s p : ℕ → ℝ) :
    (n : ℝ) ≠ 0 ∧ sumTo n (fun k => F / (n : ℝ) + s k * p k) = F + priceTerm n s p := by
  have hn0 : (n : ℝ) ≠ 0 := by
    have : (0 : ℝ) < n := by exact_mod_cast hn
    exact ne_of_gt this
  refine ⟨hn0, ?_⟩
  rw [sumTo_add, sumTo_const]
  unfold priceTerm
  field_simp

example : (1 : ℕ) ≤ 3 := by norm_num

/-- SDevice: `e ** sign(r)` is `1/e` for a negative flow (utils.py:20, sdevice.py:92,163) and the rate-clip
closures divide by `capacity` (sdevice.py:190,201); both divisors are non-zero for an accepted device. -/
theorem sdevice_divisors (q : SParams ℝ) (h : accSParams q) : q.efficiency ≠ 0 ∧ q.capacity ≠ 0 := by
  obtain ⟨_, _, _, _, hcap, _, _, _, heff, _⟩ := h
  exact ⟨ne_of_gt heff.1, ne_of_gt hcap⟩

example : ∃ q : SParams ℝ, accSParams q :=
  ⟨⟨1, 0, 0, 10, 0, 0, 0, 1, 1⟩, by unfold accSParams; norm_num⟩

/-- MFDeviceSet.project divides by the number of conduits (mfdeviceset.py:96); the constructor demands
at least one flow (mfdeviceset.py:27). -/
theorem mf_conduits (flows : List String) (h : flows ≠ []) : (flows.length : ℝ) ≠ 0 := by
  have : 0 < flows.length := List.length_pos_iff.mpr h
  exact_mod_cast (ne_of_gt this)

example : (["e", "h"] : List String) ≠ [] := by simp

end DK.C10
