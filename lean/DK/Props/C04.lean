import DK.Props.C02
import DK.Lemmas.SetLemmas
/-!
# C04 — set-level coupling constraints encode the documented aggregate limits

For every device set the *own* constraints (`ownCons`, `Block.ofMF … .cons`: lists of SciPy-style
closures, mirrored from deviceset.py:163-181, subbalanceddeviceset.py:22-39, mfdeviceset.py:68-84,
tworatiomfdeviceset.py:23-35) are satisfied by a flow matrix **iff** the documented arithmetic
statement holds — for every horizon `n`, every number of rows, every bounds table, every label
set, constraint type, sign and ratio, and every matrix.  `tree_feasible_iff` puts this together
with C02's `cons_sat_iff` for every nesting depth simultaneously.

The right-hand sides are written from the property text, not from the list code:
* `AggSpec`      : per slot, `lo ≤ Σ_{rows under the set} S r i ≤ hi`;
* `labelSum`     : `Σ_{k < #rows, label k ends with l} S k i` (a masked sum over *all* rows);
* `BalanceSpec`  : `sign·labelSum = 0` (`≥ 0` for `ineq`) per label and slot, and the same for the
                   rows matched by no label when `apply_to_remaining`;
* `RatioSpec`    : `S 0 i·r₀ − S 1 i·r₁ = 0` (`≥ 0`) per slot;
* `MFSpec`       : the column sum of the conduits lies in the wrapped device's per-slot bounds and
                   satisfies every wrapped constraint (and the ratio, when configured).

Outside the model (T2 / oracle only): labels containing regular-expression metacharacters
(`re.match('.*label$')` is modelled as a suffix test), duplicate qualified ids (the code keys an
`OrderedDict` by qualified id, so two leaves with the same qualified id collapse).
-/
namespace DK.C04
open DK DK.C02

/-! ## specifications (from the property text) -/

/-- per slot the sum over the `R` rows under the set lies within that slot's aggregate bounds. -/
def AggSpec (n R : ℕ) (sb : ℕ → ℝ × ℝ) (S : Mat ℝ) : Prop :=
  ∀ i < n, (sb i).1 ≤ colSum R S i ∧ colSum R S i ≤ (sb i).2

/-- sum at slot `i` of the rows whose qualified id ends with `l`. -/
def labelSum (labels : List String) (l : String) (S : Mat ℝ) (i : ℕ) : ℝ :=
  sumTo labels.length (fun k => if (labels.getD k "").endsWith l then S k i else 0)

/-- sum at slot `i` of the rows whose qualified id ends with none of `ls`. -/
def restSum (labels ls : List String) (S : Mat ℝ) (i : ℕ) : ℝ :=
  sumTo labels.length (fun k => if ls.all (fun l => !((labels.getD k "").endsWith l)) then S k i else 0)

/-- label balancing of a sub-balanced set. -/
def BalanceSpec (n : ℕ) (own : NodeSpec ℝ) (labels : List String) (S : Mat ℝ) : Prop :=
  (∀ l ∈ own.labels, ∀ i < n, Holds own.balEq (own.sign * labelSum labels l S i)) ∧
  (own.applyToRemaining = true → ∀ i < n, Holds own.balEq (own.sign * restSum labels own.labels S i))

/-- everything a set adds itself. -/
def OwnSpec (n R : ℕ) (own : NodeSpec ℝ) (labels : List String) (S : Mat ℝ) : Prop :=
  (∀ sb, own.sbounds = some sb → AggSpec n R sb S) ∧ BalanceSpec n own labels S

/-- two-ratio coupling of the two conduits. -/
def RatioSpec (n : ℕ) (e : Bool) (r0 r1 : ℝ) (S : Mat ℝ) : Prop :=
  ∀ i < n, Holds e (S 0 i * r0 - S 1 i * r1)

/-- multi-flow adaptor with `k` conduits over the wrapped device `d` with constraint list `cons`. -/
def MFSpec (d : Leaf ℝ) (cons : List (Con ℝ)) (k : ℕ) (ratio : Option (Bool × ℝ × ℝ)) (S : Mat ℝ) : Prop :=
  (∀ i < d.n, d.lb i ≤ colSum k S i ∧ colSum k S i ≤ d.hb i) ∧
  (∀ c ∈ cons, c.Sat (colSum k S)) ∧
  (∀ e r0 r1, ratio = some (e, r0, r1) → RatioSpec d.n e r0 r1 S)

/-! ## aggregate bounds -/

/-- the per-slot `eq` / paired-`ineq` closures over the column sum hold iff every slot's column
sum is within that slot's bounds.  (Both branches of the `lo = hi` switch say the same thing, so no
hypothesis `lo ≤ hi` — which `validate_bounds` enforces — is needed.) -/
theorem sbounds_sat_iff (n R : ℕ) (sb : ℕ → ℝ × ℝ) (S : Mat ℝ) :
    (∀ c ∈ (List.range n).flatMap (sboundCons R sb), c.Sat S) ↔ AggSpec n R sb S :=
  sboundCons_range_sat n R sb S

/-- corollary: where `low = high` the column sum is *exactly* that value. -/
theorem sbounds_eq_of_sat (n R : ℕ) (sb : ℕ → ℝ × ℝ) (S : Mat ℝ)
    (h : ∀ c ∈ (List.range n).flatMap (sboundCons R sb), c.Sat S) (i : ℕ) (hi : i < n)
    (heq : (sb i).1 = (sb i).2) : colSum R S i = (sb i).1 := by
  have := (sbounds_sat_iff n R sb S).1 h i hi
  rw [← heq] at this
  exact le_antisymm this.2 this.1

/-- the emitted kinds: one `eq` when `low = high`, two `ineq` otherwise (what SLSQP is told). -/
theorem sbounds_kinds (R : ℕ) (sb : ℕ → ℝ × ℝ) (i : ℕ) :
    ((sb i).1 = (sb i).2 → (sboundCons R sb i).map MCon.isEq = [true]) ∧
    ((sb i).1 ≠ (sb i).2 → (sboundCons R sb i).map MCon.isEq = [false, false]) := by
  unfold sboundCons
  constructor <;> intro h <;> simp [h]

example : ∃ (sb : ℕ → ℝ × ℝ) (S : Mat ℝ), AggSpec 2 3 sb S ∧ (sb 0).1 = (sb 0).2 ∧ (sb 1).1 ≠ (sb 1).2 :=
  ⟨fun i => if i = 0 then (3, 3) else (0, 1), fun _ i => if i = 0 then 1 else 0,
   by intro i hi; rcases (by omega : i = 0 ∨ i = 1) with rfl | rfl <;> norm_num [colSum, sumTo], by norm_num, by norm_num⟩

/-! ## label balancing -/

/-- one label: the `n` closures built for its row set hold iff the signed sum of the rows whose
qualified id ends with the label is `= 0` (`≥ 0`) in every slot. -/
theorem label_sat_iff (n : ℕ) (isEq : Bool) (sign : ℝ) (labels : List String) (l : String) (S : Mat ℝ) :
    (∀ c ∈ (List.range n).map (balanceCon isEq sign (labelledRows labels l)), c.Sat S) ↔
      ∀ i < n, Holds isEq (sign * labelSum labels l S i) := by
  have h := balanceCons_sat n isEq sign [labelledRows labels l] S
  simp only [List.flatMap_cons, List.flatMap_nil, List.append_nil, List.forall_mem_singleton] at h
  simp only [h, rowSetSum_labelled, labelSum]

/-- all labelled sets and (when configured) the unlabelled remainder. -/
theorem balance_sat_iff (n : ℕ) (own : NodeSpec ℝ) (labels : List String) (S : Mat ℝ) :
    (∀ c ∈ ((own.labels.map (labelledRows labels)) ++
        (if own.applyToRemaining then [unlabelledRows labels own.labels] else [])).flatMap
          (fun rows => (List.range n).map (balanceCon own.balEq own.sign rows)), c.Sat S) ↔
      BalanceSpec n own labels S := by
  rw [balanceCons_sat]
  unfold BalanceSpec labelSum restSum
  simp only [List.forall_mem_append, List.forall_mem_map, rowSetSum_labelled]
  constructor
  · rintro ⟨h1, h2⟩
    refine ⟨h1, fun hr i hi => ?_⟩
    rw [hr] at h2
    have := h2 _ (List.mem_singleton.2 rfl) i hi
    rwa [rowSetSum_unlabelled] at this
  · rintro ⟨h1, h2⟩
    refine ⟨h1, ?_⟩
    intro rows hrows i hi
    by_cases hr : own.applyToRemaining = true
    · rw [if_pos hr] at hrows
      rw [List.mem_singleton.1 hrows, rowSetSum_unlabelled]
      exact h2 hr i hi
    · rw [if_neg hr] at hrows
      exact absurd hrows (List.not_mem_nil)

/-- reading of the signed condition for the two configurable signs the documentation mentions. -/
theorem holds_sign (isEq : Bool) (sign v : ℝ) :
    (sign ≠ 0 → isEq = true → (Holds isEq (sign * v) ↔ v = 0)) ∧
    (sign = 1 → isEq = false → (Holds isEq (sign * v) ↔ 0 ≤ v)) ∧
    (sign = -1 → isEq = false → (Holds isEq (sign * v) ↔ v ≤ 0)) := by
  refine ⟨fun hs he => ?_, fun hs he => ?_, fun hs he => ?_⟩
  · subst he; rw [holds_true, mul_eq_zero]; exact ⟨fun h => h.resolve_left hs, Or.inr⟩
  · subst he; subst hs; rw [holds_false, one_mul]
  · subst he; subst hs; rw [holds_false]; constructor <;> intro h <;> linarith

/-- which rows a label touches: exactly those `k < #labels` whose label ends with `l`. -/
theorem labelSum_rows (labels : List String) (l : String) (S S' : Mat ℝ) (i : ℕ)
    (h : ∀ k < labels.length, (labels.getD k "").endsWith l = true → S k i = S' k i) :
    labelSum labels l S i = labelSum labels l S' i := by
  unfold labelSum
  refine sumTo_congr (fun k hk => ?_)
  by_cases hp : (labels.getD k "").endsWith l = true
  · simp only [hp, if_true]; exact h k hk hp
  · simp only [hp]; rfl

/-! ## a set's own constraints, all together -/

theorem ownCons_sat_iff (n R : ℕ) (own : NodeSpec ℝ) (labels : List String) (S : Mat ℝ) :
    (∀ c ∈ ownCons n R own labels, c.Sat S) ↔ OwnSpec n R own labels S := by
  unfold ownCons OwnSpec
  rw [List.forall_mem_append, balance_sat_iff]
  refine and_congr ?_ Iff.rfl
  cases hsb : own.sbounds with
  | none => simp
  | some sb =>
    simp only [Option.some.injEq, forall_eq']
    exact sbounds_sat_iff n R sb S

/-- non-vacuity: a sub-balanced set over rows labelled `a.x.e`, `a.y.h`, `a.z.e` with per-slot mixed
equality / inequality aggregate bounds, label `e`, remainder balanced too. -/
example : ∃ (own : NodeSpec ℝ) (labels : List String) (S : Mat ℝ),
    own.sbounds.isSome ∧ own.labels ≠ [] ∧ own.applyToRemaining = true ∧ OwnSpec 2 3 own labels S ∧ S 0 0 ≠ 0 := by
  refine ⟨{ sbounds := some (fun i => if i = 0 then (0, 0) else (-1, 1)), labels := ["e"], balEq := true, sign := 1,
            applyToRemaining := true }, ["a.x.e", "a.y.h", "a.z.e"],
          fun r _ => if r = 0 then 1 else if r = 2 then -1 else 0, rfl, by simp, rfl, ⟨?_, ?_, ?_⟩, by norm_num⟩
  · intro sb hsb
    simp only [Option.some.injEq] at hsb
    subst hsb
    intro i hi
    rcases (by omega : i = 0 ∨ i = 1) with rfl | rfl <;> norm_num [colSum, sumTo]
  · intro l hl i _
    simp only [List.mem_singleton] at hl
    subst hl
    have e0 : ("a.x.e".endsWith "e") = true := by decide +kernel
    have e1 : ("a.y.h".endsWith "e") = false := by decide +kernel
    have e2 : ("a.z.e".endsWith "e") = true := by decide +kernel
    simp [Holds, labelSum, sumTo, e0, e1, e2]
  · intro _ i _
    have e0 : ("a.x.e".endsWith "e") = true := by decide +kernel
    have e1 : ("a.y.h".endsWith "e") = false := by decide +kernel
    have e2 : ("a.z.e".endsWith "e") = true := by decide +kernel
    simp [Holds, restSum, sumTo, e0, e1, e2]

/-! ## two-ratio sets -/

theorem ratio_sat_iff (n : ℕ) (e : Bool) (r0 r1 : ℝ) (S : Mat ℝ) :
    (∀ c ∈ (List.range n).map (ratioCon e r0 r1), c.Sat S) ↔ RatioSpec n e r0 r1 S :=
  ratioCons_sat n e r0 r1 S

/-- `eq`: the two conduit flows keep the configured ratio, `S 0 i · r₀ = S 1 i · r₁`. -/
theorem ratio_eq (n : ℕ) (r0 r1 : ℝ) (S : Mat ℝ) :
    RatioSpec n true r0 r1 S ↔ ∀ i < n, S 0 i * r0 = S 1 i * r1 := by
  unfold RatioSpec
  simp only [holds_true, sub_eq_zero]

example : RatioSpec 2 true 2 3 (fun r _ => if r = 0 then 3 else 2) := by
  rw [ratio_eq]; intro i _; norm_num

/-! ## multi-flow adaptor -/

/-- the adaptor's constraint list holds iff the column sum of the conduits lies within the wrapped
device's per-slot bounds, every wrapped constraint holds at the column sum, and (two-ratio sets)
the ratio holds in every slot. -/
theorem mf_cons_sat_iff (id : String) (d : Leaf ℝ) (cons : List (Con ℝ)) (flows : List String)
    (ratio : Option (Bool × ℝ × ℝ)) (S : Mat ℝ) :
    (∀ c ∈ (Block.ofMF id d cons flows ratio).cons, c.Sat S) ↔ MFSpec d cons flows.length ratio S := by
  unfold MFSpec
  simp only [Block.ofMF, List.forall_mem_append, sboundCons_range_sat, overConduits_all_sat]
  rw [and_assoc]
  refine and_congr Iff.rfl (and_congr Iff.rfl ?_)
  cases ratio with
  | none => simp
  | some q =>
    obtain ⟨e, r0, r1⟩ := q
    simp only [Option.some.injEq, Prod.mk.injEq]
    rw [ratioCons_sat]
    constructor
    · rintro h e' r0' r1' ⟨rfl, rfl, rfl⟩; exact h
    · intro h; exact h e r0 r1 ⟨rfl, rfl, rfl⟩

/-- an atomic device inside a tree: its constraints read its single row. -/
theorem leaf_cons_sat_iff (id : String) (d : Leaf ℝ) (cons : List (Con ℝ)) (S : Mat ℝ) :
    (∀ c ∈ (Block.ofLeaf id d cons).cons, c.Sat S) ↔ ∀ c ∈ cons, c.Sat (S 0) :=
  toM_all_sat cons S

/-- non-vacuity: a consumer with bounds `[0,4]`, one wrapped constraint `x₀ − 1 ≥ 0`, two conduits, ratio 1:1. -/
example : ∃ (d : Leaf ℝ) (cons : List (Con ℝ)) (S : Mat ℝ),
    cons ≠ [] ∧ MFSpec d cons 2 (some (true, 1, 1)) S ∧ S 0 0 ≠ 0 := by
  refine ⟨{ n := 1, lb := fun _ => 0, hb := fun _ => 4, cbs := [], kind := .device },
          [{ isEq := false, fn := fun x => x 0 - 1, jac := none }], fun _ _ => 1, by simp, ⟨?_, ?_, ?_⟩, by norm_num⟩
  · intro i hi; norm_num [colSum, sumTo]
  · intro c hc
    simp only [List.mem_singleton] at hc
    subst hc
    norm_num [Con.Sat, colSum, sumTo]
  · intro e r0 r1 h
    simp only [Option.some.injEq, Prod.mk.injEq] at h
    obtain ⟨rfl, rfl, rfl⟩ := h
    intro i _; norm_num [Holds]

/-! ## every nesting depth simultaneously -/

/-- the specification of one internal node, on the node's own row range. -/
def NodeHolds (n : ℕ) (nd : NodeAt ℝ) (S : Mat ℝ) : Prop :=
  OwnSpec n nd.rows nd.own nd.labels (shiftRows nd.off S)

/-- a matrix satisfies *all* constraints of a tree (any depth, any fan-out, children with different
row counts, arbitrary leaf behaviours) iff every block's constraints hold on its own rows and every
internal node's documented limits hold on the rows under that node. -/
theorem tree_feasible_iff (t : Tree ℝ) (n : ℕ) (S : Mat ℝ) :
    (∀ c ∈ t.cons n, c.Sat S) ↔
      (∀ x : BlockAt, x ∈ t.blocks "" 0 → ∀ c ∈ x.b.cons, c.Sat (shiftRows x.off S)) ∧
      (∀ nd ∈ t.nodes 0, NodeHolds n nd S) := by
  rw [C02.cons_sat_iff]
  refine and_congr Iff.rfl ?_
  constructor
  · intro h nd hnd; exact (ownCons_sat_iff n nd.rows nd.own nd.labels _).1 (h nd hnd)
  · intro h nd hnd; exact (ownCons_sat_iff n nd.rows nd.own nd.labels _).2 (h nd hnd)

/-- the aggregate sum a node at absolute offset `off` sees is the sum over its own absolute rows
`off … off+rows−1` (none of its siblings', none of its parent's other rows). -/
theorem node_colSum (nd : NodeAt ℝ) (S : Mat ℝ) (i : ℕ) :
    colSum nd.rows (shiftRows nd.off S) i = sumTo nd.rows (fun r => S (nd.off + r) i) := rfl

/-- description of a shipped block. -/
inductive BlockDesc where
  | leaf (id : String) (d : Leaf ℝ) (cons : List (Con ℝ))
  | mf (id : String) (d : Leaf ℝ) (cons : List (Con ℝ)) (flows : List String) (ratio : Option (Bool × ℝ × ℝ))

noncomputable def BlockDesc.toBlock : BlockDesc → Block ℝ
  | .leaf id d cons => Block.ofLeaf id d cons
  | .mf id d cons flows ratio => Block.ofMF id d cons flows ratio

/-- documented feasible set of a shipped block's *constraints*, on the block's own rows. -/
def BlockDesc.Spec : BlockDesc → Mat ℝ → Prop
  | .leaf _ _ cons, S => ∀ c ∈ cons, c.Sat (S 0)
  | .mf _ d cons flows ratio, S => MFSpec d cons flows.length ratio S

theorem block_spec_iff (bd : BlockDesc) (S : Mat ℝ) :
    (∀ c ∈ bd.toBlock.cons, c.Sat S) ↔ bd.Spec S := by
  cases bd with
  | leaf id d cons => exact leaf_cons_sat_iff id d cons S
  | mf id d cons flows ratio => exact mf_cons_sat_iff id d cons flows ratio S

/-- trees of shipped blocks (atomic devices and adaptors at the leaves): the whole constraint list
holds iff every atomic device's own constraints hold on its row, every adaptor's `MFSpec` holds on
its conduit rows and every set's `OwnSpec` holds on the rows under it — at every depth at once. -/
theorem tree_feasible_iff_shipped (t : Tree ℝ) (n : ℕ) (S : Mat ℝ) (desc : BlockAt → BlockDesc)
    (hdesc : ∀ x : BlockAt, x ∈ t.blocks "" 0 → x.b = (desc x).toBlock) :
    (∀ c ∈ t.cons n, c.Sat S) ↔
      (∀ x : BlockAt, x ∈ t.blocks "" 0 → (desc x).Spec (shiftRows x.off S)) ∧
      (∀ nd ∈ t.nodes 0, NodeHolds n nd S) := by
  rw [tree_feasible_iff]
  refine and_congr ?_ Iff.rfl
  constructor
  · intro h x hx
    have := h x hx
    rw [hdesc x hx] at this
    exact (block_spec_iff (desc x) _).1 this
  · intro h x hx
    rw [hdesc x hx]
    exact (block_spec_iff (desc x) _).2 (h x hx)

/-! ### non-vacuity of the tree statements: a two-level tree of shipped blocks -/

noncomputable def exDev : Leaf ℝ := { n := 1, lb := fun _ => 0, hb := fun _ => 4, cbs := [], kind := .device }
noncomputable def exCon : Con ℝ := { isEq := false, fn := fun x => x 0 - 1, jac := none }
noncomputable def exOwn : NodeSpec ℝ := { sbounds := some (fun _ => (0, 9)), labels := ["e"], balEq := false, sign := 1, applyToRemaining := false }
/-- `root[ a (leaf), s[ m (adaptor, conduits e,h), b (leaf) ] ]`: 4 rows, inner set at offset 1. -/
noncomputable def exTree : Tree ℝ :=
  .node "root" exOwn [.block (Block.ofLeaf "a" exDev [exCon]),
    .node "s" exOwn [.block (Block.ofMF "m" exDev [exCon] ["e", "h"] none), .block (Block.ofLeaf "b" exDev [])]]

noncomputable def exDesc (x : BlockAt) : BlockDesc :=
  if x.off = 0 then .leaf "a" exDev [exCon]
  else if x.off = 1 then .mf "m" exDev [exCon] ["e", "h"] none
  else .leaf "b" exDev []

example : (∀ x : BlockAt, x ∈ exTree.blocks "" 0 → x.b = (exDesc x).toBlock) ∧
    (exTree.nodes 0).map (fun nd => (nd.off, nd.rows)) = [(0, 4), (1, 3)] := by
  constructor
  · intro x hx
    simp only [exTree, Tree.blocks, blocksL, Tree.rows, rowsL, List.append_nil, List.mem_cons, List.mem_append,
      List.not_mem_nil, or_false, Block.ofLeaf, Block.ofMF, List.length_cons, List.length_nil] at hx
    rcases hx with rfl | rfl | rfl <;> simp [exDesc, BlockAt.off, BlockAt.b, BlockDesc.toBlock, Block.ofLeaf, Block.ofMF]
  · simp [exTree, Tree.nodes, nodesL, Tree.rows, rowsL, Block.ofLeaf, Block.ofMF]

end DK.C04

#print axioms DK.C04.sbounds_sat_iff
#print axioms DK.C04.sbounds_eq_of_sat
#print axioms DK.C04.sbounds_kinds
#print axioms DK.C04.label_sat_iff
#print axioms DK.C04.balance_sat_iff
#print axioms DK.C04.holds_sign
#print axioms DK.C04.labelSum_rows
#print axioms DK.C04.ownCons_sat_iff
#print axioms DK.C04.ratio_sat_iff
#print axioms DK.C04.ratio_eq
#print axioms DK.C04.mf_cons_sat_iff
#print axioms DK.C04.leaf_cons_sat_iff
#print axioms DK.C04.tree_feasible_iff
#print axioms DK.C04.block_spec_iff
#print axioms DK.C04.tree_feasible_iff_shipped
