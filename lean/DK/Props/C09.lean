import DK.Model.Constraints
import DK.Lemmas.Sum
import DK.Lemmas.Soc
/-!
# C09 — storage and thermal state follow the documented first-order recurrences
-/
namespace DK.C09
open DK

/-! ## `utils.soc` -/
theorem soc_zero (sus eff : ℝ) (r : ℕ → ℝ) : soc sus eff r 0 = r 0 * effPow eff (r 0) :=
  DK.soc_zero sus eff r

theorem soc_succ (sus eff : ℝ) (r : ℕ → ℝ) (i : ℕ) :
    soc sus eff r (i + 1) = sus * soc sus eff r i + r (i + 1) * effPow eff (r (i + 1)) :=
  DK.soc_succ sus eff r i

/-- `effPow e r` is `e` when charging, `1/e` when discharging, `1` at rest — the documented scaling. -/
theorem effPow_charge (e r : ℝ) (h : 0 < r) : effPow e r = e := effPow_of_pos e h
theorem effPow_discharge (e r : ℝ) (h : r < 0) : effPow e r = 1 / e := effPow_of_neg e h
theorem flow_zero (e : ℝ) : (0:ℝ) * effPow e 0 = 0 := by ring

/-! ## `SDevice.charge_at` : starts from `start·capacity` -/
theorem chargeAt_zero (q : SParams ℝ) (r : ℕ → ℝ) :
    chargeAt q r 0 = q.sustainment * (q.start * q.capacity) + r 0 * effPow q.efficiency (r 0) := by
  unfold chargeAt
  rw [baseSoc_zero, DK.soc_zero]

theorem chargeAt_succ (q : SParams ℝ) (r : ℕ → ℝ) (i : ℕ) :
    chargeAt q r (i + 1) = q.sustainment * chargeAt q r i + r (i + 1) * effPow q.efficiency (r (i + 1)) := by
  unfold chargeAt
  rw [baseSoc_succ, DK.soc_succ]
  ring

/-- the state the storage constraints bound is the reported state. -/
theorem socDot_eq_chargeAt (n : ℕ) (q : SParams ℝ) (r : ℕ → ℝ) (i : ℕ) (hi : i < n) :
    socDot n q r i = chargeAt q r i := by
  unfold socDot chargeAt baseSoc soc
  congr 1
  rw [sumTo_susW_extend q.sustainment n i hi (fun j => effPow q.efficiency (r j) * r j)]
  exact sumTo_congr (fun j _ => by ring)

/-! ## thermal: for ANY real external temperatures (zero and negative included) and any real flow -/
theorem r2t_zero (q : TParams ℝ) (r : ℕ → ℝ) :
    r2t q r 0 = q.sustainment * q.tInit + (1 - q.sustainment) * q.tExternal 0 + q.efficiency * r 0 := by
  unfold r2t tBase
  rw [baseSoc_zero, DK.soc_zero, DK.soc_zero, effPow_one, effPow_one]
  ring

theorem r2t_succ (q : TParams ℝ) (r : ℕ → ℝ) (i : ℕ) :
    r2t q r (i + 1) = q.sustainment * r2t q r i + (1 - q.sustainment) * q.tExternal (i + 1)
      + q.efficiency * r (i + 1) := by
  unfold r2t tBase
  rw [baseSoc_succ, DK.soc_succ, DK.soc_succ, effPow_one, effPow_one]
  ring

/-- `t_base` is the temperature with no consumption. -/
theorem tBase_eq_r2t_zero_flow (q : TParams ℝ) (i : ℕ) : tBase q i = r2t q (fun _ => 0) i := by
  unfold r2t
  rw [soc_zero_flow]
  ring

end DK.C09

#print axioms DK.C09.soc_zero
#print axioms DK.C09.soc_succ
#print axioms DK.C09.effPow_charge
#print axioms DK.C09.effPow_discharge
#print axioms DK.C09.flow_zero
#print axioms DK.C09.chargeAt_zero
#print axioms DK.C09.chargeAt_succ
#print axioms DK.C09.socDot_eq_chargeAt
#print axioms DK.C09.r2t_zero
#print axioms DK.C09.r2t_succ
#print axioms DK.C09.tBase_eq_r2t_zero_flow
