import DK.Model.Tree
import DK.Lemmas.Sum
import Mathlib.Analysis.Calculus.Deriv.Basic
/-!
# Definitions shared by the property statements (over `ℝ`)
-/
namespace DK
open DK

/-- the flow `s` moved by `τ` along direction `d`. -/
def line (s d : ℕ → ℝ) (τ : ℝ) : ℕ → ℝ := fun k => s k + τ * d k

/-- `g` is the gradient of `f` at `s` over the first `n` coordinates, in Gateaux form: along *every*
direction `d`, the derivative of `τ ↦ f (s + τ·d)` at `τ = 0` is `Σ_{k<n} g k · d k`.
The `i`-th partial derivative is the case `d = e_i` (`C01.partial_of_isGradAt`). -/
def IsGradAt (n : ℕ) (f : (ℕ → ℝ) → ℝ) (g : ℕ → ℝ) (s : ℕ → ℝ) : Prop :=
  ∀ d : ℕ → ℝ, HasDerivAt (fun τ => f (line s d τ)) (sumTo n (fun k => g k * d k)) 0

/-- `H` is the Jacobian at `s` of the vector field `g` (row `i` of `H` is the gradient of `g · i`). -/
def IsHessAt (n : ℕ) (g : (ℕ → ℝ) → ℕ → ℝ) (H : ℕ → ℕ → ℝ) (s : ℕ → ℝ) : Prop :=
  ∀ i < n, IsGradAt n (fun x => g x i) (fun j => H i j) s

/-- kink-freeness of a combinator tree at `x` (length `n`): integer ABC exponents ≥ 1,
`append` split points inside the vector, a *unique* maximum for `demand`. -/
def NoKink : Fn ℝ → ℕ → (ℕ → ℝ) → Prop
  | .null, _, _ => True
  | .add f g, n, x => NoKink f n x ∧ NoKink g n x
  | .reflect f, n, x => NoKink f n (fun i => - x i)
  | .poly _ _, _, _ => True
  | .hlq _ _ _ _, _, _ => True
  | .abc _ b _ _ _, n, _ => ∀ k < n, 1 ≤ b k
  | .innerHlq _ _ _ _, _, _ => True
  | .append k f g, n, x => k ≤ n ∧ NoKink f k x ∧ NoKink g (n - k) (fun i => x (k + i))
  | .demand _, n, x => 0 < n ∧ ∀ j < n, j ≠ argmax n x → x j < x (argmax n x)

/-- per-slot bounds box. -/
def InBox (n : ℕ) (lb hb x : ℕ → ℝ) : Prop := ∀ k < n, lb k ≤ x k ∧ x k ≤ hb k

/-- convex combination of two flows. -/
def mix (θ : ℝ) (x y : ℕ → ℝ) : ℕ → ℝ := fun k => θ * x k + (1 - θ) * y k

/-- elementary chord form of convexity over the bounds box. -/
def ConvexOnBox (n : ℕ) (lb hb : ℕ → ℝ) (f : (ℕ → ℝ) → ℝ) : Prop :=
  ∀ x y, InBox n lb hb x → InBox n lb hb y → ∀ θ : ℝ, 0 ≤ θ → θ ≤ 1 →
    f (mix θ x y) ≤ θ * f x + (1 - θ) * f y

/-- matrix version of `IsGradAt`: `J` (row, slot) is the gradient of `f` at `S` over `R × n` variables. -/
def IsMGradAt (R n : ℕ) (f : Mat ℝ → ℝ) (J : ℕ → ℕ → ℝ) (S : Mat ℝ) : Prop :=
  ∀ D : Mat ℝ, HasDerivAt (fun τ => f (fun r i => S r i + τ * D r i))
    (sumTo R (fun r => sumTo n (fun i => J r i * D r i))) 0

end DK
