import DK.Model.Validate
import DK.Lemmas.Sum
import Mathlib.Data.Real.Basic
import Mathlib.Tactic.Ring
import Mathlib.Tactic.Linarith
import Mathlib.Tactic.FieldSimp
/-!
# C11, parts B and C — cumulative bounds; validator thresholds
-/
namespace DK.C11
open DK DK.Validate

/-! ## B. cumulative bounds (`Device.cbounds` setter, device.py:143-170) -/

/-- per-slot bounds box. -/
def InBox (n : ℕ) (lb hb s : ℕ → ℝ) : Prop := ∀ i < n, lb i ≤ s i ∧ s i ≤ hb i

theorem clipIdx_le (n : ℕ) (i : ℤ) : clipIdx n i ≤ n := by
  unfold clipIdx
  split_ifs with h1 h2 <;> omega

theorem cbRangeOk_iff (n : ℕ) (c : CBound4 ℝ) : cbRangeOk n c = true ↔ 0 ≤ c.s ∧ c.s < c.e ∧ c.e ≤ (n : ℤ) := by
  unfold cbRangeOk; simp

/-- inside the horizon Python's slice `v[s:e]` is the slot range `[s, e)` itself (no clipping, no negative-index reading). -/
theorem sliceSum_inRange (n : ℕ) (v : ℕ → ℝ) (s e : ℤ) (hs : 0 ≤ s) (he : e ≤ (n : ℤ)) (hse : s < e) :
    sliceSum n v s e = sumRange s.toNat e.toNat v := by
  unfold sliceSum clipIdx
  have h1 : ¬ s < 0 := by omega
  have h2 : ¬ (n : ℤ) < s := by omega
  have h3 : ¬ e < 0 := by omega
  have h4 : ¬ (n : ℤ) < e := by omega
  simp [h1, h2, h3, h4]

/-- **acceptance of one cumulative bound** is exactly: the slot range `[s, e)` is a non-empty range inside the
horizon (Python's clipped / negative-index readings of other ranges are *rejected*, not reinterpreted), `low < high`,
and the flow summed over that range can reach the interval — its smallest possible sum is `≤ high` and its largest
possible sum is `≥ low`. -/
theorem cbound_accept_iff (n : ℕ) (lb hb : ℕ → ℝ) (c : CBound4 ℝ) :
    cb4Ok n lb hb c = true ↔
      (0 ≤ c.s ∧ c.s < c.e ∧ c.e ≤ (n : ℤ)) ∧ c.l < c.h ∧
      sumRange c.s.toNat c.e.toNat lb ≤ c.h ∧ c.l ≤ sumRange c.s.toNat c.e.toNat hb := by
  unfold cb4Ok
  by_cases hr : cbRangeOk n c = true
  · have hr' := (cbRangeOk_iff n c).mp hr
    rw [if_neg (not_not.mpr hr)]
    rw [sliceSum_inRange n lb c.s c.e hr'.1 hr'.2.2 hr'.2.1, sliceSum_inRange n hb c.s c.e hr'.1 hr'.2.2 hr'.2.1]
    split_ifs with h1 h2 h3
    · simp only [Bool.false_eq_true, false_iff]; rintro ⟨_, h4, h5, h6⟩; linarith
    · simp only [Bool.false_eq_true, false_iff]; rintro ⟨_, h4, h5, h6⟩; linarith
    · simp only [Bool.false_eq_true, false_iff]; rintro ⟨_, h4, h5, h6⟩; linarith
    · simp only [true_iff]
      exact ⟨hr', by linarith, by linarith, by linarith⟩
  · rw [if_pos hr]
    simp only [Bool.false_eq_true, false_iff, not_and]
    intro h
    exact absurd ((cbRangeOk_iff n c).mpr h) hr

/-- an element of a `cbounds` list is accepted iff it has **arity 4** and passes `cbound_accept_iff`. -/
theorem cbItem_accept_iff (n : ℕ) (lb hb : ℕ → ℝ) (it : CbItem ℝ) (c : CBound4 ℝ) :
    cbItemOk n lb hb it = some c ↔
      it = .four c ∧ (0 ≤ c.s ∧ c.s < c.e ∧ c.e ≤ (n : ℤ)) ∧ c.l < c.h ∧
      sumRange c.s.toNat c.e.toNat lb ≤ c.h ∧ c.l ≤ sumRange c.s.toNat c.e.toNat hb := by
  cases it with
  | bad k => simp [cbItemOk]
  | four c' =>
    unfold cbItemOk
    by_cases h : cb4Ok n lb hb c' = true
    · simp only [h, if_true]
      constructor
      · intro e; cases e; exact ⟨rfl, (cbound_accept_iff n lb hb _).mp h⟩
      · rintro ⟨e, _⟩; cases e; rfl
    · simp only [h]
      constructor
      · intro e; simp at e
      · rintro ⟨e, h'⟩; cases e; exact absurd ((cbound_accept_iff n lb hb _).mpr h') h

/-- the sum over a clipped range of a convex combination of the two bound vectors. -/
theorem sliceSum_mix (n : ℕ) (lb hb : ℕ → ℝ) (θ : ℝ) (s e : ℤ) :
    sliceSum n (fun i => lb i + θ * (hb i - lb i)) s e =
      sliceSum n lb s e + θ * (sliceSum n hb s e - sliceSum n lb s e) := by
  unfold sliceSum sumRange
  rw [sumTo_add, sumTo_mul_left, sumTo_sub]

theorem sliceSum_le (n : ℕ) (lb hb : ℕ → ℝ) (h : ∀ i < n, lb i ≤ hb i) (s e : ℤ) :
    sliceSum n lb s e ≤ sliceSum n hb s e := by
  unfold sliceSum sumRange
  apply sumTo_le
  intro k hk
  apply h
  have := clipIdx_le n e
  omega

/-- **"unattainable" is exactly emptiness**: an accepted cumulative bound over a consistent box can be met by a
flow inside the box (a convex combination of the lower and the upper bound vectors), summed over its own slot
range `[s, e)`. -/
theorem cbound_attainable (n : ℕ) (lb hb : ℕ → ℝ) (hbox : ∀ i < n, lb i ≤ hb i) (c : CBound4 ℝ)
    (h : cb4Ok n lb hb c = true) :
    ∃ s, InBox n lb hb s ∧ c.l ≤ sumRange c.s.toNat c.e.toNat s ∧ sumRange c.s.toNat c.e.toNat s ≤ c.h := by
  obtain ⟨⟨hr1, hr2, hr3⟩, hlh, hL, hH⟩ := (cbound_accept_iff n lb hb c).mp h
  have conv : ∀ v : ℕ → ℝ, sumRange c.s.toNat c.e.toNat v = sliceSum n v c.s c.e :=
    fun v => (sliceSum_inRange n v c.s c.e hr1 hr3 hr2).symm
  simp only [conv] at hL hH ⊢
  set L := sliceSum n lb c.s c.e with hLdef
  set H := sliceSum n hb c.s c.e with hHdef
  have hLH : L ≤ H := sliceSum_le n lb hb hbox c.s c.e
  by_cases heq : H = L
  · refine ⟨lb, fun i hi => ⟨le_refl _, hbox i hi⟩, ?_, ?_⟩
    · rw [← hLdef]; linarith
    · rw [← hLdef]; exact hL
  · have hpos : 0 < H - L := by
      rcases lt_or_eq_of_le hLH with h' | h'
      · linarith
      · exact absurd h'.symm heq
    set T := max c.l L with hT
    have hT1 : c.l ≤ T := le_max_left _ _
    have hT2 : L ≤ T := le_max_right _ _
    have hT3 : T ≤ c.h := max_le (le_of_lt hlh) hL
    have hT4 : T ≤ H := max_le hH hLH
    set θ := (T - L) / (H - L) with hθ
    have hθ0 : 0 ≤ θ := div_nonneg (by linarith) (le_of_lt hpos)
    have hθ1 : θ ≤ 1 := by rw [hθ, div_le_one hpos]; linarith
    have hsum : sliceSum n (fun i => lb i + θ * (hb i - lb i)) c.s c.e = T := by
      rw [sliceSum_mix, ← hLdef, ← hHdef, hθ]
      field_simp
      ring
    refine ⟨fun i => lb i + θ * (hb i - lb i), ?_, ?_, ?_⟩
    · intro i hi
      have := hbox i hi
      constructor
      · have : 0 ≤ θ * (hb i - lb i) := mul_nonneg hθ0 (by linarith)
        linarith
      · have : 0 ≤ (1 - θ) * (hb i - lb i) := mul_nonneg (by linarith) (by linarith)
        nlinarith
    · rw [hsum]; exact hT1
    · rw [hsum]; exact hT3

example : cb4Ok 3 (fun _ => (0:ℝ)) (fun _ => 1) ⟨1, 2, 0, 3⟩ = true := by
  rw [cbound_accept_iff]
  simp [sumRange, sumTo]
  try norm_num

/-- the 4-tuples of a `cbounds` list, when every element has arity 4. -/
def fours {α : Type} : List (CbItem α) → Option (List (CBound4 α))
  | [] => some []
  | .four c :: rest => (fours rest).map (c :: ·)
  | .bad _ :: _ => none

/-- the loop accepts iff every element is a 4-tuple that passes, and then stores them in order, unchanged. -/
theorem cbLoop_ok_iff (n : ℕ) (lb hb : ℕ → ℝ) (xs : List (CbItem ℝ)) (cs : List (CBound4 ℝ)) :
    cbLoop n lb hb xs = (cs, none) ↔ fours xs = some cs ∧ ∀ c ∈ cs, cb4Ok n lb hb c = true := by
  induction xs generalizing cs with
  | nil =>
    simp only [cbLoop, fours]
    constructor
    · intro h; cases h; simp
    · rintro ⟨h, _⟩; cases h; rfl
  | cons it rest ih =>
    cases it with
    | bad k => simp [cbLoop, cbItemOk, fours]
    | four c =>
      simp only [cbLoop, cbItemOk, fours]
      by_cases hc : cb4Ok n lb hb c = true
      · simp only [hc, if_true]
        constructor
        · intro h
          have h1 : cs = c :: (cbLoop n lb hb rest).1 := by
            have := congrArg Prod.fst h; simpa using this.symm
          have h2 : (cbLoop n lb hb rest).2 = none := by
            have := congrArg Prod.snd h; simpa using this
          obtain ⟨i1, i2⟩ := (ih (cbLoop n lb hb rest).1).mp (by rw [← h2])
          subst h1
          refine ⟨by simp [i1], ?_⟩
          intro c' hc'
          rcases List.mem_cons.mp hc' with rfl | hc'
          · exact hc
          · exact i2 c' hc'
        · rintro ⟨h1, h2⟩
          cases hf : fours rest with
          | none => simp [hf] at h1
          | some cs' =>
            simp [hf] at h1
            subst h1
            have := (ih cs').mpr ⟨hf, fun c' hc' => h2 c' (List.mem_cons_of_mem _ hc')⟩
            simp [this]
      · simp only [hc]
        constructor
        · intro h; simp at h
        · rintro ⟨h1, h2⟩
          cases hf : fours rest with
          | none => simp [hf] at h1
          | some cs' =>
            simp [hf] at h1
            subst h1
            exact absurd (h2 c (by simp)) hc

/-- what the caller meant by a `cbounds` argument, in the stored 4-tuple form (`none`: ill-formed). -/
def cbMeaning {α : Type} (n : ℕ) : CbSpec α → Option (Option (List (CBound4 α)))
  | .pyNone => some none
  | .notSeq => none
  | .pair l h => some (some [⟨l, h, 0, (n : ℤ)⟩])
  | .items xs => (fours xs).map some

/-- the list form goes through the loop — except a 2-list `[number, sequence]`, which the setter mistakes for the
2-tuple form (and dies of a `TypeError` comparing a sequence with a number). -/
theorem setCbounds_items (n : ℕ) (lb hb : ℕ → ℝ) (xs : List (CbItem ℝ)) :
    (∃ y, xs = [.bad none, y] ∧ setCbounds n lb hb (.items xs) = (some [], some .typeError)) ∨
    setCbounds n lb hb (.items xs) = (some (cbLoop n lb hb xs).1, (cbLoop n lb hb xs).2) := by
  match xs with
  | [] => right; rfl
  | .four _ :: _ => right; rfl
  | .bad (some _) :: _ => right; rfl
  | [.bad none] => right; rfl
  | .bad none :: _ :: _ :: _ => right; rfl
  | [.bad none, y] => left; exact ⟨y, rfl, rfl⟩

/-- **the `cbounds` setter accepts iff** the argument is `None`, a 2-tuple, or a list of 4-tuples, and every
(implied) 4-tuple passes `cbound_accept_iff`; **and what it then stores is what the caller supplied**
(2-tuple ↦ `(l, h, 0, n)`, 4-tuples verbatim and in order). -/
theorem setCbounds_ok_iff (n : ℕ) (lb hb : ℕ → ℝ) (spec : CbSpec ℝ) (st : Option (List (CBound4 ℝ))) :
    setCbounds n lb hb spec = (st, none) ↔
      cbMeaning n spec = some st ∧ ∀ cs, st = some cs → ∀ c ∈ cs, cb4Ok n lb hb c = true := by
  cases spec with
  | pyNone =>
    simp only [setCbounds, cbMeaning]
    constructor
    · intro h; cases h; simp
    · rintro ⟨h, _⟩; cases h; rfl
  | notSeq => simp [setCbounds, cbMeaning]
  | pair l h =>
    simp only [setCbounds, cbMeaning]
    by_cases hc : cb4Ok n lb hb ⟨l, h, 0, (n : ℤ)⟩ = true
    · simp only [hc, if_true]
      constructor
      · intro e
        have : st = some [⟨l, h, 0, (n : ℤ)⟩] := by have := congrArg Prod.fst e; simpa using this.symm
        subst this
        refine ⟨rfl, ?_⟩
        intro cs hcs c' hc'
        cases hcs
        simp at hc'; subst hc'; exact hc
      · rintro ⟨e, _⟩
        simp at e; subst e; rfl
    · simp only [hc]
      constructor
      · intro e; simp at e
      · rintro ⟨e, h2⟩
        simp at e; subst e
        exact absurd (h2 _ rfl _ (by simp)) hc
  | items xs =>
    rcases setCbounds_items n lb hb xs with ⟨y, hx, hr⟩ | hr
    · rw [hr]
      subst hx
      simp [cbMeaning, fours]
    · rw [hr]
      simp only [cbMeaning]
      constructor
      · intro e
        have h1 : st = some (cbLoop n lb hb xs).1 := by have := congrArg Prod.fst e; simpa using this.symm
        have h2 : (cbLoop n lb hb xs).2 = none := by have := congrArg Prod.snd e; simpa using this
        obtain ⟨i1, i2⟩ := (cbLoop_ok_iff n lb hb xs (cbLoop n lb hb xs).1).mp (by rw [← h2])
        subst h1
        refine ⟨by simp [i1], ?_⟩
        intro cs hcs
        cases hcs
        exact i2
      · rintro ⟨h1, h2⟩
        cases hf : fours xs with
        | none => simp [hf] at h1
        | some cs =>
          simp [hf] at h1
          subst h1
          have := (cbLoop_ok_iff n lb hb xs cs).mpr ⟨hf, h2 cs rfl⟩
          simp [this]

/-- every stored cumulative bound of an accepted setting is attainable inside the box. -/
theorem setCbounds_attainable (n : ℕ) (lb hb : ℕ → ℝ) (hbox : ∀ i < n, lb i ≤ hb i) (spec : CbSpec ℝ)
    (cs : List (CBound4 ℝ)) (h : setCbounds n lb hb spec = (some cs, none)) :
    ∀ c ∈ cs, ∃ s, InBox n lb hb s ∧ c.l ≤ sumRange c.s.toNat c.e.toNat s ∧ sumRange c.s.toNat c.e.toNat s ≤ c.h := by
  intro c hc
  exact cbound_attainable n lb hb hbox c (((setCbounds_ok_iff n lb hb spec (some cs)).mp h).2 cs rfl c hc)

/-- on a device whose bounds are entirely `None`, whatever `cbounds` assignment is accepted is still stored
as supplied (only bounds over an empty range that contains 0 can be accepted there). -/
theorem cbLoopNone_ok (n : ℕ) (xs : List (CbItem ℝ)) (cs : List (CBound4 ℝ)) (h : cbLoopNone n xs = (cs, none)) :
    fours xs = some cs := by
  induction xs generalizing cs with
  | nil => simp [cbLoopNone] at h; subst h; rfl
  | cons it rest ih =>
    cases it with
    | bad k => simp [cbLoopNone] at h
    | four c =>
      simp only [cbLoopNone] at h
      cases hc : cb4None n c with
      | some e => simp [hc] at h
      | none =>
        simp only [hc] at h
        have h1 : cs = c :: (cbLoopNone n rest).1 := by have := congrArg Prod.fst h; simpa using this.symm
        have h2 : (cbLoopNone n rest).2 = none := by have := congrArg Prod.snd h; simpa using this
        have := ih (cbLoopNone n rest).1 (by rw [← h2])
        subst h1
        simp [fours, this]

theorem setCboundsNone_ok (n : ℕ) (spec : CbSpec ℝ) (st : Option (List (CBound4 ℝ)))
    (h : setCboundsNone n spec = (st, none)) : cbMeaning n spec = some st := by
  cases spec with
  | pyNone => simp [setCboundsNone] at h; subst h; rfl
  | notSeq => simp [setCboundsNone] at h
  | pair l hh =>
    simp only [setCboundsNone] at h
    cases hc : cb4None n ⟨l, hh, 0, (n : ℤ)⟩ with
    | some e => simp [hc] at h
    | none => simp [hc] at h; subst h; rfl
  | items xs =>
    have key : (∃ y, xs = [.bad none, y] ∧ setCboundsNone n (.items xs) = (some [], some .typeError)) ∨
        setCboundsNone n (.items xs) = (some (cbLoopNone n xs).1, (cbLoopNone n xs).2) := by
      match xs with
      | [] => right; rfl
      | .four _ :: _ => right; rfl
      | .bad (some _) :: _ => right; rfl
      | [.bad none] => right; rfl
      | .bad none :: _ :: _ :: _ => right; rfl
      | [.bad none, y] => left; exact ⟨y, rfl, rfl⟩
    rcases key with ⟨y, _, hr⟩ | hr
    · rw [hr] at h; simp at h
    · rw [hr] at h
      have h1 : st = some (cbLoopNone n xs).1 := by have := congrArg Prod.fst h; simpa using this.symm
      have h2 : (cbLoopNone n xs).2 = none := by have := congrArg Prod.snd h; simpa using this
      have := cbLoopNone_ok n xs (cbLoopNone n xs).1 (by rw [← h2])
      subst h1
      simp [cbMeaning, this]

/-! ## C. validator thresholds -/

theorem ite1 (p : Prop) [Decidable p] : (if p then false else true) = true ↔ ¬ p := by
  split_ifs <;> simp_all
theorem ite2 (p q : Prop) [Decidable p] [Decidable q] :
    (if p then false else if q then false else true) = true ↔ ¬ p ∧ ¬ q := by
  split_ifs <;> simp_all

theorem sC1Ok_iff (c1 c2 : ℝ) : sC1Ok c1 c2 = true ↔ 0 ≤ c1 ∧ (c2 < c1 ∨ c2 ≤ 0) := by
  unfold sC1Ok
  rw [ite2]
  constructor
  · rintro ⟨h1, h2⟩
    refine ⟨not_lt.mp h1, ?_⟩
    by_contra hc
    rw [not_or] at hc
    exact h2 ⟨not_lt.mp hc.1, not_le.mp hc.2⟩
  · rintro ⟨h1, h2⟩
    refine ⟨not_lt.mpr h1, ?_⟩
    rintro ⟨h3, h4⟩
    rcases h2 with h2 | h2 <;> linarith

theorem sC2Ok_iff (c2 c1 : ℝ) : sC2Ok c2 c1 = true ↔ 0 ≤ c2 ∧ (c2 ≤ c1 ∨ c1 ≤ 0) := by
  unfold sC2Ok
  rw [ite2]
  constructor
  · rintro ⟨h1, h2⟩
    refine ⟨not_lt.mp h1, ?_⟩
    by_contra hc
    rw [not_or] at hc
    exact h2 ⟨not_le.mp hc.1, not_le.mp hc.2⟩
  · rintro ⟨h1, h2⟩
    refine ⟨not_lt.mpr h1, ?_⟩
    rintro ⟨h3, h4⟩
    rcases h2 with h2 | h2 <;> linarith

theorem sC3Ok_iff (c3 : ℝ) : sC3Ok c3 = true ↔ 0 ≤ c3 := by
  unfold sC3Ok; rw [ite1, not_lt]

theorem sCapacityOk_iff (c : ℝ) : sCapacityOk c = true ↔ 0 < c := by
  unfold sCapacityOk; rw [ite1, not_le]

/-- `start`, `reserve`, `damage_depth`. -/
theorem sUnitOk_iff (x : ℝ) : sUnitOk x = true ↔ 0 ≤ x ∧ x ≤ 1 := by
  unfold sUnitOk; rw [ite1, not_not]

/-- `efficiency`, `sustainment`. -/
theorem sRateOk_iff (x : ℝ) : sRateOk x = true ↔ 0 < x ∧ x ≤ 1 := by
  unfold sRateOk; rw [ite1, not_not]

theorem sClipOk_iff (x : Option ℝ) : sClipOk x = true ↔ ∀ y, x = some y → 1 ≤ y := by
  cases x with
  | none => simp [sClipOk]
  | some y =>
    simp only [sClipOk]
    rw [ite1, not_not]
    constructor
    · intro h z hz; cases hz; exact h
    · intro h; exact h y rfl

theorem cAOk_iff (a : ℝ) : cAOk a = true ↔ a ≤ 0 := by
  unfold cAOk; rw [ite1, not_lt]

theorem tSustainmentOk_iff (s : ℝ) : tSustainmentOk s = true ↔ 0 ≤ s ∧ s ≤ 1 := by
  unfold tSustainmentOk; rw [ite1, not_not]

theorem tEfficiencyOk_iff (e : ℝ) : tEfficiencyOk e = true ↔ e ≠ 0 := by
  unfold tEfficiencyOk; rw [ite1]

theorem tRangeOk_iff (r : ℝ) : tRangeOk r = true ↔ 0 ≤ r := by
  unfold tRangeOk; rw [ite1, not_lt]

/-- the entries of a curve parameter. -/
def PVal.toList {α : Type} : PVal α → List α
  | .scalar x => [x]
  | .vec xs => xs

theorem pval_all_iff (p : PVal ℝ) (f : ℝ → Bool) : p.all f = true ↔ ∀ x ∈ PVal.toList p, f x = true := by
  cases p <;> simp [PVal.all, PVal.toList]

/-- `IDevice.a`, `IDevice.c`, `TDevice.c`: a scalar or an `n`-vector, every entry `≥ 0`. -/
theorem iParamOk_iff (p : PVal ℝ) (n : ℕ) :
    iParamOk p n = true ↔ p.lenOk n = true ∧ ∀ x ∈ PVal.toList p, 0 ≤ x := by
  unfold iParamOk
  rw [ite2, not_not, not_not, pval_all_iff]
  simp

/-- `IDevice.b`: a scalar or an `n`-vector, every entry `> 0` (NB: `0 < b < 1` is accepted — a concave curve). -/
theorem iBOk_iff (p : PVal ℝ) (n : ℕ) :
    iBOk p n = true ↔ p.lenOk n = true ∧ ∀ x ∈ PVal.toList p, 0 < x := by
  unfold iBOk
  rw [ite2, not_not, not_not, iParamOk_iff, pval_all_iff]
  simp only [gt_iff_lt, decide_eq_true_eq]
  constructor
  · rintro ⟨⟨h1, _⟩, h3⟩; exact ⟨h1, h3⟩
  · rintro ⟨h1, h3⟩; exact ⟨⟨h1, fun x hx => le_of_lt (h3 x hx)⟩, h3⟩

/-- `IDevice2` / `CDevice2` `_validate_param`: a scalar or an `n`-vector, every entry `≤ 0`. -/
theorem hlParamOk_iff (p : PVal ℝ) (n : ℕ) :
    hlParamOk p n = true ↔ p.lenOk n = true ∧ ∀ x ∈ PVal.toList p, x ≤ 0 := by
  unfold hlParamOk
  rw [ite2, not_not, not_not, pval_all_iff]
  simp

theorem pHOk_iff (v pl : PVal ℝ) (n : ℕ) : pHOk v pl n = true ↔ hlParamOk v n = true ∧ pl.allLe v = true := by
  unfold pHOk; rw [ite2, not_not, not_not]

theorem pLOk_iff (v ph : PVal ℝ) (n : ℕ) : pLOk v ph n = true ↔ hlParamOk v n = true ∧ v.allLe ph = true := by
  unfold pLOk; rw [ite2, not_not, not_not]

/-- the value of a (validated) curve parameter in slot `i` after numpy broadcasting. -/
def PVal.at {α : Type} [OfNat α 0] (p : PVal α) (i : ℕ) : α :=
  match p with
  | .scalar x => x
  | .vec xs => xs.getD i 0

theorem allLe2_pointwise (xs ys : List ℝ) (h : allLe2 xs ys = true) (i : ℕ) (hi : i < xs.length) (hj : i < ys.length) :
    xs.getD i 0 ≤ ys.getD i 0 := by
  induction xs generalizing ys i with
  | nil => simp at hi
  | cons x xs ih =>
    cases ys with
    | nil => simp at hj
    | cons y ys =>
      simp [allLe2] at h
      cases i with
      | zero => simpa using h.1
      | succ i =>
        simp at hi hj
        simpa using ih ys h.2 i hi hj

/-- `(p <= q).all()` means slot-wise `≤` after broadcasting (for parameters of the device's length). -/
theorem allLe_pointwise (p q : PVal ℝ) (n : ℕ) (hp : p.lenOk n = true) (hq : q.lenOk n = true)
    (h : p.allLe q = true) : ∀ i < n, PVal.at p i ≤ PVal.at q i := by
  intro i hi
  cases p with
  | scalar x =>
    cases q with
    | scalar y => simpa [PVal.allLe, PVal.at] using h
    | vec ys =>
      simp [PVal.lenOk] at hq
      simp [PVal.allLe] at h
      simp only [PVal.at]
      have hi' : i < ys.length := by omega
      have e : List.getD ys i 0 = ys[i] := by simp [List.getD_eq_getElem?_getD, hi']
      rw [e]
      exact h _ (List.getElem_mem hi')
  | vec xs =>
    simp [PVal.lenOk] at hp
    cases q with
    | scalar y =>
      simp [PVal.allLe] at h
      simp only [PVal.at]
      have hi' : i < xs.length := by omega
      have e : List.getD xs i 0 = xs[i] := by simp [List.getD_eq_getElem?_getD, hi']
      rw [e]
      exact h _ (List.getElem_mem hi')
    | vec ys =>
      simp [PVal.lenOk] at hq
      simp only [PVal.allLe] at h
      exact allLe2_pointwise xs ys h i (by omega) (by omega)

/-- `DeviceSet`: accepted iff there is at least one device, all have one length, and the id matches the pattern. -/
theorem deviceSetCheck_iff (lens : List ℕ) (idOk : Option Bool) (n : ℕ) :
    deviceSetCheck lens idOk = .ok n ↔ (∃ rest, lens = n :: rest ∧ ∀ l ∈ rest, l = n) ∧ idOk = some true := by
  cases lens with
  | nil => simp [deviceSetCheck]
  | cons l0 rest =>
    unfold deviceSetCheck
    simp only
    by_cases hall : ∀ l ∈ rest, l = l0
    · have h : ¬ ¬ (rest.all (fun l => decide (l = l0)) = true) := by
        rw [not_not]; simpa using hall
      rw [if_neg h]
      cases idOk with
      | none => simp
      | some b =>
        cases b with
        | false => simp
        | true =>
          simp only [Except.ok.injEq, and_true]
          constructor
          · intro e; subst e; exact ⟨rest, rfl, hall⟩
          · rintro ⟨rest', e, _⟩; cases e; rfl
    · have h : ¬ (rest.all (fun l => decide (l = l0)) = true) := by
        intro h'; apply hall; simpa using h'
      rw [if_pos h]
      simp only [reduceCtorEq, false_iff, not_and]
      rintro ⟨rest', e, hall'⟩
      cases e
      exact absurd hall' hall

/-- `MFDeviceSet`: at least one flow, and the wrapped device is not two-way. -/
theorem mfCheck_iff (nFlows n : ℕ) (lb hb : ℕ → ℝ) :
    mfCheck nFlows n lb hb = true ↔ 0 < nFlows ∧ ((∀ i < n, 0 ≤ lb i) ∨ (∀ i < n, hb i ≤ 0)) := by
  unfold mfCheck
  split_ifs with h1 h2
  · simp; omega
  · simp only [Bool.false_eq_true, false_iff, not_and, not_or]
    intro _
    obtain ⟨⟨i, hi, hl⟩, ⟨j, hj, hh⟩⟩ : (∃ i, i < n ∧ lb i < 0) ∧ (∃ j, j < n ∧ hb j > 0) := by
      simpa [List.any_eq_true] using h2
    exact ⟨fun h => by have := h i hi; linarith, fun h => by have := h j hj; linarith⟩
  · simp only [true_iff]
    refine ⟨by omega, ?_⟩
    by_contra hc
    push Not at hc
    obtain ⟨⟨i, hi, hl⟩, ⟨j, hj, hh⟩⟩ := hc
    apply h2
    simp only [List.any_eq_true, List.mem_range, decide_eq_true_eq]
    exact ⟨⟨i, hi, hl⟩, ⟨j, hj, hh⟩⟩

/-- `TwoRatioMFDeviceSet`: exactly two flows, ratios present and of length two, a known constraint type. -/
theorem twoRatioCheck_iff (nFlows : ℕ) (r : Option ℕ) (ctypeOk : Bool) :
    twoRatioCheck nFlows r ctypeOk = true ↔ nFlows = 2 ∧ r = some 2 ∧ ctypeOk = true := by
  unfold twoRatioCheck
  cases r with
  | none => split_ifs with h1 h2 <;> simp_all
  | some k =>
    split_ifs with h1 h2 h3
    · simp_all
    · simp at h2; simp only [not_not] at h1; subst h1; simp; intro h; exact absurd h h2
    · simp_all
    · simp at h2; simp_all

theorem tdeviceCheck_iff (n : ℕ) (s e r : ℝ) (lt : ℕ) (c : PVal ℝ) :
    tdeviceCheck n s e r lt c = true ↔
      (0 ≤ s ∧ s ≤ 1) ∧ e ≠ 0 ∧ 0 ≤ r ∧ lt = n ∧ c.lenOk n = true ∧ ∀ x ∈ PVal.toList c, 0 ≤ x := by
  unfold tdeviceCheck
  rw [← tSustainmentOk_iff, ← tEfficiencyOk_iff, ← tRangeOk_iff, ← iParamOk_iff]
  split_ifs with h1 h2 h3 h4 <;> simp_all

end DK.C11
