import DK.Model.Validate
import DK.Lemmas.ValidateShape
import DK.Props.C11d
import DK.Lemmas.ValidateBridge
import DK.Lemmas.Sum
import Mathlib.Data.Real.Basic
import Mathlib.Tactic.Ring
import Mathlib.Tactic.Linarith
import Mathlib.Tactic.FieldSimp
/-!
# C11 — Validation: ill-formed settings rejected, accepted ones reported faithfully

Part A of the property: bounds specifications (this file).  Part B/C — cumulative bounds and validator
thresholds — is `DK/Props/C11b.lean`; part D/E — the setter state machine, invariants over arbitrary
histories and `reported_eq_supplied` — is `DK/Props/C11c.lean` (case analysis) and `DK/Props/C11d.lean`.

`Denotes v n t` is the *documented* grammar of `BaseDevice.validate_bounds` (docstring,
basedevice.py:173-186), stated with the inductive predicates of `DK/Lemmas/ValidateShape.lean`
and not with the model's functions:

* an `(n, 2)` table — `n ≥ 1` rows, each a 2-sequence of scalars — denotes its rows; this reading
  **takes precedence** (it is the only conflict: at `n = 2` a 2-sequence of two 2-vectors is a table);
* otherwise a 2-sequence `[lo, hi]`, each half a number (repeated `n` times) or an `n`-vector of
  scalars, denotes the slot-wise pairs;
* otherwise a 1-sequence `[x]` denotes `[x, x]` (the docstring asks for an `n`-vector; the code also
  takes a number and repeats it — recorded as an observation, it is the constant table either way).

Scalars inside vectors/tables may be `None` (the code tolerates a table that is *entirely* `None`);
a broadcast half must be a number.
-/
namespace DK.C11
open DK DK.Validate

/-! ## A. bounds -/

/-- one half of the 2-sequence form: a number repeated `n` times, or an `n`-vector of scalars. -/
def IsHalf {α : Type} (a : PyVal α) (n : ℕ) (xs : List (Option α)) : Prop :=
  (∃ q, a = .num q ∧ xs = List.replicate n (some q)) ∨
  (∃ k ys, a = .seq k ys ∧ IsVec ys xs ∧ xs.length = n)

/-- the `(n, 2)` table reading. -/
def IsTableForm {α : Type} (v : PyVal α) (n : ℕ) (t : Table α) : Prop :=
  ∃ k xs, v = .seq k xs ∧ xs.length = n ∧ IsRows xs t

/-- the 2-sequence reading. -/
def IsPairForm {α : Type} (v : PyVal α) (n : ℕ) (t : Table α) : Prop :=
  ∃ k a b lo hi, v = .seq k [a, b] ∧ IsHalf a n lo ∧ IsHalf b n hi ∧ t = lo.zip hi

/-- the 1-sequence reading. -/
def IsSingleForm {α : Type} (v : PyVal α) (n : ℕ) (t : Table α) : Prop :=
  ∃ k a xs, v = .seq k [a] ∧ IsHalf a n xs ∧ t = xs.zip xs

/-- the documented grammar, with the documented precedence of the table reading. -/
def Denotes {α : Type} (v : PyVal α) (n : ℕ) (t : Table α) : Prop :=
  IsTableForm v n t ∨ ((¬ ∃ t', IsTableForm v n t') ∧ (IsPairForm v n t ∨ IsSingleForm v n t))

/-- what an accepted table satisfies: entirely `None`, or entirely numeric with `low ≤ high` in every slot. -/
def TableOK (t : Table ℝ) : Prop :=
  (∀ r ∈ t, r = (none, none)) ∨ (∀ r ∈ t, ∃ l h, r = (some l, some h) ∧ l ≤ h)

/-- the region in which `validate_bounds` *itself* (without `HyperCube`'s later shape check) mis-reads its
input today: `n = 2` and the two halves are vectors of one common length other than 2. -/
def Misread {α : Type} (v : PyVal α) (n : ℕ) : Prop :=
  n = 2 ∧ ∃ k a b, (v = .seq k [a, b] ∨ (v = .seq k [a] ∧ b = a)) ∧
    ∃ la, pyLen (normElem n a) = some la ∧ pyLen (normElem n b) = some la ∧ la ≠ 2

/-! ### the tail of `validate_bounds` -/

theorem finish_spec {w w' : ℕ} {rows : List (Row ℝ)} {t : Table ℝ} (h : finish w rows = .ok (w', t)) :
    w' = w ∧ t = rows.map rowPair ∧ rows ≠ [] ∧
      (rows.all rowAllNone = true ∨ (rows.any rowHasNone = false ∧ rows.all rowOrdered = true)) := by
  unfold finish at h
  split_ifs at h with h1 h2 h3 h4
  · cases h
    exact ⟨rfl, rfl, by intro e; simp [e] at h1, Or.inl h2⟩
  · cases h
    refine ⟨rfl, rfl, by intro e; simp [e] at h1, Or.inr ⟨?_, h4⟩⟩
    simpa using h3

theorem tableOK_of_rows {rows : List (Row ℝ)}
    (h : rows.all rowAllNone = true ∨ (rows.any rowHasNone = false ∧ rows.all rowOrdered = true)) :
    TableOK (rows.map rowPair) := by
  rcases h with h | ⟨_, h⟩
  · left
    intro r hr
    obtain ⟨r0, hr0, rfl⟩ := List.mem_map.mp hr
    have := (List.all_eq_true.mp h) r0 hr0
    obtain ⟨a, b, c⟩ := r0
    simp [rowAllNone] at this
    simp [rowPair, this.1.1, this.1.2]
  · right
    intro r hr
    obtain ⟨r0, hr0, rfl⟩ := List.mem_map.mp hr
    have := (List.all_eq_true.mp h) r0 hr0
    obtain ⟨a, b, c⟩ := r0
    cases a with
    | none => simp [rowOrdered] at this
    | some l =>
      cases b with
      | none => simp [rowOrdered] at this
      | some hh =>
        simp [rowOrdered] at this
        exact ⟨l, hh, rfl, by linarith⟩

theorem finish_complete (w : ℕ) {rows : List (Row ℝ)} (hne : rows ≠ []) (hex : ∀ r ∈ rows, r.2.2 = [])
    (hok : TableOK (rows.map rowPair)) : finish w rows = .ok (w, rows.map rowPair) := by
  unfold finish
  have h1 : rows.isEmpty = false := by cases rows <;> simp_all
  rw [if_neg (by simp [h1])]
  rcases hok with hok | hok
  · have : rows.all rowAllNone = true := by
      apply List.all_eq_true.mpr
      intro r hr
      have e := hok (rowPair r) (List.mem_map_of_mem hr)
      have e2 := hex r hr
      obtain ⟨a, b, c⟩ := r
      simp [rowPair] at e
      simp at e2
      simp [rowAllNone, e.1, e.2, e2]
    rw [if_pos this]
  · have hsome : ∀ r ∈ rows, ∃ l h, r.1 = some l ∧ r.2.1 = some h ∧ l ≤ h := by
      intro r hr
      obtain ⟨l, h, e, hle⟩ := hok (rowPair r) (List.mem_map_of_mem hr)
      obtain ⟨a, b, c⟩ := r
      simp [rowPair] at e
      exact ⟨l, h, e.1, e.2, hle⟩
    have hn1 : rows.all rowAllNone = false := by
      cases rows with
      | nil => exact absurd rfl hne
      | cons r rs =>
        obtain ⟨l, h, e1, e2, _⟩ := hsome r (by simp)
        obtain ⟨a, b, c⟩ := r
        simp at e1 e2
        simp [rowAllNone, e1]
    have hn2 : rows.any rowHasNone = false := by
      apply List.any_eq_false.mpr
      intro r hr
      obtain ⟨l, h, e1, e2, _⟩ := hsome r hr
      simp [rowHasNone, e1, e2]
    have hn3 : rows.all rowOrdered = true := by
      apply List.all_eq_true.mpr
      intro r hr
      obtain ⟨l, h, e1, e2, hle⟩ := hsome r hr
      obtain ⟨a, b, c⟩ := r
      simp at e1 e2
      simp [rowOrdered, e1, e2]
      linarith
    simp [hn1, hn2, hn3]

/-! ### halves -/

theorem isHalf_of_entries {a : PyVal ℝ} {n la : ℕ} {xs : List (Option ℝ)}
    (hl : pyLen (normElem n a) = some la) (he : entries (normElem n a) = some xs) (hn : la = n) :
    IsHalf a n xs := by
  cases a with
  | num q =>
    left
    simp [normElem, entries, scalars_replicate] at he
    exact ⟨q, rfl, he.symm⟩
  | none => simp [normElem, pyLen] at hl
  | seq k ys =>
    right
    simp [normElem, entries] at he
    simp [normElem, pyLen] at hl
    have hv := isVec_iff.mpr he
    exact ⟨k, ys, rfl, hv, by rw [isVec_length hv, hl, hn]⟩

theorem entries_of_isHalf {a : PyVal ℝ} {n : ℕ} {xs : List (Option ℝ)} (h : IsHalf a n xs) :
    pyLen (normElem n a) = some n ∧ entries (normElem n a) = some xs ∧ xs.length = n := by
  rcases h with ⟨q, rfl, rfl⟩ | ⟨k, ys, rfl, hv, hl⟩
  · simp [normElem, pyLen, entries, scalars_replicate]
  · refine ⟨?_, ?_, hl⟩
    · simp [normElem, pyLen, ← isVec_length hv, hl]
    · simpa [normElem, entries] using isVec_iff.mp hv

theorem entries_length {a : PyVal ℝ} {xs : List (Option ℝ)} {la : ℕ}
    (he : entries a = some xs) (hl : pyLen a = some la) : xs.length = la := by
  cases a with
  | num q => simp [entries] at he
  | none => simp [entries] at he
  | seq k ys =>
    simp [entries] at he
    simp [pyLen] at hl
    rw [isVec_length (isVec_iff.mpr he), hl]

/-! ### the pair path -/

/-- what the `len 2 / len 1` path can return: either the stacked halves (width 2), or — only at `n = 2`, with
halves of a common length `≠ 2` — the mis-read rows (width = that length). -/
theorem pairPath_spec {n w : ℕ} {a b : PyVal ℝ} {t : Table ℝ} (h : pairPath n a b = .ok (w, t)) :
    (w = 2 ∧ 0 < n ∧ ∃ lo hi, IsHalf a n lo ∧ IsHalf b n hi ∧ t = lo.zip hi ∧ TableOK t) ∨
    (w ≠ 2 ∧ n = 2 ∧ ∃ la, pyLen (normElem n a) = some la ∧ pyLen (normElem n b) = some la ∧ la ≠ 2) := by
  unfold pairPath at h
  simp only at h
  cases hla : pyLen (normElem n a) with
  | none => simp [hla] at h
  | some la =>
    cases hlb : pyLen (normElem n b) with
    | none => simp [hla, hlb] at h
    | some lb =>
      simp only [hla, hlb] at h
      split_ifs at h with h1 h2 h3
      · -- stack
        cases hea : entries (normElem n a) with
        | none =>
          simp only [hea] at h
          split at h <;> first | (split_ifs at h) | skip
          all_goals simp at h
        | some xs =>
          cases heb : entries (normElem n b) with
          | none =>
            simp only [hea, heb] at h
            split at h <;> first | (split_ifs at h) | skip
            all_goals simp at h
          | some ys =>
            simp only [hea, heb] at h
            obtain ⟨hw, ht, hne, hd⟩ := finish_spec h
            left
            have hxa := entries_length hea hla
            have hyb := entries_length heb hlb
            refine ⟨hw, ?_, xs, ys, isHalf_of_entries hla hea (by omega), isHalf_of_entries hlb heb (by omega), ?_, ?_⟩
            · by_contra hn0
              have : n = 0 := by omega
              have hx0 : xs = [] := by apply List.eq_nil_of_length_eq_zero; omega
              simp [hx0, zipRows] at hne
            · rw [ht, zipRows_map_rowPair]
            · rw [ht]; exact tableOK_of_rows hd
      · -- n = 2, not stacked
        have hn2 : n = 2 := by omega
        cases hea : entries (normElem n a) with
        | none =>
          simp only [hea] at h
          split at h <;> simp at h
        | some xs =>
          cases heb : entries (normElem n b) with
          | none =>
            simp only [hea, heb] at h
            split at h <;> simp at h
          | some ys =>
            simp only [hea, heb] at h
            split_ifs at h with h4
            have hxa := entries_length hea hla
            have hyb := entries_length heb hlb
            match xs, ys, h with
            | x0 :: x1 :: xr, y0 :: y1 :: yr, h =>
              obtain ⟨hw, _, _, _⟩ := finish_spec h
              right
              have hlab : la = lb := by
                have : (x0 :: x1 :: xr).length = (y0 :: y1 :: yr).length := by simpa using h4
                omega
              refine ⟨?_, hn2, la, rfl, by rw [hlab], ?_⟩
              · rw [hw]; intro e; apply h1; omega
              · intro e; apply h1; omega
            | [], _, h => simp at h
            | [_], _, h => simp at h
            | _ :: _ :: _, [], h => simp at h
            | _ :: _ :: _, [_], h => simp at h

/-! ### soundness -/

theorem validateBoundsW_spec {v : PyVal ℝ} {n w : ℕ} {t : Table ℝ} (h : validateBoundsW v n = .ok (w, t)) :
    (w = 2 ∧ 0 < n ∧ Denotes v n t ∧ TableOK t) ∨ (w ≠ 2 ∧ Misread v n) := by
  cases v with
  | num q => simp [validateBoundsW] at h
  | none => simp [validateBoundsW] at h
  | seq k xs =>
    unfold validateBoundsW at h
    simp only at h
    split_ifs at h with hsh
    · -- table
      obtain ⟨hl, hn, _⟩ := npShape_table_iff.mp hsh
      cases hr : tableRows xs with
      | none => simp [hr] at h
      | some rows =>
        simp only [hr] at h
        obtain ⟨hw, ht, _, hd⟩ := finish_spec h
        obtain ⟨i1, _⟩ := tableRows_some_isRows hr
        left
        refine ⟨hw, hn, Or.inl ⟨k, xs, rfl, hl, by rw [ht]; exact i1⟩, by rw [ht]; exact tableOK_of_rows hd⟩
    · have hnt : ¬ ∃ t', IsTableForm (.seq k xs) n t' := by
        rintro ⟨t', k', xs', he, hl, hr⟩
        cases he
        by_cases hn : 0 < n
        · exact hsh (npShape_table_iff.mpr ⟨hl, hn, t', hr⟩)
        · -- n = 0: nothing is accepted at all
          have hx : xs = [] := by apply List.eq_nil_of_length_eq_zero; omega
          subst hx; simp at h
      match xs, h with
      | [a, b], h =>
        rcases pairPath_spec h with ⟨hw, hn, lo, hi, ha, hb, ht, hok⟩ | ⟨hw, hn, la, h1, h2, h3⟩
        · left; exact ⟨hw, hn, Or.inr ⟨hnt, Or.inl ⟨k, a, b, lo, hi, rfl, ha, hb, ht⟩⟩, hok⟩
        · right; exact ⟨hw, hn, k, a, b, Or.inl rfl, la, h1, h2, h3⟩
      | [a], h =>
        rcases pairPath_spec h with ⟨hw, hn, lo, hi, ha, hb, ht, hok⟩ | ⟨hw, hn, la, h1, h2, h3⟩
        · left
          have : lo = hi := by
            obtain ⟨_, e1, _⟩ := entries_of_isHalf ha
            obtain ⟨_, e2, _⟩ := entries_of_isHalf hb
            rw [e1] at e2; exact Option.some.inj e2
          subst this
          exact ⟨hw, hn, Or.inr ⟨hnt, Or.inr ⟨k, a, lo, rfl, ha, ht⟩⟩, hok⟩
        · right; exact ⟨hw, hn, k, a, a, Or.inr ⟨rfl, rfl⟩, la, h1, h2, h3⟩
      | [], h => simp at h
      | _ :: _ :: _ :: _, h => simp at h

/-- **Soundness of the `Device.bounds` setter** (every class with the common constructor signature goes
through it): whatever it accepts is a documented form, normalised to the table that form denotes, with
`low ≤ high` in every slot (or entirely `None`). -/
theorem validate_sound {v : PyVal ℝ} {n : ℕ} {t : Table ℝ} (h : deviceBounds v n = .ok t) :
    0 < n ∧ Denotes v n t ∧ TableOK t := by
  unfold deviceBounds at h
  cases hv : validateBoundsW v n with
  | error e => simp [hv] at h
  | ok p =>
    obtain ⟨w, t'⟩ := p
    simp only [hv] at h
    split_ifs at h with hw
    cases h
    rcases validateBoundsW_spec hv with ⟨_, h2, h3, h4⟩ | ⟨hw', _⟩
    · exact ⟨h2, h3, h4⟩
    · exact absurd hw hw'

example : deviceBounds (.seq .list [.num (0:ℝ), .seq .tuple [.num 1, .num 2]]) 2 = .ok [(some 0, some 1), (some 0, some 2)] := by
  simp [deviceBounds, validateBoundsW, npShape, commonShape, pairPath, normElem, pyLen, entries, scalars, scalar?,
    finish, zipRows, rowAllNone, rowHasNone, rowOrdered, rowPair]

/- Full statement for `validate_bounds` itself (what `DeviceSet.sbounds` stores) — FALSE today:

   theorem validate_sound_raw {v n t} (h : validateBounds v n = .ok t) : 0 < n ∧ Denotes v n t ∧ TableOK t

   At `n = 2` a 2-sequence (or 1-sequence) of vectors of a common length `k ≥ 3` is neither stacked nor
   rejected: `np.array([b0, b1])` has shape `(2, k)` and its first two *columns* are returned as if they
   were the `(low, high)` columns of a table (`validate_sound_counterexample`).  `Device` escapes only
   because `HyperCube` later refuses the shape. -/

/-- soundness of `validate_bounds` itself outside the mis-read region. -/
theorem validate_sound_partial {v : PyVal ℝ} {n : ℕ} {t : Table ℝ} (h : validateBounds v n = .ok t)
    (hm : ¬ Misread v n) : 0 < n ∧ Denotes v n t ∧ TableOK t := by
  unfold validateBounds at h
  cases hv : validateBoundsW v n with
  | error e => simp [hv] at h
  | ok p =>
    obtain ⟨w, t'⟩ := p
    simp only [hv] at h
    cases h
    rcases validateBoundsW_spec hv with ⟨_, h2, h3, h4⟩ | ⟨_, hm'⟩
    · exact ⟨h2, h3, h4⟩
    · exact absurd hm' hm

/-- the witness: `validate_bounds([[0,0,0],[1,1,1]])` on a length-2 device returns rows `(0,0)`, `(1,1)` —
no documented reading of that input gives this table (the pair reading needs 2-vectors). -/
theorem validate_sound_counterexample :
    ∃ (v : PyVal ℝ) (t : Table ℝ), validateBounds v 2 = .ok t ∧ ¬ Denotes v 2 t := by
  refine ⟨.seq .list [.seq .list [.num 0, .num 0, .num 0], .seq .list [.num 1, .num 1, .num 1]],
    [(some 0, some 0), (some 1, some 1)], ?_, ?_⟩
  · simp [validateBounds, validateBoundsW, npShape, commonShape, pairPath, normElem, pyLen, entries, scalars, scalar?,
      finish, rowAllNone, rowHasNone, rowOrdered, rowPair]
  · rintro (⟨k, xs, he, hl, hr⟩ | ⟨_, ⟨k, a, b, lo, hi, he, ha, hb, ht⟩ | ⟨k, a, xs, he, _, _⟩⟩)
    · cases he
      cases hr
    · cases he
      rcases ha with ⟨q, hq, _⟩ | ⟨k', ys, hy, hv, hl⟩
      · cases hq
      · cases hy
        have := isVec_length hv
        simp at this; omega
    · cases he

/-! ### completeness -/

theorem validateBoundsW_complete {v : PyVal ℝ} {n : ℕ} {t : Table ℝ} (hd : Denotes v n t) (hok : TableOK t)
    (hn : 0 < n) : validateBoundsW v n = .ok (2, t) := by
  rcases hd with ⟨k, xs, rfl, hl, hr⟩ | ⟨hnt, ⟨k, a, b, lo, hi, rfl, ha, hb, ht⟩ | ⟨k, a, xs, rfl, ha, ht⟩⟩
  · have hsh : npShape (PyVal.seq k xs) = some [n, 2] := npShape_table_iff.mpr ⟨hl, hn, t, hr⟩
    unfold validateBoundsW
    simp only [hsh, if_true]
    rw [tableRows_iff.mp hr]
    simp only
    have hne : t.map (fun p => (p.1, p.2, ([] : List (Option ℝ)))) ≠ [] := by
      have := isRows_length hr
      intro e
      have : t = [] := by simpa using e
      subst this; simp at *; omega
    have hmap : (t.map (fun p => (p.1, p.2, ([] : List (Option ℝ))))).map rowPair = t := by
      simp [List.map_map, Function.comp_def, rowPair]
    have := finish_complete 2 hne (by intro r hr'; obtain ⟨p, _, rfl⟩ := List.mem_map.mp hr'; rfl) (by rw [hmap]; exact hok)
    rw [this, hmap]
  · have hsh : npShape (PyVal.seq k [a, b]) ≠ some [n, 2] := by
      intro e
      obtain ⟨hl, _, t', hr⟩ := npShape_table_iff.mp e
      exact hnt ⟨t', k, _, rfl, hl, hr⟩
    obtain ⟨la, ea, lla⟩ := entries_of_isHalf ha
    obtain ⟨lb, eb, llb⟩ := entries_of_isHalf hb
    unfold validateBoundsW
    simp only [hsh, if_false]
    unfold pairPath
    simp only [la, lb, ea, eb, and_self, if_true]
    have hne : zipRows lo hi ≠ [] := by
      cases lo with
      | nil => simp at lla; omega
      | cons x xs =>
        cases hi with
        | nil => simp at llb; omega
        | cons y ys => simp [zipRows]
    have := finish_complete 2 hne (zipRows_extras lo hi) (by rw [zipRows_map_rowPair, ← ht]; exact hok)
    rw [this, zipRows_map_rowPair, ht]
  · have hsh : npShape (PyVal.seq k [a]) ≠ some [n, 2] := by
      intro e
      obtain ⟨hl, _, t', hr⟩ := npShape_table_iff.mp e
      exact hnt ⟨t', k, _, rfl, hl, hr⟩
    obtain ⟨la, ea, lla⟩ := entries_of_isHalf ha
    unfold validateBoundsW
    simp only [hsh, if_false]
    unfold pairPath
    simp only [la, ea, and_self, if_true]
    have hne : zipRows xs xs ≠ [] := by
      cases xs with
      | nil => simp at lla; omega
      | cons x xs => simp [zipRows]
    have := finish_complete 2 hne (zipRows_extras xs xs) (by rw [zipRows_map_rowPair, ← ht]; exact hok)
    rw [this, zipRows_map_rowPair, ht]

/-- **Completeness**: every documented form whose table is entirely numeric with `low ≤ high` (or entirely
`None`) is accepted — by `validate_bounds` and by the `Device.bounds` setter — and normalised to exactly the
table it denotes. -/
theorem validate_complete {v : PyVal ℝ} {n : ℕ} {t : Table ℝ} (hd : Denotes v n t) (hok : TableOK t) (hn : 0 < n) :
    deviceBounds v n = .ok t ∧ validateBounds v n = .ok t := by
  have := validateBoundsW_complete hd hok hn
  simp [deviceBounds, validateBounds, this]

example : Denotes (.seq .tuple [.num (0:ℝ), .num 1]) 3 [(some 0, some 1), (some 0, some 1), (some 0, some 1)] := by
  refine Or.inr ⟨?_, Or.inl ⟨.tuple, .num 0, .num 1, List.replicate 3 (some 0), List.replicate 3 (some 1), rfl,
    Or.inl ⟨0, rfl, rfl⟩, Or.inl ⟨1, rfl, rfl⟩, rfl⟩⟩
  rintro ⟨t', k, xs, he, _, hr⟩
  cases he
  cases hr

/-- the grammar is unambiguous: a specification denotes at most one table. -/
theorem denotes_unique {v : PyVal ℝ} {n : ℕ} {t t' : Table ℝ} (h : Denotes v n t) (h' : Denotes v n t') : t = t' := by
  have half_unique : ∀ {a : PyVal ℝ} {xs ys}, IsHalf a n xs → IsHalf a n ys → xs = ys := by
    intro a xs ys h1 h2
    obtain ⟨_, e1, _⟩ := entries_of_isHalf h1
    obtain ⟨_, e2, _⟩ := entries_of_isHalf h2
    rw [e1] at e2; exact Option.some.inj e2
  rcases h with ⟨k, xs, rfl, _, hr⟩ | ⟨hnt, hp⟩
  · rcases h' with ⟨k', xs', he, _, hr'⟩ | ⟨hnt', _⟩
    · cases he; exact isRows_unique hr hr'
    · exact absurd ⟨t, k, xs, rfl, ‹_›, hr⟩ hnt'
  · rcases h' with ht' | ⟨_, hp'⟩
    · exact absurd ⟨t', ht'⟩ hnt
    · rcases hp with ⟨k, a, b, lo, hi, rfl, ha, hb, rfl⟩ | ⟨k, a, xs, rfl, ha, rfl⟩
      · rcases hp' with ⟨k', a', b', lo', hi', he, ha', hb', rfl⟩ | ⟨k', a', xs', he, _, _⟩
        · cases he; rw [half_unique ha ha', half_unique hb hb']
        · cases he
      · rcases hp' with ⟨k', a', b', lo', hi', he, _, _, _⟩ | ⟨k', a', xs', he, ha', rfl⟩
        · cases he
        · cases he; rw [half_unique ha ha']

/-- `GDevice` / `PVDevice`: accepted iff the base setter accepts and every upper bound is a number `≤ 0`
(every documented form included: the setter no longer runs `np.array` over the raw argument). -/
theorem gen_bounds_iff {v : PyVal ℝ} {n : ℕ} {t : Table ℝ} :
    genBounds v n = .ok t ↔ deviceBounds v n = .ok t ∧ ∀ r ∈ t, ∃ h, r.2 = some h ∧ h ≤ 0 := by
  unfold genBounds deviceBounds
  cases hv : validateBoundsW v n with
  | error e => simp
  | ok p =>
    obtain ⟨w, t0⟩ := p
    simp only
    cases hh : hbNonpos t0 with
    | error e =>
      simp only [reduceCtorEq, false_iff, not_and]
      intro h1 h2
      split_ifs at h1 with hw
      cases h1
      rw [hbNonpos_of h2] at hh
      cases hh
    | ok u =>
      simp only
      split_ifs with hw
      · constructor
        · intro e; cases e; exact ⟨rfl, hbNonpos_ok hh⟩
        · rintro ⟨e, _⟩; exact e
      · simp

/-- `validate_bounds` returns an array of a width other than 2 only on a length-2 device (and only in the
`Misread` region). -/
theorem misread_only_at_two {v : PyVal ℝ} {n w : ℕ} {t : Table ℝ} (h : validateBoundsW v n = .ok (w, t)) (hw : w ≠ 2) :
    n = 2 ∧ Misread v n := by
  rcases validateBoundsW_spec h with ⟨h2, _⟩ | ⟨_, hm⟩
  · exact absurd h2 hw
  · exact ⟨hm.1, hm⟩

/-- **on a device of any length but 2, a rejected assignment — to any field — leaves the device exactly as it was.** -/
theorem rejected_keeps_state_of_ne_two {d d' : Dev ℝ} {f : Field} {v : Val ℝ} {err : Err}
    (h : setField d f v = (d', some err)) (hn : d.n ≠ 2) : d' = d := by
  rcases rejected_assignment_keeps_state h with h' | ⟨bv, w, t, _, _, hw, hw2, _⟩
  · exact h'
  · exact absurd (misread_only_at_two hw hw2).1 hn

/-- **`TDevice` reports what was supplied**: the bounds table its specification denotes, the cumulative bounds in
4-tuple form, and `sustainment`, `efficiency`, `t_init`, `t_optimal`, `t_range`, `t_external`, `c` verbatim — and it is
constructed only when `0 ≤ sustainment ≤ 1`, `efficiency ≠ 0`, `t_range ≥ 0`, `len(t_external) = n`, `c ≥ 0`. -/
theorem tdevice_reported_eq_supplied {n : ℕ} {bv : PyVal ℝ} {cb : CbSpec ℝ} {s e ti topt tr : ℝ} {te : List ℝ} {c : PVal ℝ}
    {d : TDev ℝ} (h : tdeviceCtor n bv cb s e ti topt tr te c = .ok d) :
    deviceBounds bv n = .ok d.table ∧ cbMeaning n cb = some d.cbounds ∧
    d.sustainment = s ∧ d.efficiency = e ∧ d.tInit = ti ∧ d.tOptimal = topt ∧ d.tRange = tr ∧ d.tExternal = te ∧ d.c = c ∧
    ((0 ≤ s ∧ s ≤ 1) ∧ e ≠ 0 ∧ 0 ≤ tr ∧ te.length = n ∧ c.lenOk n = true ∧ ∀ x ∈ PVal.toList c, 0 ≤ x) := by
  unfold tdeviceCtor at h
  cases hc : construct Cls.device n bv cb ([] : List (Field × Val ℝ)) with
  | error e' => simp [hc] at h
  | ok d0 =>
    simp only [hc] at h
    split_ifs at h with hchk
    cases h
    obtain ⟨_, _, hb, hcb, _, _⟩ := reported_eq_supplied hc (by simp) (by simp)
    have hb' : deviceBounds bv n = .ok d0.table := by simpa using hb
    exact ⟨hb', hcb (by decide), rfl, rfl, rfl, rfl, rfl, rfl, rfl, (tdeviceCheck_iff n s e tr te.length c).mp hchk⟩

end DK.C11
