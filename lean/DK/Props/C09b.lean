import DK.Props.C09
import Mathlib.Tactic.Positivity
/-!
# C09 (second part) — the recurrence *determines* the reported state

`DK.Props.C09` shows that the reported state satisfies the documented recurrence.  Here the converse
and its consequences, for every horizon and every flow:

* `chargeAt_unique` / `r2t_unique` — any sequence that starts from `start·capacity` (resp. the initial
  temperature) and obeys the recurrence *is* the reported state: the recurrence is a complete description;
* `chargeAt_causal` / `r2t_causal` — the state after slot `i` reads only the flows of slots `≤ i`;
* `effFlow_mono`, `chargeAt_mono` — for `efficiency > 0` and `sustainment ≥ 0` the state is monotone in every
  earlier flow (charging more never lowers the state of charge);
* `chargeAt_lossless` — with sustainment = efficiency = 1 the state is `start·capacity + Σ_{j≤i} r_j`;
* `r2t_affine` — the temperature is affine in the consumption, with slope `efficiency · s^(i-j)`.
-/
namespace DK.C09
open DK

/-- the scaled slot flow: `r·e` charging, `r/e` discharging, `0` at rest. -/
noncomputable def effFlow (e r : ℝ) : ℝ := r * effPow e r

theorem effFlow_pos (e : ℝ) {r : ℝ} (h : 0 < r) : effFlow e r = r * e := by
  unfold effFlow; rw [effPow_of_pos e h]
theorem effFlow_neg (e : ℝ) {r : ℝ} (h : r < 0) : effFlow e r = r / e := by
  unfold effFlow; rw [effPow_of_neg e h]; ring
theorem effFlow_zero (e : ℝ) : effFlow e 0 = 0 := by unfold effFlow; ring

/-- the scaled flow has the sign of the flow when `e > 0`. -/
theorem effFlow_sign (e : ℝ) (he : 0 < e) (r : ℝ) :
    (0 < r → 0 < effFlow e r) ∧ (r < 0 → effFlow e r < 0) ∧ (r = 0 → effFlow e r = 0) := by
  refine ⟨fun h => ?_, fun h => ?_, fun h => ?_⟩
  · rw [effFlow_pos e h]; positivity
  · rw [effFlow_neg e h]; exact div_neg_of_neg_of_pos h he
  · subst h; exact effFlow_zero e

/-- the scaled flow is monotone in the flow for every positive efficiency. -/
theorem effFlow_mono (e : ℝ) (he : 0 < e) {a b : ℝ} (hab : a ≤ b) : effFlow e a ≤ effFlow e b := by
  rcases lt_trichotomy a 0 with ha | ha | ha <;> rcases lt_trichotomy b 0 with hb | hb | hb
  · rw [effFlow_neg e ha, effFlow_neg e hb]; exact div_le_div_of_nonneg_right hab he.le
  · subst hb; rw [effFlow_zero]; exact ((effFlow_sign e he a).2.1 ha).le
  · exact le_trans ((effFlow_sign e he a).2.1 ha).le ((effFlow_sign e he b).1 hb).le
  · subst ha; linarith
  · subst ha; subst hb; exact le_refl _
  · subst ha; rw [effFlow_zero]; exact ((effFlow_sign e he b).1 hb).le
  · linarith
  · subst hb; linarith
  · rw [effFlow_pos e ha, effFlow_pos e hb]; exact mul_le_mul_of_nonneg_right hab he.le

/-! ## storage -/

/-- the documented recurrence, as a predicate on a candidate state sequence. -/
def IsStorageState (q : SParams ℝ) (r x : ℕ → ℝ) : Prop :=
  x 0 = q.sustainment * (q.start * q.capacity) + effFlow q.efficiency (r 0) ∧
  ∀ i, x (i + 1) = q.sustainment * x i + effFlow q.efficiency (r (i + 1))

theorem chargeAt_isStorageState (q : SParams ℝ) (r : ℕ → ℝ) : IsStorageState q r (chargeAt q r) :=
  ⟨chargeAt_zero q r, fun i => chargeAt_succ q r i⟩

/-- the recurrence has exactly one solution, and `charge_at` reports it. -/
theorem chargeAt_unique (q : SParams ℝ) (r x : ℕ → ℝ) (h : IsStorageState q r x) (i : ℕ) :
    x i = chargeAt q r i := by
  induction i with
  | zero => rw [h.1, chargeAt_zero]; rfl
  | succ i ih => rw [h.2 i, ih, chargeAt_succ]; rfl

/-- causality: the state after slot `i` reads only the flows of slots `0..i`. -/
theorem chargeAt_causal (q : SParams ℝ) (r r' : ℕ → ℝ) (i : ℕ) (h : ∀ j ≤ i, r j = r' j) :
    chargeAt q r i = chargeAt q r' i := by
  induction i with
  | zero => rw [chargeAt_zero, chargeAt_zero, h 0 (le_refl 0)]
  | succ i ih =>
    rw [chargeAt_succ, chargeAt_succ, ih (fun j hj => h j (Nat.le_succ_of_le hj)), h (i + 1) (le_refl _)]

/-- monotonicity: with non-negative sustainment and positive efficiency, raising any flow of slots
`0..i` never lowers the state after slot `i`. -/
theorem chargeAt_mono (q : SParams ℝ) (hs : 0 ≤ q.sustainment) (he : 0 < q.efficiency)
    (r r' : ℕ → ℝ) (i : ℕ) (h : ∀ j ≤ i, r j ≤ r' j) : chargeAt q r i ≤ chargeAt q r' i := by
  induction i with
  | zero =>
    rw [chargeAt_zero, chargeAt_zero]
    have := effFlow_mono q.efficiency he (h 0 (le_refl 0))
    unfold effFlow at this; linarith
  | succ i ih =>
    rw [chargeAt_succ, chargeAt_succ]
    have h1 := ih (fun j hj => h j (Nat.le_succ_of_le hj))
    have h2 := effFlow_mono q.efficiency he (h (i + 1) (le_refl _))
    unfold effFlow at h2
    have h3 := mul_le_mul_of_nonneg_left h1 hs
    linarith

/-- a lossless store (sustainment = efficiency = 1) integrates the flow. -/
theorem chargeAt_lossless (q : SParams ℝ) (hs : q.sustainment = 1) (he : q.efficiency = 1) (r : ℕ → ℝ) (i : ℕ) :
    chargeAt q r i = q.start * q.capacity + sumTo (i + 1) r := by
  induction i with
  | zero => rw [chargeAt_zero, hs, he, effPow_one]; simp [sumTo]
  | succ i ih => rw [chargeAt_succ, ih, hs, he, effPow_one]; simp only [sumTo]; ring

/-- a state that never leaks and is never charged or discharged stays at `start·capacity`. -/
theorem chargeAt_rest (q : SParams ℝ) (hs : q.sustainment = 1) (i : ℕ) :
    chargeAt q (fun _ => 0) i = q.start * q.capacity := by
  induction i with
  | zero => rw [chargeAt_zero, hs]; ring
  | succ i ih => rw [chargeAt_succ, ih, hs]; ring

/-! ## thermal -/

def IsThermalState (q : TParams ℝ) (r x : ℕ → ℝ) : Prop :=
  x 0 = q.sustainment * q.tInit + (1 - q.sustainment) * q.tExternal 0 + q.efficiency * r 0 ∧
  ∀ i, x (i + 1) = q.sustainment * x i + (1 - q.sustainment) * q.tExternal (i + 1) + q.efficiency * r (i + 1)

theorem r2t_isThermalState (q : TParams ℝ) (r : ℕ → ℝ) : IsThermalState q r (r2t q r) :=
  ⟨r2t_zero q r, fun i => r2t_succ q r i⟩

/-- the thermal recurrence has exactly one solution, and `r2t` reports it — for any real external temperatures. -/
theorem r2t_unique (q : TParams ℝ) (r x : ℕ → ℝ) (h : IsThermalState q r x) (i : ℕ) : x i = r2t q r i := by
  induction i with
  | zero => rw [h.1, r2t_zero]
  | succ i ih => rw [h.2 i, ih, r2t_succ]

theorem r2t_causal (q : TParams ℝ) (r r' : ℕ → ℝ) (i : ℕ) (h : ∀ j ≤ i, r j = r' j) :
    r2t q r i = r2t q r' i := by
  induction i with
  | zero => rw [r2t_zero, r2t_zero, h 0 (le_refl 0)]
  | succ i ih =>
    rw [r2t_succ, r2t_succ, ih (fun j hj => h j (Nat.le_succ_of_le hj)), h (i + 1) (le_refl _)]

/-- the temperature is affine in the consumption: a perturbation `d` of the flow moves the temperature by
the solution of the homogeneous recurrence driven by `efficiency·d`. -/
theorem r2t_affine (q : TParams ℝ) (r d : ℕ → ℝ) (i : ℕ) :
    r2t q (fun k => r k + d k) i = r2t q r i + q.efficiency * soc q.sustainment 1 d i := by
  induction i with
  | zero => rw [r2t_zero, r2t_zero, DK.soc_zero, effPow_one]; ring
  | succ i ih => rw [r2t_succ, ih, r2t_succ, DK.soc_succ, effPow_one]; ring

/-- the external temperature enters linearly too: shifting it by `δ` in every slot and the initial temperature
by `δ` shifts every temperature by `δ` (no sign case split: zero and negative temperatures are ordinary). -/
theorem r2t_shift (q : TParams ℝ) (δ : ℝ) (r : ℕ → ℝ) (i : ℕ) :
    r2t { q with tInit := q.tInit + δ, tExternal := fun k => q.tExternal k + δ } r i = r2t q r i + δ := by
  induction i with
  | zero => rw [r2t_zero, r2t_zero]; ring
  | succ i ih => rw [r2t_succ, ih, r2t_succ]; ring

/-! ## non-vacuity: a concrete storage trace (sustainment 1/2, efficiency 1/2, charge 2 then discharge 1) -/
example :
    let q : SParams ℝ := { capacity := 8, start := 1/2, sustainment := 1/2, efficiency := 1/2,
                           reserve := 0, damageDepth := 0, c1 := 0, c2 := 0, c3 := 0 }
    chargeAt q (fun k => if k = 0 then 2 else -1) 1 = -1/2 := by
  intro q
  rw [chargeAt_succ, chargeAt_zero]
  simp only [q]
  norm_num [effPow]

end DK.C09

#print axioms DK.C09.effFlow_sign
#print axioms DK.C09.effFlow_mono
#print axioms DK.C09.chargeAt_isStorageState
#print axioms DK.C09.chargeAt_unique
#print axioms DK.C09.chargeAt_causal
#print axioms DK.C09.chargeAt_mono
#print axioms DK.C09.chargeAt_lossless
#print axioms DK.C09.chargeAt_rest
#print axioms DK.C09.r2t_isThermalState
#print axioms DK.C09.r2t_unique
#print axioms DK.C09.r2t_causal
#print axioms DK.C09.r2t_affine
#print axioms DK.C09.r2t_shift
