import DK.Lemmas.Serial
import DK.Gen.Classes
/-!
# C16 — serialisation round-trip preserves behaviour

*For every device and set, constructing a new instance from the dictionary the original dumps
succeeds and yields a device with the same id, length, bounds, cumulative bounds and parameters, and
therefore the same cost, marginal cost and constraint values at every flow and price.*

Three groups of theorems (no Mathlib; every statement is for an arbitrary scalar type `α`, an
arbitrary type `δ` of live child objects and arbitrary validators `acc`):

1. **table theorems** (`decide` over `DK.Gen.classes`, regenerated from the current source on
   every run): every dumped key is an accepted constructor argument, every required argument is
   dumped, every argument that can differ from its default is dumped, `cls(**dump)` binds along the
   whole `__init__` chain and the twin dumps the same keys.  These are the proof obligations a
   source change can break (`seeded/revert-d15a-C16`, `revert-d15b-C16`).
2. **bridge**: the key lists of the hand-written value model (`modelKeys`) are the ones the table
   derives from the source.
3. **value model**: `roundtrip_X : X.fromDict (X.toDict d) = ok d` for every constructed state `d`, in
   the full-strength form "for every keyword dictionary the constructor accepts" (all 15 classes, ADevice included since /repo 31f4c67); and the
   same-behaviour corollaries against `DK.Leaf` / `DK.Tree`.
-/
namespace DK.C16
open DK DK.Serial DK.Gen

/-! ## 1. table theorems -/

/-- the extractor understood every class body it looked at. -/
theorem extraction_clean : extractionProblems = [] := by decide

/-- all fifteen shipped classes are in the table, none abstract. -/
theorem shipped_present : ∀ n ∈ shipped, ∃ c ∈ concrete classes, c.name = n := by decide

/-- the base-class chain of every class resolves inside the table. -/
theorem mro_resolved : ∀ c ∈ concrete classes, mroResolved classes c = true := by decide

/-- the constructor read from the AST (first `__init__` along the MRO) is the one
`inspect.signature` reports on the imported class. -/
theorem sig_agrees_ast : ∀ c ∈ concrete classes, sigAgrees classes c = true := by decide

/-- every `__init__` / `to_dict` body is in the understood subset and every probe call binds. -/
theorem dump_defined : ∀ c ∈ concrete classes, dumpDefined classes c = true := by decide

/-- every dumped key is an accepted constructor argument: a named parameter, or absorbed by
`**kwargs` and settable as a property / attribute of the instance. -/
theorem dumped_keys_accepted : ∀ c ∈ concrete classes, dumpedKeysAccepted classes c = true := by decide

/-- every required constructor argument is dumped. -/
theorem required_args_dumped : ∀ c ∈ concrete classes, requiredDumped classes c = true := by decide

/-- every constructor argument whose value can differ from its default is dumped (every named
argument; every key passed through `**kwargs`, which is also assigned on the instance). -/
theorem dump_covers_ctor : ∀ c ∈ concrete classes, dumpCoversCtor classes c = true := by decide

/-- `cls(**obj.to_dict())` binds along the whole `__init__` chain, and the twin dumps the same keys. -/
theorem from_dict_binds : ∀ c ∈ concrete classes, fromDictBinds classes c = true := by decide

/-- `from_dict(d)` is `cls(**d)` for every shipped class: the dictionary reaches the constructor untouched (no key
dropped, renamed, reordered, no value capped). -/
theorem from_dict_is_ctor : ∀ c ∈ concrete classes, fromDictIsCtor classes c = true := by decide

/-- spelled out for one class and one call: every key of the dump of a fully specified TDevice with
an extra keyword is accepted by `TDevice(**dump)`. -/
example : dumpedFor classes "TDevice" [probeKey] =
    some ["id", "length", "bounds", "cbounds", probeKey, "sustainment", "efficiency", "t_init", "t_optimal",
          "t_range", "t_external", "c"] := by decide

/-! ## 2. bridge: the value model's key lists are the table's -/

/-- with no extra keyword, with one and with two: the model's `toDict` keys (`modelKeys`) are the
keys the table derives from the source, for every shipped class that takes the extras. -/
theorem bridge_keys : ∀ n ∈ shipped, ∀ ex ∈ [[], [probeKey], ["§a", "§b"]],
    (modelKeys n ex).isSome = true → dumpedFor classes n ex = modelKeys n ex := by decide

/-- the model gives a class extra keys exactly when its constructor takes `**kwargs`. -/
theorem bridge_varkw : ∀ n ∈ shipped, ∀ c ∈ classes, c.name = n →
    (modelKeys n [probeKey]).isSome = (ctorVarkw classes c).isSome := by decide

theorem bridge_total : ∀ n ∈ shipped, (modelKeys n []).isSome = true := by decide

section Model
variable {α δ : Type}

/-! ## 3a. keys of the model dumps (ties `toDict` to `modelKeys` for ALL settings) -/

theorem keys_Dev (sem : DevSem α δ) (d : DevSettings α δ) :
    (Dev.toDict sem d).keys = devNamed ++ d.extra.keys := Dev.keys_toDict sem d

theorem keys_TDevice (t : TSettings α δ) : (TDev.toDict t).keys = devNamed ++ t.dev.extra.keys ++ tNamed := by
  rw [TDev.toDict, Dict.keys_append, Dev.keys_toDict]
  rfl

theorem keys_WindowDevice (t : WSettings α) :
    (WDev.toDict (δ := δ) t).keys = ["id", "length", "bounds", "cbounds", "w", "c"] := rfl
theorem keys_DeviceSet (s : SetSettings α δ) : (SetDev.toDict s).keys = ["id", "sbounds", "devices"] := rfl
theorem keys_SubBalancedDeviceSet (t : SubSettings α δ) : (SubDev.toDict t).keys =
    ["id", "sbounds", "devices", "labels", "constraint_type", "sign", "apply_to_remaining"] := rfl
theorem keys_MFDeviceSet (m : MFSettings δ) : (MFDev.toDict (α := α) m).keys = ["flows", "device"] := rfl
theorem keys_TwoRatioMFDeviceSet (t : TRSettings α δ) :
    (TRDev.toDict t).keys = ["flows", "device", "ratios", "constraint_type"] := rfl

/-! ## 3b. round trips — the `Device` family -/

/-- Device, PVDevice, CDevice, IDevice, IDevice2, GDevice (setters keep the value, getters return it):
for EVERY keyword dictionary `kw` the constructor accepts, `from_dict(to_dict())` of the constructed
device succeeds and is that device — same id, length, bounds, cbounds, and every parameter. -/
theorem roundtrip_plain (acc : DevSettings α δ → Bool) (kw : Dict α δ) (d : DevSettings α δ)
    (h : Dev.construct semPlain acc kw = .ok d) :
    Dev.fromDict semPlain acc (Dev.toDict semPlain d) = .ok d :=
  Dev.construct_roundtrip semPlain semPlain_lawful acc kw d h

theorem roundtrip_Device (acc : DevSettings α δ → Bool) (kw : Dict α δ) (d : DevSettings α δ)
    (h : Dev.construct semPlain acc kw = .ok d) : Dev.fromDict semPlain acc (Dev.toDict semPlain d) = .ok d :=
  roundtrip_plain acc kw d h
theorem roundtrip_PVDevice (acc : DevSettings α δ → Bool) (kw : Dict α δ) (d : DevSettings α δ)
    (h : Dev.construct semPlain acc kw = .ok d) : Dev.fromDict semPlain acc (Dev.toDict semPlain d) = .ok d :=
  roundtrip_plain acc kw d h
theorem roundtrip_CDevice (acc : DevSettings α δ → Bool) (kw : Dict α δ) (d : DevSettings α δ)
    (h : Dev.construct semPlain acc kw = .ok d) : Dev.fromDict semPlain acc (Dev.toDict semPlain d) = .ok d :=
  roundtrip_plain acc kw d h
theorem roundtrip_IDevice (acc : DevSettings α δ → Bool) (kw : Dict α δ) (d : DevSettings α δ)
    (h : Dev.construct semPlain acc kw = .ok d) : Dev.fromDict semPlain acc (Dev.toDict semPlain d) = .ok d :=
  roundtrip_plain acc kw d h
theorem roundtrip_IDevice2 (acc : DevSettings α δ → Bool) (kw : Dict α δ) (d : DevSettings α δ)
    (h : Dev.construct semPlain acc kw = .ok d) : Dev.fromDict semPlain acc (Dev.toDict semPlain d) = .ok d :=
  roundtrip_plain acc kw d h
theorem roundtrip_GDevice (acc : DevSettings α δ → Bool) (kw : Dict α δ) (d : DevSettings α δ)
    (h : Dev.construct semPlain acc kw = .ok d) : Dev.fromDict semPlain acc (Dev.toDict semPlain d) = .ok d :=
  roundtrip_plain acc kw d h

/-- CDevice2: `cbounds` is required and defaulted to `[(Σlb, Σhb, 0, n)]` when falsy; the dump
carries the defaulted value, which the twin takes as given. -/
theorem roundtrip_CDevice2 [Add α] [OfNat α 0] (acc : DevSettings α δ → Bool) (kw : Dict α δ) (d : DevSettings α δ)
    (h : Dev.construct semCDevice2 acc kw = .ok d) :
    Dev.fromDict semCDevice2 acc (Dev.toDict semCDevice2 d) = .ok d :=
  Dev.construct_roundtrip semCDevice2 semCDevice2_lawful acc kw d h

/-- SDevice: `rate_clip` given as a scalar is stored (and dumped) as a pair, which the setter keeps. -/
theorem roundtrip_SDevice (acc : DevSettings α δ → Bool) (kw : Dict α δ) (d : DevSettings α δ)
    (h : Dev.construct semSDevice acc kw = .ok d) :
    Dev.fromDict semSDevice acc (Dev.toDict semSDevice d) = .ok d :=
  Dev.construct_roundtrip semSDevice semSDevice_lawful acc kw d h

/-- non-vacuity: a constructor call that is accepted (scalar-pair bounds, 2-tuple cbounds, a scalar
rate clip, an extra key) — and what it constructs. -/
example : Dev.construct (α := Int) (δ := Unit) semSDevice (fun _ => true)
    [("id", .str "s"), ("length", .nat 2), ("bounds", .pairNum (-2) 2), ("cbounds", .pairNum (-1) 1),
     ("capacity", .num 5), ("rate_clip", .num 2), ("note", .str "x")]
    = .ok { id := "s", n := 2, bounds := [(-2, 2), (-2, 2)], cbounds := some [{ l := -1, h := 1, s := 0, e := 2 }],
            extra := [("capacity", .num 5), ("rate_clip", .clip (some 2) (some 2)), ("note", .str "x")] } := rfl

example : Dev.construct (α := Int) (δ := Unit) semCDevice2 (fun _ => true)
    [("id", .str "c"), ("length", .nat 2), ("bounds", .pairVec [0, 1] [2, 3]), ("cbounds", .none), ("p_l", .num (-2))]
    = .ok { id := "c", n := 2, bounds := [(0, 1), (2, 3)], cbounds := some [{ l := 2, h := 4, s := 0, e := 2 }],
            extra := [("p_l", .num (-2))] } := rfl

section ADev
variable [Add α] [Sub α] [Mul α] [Div α] [Neg α] [OfNat α 0] [OfNat α 1] [OfNat α 2]
  [LT α] [LE α] [DecidableEq α] [DecidableLT α] [DecidableLE α]

/-- **ADevice**: `f` and the user's `constraints` come back as given — `ADevice.to_dict` dumps the stored
user list, not the combined `constraints` property — for every accepted keyword dictionary, with or
without cumulative bounds. -/
theorem roundtrip_ADevice (acc : DevSettings α δ → Bool) (kw : Dict α δ) (d : DevSettings α δ)
    (h : Dev.construct semADevice acc kw = .ok d) :
    Dev.fromDict semADevice acc (Dev.toDict semADevice d) = .ok d :=
  Dev.construct_roundtrip semADevice semADevice_lawful acc kw d h

/-- non-vacuity: cumulative bounds AND user constraints AND `f` together are constructible. -/
example : Dev.construct (α := Int) (δ := Unit) semADevice (fun _ => true)
      [("id", .str "a"), ("length", .nat 1), ("bounds", .pairNum 0 1), ("cbounds", .pairNum 0 1), ("f", .fn .null),
       ("constraints", .cons [])]
    = .ok { id := "a", n := 1, bounds := [(0, 1)], cbounds := some [{ l := 0, h := 1, s := 0, e := 1 }],
            extra := [("f", .fn .null), ("constraints", .cons [])] } := rfl

/-- ABOUT THE OLD DUMP FUNCTION (`semADeviceOld`, the code before `/repo` commit 31f4c67 — NOT the code
as it is): one slot, one cumulative bound, an (empty) user constraint list.  The old dump's
`constraints` held the two cumulative-bound closures, so the twin was not the original, whatever the
validators.  This is what the reverse of that commit re-introduces. -/
theorem old_ADevice_dump_counterexample :
    ∃ d : DevSettings α δ, Dev.construct semADeviceOld (fun _ => true)
        [("id", .str "a"), ("length", .nat 1), ("bounds", .pairNum 0 1), ("cbounds", .pairNum 0 1), ("constraints", .cons [])] = .ok d
      ∧ ∀ acc, Dev.fromDict semADeviceOld acc (Dev.toDict semADeviceOld d) ≠ .ok d := by
  refine ⟨{ id := "a", n := 1, bounds := [(0, 1)], cbounds := some [{ l := 0, h := 1, s := 0, e := 1 }],
            extra := [("constraints", .cons [])] }, rfl, ?_⟩
  intro acc hcontra
  have hd : Dev.fromDict (δ := δ) semADeviceOld acc
      [("id", .str "a"), ("length", .nat 1), ("bounds", .table [((0 : α), (1 : α))]),
       ("cbounds", .cbs [{ l := 0, h := 1, s := 0, e := 1 }]),
       ("constraints", .cons (cboundCons 1 { l := (0 : α), h := 1, s := 0, e := 1 }))]
      = (if acc { id := "a", n := 1, bounds := [(0, 1)], cbounds := some [{ l := 0, h := 1, s := 0, e := 1 }],
                  extra := [("constraints", .cons (cboundCons 1 { l := (0 : α), h := 1, s := 0, e := 1 }))] }
         then .ok { id := "a", n := 1, bounds := [(0, 1)], cbounds := some [{ l := 0, h := 1, s := 0, e := 1 }],
                    extra := [("constraints", .cons (cboundCons 1 { l := (0 : α), h := 1, s := 0, e := 1 }))] }
         else .error .rejected) := rfl
  have hdump : Dev.toDict (δ := δ) semADeviceOld
      { id := "a", n := 1, bounds := [((0 : α), (1 : α))], cbounds := some [{ l := 0, h := 1, s := 0, e := 1 }],
        extra := [("constraints", .cons [])] }
      = [("id", .str "a"), ("length", .nat 1), ("bounds", .table [((0 : α), (1 : α))]),
         ("cbounds", .cbs [{ l := 0, h := 1, s := 0, e := 1 }]),
         ("constraints", .cons (cboundCons 1 { l := (0 : α), h := 1, s := 0, e := 1 }))] := by
    simp [Dev.toDict, semADeviceOld, optCbsVal, deviceCons]
  rw [hdump, hd] at hcontra
  split at hcontra
  · simp only [Except.ok.injEq, DevSettings.mk.injEq, List.cons.injEq, Prod.mk.injEq, Val.cons.injEq] at hcontra
    simp [cboundCons] at hcontra
  · contradiction
end ADev

/-! ## 3c. TDevice -/

/-- what a constructed TDevice satisfies: its `Device` part is in stored form and no `**meta` key is
one of the thermal parameter names (Python binds those by name). -/
structure TStored (t : TSettings α δ) : Prop where
  dev : Dev.Stored semPlain t.dev
  fresh : ∀ e ∈ t.dev.extra, e.1 ∉ tNamed

theorem TDev.without_toDict (t : TSettings α δ) (hs : TStored t) :
    (TDev.toDict t).without tNamed = Dev.toDict semPlain t.dev := by
  unfold TDev.toDict
  rw [Dict.without_append, Dict.without_of_fresh, Dict.without_of_all_mem]
  · simp
  · intro e he
    simp only [List.mem_cons, List.not_mem_nil, or_false] at he
    rcases he with rfl | rfl | rfl | rfl | rfl | rfl | rfl <;> simp [tNamed]
  · intro e he
    simp only [Dev.toDict, List.mem_append, List.mem_cons, List.not_mem_nil, or_false, List.mem_map] at he
    rcases he with (rfl | rfl | rfl | rfl) | ⟨e0, he0, rfl⟩
    · simp [tNamed]
    · simp [tNamed]
    · simp [tNamed]
    · simp [tNamed]
    · exact hs.fresh e0 he0

theorem TDev.get_named (t : TSettings α δ) (hs : TStored t) (k : String) (hk : k ∈ tNamed) :
    Dict.get (TDev.toDict t) k = Dict.get
      [("sustainment", Val.num t.sustainment), ("efficiency", .num t.efficiency), ("t_init", .num t.tInit),
       ("t_optimal", .num t.tOptimal), ("t_range", .num t.tRange), ("t_external", .vec t.tExternal), ("c", t.c.toVal)] k := by
  unfold TDev.toDict
  rw [Dict.get_append, Dict.get_eq_none_of_not_mem]
  rw [Dev.keys_toDict]
  intro hmem
  rw [List.mem_append] at hmem
  rcases hmem with hmem | hmem
  · simp only [tNamed, devNamed, List.mem_cons, List.not_mem_nil, or_false] at hk hmem
    rcases hk with rfl | rfl | rfl | rfl | rfl | rfl | rfl <;> simp at hmem
  · simp only [Dict.keys, List.mem_map] at hmem
    obtain ⟨e, he, rfl⟩ := hmem
    exact hs.fresh e he hk

/-- **TDevice**: for every constructed state, `TDevice.from_dict(t.to_dict())` succeeds and is `t`
(in particular the cost scaling `c` and the thermal parameters come back). -/
theorem roundtrip_TDevice [OfNat α 1] (acc : TSettings α δ → Bool) (t : TSettings α δ) (hs : TStored t) (ha : acc t = true) :
    TDev.construct acc (TDev.toDict t) = .ok t := by
  have hbase := Dev.roundtrip semPlain (fun _ => true) t.dev hs.dev rfl
  unfold Dev.fromDict at hbase
  unfold TDev.construct
  rw [TDev.without_toDict t hs, hbase]
  simp only [getNum]
  rw [TDev.get_named t hs "sustainment" (by simp [tNamed]), TDev.get_named t hs "efficiency" (by simp [tNamed]),
    TDev.get_named t hs "t_init" (by simp [tNamed]), TDev.get_named t hs "t_optimal" (by simp [tNamed]),
    TDev.get_named t hs "t_range" (by simp [tNamed]), TDev.get_named t hs "t_external" (by simp [tNamed]),
    TDev.get_named t hs "c" (by simp [tNamed])]
  obtain ⟨dev, sus, eff, ti, topt, tr, te, c⟩ := t
  cases c <;> simp [Dict.get, SV.toVal, bind, Except.bind, pure, Except.pure] <;> simp_all

/-- whatever the TDevice constructor returns is in stored form. -/
theorem TDev.construct_stored [OfNat α 1] (acc : TSettings α δ → Bool) (kw : Dict α δ) (t : TSettings α δ)
    (h : TDev.construct acc kw = .ok t) : TStored t ∧ acc t = true := by
  unfold TDev.construct at h
  simp only [bind, Except.bind, pure, Except.pure] at h
  split at h <;> try contradiction
  rename_i dev hdev
  have hst := Dev.construct_stored semPlain semPlain_lawful _ _ _ hdev
  have hextra : ∀ e ∈ dev.extra, e.1 ∉ tNamed := by
    unfold Dev.construct at hdev
    split at hdev <;> try contradiction
    split at hdev <;> try contradiction
    split at hdev <;> try contradiction
    simp only [semPlain] at hdev
    split at hdev <;> try contradiction
    simp only [Except.ok.injEq] at hdev
    subst hdev
    intro e he
    simp only [List.mem_map] at he
    obtain ⟨e0, he0, rfl⟩ := he
    exact (Dict.mem_without kw tNamed e0 (Dict.mem_without _ devNamed e0 he0).1).2
  repeat (split at h <;> try contradiction)
  all_goals
    first
      | (simp only [Except.ok.injEq] at h; subst h; exact ⟨⟨hst.1, hextra⟩, by assumption⟩)
      | (split at h
         · simp only [Except.ok.injEq] at h; subst h; exact ⟨⟨hst.1, hextra⟩, by assumption⟩
         · cases h)

/-- full-strength form for TDevice. -/
theorem construct_roundtrip_TDevice [OfNat α 1] (acc : TSettings α δ → Bool) (kw : Dict α δ) (t : TSettings α δ)
    (h : TDev.construct acc kw = .ok t) : TDev.construct acc (TDev.toDict t) = .ok t :=
  let ⟨hs, ha⟩ := TDev.construct_stored acc kw t h
  roundtrip_TDevice acc t hs ha

example : TDev.construct (α := Int) (δ := Unit) (fun _ => true)
    [("id", .str "t"), ("length", .nat 2), ("bounds", .pairNum 0 2), ("sustainment", .num 1), ("efficiency", .num 2),
     ("t_init", .num 10), ("t_optimal", .num 20), ("t_range", .num 3), ("t_external", .vec [5, 6]), ("c", .vec [1, 2]),
     ("cbounds", .pairNum 1 3), ("zork", .nat 1)]
    = .ok { dev := { id := "t", n := 2, bounds := [(0, 2), (0, 2)], cbounds := some [{ l := 1, h := 3, s := 0, e := 2 }],
                     extra := [("zork", .nat 1)] },
            sustainment := 1, efficiency := 2, tInit := 10, tOptimal := 20, tRange := 3, tExternal := [5, 6], c := .v [1, 2] } := rfl

/-! ## 3d. WindowDevice -/

/-- **WindowDevice**: `(id, length, bounds, w, cbounds, c)` all come back; `f` is not dumped and is
rebuilt from `(w, c)` by the constructor. -/
theorem roundtrip_WindowDevice [OfNat α 1] (acc : WSettings α → Bool) (t : WSettings α) (hlen : t.bounds.length = t.n)
    (ha : acc t = true) : WDev.construct (δ := δ) acc (WDev.toDict t) = .ok t := by
  have hbase := Dev.roundtrip (δ := δ) semPlain (fun _ => true)
    { id := t.id, n := t.n, bounds := t.bounds, cbounds := t.cbounds, extra := [] }
    ⟨hlen, by simp, by simp, rfl⟩ rfl
  unfold Dev.fromDict at hbase
  have hw : (WDev.toDict (δ := δ) t).without ["w", "c"] =
      Dev.toDict semPlain { id := t.id, n := t.n, bounds := t.bounds, cbounds := t.cbounds, extra := [] } := by
    simp [WDev.toDict, Dev.toDict, Dict.without]
  unfold WDev.construct
  rw [hw, hbase]
  simp [firstUnexpected, WDev.toDict, Dict.keys, wNamed, getNum, Dict.get, bind, Except.bind, pure, Except.pure, ha]

example : WDev.construct (α := Int) (δ := Unit) (fun _ => true)
    [("id", .str "w"), ("length", .nat 2), ("bounds", .pairNum 0 2), ("w", .num 2), ("cbounds", .pairNum 1 3), ("c", .num 3)]
    = .ok { id := "w", n := 2, bounds := [(0, 2), (0, 2)], cbounds := some [{ l := 1, h := 3, s := 0, e := 2 }], w := 2, c := 3 } := rfl

/-- a dump with a key the constructor does not take is refused — the shape of defect D15a
(`WindowDevice.to_dict` dumping `f`). -/
theorem WindowDevice_rejects_f [OfNat α 1] (acc : WSettings α → Bool) (t : WSettings α) (f : Fn α) :
    WDev.construct (δ := δ) acc (WDev.toDict t ++ [("f", .fn f)]) = .error (.unexpected "f") := by
  simp [WDev.construct, firstUnexpected, WDev.toDict, Dict.keys, wNamed, bind, Except.bind, throw, throwThe, MonadExceptOf.throw]

/-! ## 3e. sets — identity on the (live) children -/

/-- **DeviceSet**: the twin has the same id, the same aggregate bounds and THE SAME child objects. -/
theorem roundtrip_DeviceSet (len : δ → Nat) (acc : SetSettings α δ → Bool) (s : SetSettings α δ)
    (hne : s.devices ≠ []) (hsb : ∀ t, s.sbounds = some t → t.length = len (s.devices.head hne)) (ha : acc s = true) :
    SetDev.construct len acc (SetDev.toDict s) = .ok s := by
  obtain ⟨id, devs, sb⟩ := s
  cases devs with
  | nil => exact absurd rfl hne
  | cons d0 ds =>
    cases sb with
    | none => simp_all [SetDev.construct, SetDev.bind, SetDev.toDict, firstUnexpected, Dict.keys, setNamed, Dict.get, bind, Except.bind, pure, Except.pure]
    | some t =>
      have := hsb t rfl
      simp_all [SetDev.construct, SetDev.bind, SetDev.toDict, firstUnexpected, Dict.keys, setNamed, Dict.get, bind, Except.bind, pure, Except.pure, normBounds]

theorem SetDev.bind_toDict (len : δ → Nat) (s : SetSettings α δ) (rest : Dict α δ)
    (hne : s.devices ≠ []) (hsb : ∀ t, s.sbounds = some t → t.length = len (s.devices.head hne)) :
    SetDev.bind len (SetDev.toDict s ++ rest) = .ok s := by
  obtain ⟨id, devs, sb⟩ := s
  cases devs with
  | nil => exact absurd rfl hne
  | cons d0 ds =>
    cases sb with
    | none => simp [SetDev.bind, SetDev.toDict, Dict.get]
    | some t =>
      have := hsb t rfl
      simp_all [SetDev.bind, SetDev.toDict, Dict.get, normBounds]

/-- **SubBalancedDeviceSet**: labels, constraint type, sign and `apply_to_remaining` come back too. -/
theorem roundtrip_SubBalancedDeviceSet [OfNat α 1] (len : δ → Nat) (acc : SubSettings α δ → Bool) (t : SubSettings α δ)
    (hne : t.set.devices ≠ []) (hsb : ∀ tb, t.set.sbounds = some tb → tb.length = len (t.set.devices.head hne))
    (ha : acc t = true) : SubDev.construct len acc (SubDev.toDict t) = .ok t := by
  unfold SubDev.construct SubDev.toDict
  rw [SetDev.bind_toDict len t.set _ hne hsb]
  obtain ⟨⟨id, devs, sb⟩, labels, ctype, sign, rem⟩ := t
  simp_all [SetDev.toDict, firstUnexpected, Dict.keys, subNamed, setNamed, Dict.get, bind, Except.bind, pure, Except.pure]

/-- **MFDeviceSet**: same flows, THE SAME wrapped device object. -/
theorem roundtrip_MFDeviceSet (acc : MFSettings δ → Bool) (m : MFSettings δ) (ha : acc m = true) :
    MFDev.construct (α := α) acc (MFDev.toDict m) = .ok m := by
  simp [MFDev.construct, MFDev.bind, MFDev.toDict, firstUnexpected, Dict.keys, mfNamed, Dict.get, bind, Except.bind, pure, Except.pure, ha]

/-- **TwoRatioMFDeviceSet**: the ratios and the constraint type come back. -/
theorem roundtrip_TwoRatioMFDeviceSet (acc : TRSettings α δ → Bool) (t : TRSettings α δ) (ha : acc t = true) :
    TRDev.construct acc (TRDev.toDict t) = .ok t := by
  obtain ⟨⟨dev, flows⟩, ratios, ctype⟩ := t
  simp_all [TRDev.construct, TRDev.toDict, MFDev.bind, MFDev.toDict, firstUnexpected, Dict.keys, trNamed, mfNamed, Dict.get, bind, Except.bind, pure, Except.pure]

/-- a dump that omits a required argument is refused — the shape of the "omit 'ratios'" mutant. -/
theorem TwoRatio_requires_ratios (acc : TRSettings α δ → Bool) (m : MFSettings δ) :
    TRDev.construct (α := α) acc (MFDev.toDict m ++ [("constraint_type", .str "eq")]) = .error (.missing "ratios") := by
  simp [TRDev.construct, MFDev.bind, MFDev.toDict, firstUnexpected, Dict.keys, trNamed, mfNamed, Dict.get, bind, Except.bind, throw, throwThe, MonadExceptOf.throw, pure, Except.pure]

/-- `ratios=None` is refused by the constructor as the code is now (ValueError), so no dump can carry it. -/
theorem TwoRatio_rejects_none (acc : TRSettings α δ → Bool) (m : MFSettings δ) :
    TRDev.construct (α := α) acc (MFDev.toDict m ++ [("ratios", .none)]) = .error .rejected := by
  simp [TRDev.construct, MFDev.bind, MFDev.toDict, firstUnexpected, Dict.keys, trNamed, mfNamed, Dict.get, bind, Except.bind, throw, throwThe, MonadExceptOf.throw, pure, Except.pure]

example : TRDev.construct (α := Int) (δ := Nat) (fun _ => true)
    [("device", .obj 3), ("flows", .strs ["e", "h"]), ("ratios", .vec [1, 2]), ("constraint_type", .str "ineq")]
    = .ok { mf := { device := 3, flows := ["e", "h"] }, ratios := [1, 2], ctype := "ineq" } := rfl

example : SubDev.construct (α := Int) (δ := Nat) id (fun _ => true)
    [("id", .str "sb"), ("devices", .objs [3, 3]), ("sbounds", .pairNum 0 5), ("labels", .strs ["e"]), ("sign", .num (-1))]
    = .ok { set := { id := "sb", devices := [3, 3], sbounds := some [(0, 5), (0, 5), (0, 5)] },
            labels := ["e"], ctype := "eq", sign := -1, rem := false } := rfl

/-! ## 3f. same behaviour: cost, marginal cost, Hessian and constraints are functions of the settings -/

section Behaviour
variable [Add α] [Sub α] [Mul α] [Div α] [Neg α] [OfNat α 0] [OfNat α 1] [OfNat α 2]
  [LT α] [LE α] [DecidableEq α] [DecidableLT α] [DecidableLE α]

/-- **same behaviour, `Device` family**: whatever `from_dict(to_dict())` returns for a constructed
device of class `cls` has the same cost, marginal cost, Hessian and constraint list — at every flow
and price — because it IS the same settings (`sem` is the class's setter/getter semantics). -/
theorem same_behaviour_Dev (cls : LeafClass) (sem : DevSem α δ) (hl : sem.Lawful) (acc : DevSettings α δ → Bool)
    (kw : Dict α δ) (d d' : DevSettings α δ) (h : Dev.construct sem acc kw = .ok d)
    (h' : Dev.fromDict sem acc (Dev.toDict sem d) = .ok d') :
    d'.id = d.id ∧ d'.n = d.n ∧ d'.bounds = d.bounds ∧ d'.cbounds = d.cbounds ∧ d'.extra = d.extra
    ∧ (∀ s p, (toLeaf cls d').cost s p = (toLeaf cls d).cost s p)
    ∧ (∀ s p i, (toLeaf cls d').deriv s p i = (toLeaf cls d).deriv s p i)
    ∧ (∀ s i j, (toLeaf cls d').hess s i j = (toLeaf cls d).hess s i j)
    ∧ leafCons cls d' = leafCons cls d := by
  rw [Dev.construct_roundtrip sem hl acc kw d h] at h'
  cases h'
  simp

/-- **same behaviour, TDevice**. -/
theorem same_behaviour_TDevice (acc : TSettings α δ → Bool) (kw : Dict α δ) (t t' : TSettings α δ)
    (h : TDev.construct acc kw = .ok t) (h' : TDev.construct acc (TDev.toDict t) = .ok t') :
    (∀ s p, t'.toLeaf.cost s p = t.toLeaf.cost s p) ∧ (∀ s p i, t'.toLeaf.deriv s p i = t.toLeaf.deriv s p i)
    ∧ deviceCons t'.dev.n (t'.dev.cbounds.getD []) = deviceCons t.dev.n (t.dev.cbounds.getD []) := by
  rw [construct_roundtrip_TDevice acc kw t h] at h'
  cases h'
  simp

/-- **same behaviour, sets**: with the children behaving as they do (`child`, the same objects), the
twin is the same node of the tree model — same cost, marginal cost, bounds, labels and constraints. -/
theorem same_behaviour_SubBalancedDeviceSet (len : δ → Nat) (acc : SubSettings α δ → Bool) (t t' : SubSettings α δ)
    (hne : t.set.devices ≠ []) (hsb : ∀ tb, t.set.sbounds = some tb → tb.length = len (t.set.devices.head hne))
    (ha : acc t = true) (h' : SubDev.construct len acc (SubDev.toDict t) = .ok t') (child : δ → Tree α) :
    t'.toTree child = t.toTree child := by
  rw [roundtrip_SubBalancedDeviceSet len acc t hne hsb ha] at h'
  cases h'
  rfl

theorem same_behaviour_DeviceSet (len : δ → Nat) (acc : SetSettings α δ → Bool) (s s' : SetSettings α δ)
    (hne : s.devices ≠ []) (hsb : ∀ t, s.sbounds = some t → t.length = len (s.devices.head hne)) (ha : acc s = true)
    (h' : SetDev.construct len acc (SetDev.toDict s) = .ok s') (child : δ → Tree α) :
    s'.toTree child = s.toTree child := by
  rw [roundtrip_DeviceSet len acc s hne hsb ha] at h'
  cases h'
  rfl

end Behaviour
end Model
end DK.C16
