import DK.Props.Defs
import DK.Lemmas.Sum
import DK.Lemmas.Calc
import DK.Lemmas.Bridge
import Mathlib.Analysis.SpecialFunctions.Pow.Real
import Mathlib.Tactic.Ring
import Mathlib.Tactic.Linarith
import Mathlib.Tactic.FieldSimp
/-!
# C15 — cost models have the documented closed forms and end-point behaviour

`Doc.*` restates the **documentation** (README.md "Flexibility Modeling Details", the class
docstrings of `device_kit/*.py`, `docs/instantaneous-device-utility-curve-analysis.md` and the text
of property C15) with Mathlib's `Finset.sum`, `max`, `^` — *not* with the model's `sumTo`,
`polyEval` (Horner), `minZero`, `abcS/abcQ`.  The theorems prove the executable model
(`DK/Model/{Kernels,Leaf}.lean`, tied to the code by T1 + T2) equal to it.

Where the documentation does not determine a number, this is said and the code's choice is stated
as a theorem instead of being hidden in a definition:

* the high/low quadratic curve is documented only through its marginal cost (`p_l` at the lower
  bound, `p_h` at the upper, linear between — idevice2.py:6-20, the docs' "Alt 2").  That pins the
  marginal cost completely (`hl_marginal_unique`) and the cost up to an additive constant
  (`hlqCost_diff`).  **The code's additive constant** (`hlqCost_const`): for `p_l ≠ p_h` the cost
  vanishes at the (extrapolated) point of zero marginal cost `x* = x_l − p_l·(x_h−x_l)/(p_h−p_l)`,
  i.e. `cost(x_l) = p_l²·(x_h−x_l)/(2·(p_h−p_l))`; for `p_l = p_h` it vanishes at `x_l`
  (`cost(x) = p_l·(x−x_l)`).  With the default `p_h = 0`: `x* = x_h`, the cost is `0` at the upper
  bound.
* `CDevice2` with exactly one cumulative bound whose range is a proper sub-range: see
  `cdevice2_cost_doc_partial` / `cdevice2_single_subrange_counterexample`.

Exponents: `idevice_cost_doc` is generic in the power operation (`ipow` on `ℤ` in the executable
model, `Real.rpow` in the instance below).
-/
namespace DK.C15
open DK Finset
noncomputable section

/-! ## the documentation -/
namespace Doc

/-- README: "The `Device` base class has no preferences"; device.py:55-59 "device cares linearly about
costs": `(s*p).sum()`.  pvdevice.py:20 "Cost is -profit": `s*p`. -/
def linear (n : ℕ) (s p : ℕ → ℝ) : ℝ := ∑ k ∈ range n, s k * p k

/-- cdevice.py:6-8: "cost function based on the sum resource consumption … `C = a(Q) + b`". -/
def cdevCost (n : ℕ) (a b : ℝ) (s p : ℕ → ℝ) : ℝ := a * (∑ k ∈ range n, s k) + b + linear n s p

/-- numpy's documented meaning of a coefficient list (highest degree first, gdevice.py:16
"Example `[1,1,0]` for `cost(q) = q**2 + q`"): `Σ_j c_j · x^(deg − j)`. -/
def poly (cs : List ℝ) (x : ℝ) : ℝ := ∑ j ∈ range cs.length, cs.getD j 0 * x ^ (cs.length - 1 - j)

/-- gdevice.py:6-21: per-slot polynomial cost of the *generated* quantity; "generation is always
indicated by negative values", the polynomial is over the positive quantity `−s`. -/
def gdevCost (n : ℕ) (cs : ℕ → List ℝ) (s p : ℕ → ℝ) : ℝ :=
  (∑ k ∈ range n, poly (cs k) (- s k)) + linear n s p

/-- the straight line through `(xl, yl)` and `(xh, yh)`. -/
def lerp (xl xh yl yh x : ℝ) : ℝ := yl + (yh - yl) * ((x - xl) / (xh - xl))

/-- idevice2.py:11-16: "`p_h`, `p_l` is the derivative [of the] quadratic section at `r_max`, `r_min`
respectively … indeterminate when `r_max == r_min`, but returns 0 in this case.  Same for deriv." -/
def hlMarginal (pl ph xl xh x : ℝ) : ℝ := if xl = xh then 0 else lerp xl xh pl ph x

/-- the area under the documented marginal cost between `x0` and `x` (trapezoid rule, exact for a
straight line): what the documentation fixes of the cost. -/
def hlArea (pl ph xl xh x0 x : ℝ) : ℝ := (x - x0) * (hlMarginal pl ph xl xh x0 + hlMarginal pl ph xl xh x) / 2

/-- NOT documented — the code's additive constant, `cost(x_l)` (see the header). -/
def hlConst (pl ph xl xh : ℝ) : ℝ :=
  if xl = xh ∨ pl = ph then 0 else pl ^ 2 * (xh - xl) / (2 * (ph - pl))

def hlCost (pl ph xl xh x : ℝ) : ℝ := hlConst pl ph xl xh + hlArea pl ph xl xh xl x

def idev2Cost (n : ℕ) (pl ph lb hb s p : ℕ → ℝ) : ℝ :=
  (∑ k ∈ range n, hlCost (pl k) (ph k) (lb k) (hb k) (s k)) + linear n s p

/-- cdevice2.py:8 "Same curve as IDevice2 but applied to the scalar sum of consumption"; with the
cumulative low / high of each cumulative bound as end points and the sum over that bound's range
(property C15: "marginal cost exactly `p_l` at the … cumulative low"). -/
def cdev2Cost (pl ph : ℝ) (cbs : List (CBound ℝ)) (s p : ℕ → ℝ) (n : ℕ) : ℝ :=
  (cbs.map (fun c => hlCost pl ph c.l c.h (∑ k ∈ Ico c.s c.e, s k))).sum + linear n s p

/-- functions.py:322-336 (ABCCost): "`s(x)` give[s] `x` scaled from `[x_max, x_min] → [0, 1]` … when `a`
is not zero we get scaling `[x_max, x_min] → [a, 1]`": `q` falls linearly from `1` at the lower bound
to `a` at the upper. -/
def q (a xl xh x : ℝ) : ℝ := lerp xl xh 1 a x

/-- "`f(x) = x^b` … `g(x) = c*f(s(x))`"; zero-width slots contribute nothing. -/
def abcCost {ε : Type} (pow : ℝ → ε → ℝ) (x a : ℝ) (b : ε) (c xl xh : ℝ) : ℝ :=
  if xl = xh then 0 else c * pow (q a xl xh x) b

def idevCost {ε : Type} (pow : ℝ → ε → ℝ) (n : ℕ) (a : ℕ → ℝ) (b : ℕ → ε) (c lb hb s p : ℕ → ℝ) : ℝ :=
  (∑ k ∈ range n, abcCost pow (s k) (a k) (b k) (c k) (lb k) (hb k)) + linear n s p

/-- sdevice.py:17-24, property C15: "shortfall below the damage depth". -/
def shortfall (depth capacity soc : ℝ) : ℝ := max 0 (depth * capacity - soc)

/-- sdevice.py:9-24: `C(q) = D(q) + p·q`, `D` = fast-charging cost `c1·r²` − flip-flop term
`c2·r_i·r_{i+1}` (none for the last slot) + deep-discharge cost `c3·shortfall²`.  `soc` is the state of
charge after each slot (its recurrence is the subject of C09). -/
def storageSlot (n : ℕ) (q : SParams ℝ) (soc r : ℕ → ℝ) (i : ℕ) : ℝ :=
  q.c1 * r i ^ 2 - (if i + 1 < n then q.c2 * (r i * r (i + 1)) else 0)
    + q.c3 * shortfall q.damageDepth q.capacity (soc i) ^ 2

def sdevCost (n : ℕ) (q : SParams ℝ) (soc s p : ℕ → ℝ) : ℝ :=
  (∑ i ∈ range n, storageSlot n q soc s i) + linear n s p

/-- tdevice.py:10-28: "the cost curve is the same as IDevice, but based on instantaneous temperature
… `a` is always 0, `b` [is 2] … the diff between `t_optimal` and `t_min` or `t_max` (symmetrically) is
`c` units of cost". -/
def thermalSlot (c tOpt tRange t : ℝ) : ℝ := if tRange = 0 then 0 else c * ((tOpt - t) / tRange) ^ 2

/-- one temperature cost per slot (not `n` of them: that was defect D14b) plus the price term.
`T` is the temperature after each slot (its recurrence is the subject of C09). -/
def tdevCost (n : ℕ) (q : TParams ℝ) (T s p : ℕ → ℝ) : ℝ :=
  (∑ i ∈ range n, thermalSlot (q.c i) q.tOptimal q.tRange (T i)) + linear n s p

end Doc

/-! ## base / PV, cumulative, generator -/

theorem priceTerm_eq_doc (n : ℕ) (s p : ℕ → ℝ) : priceTerm n s p = Doc.linear n s p := by
  unfold priceTerm Doc.linear; exact sumTo_eq_sum n _

/-- base `Device` and `PVDevice` cost only `s·p`. -/
theorem device_cost_doc (n : ℕ) (s p : ℕ → ℝ) : deviceCost n s p = Doc.linear n s p :=
  priceTerm_eq_doc n s p

theorem device_deriv_doc (p : ℕ → ℝ) (i : ℕ) : deviceDeriv p i = p i := rfl

/-- `CDevice`: `a · total + b` plus the price term. -/
theorem cdevice_cost_doc (n : ℕ) (a b : ℝ) (s p : ℕ → ℝ) : cdevCost n a b s p = Doc.cdevCost n a b s p := by
  unfold cdevCost Doc.cdevCost
  rw [priceTerm_eq_doc, sumTo_eq_sum]

theorem cdevice_deriv_doc (a : ℝ) (p : ℕ → ℝ) (i : ℕ) : cdevDeriv a p i = a + p i := rfl

/-- Horner evaluation (what the model runs) is the explicit polynomial. -/
theorem polyEval_eq_doc (cs : List ℝ) (x : ℝ) : polyEval cs x = Doc.poly cs x := by
  induction cs with
  | nil => simp [polyEval_nil, Doc.poly]
  | cons c cs ih =>
    rw [polyEval_cons, ih]
    unfold Doc.poly
    rw [List.length_cons, Finset.sum_range_succ']
    have e : ∀ j, cs.length + 1 - 1 - (j + 1) = cs.length - 1 - j := fun j => by omega
    simp only [List.getD_cons_succ, List.getD_cons_zero]
    simp only [e]
    simp only [Nat.add_sub_cancel, Nat.sub_zero]
    ring

example : Doc.poly [1, 1, 0] 3 = 3 ^ 2 + 3 := by
  simp [Doc.poly, Finset.sum_range_succ]

/-- `GDevice`: the polynomial of the generated quantity `−s`, per slot. -/
theorem gdevice_cost_doc (n : ℕ) (cs : ℕ → List ℝ) (s p : ℕ → ℝ) : gdevCost n cs s p = Doc.gdevCost n cs s p := by
  unfold gdevCost Doc.gdevCost Doc.linear
  rw [sumTo_eq_sum, Finset.sum_add_distrib]
  simp only [polyEval_eq_doc]
  ring

/-! ## the high/low quadratic kernel -/

theorem hlqDeriv_eq_doc (pl ph xl xh x : ℝ) : hlqDeriv pl ph xl xh x = Doc.hlMarginal pl ph xl xh x := by
  unfold hlqDeriv Doc.hlMarginal Doc.lerp
  split_ifs <;> ring

/-- marginal cost exactly `p_l` at the lower end … -/
theorem hlqDeriv_at_low (pl ph xl xh : ℝ) (h : xl ≠ xh) : hlqDeriv pl ph xl xh xl = pl := by
  unfold hlqDeriv; simp [h]

/-- … exactly `p_h` at the upper end … -/
theorem hlqDeriv_at_high (pl ph xl xh : ℝ) (h : xl ≠ xh) : hlqDeriv pl ph xl xh xh = ph := by
  unfold hlqDeriv
  have hd : xh - xl ≠ 0 := sub_ne_zero.mpr (Ne.symm h)
  simp only [h, if_false]
  field_simp
  ring

/-- the same two facts about `DK.Gen.hlq_deriv`, the mechanical translation (T1) of today's
`HLQuadraticCost._deriv`, through the bridge lemma. -/
theorem gen_hlq_deriv_end_points (pl ph xl xh : ℝ) (h : xl ≠ xh) :
    Gen.hlq_deriv xl pl ph xl xh = pl ∧ Gen.hlq_deriv xh pl ph xl xh = ph := by
  rw [Bridge.hlq_deriv, Bridge.hlq_deriv]
  exact ⟨hlqDeriv_at_low pl ph xl xh h, hlqDeriv_at_high pl ph xl xh h⟩

/-- … varying linearly between (and beyond). -/
theorem hlqDeriv_affine (pl ph xl xh : ℝ) : ∃ m c : ℝ, ∀ x, hlqDeriv pl ph xl xh x = m * x + c := by
  by_cases h : xl = xh
  · exact ⟨0, 0, fun x => by simp [hlqDeriv, h]⟩
  · refine ⟨(ph - pl) / (xh - xl), pl - (ph - pl) * xl / (xh - xl), fun x => ?_⟩
    have hd : xh - xl ≠ 0 := sub_ne_zero.mpr (Ne.symm h)
    simp only [hlqDeriv, h, if_false]
    field_simp
    ring

/-- these three facts pin the marginal cost: it is the only affine function with those end values. -/
theorem hl_marginal_unique (pl ph xl xh : ℝ) (h : xl ≠ xh) (g : ℝ → ℝ) (m c : ℝ)
    (hg : ∀ x, g x = m * x + c) (hl : g xl = pl) (hh : g xh = ph) :
    ∀ x, g x = hlqDeriv pl ph xl xh x := by
  intro x
  have hd : xh - xl ≠ 0 := sub_ne_zero.mpr (Ne.symm h)
  simp only [hlqDeriv, h, if_false]
  rw [← hl, ← hh, hg x, hg xl, hg xh]
  field_simp
  ring

example : ∃ g : ℝ → ℝ, (∀ x, g x = 2 * x + (-2)) ∧ g 0 = -2 ∧ g 1 = 0 ∧ (0:ℝ) ≠ 1 :=
  ⟨fun x => 2 * x + (-2), fun _ => rfl, by norm_num, by norm_num, by norm_num⟩

/-- the cost is an antiderivative of that marginal cost (zero-width slots included) … -/
theorem hlqCost_antideriv (pl ph xl xh x : ℝ) :
    HasDerivAt (fun y => hlqCost pl ph xl xh y) (Doc.hlMarginal pl ph xl xh x) x := by
  rw [← hlqDeriv_eq_doc]; exact hlqCost_hasDerivAt pl ph xl xh x

/-- … so cost differences are the documented area, for any two flows. -/
theorem hlqCost_diff (pl ph xl xh x0 x : ℝ) :
    hlqCost pl ph xl xh x - hlqCost pl ph xl xh x0 = Doc.hlArea pl ph xl xh x0 x := by
  unfold Doc.hlArea
  rw [← hlqDeriv_eq_doc, ← hlqDeriv_eq_doc]
  unfold hlqCost hlqDeriv
  by_cases h : xl = xh
  · simp [h]
  · have hd : xh - xl ≠ 0 := sub_ne_zero.mpr (Ne.symm h)
    simp only [h, if_false]
    generalize (if (ph - pl) / 2 = 0 then (0:ℝ) else
      (ph - pl) / 2 * (-pl / (2 * ((ph - pl) / 2))) * (-pl / (2 * ((ph - pl) / 2)))
        + pl * (-pl / (2 * ((ph - pl) / 2)))) = C
    field_simp
    ring

/-- **the code's additive constant** (not documented). -/
theorem hlqCost_const (pl ph xl xh : ℝ) : hlqCost pl ph xl xh xl = Doc.hlConst pl ph xl xh := by
  unfold hlqCost Doc.hlConst
  by_cases h : xl = xh
  · simp [h]
  · have hd : xh - xl ≠ 0 := sub_ne_zero.mpr (Ne.symm h)
    by_cases hp : pl = ph
    · subst hp; simp [h]
    · have hpp : ph - pl ≠ 0 := sub_ne_zero.mpr (Ne.symm hp)
      have ha : (ph - pl) / 2 ≠ 0 := by
        intro h0; apply hpp; linarith
      simp only [h, hp, or_self, if_false, ha, sub_self, zero_div, mul_zero, add_zero]
      field_simp
      ring

/-- linear case `p_l = p_h`: the cost vanishes at the lower end. -/
theorem hlqCost_linear (p xl xh x : ℝ) (h : xl ≠ xh) : hlqCost p p xl xh x = p * (x - xl) := by
  have hd : xh - xl ≠ 0 := sub_ne_zero.mpr (Ne.symm h)
  unfold hlqCost
  simp only [h, if_false, sub_self, zero_div, if_true, zero_mul, sub_zero]
  field_simp
  ring

/-- quadratic case: the cost vanishes at the point of zero marginal cost. -/
theorem hlqCost_at_vertex (pl ph xl xh : ℝ) (h : xl ≠ xh) (hp : pl ≠ ph) :
    hlqCost pl ph xl xh (xl - pl * (xh - xl) / (ph - pl)) = 0 ∧
    hlqDeriv pl ph xl xh (xl - pl * (xh - xl) / (ph - pl)) = 0 := by
  have hd : xh - xl ≠ 0 := sub_ne_zero.mpr (Ne.symm h)
  have hpp : ph - pl ≠ 0 := sub_ne_zero.mpr (Ne.symm hp)
  have ha : (ph - pl) / 2 ≠ 0 := by
    intro h0; apply hpp; linarith
  constructor
  · unfold hlqCost
    simp only [h, if_false, ha]
    field_simp
    ring
  · unfold hlqDeriv
    simp only [h, if_false]
    field_simp
    ring

/-- the repository's own test points: `HLQuadraticCost(-1, 0, 0, 1)` is `1/2` at `0` and `0` at `1`
(non-vacuity of `hlqCost_at_vertex`: here the vertex is the upper end). -/
example : hlqCost (-1 : ℝ) 0 0 1 0 = 1 / 2 ∧ hlqCost (-1 : ℝ) 0 0 1 1 = 0 := by
  constructor
  · rw [hlqCost_const (-1) 0 0 1]; norm_num [Doc.hlConst]
  · have h := (hlqCost_at_vertex (-1) 0 0 1 (by norm_num) (by norm_num)).1
    norm_num at h
    exact h

/-- the kernel in closed form: documented area from the lower end plus the code's constant. -/
theorem hlqCost_eq_doc (pl ph xl xh x : ℝ) : hlqCost pl ph xl xh x = Doc.hlCost pl ph xl xh x := by
  unfold Doc.hlCost
  rw [← hlqCost_const, ← hlqCost_diff]; ring

/-! ## IDevice2 -/

theorem idevice2_cost_doc (n : ℕ) (pl ph lb hb s p : ℕ → ℝ) :
    idev2Cost n pl ph lb hb s p = Doc.idev2Cost n pl ph lb hb s p := by
  unfold idev2Cost Doc.idev2Cost
  rw [priceTerm_eq_doc, sumTo_eq_sum]
  simp only [hlqCost_eq_doc]

/-- end-point marginal costs of `IDevice2` (plus the price). -/
theorem idevice2_deriv_low (pl ph lb hb s p : ℕ → ℝ) (i : ℕ) (hw : lb i ≠ hb i) (hs : s i = lb i) :
    idev2Deriv pl ph lb hb s p i = pl i + p i := by
  unfold idev2Deriv; rw [hs, hlqDeriv_at_low _ _ _ _ hw]

theorem idevice2_deriv_high (pl ph lb hb s p : ℕ → ℝ) (i : ℕ) (hw : lb i ≠ hb i) (hs : s i = hb i) :
    idev2Deriv pl ph lb hb s p i = ph i + p i := by
  unfold idev2Deriv; rw [hs, hlqDeriv_at_high _ _ _ _ hw]

example : ∃ (lb hb s : ℕ → ℝ) (i : ℕ), lb i ≠ hb i ∧ s i = lb i :=
  ⟨fun _ => 0, fun _ => 1, fun _ => 0, 0, by norm_num, rfl⟩

theorem idevice2_deriv_doc (pl ph lb hb s p : ℕ → ℝ) (i : ℕ) :
    idev2Deriv pl ph lb hb s p i = Doc.hlMarginal (pl i) (ph i) (lb i) (hb i) (s i) + p i := by
  unfold idev2Deriv; rw [hlqDeriv_eq_doc]

/-! ## CDevice2 -/

theorem foldl_map_eq_sum {β : Type} (l : List β) (f : β → ℝ) :
    (l.map f).foldl (· + ·) 0 = (l.map f).sum := by
  rw [foldl_add_eq_sum]; ring

/-- FULL STATEMENT (false for the code as it is — see the counterexample below):

    theorem cdevice2_cost_doc (n) (pl ph) (cbs) (s p) (hr : ∀ c ∈ cbs, c.e ≤ n) :
        cdev2Cost n pl ph cbs s p = Doc.cdev2Cost pl ph cbs s p n

Proved: the same with the excluded region as a hypothesis — several cumulative bounds, or a single
one whose range is the whole horizon.  (cdevice2.py:16-19: with exactly one cumulative bound the
curve is applied to the sum of the WHOLE flow vector whatever the bound's range.) -/
theorem cdevice2_cost_doc_partial (n : ℕ) (pl ph : ℝ) (cbs : List (CBound ℝ)) (s p : ℕ → ℝ)
    (hx : ∀ c, cbs = [c] → c.s = 0 ∧ c.e = n) :
    cdev2Cost n pl ph cbs s p = Doc.cdev2Cost pl ph cbs s p n := by
  unfold cdev2Cost Doc.cdev2Cost
  rw [priceTerm_eq_doc]
  congr 1
  have hgen : ∀ l : List (CBound ℝ),
      (l.map (fun c => hlqCost pl ph c.l c.h (sumRange c.s c.e s))).foldl (· + ·) 0
        = (l.map (fun c => Doc.hlCost pl ph c.l c.h (∑ k ∈ Ico c.s c.e, s k))).sum := by
    intro l
    rw [foldl_map_eq_sum]
    congr 1
    refine List.map_congr_left (fun c _ => ?_)
    rw [hlqCost_eq_doc, sumRange_eq_sum]
  match cbs, hx with
  | [], _ => simpa [cdev2Fn] using hgen []
  | [c], hx =>
    obtain ⟨h0, hn⟩ := hx c rfl
    simp only [cdev2Fn, List.map_cons, List.map_nil, List.sum_cons, List.sum_nil, add_zero]
    rw [hlqCost_eq_doc, sumTo_eq_sum, h0, hn, Finset.range_eq_Ico]
  | c1 :: c2 :: cs, _ => simpa [cdev2Fn] using hgen (c1 :: c2 :: cs)

/-- non-vacuity: two contiguous ranges over a horizon of 4; and one whole-horizon bound. -/
example : ∀ c : CBound ℝ, ([⟨1, 3, 0, 2⟩, ⟨0, 2, 2, 4⟩] : List (CBound ℝ)) = [c] → c.s = 0 ∧ c.e = 4 := by
  intro c h; simp at h
example : ∀ c : CBound ℝ, ([⟨1, 3, 0, 4⟩] : List (CBound ℝ)) = [c] → c.s = 0 ∧ c.e = 4 := by
  intro c h
  simp only [List.cons.injEq, and_true] at h
  subst h; exact ⟨rfl, rfl⟩

/-- the witness: `CDevice2('c', 4, (0,2), [(1, 3, 1, 3)], p_l=-2, p_h=0)` at `s = [1, 1/2, 1/2, 1]`,
price `0`.  The cumulative consumption over the bound's range `[1,3)` is `1` = the cumulative low, so
the documented marginal cost there is `p_l = −2` and the documented cost is `cost(x_l) = 2`; the code
evaluates the curve at the sum of all four slots (`3` = cumulative high): cost `0`, marginal cost `0`. -/
def exSub : List (CBound ℝ) := [⟨1, 3, 1, 3⟩]
def exSubFlow : ℕ → ℝ := fun k => if k = 0 ∨ k = 3 then 1 else 1 / 2

theorem cdevice2_single_subrange_counterexample :
    cdev2Cost 4 (-2) 0 exSub exSubFlow (fun _ => 0) = 0 ∧
    Doc.cdev2Cost (-2) 0 exSub exSubFlow (fun _ => 0) 4 = 2 ∧
    cdev2Deriv 4 (-2) 0 exSub exSubFlow (fun _ => 0) 1 = 0 ∧
    sumRange 1 3 exSubFlow = 1 := by
  have hsum : sumTo 4 exSubFlow = 3 := by
    simp [sumTo, exSubFlow]; norm_num
  have hr : sumRange 1 3 exSubFlow = 1 := by
    simp [sumRange, sumTo, exSubFlow]; norm_num
  have hI : (∑ k ∈ Ico 1 3, exSubFlow k) = 1 := by
    rw [← sumRange_eq_sum]; exact hr
  refine ⟨?_, ?_, ?_, hr⟩
  · simp only [cdev2Cost, cdev2Fn, exSub, hsum, priceTerm]
    rw [hlqCost_eq_doc]
    simp [Doc.hlCost, Doc.hlConst, Doc.hlArea, Doc.hlMarginal, Doc.lerp, sumTo]
    norm_num
  · simp only [Doc.cdev2Cost, exSub, List.map_cons, List.map_nil, List.sum_cons, List.sum_nil, hI]
    simp [Doc.hlCost, Doc.hlConst, Doc.hlArea, Doc.hlMarginal, Doc.lerp, Doc.linear]
    norm_num
  · simp only [cdev2Deriv, cdev2Slope, exSub, hsum]
    simp [hlqDeriv]
    norm_num

/-- end-point marginal costs, single whole-horizon bound: `p_l` at the cumulative low … -/
theorem cdevice2_deriv_low (n : ℕ) (pl ph : ℝ) (c : CBound ℝ) (s p : ℕ → ℝ) (i : ℕ)
    (hw : c.l ≠ c.h) (hs : sumTo n s = c.l) : cdev2Deriv n pl ph [c] s p i = pl + p i := by
  simp only [cdev2Deriv, cdev2Slope, hs, hlqDeriv_at_low _ _ _ _ hw]

/-- … `p_h` at the cumulative high. -/
theorem cdevice2_deriv_high (n : ℕ) (pl ph : ℝ) (c : CBound ℝ) (s p : ℕ → ℝ) (i : ℕ)
    (hw : c.l ≠ c.h) (hs : sumTo n s = c.h) : cdev2Deriv n pl ph [c] s p i = ph + p i := by
  simp only [cdev2Deriv, cdev2Slope, hs, hlqDeriv_at_high _ _ _ _ hw]

example : ∃ (c : CBound ℝ) (s : ℕ → ℝ), c.l ≠ c.h ∧ sumTo 2 s = c.l :=
  ⟨⟨1, 3, 0, 2⟩, fun _ => 1 / 2, by norm_num, by simp [sumTo]; norm_num⟩

/-- several bounds: slot `i` lying in the range of exactly one bound `c` (at position `l1.length`),
its marginal cost is the curve of `c` at the cumulative consumption over `c`'s own range. -/
theorem cdevice2_deriv_ranges (n : ℕ) (pl ph : ℝ) (l1 l2 : List (CBound ℝ)) (c : CBound ℝ)
    (s p : ℕ → ℝ) (i : ℕ) (hlen : (l1 ++ c :: l2).length ≠ 1) (hi : c.s ≤ i ∧ i < c.e)
    (hothers : ∀ c' ∈ l1 ++ l2, ¬ (c'.s ≤ i ∧ i < c'.e)) :
    cdev2Deriv n pl ph (l1 ++ c :: l2) s p i
      = Doc.hlMarginal pl ph c.l c.h (∑ k ∈ Ico c.s c.e, s k) + p i := by
  have hz : ∀ l : List (CBound ℝ), (∀ c' ∈ l, ¬ (c'.s ≤ i ∧ i < c'.e)) →
      (l.map (fun c => if c.s ≤ i ∧ i < c.e then hlqDeriv pl ph c.l c.h (sumRange c.s c.e s) else 0)).sum = 0 := by
    intro l hl
    induction l with
    | nil => simp
    | cons a l ih =>
      simp only [List.map_cons, List.sum_cons]
      rw [if_neg (hl a (by simp)), ih (fun c' hc' => hl c' (by simp [hc'])), add_zero]
  have hslope : cdev2Slope n pl ph (l1 ++ c :: l2) s i
      = ((l1 ++ c :: l2).map (fun c => if c.s ≤ i ∧ i < c.e then hlqDeriv pl ph c.l c.h (sumRange c.s c.e s) else 0)).foldl (· + ·) 0 := by
    unfold cdev2Slope
    split
    · rename_i c0 heq
      exact absurd (by rw [heq]; rfl) hlen
    · rfl
  unfold cdev2Deriv
  rw [hslope, foldl_map_eq_sum, List.map_append, List.sum_append, List.map_cons, List.sum_cons,
    hz l1 (fun c' hc' => hothers c' (by simp [hc'])), hz l2 (fun c' hc' => hothers c' (by simp [hc'])),
    if_pos hi, hlqDeriv_eq_doc, sumRange_eq_sum]
  ring

example : ∃ (l1 l2 : List (CBound ℝ)) (c : CBound ℝ) (i : ℕ), (l1 ++ c :: l2).length ≠ 1 ∧ (c.s ≤ i ∧ i < c.e) ∧
    ∀ c' ∈ l1 ++ l2, ¬ (c'.s ≤ i ∧ i < c'.e) :=
  ⟨[⟨1, 3, 0, 2⟩], [], ⟨0, 2, 2, 4⟩, 3, by simp, by simp, by simp⟩

/-! ## IDevice (ABC curve) -/

theorem abcQ_eq_doc (x xl xh a : ℝ) (h : xl ≠ xh) : abcQ x xl xh a = Doc.q a xl xh x := by
  have hd : xh - xl ≠ 0 := sub_ne_zero.mpr (Ne.symm h)
  unfold abcQ abcS Doc.q Doc.lerp
  field_simp
  ring

/-- `q = 1` at the lower bound … -/
theorem abcQ_at_low (xl xh a : ℝ) (h : xl ≠ xh) : abcQ xl xl xh a = 1 := by
  have hd : xh - xl ≠ 0 := sub_ne_zero.mpr (Ne.symm h)
  unfold abcQ abcS
  rw [div_self hd]; ring

/-- … `q = a` at the upper bound … -/
theorem abcQ_at_high (xl xh a : ℝ) : abcQ xh xl xh a = a := by
  unfold abcQ abcS
  simp

/-- … falling linearly between. -/
theorem abcQ_affine (xl xh a : ℝ) : ∃ m c : ℝ, ∀ x, abcQ x xl xh a = m * x + c := by
  refine ⟨(a - 1) / (xh - xl), a + (1 - a) * xh / (xh - xl), fun x => ?_⟩
  unfold abcQ abcS
  ring

/-- cost `c · q^b`, for any power operation. -/
theorem abcCost_eq_doc {ε : Type} [Sub ε] [OfNat ε 1] [OfNat ε 2] (pow : ℝ → ε → ℝ)
    (x a : ℝ) (b : ε) (c xl xh : ℝ) : DK.abcCost pow x a b c xl xh = Doc.abcCost pow x a b c xl xh := by
  unfold DK.abcCost Doc.abcCost
  by_cases h : xl = xh
  · simp [h]
  · simp only [h, if_false]; rw [abcQ_eq_doc x xl xh a h]

theorem idevice_cost_doc {ε : Type} [Sub ε] [OfNat ε 1] [OfNat ε 2] (pow : ℝ → ε → ℝ) (n : ℕ)
    (a : ℕ → ℝ) (b : ℕ → ε) (c lb hb s p : ℕ → ℝ) :
    DK.idevCost pow n a b c lb hb s p = Doc.idevCost pow n a b c lb hb s p := by
  unfold DK.idevCost Doc.idevCost
  rw [priceTerm_eq_doc, sumTo_eq_sum]
  simp only [abcCost_eq_doc]

/-- real exponents. -/
example (n : ℕ) (a b c lb hb s p : ℕ → ℝ) :
    DK.idevCost Real.rpow n a b c lb hb s p = Doc.idevCost Real.rpow n a b c lb hb s p :=
  idevice_cost_doc Real.rpow n a b c lb hb s p

/-- at the bounds the slot cost is `c` (lower) and `c · a^b` (upper). -/
theorem abcCost_at_low {ε : Type} [Sub ε] [OfNat ε 1] [OfNat ε 2] (pow : ℝ → ε → ℝ)
    (a : ℝ) (b : ε) (c xl xh : ℝ) (h : xl ≠ xh) : DK.abcCost pow xl a b c xl xh = c * pow 1 b := by
  unfold DK.abcCost; simp only [h, if_false]; rw [abcQ_at_low xl xh a h]
theorem abcCost_at_high {ε : Type} [Sub ε] [OfNat ε 1] [OfNat ε 2] (pow : ℝ → ε → ℝ)
    (a : ℝ) (b : ε) (c xl xh : ℝ) (h : xl ≠ xh) : DK.abcCost pow xh a b c xl xh = c * pow a b := by
  unfold DK.abcCost; simp only [h, if_false]; rw [abcQ_at_high]

/-! ## storage -/

/-- the code's `minimum(u, 0)**2` is the squared shortfall `max(0, −u)²`. -/
theorem minZero_sq (u : ℝ) : minZero u * minZero u = (max 0 (-u)) ^ 2 := by
  unfold minZero
  by_cases h : u < 0
  · rw [if_pos h, max_eq_right (by linarith)]; ring
  · rw [if_neg h, max_eq_left (by linarith)]; ring

theorem shortfall_sq_eq_doc (q : SParams ℝ) (r : ℕ → ℝ) (i : ℕ) :
    shortfall q r i * shortfall q r i = Doc.shortfall q.damageDepth q.capacity (chargeAt q r i) ^ 2 := by
  unfold shortfall Doc.shortfall
  rw [minZero_sq]
  congr 2; ring

/-- `c1·r² − c2·r_i·r_{i+1}` (last slot none) `+ c3·shortfall²`. -/
theorem chargeCost_eq_doc (n : ℕ) (q : SParams ℝ) (r : ℕ → ℝ) (i : ℕ) :
    chargeCost n q r i = Doc.storageSlot n q (chargeAt q r) r i := by
  unfold chargeCost Doc.storageSlot
  rw [shortfall_sq_eq_doc]
  split_ifs <;> ring

theorem sdevice_cost_doc (n : ℕ) (q : SParams ℝ) (s p : ℕ → ℝ) :
    sdevCost n q s p = Doc.sdevCost n q (chargeAt q s) s p := by
  unfold sdevCost Doc.sdevCost Doc.linear
  rw [sumTo_eq_sum, Finset.sum_add_distrib]
  simp only [chargeCost_eq_doc]

/-- no shortfall (state of charge at or above the damage depth) ⇒ no deep-discharge cost. -/
theorem no_shortfall (q : SParams ℝ) (r : ℕ → ℝ) (i : ℕ)
    (h : q.damageDepth * q.capacity ≤ chargeAt q r i) : shortfall q r i = 0 := by
  unfold shortfall minZero
  rw [if_neg]; linarith

example : ∃ (q : SParams ℝ) (r : ℕ → ℝ), q.damageDepth * q.capacity ≤ chargeAt q r 0 :=
  ⟨⟨1, 0, 1, 4, 0, 1/2, 0, 1, 1⟩, fun _ => 0, by simp [chargeAt, baseSoc, soc, sumTo, effPow, susW, npow]⟩

/-! ## thermal -/

theorem tSlotCost_eq_doc (q : TParams ℝ) (t : ℝ) (i : ℕ) :
    tSlotCost q t i = Doc.thermalSlot (q.c i) q.tOptimal q.tRange t := by
  unfold tSlotCost Doc.thermalSlot DK.abcCost
  by_cases h : q.tRange = 0
  · simp [h]
  · have hne : ¬ (q.tOptimal - q.tRange = q.tOptimal) := by
      intro h'; apply h; linarith
    simp only [hne, h, if_false]
    have hq : abcQ t (q.tOptimal - q.tRange) q.tOptimal 0 = (q.tOptimal - t) / q.tRange := by
      unfold abcQ abcS
      have : q.tOptimal - (q.tOptimal - q.tRange) = q.tRange := by ring
      rw [this]; ring
    rw [hq]
    have h2 := ipow_natCast ((q.tOptimal - t) / q.tRange) 2
    have e : ((2 : ℕ) : ℤ) = (2 : ℤ) := rfl
    rw [e] at h2
    rw [h2]

/-- one temperature cost per slot plus the price term — not `n` times that (defect D14b). -/
theorem tdevice_cost_doc (n : ℕ) (q : TParams ℝ) (s p : ℕ → ℝ) :
    tdevCost n q s p = Doc.tdevCost n q (r2t q s) s p := by
  unfold tdevCost Doc.tdevCost
  rw [priceTerm_eq_doc, sumTo_eq_sum]
  simp only [tSlotCost_eq_doc]

/-- "the diff between `t_optimal` and `t_min` or `t_max` (symmetrically) is `c` units of cost". -/
theorem thermal_end_points (c tOpt tRange : ℝ) (h : tRange ≠ 0) :
    Doc.thermalSlot c tOpt tRange tOpt = 0 ∧
    Doc.thermalSlot c tOpt tRange (tOpt - tRange) = c ∧
    Doc.thermalSlot c tOpt tRange (tOpt + tRange) = c := by
  unfold Doc.thermalSlot
  simp only [h, if_false]
  refine ⟨by simp, ?_, ?_⟩
  · have : (tOpt - (tOpt - tRange)) / tRange = 1 := by
      rw [show tOpt - (tOpt - tRange) = tRange by ring, div_self h]
    rw [this]; ring
  · have : (tOpt - (tOpt + tRange)) / tRange = -1 := by
      rw [show tOpt - (tOpt + tRange) = -tRange by ring, neg_div, div_self h]
    rw [this]; ring

example : Doc.thermalSlot 3 20 2 (20 - 2) = 3 := (thermal_end_points 3 20 2 (by norm_num)).2.1

/-! ## zero-width slots contribute nothing, to every curve and every order -/

theorem zero_width_hlq (pl ph x y : ℝ) :
    hlqCost pl ph x x y = 0 ∧ hlqDeriv pl ph x x y = 0 ∧ hlqHess pl ph x x = 0 := by
  simp [hlqCost, hlqDeriv, hlqHess]

theorem zero_width_abc {ε : Type} [Sub ε] [OfNat ε 1] [OfNat ε 2] (pow : ℝ → ε → ℝ) (cast : ε → ℝ)
    (y a : ℝ) (b : ε) (c x : ℝ) :
    DK.abcCost pow y a b c x x = 0 ∧ abcDeriv pow cast y a b c x x = 0 ∧ abcHess pow cast y a b c x x = 0 := by
  simp [DK.abcCost, abcDeriv, abcHess]

/-- an `IDevice2` / `IDevice` all of whose slots are zero-width costs only `s·p`. -/
theorem idevice2_all_zero_width (n : ℕ) (pl ph lb s p : ℕ → ℝ) :
    idev2Cost n pl ph lb lb s p = Doc.linear n s p := by
  unfold idev2Cost
  rw [priceTerm_eq_doc, sumTo_congr (g := fun _ => (0:ℝ)) (fun k _ => (zero_width_hlq _ _ _ _).1)]
  simp

theorem idevice_all_zero_width {ε : Type} [Sub ε] [OfNat ε 1] [OfNat ε 2] (pow : ℝ → ε → ℝ) (n : ℕ)
    (a : ℕ → ℝ) (b : ℕ → ε) (c lb s p : ℕ → ℝ) :
    DK.idevCost pow n a b c lb lb s p = Doc.linear n s p := by
  unfold DK.idevCost
  rw [priceTerm_eq_doc, sumTo_congr (g := fun _ => (0:ℝ)) (fun k _ => by simp [DK.abcCost])]
  simp

/-- slot-wise: the marginal cost and the Hessian diagonal of a zero-width slot are `p i` and `0`. -/
theorem idevice2_zero_width_slot (pl ph lb hb s p : ℕ → ℝ) (i : ℕ) (h : lb i = hb i) :
    idev2Deriv pl ph lb hb s p i = p i ∧ idev2Hess pl ph lb hb i i = 0 := by
  simp [idev2Deriv, idev2Hess, hlqDeriv, hlqHess, h]

end
end DK.C15

#print axioms DK.C15.device_cost_doc
#print axioms DK.C15.cdevice_cost_doc
#print axioms DK.C15.polyEval_eq_doc
#print axioms DK.C15.gdevice_cost_doc
#print axioms DK.C15.hlqDeriv_at_low
#print axioms DK.C15.hlqDeriv_at_high
#print axioms DK.C15.hlqDeriv_affine
#print axioms DK.C15.gen_hlq_deriv_end_points
#print axioms DK.C15.hl_marginal_unique
#print axioms DK.C15.hlqCost_antideriv
#print axioms DK.C15.hlqCost_diff
#print axioms DK.C15.hlqCost_const
#print axioms DK.C15.hlqCost_at_vertex
#print axioms DK.C15.idevice2_cost_doc
#print axioms DK.C15.idevice2_deriv_low
#print axioms DK.C15.idevice2_deriv_high
#print axioms DK.C15.cdevice2_cost_doc_partial
#print axioms DK.C15.cdevice2_single_subrange_counterexample
#print axioms DK.C15.cdevice2_deriv_low
#print axioms DK.C15.cdevice2_deriv_high
#print axioms DK.C15.cdevice2_deriv_ranges
#print axioms DK.C15.abcQ_at_low
#print axioms DK.C15.abcQ_at_high
#print axioms DK.C15.abcQ_affine
#print axioms DK.C15.idevice_cost_doc
#print axioms DK.C15.minZero_sq
#print axioms DK.C15.chargeCost_eq_doc
#print axioms DK.C15.sdevice_cost_doc
#print axioms DK.C15.tdevice_cost_doc
#print axioms DK.C15.thermal_end_points
#print axioms DK.C15.zero_width_hlq
#print axioms DK.C15.zero_width_abc
