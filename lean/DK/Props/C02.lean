import DK.Props.Defs
import DK.Lemmas.TreeLemmas
import Mathlib.Analysis.Calculus.Deriv.Add
import Mathlib.Analysis.Calculus.Deriv.Mul
/-!
# C02 / C13 — a device tree composes its blocks row-wise; labels pair each row with its owner

`Block` is abstract (arbitrary functions), so everything here holds for every leaf behaviour,
every depth, every fan-out and children with different row counts, by mutual induction on
`Tree` / `List Tree`.  `t.blocks pre off` enumerates (id-prefix, absolute row offset, block).
The generalised versions (arbitrary `pre`, `off`, shifted matrices) used for the induction are in
`DK/Lemmas/TreeLemmas.lean`; the theorems below are their `pre = ""`/`off = 0` instances.

Note on statements: in the skeleton, bound variables ranging over `t.blocks …` had the inferred
type `String × ℕ × Block ℝ`, on which the field notation `x.off` / `x.b` does not resolve
(`BlockAt` is an `abbrev`, but dot-notation looks at the syntactic head `Prod`).  Those binders now
carry the ascription `: BlockAt` (`∃ x ∈ l, p` is written `∃ x : BlockAt, x ∈ l ∧ p`, which is what
it unfolds to).  Nothing else in the statements changed.
-/
namespace DK.C02
open DK

abbrev BlockAt := String × ℕ × Block ℝ
def BlockAt.pre (x : BlockAt) : String := x.1
def BlockAt.off (x : BlockAt) : ℕ := x.2.1
def BlockAt.b (x : BlockAt) : Block ℝ := x.2.2

/-! ### a concrete tree for the non-vacuity examples: two nesting levels, children with 2, 0, 3 and 1 rows -/

/-- a block with `k` rows labelled `l0 … l(k-1)`, cost `c · S 0 0`, one equality constraint. -/
def exBlock (k : ℕ) (c : ℝ) : Block ℝ :=
  { rows := k, labels := (List.range k).map (fun j => "l" ++ toString j),
    cost := fun S _ => c * S 0 0, deriv := fun _ _ r i => if r = 0 ∧ i = 0 then c else 0,
    bounds := fun r _ => (-(r : ℝ), c),
    cons := [{ isEq := true, fn := fun S => S 0 0 - c, jac := none }] }

def exSpec : NodeSpec ℝ :=
  { sbounds := some (fun _ => (0, 1)), labels := ["l0"], balEq := true, sign := 1, applyToRemaining := true }

def exTree : Tree ℝ :=
  .node "a" exSpec [.block (exBlock 2 1), .node "b" exSpec [.block (exBlock 0 5), .block (exBlock 3 2)],
    .block (exBlock 1 3)]

theorem exTree_blocks (pre : String) : exTree.blocks pre 0 =
    [(pre ++ "a" ++ ".", 0, exBlock 2 1), (pre ++ "a" ++ "." ++ "b" ++ ".", 2, exBlock 0 5),
     (pre ++ "a" ++ "." ++ "b" ++ ".", 2, exBlock 3 2), (pre ++ "a" ++ ".", 5, exBlock 1 3)] := by
  simp [exTree, Tree.blocks, blocksL, Tree.rows, rowsL, exBlock]

/-- the blocks tile the rows `[0, t.rows)` in order: each offset is the sum of the rows before it. -/
theorem blocks_offsets (t : Tree ℝ) (pre : String) (l1 l2 : List BlockAt) (x : BlockAt)
    (h : t.blocks pre 0 = l1 ++ x :: l2) : x.off = (l1.map (fun y => y.b.rows)).sum := by
  have ht := (Tree.blocks_tiled pre 0 t).1
  rw [h] at ht
  have := tiled_split 0 l1 l2 x ht
  simpa [rowsSum, BlockAt.off, BlockAt.b] using this

example : ∃ (l1 l2 : List BlockAt) (x : BlockAt), exTree.blocks "" 0 = l1 ++ x :: l2 ∧ l1.length = 2 ∧ x.off = 2 :=
  ⟨[("" ++ "a" ++ ".", 0, exBlock 2 1), ("" ++ "a" ++ "." ++ "b" ++ ".", 2, exBlock 0 5)],
   [("" ++ "a" ++ ".", 5, exBlock 1 3)], ("" ++ "a" ++ "." ++ "b" ++ ".", 2, exBlock 3 2),
   by rw [exTree_blocks]; rfl, rfl, rfl⟩

theorem blocks_rows_sum (t : Tree ℝ) (pre : String) :
    ((t.blocks pre 0).map (fun y : BlockAt => y.b.rows)).sum = t.rows :=
  (Tree.blocks_tiled pre 0 t).2

/-- tree cost = Σ over blocks of the block cost on *its own* rows of `S` and `P`. -/
theorem cost_eq_sum_blocks (t : Tree ℝ) (pre : String) (S P : Mat ℝ) :
    t.cost S P = ((t.blocks pre 0).map (fun x : BlockAt => x.b.cost (shiftRows x.off S) (shiftRows x.off P))).sum := by
  have := Tree.cost_eq_blocks pre 0 S P t
  rw [shiftRows_zero, shiftRows_zero] at this
  exact this

/-- row `off + r` of the tree's marginal cost is row `r` of the owning block's marginal cost. -/
theorem deriv_block (t : Tree ℝ) (pre : String) (S P : Mat ℝ) (x : BlockAt) (hx : x ∈ t.blocks pre 0)
    (r i : ℕ) (hr : r < x.b.rows) :
    t.deriv S P (x.off + r) i = x.b.deriv (shiftRows x.off S) (shiftRows x.off P) r i := by
  have := Tree.deriv_block_gen pre 0 S P x r i hr t hx (x.off + r) (by simp [BlockAt.off])
  rw [shiftRows_zero, shiftRows_zero] at this
  exact this

/-- non-vacuity for `deriv_block` / `bounds_block` / `label_get` / `mapRows_get`: a nested block at
offset 2 with 3 rows. -/
theorem exTree_mem : (("" ++ "a" ++ "." ++ "b" ++ ".", 2, exBlock 3 2) : BlockAt) ∈ exTree.blocks "" 0 := by
  rw [exTree_blocks]; simp

example : ∃ x : BlockAt, x ∈ exTree.blocks "" 0 ∧ ∃ r, r < x.b.rows ∧ 0 < x.off ∧ 0 < r :=
  ⟨_, exTree_mem, 1, by simp [BlockAt.b, exBlock], by simp [BlockAt.off], by omega⟩

/-- flat bounds list = block bounds in row-major order. -/
theorem bounds_block (t : Tree ℝ) (pre : String) (x : BlockAt) (hx : x ∈ t.blocks pre 0)
    (r i : ℕ) (hr : r < x.b.rows) : t.bounds (x.off + r) i = x.b.bounds r i :=
  Tree.bounds_block_gen pre 0 x r i hr t hx (x.off + r) (by simp [BlockAt.off])

/-- every row belongs to exactly one block. -/
theorem row_owner (t : Tree ℝ) (pre : String) (r : ℕ) (hr : r < t.rows) :
    ∃ x : BlockAt, x ∈ t.blocks pre 0 ∧ x.off ≤ r ∧ r < x.off + x.b.rows := by
  obtain ⟨x, hx, h1, h2⟩ := Tree.row_owner_gen pre 0 r t hr
  exact ⟨x, hx, by simpa [BlockAt.off] using h1, by simpa [BlockAt.off, BlockAt.b] using h2⟩

example : (4 : ℕ) < exTree.rows := by simp [exTree, Tree.rows, rowsL, exBlock]

/-- (addition) … and to at most one: the owner found by `row_owner` is unique. -/
theorem row_owner_unique (t : Tree ℝ) (pre : String) (r : ℕ) (x y : BlockAt)
    (hx : x ∈ t.blocks pre 0) (hy : y ∈ t.blocks pre 0)
    (hxr : x.off ≤ r ∧ r < x.off + x.b.rows) (hyr : y.off ≤ r ∧ r < y.off + y.b.rows) : x = y :=
  tiled_owner_unique 0 _ (Tree.blocks_tiled pre 0 t).1 x y hx hy r hxr hyr

/-- the whole constraint list of a tree is satisfied iff every block's constraints hold on its own
rows and every internal node's own constraints hold on its own row range (no constraint dropped,
none applied to other rows). -/
theorem cons_sat_iff (t : Tree ℝ) (n : ℕ) (S : Mat ℝ) :
    (∀ c ∈ t.cons n, c.Sat S) ↔
      (∀ x : BlockAt, x ∈ t.blocks "" 0 → ∀ c ∈ x.b.cons, c.Sat (shiftRows x.off S)) ∧
      (∀ nd ∈ t.nodes 0, ∀ c ∈ ownCons n nd.rows nd.own nd.labels, c.Sat (shiftRows nd.off S)) := by
  have := Tree.cons_sat_gen n "" 0 S t
  rw [shiftRows_zero] at this
  exact this

/-- re-wrapped Jacobians (zmm zero padding): zero outside the child's rows … -/
theorem lift_jac_support (off rows : ℕ) (c : MCon ℝ) (j : Mat ℝ → ℕ → ℕ → ℝ) (hj : c.jac = some j)
    (S : Mat ℝ) (r i : ℕ) (hr : r < off ∨ off + rows ≤ r) :
    ∃ j', (c.lift off rows).jac = some j' ∧ j' S r i = 0 := by
  refine ⟨fun S r i => if off ≤ r ∧ r < off + rows then j (shiftRows off S) (r - off) i else 0,
    by simp only [MCon.lift, hj, Option.map_some], ?_⟩
  have : ¬ (off ≤ r ∧ r < off + rows) := by omega
  simp only [if_neg this]

example : ∃ (c : MCon ℝ) (j : Mat ℝ → ℕ → ℕ → ℝ), c.jac = some j ∧ j (fun _ _ => 0) 0 0 ≠ 0 :=
  ⟨{ isEq := true, fn := fun S => S 0 0, jac := some (fun _ r i => if r = 0 ∧ i = 0 then 1 else 0) }, _, rfl,
   by simp⟩

/-- … and still the gradient of the re-wrapped function, if the child's Jacobian was one
(`R` = rows of the parent, the child occupying `[off, off+rows) ⊆ [0, R)`). -/
theorem lift_isMGrad (R n off rows : ℕ) (hR : off + rows ≤ R) (c : MCon ℝ) (j : Mat ℝ → ℕ → ℕ → ℝ)
    (hj : c.jac = some j) (S : Mat ℝ) (hg : IsMGradAt rows n c.fn (j (shiftRows off S)) (shiftRows off S)) :
    ∃ j', (c.lift off rows).jac = some j' ∧ IsMGradAt R n (c.lift off rows).fn (j' S) S := by
  refine ⟨fun S r i => if off ≤ r ∧ r < off + rows then j (shiftRows off S) (r - off) i else 0,
    by simp only [MCon.lift, hj, Option.map_some], ?_⟩
  intro D
  have h := hg (shiftRows off D)
  have h' : HasDerivAt (fun τ => (c.lift off rows).fn (fun r i => S r i + τ * D r i))
      (sumTo rows (fun r => sumTo n (fun i => j (shiftRows off S) r i * shiftRows off D r i))) 0 := h
  refine HasDerivAt.congr_deriv h' ?_
  exact (lift_deriv_sum R n off rows hR (j (shiftRows off S)) D).symm

/-- non-vacuity: the child constraint `S ↦ S 0 0 + 2·S 1 0` with its true Jacobian, re-wrapped at
rows `[1, 3)` of a 4-row parent. -/
example : ∃ (c : MCon ℝ) (j : Mat ℝ → ℕ → ℕ → ℝ), c.jac = some j ∧ (1 : ℕ) + 2 ≤ 4 ∧
    ∀ S : Mat ℝ, IsMGradAt 2 1 c.fn (j (shiftRows 1 S)) (shiftRows 1 S) := by
  refine ⟨{ isEq := true, fn := fun S => S 0 0 + 2 * S 1 0,
            jac := some (fun _ r i => if i = 0 then (if r = 0 then 1 else if r = 1 then 2 else 0) else 0) },
          _, rfl, by omega, ?_⟩
  intro S D
  have h1 : HasDerivAt (fun τ : ℝ => shiftRows 1 S 0 0 + τ * D 0 0) (D 0 0) 0 := by
    simpa using ((hasDerivAt_id (0:ℝ)).mul_const (D 0 0)).const_add (shiftRows 1 S 0 0)
  have h2 : HasDerivAt (fun τ : ℝ => shiftRows 1 S 1 0 + τ * D 1 0) (D 1 0) 0 := by
    simpa using ((hasDerivAt_id (0:ℝ)).mul_const (D 1 0)).const_add (shiftRows 1 S 1 0)
  refine HasDerivAt.congr_deriv (h1.add (h2.const_mul 2)) ?_
  simp [sumTo]

/-- flat and matrix-shaped flows are interchangeable (row-major index arithmetic). -/
theorem unflat_flat (n : ℕ) (hn : 0 < n) (S : Mat ℝ) (r i : ℕ) (hi : i < n) : unflat n (flat n S) r i = S r i :=
  unflat_flat_gen n S r i hi
theorem flat_unflat (n : ℕ) (hn : 0 < n) (x : ℕ → ℝ) (k : ℕ) : flat n (unflat n x) k = x k :=
  flat_unflat_gen n x k

/-! ## C13 labels -/

/-- well-formed blocks carry one label per row. -/
def WF (t : Tree ℝ) : Prop := ∀ x : BlockAt, x ∈ t.blocks "" 0 → x.b.labels.length = x.b.rows

theorem exTree_WF : WF exTree := by
  intro x hx
  rw [exTree_blocks] at hx
  simp only [List.mem_cons, List.not_mem_nil, or_false] at hx
  rcases hx with rfl | rfl | rfl | rfl <;> simp [exBlock, BlockAt.b]

theorem labels_length (t : Tree ℝ) (h : WF t) : (t.labels "").length = t.rows :=
  Tree.labels_length_gen "" 0 t h

/-- the label of row `off + r` is the dot-joined ancestor ids followed by the block's own label. -/
theorem label_get (t : Tree ℝ) (h : WF t) (x : BlockAt) (hx : x ∈ t.blocks "" 0) (r : ℕ) (hr : r < x.b.rows) :
    (t.labels "")[x.off + r]? = some (x.pre ++ x.b.labels.getD r "") :=
  Tree.label_get_gen "" 0 x r hr t h hx (x.off + r) (by simp [BlockAt.off])

example : WF exTree ∧ ∃ x : BlockAt, x ∈ exTree.blocks "" 0 ∧ ∃ r, r < x.b.rows ∧ 0 < x.off ∧ 0 < r :=
  ⟨exTree_WF, _, exTree_mem, 1, by simp [BlockAt.b, exBlock], by simp [BlockAt.off], by omega⟩

/-- the theorem instantiated on the example tree: row 3 is row 1 of the nested 3-row block. -/
example : (exTree.labels "")[2 + 1]? = some ("" ++ "a" ++ "." ++ "b" ++ "." ++ (exBlock 3 2).labels.getD 1 "") :=
  label_get exTree exTree_WF _ exTree_mem 1 (by simp [BlockAt.b, exBlock])

/-- `map` pairs that label with exactly the row the owning block's cost / bounds / constraints read. -/
theorem mapRows_get (t : Tree ℝ) (h : WF t) (S : Mat ℝ) (x : BlockAt) (hx : x ∈ t.blocks "" 0) (r : ℕ) (hr : r < x.b.rows) :
    (t.mapRows S)[x.off + r]? = some (x.pre ++ x.b.labels.getD r "", shiftRows x.off S r) := by
  have hl := label_get t h x hx r hr
  unfold Tree.mapRows
  rw [List.getElem?_map, List.getElem?_zipIdx, hl]
  simp [shiftRows]

/-- shipped blocks: an atomic device is labelled by its id, an adaptor by `id.flow` per conduit. -/
theorem ofLeaf_labels (id : String) (d : Leaf ℝ) (cs : List (Con ℝ)) :
    (Block.ofLeaf id d cs).labels = [id] ∧ (Block.ofLeaf id d cs).rows = 1 := ⟨rfl, rfl⟩
theorem ofMF_labels (id : String) (d : Leaf ℝ) (cs : List (Con ℝ)) (flows : List String) (ra : Option (Bool × ℝ × ℝ)) :
    (Block.ofMF id d cs flows ra).labels = flows.map (fun f => id ++ "." ++ f) ∧
    (Block.ofMF id d cs flows ra).rows = flows.length := ⟨rfl, rfl⟩

end DK.C02

#print axioms DK.C02.blocks_offsets
#print axioms DK.C02.blocks_rows_sum
#print axioms DK.C02.cost_eq_sum_blocks
#print axioms DK.C02.deriv_block
#print axioms DK.C02.bounds_block
#print axioms DK.C02.row_owner
#print axioms DK.C02.row_owner_unique
#print axioms DK.C02.cons_sat_iff
#print axioms DK.C02.lift_jac_support
#print axioms DK.C02.lift_isMGrad
#print axioms DK.C02.unflat_flat
#print axioms DK.C02.flat_unflat
#print axioms DK.C02.labels_length
#print axioms DK.C02.label_get
#print axioms DK.C02.mapRows_get
#print axioms DK.C02.ofLeaf_labels
#print axioms DK.C02.ofMF_labels
