import DK.Props.C14
import DK.Lemmas.Hess2
/-!
# C14 (storage / thermal) — what the numerically differentiated Hessians approximate

`SDevice.hess` and `TDevice.hess` are numdifftools output, so `Leaf.hess` answers "numeric" for them and
`DK.Props.C14` says nothing about these two classes.  Here: the closed forms `sdevHess` / `tdevHess`
(`DK/Model/Hess2.lean`) ARE the Jacobians of the modelled marginal costs `sdevDeriv` / `tdevDeriv`
(which `DK.Props.C01` proves to be the gradients of `sdevCost` / `tdevCost`), they are symmetric, and they
are positive semidefinite in the documented-convex parameter region.  The correspondence check of C14 then
compares the implementation's numeric Hessian with these closed forms (`hess2.leaf`).
-/
namespace DK.C14b
open DK DK.C14

/-- twice-differentiability region of the storage cost at `s`: not on the charge/discharge kink of a lossy
store, and no slot charged *exactly* to the damage depth (the deep-discharge penalty `c3·min(u,0)²` is C¹
but not C² at `u = 0`). -/
def NoKink2 (n : ℕ) (q : SParams ℝ) (s : ℕ → ℝ) : Prop :=
  (q.efficiency = 1 ∨ ∀ k < n, s k ≠ 0) ∧ ∀ k < n, chargeAt q s k - q.capacity * q.damageDepth ≠ 0

/-! ## Storage -/

/-- `sdevHess` is the Jacobian of the storage marginal cost (hence the Hessian of `sdevCost`, by
`DK.C01.sdevice_deriv`), away from the kinks. -/
theorem sdevice_hess (n : ℕ) (q : SParams ℝ) (s p : ℕ → ℝ) (hk : NoKink2 n q s) :
    IsHessAt n (fun x => sdevDeriv n q x p) (sdevHess n q s) s := by
  intro i hi d
  obtain ⟨hE, hU⟩ := hk
  have hA : HasDerivAt (fun τ => q.c1 * 2 * line s d τ i) (q.c1 * 2 * d i) 0 :=
    (line_hasDerivAt s d i 0).const_mul (q.c1 * 2)
  have hB : HasDerivAt
      (fun τ => q.c2 * (-1 : ℝ) * ((if i + 1 < n then line s d τ (i + 1) else 0)
        + (if 0 < i then line s d τ (i - 1) else 0)))
      (q.c2 * (-1) * ((if i + 1 < n then d (i + 1) else 0) + (if 0 < i then d (i - 1) else 0))) 0 := by
    have h1 : HasDerivAt (fun τ => if i + 1 < n then line s d τ (i + 1) else 0)
        (if i + 1 < n then d (i + 1) else 0) 0 := by
      by_cases h : i + 1 < n
      · simp only [h, if_true]; exact line_hasDerivAt s d (i + 1) 0
      · simp only [h, if_false]; exact hasDerivAt_const _ _
    have h2 : HasDerivAt (fun τ => if 0 < i then line s d τ (i - 1) else 0)
        (if 0 < i then d (i - 1) else 0) 0 := by
      by_cases h : 0 < i
      · simp only [h, if_true]; exact line_hasDerivAt s d (i - 1) 0
      · simp only [h, if_false]; exact hasDerivAt_const _ _
    exact (h1.add h2).const_mul _
  have hC : HasDerivAt
      (fun τ => sumTo n (fun k => q.c3 * 2 * shortfall q (line s d τ) k * susW q.sustainment k i
        * effPow q.efficiency (line s d τ i)))
      (sumTo n (fun k => q.c3 * 2 * (shortfallActive q s k
          * sumTo (k + 1) (fun j => d j * effPow q.efficiency (s j) * susW q.sustainment k j))
        * susW q.sustainment k i * effPow q.efficiency (s i))) 0 := by
    refine sumTo_hasDerivAt n (fun k τ => q.c3 * 2 * shortfall q (line s d τ) k * susW q.sustainment k i
        * effPow q.efficiency (line s d τ i)) _ 0 ?_
    intro k hk
    have hs := shortfall_line_hasDerivAt q s d k
      (hE.imp id (fun h j hj => h j (lt_of_le_of_lt hj hk))) (hU k hk)
    have h0 := ((hs.const_mul (q.c3 * 2)).mul_const (susW q.sustainment k i)).mul_const
      (effPow q.efficiency (s i))
    refine h0.congr_of_eventuallyEq ?_
    filter_upwards [effPow_line_eventuallyEq q.efficiency (s i) (d i) (hE.imp id (fun h => h i hi))]
      with τ hτ
    have hτ' : effPow q.efficiency (line s d τ i) = effPow q.efficiency (s i) := hτ
    simp only [hτ']
  have hsum := ((hA.add hB).add hC).add_const (p i)
  unfold sdevDeriv
  refine hsum.congr_deriv ?_
  -- the row of `sdevHess` paired with the direction
  have e : ∀ j < n, sdevHess n q s i j * d j
      = (if i = j then q.c1 * 2 else 0) * d j
        + ((if i + 1 = j then q.c2 * (-1 : ℝ) else 0) * d j + (if j + 1 = i then q.c2 * (-1 : ℝ) else 0) * d j)
        + sumTo n (fun k => q.c3 * 2 * shortfallActive q s k
            * (susW q.sustainment k i * effPow q.efficiency (s i))
            * (susW q.sustainment k j * effPow q.efficiency (s j))) * d j := by
    intro j _
    unfold sdevHess chargeSens
    ring
  have eG : sumTo n (fun j => sumTo n (fun k => q.c3 * 2 * shortfallActive q s k
            * (susW q.sustainment k i * effPow q.efficiency (s i))
            * (susW q.sustainment k j * effPow q.efficiency (s j))) * d j)
      = sumTo n (fun k => q.c3 * 2 * (shortfallActive q s k
          * sumTo (k + 1) (fun j => d j * effPow q.efficiency (s j) * susW q.sustainment k j))
        * susW q.sustainment k i * effPow q.efficiency (s i)) :=
    (sumTo_gram_row q.sustainment n
      (fun k => q.c3 * 2 * shortfallActive q s k * (susW q.sustainment k i * effPow q.efficiency (s i)))
      (fun j => effPow q.efficiency (s j)) d).trans (sumTo_congr (fun k _ => by ring))
  rw [sumTo_congr e,
    sumTo_add n _ (fun j => sumTo n (fun k => q.c3 * 2 * shortfallActive q s k
            * (susW q.sustainment k i * effPow q.efficiency (s i))
            * (susW q.sustainment k j * effPow q.efficiency (s j))) * d j),
    sumTo_add n (fun j => (if i = j then q.c1 * 2 else 0) * d j),
    sumTo_add n (fun j => (if i + 1 = j then q.c2 * (-1 : ℝ) else 0) * d j),
    sumTo_diag_mul n i hi, sumTo_succ_ite, sumTo_pred_ite n i hi, eG]
  split_ifs <;> ring

/-- non-vacuity: a lossy store discharging below its damage depth in every slot. -/
example : ∃ (q : SParams ℝ) (s : ℕ → ℝ), NoKink2 2 q s ∧ q.efficiency ≠ 1 ∧ q.c3 ≠ 0
    ∧ shortfallActive q s 1 = 1 := by
  refine ⟨⟨1, 1/2, 1, 4, 1/2, 1/2, 0, 1/2, 1⟩, fun _ => -1, ⟨Or.inr (fun _ _ => by norm_num), ?_⟩,
    by norm_num, by norm_num, ?_⟩
  · intro k hk
    have hk' : k = 0 ∨ k = 1 := by omega
    rcases hk' with rfl | rfl <;>
      norm_num [chargeAt, baseSoc, soc, sumTo, susW, npow, effPow]
  · norm_num [shortfallActive, chargeAt, baseSoc, soc, sumTo, susW, npow, effPow]

theorem sdevice_hess_symm (n : ℕ) (q : SParams ℝ) (s : ℕ → ℝ) : Symm n (sdevHess n q s) := by
  intro i _ j _
  unfold sdevHess
  have h1 : (if i = j then q.c1 * 2 else 0) = (if j = i then q.c1 * 2 else 0) := by
    by_cases h : i = j
    · subst h; rfl
    · rw [if_neg h, if_neg (Ne.symm h)]
  rw [h1, add_comm (if i + 1 = j then q.c2 * (-1 : ℝ) else 0)]
  congr 1
  exact sumTo_congr (fun k _ => by ring)

/-- positive semidefinite in the documented-convex region `c1 ≥ c2 ≥ 0`, `c3 ≥ 0`
(at every flow, kinks included: the closed form is a tridiagonal block plus a Gram sum). -/
theorem sdevice_hess_psd (n : ℕ) (q : SParams ℝ) (s : ℕ → ℝ)
    (h2 : 0 ≤ q.c2) (h12 : q.c2 ≤ q.c1) (h3 : 0 ≤ q.c3) : PSD n (sdevHess n q s) := by
  intro v
  unfold sdevHess
  rw [quad_add n (fun i j => (if i = j then q.c1 * 2 else 0)
      + ((if i + 1 = j then q.c2 * (-1 : ℝ) else 0) + (if j + 1 = i then q.c2 * (-1 : ℝ) else 0)))
    (fun i j => sumTo n (fun k => q.c3 * 2 * shortfallActive q s k * chargeSens q s k i * chargeSens q s k j)) v]
  exact add_nonneg (quad_tridiag_nonneg n q.c1 q.c2 h2 h12 v)
    (quad_gram_nonneg n n (fun k => q.c3 * 2 * shortfallActive q s k) (fun k i => chargeSens q s k i)
      (fun k _ => mul_nonneg (mul_nonneg h3 (by norm_num)) (shortfallActive_nonneg q s k)) v)

example : ∃ q : SParams ℝ, 0 ≤ q.c2 ∧ q.c2 ≤ q.c1 ∧ 0 ≤ q.c3 ∧ q.c2 ≠ 0 ∧ q.c3 ≠ 0 :=
  ⟨⟨1, 1/2, 1, 4, 1/2, 1/2, 0, 1/2, 1⟩, by norm_num, by norm_num, by norm_num, by norm_num, by norm_num⟩

/-! ## Thermal -/

/-- closed form of the slot curvature: `2·c_i / t_range²`, `0` for a zero comfort range. -/
theorem tSlotHess_eq (q : TParams ℝ) (t : ℝ) (i : ℕ) :
    tSlotHess q t i = if q.tRange = 0 then 0 else 2 * q.c i / (q.tRange * q.tRange) := by
  unfold tSlotHess abcHess
  have h21 : ¬ ((intCast' (2 : ℤ) : ℝ) = 1) := by rw [intCast'_two]; norm_num
  have hp : ipow (abcQ t (q.tOptimal - q.tRange) q.tOptimal 0) ((2 : ℤ) - 2) = 1 := by
    have := ipow_natCast (abcQ t (q.tOptimal - q.tRange) q.tOptimal 0) 0
    simpa using this
  by_cases h : q.tRange = 0
  · simp [h]
  · have hne : ¬ (q.tOptimal - q.tRange = q.tOptimal) := fun g => h (by linarith)
    rw [if_neg h, if_neg (not_or.mpr ⟨hne, h21⟩), hp, intCast'_two]
    have e : q.tOptimal - (q.tOptimal - q.tRange) = q.tRange := by ring
    rw [e]
    field_simp
    ring

theorem tSlotHess_nonneg (q : TParams ℝ) (t : ℝ) (i : ℕ) (hc : 0 ≤ q.c i) : 0 ≤ tSlotHess q t i := by
  rw [tSlotHess_eq]
  split_ifs
  · exact le_refl 0
  · exact div_nonneg (by linarith) (mul_self_nonneg _)

/-- `tdevHess` is the Jacobian of the thermal marginal cost, at every flow (the thermal cost is a
quadratic of an affine map: no kink, no hypothesis). -/
theorem tdevice_hess (n : ℕ) (q : TParams ℝ) (s p : ℕ → ℝ) :
    IsHessAt n (fun x => tdevDeriv n q x p) (tdevHess n q s) s := by
  intro i _ d
  have hslot : ∀ k < n, HasDerivAt
      (fun τ => susW q.sustainment k i * tSlotDeriv q (r2t q (line s d τ) k) k)
      (susW q.sustainment k i * (tSlotHess q (r2t q s k) k
        * (q.efficiency * sumTo (k + 1) (fun j => d j * susW q.sustainment k j)))) 0 := by
    intro k _
    have h1 := r2t_line_hasDerivAt q s d k
    have h2 : HasDerivAt (fun t => tSlotDeriv q t k) (tSlotHess q (r2t q s k) k) (r2t q s k) := by
      unfold tSlotDeriv tSlotHess
      exact abcDeriv_ipow_hasDerivAt (r2t q s k) 0 2 (q.c k) (q.tOptimal - q.tRange) q.tOptimal (by norm_num)
    exact (h2.comp_of_eq 0 h1 (r2t_line_zero q s d k).symm).const_mul _
  have hsum := ((sumTo_hasDerivAt n
    (fun k τ => susW q.sustainment k i * tSlotDeriv q (r2t q (line s d τ) k) k) _ 0 hslot).mul_const
      q.efficiency).add_const (p i)
  unfold tdevDeriv
  refine hsum.congr_deriv ?_
  unfold tdevHess
  have eG := sumTo_gram_row q.sustainment n
    (fun k => tSlotHess q (r2t q s k) k * (q.efficiency * susW q.sustainment k i) * q.efficiency)
    (fun _ => 1) d
  have eL : sumTo n (fun j => sumTo n (fun k => tSlotHess q (r2t q s k) k
        * (q.efficiency * susW q.sustainment k i) * (q.efficiency * susW q.sustainment k j)) * d j)
      = sumTo n (fun j => sumTo n (fun k => tSlotHess q (r2t q s k) k
        * (q.efficiency * susW q.sustainment k i) * q.efficiency * (susW q.sustainment k j * 1)) * d j) :=
    sumTo_congr (fun j _ => by
      congr 1
      exact sumTo_congr (fun k _ => by ring))
  rw [eL, eG, ← sumTo_mul_right]
  exact sumTo_congr (fun k _ => by
    have : sumTo (k + 1) (fun j => d j * 1 * susW q.sustainment k j)
        = sumTo (k + 1) (fun j => d j * susW q.sustainment k j) := sumTo_congr (fun j _ => by ring)
    rw [this]; ring)

theorem tdevice_hess_symm (n : ℕ) (q : TParams ℝ) (s : ℕ → ℝ) : Symm n (tdevHess n q s) := by
  intro i _ j _
  unfold tdevHess
  exact sumTo_congr (fun k _ => by ring)

/-- positive semidefinite for non-negative cost scalings. -/
theorem tdevice_hess_psd (n : ℕ) (q : TParams ℝ) (s : ℕ → ℝ) (hc : ∀ k < n, 0 ≤ q.c k) :
    PSD n (tdevHess n q s) := by
  intro v
  unfold tdevHess
  exact quad_gram_nonneg n n (fun k => tSlotHess q (r2t q s k) k)
    (fun k i => q.efficiency * susW q.sustainment k i)
    (fun k hk => tSlotHess_nonneg q _ k (hc k hk)) v

example : ∃ q : TParams ℝ, (∀ k < 3, 0 ≤ q.c k) ∧ q.tRange ≠ 0 ∧ q.c 1 ≠ 0 :=
  ⟨⟨1/2, 2, 20, 21, 2, fun _ => 10, fun _ => 1⟩, fun _ _ => by norm_num, by norm_num, by norm_num⟩

/-- the diagonal the implementation reports: `Σ_{k ≥ i} cost_k'' · (efficiency · s^{k-i})²`. -/
theorem tdevHessDiag_eq (n : ℕ) (q : TParams ℝ) (s : ℕ → ℝ) (i : ℕ) :
    tdevHessDiag n q s i = sumTo n (fun k => (if q.tRange = 0 then 0 else 2 * q.c k / (q.tRange * q.tRange))
      * ((q.efficiency * susW q.sustainment k i) * (q.efficiency * susW q.sustainment k i))) := by
  unfold tdevHessDiag tdevHess
  exact sumTo_congr (fun k _ => by rw [tSlotHess_eq]; ring)

/-- the thermal Hessian does not depend on the flow (the thermal cost is quadratic). -/
theorem tdevHess_const (n : ℕ) (q : TParams ℝ) (s s' : ℕ → ℝ) (i j : ℕ) :
    tdevHess n q s i j = tdevHess n q s' i j := by
  unfold tdevHess
  exact sumTo_congr (fun k _ => by rw [tSlotHess_eq, tSlotHess_eq])

end DK.C14b

#print axioms DK.C14b.sdevice_hess
#print axioms DK.C14b.sdevice_hess_symm
#print axioms DK.C14b.sdevice_hess_psd
#print axioms DK.C14b.tdevice_hess
#print axioms DK.C14b.tdevice_hess_symm
#print axioms DK.C14b.tdevice_hess_psd
#print axioms DK.C14b.tSlotHess_eq
#print axioms DK.C14b.tdevHessDiag_eq
#print axioms DK.C14b.tdevHess_const
