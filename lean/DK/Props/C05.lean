import DK.Lemmas.SolveLemmas
/-!
# C05 — `solve` returns a feasible cost-minimal flow or raises, never a silent bad one

SciPy's SLSQP is a parameter (`minimize : Problem ℝ → Result ℝ`): parts (a), (b) hold for EVERY
optimiser and every result it can report; (c) says that what is handed to the optimiser is the
documented objective with its exact gradient; (d) is the soundness of the first-order optimality
certificate the harness checks on returned points; (e) are the closed-form optima the harness
compares costs with.

What no theorem here can say (level: proof, partial): that SLSQP converges, or that its `success`
flag is honest.  Those are runtime behaviour of an external routine; the oracle observes them.
-/
namespace DK.C05
open DK

/-! ## (a) every failure the optimiser can report is raised -/

/-- whatever the optimiser answers, if it reports `success = false` — with ANY status and ANY `x` —
`solve` raises `OptimizationException` carrying that result (unless the fixed-flow shortcut applied,
in which case the optimiser is not called at all). -/
theorem solve_raises_on_failure (d : SDev ℝ) (P : Mat ℝ) (s0? : Option (ℕ → ℝ)) (prox : Option ℝ) (cb : Bool) (tol : ℝ) (maxiter : ℕ)
    (minimize : Problem ℝ → Result ℝ)
    (hns : allFixed d.dim d.flatBounds = false)
    (hfail : (minimize ((solveProblem d P (startPoint d s0?) prox cb).withOpts tol maxiter)).success = false) :
    solve d P s0? prox cb tol maxiter minimize = .error (.result (minimize ((solveProblem d P (startPoint d s0?) prox cb).withOpts tol maxiter))) := by
  unfold solve
  simp [hns, hfail]

/-- the fault-injection form: a stub that answers `r` (any `x`, any `status`) with `success = false`. -/
theorem solve_raises_on_every_status (d : SDev ℝ) (P : Mat ℝ) (s0? : Option (ℕ → ℝ)) (prox : Option ℝ) (cb : Bool) (tol : ℝ) (maxiter : ℕ)
    (r : Result ℝ) (hns : allFixed d.dim d.flatBounds = false) (hfail : r.success = false) :
    solve d P s0? prox cb tol maxiter (fun _ => r) = .error (.result r) :=
  solve_raises_on_failure d P s0? prox cb tol maxiter (fun _ => r) hns hfail

/-- a device with one free slot: the hypotheses are satisfiable. -/
def exDev : SDev ℝ :=
  { rows := 1, n := 2, cost := fun S P => sumTo 2 (fun i => S 0 i * P 0 i), deriv := fun _ P _ i => P 0 i,
    bounds := fun _ i => if i = 0 then (0, 1) else (2, 2), cons := [], project := fun S => S }

theorem exDev_not_fixed : allFixed exDev.dim exDev.flatBounds = false := by
  simp [allFixed, exDev, SDev.dim, SDev.flatBounds, List.range, List.range.loop]

example : solve exDev (fun _ _ => 1) none none false (1/1000000) 1000 (fun _ => ⟨fun _ => 7, false, 4⟩)
    = .error (.result ⟨fun _ => 7, false, 4⟩) :=
  solve_raises_on_every_status _ _ _ _ _ _ _ _ exDev_not_fixed rfl

/-! ## (b) what an `ok` outcome can be -/

/-- the flattened lower bounds: the only in-bounds flow of a fully fixed device. -/
def lowFlow (d : SDev ℝ) : ℕ → ℝ := fun k => (d.flatBounds k).1

/-- every constraint (as SciPy sees it, on the flat vector) holds at `x` within `tol`:
`fn x ≥ −tol`, and `fn x ≤ tol` too for an equality. -/
def AllWithin (d : SDev ℝ) (tol : ℝ) (x : ℕ → ℝ) : Prop :=
  ∀ c ∈ d.cons.map (MCon.toFlat d.n), -tol ≤ c.fn x ∧ (c.isEq = true → c.fn x ≤ tol)

theorem all_withinTol_iff (d : SDev ℝ) (tol : ℝ) (x : ℕ → ℝ) :
    (d.cons.map (MCon.toFlat d.n)).all (fun c => c.withinTol tol x) = true ↔ AllWithin d tol x := by
  unfold AllWithin
  rw [List.all_eq_true]
  refine forall_congr' (fun c => forall_congr' (fun _ => ?_))
  unfold Con.withinTol
  cases hE : c.isEq <;> simp [not_lt]

/-- at tolerance `0` the shortcut's test is exactly constraint satisfaction. -/
theorem allWithin_zero_iff (d : SDev ℝ) (x : ℕ → ℝ) :
    AllWithin d 0 x ↔ SatAll (d.cons.map (MCon.toFlat d.n)) x := by
  unfold AllWithin SatAll
  refine forall_congr' (fun c => forall_congr' (fun _ => ?_))
  unfold Con.Sat
  cases hE : c.isEq
  · simp
  · simp only [neg_zero, forall_const, if_true]
    exact ⟨fun h => le_antisymm h.2 h.1, fun h => by rw [h]; exact ⟨le_rfl, le_rfl⟩⟩

/-- a returned flow is either the fixed-flow shortcut (lower bounds reshaped, no optimiser result, and
every constraint holds within the tolerance there) or the reshaped `x` of an optimiser result that
reported success. -/
theorem solve_ok_cases (d : SDev ℝ) (P : Mat ℝ) (s0? : Option (ℕ → ℝ)) (prox : Option ℝ) (cb : Bool) (tol : ℝ) (maxiter : ℕ)
    (minimize : Problem ℝ → Result ℝ) (S : Mat ℝ) (r? : Option (Result ℝ))
    (h : solve d P s0? prox cb tol maxiter minimize = .ok (S, r?)) :
    (allFixed d.dim d.flatBounds = true ∧ S = unflat d.n (lowFlow d) ∧ r? = none ∧ AllWithin d tol (lowFlow d))
    ∨ (allFixed d.dim d.flatBounds = false ∧
        ∃ r, r = minimize ((solveProblem d P (startPoint d s0?) prox cb).withOpts tol maxiter) ∧ r.success = true
          ∧ S = unflat d.n r.x ∧ r? = some r) := by
  unfold solve at h
  by_cases hf : allFixed d.dim d.flatBounds = true
  · left
    rw [if_pos hf] at h
    by_cases hc : (d.cons.map (MCon.toFlat d.n)).all (fun c => c.withinTol tol (fun k => (d.flatBounds k).1)) = true
    · rw [if_pos hc] at h
      injection h with h
      injection h with h1 h2
      exact ⟨hf, h1.symm, h2.symm, (all_withinTol_iff d tol _).mp hc⟩
    · rw [if_neg hc] at h
      simp at h
  · right
    rw [if_neg hf] at h
    simp only [Bool.not_eq_true] at hf
    by_cases hs : (minimize ((solveProblem d P (startPoint d s0?) prox cb).withOpts tol maxiter)).success = true
    · simp only [hs, if_true] at h
      injection h with h
      injection h with h1 h2
      exact ⟨hf, _, rfl, hs, h1.symm, h2.symm⟩
    · simp [hs] at h

example : solve exDev (fun _ _ => 1) none none false (1/1000000) 1000 (fun _ => ⟨fun _ => 7, true, 0⟩)
    = .ok (unflat 2 (fun _ => 7), some ⟨fun _ => 7, true, 0⟩) := by
  unfold solve
  rw [if_neg (by rw [exDev_not_fixed]; simp)]
  rfl

/-- the fixed-flow shortcut: the optimiser is never consulted; the outcome is `ok` (the lower bounds
reshaped) exactly when every constraint holds within the tolerance at the lower-bound flow, and
`OptimizationException` otherwise. -/
theorem shortcut_checks_constraints (d : SDev ℝ) (P : Mat ℝ) (s0? : Option (ℕ → ℝ)) (prox : Option ℝ) (cb : Bool)
    (tol : ℝ) (maxiter : ℕ) (minimize : Problem ℝ → Result ℝ) (hf : allFixed d.dim d.flatBounds = true) :
    (AllWithin d tol (lowFlow d) → solve d P s0? prox cb tol maxiter minimize = .ok (unflat d.n (lowFlow d), none)) ∧
    (¬ AllWithin d tol (lowFlow d) → solve d P s0? prox cb tol maxiter minimize = .error .fixedInfeasible) := by
  unfold solve
  rw [if_pos hf]
  constructor
  · intro h
    exact if_pos ((all_withinTol_iff d tol (lowFlow d)).mpr h)
  · intro h
    exact if_neg (fun hc => h ((all_withinTol_iff d tol (lowFlow d)).mp hc))

/-- hence `ok` iff the constraints hold within the tolerance. -/
theorem shortcut_ok_iff (d : SDev ℝ) (P : Mat ℝ) (s0? : Option (ℕ → ℝ)) (prox : Option ℝ) (cb : Bool)
    (tol : ℝ) (maxiter : ℕ) (minimize : Problem ℝ → Result ℝ) (hf : allFixed d.dim d.flatBounds = true) :
    (∃ v, solve d P s0? prox cb tol maxiter minimize = .ok v) ↔ AllWithin d tol (lowFlow d) := by
  have h := shortcut_checks_constraints d P s0? prox cb tol maxiter minimize hf
  constructor
  · rintro ⟨v, hv⟩
    by_contra hn
    rw [h.2 hn] at hv
    simp at hv
  · intro ha
    exact ⟨_, h.1 ha⟩

/-- when it applies, the shortcut's flow is the only in-bounds flow (so it is the minimiser of ANY
cost over the box): every in-bounds `y` equals the lower bounds on the `dim` variables. -/
theorem shortcut_unique (d : SDev ℝ) (hf : allFixed d.dim d.flatBounds = true) (y : ℕ → ℝ)
    (hy : ∀ k < d.dim, (d.flatBounds k).1 ≤ y k ∧ y k ≤ (d.flatBounds k).2) :
    ∀ k < d.dim, y k = (d.flatBounds k).1 := by
  intro k hk
  unfold allFixed at hf
  rw [List.all_eq_true] at hf
  have := hf k (List.mem_range.mpr hk)
  simp only [decide_eq_true_eq] at this
  have ⟨h1, h2⟩ := hy k hk
  rw [← this] at h2
  exact le_antisymm h2 h1

/-- a fully fixed device (both slots have `lb = hb`): the shortcut's hypothesis is satisfiable. -/
def exFixed : SDev ℝ := { exDev with bounds := fun _ i => if i = 0 then (1, 1) else (2, 2) }

theorem exFixed_fixed : allFixed exFixed.dim exFixed.flatBounds = true := by
  simp [allFixed, exFixed, exDev, SDev.dim, SDev.flatBounds, List.range, List.range.loop]

/-- the fixed device with an aggregate constraint `x₀ + x₁ − c ≥ 0` (the fixed flow is `(1, 2)`). -/
def exFixedCon (c : ℝ) : SDev ℝ :=
  { exFixed with cons := [{ isEq := false, fn := fun S => S 0 0 + S 0 1 - c, jac := none }] }

theorem exFixedCon_fixed (c : ℝ) : allFixed (exFixedCon c).dim (exFixedCon c).flatBounds = true := exFixed_fixed

theorem exFixedCon_within (c : ℝ) : AllWithin (exFixedCon c) (1/1000000) (lowFlow (exFixedCon c)) ↔ c ≤ 3 + 1/1000000 := by
  simp only [AllWithin, exFixedCon, exFixed, exDev, List.map, List.mem_singleton, forall_eq, MCon.toFlat, lowFlow,
    SDev.flatBounds, unflat, flatIdx]
  norm_num

/-- satisfied (`3 ≥ 2`): returned; violated (`3 ≥ 4` fails): raised — both hypotheses are satisfiable. -/
example (m : Problem ℝ → Result ℝ) : solve (exFixedCon 2) (fun _ _ => 1) none none false (1/1000000) 1000 m
    = .ok (unflat (exFixedCon 2).n (lowFlow (exFixedCon 2)), none) :=
  (shortcut_checks_constraints (exFixedCon 2) _ _ _ _ _ _ m (exFixedCon_fixed 2)).1 ((exFixedCon_within 2).mpr (by norm_num))

example (m : Problem ℝ → Result ℝ) : solve (exFixedCon 4) (fun _ _ => 1) none none false (1/1000000) 1000 m = .error .fixedInfeasible :=
  (shortcut_checks_constraints (exFixedCon 4) _ _ _ _ _ _ m (exFixedCon_fixed 4)).2
    (fun h => by have := (exFixedCon_within 4).mp h; norm_num at this)

example (y : ℕ → ℝ) (hy : ∀ k < exFixed.dim, (exFixed.flatBounds k).1 ≤ y k ∧ y k ≤ (exFixed.flatBounds k).2) :
    ∀ k < exFixed.dim, y k = (exFixed.flatBounds k).1 :=
  shortcut_unique exFixed exFixed_fixed y hy

/-! ## (c) the objective handed to the optimiser -/

theorem solveProblem_plain (d : SDev ℝ) (P : Mat ℝ) (s0 : ℕ → ℝ) (prox : Option ℝ) (cb : Bool)
    (hp : proxWeight prox = none) :
    solveProblem d P s0 prox cb =
      { dim := d.dim, fn := fun s => d.flatCost P s, x0 := s0, jac := some (fun s => d.flatDeriv P s),
        bounds := d.flatBounds, cons := d.cons.map (MCon.toFlat d.n), callback := cb } := by
  unfold solveProblem
  rw [hp]

theorem solveProblem_prox (d : SDev ℝ) (P : Mat ℝ) (s0 : ℕ → ℝ) (prox : Option ℝ) (cb : Bool) (q : ℝ)
    (hp : proxWeight prox = some q) :
    solveProblem d P s0 prox cb =
      { dim := d.dim, fn := fun s => d.flatCost P s + (1 / (2 * q)) * sqDist d.dim s s0, x0 := s0,
        jac := some (fun s k => d.flatDeriv P s k + (1 / q) * (s k - s0 k)),
        bounds := d.flatBounds, cons := d.cons.map (MCon.toFlat d.n), callback := cb } := by
  unfold solveProblem
  rw [hp]

/-- without a (truthy) proximal weight the optimiser gets `device.cost` and the flattened
`device.deriv`, which is its gradient whenever `deriv` is the gradient of `cost` (C01 / C02). -/
theorem plain_objective (d : SDev ℝ) (P : Mat ℝ) (s0 : ℕ → ℝ) (prox : Option ℝ) (cb : Bool) (x : ℕ → ℝ)
    (hp : proxWeight prox = none)
    (hgrad : IsMGradAt d.rows d.n (fun S => d.cost S P) (d.deriv (unflat d.n x) P) (unflat d.n x)) :
    (∀ s, (solveProblem d P s0 prox cb).fn s = d.flatCost P s) ∧
    ∃ j, (solveProblem d P s0 prox cb).jac = some j ∧ IsGradAt d.dim (solveProblem d P s0 prox cb).fn (j x) x := by
  rw [solveProblem_plain d P s0 prox cb hp]
  refine ⟨fun s => rfl, _, rfl, ?_⟩
  exact isGradAt_of_isMGradAt d.rows d.n (fun S => d.cost S P) _ x hgrad

/-- `prox = None` and `prox = 0` are the same call (Python truthiness). -/
theorem prox_zero_is_none (d : SDev ℝ) (P : Mat ℝ) (s0 : ℕ → ℝ) (cb : Bool) :
    solveProblem d P s0 (some 0) cb = solveProblem d P s0 none cb := by
  unfold solveProblem proxWeight
  simp

/-- with proximal weight `q ≠ 0` the optimiser minimises `cost + (1/(2q))·‖s − s0‖²` and the Jacobian
it is given, `deriv + (1/q)(s − s0)`, is the gradient of exactly that function — provided the
device's `deriv` is the gradient of its `cost` at `x` (C01 / C02). -/
theorem prox_objective (d : SDev ℝ) (P : Mat ℝ) (s0 : ℕ → ℝ) (q : ℝ) (hq : q ≠ 0) (cb : Bool) (x : ℕ → ℝ)
    (hgrad : IsMGradAt d.rows d.n (fun S => d.cost S P) (d.deriv (unflat d.n x) P) (unflat d.n x)) :
    (∀ s, (solveProblem d P s0 (some q) cb).fn s = d.flatCost P s + (1 / (2 * q)) * sqDist d.dim s s0) ∧
    ∃ j, (solveProblem d P s0 (some q) cb).jac = some j ∧
      (∀ k, j x k = d.flatDeriv P x k + (1 / q) * (x k - s0 k)) ∧
      IsGradAt d.dim (solveProblem d P s0 (some q) cb).fn (j x) x := by
  have hw : proxWeight (some q) = some q := by simp [proxWeight, hq]
  rw [solveProblem_prox d P s0 (some q) cb q hw]
  refine ⟨fun s => rfl, _, rfl, fun k => rfl, ?_⟩
  have h1 := isGradAt_of_isMGradAt d.rows d.n (fun S => d.cost S P) _ x hgrad
  have h2 := (isGradAt_sqDist d.dim s0 x).const_mul (1 / (2 * q))
  refine (h1.add h2).congr_grad (fun k _ => ?_)
  show flat d.n (d.deriv (unflat d.n x) P) k + 1 / (2 * q) * (2 * (x k - s0 k))
    = d.flatDeriv P x k + 1 / q * (x k - s0 k)
  unfold SDev.flatDeriv
  field_simp

/-- non-vacuity: the linear example device satisfies the gradient hypothesis everywhere. -/
theorem exDev_grad (P : Mat ℝ) (x : ℕ → ℝ) :
    IsMGradAt exDev.rows exDev.n (fun S => exDev.cost S P) (exDev.deriv (unflat exDev.n x) P) (unflat exDev.n x) := by
  intro D
  simp only [exDev, sumTo, zero_add]
  have h := (((hasDerivAt_id' (0:ℝ)).const_mul (D 0 0 * P 0 0)).add
    ((hasDerivAt_id' (0:ℝ)).const_mul (D 0 1 * P 0 1))).const_add (unflat 2 x 0 0 * P 0 0 + unflat 2 x 0 1 * P 0 1)
  refine (h.congr_deriv (by ring)).congr_of_eventuallyEq ?_
  filter_upwards with τ
  simp only [Pi.add_apply]
  ring

example : ∃ j, (solveProblem exDev (fun _ _ => 1) (fun _ => 0) (some 2) false).jac = some j ∧
    IsGradAt exDev.dim (solveProblem exDev (fun _ _ => 1) (fun _ => 0) (some 2) false).fn (j (fun _ => 3)) (fun _ => 3) := by
  obtain ⟨_, j, h1, _, h3⟩ := prox_objective exDev (fun _ _ => 1) (fun _ => 0) 2 (by norm_num) false (fun _ => 3) (exDev_grad _ _)
  exact ⟨j, h1, h3⟩

/-! ## (d) soundness of the first-order optimality certificate over any convex feasible set -/

/-- `F` closed under convex combinations, `f` convex on `F`, `g·(y − x)` the directional derivative of
`f` at `x ∈ F` towards each `y ∈ F`.  If every such directional derivative is `≥ −ε`, then `x` is
`ε`-optimal over `F`.  (With `ε = 0`: the first-order condition is sufficient for global optimality.)
This is what makes the certificate gap the harness computes by an LP over the feasible polytope
meaningful.  `DK.C07.first_order_certificate` is the special case `F = InBox n lb hb`. -/
theorem first_order_certificate (n : ℕ) (F : (ℕ → ℝ) → Prop) (f : (ℕ → ℝ) → ℝ) (g x : ℕ → ℝ) (ε : ℝ)
    (_hF : ConvexSet F) (hf : ConvexOnSet F f) (hx : F x)
    (hg : ∀ y, F y → HasDerivAt (fun τ => f (seg x y τ)) (sumTo n (fun k => g k * (y k - x k))) 0)
    (hopt : ∀ y, F y → -ε ≤ sumTo n (fun k => g k * (y k - x k))) :
    ∀ y, F y → f x - ε ≤ f y := by
  intro y hy
  have := grad_ineq hf hx hy (hg y hy)
  have := hopt y hy
  linarith

/-- the same with the gradient hypothesis in the C01 form (`IsGradAt`). -/
theorem first_order_certificate_grad (n : ℕ) (F : (ℕ → ℝ) → Prop) (f : (ℕ → ℝ) → ℝ) (g x : ℕ → ℝ) (ε : ℝ)
    (hF : ConvexSet F) (hf : ConvexOnSet F f) (hx : F x) (hg : IsGradAt n f g x)
    (hopt : ∀ y, F y → -ε ≤ sumTo n (fun k => g k * (y k - x k))) :
    ∀ y, F y → f x - ε ≤ f y :=
  first_order_certificate n F f g x ε hF hf hx (fun y _ => hg (fun k => y k - x k)) hopt

example : ∀ y, InBox 2 (fun _ => 0) (fun _ => 1) y →
    (fun x : ℕ → ℝ => priceTerm 2 x (fun _ => 1)) (fun _ => 0) - 0 ≤ (fun x : ℕ → ℝ => priceTerm 2 x (fun _ => 1)) y :=
  first_order_certificate_grad 2 (InBox 2 (fun _ => 0) (fun _ => 1)) (fun x => priceTerm 2 x (fun _ => 1)) (fun _ => 1) (fun _ => 0) 0
    (convexSet_inBox 2 _ _)
    (by
      intro x y _ _ θ _ _
      simp only [priceTerm, sumTo, mix]
      ring_nf
      exact le_refl _)
    (by intro k _; norm_num)
    (priceTerm_isGradAt 2 _ _)
    (by
      intro y hy
      simp only [sumTo]
      have := (hy 0 (by norm_num)).1
      have := (hy 1 (by norm_num)).1
      linarith)

/-! ## (e) closed-form optima -/

/-- IDevice2 under a price: the per-slot clamped stationary point is in the box and is a global
minimiser of the model cost over the box (accepted parameters: `p_l ≤ p_h`, `lb ≤ hb`). -/
theorem idevice2_closed_form (n : ℕ) (pl ph lb hb p : ℕ → ℝ) (hp : ∀ k < n, pl k ≤ ph k) (hb' : ∀ k < n, lb k ≤ hb k) :
    InBox n lb hb (fun k => hlqArgmin (pl k) (ph k) (lb k) (hb k) (p k)) ∧
    ∀ y, InBox n lb hb y →
      idev2Cost n pl ph lb hb (fun k => hlqArgmin (pl k) (ph k) (lb k) (hb k) (p k)) p ≤ idev2Cost n pl ph lb hb y p := by
  refine ⟨fun k hk => hlqArgmin_mem _ _ _ _ _ (hb' k hk), fun y hy => ?_⟩
  unfold idev2Cost priceTerm
  rw [← sumTo_add, ← sumTo_add]
  exact sumTo_le (fun k hk => hlqArgmin_min _ _ _ _ _ _ (hp k hk) (hb' k hk) (hy k hk).1 (hy k hk).2)

/-- … and it satisfies the first-order condition with gap `0`: the reported marginal cost `idev2Deriv`
has non-negative inner product with every feasible displacement (so (d) certifies it with `ε = 0`). -/
theorem idevice2_first_order (n : ℕ) (pl ph lb hb p : ℕ → ℝ) (hp : ∀ k < n, pl k ≤ ph k) (hb' : ∀ k < n, lb k ≤ hb k)
    (y : ℕ → ℝ) (hy : InBox n lb hb y) :
    0 ≤ sumTo n (fun k => idev2Deriv pl ph lb hb (fun k => hlqArgmin (pl k) (ph k) (lb k) (hb k) (p k)) p k
      * (y k - hlqArgmin (pl k) (ph k) (lb k) (hb k) (p k))) :=
  sumTo_nonneg (fun k hk => hlqArgmin_first_order _ _ _ _ _ _ (hp k hk) (hb' k hk) (hy k hk).1 (hy k hk).2)

/-- where the unclamped stationary point lies inside the slot's bounds the marginal cost vanishes:
it solves `hlqDeriv + p = 0`. -/
theorem idevice2_stationary (pl ph xl xh p : ℝ) (hp : pl < ph) (hx : xl < xh)
    (h1 : xl ≤ xl + (xh - xl) * ((-p - pl) / (ph - pl))) (h2 : xl + (xh - xl) * ((-p - pl) / (ph - pl)) ≤ xh) :
    hlqDeriv pl ph xl xh (hlqArgmin pl ph xl xh p) + p = 0 := by
  have hd : ph - pl ≠ 0 := by linarith
  have hw : xh - xl ≠ 0 := by linarith
  unfold hlqArgmin
  rw [if_neg (ne_of_lt hx), if_neg (ne_of_lt hp)]
  rcases clamp_cases (p := xl + (xh - xl) * ((-p - pl) / (ph - pl))) hx.le with ⟨a, hc⟩ | ⟨_, _, hc⟩ | ⟨a, hc⟩
  · have e : xl + (xh - xl) * ((-p - pl) / (ph - pl)) = xl := le_antisymm a h1
    rw [hc]
    unfold hlqDeriv
    rw [if_neg (ne_of_lt hx)]
    have : (-p - pl) / (ph - pl) = 0 := by
      have : (xh - xl) * ((-p - pl) / (ph - pl)) = 0 := by linarith
      rcases mul_eq_zero.mp this with h | h
      · exact absurd h hw
      · exact h
    have : -p - pl = 0 := by
      rcases div_eq_zero_iff.mp this with h | h
      · exact h
      · exact absurd h hd
    have e2 : (xl - xl) / (xh - xl) = 0 := by simp
    rw [e2]; linarith
  · rw [hc]
    unfold hlqDeriv
    rw [if_neg (ne_of_lt hx)]
    field_simp
    ring
  · have e : xl + (xh - xl) * ((-p - pl) / (ph - pl)) = xh := le_antisymm h2 a
    rw [hc]
    unfold hlqDeriv
    rw [if_neg (ne_of_lt hx)]
    have e2 : (xh - xl) / (xh - xl) = 1 := div_self hw
    rw [e2]
    have : (xh - xl) * ((-p - pl) / (ph - pl)) = xh - xl := by linarith
    have : (-p - pl) / (ph - pl) = 1 := by
      have h3 : (xh - xl) * ((-p - pl) / (ph - pl)) = (xh - xl) * 1 := by linarith
      exact mul_left_cancel₀ hw h3
    have : -p - pl = ph - pl := by
      rwa [div_eq_one_iff_eq hd] at this
    linarith

example : InBox 2 (fun _ => 0) (fun _ => 4) (fun k => hlqArgmin ((fun _ => -2) k) ((fun _ => -1) k) ((fun _ => 0) k) ((fun _ => 4) k) ((fun _ => (3:ℝ)/2) k)) :=
  (idevice2_closed_form 2 (fun _ => -2) (fun _ => -1) (fun _ => 0) (fun _ => 4) (fun _ => 3/2)
    (by intros; norm_num) (by intros; norm_num)).1

/-- base `Device` / `PVDevice` (linear cost `Σ s·p`): lower bound where the price is positive, upper
bound where it is negative (any in-bounds value where it is zero; the upper bound is chosen). -/
theorem device_closed_form (n : ℕ) (lb hb p : ℕ → ℝ) (hb' : ∀ k < n, lb k ≤ hb k) :
    InBox n lb hb (fun k => linArgmin (lb k) (hb k) (p k)) ∧
    ∀ y, InBox n lb hb y → deviceCost n (fun k => linArgmin (lb k) (hb k) (p k)) p ≤ deviceCost n y p := by
  constructor
  · intro k hk
    have := hb' k hk
    simp only [linArgmin]
    split_ifs <;> constructor <;> linarith
  · intro y hy
    unfold deviceCost priceTerm
    refine sumTo_le (fun k hk => ?_)
    have ⟨h1, h2⟩ := hy k hk
    simp only [linArgmin]
    split_ifs with h
    · nlinarith
    · push Not at h
      nlinarith

/-- `CDevice` without cumulative bounds (cost `a·Σs + b + Σ s·p`): bang-bang on the sign of `a + p`. -/
theorem cdevice_closed_form (n : ℕ) (a b : ℝ) (lb hb p : ℕ → ℝ) (hb' : ∀ k < n, lb k ≤ hb k) :
    InBox n lb hb (fun k => linArgmin (lb k) (hb k) (a + p k)) ∧
    ∀ y, InBox n lb hb y → cdevCost n a b (fun k => linArgmin (lb k) (hb k) (a + p k)) p ≤ cdevCost n a b y p := by
  have h := device_closed_form n lb hb (fun k => a + p k) hb'
  refine ⟨h.1, fun y hy => ?_⟩
  have h2 := h.2 y hy
  have e : ∀ s : ℕ → ℝ, cdevCost n a b s p = deviceCost n s (fun k => a + p k) + b := by
    intro s
    unfold cdevCost deviceCost priceTerm
    rw [← sumTo_mul_left, add_right_comm, ← sumTo_add]
    congr 1
    exact sumTo_congr (fun k _ => by ring)
  rw [e, e]
  linarith

example : deviceCost 2 (fun k => linArgmin ((fun _ => (0:ℝ)) k) ((fun _ => (1:ℝ)) k) ((fun k => if k = 0 then (1:ℝ) else -1) k)) (fun k => if k = 0 then 1 else -1)
    ≤ deviceCost 2 (fun _ => 1/2) (fun k => if k = 0 then 1 else -1) :=
  (device_closed_form 2 (fun _ => 0) (fun _ => 1) (fun k => if k = 0 then 1 else -1) (by intros; norm_num)).2 _
    (by intro k _; norm_num)

example : cdevCost 2 (-1) 3 (fun k => linArgmin ((fun _ => (0:ℝ)) k) ((fun _ => (1:ℝ)) k) (-1 + (fun _ => (2:ℝ)) k)) (fun _ => 2)
    ≤ cdevCost 2 (-1) 3 (fun _ => 1/2) (fun _ => 2) :=
  (cdevice_closed_form 2 (-1) 3 (fun _ => 0) (fun _ => 1) (fun _ => 2) (by intros; norm_num)).2 _ (by intro k _; norm_num)

example : hlqDeriv (-2 : ℝ) (-1) 0 4 (hlqArgmin (-2) (-1) 0 4 (3/2)) + 3/2 = 0 :=
  idevice2_stationary (-2) (-1) 0 4 (3/2) (by norm_num) (by norm_num) (by norm_num) (by norm_num)

example (y : ℕ → ℝ) (hy : InBox 2 (fun _ => 0) (fun _ => 4) y) :
    0 ≤ sumTo 2 (fun k => idev2Deriv (fun _ => -2) (fun _ => -1) (fun _ => 0) (fun _ => 4)
        (fun k => hlqArgmin ((fun _ => -2) k) ((fun _ => -1) k) ((fun _ => 0) k) ((fun _ => 4) k) ((fun _ => (3:ℝ)/2) k)) (fun _ => 3/2) k
      * (y k - hlqArgmin ((fun _ => -2) k) ((fun _ => -1) k) ((fun _ => 0) k) ((fun _ => 4) k) ((fun _ => (3:ℝ)/2) k))) :=
  idevice2_first_order 2 (fun _ => -2) (fun _ => -1) (fun _ => 0) (fun _ => 4) (fun _ => 3/2)
    (by intros; norm_num) (by intros; norm_num) y hy

end DK.C05
