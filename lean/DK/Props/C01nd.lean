import DK.Lemmas.FnNd
import DK.Lemmas.HessCalc
/-!
# C01 / C14 for the numerically differentiated preference functions

`InformationEntropy`, `TemporalVariance`, `CobbDouglas` (functions.py:249-318) return
`nd.Jacobian` / `nd.Hessian` of their own value as `deriv` / `hess`.  The theorems below say what those
numeric derivatives approximate: the analytic gradients `tvarGrad`, `cobbGrad`, `entropyGrad` are the
gradients (Gateaux form `IsGradAt`, as everywhere in C01) of the modelled costs, and `tvarHess` is the
Jacobian of `tvarGrad` (`IsHessAt`), symmetric.  That the implementation's numdifftools output agrees with
these closed forms is observed by T2 (`fnnd.*` ops, TemporalVariance, exact rational model) and by the
transcription oracles of `vk/props/c01.py` (CobbDouglas, InformationEntropy), not proved.

Hypotheses are the domain of the implementation: a non-zero total flow for `TemporalVariance`
(`np.average` raises `ZeroDivisionError` on zero weights); strictly positive flows and `Σ a ≠ 0` for
`CobbDouglas`; no zero flow for `InformationEntropy` (the `|r|` kink) — flows of either sign are covered.
-/
namespace DK.C01nd
open DK

/-! ## TemporalVariance -/

/-- `deriv` of `TemporalVariance(c)` approximates `c·(k − com r)²`: the exact gradient of the cost. -/
theorem tvar_grad (c : ℝ) (n : ℕ) (s : ℕ → ℝ) (hS : sumTo n s ≠ 0) :
    IsGradAt n (tvarCost c n) (tvarGrad c n s) s := by
  intro d
  have h := wvarCost_line_hasDerivAt (fun i => natCast' i) c n s d hS
  exact h

/-- `hess` of `TemporalVariance(c)` approximates `−2c·(k − com)(l − com)/Σr`: the exact Jacobian of
the analytic gradient. -/
theorem tvar_hess (c : ℝ) (n : ℕ) (s : ℕ → ℝ) (hS : sumTo n s ≠ 0) :
    IsHessAt n (tvarGrad c n) (tvarHess c n s) s := by
  intro k _ d
  have h := wvarGrad_line_hasDerivAt (fun i => natCast' i) c n s d k hS
  exact h

/-- the device level: `ADevice(f = TemporalVariance(c))` adds the numeraire term `Σ s·p` / the price. -/
theorem adevice_tvar_grad (c : ℝ) (n : ℕ) (s p : ℕ → ℝ) (hS : sumTo n s ≠ 0) :
    IsGradAt n (fun x => adevTvarCost c n x p) (fun k => adevTvarDeriv c n s p k) s :=
  (tvar_grad c n s hS).add (priceTerm_isGradAt n s p)

/-- the price does not enter the Hessian: `tvarHess` is also the Jacobian of the device's marginal cost. -/
theorem adevice_tvar_hess (c : ℝ) (n : ℕ) (s p : ℕ → ℝ) (hS : sumTo n s ≠ 0) :
    IsHessAt n (fun x k => adevTvarDeriv c n x p k) (tvarHess c n s) s := by
  intro k hk
  have h := (tvar_hess c n s hS k hk).add (isGradAt_const n (p k) s)
  exact h.congr_grad (fun j _ => by ring)

theorem tvar_hess_symm (c : ℝ) (n : ℕ) (s : ℕ → ℝ) (k l : ℕ) :
    tvarHess c n s k l = tvarHess c n s l k := by
  unfold tvarHess; ring

/-- the analytic Hessian is rank one and NEGATIVE semidefinite for `c ≥ 0`, `Σ r > 0`:
`vᵀ H v = −2c/Σr · (Σ_k (k − com) v_k)² ≤ 0`.  So `TemporalVariance` is not convex (none is documented; C07
does not claim it) and C14's PSD clause does not apply to it. -/
theorem tvar_hess_nsd (c : ℝ) (n : ℕ) (s : ℕ → ℝ) (hc : 0 ≤ c) (hS : 0 < sumTo n s) (v : ℕ → ℝ) :
    sumTo n (fun k => sumTo n (fun l => v k * tvarHess c n s k l * v l)) ≤ 0 := by
  have e : sumTo n (fun k => sumTo n (fun l => v k * tvarHess c n s k l * v l))
      = sumTo n (fun k => sumTo n (fun l => v k * ((-2 * c / sumTo n s)
          * (natCast' k - tvarCom n s) * (natCast' l - tvarCom n s)) * v l)) := by
    refine sumTo_congr (fun k _ => sumTo_congr (fun l _ => ?_))
    unfold tvarHess tvarMass; ring
  rw [e, quad_rank_one]
  have h1 : -2 * c / sumTo n s ≤ 0 := div_nonpos_of_nonpos_of_nonneg (by linarith) (le_of_lt hS)
  exact mul_nonpos_of_nonpos_of_nonneg h1 (mul_self_nonneg _)

/-- the slot index really is the weight: `natCast' k = k` at `ℝ` (so `tvarGrad c n s k = c·(k − com)²`). -/
theorem tvarGrad_eq (c : ℝ) (n : ℕ) (s : ℕ → ℝ) (k : ℕ) :
    tvarGrad c n s k = c * ((k : ℝ) - sumTo n (fun i => (i : ℝ) * s i) / sumTo n s) ^ 2 := by
  simp only [tvarGrad, tvarCom, tvarMass, natCast'_eq]; ring

/-- the model's cost is the documented "moment of inertia about the centre of mass". -/
theorem tvarCost_eq (c : ℝ) (n : ℕ) (s : ℕ → ℝ) :
    tvarCost c n s
      = c * sumTo n (fun i => ((i : ℝ) - sumTo n (fun j => (j : ℝ) * s j) / sumTo n s) ^ 2 * s i) := by
  simp only [tvarCost, tvarCom, tvarMass, natCast'_eq]
  congr 1
  exact sumTo_congr (fun i _ => by ring)

/-- non-vacuity: `n = 3`, flow `(1, 2, 1)`: centre of mass `1`, gradient `(c, 0, c)`. -/
example : sumTo 3 (fun i => if i = 1 then (2:ℝ) else 1) ≠ 0 := by
  simp [sumTo]; norm_num

example : tvarGrad (1:ℝ) 3 (fun i => if i = 1 then (2:ℝ) else 1) 0 = 1 := by
  simp [tvarGrad, tvarCom, tvarMass, sumTo, natCast']; norm_num

example : tvarHess (1:ℝ) 3 (fun i => if i = 1 then (2:ℝ) else 1) 0 2 = 1 / 2 := by
  simp [tvarHess, tvarCom, tvarMass, sumTo, natCast']; norm_num

/-! ## CobbDouglas -/

/-- `deriv` of `CobbDouglas(a, c)` approximates `c·(a_k/Σa)/r_k·Π r_i^(a_i/Σa)`: the exact gradient of the
cost at strictly positive flows.  (`Σ a ≠ 0` is the implementation's own domain — `a/a.sum()` — and is
not otherwise used: the statement does not lean on Lean's `x/0 = 0`.) -/
theorem cobb_grad (c : ℝ) (a : ℕ → ℝ) (n : ℕ) (s : ℕ → ℝ) (hs : ∀ i < n, 0 < s i)
    (_hA : sumTo n a ≠ 0) :
    IsGradAt n (cobbCost c a n) (cobbGrad c a n s) s := by
  intro d
  have h := (prodTo_rpow_line_hasDerivAt n (fun i => a i / sumTo n a) s d hs).const_mul c
  unfold cobbCost
  refine HasDerivAt.congr_deriv h ?_
  rw [← mul_assoc, ← sumTo_mul_left]
  refine sumTo_congr (fun k _ => ?_)
  unfold cobbGrad
  ring

/-- non-vacuity: two slots, equal weights, flow `(1, 4)`. -/
example : (∀ i < 2, (0:ℝ) < (fun i => if i = 0 then (1:ℝ) else 4) i)
    ∧ sumTo 2 (fun _ => (1:ℝ)) ≠ 0 := by
  refine ⟨fun i _ => ?_, ?_⟩
  · by_cases h : i = 0 <;> simp [h]
  · simp [sumTo]

/-! ## InformationEntropy -/

/-- `deriv` of `InformationEntropy(c)` approximates `c·sign(r_k)/Σ|r|·(log p_k − Σ p_i log p_i)`:
the exact gradient of the cost wherever no flow is zero (either sign). -/
theorem entropy_grad (c : ℝ) (n : ℕ) (s : ℕ → ℝ) (hs : ∀ i < n, s i ≠ 0) :
    IsGradAt n (entropyCost c n) (entropyGrad c n s) s := by
  intro d
  rcases Nat.eq_zero_or_pos n with rfl | hn
  · simpa [entropyCost, sumTo] using hasDerivAt_const (0:ℝ) (c * 0)
  have hT0 : absMass n s ≠ 0 := ne_of_gt (absMass_pos n s hn hs)
  have h := (entropySum_line_hasDerivAt n s d hn hs).const_mul c
  have hf : (fun τ => entropyCost c n (line s d τ))
      = fun τ => c * sumTo n (fun i => entP n (line s d τ) i * Real.log (entP n (line s d τ) i)) := by
    funext τ
    unfold entropyCost
    congr 1
    exact sumTo_congr (fun i _ => entTerm_eq n _ i)
  rw [hf]
  refine HasDerivAt.congr_deriv h ?_
  -- the algebra (`entropy_algebra`): L_i = log p_i, A_i = |s_i|, e_i = sign(s_i)·d_i, Σ p_i L_i = Σ (A_i/T) L_i
  have hE : sumTo n (entTerm n s) = sumTo n (fun i => |s i| / absMass n s * Real.log (entP n s i)) :=
    sumTo_congr (fun i _ => by rw [entTerm_eq]; rfl)
  have ha := entropy_algebra n (fun i => Real.log (entP n s i)) (fun i => ((sgn (s i) : ℤ) : ℝ) * d i)
    (fun i => |s i|) (absMass n s) (sumTo n (fun j => ((sgn (s j) : ℤ) : ℝ) * d j)) hT0 rfl rfl
  rw [ha, ← sumTo_mul_left]
  refine sumTo_congr (fun k _ => ?_)
  unfold entropyGrad
  rw [hE]
  ring

/-- non-vacuity: mixed signs, `n = 2`, flow `(1, −3)`. -/
example : ∀ i < 2, (fun i => if i = 0 then (1:ℝ) else -3) i ≠ 0 := by
  intro i _
  by_cases h : i = 0 <;> simp [h]

end DK.C01nd
