import DK.Props.Defs
import DK.Lemmas.FnCalc
/-!
# C01 (preference-function combinators): by structural induction, every nesting at once

* `fn_grad`      : `f.deriv n x` is the gradient of `f.eval n` at `x` (Gateaux form `IsGradAt`);
* `fn_hess`      : `f.hess n x` is the Jacobian of `f.deriv n` at `x` (`IsHessAt`);
* `fn_hess_symm` : `f.hess n x` is symmetric.

The first two hold at every kink-free point (`NoKink`): integer ABC exponents `≥ 1`, `append`
split points inside the vector, a unique maximum for `demand`.
-/
namespace DK.C01c
open DK Filter Topology

theorem fn_grad (f : Fn ℝ) (n : ℕ) (x : ℕ → ℝ) (hk : NoKink f n x) :
    IsGradAt n (fun y => f.eval n y) (f.deriv n x) x := by
  induction f generalizing n x with
  | null => exact (isGradAt_const n 0 x).congr (fun _ => rfl) (fun _ _ => rfl)
  | add f g ihf ihg =>
    obtain ⟨h1, h2⟩ := hk
    exact ((ihf n x h1).add (ihg n x h2)).congr (fun _ => rfl) (fun _ _ => rfl)
  | reflect f ih =>
    have h1 : NoKink f n (fun i => - x i) := hk
    exact (isGradAt_neg_arg (ih n _ h1)).congr (fun _ => rfl) (fun _ _ => rfl)
  | poly cs off =>
    refine (isGradAt_separable (n := n) (φ := fun k t => polyEval (cs k) (t + off k))
      (φ' := fun k => polyEval (polyDer (cs k)) (x k + off k)) (x := x) ?_).congr
      (fun _ => rfl) (fun _ _ => rfl)
    intro k _
    have h1 : HasDerivAt (fun t : ℝ => t + off k) 1 (x k) := (hasDerivAt_id (x k)).add_const (off k)
    have h2 := HasDerivAt.comp (x k) (polyEval_hasDerivAt (cs k) (x k + off k)) h1
    refine HasDerivAt.congr_deriv h2 ?_
    ring
  | hlq pl ph xl xh =>
    exact (isGradAt_separable (n := n) (φ := fun k t => hlqCost (pl k) (ph k) (xl k) (xh k) t)
      (φ' := fun k => hlqDeriv (pl k) (ph k) (xl k) (xh k) (x k)) (x := x)
      (fun k _ => hlqCost_hasDerivAt _ _ _ _ _)).congr (fun _ => rfl) (fun _ _ => rfl)
  | abc a b c xl xh =>
    have hb : ∀ k < n, 1 ≤ b k := hk
    exact (isGradAt_separable (n := n)
      (φ := fun k t => abcCost ipow t (a k) (b k) (c k) (xl k) (xh k))
      (φ' := fun k => abcDeriv ipow intCast' (x k) (a k) (b k) (c k) (xl k) (xh k)) (x := x)
      (fun k hkn => abcCost_hasDerivAt _ _ _ _ _ _ (hb k hkn))).congr
      (fun _ => rfl) (fun _ _ => rfl)
  | innerHlq pl ph xl xh =>
    exact (isGradAt_comp_sum (n := n) (φ := fun t => hlqCost pl ph xl xh t) (x := x)
      (hlqCost_hasDerivAt pl ph xl xh (sumTo n x))).congr (fun _ => rfl) (fun _ _ => rfl)
  | append k f g ihf ihg =>
    obtain ⟨hkn, h1, h2⟩ := hk
    exact (isGradAt_append hkn (ihf k x h1) (ihg (n - k) _ h2)).congr
      (fun _ => rfl) (fun _ _ => rfl)
  | demand cs =>
    obtain ⟨hn, hu⟩ := hk
    have hm := argmax_lt n x hn
    intro d
    have ev := argmax_line_eventually n x d hn hu
    have h1 : HasDerivAt (fun τ => polyEval cs (line x d τ (argmax n x)))
        (polyEval (polyDer cs) (x (argmax n x)) * d (argmax n x)) 0 :=
      comp_line x d (argmax n x) (polyEval_hasDerivAt cs (x (argmax n x)))
    have h2 : HasDerivAt (fun τ => (Fn.demand cs).eval n (line x d τ))
        (polyEval (polyDer cs) (x (argmax n x)) * d (argmax n x)) 0 := by
      refine h1.congr_of_eventuallyEq ?_
      filter_upwards [ev] with τ hτ
      simp only [Fn.eval, hτ]
    refine HasDerivAt.congr_deriv h2 ?_
    rw [← sumTo_single n (argmax n x) hm (fun k => polyEval (polyDer cs) (x k) * d k)]
    apply sumTo_congr
    intro k _
    simp only [Fn.deriv]
    by_cases h : k = argmax n x <;> simp [h]

/-- a nested tree using every constructor. -/
noncomputable def witnessFn : Fn ℝ :=
    (Fn.append 1 (Fn.demand [1, 2, 3])
      (Fn.add (Fn.reflect (Fn.abc (fun _ => 2) (fun _ => 2) (fun _ => 1) (fun _ => 0) (fun _ => 1)))
        (Fn.add (Fn.poly (fun _ => [1, 0, 1]) (fun _ => 0))
          (Fn.add (Fn.hlq (fun _ => 0) (fun _ => 1) (fun _ => 0) (fun _ => 2))
            (Fn.add (Fn.innerHlq 0 1 0 2) (Fn.add Fn.null (Fn.demand [1, 0])))))))

/-- non-vacuity of `fn_grad` / `fn_hess`: `witnessFn` is kink-free at `x = (0, 1, 2)`. -/
theorem noKink_witness : NoKink witnessFn 3 (fun i => (i : ℝ)) := by
  simp only [witnessFn, NoKink]
  refine ⟨by omega, ⟨by omega, ?_⟩, ?_, trivial, trivial, trivial, trivial, by omega, ?_⟩
  · intro j hj hne
    have : j = 0 := by omega
    subst this
    exact absurd (by simp [argmax]) hne
  · intro k _; exact le_of_eq (by norm_num) |>.trans (by norm_num : (1:ℤ) ≤ 2)
  · intro j hj hne
    have e : argmax (3 - 1) (fun i => ((1 + i : ℕ) : ℝ)) = 1 := by
      simp [argmax]
    rw [e] at hne ⊢
    have : j = 0 := by omega
    subst this
    norm_num

example : IsGradAt 3 (fun y => witnessFn.eval 3 y) (witnessFn.deriv 3 (fun i => (i : ℝ)))
    (fun i => (i : ℝ)) := fn_grad _ _ _ noKink_witness

theorem fn_hess (f : Fn ℝ) (n : ℕ) (x : ℕ → ℝ) (hk : NoKink f n x) :
    IsHessAt n (fun y => f.deriv n y) (f.hess n x) x := by
  induction f generalizing n x with
  | null =>
    intro i _
    exact (isGradAt_const n 0 x).congr (fun _ => rfl) (fun _ _ => rfl)
  | add f g ihf ihg =>
    obtain ⟨h1, h2⟩ := hk
    intro i hi
    exact ((ihf n x h1 i hi).add (ihg n x h2 i hi)).congr (fun _ => rfl) (fun _ _ => rfl)
  | reflect f ih =>
    have h1 : NoKink f n (fun i => - x i) := hk
    intro i hi
    exact (isGradAt_neg_neg (ih n _ h1 i hi)).congr (fun _ => rfl) (fun _ _ => rfl)
  | poly cs off =>
    intro i hi
    refine (isGradAt_coord (n := n) hi (ψ := fun t => polyEval (polyDer (cs i)) (t + off i))
      (ψ' := polyEval (polyDer (polyDer (cs i))) (x i + off i)) (x := x) ?_).congr
      (fun _ => rfl) (fun _ _ => rfl)
    have h1 : HasDerivAt (fun t : ℝ => t + off i) 1 (x i) := (hasDerivAt_id (x i)).add_const (off i)
    have h2 := HasDerivAt.comp (x i) (polyEval_hasDerivAt (polyDer (cs i)) (x i + off i)) h1
    refine HasDerivAt.congr_deriv h2 ?_
    ring
  | hlq pl ph xl xh =>
    intro i hi
    exact (isGradAt_coord (n := n) hi (ψ := fun t => hlqDeriv (pl i) (ph i) (xl i) (xh i) t)
      (x := x) (hlqDeriv_hasDerivAt _ _ _ _ _)).congr (fun _ => rfl) (fun _ _ => rfl)
  | abc a b c xl xh =>
    have hb : ∀ k < n, 1 ≤ b k := hk
    intro i hi
    exact (isGradAt_coord (n := n) hi
      (ψ := fun t => abcDeriv ipow intCast' t (a i) (b i) (c i) (xl i) (xh i)) (x := x)
      (abcDeriv_hasDerivAt _ _ _ _ _ _ (hb i hi))).congr (fun _ => rfl) (fun _ _ => rfl)
  | innerHlq pl ph xl xh =>
    intro i _
    exact (isGradAt_comp_sum (n := n) (φ := fun t => hlqDeriv pl ph xl xh t) (x := x)
      (hlqDeriv_hasDerivAt pl ph xl xh (sumTo n x))).congr (fun _ => rfl) (fun _ _ => rfl)
  | append k f g ihf ihg =>
    obtain ⟨hkn, h1, h2⟩ := hk
    intro i hi
    by_cases hik : i < k
    · refine (isGradAt_extend hkn (ihf k x h1 i hik)).congr ?_ ?_
      · intro y; simp only [Fn.deriv, hik, if_true]
      · intro j _; simp only [Fn.hess, hik, if_true]
    · have hik' : i - k < n - k := by omega
      refine (isGradAt_shift hkn (ihg (n - k) _ h2 (i - k) hik')).congr ?_ ?_
      · intro y; simp only [Fn.deriv, hik, if_false]
      · intro j _; simp only [Fn.hess, hik, if_false]
  | demand cs =>
    obtain ⟨hn, hu⟩ := hk
    intro i hi d
    have ev := argmax_line_eventually n x d hn hu
    by_cases him : i = argmax n x
    · have h1 := isGradAt_coord (n := n) hi (ψ := fun t => polyEval (polyDer cs) t) (x := x)
        (polyEval_hasDerivAt (polyDer cs) (x i)) d
      have h2 : HasDerivAt (fun τ => (Fn.demand cs).deriv n (line x d τ) i)
          (sumTo n fun k => (if i = k then polyEval (polyDer (polyDer cs)) (x i) else 0) * d k) 0 := by
        refine h1.congr_of_eventuallyEq ?_
        filter_upwards [ev] with τ hτ
        simp only [Fn.deriv, hτ, him, if_true]
      refine HasDerivAt.congr_deriv h2 ?_
      apply sumTo_congr
      intro j _
      simp only [Fn.hess, him, if_true]
    · have h1 := isGradAt_const n 0 x d
      have h2 : HasDerivAt (fun τ => (Fn.demand cs).deriv n (line x d τ) i)
          (sumTo n fun k => (0:ℝ) * d k) 0 := by
        refine h1.congr_of_eventuallyEq ?_
        filter_upwards [ev] with τ hτ
        simp only [Fn.deriv, hτ, him, if_false]
      refine HasDerivAt.congr_deriv h2 ?_
      apply sumTo_congr
      intro j _
      simp only [Fn.hess, him, if_false, ite_self]

example : IsHessAt 3 (fun y => witnessFn.deriv 3 y) (witnessFn.hess 3 (fun i => (i : ℝ)))
    (fun i => (i : ℝ)) := fn_hess _ _ _ noKink_witness

/-- symmetry of the Hessian at every pair of indices (no bound needed). -/
theorem fn_hess_symm' (f : Fn ℝ) (n : ℕ) (x : ℕ → ℝ) (i j : ℕ) :
    f.hess n x i j = f.hess n x j i := by
  induction f generalizing n x i j with
  | null => rfl
  | add f g ihf ihg => simp only [Fn.hess]; rw [ihf, ihg]
  | reflect f ih => simp only [Fn.hess]; rw [ih]
  | poly cs off =>
    simp only [Fn.hess]
    by_cases h : i = j
    · subst h; rfl
    · have h' : ¬ j = i := fun e => h e.symm
      simp [h, h']
  | hlq pl ph xl xh =>
    simp only [Fn.hess]
    by_cases h : i = j
    · subst h; rfl
    · have h' : ¬ j = i := fun e => h e.symm
      simp [h, h']
  | abc a b c xl xh =>
    simp only [Fn.hess]
    by_cases h : i = j
    · subst h; rfl
    · have h' : ¬ j = i := fun e => h e.symm
      simp [h, h']
  | innerHlq pl ph xl xh => rfl
  | append k f g ihf ihg =>
    simp only [Fn.hess]
    by_cases hi : i < k <;> by_cases hj : j < k <;> simp only [hi, hj, if_true, if_false]
    · exact ihf _ _ _ _
    · exact ihg _ _ _ _
  | demand cs =>
    simp only [Fn.hess]
    by_cases h : i = j
    · subst h; rfl
    · have h' : ¬ j = i := fun e => h e.symm
      simp [h, h']

theorem fn_hess_symm (f : Fn ℝ) (n : ℕ) (x : ℕ → ℝ) :
    ∀ i < n, ∀ j < n, f.hess n x i j = f.hess n x j i :=
  fun i _ j _ => fn_hess_symm' f n x i j

end DK.C01c

#print axioms DK.C01c.fn_grad
#print axioms DK.C01c.fn_hess
#print axioms DK.C01c.fn_hess_symm
